import FancyModel.Lemmas.SimCompile4
import FancyModel.Lemmas.Atomize2
/-!
# Stage S5, machine half: delegated runs with capture groups anywhere below the top

`sim5_visit`: the code `visit br e hard` emits simulates the semantics of `atomizeP br e hard`
(Spec/Stage5.lean) — the tree in which every delegated run that owns capture groups and is not linear
is wrapped in an atomic group. It is `sim3_visit` (Lemmas/SimCompile3.lean) with `sim4_run`
(Lemmas/SimCompile4.lean) at the two call sites for the runs of a concatenation; the leaves are handed to
`sim3_visit` itself. Look-behind bodies: the layouts are wrapped around the code of `e` while the semantics
is that of `atomizeP br e false` (`sim5_posBehind_wrap`, `sim5_negBehind_wrap`; `atomizeP_const`,
`atomizeP_isAlt`: the atomized body has the same constant size, `noBareEndZ`, alternation shape).

The combinators for the loops want the body well shaped and of positive minimum size:
`atomizeP_shape` (both are kept by `atomizeP`).
-/
namespace Fancy

/-! ## The atomized tree keeps the shape and the minimum size -/

theorem satAdd_assoc5 (a b c : Nat) : satAdd (satAdd a b) c = satAdd a (satAdd b c) := by
  unfold satAdd; omega

theorem minSizeSum_le5 : ∀ (es : List Expr), minSizeSum es ≤ UNSET
  | [] => by simp [minSizeSum]
  | e :: es => by simp only [minSizeSum]; unfold satAdd; omega

theorem minSizeSum_append5 : ∀ (a b : List Expr), minSizeSum (a ++ b) = satAdd (minSizeSum a) (minSizeSum b)
  | [], b => by
    have := minSizeSum_le5 b
    simp only [List.nil_append, minSizeSum]; unfold satAdd; omega
  | e :: a, b => by
    simp only [List.cons_append, minSizeSum, minSizeSum_append5 a b, satAdd_assoc5]

theorem minSizeSum_runA5 (es : List Expr) : minSizeSum (runA5 es) = minSizeSum es := by
  unfold runA5
  split
  · rfl
  · have := minSizeSum_le5 es
    simp only [minSizeSum, minSize]; unfold satAdd; omega

theorem wellShapedAll_runA5 (es : List Expr) : wellShapedAll (runA5 es) = wellShapedAll es := by
  unfold runA5
  split
  · rfl
  · simp [wellShapedAll, wellShaped]

theorem wellShapedAll_append5 : ∀ (a b : List Expr), wellShapedAll (a ++ b) = (wellShapedAll a && wellShapedAll b)
  | [], b => by simp [wellShapedAll]
  | e :: a, b => by simp [wellShapedAll, wellShapedAll_append5 a b, Bool.and_assoc]

theorem minSizeSum_map_of (f : Expr → Expr) : ∀ (es : List Expr), (∀ e, e ∈ es → minSize (f e) = minSize e) →
    minSizeSum (es.map f) = minSizeSum es
  | [], _ => rfl
  | e :: es, h => by
    simp only [List.map_cons, minSizeSum, h e (by simp),
      minSizeSum_map_of f es (fun e' he' => h e' (by simp [he']))]

theorem minSizeMin_map_of (f : Expr → Expr) : ∀ (es : List Expr), (∀ e, e ∈ es → minSize (f e) = minSize e) →
    minSizeMin (es.map f) = minSizeMin es
  | [], _ => rfl
  | [e], h => by simp only [List.map_cons, List.map_nil, minSizeMin, h e (by simp)]
  | e :: e2 :: es, h => by
    have ih := minSizeMin_map_of f (e2 :: es) (fun e' he' => h e' (by simp [he']))
    simp only [List.map_cons] at ih ⊢
    simp only [minSizeMin, h e (by simp)]
    rw [ih]

theorem wellShapedAll_map_of (f : Expr → Expr) : ∀ (es : List Expr), (∀ e, e ∈ es → wellShaped (f e) = true) →
    wellShapedAll (es.map f) = true
  | [], _ => rfl
  | e :: es, h => by
    simp only [List.map_cons, wellShapedAll, h e (by simp),
      wellShapedAll_map_of f es (fun e' he' => h e' (by simp [he'])), Bool.and_self]

theorem concat_three (es : List Expr) (a b : Nat) (hab : a ≤ b) :
    es = es.take a ++ ((es.drop a).take (b - a) ++ es.drop b) := by
  have h1 : es.drop a = (es.drop a).take (b - a) ++ (es.drop a).drop (b - a) := (List.take_append_drop _ _).symm
  have h2 : (es.drop a).drop (b - a) = es.drop b := by
    rw [List.drop_drop]; congr 1; omega
  rw [← h2, ← h1, List.take_append_drop]

/-- `atomizeP` keeps well-shapedness and the minimum size -/
theorem atomizeP_shape (br : Nat → Bool) : ∀ (e : Expr) (hard : Bool),
    (wellShaped e = true → wellShaped (atomizeP br e hard) = true) ∧ minSize (atomizeP br e hard) = minSize e
  | e, hard => by
    by_cases hdel : (!hard && !isHard br e) = true
    · rw [atomizeP_easy br e hard hdel]; exact ⟨id, rfl⟩
    · cases e with
      | concat es =>
        rw [atomizeP]
        simp only [hdel, Bool.false_eq_true, ↓reduceIte]
        have hle := concatSplit_le br es hard
        generalize concatSplit br es hard = sp at hle ⊢
        rw [atomizeAll_eq_map, ← List.map_drop, ← List.map_take]
        have hmem : ∀ e', e' ∈ (es.drop sp.1).take (sp.2 - sp.1) → e' ∈ es :=
          fun e' he' => List.mem_of_mem_drop (List.mem_of_mem_take he')
        have hsuf : wellShapedAll (if hard = true then runA5 (es.drop sp.2) else es.drop sp.2) = wellShapedAll (es.drop sp.2) ∧
            minSizeSum (if hard = true then runA5 (es.drop sp.2) else es.drop sp.2) = minSizeSum (es.drop sp.2) := by
          cases hard with
          | true => simp only [if_true]; exact ⟨wellShapedAll_runA5 _, minSizeSum_runA5 _⟩
          | false => simp
        refine ⟨fun hw => ?_, ?_⟩
        · simp only [wellShaped] at hw ⊢
          rw [wellShapedAll_append5, wellShapedAll_append5, wellShapedAll_runA5, hsuf.1,
            wellShapedAll_take es sp.1 hw, wellShapedAll_drop es sp.2 hw]
          rw [wellShapedAll_map_of _ _ (fun e' he' => by
            have := List.sizeOf_lt_of_mem (hmem e' he')
            exact (atomizeP_shape br e' true).1 (wellShapedAll_mem' es hw e' (hmem e' he')))]
          rfl
        · simp only [minSize]
          rw [minSizeSum_append5, minSizeSum_append5, minSizeSum_runA5, hsuf.2]
          rw [minSizeSum_map_of _ _ (fun e' he' => by
            have := List.sizeOf_lt_of_mem (hmem e' he')
            exact (atomizeP_shape br e' true).2)]
          rw [← minSizeSum_append5, ← minSizeSum_append5, ← concat_three es sp.1 sp.2 hle.1]
      | alt es =>
        rw [atomizeP]
        simp only [hdel, Bool.false_eq_true, ↓reduceIte]
        rw [atomizeAlts_eq_map]
        refine ⟨fun hw => ?_, ?_⟩
        · simp only [wellShaped, Bool.and_eq_true] at hw ⊢
          refine ⟨by simpa using hw.1, ?_⟩
          exact wellShapedAll_map_of _ _ (fun e' he' => by
            have := List.sizeOf_lt_of_mem he'
            exact (atomizeP_shape br e' hard).1 (wellShapedAll_mem' es hw.2 e' he'))
        · simp only [minSize]
          exact minSizeMin_map_of _ _ (fun e' he' => by
            have := List.sizeOf_lt_of_mem he'
            exact (atomizeP_shape br e' hard).2)
      | group g e =>
        rw [atomizeP]
        simp only [hdel, Bool.false_eq_true, ↓reduceIte]
        simp only [wellShaped, minSize]
        exact atomizeP_shape br e hard
      | «repeat» e lo hi gr =>
        rw [atomizeP]
        simp only [hdel, Bool.false_eq_true, ↓reduceIte]
        simp only [wellShaped, minSize]
        have := atomizeP_shape br e (if (lo == 0 && hi == some 1) = true then hard else true)
        exact ⟨this.1, by rw [this.2]⟩
      | look e la =>
        rw [atomizeP]
        simp only [hdel, Bool.false_eq_true, ↓reduceIte]
        simp only [wellShaped, minSize]
        exact ⟨(atomizeP_shape br e false).1, trivial⟩
      | atomic e =>
        rw [atomizeP]
        simp only [hdel, Bool.false_eq_true, ↓reduceIte]
        simp only [wellShaped, minSize]
        exact atomizeP_shape br e false
      | cond cnd y no =>
        rw [atomizeP]
        simp only [hdel, Bool.false_eq_true, ↓reduceIte]
        simp only [wellShaped, minSize, Bool.and_eq_true]
        have h1 := atomizeP_shape br cnd hard
        have h2 := atomizeP_shape br y hard
        have h3 := atomizeP_shape br no hard
        exact ⟨fun hw => ⟨⟨h1.1 hw.1.1, h2.1 hw.1.2⟩, h3.1 hw.2⟩, by rw [h1.2, h2.2, h3.2]⟩
      | _ =>
        rw [atomizeP.eq_def]
        simp only [hdel, Bool.false_eq_true, ↓reduceIte]
        exact ⟨id, by simp⟩
termination_by e => sizeOf e
decreasing_by all_goals (simp_wf; (try subst_vars); (try simp); (try omega))


/-! ## … and the constant size, `noBareEndZ`, being an alternation (for look-behind bodies) -/

theorem constSizeAll_append5 : ∀ (a b : List Expr), constSizeAll (a ++ b) = (constSizeAll a && constSizeAll b)
  | [], b => by simp [constSizeAll]
  | e :: a, b => by simp [constSizeAll, constSizeAll_append5 a b, Bool.and_assoc]

theorem noBareEndZAll_append5 : ∀ (a b : List Expr), noBareEndZAll (a ++ b) = (noBareEndZAll a && noBareEndZAll b)
  | [], b => by simp [noBareEndZAll]
  | e :: a, b => by simp [noBareEndZAll, noBareEndZAll_append5 a b, Bool.and_assoc]

theorem constSizeAll_runA5 (es : List Expr) : constSizeAll (runA5 es) = constSizeAll es := by
  unfold runA5
  split
  · rfl
  · simp [constSizeAll, constSize]

theorem noBareEndZAll_runA5 (es : List Expr) : noBareEndZAll (runA5 es) = noBareEndZAll es := by
  unfold runA5
  split
  · rfl
  · simp [noBareEndZAll, noBareEndZ]

theorem constSizeAll_map_of (f : Expr → Expr) : ∀ (es : List Expr), (∀ e, e ∈ es → constSize (f e) = constSize e) →
    constSizeAll (es.map f) = constSizeAll es
  | [], _ => rfl
  | e :: es, h => by
    simp only [List.map_cons, constSizeAll, h e (by simp),
      constSizeAll_map_of f es (fun e' he' => h e' (by simp [he']))]

theorem noBareEndZAll_map_of (f : Expr → Expr) : ∀ (es : List Expr), (∀ e, e ∈ es → noBareEndZ (f e) = noBareEndZ e) →
    noBareEndZAll (es.map f) = noBareEndZAll es
  | [], _ => rfl
  | e :: es, h => by
    simp only [List.map_cons, noBareEndZAll, h e (by simp),
      noBareEndZAll_map_of f es (fun e' he' => h e' (by simp [he']))]

theorem allMinSize_map_of (f : Expr → Expr) (m : Nat) : ∀ (es : List Expr), (∀ e, e ∈ es → minSize (f e) = minSize e) →
    allMinSize m (es.map f) = allMinSize m es
  | [], _ => rfl
  | e :: es, h => by
    simp only [List.map_cons, allMinSize, h e (by simp),
      allMinSize_map_of f m es (fun e' he' => h e' (by simp [he']))]

/-- `atomizeP` keeps the constant size and `noBareEndZ` -/
theorem atomizeP_const (br : Nat → Bool) : ∀ (e : Expr) (hard : Bool),
    constSize (atomizeP br e hard) = constSize e ∧ noBareEndZ (atomizeP br e hard) = noBareEndZ e
  | e, hard => by
    by_cases hdel : (!hard && !isHard br e) = true
    · rw [atomizeP_easy br e hard hdel]; exact ⟨rfl, rfl⟩
    · cases e with
      | concat es =>
        rw [atomizeP]
        simp only [hdel, Bool.false_eq_true, ↓reduceIte]
        have hle := concatSplit_le br es hard
        generalize concatSplit br es hard = sp at hle ⊢
        rw [atomizeAll_eq_map, ← List.map_drop, ← List.map_take]
        have hmem : ∀ e', e' ∈ (es.drop sp.1).take (sp.2 - sp.1) → e' ∈ es :=
          fun e' he' => List.mem_of_mem_drop (List.mem_of_mem_take he')
        have hsuf : constSizeAll (if hard = true then runA5 (es.drop sp.2) else es.drop sp.2) = constSizeAll (es.drop sp.2) ∧
            noBareEndZAll (if hard = true then runA5 (es.drop sp.2) else es.drop sp.2) = noBareEndZAll (es.drop sp.2) := by
          cases hard with
          | true => simp only [if_true]; exact ⟨constSizeAll_runA5 _, noBareEndZAll_runA5 _⟩
          | false => simp
        refine ⟨?_, ?_⟩
        · simp only [constSize]
          rw [constSizeAll_append5, constSizeAll_append5, constSizeAll_runA5, hsuf.1]
          rw [constSizeAll_map_of _ _ (fun e' he' => by
            have := List.sizeOf_lt_of_mem (hmem e' he')
            exact (atomizeP_const br e' true).1)]
          rw [← constSizeAll_append5, ← constSizeAll_append5, ← concat_three es sp.1 sp.2 hle.1]
        · simp only [noBareEndZ]
          rw [noBareEndZAll_append5, noBareEndZAll_append5, noBareEndZAll_runA5, hsuf.2]
          rw [noBareEndZAll_map_of _ _ (fun e' he' => by
            have := List.sizeOf_lt_of_mem (hmem e' he')
            exact (atomizeP_const br e' true).2)]
          rw [← noBareEndZAll_append5, ← noBareEndZAll_append5, ← concat_three es sp.1 sp.2 hle.1]
      | alt es =>
        rw [atomizeP]
        simp only [hdel, Bool.false_eq_true, ↓reduceIte]
        rw [atomizeAlts_eq_map]
        have hcs : ∀ e', e' ∈ es → constSize (atomizeP br e' hard) = constSize e' := fun e' he' => by
          have := List.sizeOf_lt_of_mem he'
          exact (atomizeP_const br e' hard).1
        have hnz : ∀ e', e' ∈ es → noBareEndZ (atomizeP br e' hard) = noBareEndZ e' := fun e' he' => by
          have := List.sizeOf_lt_of_mem he'
          exact (atomizeP_const br e' hard).2
        have hms : ∀ e', e' ∈ es → minSize (atomizeP br e' hard) = minSize e' := fun e' _ => (atomizeP_shape br e' hard).2
        refine ⟨?_, ?_⟩
        · simp only [constSize]
          rw [constSizeAll_map_of _ _ hcs]
          cases es with
          | nil => rfl
          | cons e0 es' =>
            have h2 := allMinSize_map_of (fun e => atomizeP br e hard) (minSize e0) (e0 :: es') hms
            simp only [List.map_cons] at h2 ⊢
            rw [hms e0 (by simp), h2]
        · simp only [noBareEndZ]
          exact noBareEndZAll_map_of _ _ hnz
      | group g e =>
        rw [atomizeP]
        simp only [hdel, Bool.false_eq_true, ↓reduceIte]
        simp only [constSize, noBareEndZ]
        exact atomizeP_const br e hard
      | «repeat» e lo hi gr =>
        rw [atomizeP]
        simp only [hdel, Bool.false_eq_true, ↓reduceIte]
        simp only [constSize, noBareEndZ]
        have := atomizeP_const br e (if (lo == 0 && hi == some 1) = true then hard else true)
        exact ⟨by rw [this.1], this.2⟩
      | look e la =>
        rw [atomizeP]
        simp only [hdel, Bool.false_eq_true, ↓reduceIte]
        simp only [constSize, noBareEndZ]
        exact ⟨trivial, trivial⟩
      | atomic e =>
        rw [atomizeP]
        simp only [hdel, Bool.false_eq_true, ↓reduceIte]
        simp only [constSize, noBareEndZ]
        exact atomizeP_const br e false
      | cond cnd y no =>
        rw [atomizeP]
        simp only [hdel, Bool.false_eq_true, ↓reduceIte]
        simp only [constSize, noBareEndZ]
        have h1 := atomizeP_const br cnd hard
        have h2 := atomizeP_const br y hard
        have h3 := atomizeP_const br no hard
        exact ⟨by rw [h1.1, h2.1, h3.1, (atomizeP_shape br cnd hard).2, (atomizeP_shape br y hard).2,
          (atomizeP_shape br no hard).2], by rw [h1.2, h2.2, h3.2]⟩
      | _ =>
        rw [atomizeP.eq_def]
        simp only [hdel, Bool.false_eq_true, ↓reduceIte]
        exact ⟨by simp, by simp⟩
termination_by e => sizeOf e
decreasing_by all_goals (simp_wf; (try subst_vars); (try simp); (try omega))

theorem atomizeP_isAlt (br : Nat → Bool) (e : Expr) (hard : Bool) : isAlt (atomizeP br e hard) = isAlt e := by
  by_cases hdel : (!hard && !isHard br e) = true
  · rw [atomizeP_easy br e hard hdel]
  · rw [atomizeP.eq_def]
    simp only [hdel, Bool.false_eq_true, ↓reduceIte]
    cases e <;> simp [isAlt]

theorem atomizeAlts_easy (br : Nat → Bool) : ∀ (es : List Expr), isHardAny br es = false → atomizeAlts br es false = es
  | [], _ => rfl
  | e :: es, h => by
    simp only [isHardAny, Bool.or_eq_false_iff] at h
    simp only [atomizeAlts, atomizeP_easy br e false (by simp [h.1]), atomizeAlts_easy br es h.2]

/-- in a non-hard context an alternation is atomized alternative by alternative (also when it is handed
    over whole: then nothing changes) -/
theorem atomizeP_alt_false (br : Nat → Bool) (es : List Expr) :
    atomizeP br (.alt es) false = .alt (atomizeAlts br es false) := by
  by_cases h : isHardAny br es = true
  · rw [atomizeP]; simp [isHard, h]
  · have h' : isHardAny br es = false := by simpa using h
    rw [atomizeP_easy br _ false (by simp [isHard, h']), atomizeAlts_easy br es h']

theorem constSizeAll_atomizeAlts (br : Nat → Bool) (es : List Expr) (hard : Bool) :
    constSizeAll (atomizeAlts br es hard) = constSizeAll es := by
  rw [atomizeAlts_eq_map]
  exact constSizeAll_map_of _ _ (fun e _ => (atomizeP_const br e hard).1)

theorem s5ok_easy (br : Nat → Bool) (e : Expr) (h : isHard br e = false) : s5ok br e false = true := by
  rw [s5ok.eq_def]; simp [h]

theorem s5okAlts_easy (br : Nat → Bool) : ∀ (es : List Expr), isHardAny br es = false → s5okAlts br es false = true
  | [], _ => by simp [s5okAlts]
  | e :: es, h => by
    simp only [isHardAny, Bool.or_eq_false_iff] at h
    simp only [s5okAlts, Bool.and_eq_true]
    exact ⟨s5ok_easy br e h.1, s5okAlts_easy br es h.2⟩

theorem s5ok_alt_alts (br : Nat → Bool) (es : List Expr) (h : s5ok br (.alt es) false = true) :
    s5okAlts br es false = true := by
  by_cases hh : isHardAny br es = true
  · rw [s5ok] at h
    simp only [isHard, hh, Bool.not_true, Bool.and_false, Bool.false_eq_true, ↓reduceIte, Bool.and_eq_true] at h
    exact h.2
  · exact s5okAlts_easy br es (by simpa using hh)

/-! ## Look-behind layouts around the code of `e`, against the semantics of another tree `e'` of the same
minimum size (`e' = atomizeP br e false`) -/

theorem sim5_posBehind_wrap (c : Ctx) (n nS : Nat) (br : Nat → Bool) (hlen : c.len < UNSET)
    (e e' : Expr) (pc nsv gix : Nat) (code1 : Code) (nsv1 : Nat) (prog : List Insn)
    (h3e : H3 n e gix) (hcf : condFree e = true) (hm : minSize e' = minSize e) (heq : isHard br e = false → e' = e)
    (hb : visit br e false (posLookBodyPc (isHard br e) true pc) (nsv + 1) gix = .ok (code1, nsv1))
    (hc : CodeAt prog pc (wrapPosLook (isHard br e) true nsv (minSize e) code1)) (hnn : n ≤ nsv)
    (ih : SimOf3 c n nS prog (nsv + 1) nsv1 (condFree e) false (sem c e')
      (posLookBodyPc (isHard br e) true pc) (posLookBodyPc (isHard br e) true pc + code1.length)) :
    nsv + 1 ≤ nsv1 ∧ (nsv1 ≤ nS → ∀ cm, Sim2 c n nS prog nsv nsv1 true cm (posBehindOne c e') pc
      (pc + (wrapPosLook (isHard br e) true nsv (minSize e) code1).length)) := by
  by_cases hh : isHard br e = true
  · obtain ⟨hle, ihs⟩ := ih
    rw [← hm] at hc ⊢
    simp only [hh, wrapPosLook, posLookBodyPc, ↓reduceIte, Nat.add_zero] at hc hb ihs ⊢
    refine ⟨hle, fun hnS cm => ?_⟩
    have hbody := ihs hnS true (Or.inr rfl)
    rw [hcf] at hbody
    have hsave : prog[pc + 1]? = some (.save nsv) := hc.left.right.left.left.left.head_at (by addr)
    have hback : prog[pc + 2]? = some (.goBack (minSize e')) := hc.left.right.left.left.right.head_at (by addr)
    have hrestore : prog[pc + 3 + code1.length]? = some (.restore nsv) := hc.left.right.right.head_at (by addr)
    have hend : prog[pc + 3 + code1.length + 1]? = some .endAtomic := hc.right.head_at (by addr)
    have := sim2_posbehind_atomic (cm := cm) (body := sem c e') (slot := nsv) (hi := nsv1) (a := pc)
      (m := pc + 3 + code1.length) (k := minSize e')
      hc.left.left.head hsave hback hrestore hend hnn (by omega) (by omega) (by omega)
      (hbody.cast (by omega) (by omega)) (keepsGood_sem c n e')
    exact this.cast rfl (by addr)
  · have hh' : isHard br e = false := by simpa using hh
    have := heq hh'
    subst this
    exact sim3_posBehind_wrap c n nS br hlen _ pc nsv gix code1 nsv1 prog h3e hcf hb hc hnn ih

theorem sim5_negBehind_wrap (c : Ctx) (n nS : Nat)
    (e e' : Expr) (pc nsv : Nat) (code1 : Code) (nsv1 : Nat) (prog : List Insn) (hm : minSize e' = minSize e)
    (hc : CodeAt prog pc (wrapNegLook true pc (minSize e) code1))
    (ih : SimOf3 c n nS prog nsv nsv1 (condFree e) false (sem c e')
      (negLookBodyPc true pc) (negLookBodyPc true pc + code1.length)) :
    nsv ≤ nsv1 ∧ (nsv1 ≤ nS → ∀ cm, Sim2 c n nS prog nsv nsv1 true cm (negBehindOne c e') pc
      (pc + (wrapNegLook true pc (minSize e) code1).length)) := by
  obtain ⟨hle, ihs⟩ := ih
  rw [← hm] at hc ⊢
  simp only [wrapNegLook, negLookBodyPc, ↓reduceIte] at hc ihs ⊢
  refine ⟨hle, fun hnS cm => ?_⟩
  have hsplit : prog[pc]? = some (.split (pc + 1) (pc + 2 + code1.length + 1)) := by
    have := hc.left.left.head
    simpa [Nat.add_assoc, Nat.add_comm, Nat.add_left_comm] using this
  have hback : prog[pc + 1]? = some (.goBack (minSize e')) := hc.left.right.left.head_at (by addr)
  have hfail : prog[pc + 2 + code1.length]? = some .failNegLook := hc.right.head_at (by addr)
  have := sim2_negbehind (cm := cm) (body := sem c e') (a := pc) (m := pc + 2 + code1.length) (k := minSize e')
    hsplit hback hfail (by omega) hle ((ihs hnS true (Or.inr rfl)).cast (by omega) (by omega))
  exact this.cast rfl (by addr)

/-! ## Leaves: nothing to atomize -/

/-- not one of the constructors `atomizeP` descends into -/
def isLeafE : Expr → Bool
  | .concat _ => false
  | .alt _ => false
  | .group _ _ => false
  | .repeat _ _ _ _ => false
  | .look _ _ => false
  | .atomic _ => false
  | .cond _ _ _ => false
  | _ => true

theorem atomizeP_leaf (br : Nat → Bool) (e : Expr) (hard : Bool) (h : isLeafE e = true) : atomizeP br e hard = e := by
  by_cases hdel : (!hard && !isHard br e) = true
  · exact atomizeP_easy br e hard hdel
  · rw [atomizeP.eq_def]
    simp only [hdel, Bool.false_eq_true, ↓reduceIte]
    cases e <;> first | rfl | simp [isLeafE] at h

theorem s5ok_leaf (br : Nat → Bool) (e : Expr) (hard : Bool) (h : isLeafE e = true) : s5ok br e hard = s3ok br e hard := by
  rw [s5ok.eq_def, s3ok.eq_def]
  cases e <;> first | rfl | simp [isLeafE] at h

theorem s5okAll_drop (br : Nat → Bool) (es : List Expr) (k : Nat) (h : s5okAll br es = true) : s5okAll br (es.drop k) = true := by
  induction es generalizing k with
  | nil => simp [s5okAll]
  | cons e es ih =>
    cases k with
    | zero => simpa using h
    | succ k =>
      simp only [s5okAll, Bool.and_eq_true] at h
      simpa using ih k h.2

theorem atomizeAll_drop (br : Nat → Bool) (es : List Expr) (k : Nat) : atomizeAll br (es.drop k) = (atomizeAll br es).drop k := by
  rw [atomizeAll_eq_map, atomizeAll_eq_map, List.map_drop]

theorem keepsGood_of_eq {c : Ctx} {n : Nat} {f g : St → List St} (h : KeepsGood c n f) (hfg : f = g) : KeepsGood c n g :=
  hfg ▸ h

/-! ## The simulation theorem -/

mutual
theorem sim5_visit (c : Ctx) (n nS : Nat) (br : Nat → Bool) (hlen : c.len < UNSET) :
    ∀ (e : Expr) (hard : Bool) (pc nsv gix : Nat) (code : Code) (nsv' : Nat) (prog : List Insn),
      s5ok br e hard = true → H3 n e gix →
      visit br e hard pc nsv gix = .ok (code, nsv') → CodeAt prog pc code → n ≤ nsv →
      SimOf3 c n nS prog nsv nsv' (condFree e) hard (sem c (atomizeP br e hard)) pc (pc + code.length)
  | e, hard, pc, nsv, gix, code, nsv', prog, hok, h3, hv, hc, hnn => by
    by_cases hdel : (!hard && !isHard br e) = true
    · rw [atomizeP_easy br e hard hdel]
      exact simOf3_easy c n nS prog _ br _ hard pc nsv gix code nsv' hlen h3 hdel hv hc
    · cases e with
      | group g e =>
        rw [atomizeP]
        simp only [hdel, Bool.false_eq_true, ↓reduceIte]
        rw [visit] at hv
        simp only [hdel, Bool.false_eq_true, ↓reduceIte] at hv
        rw [s5ok] at hok
        simp only [hdel, Bool.false_eq_true, ↓reduceIte] at hok
        cases hb : visit br e hard (pc + 1) nsv (gix + 1) with
        | error err => simp [hb] at hv
        | ok p =>
          obtain ⟨code1, nsv1⟩ := p
          simp only [hb, Except.ok.injEq, Prod.mk.injEq] at hv
          obtain ⟨rfl, rfl⟩ := hv
          obtain ⟨hg, h3e⟩ := h3.group
          have hsb := h3.sb
          simp only [slotsBelow, Bool.and_eq_true, decide_eq_true_eq] at hsb
          have hc1 : CodeAt prog (pc + 1) code1 := hc.left.right.cast (by addr)
          obtain ⟨hle, ih⟩ := sim5_visit c n nS br hlen e hard (pc + 1) nsv (gix + 1) code1 _ prog hok h3e hb hc1 hnn
          have hsave2 : prog[pc + 1 + code1.length]? = some (.save (g * 2 + 1)) := hc.right.head_at (by addr)
          refine ⟨hle, fun hnS cm hcm => ?_⟩
          have := sim2_group_cm (cm := cm) (g := g) hc.left.left.head hsave2 (ih hnS cm hcm) hsb.1 (by omega) hle
          simp only [condFree]
          exact this.cast rfl (by addr)
      | concat es =>
        rw [atomizeP]
        simp only [hdel, Bool.false_eq_true, ↓reduceIte]
        rw [visit] at hv
        simp only [hdel, Bool.false_eq_true, ↓reduceIte] at hv
        rw [s5ok] at hok
        simp only [hdel, Bool.false_eq_true, ↓reduceIte, Bool.and_eq_true] at hok
        obtain ⟨hokAll, hzAll⟩ := hok
        have hL := h3.concat
        generalize hsp : concatSplit br es hard = sp at hv ⊢
        have hle := concatSplit_le br es hard
        rw [hsp] at hle
        rw [visitMiddle_skip] at hv
        cases hb : visitMiddle br (es.drop sp.1) 0 (sp.2 - sp.1)
            (pc + (compileDelegates (es.take sp.1) gix).length) nsv (gix + groupCountList (es.take sp.1)) with
        | error err => simp [hb] at hv
        | ok p =>
          obtain ⟨mid, nsv1⟩ := p
          simp only [hb, Except.ok.injEq, Prod.mk.injEq] at hv
          obtain ⟨rfl, rfl⟩ := hv
          have hcpre := hc.left.left
          have hcmid : CodeAt prog (pc + (compileDelegates (es.take sp.1) gix).length) mid := hc.left.right
          have hcsuf := hc.right
          have hsz := sizeOf_drop_le es sp.1
          obtain ⟨hle2, s2⟩ := sim5_visitMiddle c n nS br hlen (es.drop sp.1) (sp.2 - sp.1) _ nsv _ mid nsv1 prog
            (s5okAll_drop br es sp.1 hokAll) (hL.drop sp.1) hb hcmid hnn
          refine ⟨hle2, fun hnS cm hcm => ?_⟩
          have hpfx : ∀ cmx, Sim2 c n nS prog nsv nsv (condFree (.concat es)) cmx (semConcat c (runA5 (es.take sp.1))) pc
              (pc + (compileDelegates (es.take sp.1) gix).length) := fun cmx =>
            sim4_run c n nS prog nsv nsv _ cmx br (es.take sp.1) gix pc hlen (hL.take sp.1)
              (by rw [← hsp]; exact concatSplit_prefix_isHardAny br es hard)
              (by rw [← hsp]; exact concatSplit_prefix_constSizeAll br es hard)
              (noBareEndZAll_take es sp.1 hzAll) hcpre
          have s3 : Sim2 c n nS prog nsv1 nsv1 (condFree (.concat es)) cm
              (semConcat c (if hard = true then runA5 (es.drop sp.2) else es.drop sp.2))
              (pc + (compileDelegates (es.take sp.1) gix).length + mid.length)
              (pc + (compileDelegates (es.take sp.1) gix).length + mid.length +
                (compileDelegates (es.drop sp.2) (gix + groupCountList (es.take sp.2))).length) := by
            cases hard with
            | true =>
              simp only [if_true]
              exact sim4_run c n nS prog nsv1 nsv1 _ cm br (es.drop sp.2) _ _ hlen (hL.drop sp.2)
                (by rw [← hsp]; exact concatSplit_suffix_isHardAny br es true)
                (by rw [← hsp]; exact concatSplit_suffix_constSizeAll br es)
                (noBareEndZAll_drop es sp.2 hzAll) (hcsuf.cast (by addr))
            | false =>
              simp only [Bool.false_eq_true, if_false]
              have hcmt : cm = true := by rcases hcm with h | h; cases h; exact h
              subst hcmt
              exact sim3_run_commit c n nS prog nsv1 nsv1 _ br (es.drop sp.2) _ _ hlen (hL.drop sp.2)
                (by rw [← hsp]; exact concatSplit_suffix_isHardAny br es false) (hcsuf.cast (by addr))
          have s2' := ((s2 hnS false (Or.inl rfl)).balTo (b2 := condFree (.concat es)) (by
            intro hb2
            simp only [condFree] at hb2
            have := condFreeAll_drop es sp.1 hb2
            simpa using condFreeAll_take _ _ this))
          rw [atomizeAll_drop] at s2'
          have key := ((hpfx false).seq (s2'.seq s3 (keepsGood_semConcat c n _) hle2 (Nat.le_refl _) (by addr) (by addr))
            (keepsGood_semConcat c n _) (Nat.le_refl _) hle2 (by addr) (by addr))
          have := key.congr (g := sem c (.concat (runA5 (es.take sp.1) ++
              (((atomizeAll br es).drop sp.1).take (sp.2 - sp.1) ++
                (if hard = true then runA5 (es.drop sp.2) else es.drop sp.2))))) (fun st => by
            simp only [sem]
            rw [semConcat_append]
            congr 1; funext r; rw [semConcat_append])
          exact this.cast rfl (by addr)
      | alt es =>
        rw [atomizeP]
        simp only [hdel, Bool.false_eq_true, ↓reduceIte]
        rw [visit] at hv
        simp only [hdel, Bool.false_eq_true, ↓reduceIte] at hv
        rw [s5ok] at hok
        simp only [hdel, Bool.false_eq_true, ↓reduceIte, Bool.and_eq_true] at hok
        cases hb : visitAlt br es hard pc nsv gix with
        | error err => simp [hb] at hv
        | ok p =>
          obtain ⟨f, endPc, nsv1⟩ := p
          simp only [hb, Except.ok.injEq, Prod.mk.injEq] at hv
          obtain ⟨rfl, rfl⟩ := hv
          have hlenf := visitAlt_len br es hard pc nsv gix f endPc _ hb
          obtain ⟨hle, hsim⟩ := sim5_visitAlt c n nS br hlen es hard pc nsv gix f endPc _ prog hok.2 h3.alt
            (by intro h; simp [h] at hok) hb hnn hc
          refine ⟨hle, fun hnS cm hcm => ?_⟩
          have h2 := (hsim hnS cm hcm).congr (g := sem c (.alt (atomizeAlts br es hard))) (fun st => by simp only [sem])
          simp only [condFree]
          exact h2.cast rfl (hlenf endPc)
      | «repeat» e lo hi greedy =>
        rw [atomizeP]
        simp only [hdel, Bool.false_eq_true, ↓reduceIte]
        rw [s5ok] at hok
        simp only [hdel, Bool.false_eq_true, ↓reduceIte, Bool.and_eq_true, Bool.or_eq_true, bne_iff_ne, ne_eq,
          decide_eq_true_eq] at hok
        obtain ⟨hoke, hshape⟩ := hok
        have h3e := h3.repeat
        have hw := h3e.ws
        have hhard' : (hard || isHard br (.repeat e lo hi greedy)) = true := by
          cases hard with
          | true => rfl
          | false => simpa using hdel
        rw [visit] at hv
        simp only [hdel, Bool.false_eq_true, ↓reduceIte] at hv
        simp only [condFree]
        by_cases hopt : (lo == 0 && hi == some 1) = true
        · -- `?`
          simp only [hopt, ↓reduceIte] at hv hoke ⊢
          simp only [Bool.and_eq_true, beq_iff_eq] at hopt
          obtain ⟨rfl, rfl⟩ := hopt
          cases hb : visit br e hard (pc + 1) nsv gix with
          | error err => simp [hb] at hv
          | ok p =>
            obtain ⟨code1, nsv1⟩ := p
            simp only [hb, Except.ok.injEq, Prod.mk.injEq] at hv
            obtain ⟨rfl, rfl⟩ := hv
            obtain ⟨hle, ih⟩ := sim5_visit c n nS br hlen e hard (pc + 1) nsv gix code1 _ prog hoke h3e hb hc.tail hnn
            refine ⟨hle, fun hnS cm hcm => ?_⟩
            have hhead := hc.head
            cases greedy with
            | true =>
              have := Sim2.optG (by simpa using hhead) (ih hnS cm hcm) (by omega)
              have := this.congr (g := sem c (.repeat (atomizeP br e hard) 0 (some 1) true)) (fun st => by rw [sem_opt]; simp)
              exact this.cast rfl (by addr)
            | false =>
              have := Sim2.optL (by simpa using hhead) (ih hnS cm hcm) (by omega)
              have := this.congr (g := sem c (.repeat (atomizeP br e hard) 0 (some 1) false)) (fun st => by rw [sem_opt]; simp)
              exact this.cast rfl (by addr)
        · simp only [hopt, Bool.false_eq_true, ↓reduceIte] at hv ⊢
          have hoke : s5ok br e true = true := by
            have hnot : ¬ ((lo == 0) = true ∧ (hi == some 1) = true) := by
              intro h; apply hopt; simp [h.1, h.2]
            rw [if_neg hnot] at hoke
            exact hoke
          have hsh := atomizeP_shape br e true
          have hw' : wellShaped (atomizeP br e true) = true := hsh.1 hw
          rw [hhard'] at hv
          have heps : (hi == none && minSize e == 0) = false := by
            rcases hshape with h | h
            · cases hi with
              | none => exact absurd rfl h
              | some v => simp
            · have : (minSize e == 0) = false := by simp; omega
              simp [this]
          simp only [heps, Bool.false_eq_true, ↓reduceIte] at hv
          by_cases hstar : (lo == 0 && hi == none) = true
          · simp only [hstar, ↓reduceIte] at hv
            simp only [Bool.and_eq_true, beq_iff_eq] at hstar
            obtain ⟨rfl, rfl⟩ := hstar
            have hm : 0 < minSize (atomizeP br e true) := by
              rw [hsh.2]; rcases hshape with h | h; exact absurd rfl h; exact h
            cases hb : visit br e true (pc + 1) nsv gix with
            | error err => simp [hb] at hv
            | ok p =>
              obtain ⟨code1, nsv1⟩ := p
              simp only [hb, Except.ok.injEq, Prod.mk.injEq] at hv
              obtain ⟨rfl, rfl⟩ := hv
              have hc1 : CodeAt prog (pc + 1) code1 := hc.left.right.cast (by addr)
              obtain ⟨hle, ih⟩ := sim5_visit c n nS br hlen e true (pc + 1) nsv gix code1 _ prog hoke h3e hb hc1 hnn
              refine ⟨hle, fun hnS cm _ => ?_⟩
              have hjmp : prog[pc + 1 + code1.length]? = some (.jmp pc) := hc.right.head_at (by addr)
              have hsplit := hc.left.left.head
              have := sim2_star (cm := cm) (greedy := greedy) (m := pc + 1 + code1.length)
                (by cases greedy <;> simpa [Nat.add_assoc] using hsplit) hjmp (ih hnS false (Or.inl rfl)) hw' hm (by omega)
              exact this.cast rfl (by addr)
          · simp only [hstar, Bool.false_eq_true, ↓reduceIte] at hv
            by_cases hplus : (lo == 1 && hi == none) = true
            · simp only [hplus, ↓reduceIte] at hv
              simp only [Bool.and_eq_true, beq_iff_eq] at hplus
              obtain ⟨rfl, rfl⟩ := hplus
              have hm : 0 < minSize (atomizeP br e true) := by
                rw [hsh.2]; rcases hshape with h | h; exact absurd rfl h; exact h
              cases hb : visit br e true pc nsv gix with
              | error err => simp [hb] at hv
              | ok p =>
                obtain ⟨code1, nsv1⟩ := p
                simp only [hb, Except.ok.injEq, Prod.mk.injEq] at hv
                obtain ⟨rfl, rfl⟩ := hv
                obtain ⟨hle, ih⟩ := sim5_visit c n nS br hlen e true pc nsv gix code1 _ prog hoke h3e hb hc.left hnn
                refine ⟨hle, fun hnS cm _ => ?_⟩
                have hsplit := hc.right.head
                have := sim2_plus (cm := cm) (greedy := greedy) (m := pc + code1.length)
                  (by cases greedy <;> simpa using hsplit) (ih hnS false (Or.inl rfl)) hw' hm (by omega)
                exact this.cast rfl (by addr)
            · simp only [hplus, Bool.false_eq_true, ↓reduceIte] at hv
              cases hb : visit br e true (pc + 2) (nsv + 1) gix with
              | error err => simp [hb] at hv
              | ok p =>
                obtain ⟨code1, nsv1⟩ := p
                simp only [hb, Except.ok.injEq, Prod.mk.injEq] at hv
                obtain ⟨rfl, rfl⟩ := hv
                have hc1 : CodeAt prog (pc + 2) code1 := hc.left.right.cast (by addr)
                obtain ⟨hle, ih⟩ := sim5_visit c n nS br hlen e true (pc + 2) (nsv + 1) gix code1 _ prog hoke h3e hb hc1 (by omega)
                refine ⟨by omega, fun hnS cm _ => ?_⟩
                have hsave0 : prog[pc]? = some (.save0 nsv) := hc.left.left.head
                have hhead : prog[pc + 1]? = some (if greedy then Insn.repeatGr lo hi (pc + 2 + code1.length + 1) nsv
                    else Insn.repeatNg lo hi (pc + 2 + code1.length + 1) nsv) := by
                  have := hc.left.left.tail.head
                  cases greedy <;> simpa using this
                have hjmp : prog[pc + 2 + code1.length]? = some (.jmp (pc + 1)) := hc.right.head_at (by addr)
                have := sim2_counted (cm := cm) (e := atomizeP br e true) (greedy := greedy) (lo := lo) (hi := hi)
                  (m := pc + 2 + code1.length)
                  hsave0 hhead hjmp (ih hnS false (Or.inl rfl)) hnn (by omega) hle (by omega) hw'
                  (by rw [hsh.2]; rcases hshape with h | h; exact Or.inl h; exact Or.inr h)
                exact this.cast rfl (by addr)
      | look e la =>
        cases la with
        | ahead =>
          rw [atomizeP]
          simp only [isHard, Bool.not_true, Bool.and_false, Bool.false_eq_true, ↓reduceIte]
          rw [s5ok] at hok
          simp only [isHard, Bool.not_true, Bool.and_false, Bool.false_eq_true, ↓reduceIte, Bool.and_eq_true] at hok
          have h3e := h3.look
          rw [visit] at hv
          simp only [isHard, Bool.not_true, Bool.and_false, Bool.false_eq_true, ↓reduceIte] at hv
          cases hb : visit br e false (posLookBodyPc (isHard br e) false pc) (nsv + 1) gix with
          | error err => simp [hb] at hv
          | ok p =>
            obtain ⟨code1, nsv1⟩ := p
            simp only [hb, Except.ok.injEq, Prod.mk.injEq] at hv
            obtain ⟨rfl, rfl⟩ := hv
            simp only [condFree, hok.2]
            by_cases hh : isHard br e = true
            · simp only [hh, wrapPosLook, posLookBodyPc, ↓reduceIte, Bool.false_eq_true, List.append_nil, Nat.add_zero] at hc hb ⊢
              have hc1 : CodeAt prog (pc + 2) code1 := hc.left.right.left.right.cast (by addr)
              obtain ⟨hle, ih⟩ := sim5_visit c n nS br hlen e false (pc + 1 + 1) (nsv + 1) gix code1 _ prog hok.1 h3e hb hc1 (by omega)
              refine ⟨by omega, fun hnS cm _ => ?_⟩
              have hbody := ih hnS true (Or.inr rfl)
              rw [hok.2] at hbody
              have hsave : prog[pc + 1]? = some (.save nsv) := hc.left.right.left.left.head_at (by addr)
              have hrestore : prog[pc + 2 + code1.length]? = some (.restore nsv) := hc.left.right.right.head_at (by addr)
              have hend : prog[pc + 2 + code1.length + 1]? = some .endAtomic := hc.right.head_at (by addr)
              have := sim2_sem_ahead_atomic (cm := cm) (e := atomizeP br e false) (slot := nsv) (hi := nsv1) (a := pc)
                (m := pc + 2 + code1.length)
                hc.left.left.head hsave hrestore hend hnn (by omega) (by omega) hbody
              exact this.cast rfl (by addr)
            · -- plain layout: the body is handed to the automata engine; only its first result is used
              have hh' : isHard br e = false := by simpa using hh
              rw [atomizeP_easy br e false (by simp [hh'])]
              simp only [hh', wrapPosLook, posLookBodyPc, ↓reduceIte, Bool.false_eq_true, List.append_nil, Nat.add_zero] at hc hb ⊢
              rw [visit_easy_eq br e false (pc + 1) (nsv + 1) gix (by simp [hh'])] at hb
              simp only [Except.ok.injEq, Prod.mk.injEq] at hb
              obtain ⟨rfl, rfl⟩ := hb
              have hc1 : CodeAt prog (pc + 1) (compileDelegate e gix) := hc.left.right.cast (by addr)
              refine ⟨by omega, fun hnS cm _ => ?_⟩
              have hbody := sim3_one_first c n nS prog (nsv + 1) (nsv + 1) true cm br e gix (pc + 1) hlen h3e hh' hc1
              have hrestore : prog[pc + 1 + (compileDelegate e gix).length]? = some (.restore nsv) := hc.right.head_at (by addr)
              have := sim2_poslook_plain (cm := cm) (bal := true) (sm := fun st => firstOnly (sem c e st)) (slot := nsv) (hi := nsv + 1)
                (a := pc) (m := pc + 1 + (compileDelegate e gix).length)
                hc.left.left.head hrestore hnn (by omega) (by omega) hbody (keepsGood_firstOnly (keepsGood_sem c n e))
                (fun st => firstOnly_length_le_one _)
              have := this.congr (g := sem c (.look e .ahead)) (fun st => by simp only [sem, firstOnly_idem])
              exact this.cast rfl (by addr)
        | aheadNeg =>
          rw [atomizeP]
          simp only [isHard, Bool.not_true, Bool.and_false, Bool.false_eq_true, ↓reduceIte]
          rw [s5ok] at hok
          simp only [isHard, Bool.not_true, Bool.and_false, Bool.false_eq_true, ↓reduceIte] at hok
          have h3e := h3.look
          rw [visit] at hv
          simp only [isHard, Bool.not_true, Bool.and_false, Bool.false_eq_true, ↓reduceIte] at hv
          cases hb : visit br e false (negLookBodyPc false pc) nsv gix with
          | error err => simp [hb] at hv
          | ok p =>
            obtain ⟨code1, nsv1⟩ := p
            simp only [hb, Except.ok.injEq, Prod.mk.injEq] at hv
            obtain ⟨rfl, rfl⟩ := hv
            simp only [wrapNegLook, negLookBodyPc, Bool.false_eq_true, ↓reduceIte, List.nil_append, Nat.add_zero] at hc hb ⊢
            have hc1 : CodeAt prog (pc + 1) code1 := hc.left.right.cast (by addr)
            obtain ⟨hle, ih⟩ := sim5_visit c n nS br hlen e false (pc + 1) nsv gix code1 _ prog hok h3e hb hc1 hnn
            refine ⟨hle, fun hnS cm _ => ?_⟩
            have hfail : prog[pc + 1 + code1.length]? = some .failNegLook := hc.right.head_at (by addr)
            have hsplit : prog[pc]? = some (.split (pc + 1) (pc + 1 + code1.length + 1)) := hc.left.left.head
            have := sim2_sem_aheadNeg (cm := cm) (e := atomizeP br e false) (m := pc + 1 + code1.length) hsplit hfail
              (ih hnS true (Or.inr rfl))
            have := this.balTo (b2 := condFree (.look e .aheadNeg)) (fun _ => rfl)
            exact this.cast rfl (by addr)
        | behind =>
          rw [atomizeP]
          simp only [isHard, Bool.not_true, Bool.and_false, Bool.false_eq_true, ↓reduceIte]
          rw [s5ok] at hok
          simp only [isHard, Bool.not_true, Bool.and_false, Bool.false_eq_true, ↓reduceIte, Bool.and_eq_true] at hok
          obtain ⟨⟨hoke, hcf⟩, hz⟩ := hok
          have h3e := h3.look
          have hw := h3e.ws
          have hsh := atomizeP_shape br e false
          have hcn := atomizeP_const br e false
          have hw' := hsh.1 hw
          cases hia : isAlt e with
          | false =>
            have hna' := isAlt_false_ne e hia
            have hna'' : ∀ es, atomizeP br e false ≠ .alt es :=
              isAlt_false_ne _ (by rw [atomizeP_isAlt]; exact hia)
            by_cases hcs : constSize e = true
            · rw [C13_accept_behind_const br e hna' hcs] at hv
              cases hb : visit br e false (posLookBodyPc (isHard br e) true pc) (nsv + 1) gix with
              | error err => simp [hb] at hv
              | ok p =>
                obtain ⟨code1, nsv1⟩ := p
                simp only [hb, Except.ok.injEq, Prod.mk.injEq] at hv
                obtain ⟨rfl, rfl⟩ := hv
                have ih := sim5_visit c n nS br hlen e false _ (nsv + 1) gix code1 _ prog hoke h3e hb
                  (wrapPosLook_body_codeAt hc) (by omega)
                obtain ⟨hle, hs⟩ := sim5_posBehind_wrap c n nS br hlen e (atomizeP br e false) pc nsv gix code1 _ prog
                  h3e hcf hsh.2 (fun hh => atomizeP_easy br e false (by simp [hh])) hb hc hnn ih
                refine ⟨by omega, fun hnS cm _ => ?_⟩
                simp only [condFree, hcf]
                exact (hs hnS cm).congrGood (fun st hg => sem_behind_one c n _ hna'' hw' (by rw [hcn.1]; exact hcs)
                  (by rw [hcn.2]; exact hz) st hg (by omega))
            · have hcs' : constSize e = false := by simpa using hcs
              rw [C13_accept_behind_not_const br e hna' hcs'] at hv
              cases hv
          | true =>
            -- alternation body
            obtain ⟨es, rfl⟩ := isAlt_true e hia
            have hL := h3e.alt
            have hwA := wellShaped_alt hw
            have hcfA : condFreeAll es = true := by simpa only [condFree] using hcf
            rw [atomizeP_alt_false] at hw' hcn hsh ⊢
            have hwA' := wellShaped_alt hw'
            have hzA' : noBareEndZAll (atomizeAlts br es false) = true := by
              have := hcn.2; simp only [noBareEndZ] at this hz; rw [this]; exact hz
            rw [visit] at hv
            simp only [isHard, Bool.not_true, Bool.and_false, Bool.false_eq_true, ↓reduceIte] at hv
            by_cases hcs : constSize (.alt es) = true
            · -- all alternatives of one size: the ordinary layout around the code of the alternation
              simp only [hcs, Bool.not_true, Bool.false_eq_true, ↓reduceIte] at hv
              rw [visitAltBody_eq_visit, show isHardAny br es = isHard br (.alt es) by simp only [isHard],
                ← minSize_alt es] at hv
              cases hb : visit br (.alt es) false (posLookBodyPc (isHard br (.alt es)) true pc) (nsv + 1) gix with
              | error err => simp [hb] at hv
              | ok p =>
                obtain ⟨code1, nsv1⟩ := p
                simp only [hb, Except.ok.injEq, Prod.mk.injEq] at hv
                obtain ⟨rfl, rfl⟩ := hv
                have ih := sim5_visit c n nS br hlen (.alt es) false _ (nsv + 1) gix code1 _ prog hoke h3e hb
                  (wrapPosLook_body_codeAt hc) (by omega)
                rw [atomizeP_alt_false] at ih
                obtain ⟨hle, hs⟩ := sim5_posBehind_wrap c n nS br hlen (.alt es) (.alt (atomizeAlts br es false)) pc nsv gix
                  code1 _ prog h3e hcf hsh.2
                  (fun hh => by rw [atomizeAlts_easy br es (by simpa only [isHard] using hh)]) hb hc hnn ih
                refine ⟨by omega, fun hnS cm _ => ?_⟩
                simp only [condFree, hcfA]
                exact (hs hnS cm).congrGood (fun st hg => sem_behind_alt_const c n _ hwA'.2 (by rw [hcn.1]; exact hcs)
                  hzA' st hg (by omega))
            · -- alternatives of different sizes: an atomic group around an alternation of look-behinds
              have hcs' : constSize (.alt es) = false := by simpa using hcs
              simp only [hcs', Bool.not_false, ↓reduceIte] at hv
              cases hb : lookBehindAlts br es (pc + 1) nsv gix with
              | error err => simp [hb] at hv
              | ok p =>
                obtain ⟨f, endPc, nsv1⟩ := p
                simp only [hb, Except.ok.injEq, Prod.mk.injEq] at hv
                obtain ⟨rfl, rfl⟩ := hv
                have hlenf := lookBehindAlts_len br es (pc + 1) nsv gix f endPc _ hb endPc
                have hcA := lookBehindAlts_ok_const br es _ _ _ _ hb
                have hcA' : constSizeAll (atomizeAlts br es false) = true := by
                  rw [constSizeAll_atomizeAlts]; exact hcA
                have hcb : CodeAt prog (pc + 1) (f endPc) := hc.left.right.cast (by addr)
                have hsz : sizeOf es < sizeOf (Expr.look (.alt es) .behind) := by simp; omega
                obtain ⟨hle, hsim⟩ := sim5_lookBehindAlts c n nS br hlen es (pc + 1) nsv gix f endPc _ prog
                  (s5ok_alt_alts br es hoke) hcfA hL (by intro h; simp [h] at hwA) hb hnn hcb
                refine ⟨hle, fun hnS cm _ => ?_⟩
                have hend : prog[endPc]? = some .endAtomic := hc.right.head_at (by addr)
                have := sim2_atomic (cm := cm) (a := pc) (m := endPc) hc.left.left.head hend (hsim hnS true)
                have := this.congrGood (g := sem c (.look (.alt (atomizeAlts br es false)) .behind))
                  (fun st hg => sem_behind_alt_diff c n _ hwA'.2 hcA' hzA' st hg (by omega))
                simp only [condFree, hcfA]
                exact this.cast rfl (by addr)
        | behindNeg =>
          rw [atomizeP]
          simp only [isHard, Bool.not_true, Bool.and_false, Bool.false_eq_true, ↓reduceIte]
          rw [s5ok] at hok
          simp only [isHard, Bool.not_true, Bool.and_false, Bool.false_eq_true, ↓reduceIte, Bool.and_eq_true] at hok
          obtain ⟨hoke, hz⟩ := hok
          have h3e := h3.look
          have hw := h3e.ws
          have hsh := atomizeP_shape br e false
          have hcn := atomizeP_const br e false
          have hw' := hsh.1 hw
          cases hia : isAlt e with
          | false =>
            have hna' := isAlt_false_ne e hia
            have hna'' : ∀ es, atomizeP br e false ≠ .alt es :=
              isAlt_false_ne _ (by rw [atomizeP_isAlt]; exact hia)
            by_cases hcs : constSize e = true
            · rw [C13_accept_behindNeg_const br e hna' hcs] at hv
              cases hb : visit br e false (negLookBodyPc true pc) nsv gix with
              | error err => simp [hb] at hv
              | ok p =>
                obtain ⟨code1, nsv1⟩ := p
                simp only [hb, Except.ok.injEq, Prod.mk.injEq] at hv
                obtain ⟨rfl, rfl⟩ := hv
                have ih := sim5_visit c n nS br hlen e false _ nsv gix code1 _ prog hoke h3e hb (wrapNegLook_body_codeAt hc) hnn
                obtain ⟨hle, hs⟩ := sim5_negBehind_wrap c n nS e (atomizeP br e false) pc nsv code1 _ prog hsh.2 hc ih
                refine ⟨hle, fun hnS cm _ => ?_⟩
                exact ((hs hnS cm).congrGood (fun st hg => sem_behindNeg_one c n _ hna'' hw' (by rw [hcn.1]; exact hcs)
                  (by rw [hcn.2]; exact hz) st hg (by omega))).balTo (fun _ => rfl)
            · have hcs' : constSize e = false := by simpa using hcs
              rw [C13_accept_behindNeg_not_const br e hna' hcs'] at hv
              cases hv
          | true =>
            obtain ⟨es, rfl⟩ := isAlt_true e hia
            have hL := h3e.alt
            have hwA := wellShaped_alt hw
            rw [atomizeP_alt_false] at hw' hcn hsh ⊢
            have hwA' := wellShaped_alt hw'
            have hzA' : noBareEndZAll (atomizeAlts br es false) = true := by
              have := hcn.2; simp only [noBareEndZ] at this hz; rw [this]; exact hz
            rw [visit] at hv
            simp only [isHard, Bool.not_true, Bool.and_false, Bool.false_eq_true, ↓reduceIte] at hv
            by_cases hcs : constSize (.alt es) = true
            · simp only [hcs, Bool.not_true, Bool.false_eq_true, ↓reduceIte] at hv
              rw [visitAltBody_eq_visit, ← minSize_alt es] at hv
              cases hb : visit br (.alt es) false (negLookBodyPc true pc) nsv gix with
              | error err => simp [hb] at hv
              | ok p =>
                obtain ⟨code1, nsv1⟩ := p
                simp only [hb, Except.ok.injEq, Prod.mk.injEq] at hv
                obtain ⟨rfl, rfl⟩ := hv
                have ih := sim5_visit c n nS br hlen (.alt es) false _ nsv gix code1 _ prog hoke h3e hb
                  (wrapNegLook_body_codeAt hc) hnn
                rw [atomizeP_alt_false] at ih
                obtain ⟨hle, hs⟩ := sim5_negBehind_wrap c n nS (.alt es) (.alt (atomizeAlts br es false)) pc nsv code1 _ prog
                  hsh.2 hc ih
                refine ⟨hle, fun hnS cm _ => ?_⟩
                exact ((hs hnS cm).congrGood (fun st hg => sem_behindNeg_alt_const c n _ hwA'.2 (by rw [hcn.1]; exact hcs)
                  hzA' st hg (by omega))).balTo (fun _ => rfl)
            · -- alternatives of different sizes: a sequence of negative look-behinds
              have hcs' : constSize (.alt es) = false := by simpa using hcs
              simp only [hcs', Bool.not_false, ↓reduceIte] at hv
              have hcA := lookBehindNegAlts_ok_const br es _ _ _ _ hv
              have hcA' : constSizeAll (atomizeAlts br es false) = true := by
                rw [constSizeAll_atomizeAlts]; exact hcA
              have hsz : sizeOf es < sizeOf (Expr.look (.alt es) .behindNeg) := by simp; omega
              obtain ⟨hle, hsim⟩ := sim5_lookBehindNegAlts c n nS br hlen es pc nsv gix code nsv' prog
                (s5ok_alt_alts br es hoke) hL hv hnn hc
              refine ⟨hle, fun hnS cm _ => ?_⟩
              exact ((hsim hnS cm).congrGood (fun st hg => sem_behindNeg_alt_diff c n _ hwA'.2 hcA' hzA' st hg (by omega))).balTo
                (fun _ => rfl)
      | atomic e =>
        rw [atomizeP]
        simp only [isHard, Bool.not_true, Bool.and_false, Bool.false_eq_true, ↓reduceIte]
        rw [s5ok] at hok
        simp only [isHard, Bool.not_true, Bool.and_false, Bool.false_eq_true, ↓reduceIte, Bool.and_eq_true] at hok
        rw [visit] at hv
        simp only [isHard, Bool.not_true, Bool.and_false, Bool.false_eq_true, ↓reduceIte] at hv
        cases hb : visit br e false (pc + 1) nsv gix with
        | error err => simp [hb] at hv
        | ok p =>
          obtain ⟨code1, nsv1⟩ := p
          simp only [hb, Except.ok.injEq, Prod.mk.injEq] at hv
          obtain ⟨rfl, rfl⟩ := hv
          have hc1 : CodeAt prog (pc + 1) code1 := hc.left.right.cast (by addr)
          obtain ⟨hle, ih⟩ := sim5_visit c n nS br hlen e false (pc + 1) nsv gix code1 _ prog hok.1 h3.atomic hb hc1 hnn
          refine ⟨hle, fun hnS cm _ => ?_⟩
          have hend : prog[pc + 1 + code1.length]? = some .endAtomic := hc.right.head_at (by addr)
          have hbody := ih hnS true (Or.inr rfl)
          rw [hok.2] at hbody
          have := sim2_sem_atomic (cm := cm) (e := atomizeP br e false) (m := pc + 1 + code1.length) hc.left.left.head hend hbody
          simp only [condFree, hok.2]
          exact this.cast rfl (by addr)
      | cond cnd y no =>
        rw [atomizeP]
        simp only [isHard, Bool.not_true, Bool.and_false, Bool.false_eq_true, ↓reduceIte]
        rw [s5ok] at hok
        simp only [isHard, Bool.not_true, Bool.and_false, Bool.false_eq_true, ↓reduceIte, Bool.and_eq_true] at hok
        obtain ⟨h3c, h3y, h3n⟩ := h3.cond
        rw [visit] at hv
        simp only [isHard, Bool.not_true, Bool.and_false, Bool.false_eq_true, ↓reduceIte] at hv
        cases hb1 : visit br cnd hard (pc + 2) nsv gix with
        | error err => simp [hb1] at hv
        | ok p1 =>
          obtain ⟨cc, nsv1⟩ := p1
          simp only [hb1] at hv
          cases hb2 : visit br y hard (pc + 2 + cc.length + 1) nsv1 (gix + groupCount cnd) with
          | error err => simp [hb2] at hv
          | ok p2 =>
            obtain ⟨yc, nsv2⟩ := p2
            simp only [hb2] at hv
            cases hb3 : visit br no hard (pc + 2 + cc.length + 1 + yc.length + 1) nsv2 (gix + groupCount cnd + groupCount y) with
            | error err => simp [hb3] at hv
            | ok p3 =>
              obtain ⟨nc, nsv3⟩ := p3
              simp only [hb3, Except.ok.injEq, Prod.mk.injEq] at hv
              obtain ⟨rfl, rfl⟩ := hv
              have hcc : CodeAt prog (pc + 2) cc := hc.left.left.left.left.right.cast (by addr)
              have hcy : CodeAt prog (pc + 2 + cc.length + 1) yc := hc.left.left.right.cast (by addr)
              have hcn : CodeAt prog (pc + 2 + cc.length + 1 + yc.length + 1) nc := hc.right.cast (by addr)
              obtain ⟨hle1, ih1⟩ := sim5_visit c n nS br hlen cnd hard (pc + 2) nsv gix cc _ prog hok.1.1.1 h3c hb1 hcc hnn
              obtain ⟨hle2, ih2⟩ := sim5_visit c n nS br hlen y hard _ nsv1 _ yc _ prog hok.1.2 h3y hb2 hcy (by omega)
              obtain ⟨hle3, ih3⟩ := sim5_visit c n nS br hlen no hard _ nsv2 _ nc _ prog hok.2 h3n hb3 hcn (by omega)
              refine ⟨by omega, fun hnS cm hcm => ?_⟩
              have hbegin : prog[pc]? = some .beginAtomic := hc.left.left.left.left.left.head
              have hsplit : prog[pc + 1]? = some (.split (pc + 2) (pc + 2 + cc.length + 1 + yc.length + 1)) :=
                hc.left.left.left.left.left.tail.head
              have hend : prog[pc + 2 + cc.length]? = some .endAtomic := hc.left.left.left.right.head_at (by addr)
              have hjmp : prog[pc + 2 + cc.length + 1 + yc.length]? =
                  some (.jmp (pc + 2 + cc.length + 1 + yc.length + 1 + nc.length)) := hc.left.right.head_at (by addr)
              have hcond := ih1 (by omega) true (Or.inr rfl)
              rw [hok.1.1.2] at hcond
              have := sim2_cond_sem (cm := cm) (cnd := atomizeP br cnd hard) (y := atomizeP br y hard) (no := atomizeP br no hard)
                (e1 := pc + 2 + cc.length) (e2 := pc + 2 + cc.length + 1 + yc.length)
                (endPc := pc + 2 + cc.length + 1 + yc.length + 1 + nc.length)
                hbegin (by simpa [Nat.add_assoc] using hsplit) hend hjmp hcond (ih2 (by omega) cm hcm) (ih3 hnS cm hcm)
                (by omega) (by omega) (by omega) hle1 hle2 hle3
              simp only [condFree]
              exact this.cast rfl (by addr)
      | _ =>
        rw [atomizeP_leaf br _ hard rfl]
        exact sim3_visit c n nS br hlen _ hard pc nsv gix code nsv' prog
          (by rw [← s5ok_leaf br _ hard rfl]; exact hok) h3 hv hc hnn
termination_by e => sizeOf e
decreasing_by all_goals (simp_wf; try (first | omega | (subst_vars; simp; try omega)))
theorem sim5_visitMiddle (c : Ctx) (n nS : Nat) (br : Nat → Bool) (hlen : c.len < UNSET) :
    ∀ (es : List Expr) (take pc nsv gix : Nat) (code : Code) (nsv' : Nat) (prog : List Insn),
      s5okAll br es = true → H3L n es gix →
      visitMiddle br es 0 take pc nsv gix = .ok (code, nsv') → CodeAt prog pc code → n ≤ nsv →
      SimOf3 c n nS prog nsv nsv' (condFreeAll (es.take take)) true (semConcat c ((atomizeAll br es).take take)) pc
        (pc + code.length)
  | [], take, pc, nsv, gix, code, nsv', prog, _, _, hv, _, _ => by
    simp only [visitMiddle, Except.ok.injEq, Prod.mk.injEq] at hv
    obtain ⟨rfl, rfl⟩ := hv
    exact SimOf3.leaf fun cm => by
      simpa [semConcat, atomizeAll] using (Sim2.nil c n nS prog nsv nsv _ cm pc).congr (fun st => by simp [semConcat])
  | e :: es, 0, pc, nsv, gix, code, nsv', prog, _, _, hv, _, _ => by
    simp only [visitMiddle, Except.ok.injEq, Prod.mk.injEq] at hv
    obtain ⟨rfl, rfl⟩ := hv
    exact SimOf3.leaf fun cm => by
      simpa [semConcat] using (Sim2.nil c n nS prog nsv nsv _ cm pc).congr (fun st => by simp [semConcat])
  | e :: es, take + 1, pc, nsv, gix, code, nsv', prog, hok, hL, hv, hc, hnn => by
    simp only [visitMiddle] at hv
    simp only [s5okAll, Bool.and_eq_true] at hok
    obtain ⟨h3e, hLs⟩ := hL.cons
    cases hb : visit br e true pc nsv gix with
    | error err => simp [hb] at hv
    | ok p =>
      obtain ⟨c1, nsv1⟩ := p
      simp only [hb] at hv
      cases hb2 : visitMiddle br es 0 take (pc + c1.length) nsv1 (gix + groupCount e) with
      | error err => simp [hb2] at hv
      | ok p2 =>
        obtain ⟨c2, nsv2⟩ := p2
        simp only [hb2, Except.ok.injEq, Prod.mk.injEq] at hv
        obtain ⟨rfl, rfl⟩ := hv
        obtain ⟨hle1, s1⟩ := sim5_visit c n nS br hlen e true pc nsv gix c1 nsv1 prog hok.1 h3e hb hc.left hnn
        obtain ⟨hle2, s2⟩ := sim5_visitMiddle c n nS br hlen es take (pc + c1.length) nsv1 _ c2 _ prog hok.2 hLs hb2
          hc.right (by omega)
        refine ⟨by omega, fun hnS cm _ => ?_⟩
        have hbal : condFreeAll ((e :: es).take (take + 1)) = (condFree e && condFreeAll (es.take take)) := by
          simp [condFreeAll]
        rw [hbal]
        have s1' := (s1 (by omega) false (Or.inl rfl)).balTo (b2 := condFree e && condFreeAll (es.take take))
          (by intro h; simp only [Bool.and_eq_true] at h; exact h.1)
        have s2' := (s2 hnS cm (Or.inl rfl)).balTo (b2 := condFree e && condFreeAll (es.take take))
          (by intro h; simp only [Bool.and_eq_true] at h; exact h.2)
        have := (s1'.seq s2' (keepsGood_sem c n _) hle1 hle2 (by omega) (by omega)).congr
          (g := semConcat c ((atomizeAll br (e :: es)).take (take + 1))) (fun st => by simp [semConcat, atomizeAll])
        exact this.cast rfl (by addr)
termination_by es => sizeOf es
decreasing_by all_goals (simp_wf; try omega)
theorem sim5_visitAlt (c : Ctx) (n nS : Nat) (br : Nat → Bool) (hlen : c.len < UNSET) :
    ∀ (es : List Expr) (hard : Bool) (pc nsv gix : Nat) (f : Nat → Code) (endPc nsv' : Nat) (prog : List Insn),
      s5okAlts br es hard = true → H3L n es gix → es ≠ [] →
      visitAlt br es hard pc nsv gix = .ok (f, endPc, nsv') → n ≤ nsv →
      (CodeAt prog pc (f endPc) →
          SimOf3 c n nS prog nsv nsv' (condFreeAll es) hard (semAlt c (atomizeAlts br es hard)) pc endPc)
  | [], hard, pc, nsv, gix, f, endPc, nsv', prog, _, _, hne, hv, _ => absurd rfl hne
  | [e], hard, pc, nsv, gix, f, endPc, nsv', prog, hok, hL, _, hv, hnn => by
    simp only [visitAlt] at hv
    simp only [s5okAlts, Bool.and_eq_true] at hok
    obtain ⟨h3e, _⟩ := hL.cons
    cases hb : visit br e hard pc nsv gix with
    | error err => simp [hb] at hv
    | ok p =>
      obtain ⟨c1, nsv1⟩ := p
      simp only [hb, Except.ok.injEq, Prod.mk.injEq] at hv
      obtain ⟨rfl, rfl, rfl⟩ := hv
      intro hc
      obtain ⟨hle, ih⟩ := sim5_visit c n nS br hlen e hard pc nsv gix c1 nsv1 prog hok.1 h3e hb hc hnn
      refine ⟨hle, fun hnS cm hcm => ?_⟩
      simp only [condFreeAll, Bool.and_true]
      exact (ih hnS cm hcm).congr (fun st => by simp [semAlt, atomizeAlts])
  | e :: e2 :: es, hard, pc, nsv, gix, f, endPc, nsv', prog, hok, hL, _, hv, hnn => by
    simp only [visitAlt] at hv
    simp only [s5okAlts, Bool.and_eq_true] at hok
    obtain ⟨h3e, hLs⟩ := hL.cons
    cases hb : visit br e hard (pc + 1) nsv gix with
    | error err => simp [hb] at hv
    | ok p =>
      obtain ⟨c1, nsv1⟩ := p
      simp only [hb] at hv
      cases hb2 : visitAlt br (e2 :: es) hard (pc + 1 + c1.length + 1) nsv1 (gix + groupCount e) with
      | error err => simp [hb2] at hv
      | ok p2 =>
        obtain ⟨f2, endPc2, nsv2⟩ := p2
        simp only [hb2, Except.ok.injEq, Prod.mk.injEq] at hv
        obtain ⟨rfl, rfl, rfl⟩ := hv
        have hlen2 : ∀ t, pc + 1 + c1.length + 1 + (f2 t).length = endPc2 :=
          visitAlt_len br (e2 :: es) hard _ nsv1 _ f2 endPc2 nsv2 hb2
        intro hc
        have hc1 : CodeAt prog (pc + 1) c1 := hc.left.left.right.cast (by addr)
        have hcj : prog[pc + 1 + c1.length]? = some (.jmp _) := hc.left.right.head_at (by addr)
        have hc2 : CodeAt prog (pc + 1 + c1.length + 1) (f2 _) := hc.right.cast (by addr)
        obtain ⟨hle1, s1⟩ := sim5_visit c n nS br hlen e hard (pc + 1) nsv gix c1 nsv1 prog hok.1 h3e hb hc1 hnn
        obtain ⟨hle2, s2⟩ := sim5_visitAlt c n nS br hlen (e2 :: es) hard (pc + 1 + c1.length + 1) nsv1 _ f2 _ _ prog
          (by simp [s5okAlts, hok.2.1, hok.2.2]) hLs (by simp) hb2 (by omega) hc2
        refine ⟨by omega, fun hnS cm hcm => ?_⟩
        have hsplit : prog[pc]? = some (.split (pc + 1) (pc + 1 + c1.length + 1)) := hc.left.left.left.head
        have hbal : condFreeAll (e :: e2 :: es) = (condFree e && condFreeAll (e2 :: es)) := by simp [condFreeAll]
        rw [hbal]
        have s1' := ((s1 (by omega) cm hcm).widen (Nat.le_refl nsv) hle2).balTo (b2 := condFree e && condFreeAll (e2 :: es))
          (by intro h; simp only [Bool.and_eq_true] at h; exact h.1)
        have s2' := ((s2 hnS cm hcm).widen hle1 (Nat.le_refl _)).balTo (b2 := condFree e && condFreeAll (e2 :: es))
          (by intro h; simp only [Bool.and_eq_true] at h; exact h.2)
        have := Sim2.alt2 (m := pc + 1 + c1.length) hsplit hcj (by simpa using s1') s2' (by omega) (by have := hlen2 endPc2; omega)
        exact this.congr (fun st => by simp [semAlt, atomizeAlts])
termination_by es => sizeOf es
decreasing_by all_goals (simp_wf; try omega)
theorem sim5_lookBehindAlts (c : Ctx) (n nS : Nat) (br : Nat → Bool) (hlen : c.len < UNSET) :
    ∀ (es : List Expr) (pc nsv gix : Nat) (f : Nat → Code) (endPc nsv' : Nat) (prog : List Insn),
      s5okAlts br es false = true → condFreeAll es = true → H3L n es gix → es ≠ [] →
      lookBehindAlts br es pc nsv gix = .ok (f, endPc, nsv') → n ≤ nsv → CodeAt prog pc (f endPc) →
      nsv ≤ nsv' ∧ (nsv' ≤ nS → ∀ cm, Sim2 c n nS prog nsv nsv' true cm (posBehindAlts c (atomizeAlts br es false)) pc endPc)
  | [], pc, nsv, gix, f, endPc, nsv', prog, _, _, _, hne, _, _, _ => absurd rfl hne
  | [e], pc, nsv, gix, f, endPc, nsv', prog, hok, hcf, hL, _, hv, hnn, hc => by
    simp only [lookBehindAlts] at hv
    simp only [s5okAlts, Bool.and_eq_true] at hok
    simp only [condFreeAll, Bool.and_eq_true] at hcf
    obtain ⟨h3e, _⟩ := hL.cons
    by_cases hcs : constSize e = true
    · simp only [hcs, Bool.not_true, Bool.false_eq_true, ↓reduceIte] at hv
      cases hb : visit br e false (posLookBodyPc (isHard br e) true pc) (nsv + 1) gix with
      | error err => simp [hb] at hv
      | ok p =>
        obtain ⟨c1, nsv1⟩ := p
        simp only [hb, Except.ok.injEq, Prod.mk.injEq] at hv
        obtain ⟨rfl, rfl, rfl⟩ := hv
        have ih := sim5_visit c n nS br hlen e false _ (nsv + 1) gix c1 nsv1 prog hok.1 h3e hb
          (wrapPosLook_body_codeAt hc) (by omega)
        obtain ⟨hle, hs⟩ := sim5_posBehind_wrap c n nS br hlen e (atomizeP br e false) pc nsv gix c1 nsv1 prog h3e hcf.1
          (atomizeP_shape br e false).2 (fun hh => atomizeP_easy br e false (by simp [hh])) hb hc hnn ih
        refine ⟨by omega, fun hnS cm => ?_⟩
        exact (hs hnS cm).congr (fun st => by simp [posBehindAlts, atomizeAlts])
    · simp [hcs] at hv
  | e :: e2 :: es, pc, nsv, gix, f, endPc, nsv', prog, hok, hcf, hL, _, hv, hnn, hc => by
    simp only [lookBehindAlts] at hv
    simp only [s5okAlts, Bool.and_eq_true] at hok
    simp only [condFreeAll, Bool.and_eq_true] at hcf
    obtain ⟨h3e, hLs⟩ := hL.cons
    by_cases hcs : constSize e = true
    · simp only [hcs, Bool.not_true, Bool.false_eq_true, ↓reduceIte] at hv
      cases hb : visit br e false (posLookBodyPc (isHard br e) true (pc + 1)) (nsv + 1) gix with
      | error err => simp [hb] at hv
      | ok p =>
        obtain ⟨c1, nsv1⟩ := p
        simp only [hb] at hv
        cases hb2 : lookBehindAlts br (e2 :: es)
            (pc + 1 + (wrapPosLook (isHard br e) true nsv (minSize e) c1).length + 1) nsv1 (gix + groupCount e) with
        | error err => simp [hb2] at hv
        | ok p2 =>
          obtain ⟨f2, endPc2, nsv2⟩ := p2
          simp only [hb2, Except.ok.injEq, Prod.mk.injEq] at hv
          obtain ⟨rfl, rfl, rfl⟩ := hv
          have hlen2 := lookBehindAlts_len br (e2 :: es) _ nsv1 _ f2 endPc2 nsv2 hb2 endPc2
          have hcW : CodeAt prog (pc + 1) (wrapPosLook (isHard br e) true nsv (minSize e) c1) :=
            hc.left.left.right.cast (by addr)
          have hcj : prog[pc + 1 + (wrapPosLook (isHard br e) true nsv (minSize e) c1).length]? = some (.jmp endPc2) :=
            hc.left.right.head_at (by addr)
          have hc2 : CodeAt prog (pc + 1 + (wrapPosLook (isHard br e) true nsv (minSize e) c1).length + 1) (f2 endPc2) :=
            hc.right.cast (by addr)
          have ih := sim5_visit c n nS br hlen e false _ (nsv + 1) gix c1 nsv1 prog hok.1 h3e hb
            (wrapPosLook_body_codeAt hcW) (by omega)
          obtain ⟨hle1, s1⟩ := sim5_posBehind_wrap c n nS br hlen e (atomizeP br e false) (pc + 1) nsv gix c1 nsv1 prog h3e
            hcf.1 (atomizeP_shape br e false).2 (fun hh => atomizeP_easy br e false (by simp [hh])) hb hcW hnn ih
          obtain ⟨hle2, s2⟩ := sim5_lookBehindAlts c n nS br hlen (e2 :: es) _ nsv1 _ f2 endPc2 nsv2 prog
            (by simp [s5okAlts, hok.2.1, hok.2.2]) (by simp [condFreeAll, hcf.2.1, hcf.2.2]) hLs (by simp) hb2 (by omega) hc2
          refine ⟨by omega, fun hnS cm => ?_⟩
          have hsplit : prog[pc]? = some (.split (pc + 1)
              (pc + 1 + (wrapPosLook (isHard br e) true nsv (minSize e) c1).length + 1)) := hc.left.left.left.head
          have s1' := (s1 (by omega) cm).widen (Nat.le_refl nsv) hle2
          have s2' := (s2 hnS cm).widen (show nsv ≤ nsv1 by omega) (Nat.le_refl _)
          have := Sim2.alt2 (m := pc + 1 + (wrapPosLook (isHard br e) true nsv (minSize e) c1).length) hsplit hcj s1' s2'
            (by omega) (by omega)
          exact this.congr (fun st => by simp [posBehindAlts, atomizeAlts])
    · simp [hcs] at hv
termination_by es => sizeOf es
decreasing_by all_goals (simp_wf; try omega)
theorem sim5_lookBehindNegAlts (c : Ctx) (n nS : Nat) (br : Nat → Bool) (hlen : c.len < UNSET) :
    ∀ (es : List Expr) (pc nsv gix : Nat) (code : Code) (nsv' : Nat) (prog : List Insn),
      s5okAlts br es false = true → H3L n es gix →
      lookBehindNegAlts br es pc nsv gix = .ok (code, nsv') → n ≤ nsv → CodeAt prog pc code →
      nsv ≤ nsv' ∧ (nsv' ≤ nS → ∀ cm, Sim2 c n nS prog nsv nsv' true cm (negBehindSeq c (atomizeAlts br es false)) pc
        (pc + code.length))
  | [], pc, nsv, gix, code, nsv', prog, _, _, hv, _, _ => by
    simp only [lookBehindNegAlts, Except.ok.injEq, Prod.mk.injEq] at hv
    obtain ⟨rfl, rfl⟩ := hv
    exact ⟨Nat.le_refl _, fun _ cm => by
      simpa [negBehindSeq, atomizeAlts] using (Sim2.nil c n nS prog nsv nsv true cm pc).congr (g := negBehindSeq c [])
        (fun st => by simp [negBehindSeq])⟩
  | e :: es, pc, nsv, gix, code, nsv', prog, hok, hL, hv, hnn, hc => by
    simp only [lookBehindNegAlts] at hv
    simp only [s5okAlts, Bool.and_eq_true] at hok
    obtain ⟨h3e, hLs⟩ := hL.cons
    by_cases hcs : constSize e = true
    · simp only [hcs, Bool.not_true, Bool.false_eq_true, ↓reduceIte] at hv
      cases hb : visit br e false (negLookBodyPc true pc) nsv gix with
      | error err => simp [hb] at hv
      | ok p =>
        obtain ⟨c1, nsv1⟩ := p
        simp only [hb] at hv
        cases hb2 : lookBehindNegAlts br es (pc + (wrapNegLook true pc (minSize e) c1).length) nsv1 (gix + groupCount e) with
        | error err => simp [hb2] at hv
        | ok p2 =>
          obtain ⟨c2, nsv2⟩ := p2
          simp only [hb2, Except.ok.injEq, Prod.mk.injEq] at hv
          obtain ⟨rfl, rfl⟩ := hv
          have ih := sim5_visit c n nS br hlen e false _ nsv gix c1 nsv1 prog hok.1 h3e hb
            (wrapNegLook_body_codeAt hc.left) hnn
          obtain ⟨hle1, s1⟩ := sim5_negBehind_wrap c n nS e (atomizeP br e false) pc nsv c1 nsv1 prog
            (atomizeP_shape br e false).2 hc.left ih
          obtain ⟨hle2, s2⟩ := sim5_lookBehindNegAlts c n nS br hlen es _ nsv1 _ c2 nsv2 prog hok.2 hLs hb2 (by omega) hc.right
          refine ⟨by omega, fun hnS cm => ?_⟩
          have := (s1 (by omega) false).seq (s2 hnS cm) (keepsGood_negBehindOne c n _) hle1 hle2 (by omega) (by omega)
          exact (this.congr (g := negBehindSeq c (atomizeAlts br (e :: es) false))
            (fun st => by simp [negBehindSeq, atomizeAlts])).cast rfl (by addr)
    · simp [hcs] at hv
termination_by es => sizeOf es
decreasing_by all_goals (simp_wf; try omega)
end

end Fancy
