import FancyModel.Proofs.C16b
import FancyModel.Spec.Domain
import FancyModel.Model.Regex
/-!
# Shape of the trees the parser returns; preservation through `build`

The engine theorems take `wellShaped`, `leafSizesOK`, `noBareEndZ` … of the tree as hypotheses.
This file discharges the first two for every tree the *parser model* returns, for every pattern
string (every byte string, in fact: no UTF-8 validity, no fuel assumption, no assumption on
`isAlnum`), and transports them (and `noBareEndZ`) through `build`.

**`parse_wellShaped` as first asked for is FALSE.**  `wellShaped` has the clause
`.subroutine _ => false`, and the parser does return subroutine calls:

    parseStr isAlnum "(a)\g1".toList false
      = .ok ⟨.concat [.group 0 (.literal ['a'] false), .subroutine 1], [1], []⟩

(`parse_wellShaped_counterexample` below; also `(a)(?P>n)`-style calls).  It is the *analyzer*
(`checkRefs`, run by `build`) that rejects them (`CompileErr.featureNotSupported`).  This is the
only obstruction.  What is proved instead:

* `parse_parsedOK`: the tree satisfies `parsedOK`, which is `wellShaped` without the subroutine
  clause, *strengthened*: every alternation has at least two children (not just one) and every
  `Delegate` size is 0 or 1.
* `parse_wellShaped_partial`: `wellShaped t.expr = noSub t.expr` — well shaped exactly when the
  tree holds no subroutine call; `parse_wellShaped_of_noSub` is the conditional form.
* `parse_build_wellShaped`: if the parsed tree *builds* (`build t.expr t.backrefs = .ok b`), both
  `t.expr` and `b.raw` are well shaped — no side condition.  This is the form that discharges the
  hypothesis of the engine theorems, which all start from a `Built`.
* `parse_leafSizesOK` (unconditional), `parse_build_leafSizesOK`.
* `build_raw_eq`: `b.raw = (renumber tree 1).1` (and `b.wrapped`, `b.backrefs`, `b.nGroups`);
  `wellShaped`, `leafSizesOK`, `noBareEndZ`, `noSub`, `parsedOK` are invariant under `renumber`
  (`*_renumber`, as equalities), hence `build_raw_wellShaped`, `build_raw_leafSizesOK`,
  `build_raw_noBareEndZ`, and their converses `build_raw_*_iff`.
-/
namespace Fancy

/-! ## The shape the parser guarantees -/

mutual
/-- what the parser guarantees of every tree: literals are one character, alternations have at
    least two children, `Delegate` sizes are 0 or 1 (subroutine calls are allowed) -/
def parsedOK : Expr → Bool
  | .literal val _ => val.length == 1
  | .delegate _ size _ => decide (size ≤ 1)
  | .concat es => parsedOKAll es
  | .alt es => decide (2 ≤ es.length) && parsedOKAll es
  | .group _ e => parsedOK e
  | .look e _ => parsedOK e
  | .repeat e _ _ _ => parsedOK e
  | .atomic e => parsedOK e
  | .cond c y n => parsedOK c && parsedOK y && parsedOK n
  | _ => true
def parsedOKAll : List Expr → Bool
  | [] => true
  | e :: es => parsedOK e && parsedOKAll es
end

mutual
/-- no subroutine call anywhere -/
def noSub : Expr → Bool
  | .subroutine _ => false
  | .concat es => noSubAll es
  | .alt es => noSubAll es
  | .group _ e => noSub e
  | .look e _ => noSub e
  | .repeat e _ _ _ => noSub e
  | .atomic e => noSub e
  | .cond c y n => noSub c && noSub y && noSub n
  | _ => true
def noSubAll : List Expr → Bool
  | [] => true
  | e :: es => noSub e && noSubAll es
end

mutual
/-- for a tree of the parser's shape, `wellShaped` says exactly "no subroutine call" -/
theorem wellShaped_eq_noSub : ∀ (e : Expr), parsedOK e = true → wellShaped e = noSub e
  | .empty, _ | .any _, _ | .assertion _, _ | .backref _, _ | .keepOut, _ | .contPrev, _
  | .backrefExists _, _ | .delegate _ _ _, _ | .subroutine _, _ => by simp [wellShaped, noSub]
  | .literal v ci, h => by simpa [wellShaped, noSub, parsedOK] using h
  | .concat es, h => by
    simp only [parsedOK] at h
    simpa [wellShaped, noSub] using wellShapedAll_eq_noSubAll es h
  | .alt es, h => by
    simp only [parsedOK, Bool.and_eq_true, decide_eq_true_eq] at h
    have hne : es.isEmpty = false := by cases es <;> simp at h ⊢
    simp only [wellShaped, noSub, hne, Bool.not_false, Bool.true_and]
    exact wellShapedAll_eq_noSubAll es h.2
  | .group _ e, h => by
    simp only [parsedOK] at h; simpa [wellShaped, noSub] using wellShaped_eq_noSub e h
  | .look e _, h => by
    simp only [parsedOK] at h; simpa [wellShaped, noSub] using wellShaped_eq_noSub e h
  | .repeat e _ _ _, h => by
    simp only [parsedOK] at h; simpa [wellShaped, noSub] using wellShaped_eq_noSub e h
  | .atomic e, h => by
    simp only [parsedOK] at h; simpa [wellShaped, noSub] using wellShaped_eq_noSub e h
  | .cond c y n, h => by
    simp only [parsedOK, Bool.and_eq_true] at h
    simp only [wellShaped, noSub]
    rw [wellShaped_eq_noSub c h.1.1, wellShaped_eq_noSub y h.1.2, wellShaped_eq_noSub n h.2]
theorem wellShapedAll_eq_noSubAll : ∀ (es : List Expr), parsedOKAll es = true →
    wellShapedAll es = noSubAll es
  | [], _ => rfl
  | e :: es, h => by
    simp only [parsedOKAll, Bool.and_eq_true] at h
    simp only [wellShapedAll, noSubAll]
    rw [wellShaped_eq_noSub e h.1, wellShapedAll_eq_noSubAll es h.2]
end

mutual
theorem leafSizesOK_of_parsedOK : ∀ (e : Expr), parsedOK e = true → leafSizesOK e = true
  | .empty, _ | .any _, _ | .assertion _, _ | .backref _, _ | .keepOut, _ | .contPrev, _
  | .backrefExists _, _ | .literal _ _, _ | .subroutine _, _ => by simp [leafSizesOK]
  | .delegate _ size _, h => by
    simp only [parsedOK, decide_eq_true_eq] at h
    simp only [leafSizesOK]
    have : (1 : Nat) ≤ UNSET := by unfold UNSET; omega
    exact decide_eq_true (Nat.le_trans h this)
  | .concat es, h => by
    simp only [parsedOK] at h; simpa [leafSizesOK] using leafSizesOKList_of_parsedOKAll es h
  | .alt es, h => by
    simp only [parsedOK, Bool.and_eq_true] at h
    simpa [leafSizesOK] using leafSizesOKList_of_parsedOKAll es h.2
  | .group _ e, h => by
    simp only [parsedOK] at h; simpa [leafSizesOK] using leafSizesOK_of_parsedOK e h
  | .look e _, h => by
    simp only [parsedOK] at h; simpa [leafSizesOK] using leafSizesOK_of_parsedOK e h
  | .repeat e _ _ _, h => by
    simp only [parsedOK] at h; simpa [leafSizesOK] using leafSizesOK_of_parsedOK e h
  | .atomic e, h => by
    simp only [parsedOK] at h; simpa [leafSizesOK] using leafSizesOK_of_parsedOK e h
  | .cond c y n, h => by
    simp only [parsedOK, Bool.and_eq_true] at h
    simp only [leafSizesOK, Bool.and_eq_true]
    exact ⟨⟨leafSizesOK_of_parsedOK c h.1.1, leafSizesOK_of_parsedOK y h.1.2⟩,
      leafSizesOK_of_parsedOK n h.2⟩
theorem leafSizesOKList_of_parsedOKAll : ∀ (es : List Expr), parsedOKAll es = true →
    leafSizesOKList es = true
  | [], _ => rfl
  | e :: es, h => by
    simp only [parsedOKAll, Bool.and_eq_true] at h
    simp only [leafSizesOKList, Bool.and_eq_true]
    exact ⟨leafSizesOK_of_parsedOK e h.1, leafSizesOKList_of_parsedOKAll es h.2⟩
end

mutual
/-- a well-shaped tree holds no subroutine call -/
theorem noSub_of_wellShaped : ∀ (e : Expr), wellShaped e = true → noSub e = true
  | .empty, _ | .any _, _ | .assertion _, _ | .backref _, _ | .keepOut, _ | .contPrev, _
  | .backrefExists _, _ | .delegate _ _ _, _ | .literal _ _, _ => by simp [noSub]
  | .subroutine _, h => by simp [wellShaped] at h
  | .concat es, h => by
    simp only [wellShaped] at h; simpa [noSub] using noSubAll_of_wellShapedAll es h
  | .alt es, h => by
    simp only [wellShaped, Bool.and_eq_true] at h
    simpa [noSub] using noSubAll_of_wellShapedAll es h.2
  | .group _ e, h => by
    simp only [wellShaped] at h; simpa [noSub] using noSub_of_wellShaped e h
  | .look e _, h => by
    simp only [wellShaped] at h; simpa [noSub] using noSub_of_wellShaped e h
  | .repeat e _ _ _, h => by
    simp only [wellShaped] at h; simpa [noSub] using noSub_of_wellShaped e h
  | .atomic e, h => by
    simp only [wellShaped] at h; simpa [noSub] using noSub_of_wellShaped e h
  | .cond c y n, h => by
    simp only [wellShaped, Bool.and_eq_true] at h
    simp only [noSub, Bool.and_eq_true]
    exact ⟨⟨noSub_of_wellShaped c h.1.1, noSub_of_wellShaped y h.1.2⟩, noSub_of_wellShaped n h.2⟩
theorem noSubAll_of_wellShapedAll : ∀ (es : List Expr), wellShapedAll es = true →
    noSubAll es = true
  | [], _ => rfl
  | e :: es, h => by
    simp only [wellShapedAll, Bool.and_eq_true] at h
    simp only [noSubAll, Bool.and_eq_true]
    exact ⟨noSub_of_wellShaped e h.1, noSubAll_of_wellShapedAll es h.2⟩
end

/-! ## The analyzer rejects subroutine calls -/

mutual
theorem noSub_of_checkRefs : ∀ (e : Expr) (n m : Nat), checkRefs e n = .ok m → noSub e = true
  | .empty, _, _, _ | .any _, _, _, _ | .assertion _, _, _, _ | .backref _, _, _, _
  | .keepOut, _, _, _ | .contPrev, _, _, _ | .backrefExists _, _, _, _ | .delegate _ _ _, _, _, _
  | .literal _ _, _, _, _ => by simp [noSub]
  | .subroutine _, _, _, h => by simp [checkRefs] at h
  | .concat es, n, m, h => by
    simp only [checkRefs] at h; simpa [noSub] using noSubAll_of_checkRefsList es n m h
  | .alt es, n, m, h => by
    simp only [checkRefs] at h; simpa [noSub] using noSubAll_of_checkRefsList es n m h
  | .group _ e, n, m, h => by
    simp only [checkRefs] at h; simpa [noSub] using noSub_of_checkRefs e _ m h
  | .look e _, n, m, h => by
    simp only [checkRefs] at h; simpa [noSub] using noSub_of_checkRefs e _ m h
  | .repeat e _ _ _, n, m, h => by
    simp only [checkRefs] at h; simpa [noSub] using noSub_of_checkRefs e _ m h
  | .atomic e, n, m, h => by
    simp only [checkRefs] at h; simpa [noSub] using noSub_of_checkRefs e _ m h
  | .cond c y f, n, m, h => by
    simp only [checkRefs] at h
    simp only [noSub, Bool.and_eq_true]
    cases hc : checkRefs c n with
    | error e => rw [hc] at h; cases h
    | ok n1 =>
      rw [hc] at h; simp only at h
      cases hy : checkRefs y n1 with
      | error e => rw [hy] at h; cases h
      | ok n2 =>
        rw [hy] at h; simp only at h
        exact ⟨⟨noSub_of_checkRefs c n n1 hc, noSub_of_checkRefs y n1 n2 hy⟩,
          noSub_of_checkRefs f n2 m h⟩
theorem noSubAll_of_checkRefsList : ∀ (es : List Expr) (n m : Nat),
    checkRefsList es n = .ok m → noSubAll es = true
  | [], _, _, _ => rfl
  | e :: es, n, m, h => by
    simp only [checkRefsList] at h
    simp only [noSubAll, Bool.and_eq_true]
    cases he : checkRefs e n with
    | error err => rw [he] at h; cases h
    | ok n' =>
      rw [he] at h; simp only at h
      exact ⟨noSub_of_checkRefs e n n' he, noSubAll_of_checkRefsList es n' m h⟩
end

/-! ## `renumber` changes group numbers only -/

theorem renumberList_length : ∀ (es : List Expr) (n : Nat), (renumberList es n).1.length = es.length
  | [], _ => rfl
  | e :: es, n => by simp only [renumberList, List.length_cons]; rw [renumberList_length es]

theorem renumberList_isEmpty (es : List Expr) (n : Nat) :
    (renumberList es n).1.isEmpty = es.isEmpty := by
  cases es <;> simp [renumberList]

mutual
theorem wellShaped_renumber : ∀ (e : Expr) (n : Nat), wellShaped (renumber e n).1 = wellShaped e
  | .empty, _ | .any _, _ | .assertion _, _ | .backref _, _ | .keepOut, _ | .contPrev, _
  | .backrefExists _, _ | .delegate _ _ _, _ | .literal _ _, _ | .subroutine _, _ => by
    simp [renumber]
  | .concat es, n => by simp only [renumber, wellShaped]; exact wellShapedAll_renumber es n
  | .alt es, n => by
    simp only [renumber, wellShaped]
    rw [renumberList_isEmpty, wellShapedAll_renumber es n]
  | .group _ e, n => by simp only [renumber, wellShaped]; exact wellShaped_renumber e _
  | .look e _, n => by simp only [renumber, wellShaped]; exact wellShaped_renumber e _
  | .repeat e _ _ _, n => by simp only [renumber, wellShaped]; exact wellShaped_renumber e _
  | .atomic e, n => by simp only [renumber, wellShaped]; exact wellShaped_renumber e _
  | .cond c y f, n => by
    simp only [renumber, wellShaped]
    rw [wellShaped_renumber c, wellShaped_renumber y, wellShaped_renumber f]
theorem wellShapedAll_renumber : ∀ (es : List Expr) (n : Nat),
    wellShapedAll (renumberList es n).1 = wellShapedAll es
  | [], _ => rfl
  | e :: es, n => by
    simp only [renumberList, wellShapedAll]
    rw [wellShaped_renumber e, wellShapedAll_renumber es]
end

mutual
theorem leafSizesOK_renumber : ∀ (e : Expr) (n : Nat), leafSizesOK (renumber e n).1 = leafSizesOK e
  | .empty, _ | .any _, _ | .assertion _, _ | .backref _, _ | .keepOut, _ | .contPrev, _
  | .backrefExists _, _ | .delegate _ _ _, _ | .literal _ _, _ | .subroutine _, _ => by
    simp [renumber]
  | .concat es, n => by simp only [renumber, leafSizesOK]; exact leafSizesOKList_renumber es n
  | .alt es, n => by simp only [renumber, leafSizesOK]; exact leafSizesOKList_renumber es n
  | .group _ e, n => by simp only [renumber, leafSizesOK]; exact leafSizesOK_renumber e _
  | .look e _, n => by simp only [renumber, leafSizesOK]; exact leafSizesOK_renumber e _
  | .repeat e _ _ _, n => by simp only [renumber, leafSizesOK]; exact leafSizesOK_renumber e _
  | .atomic e, n => by simp only [renumber, leafSizesOK]; exact leafSizesOK_renumber e _
  | .cond c y f, n => by
    simp only [renumber, leafSizesOK]
    rw [leafSizesOK_renumber c, leafSizesOK_renumber y, leafSizesOK_renumber f]
theorem leafSizesOKList_renumber : ∀ (es : List Expr) (n : Nat),
    leafSizesOKList (renumberList es n).1 = leafSizesOKList es
  | [], _ => rfl
  | e :: es, n => by
    simp only [renumberList, leafSizesOKList]
    rw [leafSizesOK_renumber e, leafSizesOKList_renumber es]
end

mutual
theorem noBareEndZ_renumber : ∀ (e : Expr) (n : Nat), noBareEndZ (renumber e n).1 = noBareEndZ e
  | .empty, _ | .any _, _ | .assertion _, _ | .backref _, _ | .keepOut, _ | .contPrev, _
  | .backrefExists _, _ | .delegate _ _ _, _ | .literal _ _, _ | .subroutine _, _ => by
    simp [renumber]
  | .concat es, n => by simp only [renumber, noBareEndZ]; exact noBareEndZAll_renumber es n
  | .alt es, n => by simp only [renumber, noBareEndZ]; exact noBareEndZAll_renumber es n
  | .group _ e, n => by simp only [renumber, noBareEndZ]; exact noBareEndZ_renumber e _
  | .look e _, n => by simp only [renumber, noBareEndZ]
  | .repeat e _ _ _, n => by simp only [renumber, noBareEndZ]; exact noBareEndZ_renumber e _
  | .atomic e, n => by simp only [renumber, noBareEndZ]; exact noBareEndZ_renumber e _
  | .cond c y f, n => by
    simp only [renumber, noBareEndZ]
    rw [noBareEndZ_renumber c, noBareEndZ_renumber y, noBareEndZ_renumber f]
theorem noBareEndZAll_renumber : ∀ (es : List Expr) (n : Nat),
    noBareEndZAll (renumberList es n).1 = noBareEndZAll es
  | [], _ => rfl
  | e :: es, n => by
    simp only [renumberList, noBareEndZAll]
    rw [noBareEndZ_renumber e, noBareEndZAll_renumber es]
end

mutual
theorem noSub_renumber : ∀ (e : Expr) (n : Nat), noSub (renumber e n).1 = noSub e
  | .empty, _ | .any _, _ | .assertion _, _ | .backref _, _ | .keepOut, _ | .contPrev, _
  | .backrefExists _, _ | .delegate _ _ _, _ | .literal _ _, _ | .subroutine _, _ => by
    simp [renumber]
  | .concat es, n => by simp only [renumber, noSub]; exact noSubAll_renumber es n
  | .alt es, n => by simp only [renumber, noSub]; exact noSubAll_renumber es n
  | .group _ e, n => by simp only [renumber, noSub]; exact noSub_renumber e _
  | .look e _, n => by simp only [renumber, noSub]; exact noSub_renumber e _
  | .repeat e _ _ _, n => by simp only [renumber, noSub]; exact noSub_renumber e _
  | .atomic e, n => by simp only [renumber, noSub]; exact noSub_renumber e _
  | .cond c y f, n => by
    simp only [renumber, noSub]
    rw [noSub_renumber c, noSub_renumber y, noSub_renumber f]
theorem noSubAll_renumber : ∀ (es : List Expr) (n : Nat),
    noSubAll (renumberList es n).1 = noSubAll es
  | [], _ => rfl
  | e :: es, n => by
    simp only [renumberList, noSubAll]
    rw [noSub_renumber e, noSubAll_renumber es]
end

mutual
theorem parsedOK_renumber : ∀ (e : Expr) (n : Nat), parsedOK (renumber e n).1 = parsedOK e
  | .empty, _ | .any _, _ | .assertion _, _ | .backref _, _ | .keepOut, _ | .contPrev, _
  | .backrefExists _, _ | .delegate _ _ _, _ | .literal _ _, _ | .subroutine _, _ => by
    simp [renumber]
  | .concat es, n => by simp only [renumber, parsedOK]; exact parsedOKAll_renumber es n
  | .alt es, n => by
    simp only [renumber, parsedOK]
    rw [renumberList_length, parsedOKAll_renumber es n]
  | .group _ e, n => by simp only [renumber, parsedOK]; exact parsedOK_renumber e _
  | .look e _, n => by simp only [renumber, parsedOK]; exact parsedOK_renumber e _
  | .repeat e _ _ _, n => by simp only [renumber, parsedOK]; exact parsedOK_renumber e _
  | .atomic e, n => by simp only [renumber, parsedOK]; exact parsedOK_renumber e _
  | .cond c y f, n => by
    simp only [renumber, parsedOK]
    rw [parsedOK_renumber c, parsedOK_renumber y, parsedOK_renumber f]
theorem parsedOKAll_renumber : ∀ (es : List Expr) (n : Nat),
    parsedOKAll (renumberList es n).1 = parsedOKAll es
  | [], _ => rfl
  | e :: es, n => by
    simp only [renumberList, parsedOKAll]
    rw [parsedOK_renumber e, parsedOKAll_renumber es]
end

/-! ## `build` -/

/-- the wrapped tree, numbered, spelled out -/
theorem renumber_wrapTree (tree : Expr) :
    (renumber (wrapTree tree) 0).1 =
      .concat [.repeat (.any true) 0 none false, .group 0 (renumber tree 1).1] := by
  simp [wrapTree, renumber, renumberList]

/-- **what `build` keeps of the tree**: `raw` is the parser's tree with its groups numbered from 1
    in opening-parenthesis order, `wrapped` is the numbered `wrap_tree`, the back-reference set is
    passed on, `nGroups` is what the analyzer's checks end at, and those checks have passed. -/
theorem build_raw_eq (tree : Expr) (backrefs : List Nat) (b : Built)
    (hb : build tree backrefs = .ok b) :
    b.raw = (renumber tree 1).1 ∧
    b.wrapped = .concat [.repeat (.any true) 0 none false, .group 0 (renumber tree 1).1] ∧
    b.wrapped = (renumber (wrapTree tree) 0).1 ∧
    b.backrefs = backrefs ∧
    checkRefs b.wrapped 0 = .ok b.nGroups := by
  unfold build at hb
  simp only [renumber_wrapTree] at hb ⊢
  split at hb
  · cases hb
  · rename_i n hn
    split at hb
    · cases hb; exact ⟨rfl, rfl, rfl, rfl, hn⟩
    · split at hb
      · cases hb
      · cases hb; exact ⟨rfl, rfl, rfl, rfl, hn⟩

/-- a tree that builds holds no subroutine call -/
theorem build_noSub (tree : Expr) (backrefs : List Nat) (b : Built)
    (hb : build tree backrefs = .ok b) : noSub tree = true := by
  obtain ⟨_, hw, _, _, hc⟩ := build_raw_eq tree backrefs b hb
  rw [hw] at hc
  have := noSub_of_checkRefs _ _ _ hc
  simpa [noSub, noSubAll, noSub_renumber] using this

theorem build_raw_wellShaped_iff (tree : Expr) (backrefs : List Nat) (b : Built)
    (hb : build tree backrefs = .ok b) : wellShaped b.raw = wellShaped tree := by
  rw [(build_raw_eq tree backrefs b hb).1, wellShaped_renumber]

theorem build_raw_leafSizesOK_iff (tree : Expr) (backrefs : List Nat) (b : Built)
    (hb : build tree backrefs = .ok b) : leafSizesOK b.raw = leafSizesOK tree := by
  rw [(build_raw_eq tree backrefs b hb).1, leafSizesOK_renumber]

theorem build_raw_noBareEndZ_iff (tree : Expr) (backrefs : List Nat) (b : Built)
    (hb : build tree backrefs = .ok b) : noBareEndZ b.raw = noBareEndZ tree := by
  rw [(build_raw_eq tree backrefs b hb).1, noBareEndZ_renumber]

theorem build_raw_parsedOK_iff (tree : Expr) (backrefs : List Nat) (b : Built)
    (hb : build tree backrefs = .ok b) : parsedOK b.raw = parsedOK tree := by
  rw [(build_raw_eq tree backrefs b hb).1, parsedOK_renumber]

theorem build_raw_wellShaped (tree : Expr) (backrefs : List Nat) (b : Built)
    (hb : build tree backrefs = .ok b) (h : wellShaped tree = true) : wellShaped b.raw = true := by
  rw [build_raw_wellShaped_iff tree backrefs b hb]; exact h

theorem build_raw_leafSizesOK (tree : Expr) (backrefs : List Nat) (b : Built)
    (hb : build tree backrefs = .ok b) (h : leafSizesOK tree = true) :
    leafSizesOK b.raw = true := by
  rw [build_raw_leafSizesOK_iff tree backrefs b hb]; exact h

theorem build_raw_noBareEndZ (tree : Expr) (backrefs : List Nat) (b : Built)
    (hb : build tree backrefs = .ok b) (h : noBareEndZ tree = true) :
    noBareEndZ b.raw = true := by
  rw [build_raw_noBareEndZ_iff tree backrefs b hb]; exact h

/-- a tree of the parser's shape that builds is well shaped, and so is `raw` -/
theorem build_wellShaped_of_parsedOK (tree : Expr) (backrefs : List Nat) (b : Built)
    (hb : build tree backrefs = .ok b) (h : parsedOK tree = true) :
    wellShaped tree = true ∧ wellShaped b.raw = true := by
  have hw : wellShaped tree = true := by
    rw [wellShaped_eq_noSub tree h]; exact build_noSub tree backrefs b hb
  exact ⟨hw, build_raw_wellShaped tree backrefs b hb hw⟩

end Fancy

namespace Fancy.Parse
open Fancy.Utf8 (codepointLen isLead)
open Fancy

/-! ## The parser: every returned node is of the parser's shape

No assumption on the bytes (validity of the UTF-8 is not needed: a slice that exists has the
length asked for, and `codepointLen b` bytes starting with `b` decode to one character, lossily or
not), none on the fuel, none on `isAlnum`. -/

/-- the returned node is of the parser's shape -/
def Shp (r : Nat × Expr × PState) : Prop := parsedOK r.2.1 = true

/-- the returned children are of the parser's shape -/
def ShpL (r : Nat × List Expr × PState) : Prop := parsedOKAll r.2.1 = true

@[simp] theorem Shp_mk (ix : Nat) (e : Expr) (st : PState) :
    Shp (ix, e, st) = (parsedOK e = true) := rfl

@[simp] theorem ShpL_mk (ix : Nat) (es : List Expr) (st : PState) :
    ShpL (ix, es, st) = (parsedOKAll es = true) := rfl

theorem okP_slice (re : Bytes) (a b : Nat) (site : String) :
    OkP (fun s => s = (re.extract a b).toList ∧ b ≤ re.size) (slice re a b site) := by
  unfold slice
  refine OkP.ite (fun h => ?_) (fun _ => trivial)
  simp only [sliceOk, Bool.and_eq_true, decide_eq_true_eq] at h
  exact ⟨rfl, h.1.1.2⟩

theorem okP_byteAt (re : Bytes) (i : Nat) (site : String) :
    OkP (fun b => re[i]? = some b) (byteAt re i site) := by
  unfold byteAt
  split
  · rename_i b hb; exact hb
  · trivial

theorem parsedOK_mk (k : RefKind) (g : Nat) : parsedOK (k.mk g) = true := by
  cases k <;> simp [RefKind.mk, parsedOK]

theorem shp_parseNumberedBackref (re : Bytes) (st : PState) (ix : Nat) (k : RefKind) :
    OkP Shp (parseNumberedBackref re st ix k) := by
  unfold parseNumberedBackref
  refine OkP.bind OkP.trivial (fun r _ => ?_)
  cases r with
  | none => trivial
  | some q =>
    obtain ⟨e, g⟩ := q
    simp only
    refine OkP.ite (fun _ => ?_) (fun _ => trivial)
    exact parsedOK_mk k g

theorem shp_parseNamedBackref (isAlnum : Char → Bool) (re : Bytes) (st : PState) (ix : Nat)
    (open_ close : List Nat) (allowRelative : Bool) (k : RefKind) :
    OkP Shp (parseNamedBackref isAlnum re st ix open_ close allowRelative k) := by
  unfold parseNamedBackref
  refine OkP.bind OkP.trivial (fun _ _ => ?_)
  refine OkP.bind OkP.trivial (fun r _ => ?_)
  cases r with
  | none => trivial
  | some q =>
    obtain ⟨a, b, skip⟩ := q
    simp only
    split
    · exact parsedOK_mk k _
    · trivial

theorem shp_parseHex (re : Bytes) (fl : Flags) (ix digits : Nat) :
    OkP (fun r => parsedOK r.2 = true) (parseHex re fl ix digits) := by
  unfold parseHex
  refine OkP.ite (fun _ => trivial) (fun _ => ?_)
  refine OkP.bind OkP.trivial (fun b _ => ?_)
  refine OkP.bind OkP.trivial (fun p _ => ?_)
  split
  · trivial
  · refine OkP.ite (fun _ => ?_) (fun _ => trivial)
    simp [parsedOK]

/-- `parse_escape` returns a leaf of the parser's shape -/
theorem shp_parseEscape (isAlnum : Char → Bool) (re : Bytes) (st : PState) (ix : Nat)
    (inClass : Bool) : OkP Shp (parseEscape isAlnum re st ix inClass) := by
  unfold parseEscape
  split
  · trivial
  rename_i b hb
  simp only
  have one : ∀ (e : Expr), parsedOK e = true →
      OkP Shp (.ok (ix + 1 + codepointLen b, e, st)) := fun e he => he
  have hexc : ∀ n, OkP Shp (do
      let (e, x) ← parseHex re st.flags (ix + 1 + codepointLen b) n
      Res.ok (e, x, st)) := by
    intro n
    refine OkP.bind (shp_parseHex re st.flags _ n) (fun r hr => ?_)
    obtain ⟨e, x⟩ := r
    exact hr
  refine OkP.ite (fun _ => shp_parseNumberedBackref re st (ix + 1) .backref) (fun _ => ?_)
  refine OkP.ite (fun _ => ?_) (fun _ => ?_)
  · refine OkP.ite (fun _ => ?_) (fun _ => ?_)
    · exact shp_parseNamedBackref ..
    · exact shp_parseNamedBackref ..
  refine OkP.ite (fun _ => one _ (by simp [parsedOK])) (fun _ => ?_)
  refine OkP.ite (fun _ => one _ (by simp [parsedOK])) (fun _ => ?_)
  refine OkP.ite (fun _ => one _ (by simp [parsedOK])) (fun _ => ?_)
  refine OkP.ite (fun _ => ?_) (fun _ => ?_)
  · refine OkP.ite (fun _ => ?_) (fun _ => one _ (by simp [parsedOK]))
    exact OkP.bind OkP.trivial (fun _ _ => trivial)
  refine OkP.ite (fun _ => ?_) (fun _ => ?_)
  · refine OkP.ite (fun _ => ?_) (fun _ => one _ (by simp [parsedOK]))
    exact OkP.bind OkP.trivial (fun _ _ => trivial)
  refine OkP.ite (fun _ => one _ (by simp [parsedOK])) (fun _ => ?_)
  refine OkP.ite (fun _ => one _ (by simp [parsedOK])) (fun _ => ?_)
  refine OkP.ite (fun _ => ?_) (fun _ => ?_)
  · exact OkP.bind OkP.trivial (fun _ _ => one _ (by simp [parsedOK]))
  refine OkP.ite (fun _ => one _ (by simp [parsedOK])) (fun _ => ?_)
  refine OkP.ite (fun _ => hexc 2) (fun _ => ?_)
  refine OkP.ite (fun _ => hexc 4) (fun _ => ?_)
  refine OkP.ite (fun _ => hexc 8) (fun _ => ?_)
  refine OkP.ite (fun _ => ?_) (fun _ => ?_)
  · refine OkP.bind OkP.trivial (fun b2 _ => ?_)
    refine OkP.bind OkP.trivial (fun e _ => ?_)
    refine OkP.bind OkP.trivial (fun s _ => ?_)
    simp [parsedOK]
  refine OkP.ite (fun _ => one _ (by simp [parsedOK])) (fun _ => ?_)
  refine OkP.ite (fun _ => one _ (by simp [parsedOK])) (fun _ => ?_)
  refine OkP.ite (fun _ => ?_) (fun _ => ?_)
  · refine OkP.ite (fun _ => trivial) (fun _ => ?_)
    refine OkP.bind OkP.trivial (fun b2 _ => ?_)
    refine OkP.ite (fun _ => shp_parseNumberedBackref ..) (fun _ => ?_)
    refine OkP.ite (fun _ => ?_) (fun _ => ?_)
    · exact shp_parseNamedBackref ..
    · exact shp_parseNamedBackref ..
  refine OkP.ite (fun _ => one _ (by simp [parsedOK, makeLiteral])) (fun _ => ?_)
  refine OkP.ite (fun _ => one _ (by simp [parsedOK, makeLiteral])) (fun _ => ?_)
  refine OkP.ite (fun _ => one _ (by simp [parsedOK, makeLiteral])) (fun _ => ?_)
  refine OkP.ite (fun _ => one _ (by simp [parsedOK, makeLiteral])) (fun _ => ?_)
  refine OkP.ite (fun _ => one _ (by simp [parsedOK, makeLiteral])) (fun _ => ?_)
  refine OkP.ite (fun _ => one _ (by simp [parsedOK, makeLiteral])) (fun _ => ?_)
  refine OkP.ite (fun _ => one _ (by simp [parsedOK, makeLiteral])) (fun _ => ?_)
  refine OkP.ite (fun _ => one _ (by simp [parsedOK, makeLiteral])) (fun _ => ?_)
  refine OkP.ite (fun _ => one _ (by simp [parsedOK, makeLiteral])) (fun _ => ?_)
  refine OkP.bind (okP_slice re _ _ _) (fun s hs => ?_)
  refine OkP.ite (fun _ => trivial) (fun _ => one _ ?_)
  obtain ⟨hs1, hs2⟩ := hs
  subst hs1
  simpa [parsedOK, makeLiteral] using decode_char_slice hb hs2

/-- `parse_class` returns a `Delegate` of size 1 -/
theorem shp_parseClass (isAlnum : Char → Bool) (re : Bytes) (st : PState) (ix : Nat) :
    OkP Shp (parseClass isAlnum re st ix) := by
  unfold parseClass
  simp only
  refine OkP.bind OkP.trivial (fun r _ => ?_)
  obtain ⟨ix', rcls, st'⟩ := r
  simp [parsedOK]

/-! ### The recursive descent -/

/-- outcome of the `|` loop: children of the parser's shape, at least one when the loop starts at
    a `|` -/
def AltL (re : Bytes) (ix : Nat) (r : Nat × List Expr × PState) : Prop :=
  parsedOKAll r.2.1 = true ∧ ((re[ix]? == some (ch '|')) = true → r.2.1 ≠ [])

/-- the induction hypothesis of the descent: all functions at fuel `f` -/
structure DescS (re : Bytes) (isAlnum : Char → Bool) (f : Nat) : Prop where
  re_ : ∀ st ix d, OkP Shp (parseRe isAlnum f re st ix d)
  alt_ : ∀ st ix d, OkP (AltL re ix) (reAltLoop isAlnum f re st ix d)
  branch_ : ∀ st ix d, OkP Shp (parseBranch isAlnum f re st ix d)
  bloop_ : ∀ st ix d, OkP ShpL (branchLoop isAlnum f re st ix d)
  piece_ : ∀ st ix d, OkP Shp (parsePiece isAlnum f re st ix d)
  atom_ : ∀ st ix d, OkP Shp (parseAtom isAlnum f re st ix d)
  group_ : ∀ st ix d, OkP Shp (parseGroup isAlnum f re st ix d)
  flags_ : ∀ st ix d, OkP Shp (parseFlags isAlnum f re st ix d)
  cond_ : ∀ st ix d, OkP Shp (parseConditional isAlnum f re st ix d)

section steps
variable {re : Bytes} {isAlnum : Char → Bool}

theorem stepS_parseRe {f : Nat} (h : DescS re isAlnum f) (st : PState) (ix d : Nat) :
    OkP Shp (parseRe isAlnum (f + 1) re st ix d) := by
  unfold parseRe
  refine OkP.bind (h.branch_ st ix d) (fun r hr => ?_)
  obtain ⟨ix1, child, st1⟩ := r
  have hc : parsedOK child = true := hr
  try simp only at hr ⊢
  refine OkP.bind OkP.trivial (fun ix2 _ => ?_)
  refine OkP.bind OkP.trivial (fun _ _ => ?_)
  refine OkP.ite (fun hbar => ?_) (fun _ => ?_)
  · refine OkP.bind (h.alt_ st1 ix2 d) (fun r hr2 => ?_)
    obtain ⟨ix3, rest, st3⟩ := r
    obtain ⟨h5, h6⟩ := hr2
    have hne := h6 hbar
    try simp only at h5 hne ⊢
    cases rest with
    | nil => exact absurd rfl hne
    | cons r1 rs =>
      simp only [parsedOKAll, Bool.and_eq_true] at h5
      simp [parsedOK, parsedOKAll, hc, h5.1, h5.2]
  · try simp only
    refine OkP.ite (fun _ => trivial) (fun _ => hc)

theorem stepS_reAltLoop {f : Nat} (h : DescS re isAlnum f) (st : PState) (ix d : Nat) :
    OkP (AltL re ix) (reAltLoop isAlnum (f + 1) re st ix d) := by
  unfold reAltLoop
  refine OkP.bind OkP.trivial (fun _ _ => ?_)
  refine OkP.ite (fun _ => ?_) (fun hno => ⟨rfl, fun hyes => absurd hyes hno⟩)
  refine OkP.bind (h.branch_ st (ix + 1) d) (fun r hr => ?_)
  obtain ⟨ix1, child, st1⟩ := r
  have hc : parsedOK child = true := hr
  try simp only at hr ⊢
  refine OkP.bind OkP.trivial (fun ix2 _ => ?_)
  refine OkP.bind (h.alt_ st1 ix2 d) (fun r hr2 => ?_)
  obtain ⟨ix3, rest, st3⟩ := r
  obtain ⟨h5, _⟩ := hr2
  try simp only at h5 ⊢
  exact ⟨by simp [parsedOKAll, hc, h5], fun _ => by simp⟩

theorem stepS_parseBranch {f : Nat} (h : DescS re isAlnum f) (st : PState) (ix d : Nat) :
    OkP Shp (parseBranch isAlnum (f + 1) re st ix d) := by
  unfold parseBranch
  refine OkP.bind (h.bloop_ st ix d) (fun r hr => ?_)
  obtain ⟨ix1, children, st1⟩ := r
  have hc : parsedOKAll children = true := hr
  try simp only at hr ⊢
  match children, hc with
  | [], _ => simp [parsedOK]
  | [c], hc => simpa [parsedOKAll] using hc
  | c1 :: c2 :: cs, hc => simpa [parsedOK] using hc

theorem stepS_branchLoop {f : Nat} (h : DescS re isAlnum f) (st : PState) (ix d : Nat) :
    OkP ShpL (branchLoop isAlnum (f + 1) re st ix d) := by
  unfold branchLoop
  refine OkP.ite (fun _ => ?_) (fun _ => rfl)
  refine OkP.bind (h.piece_ st ix d) (fun r hr => ?_)
  obtain ⟨next, child, st1⟩ := r
  have hc : parsedOK child = true := hr
  try simp only at hr ⊢
  refine OkP.ite (fun _ => rfl) (fun _ => ?_)
  refine OkP.bind (h.bloop_ st1 next d) (fun r hr2 => ?_)
  obtain ⟨ix3, rest, st3⟩ := r
  have hrest : parsedOKAll rest = true := hr2
  simp only [OkP_ok, ShpL_mk]
  split
  · exact hrest
  · simp [parsedOKAll, hc, hrest]

theorem stepS_parsePiece {f : Nat} (h : DescS re isAlnum f) (st : PState) (ix d : Nat) :
    OkP Shp (parsePiece isAlnum (f + 1) re st ix d) := by
  unfold parsePiece
  refine OkP.bind (h.atom_ st ix d) (fun r hr => ?_)
  obtain ⟨ix1, child, st1⟩ := r
  have hc : parsedOK child = true := hr
  try simp only at hr ⊢
  refine OkP.bind OkP.trivial (fun ix2 _ => ?_)
  refine OkP.ite (fun _ => ?_) (fun _ => hc)
  refine OkP.bind OkP.trivial (fun b _ => ?_)
  refine OkP.bind OkP.trivial (fun q _ => ?_)
  cases q with
  | none => exact hc
  | some p =>
    obtain ⟨lo, hi, i⟩ := p
    simp only
    refine OkP.ite (fun _ => trivial) (fun _ => ?_)
    refine OkP.bind OkP.trivial (fun ix3 _ => ?_)
    refine OkP.ite (fun _ => ?_) (fun _ => ?_)
    · simpa [parsedOK] using hc
    · simpa [parsedOK] using hc

theorem stepS_parseAtom {f : Nat} (h : DescS re isAlnum f) (st : PState) (ix d : Nat) :
    OkP Shp (parseAtom isAlnum (f + 1) re st ix d) := by
  unfold parseAtom
  refine OkP.bind OkP.trivial (fun ix1 _ => ?_)
  have leaf : ∀ (ix' : Nat) (e : Expr), parsedOK e = true → OkP Shp (.ok (ix', e, st)) :=
    fun ix' e he => he
  refine OkP.ite (fun _ => leaf _ _ (by simp [parsedOK])) (fun _ => ?_)
  refine OkP.bind (okP_byteAt re ix1 _) (fun b hb => ?_)
  refine OkP.ite (fun _ => leaf _ _ (by simp [parsedOK])) (fun _ => ?_)
  refine OkP.ite (fun _ => leaf _ _ (by simp [parsedOK])) (fun _ => ?_)
  refine OkP.ite (fun _ => leaf _ _ (by simp [parsedOK])) (fun _ => ?_)
  refine OkP.ite (fun _ => h.group_ st ix1 d) (fun _ => ?_)
  refine OkP.ite (fun _ => shp_parseEscape isAlnum re st ix1 false) (fun _ => ?_)
  refine OkP.ite (fun _ => leaf _ _ (by simp [parsedOK])) (fun _ => ?_)
  refine OkP.ite (fun _ => shp_parseClass isAlnum re st ix1) (fun _ => ?_)
  refine OkP.bind (okP_slice re _ _ _) (fun s hs => ?_)
  obtain ⟨hs1, hs2⟩ := hs
  subst hs1
  refine leaf _ _ ?_
  simpa [parsedOK] using decode_char_slice hb hs2

theorem stepS_parseGroup {f : Nat} (h : DescS re isAlnum f) (st : PState) (ix d : Nat) :
    OkP Shp (parseGroup isAlnum (f + 1) re st ix d) := by
  unfold parseGroup
  refine OkP.ite (fun _ => trivial) (fun _ => ?_)
  refine OkP.bind OkP.trivial (fun ix1 _ => ?_)
  refine OkP.bind OkP.trivial (fun _ _ => ?_)
  extract_lets body st2
  have hbody : ∀ la skip st', OkP Shp (body la skip st') := by
    intro la skip st'
    simp only [body]
    refine OkP.bind (h.re_ st' (ix1 + skip) (d + 1)) (fun r hr => ?_)
    obtain ⟨ix2, child, st3⟩ := r
    have hc : parsedOK child = true := hr
    try simp only at hr ⊢
    refine OkP.bind OkP.trivial (fun ix3 _ => ?_)
    cases la with
    | some la => simpa [parsedOK] using hc
    | none =>
      simp only
      refine OkP.ite (fun _ => ?_) (fun _ => ?_)
      · simpa [parsedOK] using hc
      · simpa [parsedOK] using hc
  clear_value body
  cases hlook : lookOf re ix1 with
  | some p =>
    obtain ⟨la, skip⟩ := p
    exact hbody _ _ _
  | none =>
    simp only
    refine OkP.ite (fun _ => ?_) (fun _ => ?_)
    · refine OkP.bind OkP.trivial (fun _ _ => ?_)
      refine OkP.bind OkP.trivial (fun r _ => ?_)
      cases r with
      | none => trivial
      | some p =>
        obtain ⟨a, b, skip⟩ := p
        exact hbody _ _ _
    refine OkP.ite (fun _ => ?_) (fun _ => ?_)
    · refine OkP.bind OkP.trivial (fun _ _ => ?_)
      refine OkP.bind OkP.trivial (fun r _ => ?_)
      cases r with
      | none => trivial
      | some p =>
        obtain ⟨a, b, skip⟩ := p
        exact hbody _ _ _
    refine OkP.ite (fun _ => shp_parseNamedBackref ..) (fun _ => ?_)
    refine OkP.ite (fun _ => hbody _ _ _) (fun _ => ?_)
    refine OkP.ite (fun _ => h.cond_ st _ (d + 1)) (fun _ => ?_)
    refine OkP.ite (fun _ => shp_parseNamedBackref ..) (fun _ => ?_)
    refine OkP.ite (fun _ => h.flags_ st ix1 (d + 1)) (fun _ => hbody _ _ _)

theorem stepS_parseFlags {f : Nat} (h : DescS re isAlnum f) (st : PState) (ix d : Nat) :
    OkP Shp (parseFlags isAlnum (f + 1) re st ix d) := by
  unfold parseFlags
  refine OkP.bind OkP.trivial (fun r _ => ?_)
  obtain ⟨e, fl⟩ := r
  try simp only
  cases e with
  | close i => simp [parsedOK]
  | colon i =>
    simp only
    refine OkP.bind (h.re_ _ (i + 1) d) (fun r hr2 => ?_)
    obtain ⟨ix2, child, st2⟩ := r
    have hc : parsedOK child = true := hr2
    try simp only at hr2 ⊢
    refine OkP.ite (fun _ => trivial) (fun _ => ?_)
    refine OkP.bind OkP.trivial (fun b _ => ?_)
    refine OkP.ite (fun _ => trivial) (fun _ => hc)

theorem stepS_parseConditional {f : Nat} (h : DescS re isAlnum f) (st : PState) (ix d : Nat) :
    OkP Shp (parseConditional isAlnum (f + 1) re st ix d) := by
  unfold parseConditional
  refine OkP.ite (fun _ => trivial) (fun _ => ?_)
  refine OkP.bind OkP.trivial (fun b _ => ?_)
  refine OkP.bind (P := Shp) ?_ (fun r hr => ?_)
  · refine OkP.ite (fun _ => shp_parseNumberedBackref ..) (fun _ => ?_)
    refine OkP.ite (fun _ => shp_parseNamedBackref ..) (fun _ => ?_)
    refine OkP.ite (fun _ => shp_parseNamedBackref ..) (fun _ => h.re_ st ix d)
  obtain ⟨next, condition, st1⟩ := r
  have hcond : parsedOK condition = true := hr
  try simp only at hr ⊢
  refine OkP.bind OkP.trivial (fun next2 _ => ?_)
  refine OkP.bind (h.re_ st1 next2 d) (fun r hr2 => ?_)
  obtain ⟨end_, child, st2⟩ := r
  have hc : parsedOK child = true := hr2
  try simp only at hr2 ⊢
  have hinner' : ∀ (gt : Bool) (c : Expr), parsedOK c = true → parsedOK (match gt, c with
      | true, .backref g => Expr.backrefExists g
      | _, c => c) = true := by
    intro gt c hc'
    split
    · simp [parsedOK]
    · exact hc'
  have hinner := hinner' (isDigit b || b == ch '\'' || b == ch '<') condition hcond
  refine OkP.ite (fun _ => ?_) (fun _ => ?_)
  · split
    · refine OkP.bind OkP.trivial (fun after _ => ?_)
      simp [parsedOK]
    · trivial
  · refine OkP.bind (P := fun br : Expr × Expr =>
        parsedOK br.1 = true ∧ parsedOK br.2 = true) ?_ (fun br hbr => ?_)
    · split
      · -- `Expr::Alt(alternatives) if has_else`: an alternation has at least two children
        rename_i alternatives helse
        cases alternatives with
        | nil => trivial
        | cons t rest =>
          simp only [parsedOK, parsedOKAll, Bool.and_eq_true, decide_eq_true_eq,
            List.length_cons] at hc
          simp only
          split
          · rename_i e
            simp only [parsedOKAll, Bool.and_eq_true] at hc
            exact ⟨hc.2.1, hc.2.2.1⟩
          · rename_i hnot
            refine ⟨hc.2.1, ?_⟩
            have hlen : 2 ≤ rest.length := by
              match rest, hc.1, hnot with
              | [], h1, _ => simp at h1
              | [e], _, hnot => exact absurd rfl (hnot e)
              | _ :: _ :: _, _, _ => simp
            simp [parsedOK, hlen, hc.2.2]
      · exact ⟨hc, by simp [parsedOK]⟩
    · refine OkP.bind OkP.trivial (fun after _ => ?_)
      refine OkP.ite (fun _ => hinner) (fun _ => ?_)
      simp only [OkP_ok, Shp_mk, parsedOK, Bool.and_eq_true]
      exact ⟨⟨hinner, hbr.1⟩, hbr.2⟩

end steps

/-- **the shape invariant of the recursive descent**, for every fuel, byte string, state, index,
    depth -/
theorem descS (re : Bytes) (isAlnum : Char → Bool) : ∀ f, DescS re isAlnum f := by
  intro f
  induction f with
  | zero =>
    constructor <;> intro st ix d
    · unfold parseRe; trivial
    · unfold reAltLoop; trivial
    · unfold parseBranch; trivial
    · unfold branchLoop; trivial
    · unfold parsePiece; trivial
    · unfold parseAtom; trivial
    · unfold parseGroup; trivial
    · unfold parseFlags; trivial
    · unfold parseConditional; trivial
  | succ f ih =>
    exact {
      re_ := stepS_parseRe ih
      alt_ := stepS_reAltLoop ih
      branch_ := stepS_parseBranch ih
      bloop_ := stepS_branchLoop ih
      piece_ := stepS_parsePiece ih
      atom_ := stepS_parseAtom ih
      group_ := stepS_parseGroup ih
      flags_ := stepS_parseFlags ih
      cond_ := stepS_parseConditional ih }

/-- `parse_re` returns a tree of the parser's shape: any bytes, fuel, state, index, depth -/
theorem parseRe_parsedOK (isAlnum : Char → Bool) (re : Bytes) (f : Nat) (st st' : PState)
    (ix d ix' : Nat) (e : Expr) (h : parseRe isAlnum f re st ix d = .ok (ix', e, st')) :
    parsedOK e = true :=
  ((descS re isAlnum f).re_ st ix d).of_eq h

/-- the same for `parseBytes` (any byte string, valid UTF-8 or not) -/
theorem parseBytes_parsedOK (isAlnum : Char → Bool) (re : Bytes) (casei : Bool) (t : Tree)
    (h : parseBytes isAlnum re casei = .ok t) : parsedOK t.expr = true := by
  obtain ⟨ix, st, hre, _, _⟩ := parseBytes_ok h
  exact parseRe_parsedOK isAlnum _ _ _ _ _ _ _ _ hre

/-! ## The theorems on pattern strings -/

/-- every tree the parser returns: literals of one character, alternations of at least two
    children, `Delegate` sizes 0 or 1 -/
theorem parse_parsedOK (isAlnum : Char → Bool) (cs : List Char) (casei : Bool) (t : Tree)
    (h : parseStr isAlnum cs casei = .ok t) : parsedOK t.expr = true :=
  parseBytes_parsedOK isAlnum _ casei t h

/-- **`parse_wellShaped` is false** (see `parse_wellShaped_counterexample`): the full statement
    would be

      theorem parse_wellShaped (isAlnum : Char → Bool) (cs : List Char) (casei : Bool) (t : Tree)
          (h : parseStr isAlnum cs casei = .ok t) : wellShaped t.expr = true

    and `(a)\g1` parses to `concat [group 0 (literal "a"), subroutine 1]`.  The strongest true
    statement: the parsed tree is well shaped **exactly when** it holds no subroutine call. -/
theorem parse_wellShaped_partial (isAlnum : Char → Bool) (cs : List Char) (casei : Bool) (t : Tree)
    (h : parseStr isAlnum cs casei = .ok t) : wellShaped t.expr = noSub t.expr :=
  wellShaped_eq_noSub t.expr (parse_parsedOK isAlnum cs casei t h)

theorem parse_wellShaped_of_noSub (isAlnum : Char → Bool) (cs : List Char) (casei : Bool)
    (t : Tree) (h : parseStr isAlnum cs casei = .ok t) (hs : noSub t.expr = true) :
    wellShaped t.expr = true := by
  rw [parse_wellShaped_partial isAlnum cs casei t h]; exact hs

/-- **no side condition once the tree builds**: the analyzer rejects subroutine calls, so a parsed
    tree that `build` accepts is well shaped, and so is the numbered `raw` the engine runs on -/
theorem parse_build_wellShaped (isAlnum : Char → Bool) (cs : List Char) (casei : Bool) (t : Tree)
    (b : Built) (h : parseStr isAlnum cs casei = .ok t) (hb : build t.expr t.backrefs = .ok b) :
    wellShaped t.expr = true ∧ wellShaped b.raw = true :=
  build_wellShaped_of_parsedOK t.expr t.backrefs b hb (parse_parsedOK isAlnum cs casei t h)

/-- the parser writes only sizes 0 and 1 on `Delegate` leaves -/
theorem parse_leafSizesOK (isAlnum : Char → Bool) (cs : List Char) (casei : Bool) (t : Tree)
    (h : parseStr isAlnum cs casei = .ok t) : leafSizesOK t.expr = true :=
  leafSizesOK_of_parsedOK t.expr (parse_parsedOK isAlnum cs casei t h)

theorem parse_build_leafSizesOK (isAlnum : Char → Bool) (cs : List Char) (casei : Bool) (t : Tree)
    (b : Built) (h : parseStr isAlnum cs casei = .ok t) (hb : build t.expr t.backrefs = .ok b) :
    leafSizesOK b.raw = true :=
  build_raw_leafSizesOK t.expr t.backrefs b hb (parse_leafSizesOK isAlnum cs casei t h)

/-! ## The counterexample, and non-vacuity on concrete pattern strings (by evaluation) -/

private def PS (s : String) : Res Tree := parseStr (fun c => c.isAlphanum) s.toList false

/-- **counterexample to `parse_wellShaped`**: `(a)\g1` parses, to a tree with a subroutine call,
    which is not `wellShaped` (its `parsedOK` and `leafSizesOK` hold, and `build` rejects it) -/
theorem parse_wellShaped_counterexample :
    parseStr (fun c => c.isAlphanum) "(a)\\g1".toList false =
      .ok ⟨.concat [.group 0 (.literal ['a'] false), .subroutine 1], [1], []⟩ ∧
    wellShaped (.concat [.group 0 (.literal ['a'] false), .subroutine 1]) = false ∧
    build (.concat [.group 0 (.literal ['a'] false), .subroutine 1]) [1] =
      .error .featureNotSupported :=
  ⟨isTree_sound (by decide +kernel), by decide,
    by simp [build, wrapTree, renumber, renumberList, checkRefs, checkRefsList]⟩

/-- `(?<n>a|bc)(?=d)\k<n>{2,3}` as the parser returns it (with `\1` for `\k<n>` the parser answers
    `CompileError::NamedBackrefOnly`: numbered back-references next to named groups) -/
private def exTree : Expr :=
  .concat [.group 0 (.alt [.literal ['a'] false,
      .concat [.literal ['b'] false, .literal ['c'] false]]),
    .look (.literal ['d'] false) .ahead,
    .repeat (.backref 1) 2 (some 3) true]

private theorem ex_parse : PS "(?<n>a|bc)(?=d)\\k<n>{2,3}" = .ok ⟨exTree, [1], [([110], 1)]⟩ :=
  isTree_sound (by decide +kernel)

/-- `[\d\x41-z]+\Z|(?i:é)` : class and escape `Delegate`s (size 1), the `\Z` look-ahead over a
    `Delegate` of size 0, a two-byte literal -/
private def exTree2 : Expr :=
  .alt [.concat [.repeat (.delegate "[\\dA-z]".toList 1 false) 1 none true,
      .look (.delegate ['\n', '*', '$'] 0 false) .ahead],
    .literal ['é'] true]

private theorem ex_parse2 : PS "[\\d\\x41-z]+\\Z|(?i:é)" = .ok ⟨exTree2, [], []⟩ :=
  isTree_sound (by decide +kernel)

set_option linter.unusedSimpArgs false in
private theorem ex_build : ∃ b, build exTree [1] = .ok b := by
  simp [build, exTree, wrapTree, renumber, renumberList, checkRefs, checkRefsList, isHard,
    isHardAny, compile, visit, visitMiddle, visitAlt, visitAltBody, concatSplit, groupCount,
    groupCountList, constSize, constSizeAll, minSize, minSizeMin, minSizeSum, allMinSize,
    compileDelegates, compileDelegate, isLiteral, isLiteralAll, boundsEq, satMul, satAdd, sureReps,
    UNSET, Assertion.isHard, wrapPosLook, posLookBodyPc, pushLiteral, pushLiteralAll]

-- 1. `parse_parsedOK`, `parse_wellShaped_partial`, `parse_wellShaped_of_noSub`
example : parsedOK exTree = true := parse_parsedOK _ _ _ _ ex_parse
example : wellShaped exTree = noSub exTree := parse_wellShaped_partial _ _ _ _ ex_parse
example : wellShaped exTree = true :=
  parse_wellShaped_of_noSub _ _ _ ⟨exTree, [1], [([110], 1)]⟩ ex_parse (by decide)
example : wellShaped exTree2 = true :=
  parse_wellShaped_of_noSub _ _ _ ⟨exTree2, [], []⟩ ex_parse2 (by decide)
-- on the counterexample the equation reads `false = false`
example : wellShaped (.concat [.group 0 (.literal ['a'] false), .subroutine 1]) =
    noSub (.concat [.group 0 (.literal ['a'] false), .subroutine 1]) :=
  parse_wellShaped_partial _ _ _ ⟨_, [1], []⟩ parse_wellShaped_counterexample.1

-- 2. `parse_leafSizesOK`
example : leafSizesOK exTree = true := parse_leafSizesOK _ _ _ _ ex_parse
example : leafSizesOK exTree2 = true := parse_leafSizesOK _ _ _ _ ex_parse2

-- 3. `build_raw_eq`, `build_raw_wellShaped`, `build_raw_leafSizesOK`, `build_raw_noBareEndZ`,
--    `parse_build_wellShaped`, `parse_build_leafSizesOK`: the tree builds, so the statements have
--    a witness
example : ∃ b, build exTree [1] = .ok b ∧
    b.raw = .concat [.group 1 (.alt [.literal ['a'] false,
        .concat [.literal ['b'] false, .literal ['c'] false]]),
      .look (.literal ['d'] false) .ahead,
      .repeat (.backref 1) 2 (some 3) true] ∧
    wellShaped b.raw = true ∧ leafSizesOK b.raw = true ∧ noBareEndZ b.raw = true := by
  obtain ⟨b, hb⟩ := ex_build
  refine ⟨b, hb, ?_, build_raw_wellShaped _ _ b hb (by decide),
    build_raw_leafSizesOK _ _ b hb (by decide), build_raw_noBareEndZ _ _ b hb (by decide)⟩
  rw [(build_raw_eq _ _ b hb).1]
  simp [exTree, renumber, renumberList]

example : ∃ b, build exTree [1] = .ok b ∧ wellShaped exTree = true ∧ wellShaped b.raw = true ∧
    leafSizesOK b.raw = true := by
  obtain ⟨b, hb⟩ := ex_build
  have h := parse_build_wellShaped _ _ _ ⟨exTree, [1], [([110], 1)]⟩ b ex_parse hb
  exact ⟨b, hb, h.1, h.2,
    parse_build_leafSizesOK _ _ _ ⟨exTree, [1], [([110], 1)]⟩ b ex_parse hb⟩

-- `build_noSub` on the counterexample: it does not build
example : ¬ ∃ b, build (.concat [.group 0 (.literal ['a'] false), .subroutine 1]) [1] = .ok b := by
  rintro ⟨b, hb⟩
  have := build_noSub _ _ b hb
  simp [noSub, noSubAll] at this

end Fancy.Parse
