import FancyModel.Lemmas.AVM
import FancyModel.Lemmas.SemGood
import FancyModel.Proofs.C13
import FancyModel.Proofs.C03
/-!
# Simulation: compiled code enumerates the reference results (interpreted core, stage S1)

`Sim c prog e a b`: with the code of `e` at addresses `[a, b)` of `prog`, the abstract machine
started at `a` in (the machine image of) state `st`, above a branch stack `X`, computes

    (sem c e st).foldr succ failA

where `failA` is what failing into `X` yields and `succ r acc` is what running on from `b` in state
`r` yields when failing back (into the alternatives the code of `e` left above `X`) yields `acc`.
Because `foldr` over the *ordered* result list is exactly "try the results in priority order", this
one statement covers match existence, the choice of the winning path and all captures.
-/
namespace Fancy

/-- the machine's slot vector for semantic slots (`none` ↦ the unset sentinel) -/
def unview (sl : List (Option Nat)) : List Nat := sl.map (·.getD UNSET)

@[simp] theorem unview_length (sl : List (Option Nat)) : (unview sl).length = sl.length := by simp [unview]

theorem unview_set (sl : List (Option Nat)) (i v : Nat) : unview (sl.set i (some v)) = (unview sl).set i v := by
  simp [unview, List.map_set]

theorem unview_getElem? (sl : List (Option Nat)) (i : Nat) : (unview sl)[i]? = (sl[i]?).map (·.getD UNSET) := by
  simp [unview]

def Sim (c : Ctx) (n : Nat) (prog : List Insn) (sm : St → List St) (a b : Nat) : Prop :=
  ∀ (st : St) (X : List ABranch) (succ : St → Ans → Ans) (failA : Ans),
    st.Good c n →
    Big c prog (.fail X) failA →
    (∀ r, r ∈ sm st → ∀ S acc, Big c prog (.fail (S ++ X)) acc →
        Big c prog (.run b r.ix (unview r.slots) (S ++ X)) (succ r acc)) →
    Big c prog (.run a st.ix (unview st.slots) X) ((sm st).foldr succ failA)

/-- the results of `sm` stay inside the text -/
def KeepsGood (c : Ctx) (n : Nat) (sm : St → List St) : Prop := ∀ st r, st.Good c n → r ∈ sm st → r.Good c n

/-- code placed at an address -/
def CodeAt (prog : List Insn) (a : Nat) (code : List Insn) : Prop :=
  ∃ pre post, prog = pre ++ code ++ post ∧ pre.length = a

theorem CodeAt.get {prog : List Insn} {a : Nat} {code : List Insn} (h : CodeAt prog a code) (i : Nat)
    (hi : i < code.length) : prog[a + i]? = code[i]? := by
  obtain ⟨pre, post, rfl, rfl⟩ := h
  rw [List.append_assoc, List.getElem?_append_right (by omega)]
  simp only [Nat.add_sub_cancel_left]
  rw [List.getElem?_append_left hi]

theorem CodeAt.left {prog : List Insn} {a : Nat} {c1 c2 : List Insn} (h : CodeAt prog a (c1 ++ c2)) :
    CodeAt prog a c1 := by
  obtain ⟨pre, post, rfl, rfl⟩ := h
  exact ⟨pre, c2 ++ post, by simp [List.append_assoc], rfl⟩

theorem CodeAt.right {prog : List Insn} {a : Nat} {c1 c2 : List Insn} (h : CodeAt prog a (c1 ++ c2)) :
    CodeAt prog (a + c1.length) c2 := by
  obtain ⟨pre, post, rfl, rfl⟩ := h
  exact ⟨pre ++ c1, post, by simp [List.append_assoc], by simp⟩

theorem CodeAt.head {prog : List Insn} {a : Nat} {i : Insn} {rest : List Insn} (h : CodeAt prog a (i :: rest)) :
    prog[a]? = some i := by
  have := h.get 0 (by simp)
  simpa using this

theorem CodeAt.tail {prog : List Insn} {a : Nat} {i : Insn} {rest : List Insn} (h : CodeAt prog a (i :: rest)) :
    CodeAt prog (a + 1) rest := by
  have : i :: rest = [i] ++ rest := rfl
  rw [this] at h
  simpa using h.right

theorem foldr_flatMap {α β : Type} (l : List α) (f : α → List α) (succ : α → β → β) (z : β) :
    (l.flatMap f).foldr succ z = l.foldr (fun r acc => (f r).foldr succ acc) z := by
  induction l with
  | nil => rfl
  | cons a as ih => simp [List.foldr_append, ih]

/-! ## Structural rules -/

/-- empty code simulates the identity -/
theorem Sim.nil (c : Ctx) (n : Nat) (prog : List Insn) (a : Nat) : Sim c n prog (fun st => [st]) a a := by
  intro st X succ failA hg hf hs
  simp only [List.foldr_cons, List.foldr_nil]
  exact hs st (by simp) [] failA (by simpa using hf)

/-- sequencing -/
theorem Sim.seq {c : Ctx} {n : Nat} {prog : List Insn} {f g : St → List St} {a m b : Nat}
    (h1 : Sim c n prog f a m) (h2 : Sim c n prog g m b) (hk : KeepsGood c n f) :
    Sim c n prog (fun st => (f st).flatMap g) a b := by
  intro st X succ failA hg hf hs
  rw [foldr_flatMap]
  apply h1 st X (fun r acc => (g r).foldr succ acc) failA hg hf
  intro r1 hr1 S1 acc1 hf1
  apply h2 r1 (S1 ++ X) succ acc1 (hk st r1 hg hr1) hf1
  intro r2 hr2 S2 acc2 hf2
  have := hs r2 (List.mem_flatMap.mpr ⟨r1, hr1, hr2⟩) (S2 ++ S1) acc2 (by simpa [List.append_assoc] using hf2)
  simpa [List.append_assoc] using this

/-- a semantics equal pointwise simulates the same -/
theorem Sim.congr {c : Ctx} {n : Nat} {prog : List Insn} {f g : St → List St} {a b : Nat}
    (h : Sim c n prog f a b) (hfg : ∀ st, f st = g st) : Sim c n prog g a b := by
  have : f = g := funext hfg
  rwa [this] at h

/-- a single always-succeeding instruction that maps the state -/
theorem Sim.step1 {c : Ctx} {n : Nat} {prog : List Insn} {a : Nat} (upd : St → St)
    (hstep : ∀ (st : St) X, st.Good c n →
      astep c prog a st.ix (unview st.slots) X = some (.run (a + 1) (upd st).ix (unview (upd st).slots) X)) :
    Sim c n prog (fun st => [upd st]) a (a + 1) := by
  intro st X succ failA hg hf hs
  simp only [List.foldr_cons, List.foldr_nil]
  apply Big.step _ _ _ _ _ _ (hstep st X hg)
  exact hs (upd st) (by simp) [] failA (by simpa using hf)

/-- a single instruction that either advances (one result) or fails (no result) -/
theorem Sim.test1 {c : Ctx} {n : Nat} {prog : List Insn} {a : Nat} (cond : St → Bool) (upd : St → St)
    (hstep : ∀ (st : St) X, st.Good c n →
      astep c prog a st.ix (unview st.slots) X =
        some (if cond st then .run (a + 1) (upd st).ix (unview (upd st).slots) X else .fail X)) :
    Sim c n prog (fun st => if cond st then [upd st] else []) a (a + 1) := by
  intro st X succ failA hg hf hs
  have h := hstep st X hg
  by_cases hc : cond st = true
  · simp only [hc, ↓reduceIte, List.foldr_cons, List.foldr_nil] at h ⊢
    apply Big.step _ _ _ _ _ _ h
    exact hs (upd st) (by simp [hc]) [] failA (by simpa using hf)
  · simp only [hc, Bool.false_eq_true, ↓reduceIte, List.foldr_nil] at h ⊢
    exact Big.step _ _ _ _ _ _ h hf

/-- alternation of two pieces of code: `Split(a+1, m+1); <f>; Jmp b; <g>` with `<f>` at `[a+1, m)` -/
theorem Sim.alt2 {c : Ctx} {n : Nat} {prog : List Insn} {f g : St → List St} {a m b : Nat}
    (hsplit : prog[a]? = some (.split (a + 1) (m + 1))) (hjmp : prog[m]? = some (.jmp b))
    (h1 : Sim c n prog f (a + 1) m) (h2 : Sim c n prog g (m + 1) b) :
    Sim c n prog (fun st => f st ++ g st) a b := by
  intro st X succ failA hg hf hs
  rw [List.foldr_append]
  have hstep : astep c prog a st.ix (unview st.slots) X =
      some (.run (a + 1) st.ix (unview st.slots) (⟨m + 1, st.ix, unview st.slots⟩ :: X)) := by
    simp [astep, hsplit]
  apply Big.step _ _ _ _ _ _ hstep
  apply h1 st (⟨m + 1, st.ix, unview st.slots⟩ :: X) succ _ hg
  · -- failing into the pushed branch runs the second alternative
    apply Big.failPop
    exact h2 st X succ failA hg hf (fun r hr S acc hacc => hs r (List.mem_append_right _ hr) S acc hacc)
  · intro r hr S acc hacc
    -- the code of the first alternative ends in `Jmp b`
    have hj : astep c prog m r.ix (unview r.slots) (S ++ ⟨m + 1, st.ix, unview st.slots⟩ :: X) =
        some (.run b r.ix (unview r.slots) (S ++ ⟨m + 1, st.ix, unview st.slots⟩ :: X)) := by
      simp [astep, hjmp]
    apply Big.step _ _ _ _ _ _ hj
    have := hs r (List.mem_append_left _ hr) (S ++ [⟨m + 1, st.ix, unview st.slots⟩]) acc
      (by simpa [List.append_assoc] using hacc)
    simpa [List.append_assoc] using this


/-! ## Leaves -/

theorem sim_any (c : Ctx) (n : Nat) (prog : List Insn) (a : Nat) (h : prog[a]? = some .any) :
    Sim c n prog (sem c (.any true)) a (a + 1) := by
  have := Sim.test1 (c := c) (n := n) (prog := prog) (a := a) (fun st => (c.at? st.ix).isSome)
    (fun st => { st with ix := st.ix + 1 }) (by
      intro st X _
      simp only [astep, h]
      cases c.at? st.ix <;> simp)
  apply this.congr
  intro st
  simp only [sem]
  cases c.at? st.ix <;> simp

theorem sim_anyNoNL (c : Ctx) (n : Nat) (prog : List Insn) (a : Nat) (h : prog[a]? = some .anyNoNL) :
    Sim c n prog (sem c (.any false)) a (a + 1) := by
  have := Sim.test1 (c := c) (n := n) (prog := prog) (a := a)
    (fun st => match c.at? st.ix with | some ch => ch != '\n' | none => false)
    (fun st => { st with ix := st.ix + 1 }) (by
      intro st X _
      simp only [astep, h]
      cases c.at? st.ix with
      | none => simp
      | some ch => by_cases hq : (ch != '\n') = true <;> simp [hq])
  apply this.congr
  intro st
  simp only [sem]
  cases c.at? st.ix with
  | none => simp
  | some ch => by_cases hq : (ch != '\n') = true <;> simp [hq]

theorem sim_assertion (c : Ctx) (n : Nat) (prog : List Insn) (a : Nat) (x : Assertion)
    (h : prog[a]? = some (.assertion x)) : Sim c n prog (sem c (.assertion x)) a (a + 1) := by
  have := Sim.test1 (c := c) (n := n) (prog := prog) (a := a) (fun st => c.assertion x st.ix) (fun st => st) (by
      intro st X _
      simp only [astep, h]
      by_cases hq : c.assertion x st.ix = true <;> simp [hq])
  apply this.congr
  intro st
  simp [sem]

theorem sim_lit (c : Ctx) (n : Nat) (prog : List Insn) (a : Nat) (val : List Char)
    (h : prog[a]? = some (.lit val)) :
    Sim c n prog (fun st => if c.litAt false val st.ix then [{ st with ix := st.ix + val.length }] else []) a (a + 1) := by
  exact Sim.test1 (c := c) (n := n) (prog := prog) (a := a) (fun st => c.litAt false val st.ix)
    (fun st => { st with ix := st.ix + val.length }) (by
      intro st X _
      simp only [astep, h]
      by_cases hq : c.litAt false val st.ix = true <;> simp [hq])

theorem sim_contPrev (c : Ctx) (n : Nat) (prog : List Insn) (a : Nat) (h : prog[a]? = some .contPrev) :
    Sim c n prog (sem c .contPrev) a (a + 1) := by
  have := Sim.test1 (c := c) (n := n) (prog := prog) (a := a) (fun st => st.ix == c.pos && !c.skipped) (fun st => st) (by
      intro st X _
      simp only [astep, h]
      by_cases h1 : st.ix = c.pos <;> by_cases h2 : c.skipped = true <;> simp [h1, h2])
  apply this.congr
  intro st
  simp [sem]

/-- `Save(slot)` records the current position in a capture slot -/
theorem sim_save (c : Ctx) (n : Nat) (prog : List Insn) (a slot : Nat) (h : prog[a]? = some (.save slot))
    (hslot : slot < n) :
    Sim c n prog (fun st => [st.setSlot slot (some st.ix)]) a (a + 1) := by
  apply Sim.step1 (fun st => st.setSlot slot (some st.ix))
  intro st X hg
  simp only [astep, h, unview_length, hg.len, hslot, ↓reduceIte, St.setSlot, unview_set]

end Fancy

namespace Fancy

/-! ## Optional and loops -/

/-- greedy `x?`: `Split(a+1, b); <f>` -/
theorem Sim.optG {c : Ctx} {n : Nat} {prog : List Insn} {f : St → List St} {a b : Nat}
    (hsplit : prog[a]? = some (.split (a + 1) b)) (h1 : Sim c n prog f (a + 1) b) :
    Sim c n prog (fun st => f st ++ [st]) a b := by
  intro st X succ failA hg hf hs
  rw [List.foldr_append]
  have hstep : astep c prog a st.ix (unview st.slots) X =
      some (.run (a + 1) st.ix (unview st.slots) (⟨b, st.ix, unview st.slots⟩ :: X)) := by
    simp [astep, hsplit]
  apply Big.step _ _ _ _ _ _ hstep
  apply h1 st (⟨b, st.ix, unview st.slots⟩ :: X) succ _ hg
  · apply Big.failPop
    simp only [List.foldr_cons, List.foldr_nil]
    exact hs st (by simp) [] failA (by simpa using hf)
  · intro r hr S acc hacc
    have := hs r (List.mem_append_left _ hr) (S ++ [⟨b, st.ix, unview st.slots⟩]) acc
      (by simpa [List.append_assoc] using hacc)
    simpa [List.append_assoc] using this

/-- lazy `x??`: `Split(b, a+1); <f>` -/
theorem Sim.optL {c : Ctx} {n : Nat} {prog : List Insn} {f : St → List St} {a b : Nat}
    (hsplit : prog[a]? = some (.split b (a + 1))) (h1 : Sim c n prog f (a + 1) b) :
    Sim c n prog (fun st => st :: f st) a b := by
  intro st X succ failA hg hf hs
  simp only [List.foldr_cons]
  have hstep : astep c prog a st.ix (unview st.slots) X =
      some (.run b st.ix (unview st.slots) (⟨a + 1, st.ix, unview st.slots⟩ :: X)) := by
    simp [astep, hsplit]
  apply Big.step _ _ _ _ _ _ hstep
  have := hs st (by simp) [⟨a + 1, st.ix, unview st.slots⟩] ((f st).foldr succ failA) (by
    apply Big.failPop
    exact h1 st X succ failA hg hf (fun r hr S acc hacc => hs r (List.mem_cons_of_mem _ hr) S acc hacc))
  simpa using this

/-- every result of `body` lies strictly to the right of where it started -/
def Advances (body : St → List St) : Prop := ∀ st r, r ∈ body st → st.ix < r.ix

theorem mem_iters {body : St → List St} {lo count fuel : Nat} {greedy : Bool} {st r q : St}
    (hadv : Advances body) (hr : r ∈ body st) (hq : q ∈ repLoop body lo none greedy fuel (count + 1) r) :
    q ∈ (body st).flatMap fun r' =>
      if (none : Option Nat).isNone && decide (lo ≤ count) && r'.ix == st.ix then [r']
      else repLoop body lo none greedy fuel (count + 1) r' := by
  refine List.mem_flatMap.mpr ⟨r, hr, ?_⟩
  have : (r.ix == st.ix) = false := by
    have := hadv st r hr
    simp; omega
  simp [this, hq]

/-- unbounded greedy loop with head `h`: `h: Split(bs, next)`, body at `[bs, e)`, and control
    flowing from `e` back to `h` -/
theorem loop_greedy {c : Ctx} {n : Nat} {prog : List Insn} {body : St → List St} {h bs e next lo : Nat}
    (hsplit : prog[h]? = some (.split bs next)) (hbody : Sim c n prog body bs e)
    (hflow : ∀ ix saves X a, Big c prog (.run h ix saves X) a → Big c prog (.run e ix saves X) a)
    (hadv : Advances body) (hkg : KeepsGood c n body) :
    ∀ (k : Nat) (st : St) (X : List ABranch) (succ : St → Ans → Ans) (failA : Ans) (fuel count : Nat),
      c.len - st.ix ≤ k → st.Good c n → lo ≤ count → c.len - st.ix < fuel →
      Big c prog (.fail X) failA →
      (∀ r, r ∈ repLoop body lo none true fuel count st → ∀ S acc, Big c prog (.fail (S ++ X)) acc →
          Big c prog (.run next r.ix (unview r.slots) (S ++ X)) (succ r acc)) →
      Big c prog (.run h st.ix (unview st.slots) X) ((repLoop body lo none true fuel count st).foldr succ failA) := by
  intro k
  induction k with
  | zero =>
    intro st X succ failA fuel count hk hg hlo hfuel hf hs
    -- at the end of the text the body cannot advance: no iteration
    cases fuel with
    | zero => omega
    | succ fuel =>
      have hnone : body st = [] := by
        cases hb : body st with
        | nil => rfl
        | cons r rs =>
          have h1 := hadv st r (by simp [hb])
          have h2 := (hkg st r hg (by simp [hb])).ix
          omega
      have hrl : repLoop body lo none true (fuel + 1) count st = [st] := by
        unfold repLoop
        simp [hnone, Nat.not_lt.mpr hlo]
      rw [hrl] at hs ⊢
      simp only [List.foldr_cons, List.foldr_nil]
      have hstep : astep c prog h st.ix (unview st.slots) X =
          some (.run bs st.ix (unview st.slots) (⟨next, st.ix, unview st.slots⟩ :: X)) := by
        simp [astep, hsplit]
      apply Big.step _ _ _ _ _ _ hstep
      have := hbody st (⟨next, st.ix, unview st.slots⟩ :: X) (fun _ acc => acc) (succ st failA) hg
        (by apply Big.failPop; exact hs st (by simp) [] failA (by simpa using hf))
        (by intro r hr; rw [hnone] at hr; simp at hr)
      simpa [hnone] using this
  | succ k ih =>
    intro st X succ failA fuel count hk hg hlo hfuel hf hs
    cases fuel with
    | zero => omega
    | succ fuel =>
      have hrl : repLoop body lo none true (fuel + 1) count st =
          ((body st).flatMap fun r' =>
            if (none : Option Nat).isNone && decide (lo ≤ count) && r'.ix == st.ix then [r']
            else repLoop body lo none true fuel (count + 1) r') ++ [st] := by
        conv => lhs; unfold repLoop
        simp [Nat.not_lt.mpr hlo]
      rw [hrl] at hs ⊢
      rw [List.foldr_append, foldr_flatMap]
      have hstep : astep c prog h st.ix (unview st.slots) X =
          some (.run bs st.ix (unview st.slots) (⟨next, st.ix, unview st.slots⟩ :: X)) := by
        simp [astep, hsplit]
      apply Big.step _ _ _ _ _ _ hstep
      simp only [List.foldr_cons, List.foldr_nil]
      apply hbody st (⟨next, st.ix, unview st.slots⟩ :: X) _ (succ st failA) hg
      · apply Big.failPop
        exact hs st (by simp) [] failA (by simpa using hf)
      · intro r hr S acc hacc
        have hadvr := hadv st r hr
        have hgr := hkg st r hg hr
        have hne : (r.ix == st.ix) = false := by simp; omega
        simp only [Option.isNone_none, Bool.true_and, hne, Bool.and_false, Bool.false_eq_true, ↓reduceIte]
        apply hflow
        apply ih r (S ++ ⟨next, st.ix, unview st.slots⟩ :: X) succ acc fuel (count + 1)
          (by have := hgr.ix; omega) hgr (by omega) (by have := hgr.ix; omega) hacc
        intro q hq S2 acc2 hacc2
        have hmem : q ∈ ((body st).flatMap fun r' =>
            if (none : Option Nat).isNone && decide (lo ≤ count) && r'.ix == st.ix then [r']
            else repLoop body lo none true fuel (count + 1) r') ++ [st] :=
          List.mem_append_left _ (mem_iters hadv hr hq)
        have := hs q hmem (S2 ++ S ++ [⟨next, st.ix, unview st.slots⟩]) acc2
          (by simpa [List.append_assoc] using hacc2)
        simpa [List.append_assoc] using this

end Fancy

namespace Fancy

/-- unbounded lazy loop with head `h`: `h: Split(next, bs)` -/
theorem loop_lazy {c : Ctx} {n : Nat} {prog : List Insn} {body : St → List St} {h bs e next lo : Nat}
    (hsplit : prog[h]? = some (.split next bs)) (hbody : Sim c n prog body bs e)
    (hflow : ∀ ix saves X a, Big c prog (.run h ix saves X) a → Big c prog (.run e ix saves X) a)
    (hadv : Advances body) (hkg : KeepsGood c n body) :
    ∀ (k : Nat) (st : St) (X : List ABranch) (succ : St → Ans → Ans) (failA : Ans) (fuel count : Nat),
      c.len - st.ix ≤ k → st.Good c n → lo ≤ count → c.len - st.ix < fuel →
      Big c prog (.fail X) failA →
      (∀ r, r ∈ repLoop body lo none false fuel count st → ∀ S acc, Big c prog (.fail (S ++ X)) acc →
          Big c prog (.run next r.ix (unview r.slots) (S ++ X)) (succ r acc)) →
      Big c prog (.run h st.ix (unview st.slots) X) ((repLoop body lo none false fuel count st).foldr succ failA) := by
  intro k
  induction k with
  | zero =>
    intro st X succ failA fuel count hk hg hlo hfuel hf hs
    cases fuel with
    | zero => omega
    | succ fuel =>
      have hnone : body st = [] := by
        cases hb : body st with
        | nil => rfl
        | cons r rs =>
          have h1 := hadv st r (by simp [hb])
          have h2 := (hkg st r hg (by simp [hb])).ix
          omega
      have hrl : repLoop body lo none false (fuel + 1) count st = [st] := by
        unfold repLoop
        simp [hnone, Nat.not_lt.mpr hlo]
      rw [hrl] at hs ⊢
      simp only [List.foldr_cons, List.foldr_nil]
      have hstep : astep c prog h st.ix (unview st.slots) X =
          some (.run next st.ix (unview st.slots) (⟨bs, st.ix, unview st.slots⟩ :: X)) := by
        simp [astep, hsplit]
      apply Big.step _ _ _ _ _ _ hstep
      have := hs st (by simp) [⟨bs, st.ix, unview st.slots⟩] failA (by
        apply Big.failPop
        have := hbody st X (fun _ acc => acc) failA hg hf (by intro r hr; rw [hnone] at hr; simp at hr)
        simpa [hnone] using this)
      simpa using this
  | succ k ih =>
    intro st X succ failA fuel count hk hg hlo hfuel hf hs
    cases fuel with
    | zero => omega
    | succ fuel =>
      have hrl : repLoop body lo none false (fuel + 1) count st =
          st :: ((body st).flatMap fun r' =>
            if (none : Option Nat).isNone && decide (lo ≤ count) && r'.ix == st.ix then [r']
            else repLoop body lo none false fuel (count + 1) r') := by
        conv => lhs; unfold repLoop
        simp [Nat.not_lt.mpr hlo]
      rw [hrl] at hs ⊢
      simp only [List.foldr_cons]
      rw [foldr_flatMap]
      have hstep : astep c prog h st.ix (unview st.slots) X =
          some (.run next st.ix (unview st.slots) (⟨bs, st.ix, unview st.slots⟩ :: X)) := by
        simp [astep, hsplit]
      apply Big.step _ _ _ _ _ _ hstep
      have hinner : Big c prog (.fail (⟨bs, st.ix, unview st.slots⟩ :: X))
          ((body st).foldr (fun r acc => (if (none : Option Nat).isNone && decide (lo ≤ count) && r.ix == st.ix then [r]
            else repLoop body lo none false fuel (count + 1) r).foldr succ acc) failA) := by
        apply Big.failPop
        apply hbody st X (fun r acc => (if (none : Option Nat).isNone && decide (lo ≤ count) && r.ix == st.ix then [r]
            else repLoop body lo none false fuel (count + 1) r).foldr succ acc) failA hg hf
        intro r hr S acc hacc
        have hadvr := hadv st r hr
        have hgr := hkg st r hg hr
        have hne : (r.ix == st.ix) = false := by simp; omega
        simp only [Option.isNone_none, Bool.true_and, hne, Bool.and_false, Bool.false_eq_true, ↓reduceIte]
        apply hflow
        apply ih r (S ++ X) succ acc fuel (count + 1)
          (by have := hgr.ix; omega) hgr (by omega) (by have := hgr.ix; omega) hacc
        intro q hq S2 acc2 hacc2
        have hmem : q ∈ st :: ((body st).flatMap fun r' =>
            if (none : Option Nat).isNone && decide (lo ≤ count) && r'.ix == st.ix then [r']
            else repLoop body lo none false fuel (count + 1) r') :=
          List.mem_cons_of_mem _ (mem_iters hadv hr hq)
        have := hs q hmem (S2 ++ S) acc2 (by simpa [List.append_assoc] using hacc2)
        simpa [List.append_assoc] using this
      have := hs st (by simp) [⟨bs, st.ix, unview st.slots⟩] _ hinner
      simpa using this

/-! ## Back-reference and group -/

theorem slot_unview {c : Ctx} {n : Nat} {st : St} (hg : st.Good c n) (hlen : c.len < UNSET) (i : Nat) (hi : i < n) :
    (unview st.slots)[i]? = some (match st.slot i with | some v => v | none => UNSET) ∧
      (∀ v, st.slot i = some v → v ≠ UNSET) := by
  have hl : i < st.slots.length := by rw [hg.len]; exact hi
  constructor
  · rw [unview_getElem?, List.getElem?_eq_getElem hl]
    simp only [Option.map_some, St.slot, List.getElem?_eq_getElem hl, Option.join_some]
    cases st.slots[i] <;> rfl
  · intro v hv
    simp only [St.slot, List.getElem?_eq_getElem hl, Option.join_some] at hv
    have := hg.vals v (by rw [← hv]; exact List.getElem_mem hl)
    omega

theorem sim_backref (c : Ctx) (n : Nat) (prog : List Insn) (a g : Nat) (hlen : c.len < UNSET)
    (h : prog[a]? = some (.backref (g * 2))) (hgn : 2 * g + 1 < n) :
    Sim c n prog (sem c (.backref g)) a (a + 1) := by
  have := Sim.test1 (c := c) (n := n) (prog := prog) (a := a)
    (fun st => match st.slot (2 * g), st.slot (2 * g + 1) with
      | some lo, some hi => decide (lo ≤ hi) && c.sameAt lo hi st.ix
      | _, _ => false)
    (fun st => match st.slot (2 * g), st.slot (2 * g + 1) with
      | some lo, some hi => { st with ix := st.ix + (hi - lo) }
      | _, _ => st) (by
      intro st X hg
      have e1 := slot_unview hg hlen (2 * g) (by omega)
      have e2 := slot_unview hg hlen (2 * g + 1) hgn
      have hmul : g * 2 = 2 * g := Nat.mul_comm _ _
      simp only [astep, h, hmul, e1.1, e2.1]
      cases h1 : st.slot (2 * g) with
      | none => simp
      | some lo =>
        cases h2 : st.slot (2 * g + 1) with
        | none => simp
        | some hi =>
          have n1 : (lo == UNSET) = false := by simpa using e1.2 lo h1
          have n2 : (hi == UNSET) = false := by simpa using e2.2 hi h2
          simp only [n1, n2, Bool.or_self, Bool.false_eq_true, ↓reduceIte]
          by_cases hle : lo ≤ hi
          · have : ¬ lo > hi := by omega
            simp only [this, ↓reduceIte, hle, decide_true, Bool.true_and]
            by_cases hsm : c.sameAt lo hi st.ix = true <;> simp [hsm]
          · have : lo > hi := by omega
            simp [this, hle])
  apply this.congr
  intro st
  simp only [sem]
  cases h1 : st.slot (2 * g) with
  | none => simp
  | some lo =>
    cases h2 : st.slot (2 * g + 1) with
    | none => simp
    | some hi => simp

theorem sim_group {c : Ctx} {n : Nat} {prog : List Insn} {e : Expr} {a b g : Nat}
    (h1 : prog[a]? = some (.save (g * 2))) (h2 : prog[b]? = some (.save (g * 2 + 1)))
    (hbody : Sim c n prog (sem c e) (a + 1) b) (hgn : 2 * g + 1 < n) :
    Sim c n prog (sem c (.group g e)) a (b + 1) := by
  have hmul : g * 2 = 2 * g := Nat.mul_comm _ _
  rw [hmul] at h1 h2
  have s1 := sim_save c n prog a (2 * g) h1 (by omega)
  have s3 := sim_save c n prog b (2 * g + 1) h2 hgn
  have k1 : KeepsGood c n (fun st => [st.setSlot (2 * g) (some st.ix)]) := by
    intro st r hg hr
    simp only [List.mem_singleton] at hr; subst hr
    exact hg.setSlot _ _ hg.ix
  have k2 : KeepsGood c n (fun st => ([st.setSlot (2 * g) (some st.ix)]).flatMap (sem c e)) := by
    intro st r hg hr
    simp only [List.flatMap_cons, List.flatMap_nil, List.append_nil] at hr
    exact sem_good c n e _ r (hg.setSlot _ _ hg.ix) hr
  have := (s1.seq hbody k1).seq s3 k2
  apply this.congr
  intro st
  simp only [sem, List.flatMap_cons, List.flatMap_nil, List.append_nil]
  induction sem c e (st.setSlot (2 * g) (some st.ix)) with
  | nil => rfl
  | cons x xs ih => simp [ih]

end Fancy
