import FancyModel.Lemmas.DelegSpec
import FancyModel.Lemmas.SimCompile
import FancyModel.Lemmas.SemGood
import FancyModel.Proofs.C13b
import FancyModel.Proofs.C16
import FancyModel.Spec.Domain
/-!
# Bookkeeping lemmas for stage S3 of the engine refinement

* **A. numbering**: `numbered g e` (`e` is its own renumbering from `g`): what it says of the
  children, of `take`/`drop` of a list, and that it bounds the group numbers (`groupsInE`/`groupsIn`);
* **B. the split of a concatenation** (`concatSplit`): the prefix and the suffix consist of easy
  (and, where the compiler asks for it, constant-size) children; predicates pass to `take`/`drop`;
* **C. one state**: a group-free, constant-size, pure piece has at most one result state
  (`same_of_const_groupfree`: the `hsame` hypothesis of `sim2_delegate_same`);
* **D. well-shapedness passes to children**.
-/
namespace Fancy

/-! ## A. Numbering -/

/-- `e` carries the numbers the analyzer gives it when `g` groups have been opened before it -/
def numbered (g : Nat) (e : Expr) : Prop := (renumber e g).1 = e
/-- the same for a list of siblings -/
def numberedList (g : Nat) (es : List Expr) : Prop := (renumberList es g).1 = es

theorem numbered_group (g k : Nat) (e : Expr) : numbered g (.group k e) ↔ k = g ∧ numbered (g + 1) e := by
  simp only [numbered, renumber, Expr.group.injEq]
  exact ⟨fun h => ⟨h.1.symm, h.2⟩, fun h => ⟨h.1.symm, h.2⟩⟩

theorem numbered_concat (g : Nat) (es : List Expr) : numbered g (.concat es) ↔ numberedList g es := by
  simp only [numbered, numberedList, renumber, Expr.concat.injEq]

theorem numbered_alt (g : Nat) (es : List Expr) : numbered g (.alt es) ↔ numberedList g es := by
  simp only [numbered, numberedList, renumber, Expr.alt.injEq]

theorem numbered_look (g : Nat) (e : Expr) (la : Look) : numbered g (.look e la) ↔ numbered g e := by
  simp only [numbered, renumber, Expr.look.injEq, and_true]

theorem numbered_repeat (g : Nat) (e : Expr) (lo : Nat) (hi : Option Nat) (gr : Bool) :
    numbered g (.repeat e lo hi gr) ↔ numbered g e := by
  simp only [numbered, renumber, Expr.repeat.injEq, and_true]

theorem numbered_atomic (g : Nat) (e : Expr) : numbered g (.atomic e) ↔ numbered g e := by
  simp only [numbered, renumber, Expr.atomic.injEq]

theorem numbered_cond (g : Nat) (c y n : Expr) :
    numbered g (.cond c y n) ↔
      numbered g c ∧ numbered (g + groupCount c) y ∧ numbered (g + groupCount c + groupCount y) n := by
  simp only [numbered, renumber, Expr.cond.injEq, renumber_snd]

theorem numberedList_nil (g : Nat) : numberedList g [] := by
  simp [numberedList, renumberList]

theorem numberedList_cons (g : Nat) (e : Expr) (es : List Expr) :
    numberedList g (e :: es) ↔ numbered g e ∧ numberedList (g + groupCount e) es := by
  simp only [numberedList, numbered, renumberList, List.cons.injEq, renumber_snd]

theorem groupCountList_append (a b : List Expr) :
    groupCountList (a ++ b) = groupCountList a + groupCountList b := by
  induction a with
  | nil => simp [groupCountList]
  | cons e a ih => simp only [List.cons_append, groupCountList, ih]; omega

theorem numberedList_append (g : Nat) (a b : List Expr) :
    numberedList g (a ++ b) ↔ numberedList g a ∧ numberedList (g + groupCountList a) b := by
  induction a generalizing g with
  | nil => simp [numberedList_nil, groupCountList]
  | cons e a ih =>
    simp only [List.cons_append, numberedList_cons, ih, groupCountList, Nat.add_assoc, and_assoc]

theorem groupCountList_take_add_drop (es : List Expr) (k : Nat) :
    groupCountList (es.take k) + groupCountList (es.drop k) = groupCountList es := by
  rw [← groupCountList_append, List.take_append_drop]

theorem groupCountList_take_le (es : List Expr) (k : Nat) :
    groupCountList (es.take k) ≤ groupCountList es := by
  have := groupCountList_take_add_drop es k; omega

theorem groupCountList_take_mono (es : List Expr) {j k : Nat} (h : j ≤ k) :
    groupCountList (es.take j) ≤ groupCountList (es.take k) := by
  have : es.take j = (es.take k).take j := by rw [List.take_take, Nat.min_eq_left h]
  rw [this]; exact groupCountList_take_le _ _

theorem numberedList_take_drop (g : Nat) (es : List Expr) (k : Nat) (h : numberedList g es) :
    numberedList g (es.take k) ∧ numberedList (g + groupCountList (es.take k)) (es.drop k) := by
  rw [← List.take_append_drop k es] at h
  exact (numberedList_append g _ _).mp h

theorem numberedList_take (g : Nat) (es : List Expr) (k : Nat) (h : numberedList g es) :
    numberedList g (es.take k) := (numberedList_take_drop g es k h).1

theorem numberedList_drop (g : Nat) (es : List Expr) (k : Nat) (h : numberedList g es) :
    numberedList (g + groupCountList (es.take k)) (es.drop k) := (numberedList_take_drop g es k h).2

/-- a member of a numbered list is numbered from the count of the groups before it -/
theorem numberedList_getElem (g : Nat) (es : List Expr) (k : Nat) (hk : k < es.length) (h : numberedList g es) :
    numbered (g + groupCountList (es.take k)) es[k] := by
  have := numberedList_drop g es k h
  rw [List.drop_eq_getElem_cons hk, numberedList_cons] at this
  exact this.1

mutual
theorem groupsInE_mono {sg sg' eg eg' : Nat} (h1 : sg' ≤ sg) (h2 : eg ≤ eg') :
    ∀ (e : Expr), groupsInE sg eg e = true → groupsInE sg' eg' e = true
  | .group g e, h => by
    simp only [groupsInE, Bool.and_eq_true, decide_eq_true_eq] at h ⊢
    exact ⟨⟨by omega, by omega⟩, groupsInE_mono h1 h2 e h.2⟩
  | .concat es, h => by simp only [groupsInE] at h ⊢; exact groupsIn_mono h1 h2 es h
  | .alt es, h => by simp only [groupsInE] at h ⊢; exact groupsIn_mono h1 h2 es h
  | .look e _, h => by simp only [groupsInE] at h ⊢; exact groupsInE_mono h1 h2 e h
  | .repeat e _ _ _, h => by simp only [groupsInE] at h ⊢; exact groupsInE_mono h1 h2 e h
  | .atomic e, h => by simp only [groupsInE] at h ⊢; exact groupsInE_mono h1 h2 e h
  | .cond c y n, h => by
    simp only [groupsInE, Bool.and_eq_true] at h ⊢
    exact ⟨⟨groupsInE_mono h1 h2 c h.1.1, groupsInE_mono h1 h2 y h.1.2⟩, groupsInE_mono h1 h2 n h.2⟩
  | .empty, _ => by simp [groupsInE]
  | .any _, _ => by simp [groupsInE]
  | .assertion _, _ => by simp [groupsInE]
  | .literal _ _, _ => by simp [groupsInE]
  | .delegate _ _ _, _ => by simp [groupsInE]
  | .backref _, _ => by simp [groupsInE]
  | .keepOut, _ => by simp [groupsInE]
  | .contPrev, _ => by simp [groupsInE]
  | .backrefExists _, _ => by simp [groupsInE]
  | .subroutine _, _ => by simp [groupsInE]
theorem groupsIn_mono {sg sg' eg eg' : Nat} (h1 : sg' ≤ sg) (h2 : eg ≤ eg') :
    ∀ (es : List Expr), groupsIn sg eg es = true → groupsIn sg' eg' es = true
  | [], _ => by simp [groupsIn]
  | e :: es, h => by
    simp only [groupsIn, Bool.and_eq_true] at h ⊢
    exact ⟨groupsInE_mono h1 h2 e h.1, groupsIn_mono h1 h2 es h.2⟩
end

mutual
/-- a numbered expression has its groups in `g .. g + groupCount e` -/
theorem numbered_groupsIn : ∀ (e : Expr) (g : Nat), numbered g e → groupsInE g (g + groupCount e) e = true
  | .group k e, g, h => by
    obtain ⟨rfl, h⟩ := (numbered_group g k e).mp h
    have h2 : k < k + groupCount (.group k e) := by simp only [groupCount]; omega
    have hin : groupsInE k (k + groupCount (.group k e)) e = true :=
      groupsInE_mono (by omega) (by simp only [groupCount]; omega) e (numbered_groupsIn e (k + 1) h)
    simp only [groupsInE, hin, Bool.and_true, Bool.and_eq_true, decide_eq_true_eq]
    exact ⟨Nat.le_refl _, h2⟩
  | .concat es, g, h => by
    simp only [groupsInE, groupCount]; exact numberedList_groupsIn es g ((numbered_concat g es).mp h)
  | .alt es, g, h => by
    simp only [groupsInE, groupCount]; exact numberedList_groupsIn es g ((numbered_alt g es).mp h)
  | .look e la, g, h => by
    simp only [groupsInE, groupCount]; exact numbered_groupsIn e g ((numbered_look g e la).mp h)
  | .repeat e lo hi gr, g, h => by
    simp only [groupsInE, groupCount]; exact numbered_groupsIn e g ((numbered_repeat g e lo hi gr).mp h)
  | .atomic e, g, h => by
    simp only [groupsInE, groupCount]; exact numbered_groupsIn e g ((numbered_atomic g e).mp h)
  | .cond c y n, g, h => by
    obtain ⟨hc, hy, hn⟩ := (numbered_cond g c y n).mp h
    simp only [groupsInE, groupCount, Bool.and_eq_true]
    exact ⟨⟨groupsInE_mono (Nat.le_refl _) (by omega) c (numbered_groupsIn c g hc),
      groupsInE_mono (by omega) (by omega) y (numbered_groupsIn y _ hy)⟩,
      groupsInE_mono (by omega) (by omega) n (numbered_groupsIn n _ hn)⟩
  | .empty, _, _ => by simp [groupsInE]
  | .any _, _, _ => by simp [groupsInE]
  | .assertion _, _, _ => by simp [groupsInE]
  | .literal _ _, _, _ => by simp [groupsInE]
  | .delegate _ _ _, _, _ => by simp [groupsInE]
  | .backref _, _, _ => by simp [groupsInE]
  | .keepOut, _, _ => by simp [groupsInE]
  | .contPrev, _, _ => by simp [groupsInE]
  | .backrefExists _, _, _ => by simp [groupsInE]
  | .subroutine _, _, _ => by simp [groupsInE]
theorem numberedList_groupsIn : ∀ (es : List Expr) (g : Nat), numberedList g es →
    groupsIn g (g + groupCountList es) es = true
  | [], _, _ => by simp [groupsIn]
  | e :: es, g, h => by
    obtain ⟨he, hes⟩ := (numberedList_cons g e es).mp h
    simp only [groupsIn, groupCountList, Bool.and_eq_true]
    exact ⟨groupsInE_mono (Nat.le_refl _) (by omega) e (numbered_groupsIn e g he),
      groupsIn_mono (by omega) (by omega) es (numberedList_groupsIn es _ hes)⟩
end

/-- the analyzer's output is numbered -/
theorem numbered_renumber (e : Expr) (g : Nat) : numbered g (renumber e g).1 :=
  congrArg Prod.fst (renumber_idem e g)

theorem numberedList_renumberList (es : List Expr) (g : Nat) : numberedList g (renumberList es g).1 :=
  congrArg Prod.fst (renumberList_idem es g)

/-- non-vacuity: `(a)((b))` numbered from 1; its groups are `1 .. 3` -/
example :
    let es : List Expr := [.group 1 (.literal ['a'] false), .group 2 (.group 3 (.literal ['b'] false))]
    numberedList 1 es ∧ numbered 1 (.concat es) ∧ groupCountList es = 3 ∧ groupsIn 1 (1 + 3) es = true ∧
      numberedList 1 (es.take 1) ∧ numberedList (1 + groupCountList (es.take 1)) (es.drop 1) := by
  simp [numberedList, numbered, renumber, renumberList, groupCountList, groupCount, groupsIn, groupsInE]

/-! ## B. The split of a concatenation -/

/-- prefix, middle, suffix -/
theorem list_split3 {α : Type} (l : List α) {a b : Nat} (h : a ≤ b) :
    l = l.take a ++ (l.drop a).take (b - a) ++ l.drop b := by
  have h1 : l.drop b = (l.drop a).drop (b - a) := by
    rw [List.drop_drop]; congr 1; omega
  rw [h1, List.append_assoc, List.take_append_drop, List.take_append_drop]

theorem take_split {α : Type} (l : List α) {a b : Nat} (h : a ≤ b) :
    l.take b = l.take a ++ (l.drop a).take (b - a) := by
  have h1 : l.take a = (l.take b).take a := by rw [List.take_take, Nat.min_eq_left h]
  have h2 : (l.drop a).take (b - a) = (l.take b).drop a := by rw [List.drop_take]
  rw [h1, h2, List.take_append_drop]

/-- the group count before the suffix = the count before the middle + the count of the middle -/
theorem groupCountList_take_split (es : List Expr) {a b : Nat} (h : a ≤ b) :
    groupCountList (es.take b) = groupCountList (es.take a) + groupCountList ((es.drop a).take (b - a)) := by
  rw [take_split es h, groupCountList_append]

/-- the middle of a numbered list is numbered from the count of the prefix -/
theorem numberedList_middle (g : Nat) (es : List Expr) (a k : Nat) (h : numberedList g es) :
    numberedList (g + groupCountList (es.take a)) ((es.drop a).take k) :=
  numberedList_take _ _ k (numberedList_drop g es a h)

/-! ### list predicates as `∀ … ∈` -/

theorem wellShapedAll_iff (es : List Expr) : wellShapedAll es = true ↔ ∀ e ∈ es, wellShaped e = true := by
  induction es with
  | nil => simp [wellShapedAll]
  | cons e es ih => simp [wellShapedAll, ih]

theorem noBareEndZAll_iff (es : List Expr) : noBareEndZAll es = true ↔ ∀ e ∈ es, noBareEndZ e = true := by
  induction es with
  | nil => simp [noBareEndZAll]
  | cons e es ih => simp [noBareEndZAll, ih]

theorem pureAll_iff (es : List Expr) : pureAll es = true ↔ ∀ e ∈ es, pureExpr e = true := by
  induction es with
  | nil => simp [pureAll]
  | cons e es ih => simp [pureAll, ih]

theorem slotsBelowAll_iff (n : Nat) (es : List Expr) :
    slotsBelowAll n es = true ↔ ∀ e ∈ es, slotsBelow n e = true := by
  induction es with
  | nil => simp [slotsBelowAll]
  | cons e es ih => simp [slotsBelowAll, ih]

theorem constSizeAll_iff (es : List Expr) : constSizeAll es = true ↔ ∀ e ∈ es, constSize e = true := by
  induction es with
  | nil => simp [constSizeAll]
  | cons e es ih => simp [constSizeAll, ih]

theorem condFreeAll_iff (es : List Expr) : condFreeAll es = true ↔ ∀ e ∈ es, condFree e = true := by
  induction es with
  | nil => simp [condFreeAll]
  | cons e es ih => simp [condFreeAll, ih]

theorem isHardAny_false_iff (br : Nat → Bool) (es : List Expr) :
    isHardAny br es = false ↔ ∀ e ∈ es, isHard br e = false := by
  induction es with
  | nil => simp [isHardAny]
  | cons e es ih => simp [isHardAny, ih]

theorem groupCountList_eq_zero_iff (es : List Expr) : groupCountList es = 0 ↔ ∀ e ∈ es, groupCount e = 0 := by
  induction es with
  | nil => simp [groupCountList]
  | cons e es ih => simp [groupCountList, ih]

/-! ### predicates pass to `take` / `drop` -/

theorem wellShapedAll_take (es : List Expr) (k : Nat) (h : wellShapedAll es = true) :
    wellShapedAll (es.take k) = true :=
  (wellShapedAll_iff _).mpr fun e he => (wellShapedAll_iff es).mp h e (List.mem_of_mem_take he)
theorem wellShapedAll_drop (es : List Expr) (k : Nat) (h : wellShapedAll es = true) :
    wellShapedAll (es.drop k) = true :=
  (wellShapedAll_iff _).mpr fun e he => (wellShapedAll_iff es).mp h e (List.mem_of_mem_drop he)

theorem noBareEndZAll_take (es : List Expr) (k : Nat) (h : noBareEndZAll es = true) :
    noBareEndZAll (es.take k) = true :=
  (noBareEndZAll_iff _).mpr fun e he => (noBareEndZAll_iff es).mp h e (List.mem_of_mem_take he)
theorem noBareEndZAll_drop (es : List Expr) (k : Nat) (h : noBareEndZAll es = true) :
    noBareEndZAll (es.drop k) = true :=
  (noBareEndZAll_iff _).mpr fun e he => (noBareEndZAll_iff es).mp h e (List.mem_of_mem_drop he)

theorem pureAll_take (es : List Expr) (k : Nat) (h : pureAll es = true) : pureAll (es.take k) = true :=
  (pureAll_iff _).mpr fun e he => (pureAll_iff es).mp h e (List.mem_of_mem_take he)
theorem pureAll_drop (es : List Expr) (k : Nat) (h : pureAll es = true) : pureAll (es.drop k) = true :=
  (pureAll_iff _).mpr fun e he => (pureAll_iff es).mp h e (List.mem_of_mem_drop he)

theorem slotsBelowAll_take (n : Nat) (es : List Expr) (k : Nat) (h : slotsBelowAll n es = true) :
    slotsBelowAll n (es.take k) = true :=
  (slotsBelowAll_iff n _).mpr fun e he => (slotsBelowAll_iff n es).mp h e (List.mem_of_mem_take he)

theorem constSizeAll_take (es : List Expr) (k : Nat) (h : constSizeAll es = true) :
    constSizeAll (es.take k) = true :=
  (constSizeAll_iff _).mpr fun e he => (constSizeAll_iff es).mp h e (List.mem_of_mem_take he)
theorem constSizeAll_drop (es : List Expr) (k : Nat) (h : constSizeAll es = true) :
    constSizeAll (es.drop k) = true :=
  (constSizeAll_iff _).mpr fun e he => (constSizeAll_iff es).mp h e (List.mem_of_mem_drop he)

theorem condFreeAll_drop (es : List Expr) (k : Nat) (h : condFreeAll es = true) :
    condFreeAll (es.drop k) = true :=
  (condFreeAll_iff _).mpr fun e he => (condFreeAll_iff es).mp h e (List.mem_of_mem_drop he)

theorem isHardAny_take (br : Nat → Bool) (es : List Expr) (k : Nat) (h : isHardAny br es = false) :
    isHardAny br (es.take k) = false :=
  (isHardAny_false_iff br _).mpr fun e he => (isHardAny_false_iff br es).mp h e (List.mem_of_mem_take he)
theorem isHardAny_drop (br : Nat → Bool) (es : List Expr) (k : Nat) (h : isHardAny br es = false) :
    isHardAny br (es.drop k) = false :=
  (isHardAny_false_iff br _).mpr fun e he => (isHardAny_false_iff br es).mp h e (List.mem_of_mem_drop he)

/-! ### `takeWhile` facts -/

theorem take_length_takeWhile {α : Type} (p : α → Bool) (l : List α) :
    l.take (l.takeWhile p).length = l.takeWhile p := by
  induction l with
  | nil => simp
  | cons a as ih =>
    simp only [List.takeWhile_cons]
    split
    · simp [ih]
    · simp

theorem mem_takeWhile_sat {α : Type} (p : α → Bool) (l : List α) (x : α) (h : x ∈ l.takeWhile p) :
    p x = true := by
  induction l with
  | nil => simp at h
  | cons a as ih =>
    simp only [List.takeWhile_cons] at h
    split at h
    · rcases List.mem_cons.mp h with rfl | h
      · assumption
      · exact ih h
    · simp at h

/-- the last `(l.reverse.takeWhile p).length` elements of `l` satisfy `p` -/
theorem mem_drop_of_reverse_takeWhile {α : Type} (p : α → Bool) (l : List α) (x : α)
    (hx : x ∈ l.drop (l.length - (l.reverse.takeWhile p).length)) : p x = true := by
  have h1 : (l.reverse.take (l.reverse.takeWhile p).length).reverse =
      l.drop (l.length - (l.reverse.takeWhile p).length) := by
    rw [List.take_reverse, List.reverse_reverse]
  rw [← h1, List.mem_reverse, take_length_takeWhile] at hx
  exact mem_takeWhile_sat p _ x hx

/-- every child in the prefix of the split is easy and constant-size -/
theorem concatSplit_prefix (br : Nat → Bool) (es : List Expr) (hard : Bool) :
    ∀ c ∈ es.take (concatSplit br es hard).1, constSize c = true ∧ isHard br c = false := by
  intro c hc
  simp only [concatSplit] at hc
  rw [take_length_takeWhile] at hc
  have := mem_takeWhile_sat _ _ c hc
  simpa using this

theorem concatSplit_suffix_aux (br : Nat → Bool) (es : List Expr) (q : Expr → Bool) (c : Expr) :
    let p := (es.takeWhile (fun c => constSize c && !isHard br c)).length
    c ∈ es.drop (es.length - ((es.drop p).reverse.takeWhile q).length) → q c = true := by
  intro p hc
  have hp : p ≤ es.length := length_takeWhile_le' _ _
  have hL : ((es.drop p).reverse.takeWhile q).length ≤ es.length - p := by
    have := length_takeWhile_le' q (es.drop p).reverse
    simpa using this
  apply mem_drop_of_reverse_takeWhile q (es.drop p) c
  rw [List.drop_drop, List.length_drop]
  have : p + (es.length - p - ((es.drop p).reverse.takeWhile q).length) =
      es.length - ((es.drop p).reverse.takeWhile q).length := by omega
  rw [this]
  exact hc

/-- in a hard context every child in the suffix of the split is easy and constant-size -/
theorem concatSplit_suffix_hard (br : Nat → Bool) (es : List Expr) :
    ∀ c ∈ es.drop (concatSplit br es true).2, constSize c = true ∧ isHard br c = false := by
  intro c hc
  simp only [concatSplit, Bool.not_true, Bool.false_eq_true, ↓reduceIte] at hc
  have := concatSplit_suffix_aux br es (fun c => constSize c && !isHard br c) c hc
  simpa using this

/-- in a non-hard context every child in the suffix of the split is easy -/
theorem concatSplit_suffix_easy (br : Nat → Bool) (es : List Expr) :
    ∀ c ∈ es.drop (concatSplit br es false).2, isHard br c = false := by
  intro c hc
  simp only [concatSplit, Bool.not_false, ↓reduceIte] at hc
  have := concatSplit_suffix_aux br es (fun c => !isHard br c) c hc
  simpa using this

/-- whatever the context, every child in the suffix of the split is easy -/
theorem concatSplit_suffix (br : Nat → Bool) (es : List Expr) (hard : Bool) :
    ∀ c ∈ es.drop (concatSplit br es hard).2, isHard br c = false := by
  cases hard with
  | false => exact concatSplit_suffix_easy br es
  | true => exact fun c hc => (concatSplit_suffix_hard br es c hc).2

theorem concatSplit_prefix_isHardAny (br : Nat → Bool) (es : List Expr) (hard : Bool) :
    isHardAny br (es.take (concatSplit br es hard).1) = false :=
  (isHardAny_false_iff br _).mpr fun c hc => (concatSplit_prefix br es hard c hc).2

theorem concatSplit_prefix_constSizeAll (br : Nat → Bool) (es : List Expr) (hard : Bool) :
    constSizeAll (es.take (concatSplit br es hard).1) = true :=
  (constSizeAll_iff _).mpr fun c hc => (concatSplit_prefix br es hard c hc).1

theorem concatSplit_prefix_pureAll (br : Nat → Bool) (es : List Expr) (hard : Bool) :
    pureAll (es.take (concatSplit br es hard).1) = true :=
  pureAll_of_not_hard br _ (concatSplit_prefix_isHardAny br es hard)

theorem concatSplit_suffix_isHardAny (br : Nat → Bool) (es : List Expr) (hard : Bool) :
    isHardAny br (es.drop (concatSplit br es hard).2) = false :=
  (isHardAny_false_iff br _).mpr (concatSplit_suffix br es hard)

theorem concatSplit_suffix_constSizeAll (br : Nat → Bool) (es : List Expr) :
    constSizeAll (es.drop (concatSplit br es true).2) = true :=
  (constSizeAll_iff _).mpr fun c hc => (concatSplit_suffix_hard br es c hc).1

theorem concatSplit_suffix_pureAll (br : Nat → Bool) (es : List Expr) (hard : Bool) :
    pureAll (es.drop (concatSplit br es hard).2) = true :=
  pureAll_of_not_hard br _ (concatSplit_suffix_isHardAny br es hard)

/-- non-vacuity: `a(b)\1c` with group 1 back-referenced, in a hard context: prefix `a`, middle
    `(b)\1`, suffix `c` -/
example :
    let br : Nat → Bool := fun g => g == 1
    let es : List Expr := [.literal ['a'] false, .group 1 (.literal ['b'] false), .backref 1, .literal ['c'] false]
    concatSplit br es true = (1, 3) ∧ isHardAny br (es.take 1) = false ∧ constSizeAll (es.drop 3) = true := by
  simp [concatSplit, constSize, constSizeAll, isHard, isHardAny]

/-! ## C. One state -/

mutual
/-- a pure expression without groups writes no slot -/
theorem ownSlots_nil_of_groupfree : ∀ (e : Expr), pureExpr e = true → groupCount e = 0 → ownSlots e = []
  | .group g e, _, h0 => by simp [groupCount] at h0
  | .concat es, hp, h0 => by
    simp only [pureExpr] at hp; simp only [groupCount] at h0; simp only [ownSlots]
    exact ownSlotsList_nil_of_groupfree es hp h0
  | .alt es, hp, h0 => by
    simp only [pureExpr] at hp; simp only [groupCount] at h0; simp only [ownSlots]
    exact ownSlotsList_nil_of_groupfree es hp h0
  | .repeat e _ _ _, hp, h0 => by
    simp only [pureExpr] at hp; simp only [groupCount] at h0; simp only [ownSlots]
    exact ownSlots_nil_of_groupfree e hp h0
  | .look _ _, hp, _ => by simp [pureExpr] at hp
  | .atomic _, hp, _ => by simp [pureExpr] at hp
  | .cond _ _ _, hp, _ => by simp [pureExpr] at hp
  | .keepOut, hp, _ => by simp [pureExpr] at hp
  | .backref _, hp, _ => by simp [pureExpr] at hp
  | .contPrev, hp, _ => by simp [pureExpr] at hp
  | .backrefExists _, hp, _ => by simp [pureExpr] at hp
  | .empty, _, _ => by simp [ownSlots]
  | .any _, _, _ => by simp [ownSlots]
  | .assertion _, _, _ => by simp [ownSlots]
  | .literal _ _, _, _ => by simp [ownSlots]
  | .delegate _ _ _, _, _ => by simp [ownSlots]
  | .subroutine _, _, _ => by simp [ownSlots]
theorem ownSlotsList_nil_of_groupfree : ∀ (es : List Expr), pureAll es = true → groupCountList es = 0 →
    ownSlotsList es = []
  | [], _, _ => by simp [ownSlotsList]
  | e :: es, hp, h0 => by
    simp only [pureAll, Bool.and_eq_true] at hp
    simp only [groupCountList] at h0
    simp only [ownSlotsList]
    rw [ownSlots_nil_of_groupfree e hp.1 (by omega), ownSlotsList_nil_of_groupfree es hp.2 (by omega)]
    rfl
end

theorem St.ext' {a b : St} (h1 : a.ix = b.ix) (h2 : a.slots = b.slots) : a = b := by
  cases a; cases b; simp only at h1 h2; subst h1; subst h2; rfl

/-- a pure, group-free piece leaves the slots as they were -/
theorem semConcat_slots_of_groupfree (c : Ctx) (es : List Expr) (hp : pureAll es = true)
    (hg0 : groupCountList es = 0) (st r : St) (hr : r ∈ semConcat c es st) : r.slots = st.slots := by
  have hf := semConcat_frame c es st r hr
  rw [ownSlotsList_nil_of_groupfree es hp hg0] at hf
  exact List.ext_getElem? fun i => hf.2 i (by simp)

/-- the only possible result of a group-free, constant-size, pure piece -/
theorem semConcat_const_groupfree_eq (c : Ctx) (n : Nat) (es : List Expr) (hw : wellShapedAll es = true)
    (hc : constSizeAll es = true) (hz : noBareEndZAll es = true) (hp : pureAll es = true)
    (hg0 : groupCountList es = 0) (hlen : c.len < UNSET) (st : St) (hg : st.Good c n) (r : St)
    (hr : r ∈ semConcat c es st) : r = ⟨st.ix + minSizeSum es, st.slots⟩ := by
  have hgood := semConcat_good c n es st r hg hr
  have hix := const_exact_concat c es hw hc hz st r hr (by have := hgood.ix; omega)
  exact St.ext' hix (semConcat_slots_of_groupfree c es hp hg0 st r hr)

/-- **one state**: all results of a group-free, constant-size, pure piece are the same state
    (the `hsame` hypothesis of `sim2_delegate_same`) -/
theorem same_of_const_groupfree (c : Ctx) (n : Nat) (es : List Expr) (hw : wellShapedAll es = true)
    (hc : constSizeAll es = true) (hz : noBareEndZAll es = true) (hp : pureAll es = true)
    (hg0 : groupCountList es = 0) (hlen : c.len < UNSET) (st : St) (hg : st.Good c n) (r q : St)
    (hr : r ∈ semConcat c es st) (hq : q ∈ semConcat c es st) : r = q := by
  rw [semConcat_const_groupfree_eq c n es hw hc hz hp hg0 hlen st hg r hr,
    semConcat_const_groupfree_eq c n es hw hc hz hp hg0 hlen st hg q hq]

theorem semConcat_singleton (c : Ctx) (e : Expr) (st : St) : semConcat c [e] st = sem c e st := by
  simp only [semConcat]
  induction sem c e st with
  | nil => rfl
  | cons a as ih => simp only [List.flatMap_cons, ih, semConcat]; rfl

/-- the single-expression form -/
theorem sem_const_groupfree_eq (c : Ctx) (n : Nat) (e : Expr) (hw : wellShaped e = true)
    (hc : constSize e = true) (hz : noBareEndZ e = true) (hp : pureExpr e = true)
    (hg0 : groupCount e = 0) (hlen : c.len < UNSET) (st : St) (hg : st.Good c n) (r : St)
    (hr : r ∈ sem c e st) : r = ⟨st.ix + minSize e, st.slots⟩ := by
  have := semConcat_const_groupfree_eq c n [e] (by simp [wellShapedAll, hw]) (by simp [constSizeAll, hc])
    (by simp [noBareEndZAll, hz]) (by simp [pureAll, hp]) (by simp [groupCountList, hg0]) hlen st hg r
    (by rw [semConcat_singleton]; exact hr)
  have hgood := sem_good c n e st r hg hr
  have hix := C13_const_exact c e hw hc hz st r hr (by have := hgood.ix; omega)
  rw [this]
  exact St.ext' (by simp only []; rw [← hix, this]) rfl

theorem same_of_const_groupfree_one (c : Ctx) (n : Nat) (e : Expr) (hw : wellShaped e = true)
    (hc : constSize e = true) (hz : noBareEndZ e = true) (hp : pureExpr e = true)
    (hg0 : groupCount e = 0) (hlen : c.len < UNSET) (st : St) (hg : st.Good c n) (r q : St)
    (hr : r ∈ sem c e st) (hq : q ∈ sem c e st) : r = q := by
  rw [sem_const_groupfree_eq c n e hw hc hz hp hg0 hlen st hg r hr,
    sem_const_groupfree_eq c n e hw hc hz hp hg0 hlen st hg q hq]

/-- non-vacuity: `a.` on the text `ab` from a good state with one group: all hypotheses of
    `same_of_const_groupfree` hold and there is a result -/
example :
    let es : List Expr := [.literal ['a'] false, .any true]
    let st : St := ⟨0, [some 0, none]⟩
    wellShapedAll es = true ∧ constSizeAll es = true ∧ noBareEndZAll es = true ∧ pureAll es = true ∧
      groupCountList es = 0 ∧ (exCtx ['a', 'b']).len < UNSET ∧ st.Good (exCtx ['a', 'b']) 2 ∧
      semConcat (exCtx ['a', 'b']) es st = [⟨2, [some 0, none]⟩] := by
  refine ⟨by simp [wellShapedAll, wellShaped], by simp [constSizeAll, constSize],
    by simp [noBareEndZAll, noBareEndZ], by simp [pureAll, pureExpr], by simp [groupCountList, groupCount],
    by simp [exCtx, Ctx.len, UNSET], ⟨by simp, rfl, ?_⟩, ?_⟩
  · intro v hv; simp at hv; subst hv; simp
  · simp [semConcat, sem, exCtx, Ctx.litAt, Ctx.at?]

/-! ## D. Well-shapedness passes to children -/

theorem wellShaped_group {g : Nat} {e : Expr} (h : wellShaped (.group g e) = true) : wellShaped e = true := by
  simpa [wellShaped] using h
theorem wellShaped_concat {es : List Expr} (h : wellShaped (.concat es) = true) : wellShapedAll es = true := by
  simpa [wellShaped] using h
theorem wellShaped_alt {es : List Expr} (h : wellShaped (.alt es) = true) :
    es ≠ [] ∧ wellShapedAll es = true := by
  simpa [wellShaped] using h
theorem wellShaped_look {e : Expr} {la : Look} (h : wellShaped (.look e la) = true) : wellShaped e = true := by
  simpa [wellShaped] using h
theorem wellShaped_repeat {e : Expr} {lo : Nat} {hi : Option Nat} {gr : Bool}
    (h : wellShaped (.repeat e lo hi gr) = true) : wellShaped e = true := by
  simpa [wellShaped] using h
theorem wellShaped_atomic {e : Expr} (h : wellShaped (.atomic e) = true) : wellShaped e = true := by
  simpa [wellShaped] using h
theorem wellShaped_cond {c y n : Expr} (h : wellShaped (.cond c y n) = true) :
    wellShaped c = true ∧ wellShaped y = true ∧ wellShaped n = true := by
  simpa [wellShaped, and_assoc] using h
theorem wellShapedAll_cons {e : Expr} {es : List Expr} (h : wellShapedAll (e :: es) = true) :
    wellShaped e = true ∧ wellShapedAll es = true := by
  simpa [wellShapedAll] using h

end Fancy
