import FancyModel.Lemmas.Sim2
/-!
# Atomic groups, look-aheads, negative look-arounds against the full machine (stage S2)

Generic in the body semantics `sm : St → List St`, so that look-behinds (body = go back, then the
expression) reuse the same lemmas.

* `sim2_atomic` — `BeginAtomic; <body>; EndAtomic`
* `sim2_poslook_atomic` — `BeginAtomic; Save; <body>; Restore; EndAtomic`
* `sim2_poslook_plain_all` / `sim2_poslook_plain` — `Save; <body>; Restore` (body with at most one result)
* `sim2_neglook` — `Split; <body>; FailNegativeLookAround`
* corollaries for `sem c (.atomic e)`, `sem c (.look e .ahead)` (both layouts), `sem c (.look e .aheadNeg)`
* look-behind layouts (`GoBack k` first): `sim2_posbehind_atomic`, `sim2_posbehind_plain`, `sim2_negbehind`

These are the constructs that *cut*: an atomic group continues only from the first result of its
body and a negative look-around never resumes its marker once the body has a result. This is what
the demand-driven obligations of `Sim2` are for (continuation only for reached results, fail
evidence only when everything before passes the failure through): the body's continuation here is a
constant function of the fail-back answer, so "the earlier results pass the failure through" forces
the reached result to be the head (`not_thru_const`).
-/
namespace Fancy

/-! ## Slot arithmetic on `unview sl ++ aux` -/

private theorem set_aux (sl : List (Option Nat)) (aux : List Nat) (n j v : Nat) (hn : sl.length = n) (hj : n ≤ j) :
    (unview sl ++ aux).set j v = unview sl ++ aux.set (j - n) v := by
  rw [List.set_append_right _ _ (by simp only [unview_length]; omega)]
  simp only [unview_length, hn]

private theorem get_aux (sl : List (Option Nat)) (aux : List Nat) (n j : Nat) (hn : sl.length = n) (hj : n ≤ j) :
    (unview sl ++ aux)[j]? = aux[j - n]? := by
  rw [List.getElem?_append_right (by simp only [unview_length]; omega)]
  simp only [unview_length, hn]

/-- `dropUntil` skips the branches whose pc is not the target and stops at the marker -/
theorem dropUntil_append_marker (t : Nat) (S : List SBranch) (mk : SBranch) (X : List SBranch)
    (hS : ∀ br ∈ S, br.pc ≠ t) (hmk : mk.pc = t) : dropUntil t (S ++ mk :: X) = some X := by
  induction S with
  | nil => simp [dropUntil, hmk]
  | cons b bs ih =>
    have hb : b.pc ≠ t := hS b (by simp)
    simp only [List.cons_append, dropUntil, beq_iff_eq, hb, ↓reduceIte]
    exact ih (fun br hbr => hS br (by simp [hbr]))

private theorem drop_to_base (S X : List SBranch) : (S ++ X).drop ((S ++ X).length - X.length) = X := by
  have : (S ++ X).length - X.length = S.length := by simp
  rw [this]; exact List.drop_left

/-! ## Passing the failure through -/

/-- trying the results `l` under `succ` hands back whatever failing back yields -/
@[reducible] private def Thru (succ : St → Ans → Ans) (l : List St) : Prop := ∀ acc, l.foldr succ acc = acc

private theorem Thru.nil (succ : St → Ans → Ans) : Thru succ [] := fun _ => rfl

private theorem Thru.append {succ : St → Ans → Ans} {l1 l2 : List St} (h1 : Thru succ l1) (h2 : Thru succ l2) :
    Thru succ (l1 ++ l2) := by
  intro acc; rw [List.foldr_append, h2, h1]

private theorem Thru.single {succ : St → Ans → Ans} {r : St} (h : ∀ acc, succ r acc = acc) : Thru succ [r] := by
  intro acc; simpa using h acc

private theorem Thru.of_single {succ : St → Ans → Ans} {r : St} (h : Thru succ [r]) : ∀ acc, succ r acc = acc := by
  intro acc; simpa using h acc

private theorem Thru.flatMap {succ : St → Ans → Ans} {g : St → List St} {l : List St}
    (h : Thru (fun r acc => (g r).foldr succ acc) l) : Thru succ (l.flatMap g) := by
  intro acc; rw [foldr_flatMap]; exact h acc

private theorem Thru.map {succ : St → Ans → Ans} {f : St → St} {l : List St}
    (h : Thru (fun r acc => succ (f r) acc) l) : Thru succ (l.map f) := by
  intro acc; rw [List.foldr_map]; exact h acc

/-- a constant continuation never passes the failure through -/
private theorem not_thru_const (f : St → Ans) (q : St) (qs : List St) : ¬ Thru (fun r _ => f r) (q :: qs) := by
  intro h
  have h1 := h .noMatch
  have h2 := h (.matched [])
  simp only [List.foldr_cons] at h1 h2
  rw [h1] at h2; cases h2


/-! ## 1. Atomic groups -/

section Look
variable {c : Ctx} {n nS : Nat} {prog : List Insn}

private theorem firstOnly_foldr_const (l : List St) (succ : St → Ans → Ans) (failA : Ans) :
    (firstOnly l).foldr succ failA = l.foldr (fun r _ => succ r failA) failA := by
  cases l with
  | nil => rfl
  | cons q qs => simp [firstOnly]

/-- `a: BeginAtomic; <body> [a+1, m); m: EndAtomic`. The body must be balanced and is only used with
    a committing continuation; the group itself works under every continuation. -/
theorem sim2_atomic {lo hi : Nat} {cm : Bool} {sm : St → List St} {a m : Nat}
    (hbegin : prog[a]? = some .beginAtomic) (hend : prog[m]? = some .endAtomic)
    (hbody : Sim2 c n nS prog lo hi true true sm (a + 1) m) :
    Sim2 c n nS prog lo hi true cm (fun st => firstOnly (sm st)) a (m + 1) := by
  intro st aux astk X succ failA hg hl hsucc hf hs
  have hstep : sstep c prog nS a st.ix (unview st.slots ++ aux) astk X =
      some (.run (a + 1) st.ix (unview st.slots ++ aux) (X.length :: astk) X) := by
    simp [sstep, hbegin]
  apply Big2.step _ _ _ _ _ _ _ hstep
  simp only [firstOnly_foldr_const]
  apply hbody st aux (X.length :: astk) X (fun r _ => succ r failA) failA hg hl
    (by simpa [SuccOK] using Commit.const (fun r => succ r failA))
  · intro hthru
    cases hsm : sm st with
    | nil => exact hf (by simp only [hsm, firstOnly]; exact Thru.nil _)
    | cons q qs => rw [hsm] at hthru; exact absurd hthru (not_thru_const _ q qs)
  · intro l1 r l2 hpos hthru aux' junk S acc hag hb hS hacc
    cases l1 with
    | cons q qs => exact absurd hthru (not_thru_const _ q qs)
    | nil =>
      have hj : junk = [] := hb rfl
      subst hj
      have hfirst : firstOnly (sm st) = [r] := by rw [hpos]; rfl
      have hstep2 : sstep c prog nS m r.ix (unview r.slots ++ aux') ([] ++ X.length :: astk) (S ++ X) =
          some (.run (m + 1) r.ix (unview r.slots ++ aux') astk X) := by
        simp only [sstep, hend, List.nil_append, List.length_append, Nat.le_add_left, ↓reduceIte]
        rw [← List.length_append, drop_to_base]
      apply Big2.step _ _ _ _ _ _ _ hstep2
      have := hs [] r [] (by simpa using hfirst) (Thru.nil _) aux' [] [] failA hag (fun _ => rfl) (by simp)
        (fun h => by simpa using hf (by simp only [hfirst]; exact Thru.single h))
      simpa using this

/-! ## 2. Positive look-around, atomic layout -/

/-- `a: BeginAtomic; a+1: Save(slot); <body> [a+2, m); m: Restore(slot); m+1: EndAtomic`; `slot` is an
    auxiliary slot, the body owns `[slot+1, hi)` -/
theorem sim2_poslook_atomic {slot hi : Nat} {cm : Bool} {sm : St → List St} {a m : Nat}
    (hbegin : prog[a]? = some .beginAtomic) (hsave : prog[a + 1]? = some (.save slot))
    (hrestore : prog[m]? = some (.restore slot)) (hend : prog[m + 1]? = some .endAtomic)
    (hn : n ≤ slot) (hslot : slot < nS) (hhi : slot < hi)
    (hbody : Sim2 c n nS prog (slot + 1) hi true true sm (a + 2) m) (hk : KeepsGood c n sm) :
    Sim2 c n nS prog slot hi true cm
      (fun st => (firstOnly (sm st)).map fun r => { r with ix := st.ix }) a (m + 2) := by
  intro st aux astk X succ failA hg hl hsucc hf hs
  have hstep : sstep c prog nS a st.ix (unview st.slots ++ aux) astk X =
      some (.run (a + 1) st.ix (unview st.slots ++ aux) (X.length :: astk) X) := by
    simp [sstep, hbegin]
  apply Big2.step _ _ _ _ _ _ _ hstep
  have hstep1 : sstep c prog nS (a + 1) st.ix (unview st.slots ++ aux) (X.length :: astk) X =
      some (.run (a + 2) st.ix (unview st.slots ++ aux.set (slot - n) st.ix) (X.length :: astk) X) := by
    simp only [sstep, hsave, hslot, ↓reduceIte]
    rw [set_aux _ _ n slot _ hg.len hn]
  apply Big2.step _ _ _ _ _ _ _ hstep1
  have hfold : ((firstOnly (sm st)).map fun r => ({ r with ix := st.ix } : St)).foldr succ failA =
      (sm st).foldr (fun r _ => succ { r with ix := st.ix } failA) failA := by
    cases sm st with
    | nil => rfl
    | cons q qs => simp [firstOnly]
  simp only [hfold]
  have hag0 : AuxAgree n slot hi aux (aux.set (slot - n) st.ix) := AuxAgree.set aux slot st.ix hn ⟨Nat.le_refl _, hhi⟩
  apply hbody st (aux.set (slot - n) st.ix) (X.length :: astk) X (fun r _ => succ { r with ix := st.ix } failA) failA hg
    (by simpa using hl)
    (by simpa [SuccOK] using Commit.const (fun r => succ { r with ix := st.ix } failA))
  · intro hthru
    cases hsm : sm st with
    | nil => exact hf (by simp only [hsm, firstOnly]; exact Thru.nil _)
    | cons q qs => rw [hsm] at hthru; exact absurd hthru (not_thru_const _ q qs)
  · intro l1 r l2 hpos hthru aux' junk S acc hag hb hS hacc
    cases l1 with
    | cons q qs => exact absurd hthru (not_thru_const _ q qs)
    | nil =>
      have hj : junk = [] := hb rfl
      subst hj
      have hfirst : ((firstOnly (sm st)).map fun r => ({ r with ix := st.ix } : St)) = [{ r with ix := st.ix }] := by
        rw [hpos]; rfl
      have hrlen : r.slots.length = n := (hk st r hg (by rw [hpos]; simp)).len
      have hget : (unview r.slots ++ aux')[slot]? = some st.ix := by
        rw [get_aux _ _ n slot hrlen hn, hag.get slot hn (Or.inl (Nat.lt_succ_self _)),
          List.getElem?_set_self (by omega)]
      have hstep2 : sstep c prog nS m r.ix (unview r.slots ++ aux') ([] ++ X.length :: astk) (S ++ X) =
          some (.run (m + 1) st.ix (unview r.slots ++ aux') (X.length :: astk) (S ++ X)) := by
        simp only [sstep, hrestore, hslot, ↓reduceIte, hget, List.nil_append, hg.ix]
      apply Big2.step _ _ _ _ _ _ _ hstep2
      have hstep3 : sstep c prog nS (m + 1) st.ix (unview r.slots ++ aux') (X.length :: astk) (S ++ X) =
          some (.run (m + 2) st.ix (unview r.slots ++ aux') astk X) := by
        simp only [sstep, hend, List.length_append, Nat.le_add_left, ↓reduceIte]
        rw [← List.length_append, drop_to_base]
      apply Big2.step _ _ _ _ _ _ _ hstep3
      have := hs [] { r with ix := st.ix } [] (by simpa using hfirst) (Thru.nil _) aux' [] [] failA
        (hag0.trans' (hag.mono (Nat.le_succ _) (Nat.le_refl _))) (fun _ => rfl) (by simp)
        (fun h => by simpa using hf (by simp only [hfirst]; exact Thru.single h))
      simpa using this

/-! ## 3. Positive look-around, plain layout -/

private theorem SuccOK.comp {cm : Bool} {succ : St → Ans → Ans} (h : SuccOK cm succ) (f : St → St) :
    SuccOK cm (fun r acc => succ (f r) acc) := by
  cases cm with
  | true =>
    have h' : Commit succ := by simpa [SuccOK] using h
    have h2 : Commit (fun r acc => succ (f r) acc) := fun r acc acc' => h' (f r) acc acc'
    simpa [SuccOK] using h2
  | false =>
    have h' : Par succ := by simpa [SuccOK] using h
    have h2 : Par (fun r acc => succ (f r) acc) := fun r => h' (f r)
    simpa [SuccOK] using h2

/-- `a: Save(slot); <body> [a+1, m); m: Restore(slot)` without any cut: every result of the body, with
    the position put back. Balance and continuation mode are those of the body; the branches the body
    leaves stay on the stack. -/
theorem sim2_poslook_plain_all {slot hi : Nat} {bal cm : Bool} {sm : St → List St} {a m : Nat}
    (hsave : prog[a]? = some (.save slot)) (hrestore : prog[m]? = some (.restore slot))
    (hn : n ≤ slot) (hslot : slot < nS) (hhi : slot < hi)
    (hbody : Sim2 c n nS prog (slot + 1) hi bal cm sm (a + 1) m) (hk : KeepsGood c n sm) :
    Sim2 c n nS prog slot hi bal cm (fun st => (sm st).map fun r => { r with ix := st.ix }) a (m + 1) := by
  intro st aux astk X succ failA hg hl hsucc hf hs
  have hstep1 : sstep c prog nS a st.ix (unview st.slots ++ aux) astk X =
      some (.run (a + 1) st.ix (unview st.slots ++ aux.set (slot - n) st.ix) astk X) := by
    simp only [sstep, hsave, hslot, ↓reduceIte]
    rw [set_aux _ _ n slot _ hg.len hn]
  apply Big2.step _ _ _ _ _ _ _ hstep1
  simp only [List.foldr_map]
  have hag0 : AuxAgree n slot hi aux (aux.set (slot - n) st.ix) := AuxAgree.set aux slot st.ix hn ⟨Nat.le_refl _, hhi⟩
  apply hbody st (aux.set (slot - n) st.ix) astk X (fun r acc => succ { r with ix := st.ix } acc) failA hg
    (by simpa using hl) (hsucc.comp _)
  · intro hthru
    exact hf (Thru.map hthru)
  · intro l1 r l2 hpos hthru aux' junk S acc hag hb hS hacc
    have hrlen : r.slots.length = n := (hk st r hg (by rw [hpos]; simp)).len
    have hget : (unview r.slots ++ aux')[slot]? = some st.ix := by
      rw [get_aux _ _ n slot hrlen hn, hag.get slot hn (Or.inl (Nat.lt_succ_self _)),
        List.getElem?_set_self (by omega)]
    have hstep2 : sstep c prog nS m r.ix (unview r.slots ++ aux') (junk ++ astk) (S ++ X) =
        some (.run (m + 1) st.ix (unview r.slots ++ aux') (junk ++ astk) (S ++ X)) := by
      simp only [sstep, hrestore, hslot, ↓reduceIte, hget, hg.ix]
    apply Big2.step _ _ _ _ _ _ _ hstep2
    exact hs (l1.map fun r => { r with ix := st.ix }) { r with ix := st.ix } (l2.map fun r => { r with ix := st.ix })
      (by simp [hpos]) (Thru.map hthru) aux' junk S acc
      (hag0.trans' (hag.mono (Nat.le_succ _) (Nat.le_refl _))) hb
      (fun br hbr => by have := hS br hbr; omega) hacc

private theorem firstOnly_of_length_le_one (l : List St) (h : l.length ≤ 1) : firstOnly l = l := by
  match l, h with
  | [], _ => rfl
  | [_], _ => rfl

/-- the plain layout for a body with at most one result (what the compiler requires of it): the
    semantics of the positive look-around. `cm` of the body is the outer `cm`. -/
theorem sim2_poslook_plain {slot hi : Nat} {bal cm : Bool} {sm : St → List St} {a m : Nat}
    (hsave : prog[a]? = some (.save slot)) (hrestore : prog[m]? = some (.restore slot))
    (hn : n ≤ slot) (hslot : slot < nS) (hhi : slot < hi)
    (hbody : Sim2 c n nS prog (slot + 1) hi bal cm sm (a + 1) m) (hk : KeepsGood c n sm)
    (hone : ∀ st, (sm st).length ≤ 1) :
    Sim2 c n nS prog slot hi bal cm
      (fun st => (firstOnly (sm st)).map fun r => { r with ix := st.ix }) a (m + 1) :=
  (sim2_poslook_plain_all hsave hrestore hn hslot hhi hbody hk).congr
    (fun st => by rw [firstOnly_of_length_le_one _ (hone st)])

/-! ## 4. Negative look-around -/

/-- `a: Split(a+1, m+1); <body> [a+1, m); m: FailNegativeLookAround`. Any balance of the body; the
    body is only used with a committing continuation. The result is balanced, changes no auxiliary
    slot and leaves no branch. -/
theorem sim2_neglook {lo hi : Nat} {bal cm : Bool} {sm : St → List St} {a m : Nat}
    (hsplit : prog[a]? = some (.split (a + 1) (m + 1))) (hfail : prog[m]? = some .failNegLook)
    (hbody : Sim2 c n nS prog lo hi bal true sm (a + 1) m) :
    Sim2 c n nS prog lo hi true cm (fun st => if (sm st).isEmpty then [st] else []) a (m + 1) := by
  intro st aux astk X succ failA hg hl hsucc hf hs
  have hstep : sstep c prog nS a st.ix (unview st.slots ++ aux) astk X =
      some (.run (a + 1) st.ix (unview st.slots ++ aux) astk (⟨m + 1, st.ix, unview st.slots ++ aux, astk⟩ :: X)) := by
    simp [sstep, hsplit]
  apply Big2.step _ _ _ _ _ _ _ hstep
  cases hsm : sm st with
  | nil =>
    simp only [hsm, List.isEmpty_nil, ↓reduceIte, List.foldr_cons, List.foldr_nil] at hf hs ⊢
    have := hbody st aux astk (⟨m + 1, st.ix, unview st.slots ++ aux, astk⟩ :: X) (fun _ _ => failA) (succ st failA)
      hg hl (by simpa [SuccOK] using Commit.const (fun _ => failA))
      (fun _ => by
        apply Big2.failPop
        have := hs [] st [] rfl (Thru.nil _) aux [] [] failA (AuxAgree.refl _ _ _ _) (fun _ => rfl) (by simp)
          (fun h => by simpa using hf (Thru.single h))
        simpa using this)
      (fun l1 r l2 hpos => by rw [hsm] at hpos; simp at hpos)
    simpa [hsm] using this
  | cons q qs =>
    have hf' : Big2 c prog nS (.fail X) failA := hf (fun acc => by simp [hsm])
    simp only [hsm, List.isEmpty_cons, Bool.false_eq_true, ↓reduceIte, List.foldr_nil]
    have := hbody st aux astk (⟨m + 1, st.ix, unview st.slots ++ aux, astk⟩ :: X) (fun _ _ => failA) failA
      hg hl (by simpa [SuccOK] using Commit.const (fun _ => failA))
      (fun hthru => by rw [hsm] at hthru; exact absurd hthru (not_thru_const _ q qs))
      (fun l1 r l2 hpos hthru aux' junk S acc hag hb hS hacc => by
        have hstep2 : sstep c prog nS m r.ix (unview r.slots ++ aux') (junk ++ astk)
            (S ++ ⟨m + 1, st.ix, unview st.slots ++ aux, astk⟩ :: X) = some (.fail X) := by
          simp only [sstep, hfail]
          rw [dropUntil_append_marker (m + 1) S _ X (fun br hbr => by have := hS br hbr; omega) rfl]
        exact Big2.step _ _ _ _ _ _ _ hstep2 hf')
    simpa [hsm] using this

/-! ## 5. Corollaries for the reference semantics -/

theorem sim2_sem_atomic {lo hi : Nat} {cm : Bool} {e : Expr} {a m : Nat}
    (hbegin : prog[a]? = some .beginAtomic) (hend : prog[m]? = some .endAtomic)
    (hbody : Sim2 c n nS prog lo hi true true (sem c e) (a + 1) m) :
    Sim2 c n nS prog lo hi true cm (sem c (.atomic e)) a (m + 1) :=
  (sim2_atomic hbegin hend hbody).congr (fun st => by simp [sem])

theorem sim2_sem_ahead_atomic {slot hi : Nat} {cm : Bool} {e : Expr} {a m : Nat}
    (hbegin : prog[a]? = some .beginAtomic) (hsave : prog[a + 1]? = some (.save slot))
    (hrestore : prog[m]? = some (.restore slot)) (hend : prog[m + 1]? = some .endAtomic)
    (hn : n ≤ slot) (hslot : slot < nS) (hhi : slot < hi)
    (hbody : Sim2 c n nS prog (slot + 1) hi true true (sem c e) (a + 2) m) :
    Sim2 c n nS prog slot hi true cm (sem c (.look e .ahead)) a (m + 2) :=
  (sim2_poslook_atomic hbegin hsave hrestore hend hn hslot hhi hbody (fun st r hg hr => sem_good c n e st r hg hr)).congr
    (fun st => by simp [sem])

theorem sim2_sem_ahead_plain {slot hi : Nat} {bal cm : Bool} {e : Expr} {a m : Nat}
    (hsave : prog[a]? = some (.save slot)) (hrestore : prog[m]? = some (.restore slot))
    (hn : n ≤ slot) (hslot : slot < nS) (hhi : slot < hi)
    (hbody : Sim2 c n nS prog (slot + 1) hi bal cm (sem c e) (a + 1) m)
    (hone : ∀ st, (sem c e st).length ≤ 1) :
    Sim2 c n nS prog slot hi bal cm (sem c (.look e .ahead)) a (m + 1) :=
  (sim2_poslook_plain hsave hrestore hn hslot hhi hbody (fun st r hg hr => sem_good c n e st r hg hr) hone).congr
    (fun st => by simp [sem])

theorem sim2_sem_aheadNeg {lo hi : Nat} {bal cm : Bool} {e : Expr} {a m : Nat}
    (hsplit : prog[a]? = some (.split (a + 1) (m + 1))) (hfail : prog[m]? = some .failNegLook)
    (hbody : Sim2 c n nS prog lo hi bal true (sem c e) (a + 1) m) :
    Sim2 c n nS prog lo hi true cm (sem c (.look e .aheadNeg)) a (m + 1) :=
  (sim2_neglook hsplit hfail hbody).congr (fun st => by simp [sem])

/-! ## 6. Look-behind layouts: `GoBack k` first -/

/-- the `GoBack k` leaf (owns no auxiliary slot) -/
theorem sim2_goBackL {lo hi : Nat} {bal cm : Bool} {a k : Nat} (h : prog[a]? = some (.goBack k)) :
    Sim2 c n nS prog lo hi bal cm (fun st => if k ≤ st.ix then [{ st with ix := st.ix - k }] else []) a (a + 1) := by
  have := Sim2.test1 (c := c) (n := n) (nS := nS) (prog := prog) (lo := lo) (hi := hi) (bal := bal) (cm := cm) (a := a)
    (fun st => decide (k ≤ st.ix)) (fun st => { st with ix := st.ix - k })
    (fun st aux astk X _ _ => by
      by_cases hk : k ≤ st.ix <;> simp [sstep, h, goBack, hk])
  exact this.congr (fun st => by simp)

theorem keepsGood_goBack (k : Nat) :
    KeepsGood c n (fun st => if k ≤ st.ix then [{ st with ix := st.ix - k }] else []) := by
  intro st r hg hr
  by_cases hk : k ≤ st.ix
  · simp only [hk, ↓reduceIte, List.mem_singleton] at hr; subst hr
    exact hg.withIx _ (by have := hg.ix; omega)
  · simp [hk] at hr

theorem keepsGood_back {body : St → List St} (k : Nat) (hk : KeepsGood c n body) :
    KeepsGood c n (fun st => (if k ≤ st.ix then [{ st with ix := st.ix - k }] else []).flatMap body) := by
  intro st r hg hr
  obtain ⟨q, hq, hr⟩ := List.mem_flatMap.mp hr
  exact hk q r (keepsGood_goBack k st q hg hq) hr

/-- `GoBack k; <body>`: the body of a look-behind -/
theorem sim2_back {lo hi : Nat} {bal cm : Bool} {body : St → List St} {a m k : Nat}
    (hback : prog[a]? = some (.goBack k)) (hbody : Sim2 c n nS prog lo hi bal cm body (a + 1) m) (ham : a + 1 ≤ m)
    (hlh : lo ≤ hi) :
    Sim2 c n nS prog lo hi bal cm
      (fun st => (if k ≤ st.ix then [{ st with ix := st.ix - k }] else []).flatMap body) a m :=
  Sim2.seq (sim2_goBackL (lo := lo) (hi := lo) hback) hbody (keepsGood_goBack k) (Nat.le_refl _) hlh
    (Nat.le_succ _) ham

/-- `a: BeginAtomic; a+1: Save(slot); a+2: GoBack k; <body> [a+3, m); m: Restore(slot); m+1: EndAtomic` -/
theorem sim2_posbehind_atomic {slot hi : Nat} {cm : Bool} {body : St → List St} {a m k : Nat}
    (hbegin : prog[a]? = some .beginAtomic) (hsave : prog[a + 1]? = some (.save slot))
    (hback : prog[a + 2]? = some (.goBack k))
    (hrestore : prog[m]? = some (.restore slot)) (hend : prog[m + 1]? = some .endAtomic)
    (hn : n ≤ slot) (hslot : slot < nS) (hhi : slot < hi) (ham : a + 3 ≤ m)
    (hbody : Sim2 c n nS prog (slot + 1) hi true true body (a + 3) m) (hk : KeepsGood c n body) :
    Sim2 c n nS prog slot hi true cm
      (fun st => (firstOnly ((if k ≤ st.ix then [{ st with ix := st.ix - k }] else []).flatMap body)).map
        fun r => { r with ix := st.ix }) a (m + 2) :=
  sim2_poslook_atomic hbegin hsave hrestore hend hn hslot hhi
    (sim2_back hback (hbody.cast rfl rfl) ham hhi) (keepsGood_back k hk)

private theorem length_back_le_one {body : St → List St} (k : Nat) (hone : ∀ st, (body st).length ≤ 1) (st : St) :
    ((if k ≤ st.ix then [{ st with ix := st.ix - k }] else []).flatMap body).length ≤ 1 := by
  by_cases hk : k ≤ st.ix
  · simpa [hk] using hone _
  · simp [hk]

/-- `a: Save(slot); a+1: GoBack k; <body> [a+2, m); m: Restore(slot)`, body with at most one result -/
theorem sim2_posbehind_plain {slot hi : Nat} {bal cm : Bool} {body : St → List St} {a m k : Nat}
    (hsave : prog[a]? = some (.save slot)) (hback : prog[a + 1]? = some (.goBack k))
    (hrestore : prog[m]? = some (.restore slot))
    (hn : n ≤ slot) (hslot : slot < nS) (hhi : slot < hi) (ham : a + 2 ≤ m)
    (hbody : Sim2 c n nS prog (slot + 1) hi bal cm body (a + 2) m) (hk : KeepsGood c n body)
    (hone : ∀ st, (body st).length ≤ 1) :
    Sim2 c n nS prog slot hi bal cm
      (fun st => (firstOnly ((if k ≤ st.ix then [{ st with ix := st.ix - k }] else []).flatMap body)).map
        fun r => { r with ix := st.ix }) a (m + 1) :=
  sim2_poslook_plain hsave hrestore hn hslot hhi
    (sim2_back hback (hbody.cast rfl rfl) ham hhi) (keepsGood_back k hk) (length_back_le_one k hone)

/-- `a: Split(a+1, m+1); a+1: GoBack k; <body> [a+2, m); m: FailNegativeLookAround` -/
theorem sim2_negbehind {lo hi : Nat} {bal cm : Bool} {body : St → List St} {a m k : Nat}
    (hsplit : prog[a]? = some (.split (a + 1) (m + 1))) (hback : prog[a + 1]? = some (.goBack k))
    (hfail : prog[m]? = some .failNegLook) (ham : a + 2 ≤ m) (hlh : lo ≤ hi)
    (hbody : Sim2 c n nS prog lo hi bal true body (a + 2) m) :
    Sim2 c n nS prog lo hi true cm
      (fun st => if ((if k ≤ st.ix then [{ st with ix := st.ix - k }] else []).flatMap body).isEmpty then [st] else [])
      a (m + 1) :=
  sim2_neglook hsplit hfail (sim2_back hback (hbody.cast rfl rfl) ham hlh)


end Look

/-! ## The hypotheses are satisfiable: concrete layouts (2 capture slots, body = `GoBack 1` or empty) -/

example (c : Ctx) (cm : Bool) :
    Sim2 c 2 2 [.beginAtomic, .goBack 1, .endAtomic] 2 2 true cm
      (fun st => firstOnly (if 1 ≤ st.ix then [{ st with ix := st.ix - 1 }] else [])) 0 3 :=
  sim2_atomic (a := 0) (m := 2) rfl rfl (sim2_goBackL (a := 1) rfl)

example (c : Ctx) (cm : Bool) :
    Sim2 c 2 3 [.beginAtomic, .save 2, .goBack 1, .restore 2, .endAtomic] 2 3 true cm
      (fun st => (firstOnly (if 1 ≤ st.ix then [{ st with ix := st.ix - 1 }] else [])).map
        fun r => { r with ix := st.ix }) 0 5 :=
  sim2_poslook_atomic (n := 2) (nS := 3) (slot := 2) (hi := 3) (a := 0) (m := 3) rfl rfl rfl rfl
    (by omega) (by omega) (by omega)
    (sim2_goBackL (a := 2) rfl) (keepsGood_goBack 1)

example (c : Ctx) (cm : Bool) :
    Sim2 c 2 3 [.save 2, .goBack 1, .restore 2] 2 3 true cm
      (fun st => (firstOnly (if 1 ≤ st.ix then [{ st with ix := st.ix - 1 }] else [])).map
        fun r => { r with ix := st.ix }) 0 3 :=
  sim2_poslook_plain (n := 2) (nS := 3) (slot := 2) (hi := 3) (a := 0) (m := 2) rfl rfl (by omega) (by omega) (by omega)
    (sim2_goBackL (a := 1) rfl) (keepsGood_goBack 1) (fun st => by by_cases h : 1 ≤ st.ix <;> simp [h])

example (c : Ctx) (cm : Bool) :
    Sim2 c 2 2 [.split 1 3, .goBack 1, .failNegLook] 2 2 true cm
      (fun st => if (if 1 ≤ st.ix then [{ st with ix := st.ix - 1 }] else []).isEmpty then [st] else []) 0 3 :=
  sim2_neglook (bal := true) (a := 0) (m := 2) rfl rfl (sim2_goBackL (a := 1) rfl)

example (c : Ctx) (cm : Bool) :
    Sim2 c 2 3 [.beginAtomic, .save 2, .goBack 1, .restore 2, .endAtomic] 2 3 true cm
      (fun st => (firstOnly ((if 1 ≤ st.ix then [{ st with ix := st.ix - 1 }] else []).flatMap fun st => [st])).map
        fun r => { r with ix := st.ix }) 0 5 :=
  sim2_posbehind_atomic (n := 2) (nS := 3) (slot := 2) (hi := 3) (a := 0) (m := 3) rfl rfl rfl rfl rfl (by omega) (by omega) (by omega) (by omega)
    (Sim2.nil c 2 3 _ 3 3 true true 3) (fun st r hg hr => by simp at hr; subst hr; exact hg)

example (c : Ctx) (cm : Bool) :
    Sim2 c 2 3 [.save 2, .goBack 1, .restore 2] 2 3 true cm
      (fun st => (firstOnly ((if 1 ≤ st.ix then [{ st with ix := st.ix - 1 }] else []).flatMap fun st => [st])).map
        fun r => { r with ix := st.ix }) 0 3 :=
  sim2_posbehind_plain (n := 2) (nS := 3) (slot := 2) (hi := 3) (a := 0) (m := 2) rfl rfl rfl (by omega) (by omega) (by omega) (by omega)
    (Sim2.nil c 2 3 _ 3 3 true cm 2) (fun st r hg hr => by simp at hr; subst hr; exact hg) (fun _ => by simp)

example (c : Ctx) (cm : Bool) :
    Sim2 c 2 2 [.split 1 3, .goBack 1, .failNegLook] 2 2 true cm
      (fun st => if ((if 1 ≤ st.ix then [{ st with ix := st.ix - 1 }] else []).flatMap fun st => [st]).isEmpty
        then [st] else []) 0 3 :=
  sim2_negbehind (bal := true) (lo := 2) (hi := 2) (a := 0) (m := 2) rfl rfl rfl (by omega) (by omega) (Sim2.nil c 2 2 _ 2 2 true true 2)

example (c : Ctx) (cm : Bool) :
    Sim2 c 2 2 [.beginAtomic, .endAtomic] 2 2 true cm (sem c (.atomic .empty)) 0 2 :=
  sim2_sem_atomic (a := 0) (m := 1) rfl rfl ((Sim2.nil c 2 2 _ 2 2 true true 1).congr (fun st => by simp [sem]))

example (c : Ctx) (cm : Bool) :
    Sim2 c 2 3 [.beginAtomic, .save 2, .restore 2, .endAtomic] 2 3 true cm (sem c (.look .empty .ahead)) 0 4 :=
  sim2_sem_ahead_atomic (n := 2) (nS := 3) (slot := 2) (hi := 3) (a := 0) (m := 2) rfl rfl rfl rfl
    (by omega) (by omega) (by omega) ((Sim2.nil c 2 3 _ 3 3 true true 2).congr (fun st => by simp [sem]))

example (c : Ctx) (cm : Bool) :
    Sim2 c 2 3 [.save 2, .restore 2] 2 3 true cm (sem c (.look .empty .ahead)) 0 2 :=
  sim2_sem_ahead_plain (n := 2) (nS := 3) (slot := 2) (hi := 3) (a := 0) (m := 1) rfl rfl
    (by omega) (by omega) (by omega) ((Sim2.nil c 2 3 _ 3 3 true cm 1).congr (fun st => by simp [sem]))
    (fun st => by simp [sem])

example (c : Ctx) (cm : Bool) :
    Sim2 c 2 2 [.split 1 2, .failNegLook] 2 2 true cm (sem c (.look .empty .aheadNeg)) 0 2 :=
  sim2_sem_aheadNeg (bal := true) (a := 0) (m := 1) rfl rfl
    ((Sim2.nil c 2 2 _ 2 2 true true 1).congr (fun st => by simp [sem]))

end Fancy
