import FancyModel.Lemmas.Sim2
import FancyModel.Lemmas.SimCompile
/-!
# Stage S2 of the engine refinement: leaves, groups, optionals and unbounded loops against the full machine

The lemmas of stage S1 (`Lemmas/Sim.lean`, `Lemmas/SimCompile.lean`) ported to `Sim2`
(`Lemmas/Sim2.lean`): the structured whole-copy machine with auxiliary slots, the auxiliary stack and
the pc-range condition on the branches left behind. None of the constructs here touches an auxiliary
slot or the auxiliary stack itself; optionals and loops leave branches, all inside their own range.
The loops generalise over the auxiliary slots and the auxiliary stack, since an unbalanced body
(`bal = false`) hands back more junk at every iteration and changes the slots it owns.
-/
namespace Fancy

/-! ## The machine's slot vector `unview sl ++ aux` -/

theorem unview_append_set_lt (sl : List (Option Nat)) (aux : List Nat) (j v : Nat) (hj : j < sl.length) :
    (unview sl ++ aux).set j v = unview (sl.set j (some v)) ++ aux := by
  rw [unview_set, List.set_append_left j v (by simpa using hj)]

theorem unview_append_set_ge (sl : List (Option Nat)) (aux : List Nat) (j v : Nat) (hj : sl.length ≤ j) :
    (unview sl ++ aux).set j v = unview sl ++ aux.set (j - sl.length) v := by
  rw [List.set_append_right j v (by simpa using hj)]
  simp

theorem unview_append_getElem?_lt (sl : List (Option Nat)) (aux : List Nat) (j : Nat) (hj : j < sl.length) :
    (unview sl ++ aux)[j]? = (unview sl)[j]? :=
  List.getElem?_append_left (by simpa using hj)

theorem unview_append_getElem?_ge (sl : List (Option Nat)) (aux : List Nat) (j : Nat) (hj : sl.length ≤ j) :
    (unview sl ++ aux)[j]? = aux[j - sl.length]? := by
  rw [List.getElem?_append_right (by simpa using hj)]
  simp

theorem SuccOK.ofPar {succ : St → Ans → Ans} (h : Par succ) : SuccOK false succ := by
  simpa [SuccOK] using h

theorem Par.id : Par (fun _ acc => acc) := fun _ => Or.inl (fun _ => rfl)

/-! ## Leaves -/

theorem sim2_any (c : Ctx) (n nS : Nat) (prog : List Insn) (lo hi : Nat) (bal cm : Bool) (a : Nat)
    (h : prog[a]? = some .any) :
    Sim2 c n nS prog lo hi bal cm (sem c (.any true)) a (a + 1) := by
  have := Sim2.test1 (c := c) (n := n) (nS := nS) (prog := prog) (lo := lo) (hi := hi) (bal := bal) (cm := cm)
    (a := a) (fun st => (c.at? st.ix).isSome) (fun st => { st with ix := st.ix + 1 }) (by
      intro st aux astk X _ _
      simp only [sstep, h]
      cases c.at? st.ix <;> simp)
  apply this.congr
  intro st
  simp only [sem]
  cases c.at? st.ix <;> simp

theorem sim2_anyNoNL (c : Ctx) (n nS : Nat) (prog : List Insn) (lo hi : Nat) (bal cm : Bool) (a : Nat)
    (h : prog[a]? = some .anyNoNL) :
    Sim2 c n nS prog lo hi bal cm (sem c (.any false)) a (a + 1) := by
  have := Sim2.test1 (c := c) (n := n) (nS := nS) (prog := prog) (lo := lo) (hi := hi) (bal := bal) (cm := cm)
    (a := a) (fun st => match c.at? st.ix with | some ch => ch != '\n' | none => false)
    (fun st => { st with ix := st.ix + 1 }) (by
      intro st aux astk X _ _
      simp only [sstep, h]
      cases c.at? st.ix with
      | none => simp
      | some ch => by_cases hq : (ch != '\n') = true <;> simp [hq])
  apply this.congr
  intro st
  simp only [sem]
  cases c.at? st.ix with
  | none => simp
  | some ch => by_cases hq : (ch != '\n') = true <;> simp [hq]

theorem sim2_assertion (c : Ctx) (n nS : Nat) (prog : List Insn) (lo hi : Nat) (bal cm : Bool) (a : Nat)
    (x : Assertion) (h : prog[a]? = some (.assertion x)) :
    Sim2 c n nS prog lo hi bal cm (sem c (.assertion x)) a (a + 1) := by
  have := Sim2.test1 (c := c) (n := n) (nS := nS) (prog := prog) (lo := lo) (hi := hi) (bal := bal) (cm := cm)
    (a := a) (fun st => c.assertion x st.ix) (fun st => st) (by
      intro st aux astk X _ _
      simp only [sstep, h]
      by_cases hq : c.assertion x st.ix = true <;> simp [hq])
  apply this.congr
  intro st
  simp [sem]

theorem sim2_lit (c : Ctx) (n nS : Nat) (prog : List Insn) (lo hi : Nat) (bal cm : Bool) (a : Nat)
    (val : List Char) (h : prog[a]? = some (.lit val)) :
    Sim2 c n nS prog lo hi bal cm
      (fun st => if c.litAt false val st.ix then [{ st with ix := st.ix + val.length }] else []) a (a + 1) := by
  exact Sim2.test1 (c := c) (n := n) (nS := nS) (prog := prog) (lo := lo) (hi := hi) (bal := bal) (cm := cm)
    (a := a) (fun st => c.litAt false val st.ix) (fun st => { st with ix := st.ix + val.length }) (by
      intro st aux astk X _ _
      simp only [sstep, h]
      by_cases hq : c.litAt false val st.ix = true <;> simp [hq])

theorem sim2_contPrev (c : Ctx) (n nS : Nat) (prog : List Insn) (lo hi : Nat) (bal cm : Bool) (a : Nat)
    (h : prog[a]? = some .contPrev) :
    Sim2 c n nS prog lo hi bal cm (sem c .contPrev) a (a + 1) := by
  have := Sim2.test1 (c := c) (n := n) (nS := nS) (prog := prog) (lo := lo) (hi := hi) (bal := bal) (cm := cm)
    (a := a) (fun st => st.ix == c.pos && !c.skipped) (fun st => st) (by
      intro st aux astk X _ _
      simp only [sstep, h]
      by_cases h1 : st.ix = c.pos <;> by_cases h2 : c.skipped = true <;> simp [h1, h2])
  apply this.congr
  intro st
  simp [sem]

/-- `GoBack(k)`: step `k` positions to the left, fail at the start of the text -/
theorem sim2_goBack (c : Ctx) (n nS : Nat) (prog : List Insn) (lo hi : Nat) (bal cm : Bool) (a k : Nat)
    (h : prog[a]? = some (.goBack k)) :
    Sim2 c n nS prog lo hi bal cm (fun st => if k ≤ st.ix then [{ st with ix := st.ix - k }] else []) a (a + 1) := by
  have := Sim2.test1 (c := c) (n := n) (nS := nS) (prog := prog) (lo := lo) (hi := hi) (bal := bal) (cm := cm)
    (a := a) (fun st => decide (k ≤ st.ix)) (fun st => { st with ix := st.ix - k }) (by
      intro st aux astk X _ _
      simp only [sstep, h, goBack]
      by_cases hq : k ≤ st.ix <;> simp [hq])
  apply this.congr
  intro st
  simp

/-- `Save(slot)` records the current position in a capture slot -/
theorem sim2_save (c : Ctx) (n nS : Nat) (prog : List Insn) (lo hi : Nat) (bal cm : Bool) (a slot : Nat)
    (h : prog[a]? = some (.save slot)) (hslot : slot < n) :
    Sim2 c n nS prog lo hi bal cm (fun st => [st.setSlot slot (some st.ix)]) a (a + 1) := by
  apply Sim2.step1 (fun st => st.setSlot slot (some st.ix))
  intro st aux astk X hg hl
  have h1 : slot < nS := by omega
  have h2 : slot < st.slots.length := by rw [hg.len]; exact hslot
  simp only [sstep, h, h1, ↓reduceIte, St.setSlot, unview_append_set_lt _ _ _ _ h2]

theorem sim2_backref (c : Ctx) (n nS : Nat) (prog : List Insn) (lo hi : Nat) (bal cm : Bool) (a g : Nat)
    (hlen : c.len < UNSET) (h : prog[a]? = some (.backref (g * 2))) (hgn : 2 * g + 1 < n) :
    Sim2 c n nS prog lo hi bal cm (sem c (.backref g)) a (a + 1) := by
  have := Sim2.test1 (c := c) (n := n) (nS := nS) (prog := prog) (lo := lo) (hi := hi) (bal := bal) (cm := cm)
    (a := a)
    (fun st => match st.slot (2 * g), st.slot (2 * g + 1) with
      | some lo, some hi => decide (lo ≤ hi) && c.sameAt lo hi st.ix
      | _, _ => false)
    (fun st => match st.slot (2 * g), st.slot (2 * g + 1) with
      | some lo, some hi => { st with ix := st.ix + (hi - lo) }
      | _, _ => st) (by
      intro st aux astk X hg hl
      have e1 := slot_unview hg hlen (2 * g) (by omega)
      have e2 := slot_unview hg hlen (2 * g + 1) hgn
      have hmul : g * 2 = 2 * g := Nat.mul_comm _ _
      have hnS : 2 * g + 1 < nS := by omega
      have g1 : (unview st.slots ++ aux)[2 * g]? = (unview st.slots)[2 * g]? :=
        unview_append_getElem?_lt _ _ _ (by rw [hg.len]; omega)
      have g2 : (unview st.slots ++ aux)[2 * g + 1]? = (unview st.slots)[2 * g + 1]? :=
        unview_append_getElem?_lt _ _ _ (by rw [hg.len]; omega)
      simp only [sstep, h, hmul, hnS, ↓reduceIte, g1, g2, e1.1, e2.1]
      cases h1 : st.slot (2 * g) with
      | none => simp
      | some lo =>
        cases h2 : st.slot (2 * g + 1) with
        | none => simp
        | some hi =>
          have n1 : (lo == UNSET) = false := by simpa using e1.2 lo h1
          have n2 : (hi == UNSET) = false := by simpa using e2.2 hi h2
          simp only [n1, n2, Bool.or_self, Bool.false_eq_true, ↓reduceIte]
          by_cases hle : lo ≤ hi
          · have : ¬ lo > hi := by omega
            simp only [this, ↓reduceIte, hle, decide_true, Bool.true_and]
            by_cases hsm : c.sameAt lo hi st.ix = true <;> simp [hsm]
          · have : lo > hi := by omega
            simp [this, hle])
  apply this.congr
  intro st
  simp only [sem]
  cases h1 : st.slot (2 * g) with
  | none => simp
  | some lo =>
    cases h2 : st.slot (2 * g + 1) with
    | none => simp
    | some hi => simp

theorem sim2_backrefExists (c : Ctx) (n nS : Nat) (prog : List Insn) (lo hi : Nat) (bal cm : Bool) (a g : Nat)
    (hlen : c.len < UNSET) (h : prog[a]? = some (.backrefExists g)) (hgn : 2 * g + 1 < n) :
    Sim2 c n nS prog lo hi bal cm (sem c (.backrefExists g)) a (a + 1) := by
  have := Sim2.test1 (c := c) (n := n) (nS := nS) (prog := prog) (lo := lo) (hi := hi) (bal := bal) (cm := cm)
    (a := a) (fun st => (st.slot (2 * g)).isSome) (fun st => st) (by
      intro st aux astk X hg hl
      have e1 := slot_unview hg hlen (2 * g) (by omega)
      have hmul : g * 2 = 2 * g := Nat.mul_comm _ _
      have hnS : 2 * g < nS := by omega
      have g1 : (unview st.slots ++ aux)[2 * g]? = (unview st.slots)[2 * g]? :=
        unview_append_getElem?_lt _ _ _ (by rw [hg.len]; omega)
      simp only [sstep, h, hmul, hnS, ↓reduceIte, g1, e1.1]
      cases h1 : st.slot (2 * g) with
      | none => simp
      | some lo =>
        have n1 : (lo == UNSET) = false := by simpa using e1.2 lo h1
        simp [n1])
  apply this.congr
  intro st
  simp [sem]

/-- an unconditional jump (no branch is left behind, so the pc-range condition is vacuous and no
    relation between `a` and `b` is needed) -/
theorem sim2_jmp (c : Ctx) (n nS : Nat) (prog : List Insn) (lo hi : Nat) (bal cm : Bool) (a b : Nat)
    (h : prog[a]? = some (.jmp b)) :
    Sim2 c n nS prog lo hi bal cm (fun st => [st]) a b := by
  intro st aux astk X succ failA hg hl hsucc hf hs
  simp only [List.foldr_cons, List.foldr_nil]
  have hstep : sstep c prog nS a st.ix (unview st.slots ++ aux) astk X =
      some (.run b st.ix (unview st.slots ++ aux) astk X) := by
    simp [sstep, h]
  apply Big2.step _ _ _ _ _ _ _ hstep
  have := hs [] st [] rfl (fun _ => rfl) aux [] [] failA (AuxAgree.refl _ _ _ _) (fun _ => rfl) (by simp)
    (fun hp => by simpa using hf (by simpa using hp))
  simpa using this

/-! ## Reached results of a `flatMap` -/

theorem flatMap_split {G : St → List St} {l l1 l2 m1 m2 : List St} {r q : St}
    (h1 : l = l1 ++ r :: l2) (h2 : G r = m1 ++ q :: m2) :
    l.flatMap G = (l1.flatMap G ++ m1) ++ q :: (m2 ++ l2.flatMap G) := by
  rw [h1, List.flatMap_append, List.flatMap_cons, h2]
  simp [List.append_assoc]

theorem flatMap_pass {G : St → List St} {succ : St → Ans → Ans} {l1 m1 : List St}
    (hp1 : ∀ acc, l1.foldr (fun r acc => (G r).foldr succ acc) acc = acc) (hp2 : ∀ acc, m1.foldr succ acc = acc) :
    ∀ acc, (l1.flatMap G ++ m1).foldr succ acc = acc := by
  intro acc
  rw [List.foldr_append, hp2, foldr_flatMap]
  exact hp1 acc

/-! ## Sequencing of two pieces that may touch the same auxiliary slots -/

/-- sequencing where both parts own `[lo, hi)` (no order between `lo` and `hi` is needed) -/
theorem Sim2.seqSame {c : Ctx} {n nS : Nat} {prog : List Insn} {lo hi : Nat} {bal cm : Bool} {f g : St → List St}
    {a m b : Nat}
    (h1 : Sim2 c n nS prog lo hi bal false f a m) (h2 : Sim2 c n nS prog lo hi bal cm g m b) (hk : KeepsGood c n f)
    (ham : a ≤ m) (hmb : m ≤ b) :
    Sim2 c n nS prog lo hi bal cm (fun st => (f st).flatMap g) a b := by
  intro st aux astk X succ failA hg hl hsucc hf hs
  rw [foldr_flatMap]
  apply h1 st aux astk X (fun r acc => (g r).foldr succ acc) failA hg hl
    (by simpa [SuccOK] using hsucc.par.foldr g)
    (fun hp => hf (fun acc => by rw [foldr_flatMap]; exact hp acc))
  intro l1 r1 l2 hsp1 hpass1 aux1 junk1 S1 acc1 hag1 hb1 hS1 hf1
  have hl1 : n + aux1.length = nS := by rw [hag1.1]; exact hl
  have hr1 : r1 ∈ f st := by rw [hsp1]; simp
  apply h2 r1 aux1 (junk1 ++ astk) (S1 ++ X) succ acc1 (hk st r1 hg hr1) hl1 hsucc hf1
  intro m1 r2 m2 hsp2 hpass2 aux2 junk2 S2 acc2 hag2 hb2 hS2 hf2
  have := hs (l1.flatMap g ++ m1) r2 (m2 ++ l2.flatMap g) (flatMap_split hsp1 hsp2) (flatMap_pass hpass1 hpass2)
    aux2 (junk2 ++ junk1) (S2 ++ S1) acc2
    (hag1.trans' hag2)
    (fun hb => by rw [hb1 hb, hb2 hb]; rfl)
    (fun br hbr => by
      rcases List.mem_append.mp hbr with h | h
      · have := hS2 br h; omega
      · have := hS1 br h; omega)
    (fun hp => by simpa [List.append_assoc] using hf2 hp)
  simpa [List.append_assoc] using this

/-! ## Capture group -/

theorem sim2_group {c : Ctx} {n nS : Nat} {prog : List Insn} {lo hi : Nat} {bal cm : Bool} {e : Expr} {a b g : Nat}
    (h1 : prog[a]? = some (.save (g * 2))) (h2 : prog[b]? = some (.save (g * 2 + 1)))
    (hbody : Sim2 c n nS prog lo hi bal false (sem c e) (a + 1) b) (hgn : 2 * g + 1 < n) (hab : a + 1 ≤ b) :
    Sim2 c n nS prog lo hi bal cm (sem c (.group g e)) a (b + 1) := by
  have hmul : g * 2 = 2 * g := Nat.mul_comm _ _
  rw [hmul] at h1 h2
  have s1 := sim2_save c n nS prog lo hi bal false a (2 * g) h1 (by omega)
  have s3 := sim2_save c n nS prog lo hi bal cm b (2 * g + 1) h2 hgn
  have k1 : KeepsGood c n (fun st => [st.setSlot (2 * g) (some st.ix)]) := by
    intro st r hg hr
    simp only [List.mem_singleton] at hr; subst hr
    exact hg.setSlot _ _ hg.ix
  have k2 : KeepsGood c n (fun st => ([st.setSlot (2 * g) (some st.ix)]).flatMap (sem c e)) := by
    intro st r hg hr
    simp only [List.flatMap_cons, List.flatMap_nil, List.append_nil] at hr
    exact sem_good c n e _ r (hg.setSlot _ _ hg.ix) hr
  have := (s1.seqSame hbody k1 (by omega) hab).seqSame s3 k2 (by omega) (by omega)
  apply this.congr
  intro st
  simp only [sem, List.flatMap_cons, List.flatMap_nil, List.append_nil]
  induction sem c e (st.setSlot (2 * g) (some st.ix)) with
  | nil => rfl
  | cons x xs ih => simp [ih]

/-! ## Optional -/

/-- greedy `x?`: `Split(a+1, b); <f>` -/
theorem Sim2.optG {c : Ctx} {n nS : Nat} {prog : List Insn} {lo hi : Nat} {bal cm : Bool} {f : St → List St} {a b : Nat}
    (hsplit : prog[a]? = some (.split (a + 1) b)) (h1 : Sim2 c n nS prog lo hi bal cm f (a + 1) b)
    (hab : a + 1 ≤ b) :
    Sim2 c n nS prog lo hi bal cm (fun st => f st ++ [st]) a b := by
  intro st aux astk X succ failA hg hl hsucc hf hs
  rw [List.foldr_append]
  have hstep : sstep c prog nS a st.ix (unview st.slots ++ aux) astk X =
      some (.run (a + 1) st.ix (unview st.slots ++ aux) astk (⟨b, st.ix, unview st.slots ++ aux, astk⟩ :: X)) := by
    simp [sstep, hsplit]
  apply Big2.step _ _ _ _ _ _ _ hstep
  apply h1 st aux astk (⟨b, st.ix, unview st.slots ++ aux, astk⟩ :: X) succ _ hg hl hsucc
  · -- failing into the pushed branch skips `x` (only reached if `f` passes the failure through)
    intro hpf
    apply Big2.failPop
    simp only [List.foldr_cons, List.foldr_nil]
    have := hs (f st) st [] rfl hpf aux [] [] failA (AuxAgree.refl _ _ _ _) (fun _ => rfl) (by simp)
      (fun hp => by
        have := hf (fun acc => by rw [List.foldr_append, hpf]; simpa using hp acc)
        simpa using this)
    simpa using this
  · intro l1 r l2 hsp hpass aux' junk S acc hag hb hS hacc
    have := hs l1 r (l2 ++ [st]) (by show f st ++ [st] = _; rw [hsp]; simp [List.append_assoc]) hpass aux' junk
      (S ++ [⟨b, st.ix, unview st.slots ++ aux, astk⟩]) acc hag hb
      (fun br hbr => by
        rcases List.mem_append.mp hbr with h | h
        · have := hS br h; omega
        · simp only [List.mem_singleton] at h; subst h; simp only; omega)
      (fun hp => by simpa [List.append_assoc] using hacc hp)
    simpa [List.append_assoc] using this

/-- lazy `x??`: `Split(b, a+1); <f>` -/
theorem Sim2.optL {c : Ctx} {n nS : Nat} {prog : List Insn} {lo hi : Nat} {bal cm : Bool} {f : St → List St} {a b : Nat}
    (hsplit : prog[a]? = some (.split b (a + 1))) (h1 : Sim2 c n nS prog lo hi bal cm f (a + 1) b)
    (hab : a + 1 ≤ b) :
    Sim2 c n nS prog lo hi bal cm (fun st => st :: f st) a b := by
  intro st aux astk X succ failA hg hl hsucc hf hs
  simp only [List.foldr_cons]
  have hstep : sstep c prog nS a st.ix (unview st.slots ++ aux) astk X =
      some (.run b st.ix (unview st.slots ++ aux) astk (⟨a + 1, st.ix, unview st.slots ++ aux, astk⟩ :: X)) := by
    simp [sstep, hsplit]
  apply Big2.step _ _ _ _ _ _ _ hstep
  have := hs [] st (f st) rfl (fun _ => rfl) aux [] [⟨a + 1, st.ix, unview st.slots ++ aux, astk⟩]
    ((f st).foldr succ failA)
    (AuxAgree.refl _ _ _ _) (fun _ => rfl)
    (fun br hbr => by simp only [List.mem_singleton] at hbr; subst hbr; simp only; omega)
    (fun hp => by
      show Big2 c prog nS (.fail (⟨a + 1, st.ix, unview st.slots ++ aux, astk⟩ :: X)) _
      apply Big2.failPop
      exact h1 st aux astk X succ failA hg hl hsucc
        (fun hpf => hf (fun acc => by simp only [List.foldr_cons]; rw [hp, hpf]))
        (fun l1 r l2 hsp hpass aux' junk S acc hag hb hS hacc =>
          hs (st :: l1) r l2 (by show st :: f st = _; rw [hsp]; rfl)
            (fun acc => by simp only [List.foldr_cons]; rw [hp, hpass]) aux' junk S acc hag hb
            (fun br hbr => by have := hS br hbr; omega) hacc))
  simpa using this

/-! ## Unbounded loops -/

/-- one unfolding of the unbounded loop past its mandatory iterations, over a body that advances -/
theorem repLoop_unfold {body : St → List St} {lo' fuel count : Nat} (greedy : Bool) {st : St}
    (hadv : Advances body) (hlo : lo' ≤ count) :
    ∃ G : St → List St, (∀ r, r ∈ body st → G r = repLoop body lo' none greedy fuel (count + 1) r) ∧
      repLoop body lo' none greedy (fuel + 1) count st =
        if greedy then (body st).flatMap G ++ [st] else st :: (body st).flatMap G := by
  refine ⟨fun r' => if (none : Option Nat).isNone && decide (lo' ≤ count) && r'.ix == st.ix then [r']
      else repLoop body lo' none greedy fuel (count + 1) r', ?_, ?_⟩
  · intro r hr
    have := hadv st r hr
    have hne : (r.ix == st.ix) = false := by simp; omega
    simp [hne]
  · conv => lhs; unfold repLoop
    simp [Nat.not_lt.mpr hlo]

/-- unbounded greedy loop with head `h`: `h: Split(bs, next)`, body at `[bs, e)`, and control flowing
    from `e` back to `h`. Everything left on the branch stack lies in `[pa, pb]`, an address range that
    contains the body's range `[bs, e]` and the exit `next`. Premises in the form of `Sim2`: failure
    evidence only if every result passes the failure through, the continuation only for reached
    results. -/
theorem loop2_greedy {c : Ctx} {n nS : Nat} {prog : List Insn} {lo hi : Nat} {bal : Bool} {body : St → List St}
    {h bs e next lo' pa pb : Nat}
    (hsplit : prog[h]? = some (.split bs next))
    (hbody : Sim2 c n nS prog lo hi bal false body bs e)
    (hflow : ∀ ix slots astk X a, Big2 c prog nS (.run h ix slots astk X) a → Big2 c prog nS (.run e ix slots astk X) a)
    (hadv : Advances body) (hkg : KeepsGood c n body)
    (hr1 : pa ≤ bs) (hr2 : e ≤ pb) (hr3 : pa ≤ next) (hr4 : next ≤ pb) :
    ∀ (fuel : Nat) (st : St) (aux astk : List Nat) (X : List SBranch) (succ : St → Ans → Ans) (failA : Ans)
      (count : Nat),
      st.Good c n → n + aux.length = nS → Par succ → lo' ≤ count → c.len - st.ix < fuel →
      ((∀ acc, (repLoop body lo' none true fuel count st).foldr succ acc = acc) → Big2 c prog nS (.fail X) failA) →
      (∀ l1 r l2, repLoop body lo' none true fuel count st = l1 ++ r :: l2 → (∀ acc, l1.foldr succ acc = acc) →
        ∀ (aux' junk : List Nat) (S : List SBranch) (acc : Ans),
          AuxAgree n lo hi aux aux' → (bal = true → junk = []) → (∀ br ∈ S, pa ≤ br.pc ∧ br.pc ≤ pb) →
          ((∀ acc', succ r acc' = acc') → Big2 c prog nS (.fail (S ++ X)) acc) →
          Big2 c prog nS (.run next r.ix (unview r.slots ++ aux') (junk ++ astk) (S ++ X)) (succ r acc)) →
      Big2 c prog nS (.run h st.ix (unview st.slots ++ aux) astk X)
        ((repLoop body lo' none true fuel count st).foldr succ failA) := by
  intro fuel
  induction fuel with
  | zero => intro st aux astk X succ failA count _ _ _ _ hfuel; omega
  | succ fuel ih =>
    intro st aux astk X succ failA count hg hl hpar hlo hfuel hf hs
    obtain ⟨G, hG, hrl⟩ := repLoop_unfold (fuel := fuel) true (st := st) hadv hlo
    simp only [↓reduceIte] at hrl
    rw [hrl] at hf hs ⊢
    rw [List.foldr_append, foldr_flatMap]
    have hstep : sstep c prog nS h st.ix (unview st.slots ++ aux) astk X =
        some (.run bs st.ix (unview st.slots ++ aux) astk (⟨next, st.ix, unview st.slots ++ aux, astk⟩ :: X)) := by
      simp [sstep, hsplit]
    apply Big2.step _ _ _ _ _ _ _ hstep
    simp only [List.foldr_cons, List.foldr_nil]
    apply hbody st aux astk (⟨next, st.ix, unview st.slots ++ aux, astk⟩ :: X) (fun r acc => (G r).foldr succ acc)
      (succ st failA) hg hl (SuccOK.ofPar (hpar.foldr G))
    · -- failing into the pushed branch leaves the loop (only reached if all iterations pass through)
      intro hpI
      have hpI' : ∀ acc, ((body st).flatMap G).foldr succ acc = acc := by
        intro acc; rw [foldr_flatMap]; exact hpI acc
      apply Big2.failPop
      have := hs ((body st).flatMap G) st [] rfl hpI' aux [] [] failA (AuxAgree.refl _ _ _ _) (fun _ => rfl) (by simp)
        (fun hp => by
          have := hf (fun acc => by rw [List.foldr_append, hpI']; simpa using hp acc)
          simpa using this)
      simpa using this
    · intro l1 r l2 hsp hpass aux1 junk1 S acc hag1 hb1 hS1 hacc
      have hr : r ∈ body st := by rw [hsp]; simp
      have hadvr := hadv st r hr
      have hgr := hkg st r hg hr
      have hl1 : n + aux1.length = nS := by rw [hag1.1]; exact hl
      have hGr := hG r hr
      simp only [hGr] at hacc ⊢
      apply hflow
      apply ih r aux1 (junk1 ++ astk) (S ++ ⟨next, st.ix, unview st.slots ++ aux, astk⟩ :: X) succ acc (count + 1)
        hgr hl1 hpar (by omega) (by have := hgr.ix; omega) hacc
      intro m1 q m2 hsp2 hpass2 aux2 junk2 S2 acc2 hag2 hb2 hS2 hacc2
      have hsplit2 : (body st).flatMap G ++ [st] =
          (l1.flatMap G ++ m1) ++ q :: ((m2 ++ l2.flatMap G) ++ [st]) := by
        rw [flatMap_split hsp (hGr.trans hsp2)]; simp [List.append_assoc]
      have := hs (l1.flatMap G ++ m1) q ((m2 ++ l2.flatMap G) ++ [st]) hsplit2 (flatMap_pass hpass hpass2)
        aux2 (junk2 ++ junk1) (S2 ++ S ++ [⟨next, st.ix, unview st.slots ++ aux, astk⟩]) acc2
        (hag1.trans' hag2)
        (fun hb => by rw [hb1 hb, hb2 hb]; rfl)
        (fun br hbr => by
          rcases List.mem_append.mp hbr with h' | h'
          · rcases List.mem_append.mp h' with h'' | h''
            · exact hS2 br h''
            · have := hS1 br h''; omega
          · simp only [List.mem_singleton] at h'; subst h'; exact ⟨hr3, hr4⟩)
        (fun hp => by simpa [List.append_assoc] using hacc2 hp)
      simpa [List.append_assoc] using this

/-- unbounded lazy loop with head `h`: `h: Split(next, bs)`. Everything left on the branch stack lies
    in `[pa, pb]`, an address range that contains the body's range `[bs, e]`. -/
theorem loop2_lazy {c : Ctx} {n nS : Nat} {prog : List Insn} {lo hi : Nat} {bal : Bool} {body : St → List St}
    {h bs e next lo' pa pb : Nat}
    (hsplit : prog[h]? = some (.split next bs))
    (hbody : Sim2 c n nS prog lo hi bal false body bs e)
    (hflow : ∀ ix slots astk X a, Big2 c prog nS (.run h ix slots astk X) a → Big2 c prog nS (.run e ix slots astk X) a)
    (hadv : Advances body) (hkg : KeepsGood c n body)
    (hr1 : pa ≤ bs) (hr2 : e ≤ pb) (hr3 : bs ≤ pb) :
    ∀ (fuel : Nat) (st : St) (aux astk : List Nat) (X : List SBranch) (succ : St → Ans → Ans) (failA : Ans)
      (count : Nat),
      st.Good c n → n + aux.length = nS → Par succ → lo' ≤ count → c.len - st.ix < fuel →
      ((∀ acc, (repLoop body lo' none false fuel count st).foldr succ acc = acc) → Big2 c prog nS (.fail X) failA) →
      (∀ l1 r l2, repLoop body lo' none false fuel count st = l1 ++ r :: l2 → (∀ acc, l1.foldr succ acc = acc) →
        ∀ (aux' junk : List Nat) (S : List SBranch) (acc : Ans),
          AuxAgree n lo hi aux aux' → (bal = true → junk = []) → (∀ br ∈ S, pa ≤ br.pc ∧ br.pc ≤ pb) →
          ((∀ acc', succ r acc' = acc') → Big2 c prog nS (.fail (S ++ X)) acc) →
          Big2 c prog nS (.run next r.ix (unview r.slots ++ aux') (junk ++ astk) (S ++ X)) (succ r acc)) →
      Big2 c prog nS (.run h st.ix (unview st.slots ++ aux) astk X)
        ((repLoop body lo' none false fuel count st).foldr succ failA) := by
  intro fuel
  induction fuel with
  | zero => intro st aux astk X succ failA count _ _ _ _ hfuel; omega
  | succ fuel ih =>
    intro st aux astk X succ failA count hg hl hpar hlo hfuel hf hs
    obtain ⟨G, hG, hrl⟩ := repLoop_unfold (fuel := fuel) false (st := st) hadv hlo
    simp only [Bool.false_eq_true, ↓reduceIte] at hrl
    rw [hrl] at hf hs ⊢
    simp only [List.foldr_cons]
    rw [foldr_flatMap]
    have hstep : sstep c prog nS h st.ix (unview st.slots ++ aux) astk X =
        some (.run next st.ix (unview st.slots ++ aux) astk (⟨bs, st.ix, unview st.slots ++ aux, astk⟩ :: X)) := by
      simp [sstep, hsplit]
    apply Big2.step _ _ _ _ _ _ _ hstep
    have := hs [] st ((body st).flatMap G) rfl (fun _ => rfl) aux []
      [⟨bs, st.ix, unview st.slots ++ aux, astk⟩]
      ((body st).foldr (fun r acc => (G r).foldr succ acc) failA)
      (AuxAgree.refl _ _ _ _) (fun _ => rfl)
      (fun br hbr => by simp only [List.mem_singleton] at hbr; subst hbr; exact ⟨hr1, hr3⟩)
      (fun hp => by
        show Big2 c prog nS (.fail (⟨bs, st.ix, unview st.slots ++ aux, astk⟩ :: X)) _
        apply Big2.failPop
        apply hbody st aux astk X (fun r acc => (G r).foldr succ acc) failA hg hl (SuccOK.ofPar (hpar.foldr G))
          (fun hpI => hf (fun acc => by simp only [List.foldr_cons]; rw [hp, foldr_flatMap]; exact hpI acc))
        intro l1 r l2 hsp hpass aux1 junk1 S acc hag1 hb1 hS1 hacc
        have hr : r ∈ body st := by rw [hsp]; simp
        have hadvr := hadv st r hr
        have hgr := hkg st r hg hr
        have hl1 : n + aux1.length = nS := by rw [hag1.1]; exact hl
        have hGr := hG r hr
        simp only [hGr] at hacc ⊢
        apply hflow
        apply ih r aux1 (junk1 ++ astk) (S ++ X) succ acc (count + 1)
          hgr hl1 hpar (by omega) (by have := hgr.ix; omega) hacc
        intro m1 q m2 hsp2 hpass2 aux2 junk2 S2 acc2 hag2 hb2 hS2 hacc2
        have hsplit2 : st :: (body st).flatMap G = (st :: (l1.flatMap G ++ m1)) ++ q :: (m2 ++ l2.flatMap G) := by
          rw [flatMap_split hsp (hGr.trans hsp2)]; rfl
        have := hs (st :: (l1.flatMap G ++ m1)) q (m2 ++ l2.flatMap G) hsplit2
          (fun acc => by simp only [List.foldr_cons]; rw [flatMap_pass hpass hpass2, hp])
          aux2 (junk2 ++ junk1) (S2 ++ S) acc2
          (hag1.trans' hag2)
          (fun hb => by rw [hb1 hb, hb2 hb]; rfl)
          (fun br hbr => by
            rcases List.mem_append.mp hbr with h' | h'
            · exact hS2 br h'
            · have := hS1 br h'; omega)
          (fun hp2 => by simpa [List.append_assoc] using hacc2 hp2)
        simpa [List.append_assoc] using this)
    simpa using this

/-! ## `*` and `+` -/

/-- `e*` / `e*?`: `pc: Split(pc+1, m+1)` (greedy) or `Split(m+1, pc+1)` (lazy); body at `[pc+1, m)`;
    `m: Jmp pc` -/
theorem sim2_star {c : Ctx} {n nS : Nat} {prog : List Insn} {lo hi : Nat} {bal cm : Bool} {e : Expr} {pc m : Nat}
    {greedy : Bool}
    (hsplit : prog[pc]? = some (if greedy then .split (pc + 1) (m + 1) else .split (m + 1) (pc + 1)))
    (hjmp : prog[m]? = some (.jmp pc))
    (hbody : Sim2 c n nS prog lo hi bal false (sem c e) (pc + 1) m)
    (hw : wellShaped e = true) (hm : 0 < minSize e) (hpm : pc + 1 ≤ m) :
    Sim2 c n nS prog lo hi bal cm (sem c (.repeat e 0 none greedy)) pc (m + 1) := by
  have hadv := advances_of_minSize c e hw hm
  have hkg := keepsGood_sem c n e
  have hflow : ∀ ix slots astk X a, Big2 c prog nS (.run pc ix slots astk X) a →
      Big2 c prog nS (.run m ix slots astk X) a := by
    intro ix slots astk X a hb
    exact Big2.step _ _ _ _ _ _ _ (by simp [sstep, hjmp]) hb
  intro st aux astk X succ failA hg hl hsucc hf hs
  simp only [sem] at hf hs ⊢
  cases greedy with
  | true =>
    exact loop2_greedy (lo' := 0) (pa := pc) (pb := m + 1) (by simpa using hsplit) hbody hflow hadv hkg
      (by omega) (by omega) (by omega) (by omega) _ st aux astk X succ failA 0
      hg hl hsucc.par (Nat.le_refl _) (by simp; omega) hf hs
  | false =>
    exact loop2_lazy (lo' := 0) (pa := pc) (pb := m + 1) (by simpa using hsplit) hbody hflow hadv hkg
      (by omega) (by omega) (by omega) _ st aux astk X succ failA 0
      hg hl hsucc.par (Nat.le_refl _) (by simp; omega) hf hs

/-- `e+` / `e+?`: body at `[pc, m)`; `m: Split(pc, m+1)` (greedy) or `Split(m+1, pc)` (lazy) -/
theorem sim2_plus {c : Ctx} {n nS : Nat} {prog : List Insn} {lo hi : Nat} {bal cm : Bool} {e : Expr} {pc m : Nat}
    {greedy : Bool}
    (hsplit : prog[m]? = some (if greedy then .split pc (m + 1) else .split (m + 1) pc))
    (hbody : Sim2 c n nS prog lo hi bal false (sem c e) pc m)
    (hw : wellShaped e = true) (hm : 0 < minSize e) (hpm : pc ≤ m) :
    Sim2 c n nS prog lo hi bal cm (sem c (.repeat e 1 none greedy)) pc (m + 1) := by
  have hadv := advances_of_minSize c e hw hm
  have hkg := keepsGood_sem c n e
  intro st aux astk X succ failA hg hl hsucc hf hs
  rw [sem_plus] at hf hs ⊢
  rw [foldr_flatMap]
  apply hbody st aux astk X (fun r acc => (repLoop (sem c e) 1 none greedy (c.len + 2) 1 r).foldr succ acc) failA hg hl
    (SuccOK.ofPar (hsucc.par.foldr _))
    (fun hp => hf (fun acc => by rw [foldr_flatMap]; exact hp acc))
  intro l1 r1 l2 hsp1 hpass1 aux1 junk1 S1 acc1 hag1 hb1 hS1 hf1
  have hr1 : r1 ∈ sem c e st := by rw [hsp1]; simp
  have hl1 : n + aux1.length = nS := by rw [hag1.1]; exact hl
  have hg1 := hkg st r1 hg hr1
  have hcont : ∀ m1 r2 m2, repLoop (sem c e) 1 none greedy (c.len + 2) 1 r1 = m1 ++ r2 :: m2 →
      (∀ acc, m1.foldr succ acc = acc) →
      ∀ (aux' junk : List Nat) (S : List SBranch) (acc : Ans),
        AuxAgree n lo hi aux1 aux' → (bal = true → junk = []) → (∀ br ∈ S, pc ≤ br.pc ∧ br.pc ≤ m + 1) →
        ((∀ acc', succ r2 acc' = acc') → Big2 c prog nS (.fail (S ++ (S1 ++ X))) acc) →
        Big2 c prog nS (.run (m + 1) r2.ix (unview r2.slots ++ aux') (junk ++ (junk1 ++ astk)) (S ++ (S1 ++ X)))
          (succ r2 acc) := by
    intro m1 r2 m2 hsp2 hpass2 aux2 junk2 S2 acc2 hag2 hb2 hS2 hf2
    have := hs (l1.flatMap _ ++ m1) r2 (m2 ++ l2.flatMap _) (flatMap_split hsp1 hsp2) (flatMap_pass hpass1 hpass2)
      aux2 (junk2 ++ junk1) (S2 ++ S1) acc2
      (hag1.trans' hag2)
      (fun hb => by rw [hb1 hb, hb2 hb]; rfl)
      (fun br hbr => by
        rcases List.mem_append.mp hbr with h | h
        · exact hS2 br h
        · have := hS1 br h; omega)
      (fun hp => by simpa [List.append_assoc] using hf2 hp)
    simpa [List.append_assoc] using this
  cases greedy with
  | true =>
    exact loop2_greedy (lo' := 1) (pa := pc) (pb := m + 1) (by simpa using hsplit) hbody (fun _ _ _ _ _ hb => hb)
      hadv hkg (Nat.le_refl _) (by omega) (by omega) (Nat.le_refl _) _ r1 aux1 (junk1 ++ astk) (S1 ++ X) succ acc1 1
      hg1 hl1 hsucc.par (Nat.le_refl _) (by omega) hf1 hcont
  | false =>
    exact loop2_lazy (lo' := 1) (pa := pc) (pb := m + 1) (by simpa using hsplit) hbody (fun _ _ _ _ _ hb => hb)
      hadv hkg (Nat.le_refl _) (by omega) (by omega) _ r1 aux1 (junk1 ++ astk) (S1 ++ X) succ acc1 1
      hg1 hl1 hsucc.par (Nat.le_refl _) (by omega) hf1 hcont

/-! ## Literal runs -/

/-- `compile_delegates` of an all-literal run is a single `Lit` (or nothing) and simulates the run -/
theorem sim2_literal_run (c : Ctx) (n nS : Nat) (prog : List Insn) (lo hi : Nat) (bal cm : Bool) (es : List Expr)
    (gix a : Nat) (hl : isLiteralAll es = true) (hc : CodeAt prog a (compileDelegates es gix)) :
    Sim2 c n nS prog lo hi bal cm (semConcat c es) a (a + (compileDelegates es gix).length) := by
  unfold compileDelegates at hc ⊢
  by_cases he : es.isEmpty = true
  · simp only [he, ↓reduceIte, List.length_nil, Nat.add_zero]
    have : es = [] := by simpa using he
    subst this
    exact (Sim2.nil c n nS prog lo hi bal cm a).congr (fun st => by simp [semConcat])
  · simp only [he, Bool.false_eq_true, ↓reduceIte, hl, List.length_cons, List.length_nil, Nat.zero_add] at hc ⊢
    have := sim2_lit c n nS prog lo hi bal cm a (pushLiteralAll es) hc.head
    exact this.congr (fun st => (semConcat_isLiteralAll c es hl st).symm)

theorem sim2_delegates_run (c : Ctx) (n nS : Nat) (prog : List Insn) (lo hi : Nat) (bal cm : Bool) (es : List Expr)
    (gix a : Nat) (hn : noDeleg (compileDelegates es gix) = true) (hc : CodeAt prog a (compileDelegates es gix)) :
    Sim2 c n nS prog lo hi bal cm (semConcat c es) a (a + (compileDelegates es gix).length) := by
  rcases compileDelegates_noDeleg es gix hn with he | hl
  · have : es = [] := by simpa using he
    subst this
    simpa [compileDelegates, semConcat] using
      (Sim2.nil c n nS prog lo hi bal cm a).congr (fun st => by simp [semConcat])
  · exact sim2_literal_run c n nS prog lo hi bal cm es gix a hl hc

/-- a literal sub-tree compiled by `compile_delegate` (the non-hard-context case): one `Lit` -/
theorem sim2_isLiteral (c : Ctx) (n nS : Nat) (prog : List Insn) (lo hi : Nat) (bal cm : Bool) (e : Expr) (a : Nat)
    (hl : isLiteral e = true) (h : prog[a]? = some (.lit (pushLiteral e))) :
    Sim2 c n nS prog lo hi bal cm (sem c e) a (a + 1) :=
  (sim2_lit c n nS prog lo hi bal cm a (pushLiteral e) h).congr (fun st => (sem_isLiteral c e hl st).symm)


/-! ## The hypotheses are satisfiable: concrete programs -/

/-- `(.)` as group 1 with 4 capture slots and 2 auxiliary slots: `Save 2; Any; Save 3` -/
example (c : Ctx) (bal cm : Bool) :
    Sim2 c 4 6 [.save 2, .any, .save 3] 4 6 bal cm (sem c (.group 1 (.any true))) 0 3 :=
  sim2_group (g := 1) (a := 0) (b := 2) (by simp) (by simp)
    (sim2_any c 4 6 _ 4 6 bal false 1 (by simp)) (by omega) (by omega)

/-- `.?` and `.??` -/
example (c : Ctx) (bal cm : Bool) :
    Sim2 c 2 3 [.split 1 2, .any] 2 3 bal cm (fun st => sem c (.any true) st ++ [st]) 0 2 :=
  Sim2.optG (a := 0) (b := 2) (by simp) (sim2_any c 2 3 _ 2 3 bal cm 1 (by simp)) (by omega)

example (c : Ctx) (bal cm : Bool) :
    Sim2 c 2 3 [.split 2 1, .any] 2 3 bal cm (fun st => st :: sem c (.any true) st) 0 2 :=
  Sim2.optL (a := 0) (b := 2) (by simp) (sim2_any c 2 3 _ 2 3 bal cm 1 (by simp)) (by omega)

/-- `.*` and `.*?`: `Split(1,3); Any; Jmp 0` -/
example (c : Ctx) (bal cm : Bool) :
    Sim2 c 2 3 [.split 1 3, .any, .jmp 0] 2 3 bal cm (sem c (.repeat (.any true) 0 none true)) 0 3 :=
  sim2_star (pc := 0) (m := 2) (greedy := true) (by simp) (by simp) (sim2_any c 2 3 _ 2 3 bal false 1 (by simp))
    (by simp [wellShaped]) (by simp [minSize]) (by omega)

example (c : Ctx) (bal cm : Bool) :
    Sim2 c 2 3 [.split 3 1, .any, .jmp 0] 2 3 bal cm (sem c (.repeat (.any true) 0 none false)) 0 3 :=
  sim2_star (pc := 0) (m := 2) (greedy := false) (by simp) (by simp) (sim2_any c 2 3 _ 2 3 bal false 1 (by simp))
    (by simp [wellShaped]) (by simp [minSize]) (by omega)

/-- `.+` and `.+?`: `Any; Split(0,2)` -/
example (c : Ctx) (bal cm : Bool) :
    Sim2 c 2 3 [.any, .split 0 2] 2 3 bal cm (sem c (.repeat (.any true) 1 none true)) 0 2 :=
  sim2_plus (pc := 0) (m := 1) (greedy := true) (by simp) (sim2_any c 2 3 _ 2 3 bal false 0 (by simp))
    (by simp [wellShaped]) (by simp [minSize]) (by omega)

example (c : Ctx) (bal cm : Bool) :
    Sim2 c 2 3 [.any, .split 2 0] 2 3 bal cm (sem c (.repeat (.any true) 1 none false)) 0 2 :=
  sim2_plus (pc := 0) (m := 1) (greedy := false) (by simp) (sim2_any c 2 3 _ 2 3 bal false 0 (by simp))
    (by simp [wellShaped]) (by simp [minSize]) (by omega)

/-- the literal run `ab` compiled by `compile_delegates` -/
example (c : Ctx) (bal cm : Bool) :
    Sim2 c 2 2 (compileDelegates [.literal ['a'] false, .literal ['b'] false] 0) 2 2 bal cm
      (semConcat c [.literal ['a'] false, .literal ['b'] false]) 0
      (0 + (compileDelegates [.literal ['a'] false, .literal ['b'] false] 0).length) :=
  sim2_delegates_run c 2 2 _ 2 2 bal cm _ 0 0 (by simp [compileDelegates, isLiteralAll, isLiteral, noDeleg, Insn.isDelegate])
    ⟨[], [], by simp, rfl⟩

example (c : Ctx) (bal cm : Bool) :
    Sim2 c 2 2 [.lit ['a', 'b']] 2 2 bal cm (sem c (.concat [.literal ['a'] false, .literal ['b'] false])) 0 1 :=
  sim2_isLiteral c 2 2 _ 2 2 bal cm _ 0 (by simp [isLiteral, isLiteralAll])
    (by simp [pushLiteral, pushLiteralAll])

/-- back-reference to group 1 and group test, 4 capture slots -/
example (c : Ctx) (bal cm : Bool) (hlen : c.len < UNSET) :
    Sim2 c 4 4 [.backref 2, .backrefExists 1] 4 4 bal cm
      (fun st => (sem c (.backref 1) st).flatMap (sem c (.backrefExists 1))) 0 2 :=
  Sim2.seqSame (m := 1) (sim2_backref c 4 4 _ 4 4 bal false 0 1 hlen (by simp) (by omega))
    (sim2_backrefExists c 4 4 _ 4 4 bal cm 1 1 hlen (by simp) (by omega)) (keepsGood_sem c 4 _) (by omega) (by omega)

/-- the remaining leaves on a concrete program -/
example (c : Ctx) (bal cm : Bool) :
    Sim2 c 2 3 [.anyNoNL, .assertion .wordB, .lit ['x'], .contPrev, .goBack 2, .save 0, .jmp 9] 2 3 bal cm
      (sem c (.any false)) 0 1 ∧
    Sim2 c 2 3 [.anyNoNL, .assertion .wordB, .lit ['x'], .contPrev, .goBack 2, .save 0, .jmp 9] 2 3 bal cm
      (sem c (.assertion .wordB)) 1 2 ∧
    Sim2 c 2 3 [.anyNoNL, .assertion .wordB, .lit ['x'], .contPrev, .goBack 2, .save 0, .jmp 9] 2 3 bal cm
      (sem c .contPrev) 3 4 ∧
    Sim2 c 2 3 [.anyNoNL, .assertion .wordB, .lit ['x'], .contPrev, .goBack 2, .save 0, .jmp 9] 2 3 bal cm
      (fun st => if 2 ≤ st.ix then [{ st with ix := st.ix - 2 }] else []) 4 5 ∧
    Sim2 c 2 3 [.anyNoNL, .assertion .wordB, .lit ['x'], .contPrev, .goBack 2, .save 0, .jmp 9] 2 3 bal cm
      (fun st => [st.setSlot 0 (some st.ix)]) 5 6 ∧
    Sim2 c 2 3 [.anyNoNL, .assertion .wordB, .lit ['x'], .contPrev, .goBack 2, .save 0, .jmp 9] 2 3 bal cm
      (fun st => [st]) 6 9 :=
  ⟨sim2_anyNoNL c 2 3 _ 2 3 bal cm 0 (by simp), sim2_assertion c 2 3 _ 2 3 bal cm 1 _ (by simp),
    sim2_contPrev c 2 3 _ 2 3 bal cm 3 (by simp), sim2_goBack c 2 3 _ 2 3 bal cm 4 2 (by simp),
    sim2_save c 2 3 _ 2 3 bal cm 5 0 (by simp) (by omega), sim2_jmp c 2 3 _ 2 3 bal cm 6 9 (by simp)⟩

end Fancy
