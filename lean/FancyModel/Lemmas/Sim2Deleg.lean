import FancyModel.Lemmas.Sim2
import FancyModel.Lemmas.Sim2Cond
import FancyModel.Lemmas.DelegSpec
import FancyModel.Lemmas.Sim2Core
/-!
# Simulation rules for the `Delegate` instruction (engine refinement, stage S3)

`Delegate es sg eg` yields only the *first* result of the delegated expressions (assumption A-RA:
`delegateOracle`). `delegate_step_spec` (Lemmas/DelegSpec.lean) says what that step is in terms of the
reference semantics from the current state. Three situations in which one result is enough:

* `sim2_delegate_first`: the semantics asked for is `firstOnly` (the body of a look-around in its
  plain layout) — any continuation;
* `sim2_delegate_commit`: the continuation commits (`cm = true`): non-hard contexts, where the
  compiler hands whole sub-trees and trailing easy runs to the automata engine;
* `sim2_delegate_same`: all results of the piece are the same state (a group-free constant-size
  piece in a hard context) — parametric continuations.
-/
namespace Fancy

/-- the machine step of a `Delegate`, in terms of the first reference result from the current state -/
theorem sstep_delegate {c : Ctx} {n nS : Nat} {prog : List Insn} {a sg eg : Nat} {es : List Expr}
    (h : prog[a]? = some (.delegate es sg eg)) (hlen : c.len < UNSET) (hp : pureAll es = true)
    (hgi : groupsIn sg eg es = true) (hn : eg * 2 ≤ n)
    (st : St) (aux astk : List Nat) (X : List SBranch) (hg : st.Good c n) :
    (semConcat c es st = [] → sstep c prog nS a st.ix (unview st.slots ++ aux) astk X = some (.fail X)) ∧
    (∀ r rest, semConcat c es st = r :: rest →
      sstep c prog nS a st.ix (unview st.slots ++ aux) astk X = some (.run (a + 1) r.ix (unview r.slots ++ aux) astk X)) := by
  obtain ⟨h1, h2⟩ := delegate_step_spec c n es sg eg st aux hg hlen hp hgi hn
  constructor
  · intro hnil
    have := h1.mpr hnil
    simp [sstep, h, this]
  · intro r rest hl
    obtain ⟨r0, ho, hix, hcopy⟩ := h2 r rest hl
    simp only [sstep, h, ho]
    by_cases hsg : (sg == eg) = true
    · simp only [hsg, ↓reduceIte] at hcopy ⊢
      rw [hix, hcopy]
    · simp only [hsg, Bool.false_eq_true, ↓reduceIte] at hcopy ⊢
      rw [hcopy, hix]

theorem firstOnly_cons (r : St) (rest : List St) : firstOnly (r :: rest) = [r] := rfl
theorem firstOnly_nil : firstOnly ([] : List St) = [] := rfl

/-- the first result only: any continuation -/
theorem sim2_delegate_first {c : Ctx} {n nS : Nat} {prog : List Insn} {lo hi : Nat} {bal cm : Bool} {a sg eg : Nat}
    {es : List Expr} (h : prog[a]? = some (.delegate es sg eg)) (hlen : c.len < UNSET) (hp : pureAll es = true)
    (hgi : groupsIn sg eg es = true) (hn : eg * 2 ≤ n) :
    Sim2 c n nS prog lo hi bal cm (fun st => firstOnly (semConcat c es st)) a (a + 1) := by
  intro st aux astk X succ failA hg hl hsucc hf hs
  obtain ⟨h1, h2⟩ := sstep_delegate (nS := nS) h hlen hp hgi hn st aux astk X hg
  cases hsem : semConcat c es st with
  | nil =>
    simp only [hsem, firstOnly_nil, List.foldr_nil] at hf ⊢
    exact Big2.step _ _ _ _ _ _ _ (h1 hsem) (hf (fun _ => trivial))
  | cons r rest =>
    simp only [hsem, firstOnly_cons, List.foldr_cons, List.foldr_nil] at hf hs ⊢
    apply Big2.step _ _ _ _ _ _ _ (h2 r rest hsem)
    have := hs [] r [] rfl (fun _ => rfl) aux [] [] failA (AuxAgree.refl _ _ _ _) (fun _ => rfl) (by simp)
      (fun hp' => by simpa using hf (by simpa using hp'))
    simpa using this

/-- a committing continuation never comes back for the other results -/
theorem sim2_delegate_commit {c : Ctx} {n nS : Nat} {prog : List Insn} {lo hi : Nat} {bal : Bool} {a sg eg : Nat}
    {es : List Expr} (h : prog[a]? = some (.delegate es sg eg)) (hlen : c.len < UNSET) (hp : pureAll es = true)
    (hgi : groupsIn sg eg es = true) (hn : eg * 2 ≤ n) :
    Sim2 c n nS prog lo hi bal true (semConcat c es) a (a + 1) := by
  intro st aux astk X succ failA hg hl hsucc hf hs
  have hcommit : Commit succ := by simpa [SuccOK] using hsucc
  obtain ⟨h1, h2⟩ := sstep_delegate (nS := nS) h hlen hp hgi hn st aux astk X hg
  cases hsem : semConcat c es st with
  | nil =>
    simp only [hsem, List.foldr_nil] at hf ⊢
    exact Big2.step _ _ _ _ _ _ _ (h1 hsem) (hf (fun _ => trivial))
  | cons r rest =>
    simp only [hsem, List.foldr_cons] at hf hs ⊢
    apply Big2.step _ _ _ _ _ _ _ (h2 r rest hsem)
    have := hs [] r rest rfl (fun _ => rfl) aux [] [] (rest.foldr succ failA) (AuxAgree.refl _ _ _ _) (fun _ => rfl) (by simp)
      (fun hp' => by
        exfalso
        apply Sim2Cond.not_pass_const (succ r .noMatch)
        intro acc
        rw [← hp' acc]
        exact hcommit r _ _)
    simpa using this

/-- all results of the piece are one and the same state: the first one stands for all of them -/
theorem sim2_delegate_same {c : Ctx} {n nS : Nat} {prog : List Insn} {lo hi : Nat} {bal cm : Bool} {a sg eg : Nat}
    {es : List Expr} (h : prog[a]? = some (.delegate es sg eg)) (hlen : c.len < UNSET) (hp : pureAll es = true)
    (hgi : groupsIn sg eg es = true) (hn : eg * 2 ≤ n)
    (hsame : ∀ st, st.Good c n → ∀ r q, r ∈ semConcat c es st → q ∈ semConcat c es st → r = q) :
    Sim2 c n nS prog lo hi bal cm (semConcat c es) a (a + 1) := by
  intro st aux astk X succ failA hg hl hsucc hf hs
  have hpar : Par succ := hsucc.par
  obtain ⟨h1, h2⟩ := sstep_delegate (nS := nS) h hlen hp hgi hn st aux astk X hg
  cases hsem : semConcat c es st with
  | nil =>
    simp only [hsem, List.foldr_nil] at hf ⊢
    exact Big2.step _ _ _ _ _ _ _ (h1 hsem) (hf (fun _ => trivial))
  | cons r rest =>
    have hall : ∀ q ∈ rest, q = r := fun q hq =>
      (hsame st hg r q (by rw [hsem]; simp) (by rw [hsem]; simp [hq])).symm
    simp only [hsem, List.foldr_cons] at hf hs ⊢
    apply Big2.step _ _ _ _ _ _ _ (h2 r rest hsem)
    -- if the continuation passes the failure through on `r`, it does so on every later (equal) result
    have hrest : (∀ acc', succ r acc' = acc') → ∀ acc, rest.foldr succ acc = acc := by
      intro hp' acc
      clear hsem hs hf h2
      induction rest with
      | nil => rfl
      | cons q qs ih =>
        have hq : q = r := hall q (by simp)
        simp only [List.foldr_cons]
        rw [ih (fun x hx => hall x (by simp [hx])), hq, hp']
    have := hs [] r rest rfl (fun _ => rfl) aux [] [] (rest.foldr succ failA) (AuxAgree.refl _ _ _ _) (fun _ => rfl) (by simp)
      (fun hp' => by
        rw [hrest hp' failA]
        simpa using hf (fun acc => by rw [hp', hrest hp' acc]))
    simpa using this

end Fancy

namespace Fancy

/-- a capture group whose body is only correct under the group's own continuation class (`cm`): the
    closing `Save` always succeeds with one result, so the class is kept (`Sim2.seqTotal`) -/
theorem sim2_group_cm {c : Ctx} {n nS : Nat} {prog : List Insn} {lo hi : Nat} {bal cm : Bool} {e : Expr} {a b g : Nat}
    (h1 : prog[a]? = some (.save (g * 2))) (h2 : prog[b]? = some (.save (g * 2 + 1)))
    (hbody : Sim2 c n nS prog lo hi bal cm (sem c e) (a + 1) b) (hgn : 2 * g + 1 < n) (hab : a + 1 ≤ b)
    (hlh : lo ≤ hi) :
    Sim2 c n nS prog lo hi bal cm (sem c (.group g e)) a (b + 1) := by
  have hmul : g * 2 = 2 * g := Nat.mul_comm _ _
  rw [hmul] at h1 h2
  have s1 := sim2_save c n nS prog lo lo bal false a (2 * g) h1 (by omega)
  have s3 := sim2_save c n nS prog hi hi bal cm b (2 * g + 1) h2 hgn
  have k1 : KeepsGood c n (fun st => [st.setSlot (2 * g) (some st.ix)]) := by
    intro st r hg hr
    simp only [List.mem_singleton] at hr; subst hr
    exact hg.setSlot _ _ hg.ix
  have k2 : KeepsGood c n (fun st => ([st.setSlot (2 * g) (some st.ix)]).flatMap (sem c e)) := by
    intro st r hg hr
    simp only [List.flatMap_cons, List.flatMap_nil, List.append_nil] at hr
    exact sem_good c n e _ r (hg.setSlot _ _ hg.ix) hr
  have s12 := s1.seq hbody k1 (Nat.le_refl _) hlh (by omega) hab
  have := Sim2.seqTotal (g1 := fun st => st.setSlot (2 * g + 1) (some st.ix)) s12 s3 k2 hlh (Nat.le_refl _) (by omega) (by omega)
  apply this.congr
  intro st
  simp only [sem, List.flatMap_cons, List.flatMap_nil, List.append_nil]
  induction sem c e (st.setSlot (2 * g) (some st.ix)) with
  | nil => rfl
  | cons x xs ih => simp [ih]

end Fancy
