import FancyModel.Proofs.C02
/-!
# Reference results stay inside the text

`St.Good c n st`: the position is `≤ len`, the slot vector has length `n`, and every recorded
offset is `≤ len`. Every result of every expression from a good state is good (`sem_good`): the
reference semantics never reports an offset outside the text — the specification-side half of C05's
"every reported offset is valid", and the invariant the simulation proof needs to identify machine
slot vectors (with their unset sentinel) and semantic slots.
-/
namespace Fancy

structure St.Good (c : Ctx) (n : Nat) (st : St) : Prop where
  ix : st.ix ≤ c.len
  len : st.slots.length = n
  vals : ∀ v, some v ∈ st.slots → v ≤ c.len

theorem St.Good.withIx {c : Ctx} {n : Nat} {st : St} (h : st.Good c n) (k : Nat) (hk : k ≤ c.len) :
    ({ st with ix := k } : St).Good c n := ⟨hk, h.len, h.vals⟩

theorem St.Good.setSlot {c : Ctx} {n : Nat} {st : St} (h : st.Good c n) (i v : Nat) (hv : v ≤ c.len) :
    (st.setSlot i (some v)).Good c n := by
  refine ⟨h.ix, by simpa [St.setSlot] using h.len, ?_⟩
  intro w hw
  simp only [St.setSlot] at hw
  rcases List.mem_or_eq_of_mem_set hw with hm | he
  · exact h.vals w hm
  · cases he; exact hv

theorem litAt_le (c : Ctx) (ci : Bool) (val : List Char) (ix : Nat) (h : c.litAt ci val ix = true) (hix : ix ≤ c.len) :
    ix + val.length ≤ c.len := by
  induction val generalizing ix with
  | nil => simpa using hix
  | cons a as ih =>
    simp only [Ctx.litAt] at h
    cases hat : c.at? ix with
    | none => simp [hat] at h
    | some b =>
      simp only [hat, Bool.and_eq_true] at h
      have hlt : ix < c.len := by
        unfold Ctx.at? Ctx.len at *
        rcases Nat.lt_or_ge ix c.text.length with h1 | h1
        · exact h1
        · rw [List.getElem?_eq_none h1] at hat; cases hat
      have := ih (ix + 1) h.2 (by omega)
      simp only [List.length_cons]; omega

theorem at_some_lt (c : Ctx) (ix : Nat) (ch : Char) (h : c.at? ix = some ch) : ix < c.len := by
  unfold Ctx.at? Ctx.len at *
  rcases Nat.lt_or_ge ix c.text.length with h1 | h1
  · exact h1
  · rw [List.getElem?_eq_none h1] at h; cases h

theorem repLoop_good (c : Ctx) (n : Nat) (body : St → List St)
    (hb : ∀ st r, st.Good c n → r ∈ body st → r.Good c n)
    (lo : Nat) (hi : Option Nat) (greedy : Bool) (fuel count : Nat) (st r : St) (hg : st.Good c n)
    (h : r ∈ repLoop body lo hi greedy fuel count st) : r.Good c n := by
  induction fuel generalizing count st r with
  | zero => simp [repLoop] at h
  | succ fuel ih =>
    unfold repLoop at h
    split at h
    · simp only [List.mem_singleton] at h; subst h; exact hg
    · have hiters : ∀ q, q ∈ ((body st).flatMap fun r' =>
            if hi.isNone && decide (lo ≤ count) && r'.ix == st.ix then [r']
            else repLoop body lo hi greedy fuel (count + 1) r') → q.Good c n := by
        intro q hq
        simp only [List.mem_flatMap] at hq
        obtain ⟨r', hr', hmem⟩ := hq
        have h1 := hb st r' hg hr'
        split at hmem
        · simp only [List.mem_singleton] at hmem; subst hmem; exact h1
        · exact ih _ _ _ h1 hmem
      split at h
      · exact hiters r h
      · split at h
        · rcases List.mem_append.mp h with h | h
          · exact hiters r h
          · simp only [List.mem_singleton] at h; subst h; exact hg
        · rcases List.mem_cons.mp h with h | h
          · subst h; exact hg
          · exact hiters r h

theorem behindOne_good (c : Ctx) (n : Nat) (body : St → List St)
    (hb : ∀ st r, st.Good c n → r ∈ body st → r.Good c n) (st r : St) (hg : st.Good c n)
    (h : r ∈ behindOne body st) : r.Good c n := by
  simp only [behindOne, List.mem_flatMap, List.mem_filter] at h
  obtain ⟨k, _, hr, _⟩ := h
  exact hb _ r (hg.withIx _ (by have := hg.ix; omega)) hr

theorem semBehindAlts_good_of (c : Ctx) (n : Nat) (es : List Expr)
    (hsem : ∀ e', e' ∈ es → ∀ st r, st.Good c n → r ∈ sem c e' st → r.Good c n) :
    ∀ st r, st.Good c n → r ∈ semBehindAlts c es st → r.Good c n := by
  induction es with
  | nil => intro st r _ h; simp [semBehindAlts] at h
  | cons e es ih =>
    intro st r hg h
    simp only [semBehindAlts, List.mem_append] at h
    rcases h with h | h
    · exact behindOne_good c n _ (hsem e (by simp)) st r hg h
    · exact ih (fun e' he' => hsem e' (by simp [he'])) st r hg h

theorem semBehind_good_of (c : Ctx) (n : Nat) (e : Expr)
    (hsem : ∀ e', sizeOf e' ≤ sizeOf e → ∀ st r, st.Good c n → r ∈ sem c e' st → r.Good c n) :
    ∀ st r, st.Good c n → r ∈ semBehind c e st → r.Good c n := by
  intro st r hg h
  cases e with
  | alt es =>
    simp only [semBehind] at h
    exact semBehindAlts_good_of c n es (fun e' he' => hsem e' (by
      have := List.sizeOf_lt_of_mem he'
      simp only [Expr.alt.sizeOf_spec]; omega)) st r hg h
  | _ => exact behindOne_good c n _ (hsem _ (Nat.le_refl _)) st r hg (by simpa [semBehind] using h)

mutual
theorem sem_good (c : Ctx) (n : Nat) : ∀ (e : Expr) (st r : St), st.Good c n → r ∈ sem c e st → r.Good c n
  | .empty, st, r, hg, h => by simp [sem] at h; subst h; exact hg
  | .any nl, st, r, hg, h => by
    simp only [sem] at h
    cases hat : c.at? st.ix with
    | none => simp [hat] at h
    | some ch =>
      simp only [hat] at h
      split at h
      · simp at h; subst h; exact hg.withIx _ (by have := at_some_lt c _ _ hat; omega)
      · simp at h
  | .assertion a, st, r, hg, h => by
    simp only [sem] at h; split at h
    · simp at h; subst h; exact hg
    · simp at h
  | .literal val casei, st, r, hg, h => by
    simp only [sem] at h; split at h
    · rename_i hl
      simp at h; subst h
      exact hg.withIx _ (litAt_le c casei val st.ix hl hg.ix)
    · simp at h
  | .concat es, st, r, hg, h => by simp only [sem] at h; exact semConcat_good c n es st r hg h
  | .alt es, st, r, hg, h => by simp only [sem] at h; exact semAlt_good c n es st r hg h
  | .group g e, st, r, hg, h => by
    simp only [sem, List.mem_map] at h
    obtain ⟨r', hr', rfl⟩ := h
    have h1 := sem_good c n e _ r' (hg.setSlot (2 * g) st.ix hg.ix) hr'
    exact h1.setSlot (2 * g + 1) r'.ix h1.ix
  | .look e .ahead, st, r, hg, h => by
    simp only [sem, List.mem_map] at h
    obtain ⟨r', hr', rfl⟩ := h
    exact (sem_good c n e st r' hg (firstOnly_mem _ _ hr')).withIx _ hg.ix
  | .look e .aheadNeg, st, r, hg, h => by
    simp only [sem] at h; split at h
    · simp at h; subst h; exact hg
    · simp at h
  | .look e .behind, st, r, hg, h => by
    simp only [sem, List.mem_map] at h
    obtain ⟨r', hr', rfl⟩ := h
    exact (semBehind_good_of c n e (fun e' _ st r hg hr => sem_good c n e' st r hg hr) st r' hg
      (firstOnly_mem _ _ hr')).withIx _ hg.ix
  | .look e .behindNeg, st, r, hg, h => by
    simp only [sem] at h; split at h
    · simp at h; subst h; exact hg
    · simp at h
  | .repeat e lo hi greedy, st, r, hg, h => by
    simp only [sem] at h
    exact repLoop_good c n (sem c e) (fun st r hg hr => sem_good c n e st r hg hr) lo hi greedy _ 0 st r hg h
  | .delegate inner size casei, st, r, hg, h => by
    simp only [sem, delegateSem] at h
    split at h
    · cases hat : c.at? st.ix with
      | none => simp [hat] at h
      | some ch =>
        simp only [hat] at h
        split at h
        · simp at h; subst h; exact hg.withIx _ (by have := at_some_lt c _ _ hat; omega)
        · simp at h
    · split at h
      · split at h
        · rename_i heq
          simp at h; subst h
          exact hg.withIx _ (by simp at heq; omega)
        · simp at h
      · simp at h
  | .backref g, st, r, hg, h => by
    simp only [sem] at h
    split at h
    · split at h
      · rename_i hc
        simp at h; subst h
        simp only [Bool.and_eq_true, decide_eq_true_eq, Ctx.sameAt] at hc
        exact hg.withIx _ hc.2.1
      · simp at h
    · simp at h
  | .atomic e, st, r, hg, h => by
    simp only [sem] at h
    exact sem_good c n e st r hg (firstOnly_mem _ _ h)
  | .keepOut, st, r, hg, h => by simp [sem] at h; subst h; exact hg.setSlot 0 st.ix hg.ix
  | .contPrev, st, r, hg, h => by
    simp only [sem] at h; split at h
    · simp at h; subst h; exact hg
    · simp at h
  | .backrefExists g, st, r, hg, h => by
    simp only [sem] at h; split at h
    · simp at h; subst h; exact hg
    · simp at h
  | .cond cnd y f, st, r, hg, h => by
    simp only [sem] at h
    split at h
    · rename_i r1 hr1
      exact sem_good c n y r1 r (sem_good c n cnd st r1 hg (List.mem_of_mem_head? hr1)) h
    · exact sem_good c n f st r hg h
  | .subroutine g, st, r, hg, h => by simp [sem] at h
termination_by e => sizeOf e
decreasing_by all_goals (simp_wf; try omega)
theorem semConcat_good (c : Ctx) (n : Nat) : ∀ (es : List Expr) (st r : St), st.Good c n →
    r ∈ semConcat c es st → r.Good c n
  | [], st, r, hg, h => by simp [semConcat] at h; subst h; exact hg
  | e :: es, st, r, hg, h => by
    simp only [semConcat, List.mem_flatMap] at h
    obtain ⟨r1, hr1, hr⟩ := h
    exact semConcat_good c n es r1 r (sem_good c n e st r1 hg hr1) hr
termination_by es => sizeOf es
decreasing_by all_goals (simp_wf; try omega)
theorem semAlt_good (c : Ctx) (n : Nat) : ∀ (es : List Expr) (st r : St), st.Good c n →
    r ∈ semAlt c es st → r.Good c n
  | [], st, r, hg, h => by simp [semAlt] at h
  | e :: es, st, r, hg, h => by
    simp only [semAlt, List.mem_append] at h
    rcases h with h | h
    · exact sem_good c n e st r hg h
    · exact semAlt_good c n es st r hg h
termination_by es => sizeOf es
decreasing_by all_goals (simp_wf; try omega)
end

end Fancy
