import FancyModel.Lemmas.VMBytesRefine
/-!
# The typed-state invariant: shrinking the dynamic hypothesis of `runB_refines`

`TypedState τ len s`: every position slot holds `UNSET` or a value `≤ len`, every undo-log entry of
a position slot likewise, every pending branch resumes at a position `≤ len`.

* `step_typed`: for a well-typed instruction, from a typed state at `ix ≤ len`, under the RESIDUAL
  run-time facts `tameOK` — a `Restore` reads a value `≤ len` (i.e. not an unset slot), at
  `BeginAtomic`/`EndAtomic` the pointer cell of the auxiliary stack points above the ordinary slots,
  a `Delegate`'s group slots exist — the next state is typed and the next position is `≤ len`.
* `stepOK_of_typed`: in a typed state the local precondition `stepOK` of the simulation follows from
  `tameOK`.
* `okLoop_of_tame` / `runB_refines_tame`: the monitor `okLoop` of `runB_refines` follows from the
  smaller monitor `tameLoop` (only the residual facts, along the run); so
  `runB = mapped run` whenever the program is well typed and the code-point run never restores an unset
  slot and keeps the auxiliary-stack discipline.
-/
namespace Fancy
open State Utf8

structure TypedState (τ : Nat → Bool) (len : Nat) (s : State) : Prop where
  saves : ∀ i v, τ i = true → s.saves[i]? = some v → Valid len v
  stack : ∀ b ∈ s.stack, b.ix ≤ len
  log : ∀ e ∈ s.oldsave, τ e.1 = true → Valid len e.2

/-- what a step leaves behind -/
def ResOK (τ : Nat → Bool) (len : Nat) : StepResult → Prop
  | .cont _ ix s => TypedState τ len s ∧ ix ≤ len
  | .fail s => TypedState τ len s
  | .done _ => True

/-- the residual run-time facts -/
def tameOK (τ : Nat → Bool) (nS : Nat) (c : Ctx) (insn : Insn) (s : State) : Bool :=
  match insn with
  | .restore slot => optAll (s.get slot) fun v => decide (v ≤ c.len)
  | .beginAtomic =>
    decide (s.explicitSp = nS) &&
      optAll (if s.saves.length = s.explicitSp then some (s.explicitSp + 1) else s.get s.explicitSp)
        fun sp => decide (nS ≤ sp)
  | .endAtomic =>
    decide (s.explicitSp = nS) && optAll (s.get s.explicitSp) fun p => decide (nS + 1 ≤ p)
  | .delegate _ _ eg => decide (2 * eg ≤ s.saves.length)
  | _ => true

/-- the smaller monitor: the residual facts at every configuration the code-point run visits -/
def tameLoop (c : Ctx) (τ : Nat → Bool) (nS : Nat) (prog : List Insn) (op : VMOpts) : Nat → Nat → Nat → State → Nat → Bool
  | 0, _, _, _, _ => true
  | fuel + 1, pc, ix, s, bt =>
    (match prog[pc]? with | none => true | some insn => tameOK τ nS c insn s) &&
    match step c prog pc ix s with
    | .done _ => true
    | .cont pc' ix' s' => tameLoop c τ nS prog op fuel pc' ix' s' bt
    | .fail s' =>
      if s'.stack.isEmpty then true else
      if bt + 1 > op.backtrackLimit then true else
      match s'.pop with
      | none => true
      | some (s'', pc', ix') => tameLoop c τ nS prog op fuel pc' ix' s'' (bt + 1)

variable {τ : Nat → Bool} {len : Nat}

theorem typed_new (n m : Nat) : TypedState τ len (State.new n m) := by
  refine ⟨?_, ?_, ?_⟩
  · intro i v _ hv
    simp only [State.new] at hv
    obtain ⟨_, rfl⟩ := List.getElem?_eq_some_iff.mp hv
    right; simp
  · intro b hb; simp [State.new] at hb
  · intro e he; simp [State.new] at he

theorem typed_set {saves : List Nat} (h : ∀ i v, τ i = true → saves[i]? = some v → Valid len v) (slot w : Nat)
    (hw : τ slot = true → Valid len w) : ∀ i v, τ i = true → (saves.set slot w)[i]? = some v → Valid len v := by
  intro i v hτ hv
  rw [List.getElem?_set] at hv
  split at hv
  · rename_i heq
    subst heq
    split at hv
    · cases hv; exact hw hτ
    · cases hv
  · exact h i v hτ hv

theorem typed_save {s s' : State} {slot v : Nat} (h : TypedState τ len s) (hv : τ slot = true → Valid len v)
    (hs : s.save slot v = some s') : TypedState τ len s' := by
  unfold State.save at hs
  split at hs
  · cases hs
  · split at hs
    · cases hs
    · rename_i h1 h2
      split at hs
      · simp only [Option.some.injEq] at hs; subst hs
        exact ⟨typed_set h.saves slot v hv, h.stack, h.log⟩
      · simp only [Option.some.injEq] at hs; subst hs
        refine ⟨typed_set h.saves slot v hv, h.stack, ?_⟩
        intro e he hτ
        rcases List.mem_cons.mp he with rfl | he
        · have hlt : slot < s.saves.length := by omega
          exact h.saves slot _ hτ (by simp [List.getElem?_eq_getElem hlt])
        · exact h.log e he hτ

theorem typed_push {s s' : State} {pc ix : Nat} (h : TypedState τ len s) (hix : ix ≤ len)
    (hs : s.push pc ix = .ok s') : TypedState τ len s' := by
  unfold State.push at hs
  split at hs
  · simp only [PushResult.ok.injEq] at hs; subst hs
    refine ⟨h.saves, ?_, h.log⟩
    intro b hb
    rcases List.mem_cons.mp hb with rfl | hb
    · exact hix
    · exact h.stack b hb
  · cases hs

theorem typed_restore : ∀ (n : Nat) (log : List (Nat × Nat)) (saves : List Nat) (l' : List (Nat × Nat)) (sv' : List Nat),
    (∀ e ∈ log, τ e.1 = true → Valid len e.2) → (∀ i v, τ i = true → saves[i]? = some v → Valid len v) →
    State.restore n log saves = some (l', sv') →
    (∀ e ∈ l', τ e.1 = true → Valid len e.2) ∧ (∀ i v, τ i = true → sv'[i]? = some v → Valid len v)
  | 0, log, saves, l', sv', hl, hs, h => by
    simp only [State.restore, Option.some.injEq, Prod.mk.injEq] at h
    obtain ⟨rfl, rfl⟩ := h
    exact ⟨hl, hs⟩
  | n + 1, [], saves, l', sv', _, _, h => by simp [State.restore] at h
  | n + 1, (slot, value) :: log, saves, l', sv', hl, hs, h => by
    simp only [State.restore] at h
    split at h
    · exact typed_restore n log (saves.set slot value) l' sv' (fun e he => hl e (List.mem_cons_of_mem _ he))
        (typed_set hs slot value (fun hτ => hl (slot, value) (List.mem_cons_self ..) hτ)) h
    · cases h

theorem typed_pop {s s' : State} {pc ix : Nat} (h : TypedState τ len s) (hs : s.pop = some (s', pc, ix)) :
    TypedState τ len s' ∧ ix ≤ len := by
  unfold State.pop at hs
  cases hr : State.restore s.nsave s.oldsave s.saves with
  | none => rw [hr] at hs; cases hs
  | some p =>
    obtain ⟨log, saves⟩ := p
    rw [hr] at hs
    simp only at hs
    obtain ⟨h1, h2⟩ := typed_restore s.nsave s.oldsave s.saves log saves h.log h.saves hr
    cases hst : s.stack with
    | nil => rw [hst] at hs; cases hs
    | cons b rest =>
      rw [hst] at hs
      simp only [Option.some.injEq, Prod.mk.injEq] at hs
      obtain ⟨rfl, rfl, rfl⟩ := hs
      have hb : ∀ x ∈ b :: rest, x.ix ≤ len := by rw [← hst]; exact h.stack
      exact ⟨⟨h2, fun x hx => hb x (List.mem_cons_of_mem _ hx), h1⟩, hb b (List.mem_cons_self ..)⟩

theorem typed_popUntil (target : Nat) : ∀ (fuel : Nat) (s s' : State), TypedState τ len s →
    popUntil target fuel s = some s' → TypedState τ len s'
  | 0, _, _, _, h => by simp [popUntil] at h
  | fuel + 1, s, s', ht, h => by
    simp only [popUntil] at h
    cases hp : s.pop with
    | none => rw [hp] at h; cases h
    | some p =>
      obtain ⟨s1, pc, ix⟩ := p
      rw [hp] at h
      simp only at h
      have h1 := (typed_pop ht hp).1
      split at h
      · simp only [Option.some.injEq] at h; subst h; exact h1
      · exact typed_popUntil target fuel s1 s' h1 h

theorem typed_backtrackCut {s s' : State} {count : Nat} (h : TypedState τ len s)
    (hs : s.backtrackCut count = some s') : TypedState τ len s' := by
  unfold State.backtrackCut at hs
  split at hs
  · simp only [Option.some.injEq] at hs; subst hs; exact h
  · split at hs
    · cases hs
    · simp only at hs
      split at hs
      · cases hs
      · split at hs
        · cases hs
        · simp only [Option.some.injEq] at hs
          subst hs
          refine ⟨h.saves, fun b hb => h.stack b (List.mem_of_mem_drop hb), ?_⟩
          intro e he hτ
          simp only [List.mem_append, List.mem_reverse] at he
          rcases he with (he | he) | he
          · have := cutKeep_mem _ _ e he
            exact h.log e (List.mem_of_mem_take (List.mem_reverse.mp this)) hτ
          · exact h.log e (List.mem_of_mem_drop (List.mem_of_mem_take he)) hτ
          · exact h.log e (List.mem_of_mem_drop he) hτ

theorem typed_grow {s : State} (h : TypedState τ len s) (x : Nat) (hτ : τ s.saves.length = false) :
    TypedState τ len { s with saves := s.saves ++ [x] } := by
  refine ⟨?_, h.stack, h.log⟩
  intro i v hτi hv
  by_cases hi : i < s.saves.length
  · rw [List.getElem?_append_left hi] at hv; exact h.saves i v hτi hv
  · by_cases hi' : i = s.saves.length
    · subst hi'; rw [hτ] at hτi; cases hτi
    · rw [List.getElem?_eq_none (by simp; omega)] at hv; cases hv

theorem typed_pushCore {s1 s' : State} {val : Nat} (h : TypedState τ len s1) (hτe : τ s1.explicitSp = false)
    (hsp : ∀ sp, s1.get s1.explicitSp = some sp → τ sp = false) (hs : pushCoreB s1 val = some s') :
    TypedState τ len s' := by
  unfold pushCoreB at hs
  cases hg : s1.get s1.explicitSp with
  | none => rw [hg] at hs; cases hs
  | some sp =>
    rw [hg] at hs
    simp only at hs
    have hτsp := hsp sp hg
    by_cases hl : (s1.saves.length == sp) = true
    · simp only [hl, if_true] at hs
      have hl' : s1.saves.length = sp := by simpa using hl
      exact typed_save (typed_grow h val (by rw [hl']; exact hτsp)) (fun h => by rw [hτe] at h; cases h) hs
    · simp only [hl] at hs
      cases hsv : s1.save sp val with
      | none => rw [hsv] at hs; cases hs
      | some s2 =>
        rw [hsv] at hs
        exact typed_save (typed_save h (fun h => by rw [hτsp] at h; cases h) hsv)
          (fun h => by rw [hτe] at h; cases h) hs

theorem typed_stackPush {s s' : State} {val : Nat} (h : TypedState τ len s) (hτ : ∀ i, s.explicitSp ≤ i → τ i = false)
    (hsp : ∀ sp, (if s.saves.length = s.explicitSp then some (s.explicitSp + 1) else s.get s.explicitSp) = some sp →
      τ sp = false) (hs : s.stackPush val = some s') : TypedState τ len s' := by
  by_cases hl : s.saves.length = s.explicitSp
  · rw [stackPush_pos s val hl] at hs
    refine typed_pushCore (typed_grow h _ (by rw [hl]; exact hτ _ (Nat.le_refl _))) (hτ _ (Nat.le_refl _)) ?_ hs
    intro sp hg
    apply hsp
    simp only [hl, if_true]
    simp only [State.get, ← hl, List.getElem?_append_right (Nat.le_refl _), Nat.sub_self,
      List.getElem?_cons_zero] at hg
    rw [← hl]; exact hg
  · rw [stackPush_neg s val hl] at hs
    refine typed_pushCore h (hτ _ (Nat.le_refl _)) ?_ hs
    intro sp hg
    apply hsp
    simp only [hl, if_false]
    exact hg

theorem typed_stackPop {s s' : State} {count : Nat} (h : TypedState τ len s) (hτ : τ s.explicitSp = false)
    (hs : s.stackPop = some (s', count)) : TypedState τ len s' := by
  unfold State.stackPop at hs
  cases hg : s.get s.explicitSp with
  | none => rw [hg] at hs; cases hs
  | some p =>
    rw [hg] at hs
    cases p with
    | zero => cases hs
    | succ sp =>
      simp only at hs
      cases hg2 : s.get sp with
      | none => rw [hg2] at hs; cases hs
      | some result =>
        rw [hg2] at hs
        simp only at hs
        cases hsv : s.save s.explicitSp sp with
        | none => rw [hsv] at hs; cases hs
        | some s2 =>
          rw [hsv] at hs
          simp only [Option.map_some, Option.some.injEq, Prod.mk.injEq] at hs
          obtain ⟨rfl, _⟩ := hs
          exact typed_save h (fun h => by rw [hτ] at h; cases h) hsv

theorem typed_copyGroups (r : St) (sg eg : Nat) (hr : ∀ g a, g < 2 * eg → r.slot g = some a → a ≤ len) :
    ∀ (n : Nat) (s s' : State), sg + n ≤ eg → TypedState τ len s → copyGroups r sg n s = some s' → TypedState τ len s'
  | 0, s, s', _, h, hs => by simp only [copyGroups, Option.some.injEq] at hs; subst hs; exact h
  | n + 1, s, s', hn, h, hs => by
    simp only [copyGroups] at hs
    cases hc : copyGroups r sg n s with
    | none => rw [hc] at hs; cases hs
    | some s1 =>
      rw [hc] at hs
      simp only at hs
      have h1 := typed_copyGroups r sg eg hr n s s1 (by omega) h hc
      cases ha : r.slot ((sg + n) * 2) with
      | none => rw [ha] at hs; simp only [Option.some.injEq] at hs; subst hs; exact h1
      | some a =>
        rw [ha] at hs
        cases hb : r.slot ((sg + n) * 2 + 1) with
        | none => rw [hb] at hs; cases hs
        | some b =>
          rw [hb] at hs
          simp only at hs
          cases hsv : s1.save ((sg + n) * 2) a with
          | none => rw [hsv] at hs; cases hs
          | some s2 =>
            rw [hsv] at hs
            simp only [Option.bind_some] at hs
            exact typed_save (typed_save h1 (fun _ => Or.inl (hr _ a (by omega) ha)) hsv)
              (fun _ => Or.inl (hr _ b (by omega) hb)) hs

theorem typed_get {s : State} (h : TypedState τ len s) {slot v : Nat} (hτ : τ slot = true) (hg : s.get slot = some v) :
    Valid len v := h.saves slot v hτ hg

theorem typed_capStart {s s' : State} {pos : Nat} (h : TypedState τ len s) (hpos : pos ≤ len)
    (h1 : τ 1 = true) (hs : capStart s pos = some s') : TypedState τ len s' := by
  unfold capStart at hs
  cases hg1 : s.saves[1]? with
  | none => rw [hg1] at hs; simp only [Option.some.injEq] at hs; subst hs; exact h
  | some slot1 =>
    rw [hg1] at hs
    simp only at hs
    have hv1 : Valid len slot1 := h.saves 1 slot1 h1 hg1
    cases hg0 : s.get 0 with
    | none => rw [hg0] at hs; cases hs
    | some s0 =>
      rw [hg0] at hs
      simp only [Option.bind_some] at hs
      have key : ∀ t : State, TypedState τ len t →
          ((t.get 0).bind fun s0' => if s0' < pos then t.save 0 pos else some t) = some s' → TypedState τ len s' := by
        intro t ht hh
        cases hgt : t.get 0 with
        | none => rw [hgt] at hh; cases hh
        | some t0 =>
          rw [hgt] at hh
          simp only [Option.bind_some] at hh
          split at hh
          · exact typed_save ht (fun _ => Or.inl hpos) hh
          · simp only [Option.some.injEq] at hh; subst hh; exact ht
      split at hs
      · cases hsv : s.save 0 slot1 with
        | none => rw [hsv] at hs; cases hs
        | some t =>
          rw [hsv] at hs
          simp only [Option.bind_some] at hs
          exact key t (typed_save h (fun _ => hv1) hsv) hs
      · simp only [Option.bind_some] at hs
        exact key s h hs

theorem typed_pushOr {s : State} (h : TypedState τ len s) {ix : Nat} (hix : ix ≤ len) (x y : Nat) :
    ResOK τ len (pushOr s y ix fun s' => .cont x ix s') := by
  unfold pushOr
  cases hp : s.push y ix with
  | ok s' => exact ⟨typed_push h hix hp, hix⟩
  | overflow => trivial

/-- what the oracle returns lies inside the text (from the typed group slots) -/
theorem delegate_good (c : Ctx) (es : List Expr) (sg eg ix : Nat) (saves : List Nat)
    (hes : slotsBelowAll (2 * eg) es = true) (hlen : 2 * eg ≤ saves.length) (hix : ix ≤ c.len)
    (hvalid : ∀ v ∈ saves.take (2 * eg), Valid c.len v) (r : St)
    (hr : delegateOracle c es sg eg ix saves = some r) :
    r.ix ≤ c.len ∧ ∀ g a, g < 2 * eg → r.slot g = some a → a ≤ c.len := by
  obtain ⟨hext, _⟩ := delegateOracle_ext c es sg eg ix (2 * eg) (2 * eg) saves hes (by omega) (Nat.le_refl _) hlen
  rw [hext] at hr
  cases hr' : delegateOracle c es sg eg ix (saves.take (2 * eg)) with
  | none => rw [hr'] at hr; cases hr
  | some r' =>
    rw [hr'] at hr
    simp only [Option.map_some, Option.some.injEq] at hr
    subst hr
    have hgood : r'.Good c (2 * eg) := by
      rw [C01_delegateOracle_eq, delegateOracleSpec] at hr'
      refine semConcat_good c (2 * eg) es _ r' ?_ (List.mem_of_mem_head? hr')
      refine ⟨hix, ?_, ?_⟩
      · simp only [clearGroups_length, viewSlots_length, List.length_take]; omega
      · intro v hv
        obtain ⟨i, hi⟩ := List.getElem?_of_mem hv
        rw [clearGroups_getElem?] at hi
        split at hi
        · cases hi
        · simp only [viewSlots, List.getElem?_map] at hi
          cases hw : (saves.take (2 * eg))[i]? with
          | none => rw [hw] at hi; cases hi
          | some w =>
            rw [hw] at hi
            simp only [Option.map_some, Option.some.injEq] at hi
            split at hi
            · cases hi
            · rename_i hne
              simp only [Option.some.injEq] at hi
              subst hi
              rcases hvalid w (List.mem_of_getElem? hw) with h | h
              · exact h
              · simp [h] at hne
    refine ⟨hgood.ix, ?_⟩
    intro g a hg ha
    rw [extSt_slot _ r' g (by rw [hgood.len]; exact hg)] at ha
    exact hgood.vals a (slot_mem r' g a ha)

theorem optAll_of {x : Option Nat} {p : Nat → Bool} (h : ∀ v, x = some v → p v = true) : optAll x p = true := by
  cases x with
  | none => rfl
  | some v => exact h v rfl

section Inv
variable (c : Ctx) (τ : Nat → Bool) (nS : Nat)
variable (hτ : ∀ i, nS ≤ i → τ i = false) (hpos : c.pos ≤ c.len)

include hpos in
/-- in a typed state the local precondition of the simulation follows from the residual facts -/
theorem stepOK_of_typed (insn : Insn) (ix : Nat) (s : State) (hty : insn.typed τ = true)
    (hts : TypedState τ c.len s) (hix : ix ≤ c.len) (htame : tameOK τ nS c insn s = true) :
    stepOK τ nS c insn ix s = true := by
  have hval : ∀ slot, τ slot = true → (optAll (s.get slot) fun v => decide (Valid c.len v)) = true :=
    fun slot h => optAll_of (fun v hv => decide_eq_true (typed_get hts h hv))
  cases insn with
  | restore slot => simpa [stepOK, tameOK, hix] using htame
  | beginAtomic => simpa [stepOK, tameOK, hix] using htame
  | endAtomic => simpa [stepOK, tameOK, hix] using htame
  | repeatEpsGr lo next rep check =>
    simp only [Insn.typed, Bool.and_eq_true] at hty
    simp [stepOK, hix, hval check hty.2]
  | repeatEpsNg lo next rep check =>
    simp only [Insn.typed, Bool.and_eq_true] at hty
    simp [stepOK, hix, hval check hty.2]
  | backref slot =>
    simp only [Insn.typed, Bool.and_eq_true] at hty
    simp [stepOK, hix, hval slot hty.1, hval (slot + 1) hty.2]
  | end_ =>
    simp only [Insn.typed, Bool.and_eq_true] at hty
    simp [stepOK, hix, hpos, hval 0 hty.1, hval 1 hty.2]
  | contPrev => simp [stepOK, hix, hpos]
  | delegate es sg eg =>
    simp only [Insn.typed, Bool.and_eq_true, List.all_eq_true, List.mem_range] at hty
    simp only [tameOK, decide_eq_true_eq] at htame
    simp only [stepOK, Bool.and_eq_true, decide_eq_true_eq, List.all_eq_true]
    refine ⟨hix, htame, ?_⟩
    intro v hv
    obtain ⟨i, hi⟩ := List.getElem?_of_mem hv
    rw [List.getElem?_take] at hi
    split at hi
    · rename_i hlt; exact hts.saves i v (hty.2 i hlt) hi
    · cases hi
  | _ => simp [stepOK, hix]

include hτ hpos in
/-- **the typed-state invariant is preserved by every well-typed instruction** under the residual
    facts; the next position stays inside the text -/
theorem step_typed (prog : List Insn) (pc ix : Nat) (s : State) (insn : Insn)
    (hpc : prog[pc]? = some insn) (hty : insn.typed τ = true)
    (hts : TypedState τ c.len s) (hix : ix ≤ c.len) (htame : tameOK τ nS c insn s = true) :
    ResOK τ c.len (step c prog pc ix s) := by
  unfold step
  simp only [hpc]
  cases insn with
  | end_ => dsimp only; split <;> trivial
  | any =>
    dsimp only
    cases hat : c.at? ix with
    | none => exact hts
    | some ch => exact ⟨hts, at_some_lt c ix ch hat⟩
  | anyNoNL =>
    dsimp only
    cases hat : c.at? ix with
    | none => exact hts
    | some ch =>
      dsimp only
      split
      · exact ⟨hts, at_some_lt c ix ch hat⟩
      · exact hts
  | lit val =>
    dsimp only
    split
    · rename_i h; exact ⟨hts, litAt_le c false val ix h hix⟩
    · exact hts
  | assertion a =>
    dsimp only
    split
    · exact ⟨hts, hix⟩
    · exact hts
  | split x y => exact typed_pushOr hts hix x y
  | jmp t => exact ⟨hts, hix⟩
  | save slot =>
    dsimp only
    cases hs : s.save slot ix with
    | none => trivial
    | some s' => exact ⟨typed_save hts (fun _ => Or.inl hix) hs, hix⟩
  | save0 slot =>
    dsimp only
    cases hs : s.save slot 0 with
    | none => trivial
    | some s' => exact ⟨typed_save hts (fun _ => Or.inl (Nat.zero_le _)) hs, hix⟩
  | restore slot =>
    dsimp only
    simp only [tameOK] at htame
    cases hg : s.get slot with
    | none => trivial
    | some v => exact ⟨hts, of_decide_eq_true (optAll_spec htame hg)⟩
  | repeatGr lo hi next rep =>
    dsimp only
    simp only [Insn.typed, Bool.not_eq_true'] at hty
    cases hg : s.get rep with
    | none => trivial
    | some cnt =>
      dsimp only
      split
      · exact ⟨hts, hix⟩
      · cases hs : s.save rep (cnt + 1) with
        | none => trivial
        | some s' =>
          have h' := typed_save hts (fun h => by rw [hty] at h; cases h) hs
          dsimp only
          split
          · exact typed_pushOr h' hix _ _
          · exact ⟨h', hix⟩
  | repeatNg lo hi next rep =>
    dsimp only
    simp only [Insn.typed, Bool.not_eq_true'] at hty
    cases hg : s.get rep with
    | none => trivial
    | some cnt =>
      dsimp only
      split
      · exact ⟨hts, hix⟩
      · cases hs : s.save rep (cnt + 1) with
        | none => trivial
        | some s' =>
          have h' := typed_save hts (fun h => by rw [hty] at h; cases h) hs
          dsimp only
          split
          · exact typed_pushOr h' hix _ _
          · exact ⟨h', hix⟩
  | repeatEpsGr lo next rep check =>
    dsimp only
    simp only [Insn.typed, Bool.and_eq_true, Bool.not_eq_true'] at hty
    cases hg : s.get rep with
    | none => cases s.get check <;> trivial
    | some cnt =>
      cases hg2 : s.get check with
      | none => trivial
      | some chk =>
        dsimp only
        split
        · exact hts
        · cases hs : s.save rep (cnt + 1) with
          | none => trivial
          | some s' =>
            have h' := typed_save hts (fun h => by rw [hty.1] at h; cases h) hs
            dsimp only
            split
            · cases hs2 : s'.save check ix with
              | none => trivial
              | some s'' => exact typed_pushOr (typed_save h' (fun _ => Or.inl hix) hs2) hix _ _
            · exact ⟨h', hix⟩
  | repeatEpsNg lo next rep check =>
    dsimp only
    simp only [Insn.typed, Bool.and_eq_true, Bool.not_eq_true'] at hty
    cases hg : s.get rep with
    | none => cases s.get check <;> trivial
    | some cnt =>
      cases hg2 : s.get check with
      | none => trivial
      | some chk =>
        dsimp only
        split
        · exact hts
        · cases hs : s.save rep (cnt + 1) with
          | none => trivial
          | some s' =>
            have h' := typed_save hts (fun h => by rw [hty.1] at h; cases h) hs
            dsimp only
            split
            · cases hs2 : s'.save check ix with
              | none => trivial
              | some s'' => exact typed_pushOr (typed_save h' (fun _ => Or.inl hix) hs2) hix _ _
            · exact ⟨h', hix⟩
  | goBack n =>
    dsimp only
    unfold Fancy.goBack
    by_cases hn : n ≤ ix
    · rw [if_pos hn]; exact ⟨hts, by omega⟩
    · rw [if_neg hn]; exact hts
  | failNegLook =>
    dsimp only
    cases hp : popUntil (pc + 1) (s.stack.length + 1) s with
    | none => trivial
    | some s' => exact typed_popUntil _ _ s s' hts hp
  | backref slot =>
    dsimp only
    cases hg : s.get slot with
    | none => cases s.get (slot + 1) <;> trivial
    | some lo =>
      cases hg2 : s.get (slot + 1) with
      | none => trivial
      | some hi =>
        dsimp only
        split
        · exact hts
        · split
          · exact hts
          · split
            · rename_i hsa
              simp only [Ctx.sameAt, Bool.and_eq_true, decide_eq_true_eq] at hsa
              exact ⟨hts, hsa.1⟩
            · exact hts
  | backrefExists g =>
    dsimp only
    cases hg : s.get (g * 2) with
    | none => trivial
    | some lo =>
      dsimp only
      split
      · exact hts
      · exact ⟨hts, hix⟩
  | beginAtomic =>
    dsimp only
    simp only [tameOK, Bool.and_eq_true, decide_eq_true_eq] at htame
    obtain ⟨hsp, hptr⟩ := htame
    cases hs : s.stackPush s.backtrackCount with
    | none => trivial
    | some s' =>
      exact ⟨typed_stackPush hts (fun i hi => hτ i (by omega))
        (fun sp h => hτ sp (of_decide_eq_true (optAll_spec hptr h))) hs, hix⟩
  | endAtomic =>
    dsimp only
    simp only [tameOK, Bool.and_eq_true, decide_eq_true_eq] at htame
    cases hs : s.stackPop with
    | none => trivial
    | some p =>
      obtain ⟨s', count⟩ := p
      dsimp only
      have h' := typed_stackPop hts (hτ _ (by omega)) hs
      cases hc : s'.backtrackCut count with
      | none => trivial
      | some s'' => exact ⟨typed_backtrackCut h' hc, hix⟩
  | delegate es sg eg =>
    dsimp only
    simp only [Insn.typed, Bool.and_eq_true, List.all_eq_true, List.mem_range] at hty
    simp only [tameOK, decide_eq_true_eq] at htame
    have hvalid : ∀ v ∈ s.saves.take (2 * eg), Valid c.len v := by
      intro v hv
      obtain ⟨i, hi⟩ := List.getElem?_of_mem hv
      rw [List.getElem?_take] at hi
      split at hi
      · rename_i hlt; exact hts.saves i v (hty.2 i hlt) hi
      · cases hi
    cases hr : delegateOracle c es sg eg ix s.saves with
    | none => exact hts
    | some r =>
      obtain ⟨hrix, hrv⟩ := delegate_good c es sg eg ix s.saves hty.1 htame hix hvalid r hr
      dsimp only
      split
      · exact ⟨hts, hrix⟩
      · cases hc : copyGroups r sg (eg - sg) s with
        | none => trivial
        | some s' =>
          refine ⟨?_, hrix⟩
          rcases Nat.le_total sg eg with h | h
          · exact typed_copyGroups r sg eg hrv (eg - sg) s s' (by omega) hts hc
          · have h0 : eg - sg = 0 := by omega
            rw [h0] at hc
            simp only [copyGroups, Option.some.injEq] at hc
            subst hc; exact hts
  | contPrev =>
    dsimp only
    split
    · exact hts
    · exact ⟨hts, hix⟩

include hτ hpos in
/-- **the monitor of `runB_refines` from the residual monitor** -/
theorem okLoop_of_tame (prog : List Insn) (op : VMOpts) (hwt : wellTyped τ prog = true) :
    ∀ (fuel pc ix : Nat) (s : State) (bt : Nat), TypedState τ c.len s → ix ≤ c.len →
      tameLoop c τ nS prog op fuel pc ix s bt = true → okLoop c τ nS prog op fuel pc ix s bt = true
  | 0, _, _, _, _, _, _, _ => rfl
  | fuel + 1, pc, ix, s, bt, hts, hix, ht => by
    simp only [tameLoop, Bool.and_eq_true] at ht
    obtain ⟨ht1, ht2⟩ := ht
    simp only [okLoop, Bool.and_eq_true]
    cases hpc : prog[pc]? with
    | none =>
      refine ⟨by simp [cfgOK, hpc], ?_⟩
      have : step c prog pc ix s = .done (.panic "prog index") := by unfold step; simp only [hpc]
      rw [this]
    | some insn =>
      rw [hpc] at ht1
      have hty := wellTyped_at hwt hpc
      refine ⟨by simp only [cfgOK, hpc]; exact stepOK_of_typed c τ nS hpos insn ix s hty hts hix ht1, ?_⟩
      have hres := step_typed c τ nS hτ hpos prog pc ix s insn hpc hty hts hix ht1
      cases hstep : step c prog pc ix s with
      | done out => rfl
      | cont pc' ix' s' =>
        rw [hstep] at hres ht2
        exact okLoop_of_tame prog op hwt fuel pc' ix' s' bt hres.1 hres.2 ht2
      | fail s' =>
        rw [hstep] at hres ht2
        simp only at ht2 ⊢
        split
        · rfl
        · rename_i hemp
          simp only [hemp] at ht2
          split
          · rfl
          · rename_i hlim
            simp only [hlim] at ht2
            cases hpop : s'.pop with
            | none => rfl
            | some q =>
              obtain ⟨s'', pc', ix'⟩ := q
              rw [hpop] at ht2
              obtain ⟨h1, h2⟩ := typed_pop hres hpop
              exact okLoop_of_tame prog op hwt fuel pc' ix' s'' (bt + 1) h1 h2 ht2

end Inv

/-- **`runB` refines `run` under the residual monitor only**: a well-typed program, a start position
    inside the text, and along the code-point run no `Restore` of an unset slot and the auxiliary-stack
    discipline at `BeginAtomic`/`EndAtomic` (`tameLoop`) -/
theorem runB_refines_tame (c : Ctx) (τ : Nat → Bool) (nS : Nat)
    (hceq : ∀ a b, c.ceq false a b = (a == b)) (hU : (bytesOfChars c.text).length < UNSET)
    (hτ : ∀ i, nS ≤ i → τ i = false) (hpos : c.pos ≤ c.len)
    (p : Prog) (op : VMOpts) (fuel : Nat) (hwt : wellTyped τ p.body = true)
    (ht : tameLoop c τ nS p.body op fuel 0 c.pos (State.new p.nSaves op.maxStack) 0 = true) :
    runB (BCtx.ofCtx c) p op fuel = (mapOut τ (offOf c.text) (run c p op fuel).1, (run c p op fuel).2) :=
  runB_refines c τ nS hceq hU hτ p op fuel hwt
    (okLoop_of_tame c τ nS hτ hpos p.body op hwt fuel 0 c.pos _ 0 (typed_new _ _) hpos ht)

end Fancy
