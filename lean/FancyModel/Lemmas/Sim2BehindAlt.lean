import FancyModel.Lemmas.SimCompile2
/-!
# Look-behinds over an alternation body: the reference semantics in the shape the code computes

The compiler has four layouts for `(?<=a|b…)` / `(?<!a|b…)` (Model/Compile.lean):

* alternatives of different sizes, positive: an atomic group around an *alternation of complete
  positive look-behinds*, one per alternative (`lookBehindAlts`). The `i`-th look-behind yields
  `posBehindOne c e_i st`, the alternation concatenates (`posBehindAlts`), the atomic group keeps the
  first: `sem_behind_alt_diff`.
* alternatives of different sizes, negative: a *sequence of negative look-behinds* (`lookBehindNegAlts`),
  `negBehindSeq`: `sem_behindNeg_alt_diff`.
* all alternatives of one size: the ordinary look-behind layout around the code of the alternation,
  going back `minSizeMin es = minSize (.alt es)`: `sem_behind_alt_const`, `sem_behindNeg_alt_const`.

Everything here is about lists of results; the machine side is in Lemmas/SimCompile3.lean.
-/
namespace Fancy

/-- what one positive look-behind layout around the code of `e` computes: go back `minSize e`, run
    `e`, keep the first result, put the position back -/
def posBehindOne (c : Ctx) (e : Expr) (st : St) : List St :=
  (firstOnly ((if minSize e ≤ st.ix then [({ st with ix := st.ix - minSize e } : St)] else []).flatMap (sem c e))).map
    fun r => { r with ix := st.ix }

/-- an alternation of positive look-behinds, one per alternative -/
def posBehindAlts (c : Ctx) : List Expr → St → List St
  | [], _ => []
  | e :: es, st => posBehindOne c e st ++ posBehindAlts c es st

/-- what one negative look-behind layout around the code of `e` computes -/
def negBehindOne (c : Ctx) (e : Expr) (st : St) : List St :=
  if ((if minSize e ≤ st.ix then [({ st with ix := st.ix - minSize e } : St)] else []).flatMap (sem c e)).isEmpty
  then [st] else []

/-- a sequence of negative look-behinds, one per alternative -/
def negBehindSeq (c : Ctx) : List Expr → St → List St
  | [], st => [st]
  | e :: es, st => (negBehindOne c e st).flatMap (negBehindSeq c es)

theorem goBackAlts_cons (c : Ctx) (e : Expr) (es : List Expr) (st : St) :
    goBackAlts c (e :: es) st =
      (if minSize e ≤ st.ix then sem c e { st with ix := st.ix - minSize e } else []) ++ goBackAlts c es st := by
  simp [goBackAlts, List.flatMap_cons]

/-- "`firstOnly` of a concatenation of `firstOnly`s": the atomic group around the alternation of
    look-behinds keeps the first result of the first alternative that has one -/
theorem firstOnly_posBehindAlts (c : Ctx) : ∀ (es : List Expr) (st : St),
    firstOnly (posBehindAlts c es st) = (firstOnly (goBackAlts c es st)).map fun r => { r with ix := st.ix }
  | [], st => by simp [posBehindAlts, goBackAlts, firstOnly]
  | e :: es, st => by
    rw [goBackAlts_cons, posBehindAlts, posBehindOne, back_flatMap]
    cases hA : (if minSize e ≤ st.ix then sem c e { st with ix := st.ix - minSize e } else []) with
    | nil =>
      simp only [firstOnly, List.head?_nil, Option.toList_none, List.map_nil, List.nil_append]
      exact firstOnly_posBehindAlts c es st
    | cons x xs => simp [firstOnly]

theorem negBehindSeq_eq (c : Ctx) : ∀ (es : List Expr) (st : St),
    negBehindSeq c es st = if (goBackAlts c es st).isEmpty then [st] else []
  | [], st => by simp [negBehindSeq, goBackAlts]
  | e :: es, st => by
    rw [goBackAlts_cons, negBehindSeq, negBehindOne, back_flatMap]
    cases hA : (if minSize e ≤ st.ix then sem c e { st with ix := st.ix - minSize e } else []) with
    | nil =>
      simp only [List.isEmpty_nil, ↓reduceIte, List.flatMap_cons, List.flatMap_nil, List.append_nil, List.nil_append]
      exact negBehindSeq_eq c es st
    | cons x xs => simp

/-- all alternatives of one size: the per-alternative go-backs are one go-back in front of the
    alternation -/
theorem goBackAlts_allMinSize (c : Ctx) (m : Nat) : ∀ (es : List Expr) (st : St), allMinSize m es = true →
    goBackAlts c es st = if m ≤ st.ix then semAlt c es { st with ix := st.ix - m } else []
  | [], st, _ => by simp [goBackAlts, semAlt]
  | e :: es, st, h => by
    simp only [allMinSize, Bool.and_eq_true, beq_iff_eq] at h
    rw [goBackAlts_cons, goBackAlts_allMinSize c m es st h.2, h.1]
    by_cases hm : m ≤ st.ix <;> simp [hm, semAlt]

theorem constSize_alt_minSizeMin (es : List Expr) (h : constSize (.alt es) = true) :
    allMinSize (minSizeMin es) es = true := by
  simp only [constSize, Bool.and_eq_true] at h
  cases es with
  | nil => simp at h
  | cons e rest =>
    have h2 : allMinSize (minSize e) (e :: rest) = true := h.2
    rw [allMinSize_minSizeMin (minSize e) (e :: rest) (by simp) h2]
    exact h2

theorem minSize_alt (es : List Expr) : minSize (.alt es) = minSizeMin es := by simp only [minSize]

/-! ## The four semantic equations -/

theorem sem_behind_alt_diff (c : Ctx) (n : Nat) (es : List Expr) (hw : wellShapedAll es = true)
    (hc : constSizeAll es = true) (hz : noBareEndZAll es = true) (st : St) (hg : st.Good c n) (hlen : c.len ≤ UNSET) :
    firstOnly (posBehindAlts c es st) = sem c (.look (.alt es) .behind) st := by
  rw [C13_lookbehind_pos_alt c n es hw hc hz st hg hlen, firstOnly_posBehindAlts]

theorem sem_behindNeg_alt_diff (c : Ctx) (n : Nat) (es : List Expr) (hw : wellShapedAll es = true)
    (hc : constSizeAll es = true) (hz : noBareEndZAll es = true) (st : St) (hg : st.Good c n) (hlen : c.len ≤ UNSET) :
    negBehindSeq c es st = sem c (.look (.alt es) .behindNeg) st := by
  rw [C13_lookbehind_neg_alt c n es hw hc hz st hg hlen, negBehindSeq_eq]

theorem sem_behind_alt_const (c : Ctx) (n : Nat) (es : List Expr) (hw : wellShapedAll es = true)
    (hc : constSize (.alt es) = true) (hz : noBareEndZAll es = true) (st : St) (hg : st.Good c n) (hlen : c.len ≤ UNSET) :
    posBehindOne c (.alt es) st = sem c (.look (.alt es) .behind) st := by
  rw [C13_lookbehind_pos_alt c n es hw (constSize_alt_all es hc) hz st hg hlen,
    goBackAlts_allMinSize c (minSizeMin es) es st (constSize_alt_minSizeMin es hc), posBehindOne, back_flatMap, minSize_alt]
  simp only [sem]

theorem sem_behindNeg_alt_const (c : Ctx) (n : Nat) (es : List Expr) (hw : wellShapedAll es = true)
    (hc : constSize (.alt es) = true) (hz : noBareEndZAll es = true) (st : St) (hg : st.Good c n) (hlen : c.len ≤ UNSET) :
    negBehindOne c (.alt es) st = sem c (.look (.alt es) .behindNeg) st := by
  rw [C13_lookbehind_neg_alt c n es hw (constSize_alt_all es hc) hz st hg hlen,
    goBackAlts_allMinSize c (minSizeMin es) es st (constSize_alt_minSizeMin es hc), negBehindOne, back_flatMap, minSize_alt]
  simp only [sem]

/-- the same with a non-alternation body (`C13_lookbehind_pos` / `C13_lookbehind_neg`) -/
theorem sem_behind_one (c : Ctx) (n : Nat) (e : Expr) (hna : ∀ es, e ≠ .alt es) (hw : wellShaped e = true)
    (hc : constSize e = true) (hz : noBareEndZ e = true) (st : St) (hg : st.Good c n) (hlen : c.len ≤ UNSET) :
    posBehindOne c e st = sem c (.look e .behind) st := by
  rw [C13_lookbehind_pos c n e hna hw hc hz st hg hlen, posBehindOne, back_flatMap]

theorem sem_behindNeg_one (c : Ctx) (n : Nat) (e : Expr) (hna : ∀ es, e ≠ .alt es) (hw : wellShaped e = true)
    (hc : constSize e = true) (hz : noBareEndZ e = true) (st : St) (hg : st.Good c n) (hlen : c.len ≤ UNSET) :
    negBehindOne c e st = sem c (.look e .behindNeg) st := by
  rw [C13_lookbehind_neg c n e hna hw hc hz st hg hlen, negBehindOne, back_flatMap]

/-! ## Good states are kept -/

theorem keepsGood_posBehindOne (c : Ctx) (n : Nat) (e : Expr) : KeepsGood c n (posBehindOne c e) := by
  intro st r hg hr
  simp only [posBehindOne, List.mem_map] at hr
  obtain ⟨q, hq, rfl⟩ := hr
  have hq' : q ∈ (if minSize e ≤ st.ix then [({ st with ix := st.ix - minSize e } : St)] else []).flatMap (sem c e) := by
    cases hl : (if minSize e ≤ st.ix then [({ st with ix := st.ix - minSize e } : St)] else []).flatMap (sem c e) with
    | nil => simp [hl, firstOnly] at hq
    | cons x xs => simp only [hl, firstOnly, List.head?_cons, Option.toList_some, List.mem_singleton] at hq; subst hq; simp
  have hqg : q.Good c n := keepsGood_back (minSize e) (fun st r hg hr => sem_good c n e st r hg hr) st q hg hq'
  exact hqg.withIx _ hg.ix

theorem keepsGood_negBehindOne (c : Ctx) (n : Nat) (e : Expr) : KeepsGood c n (negBehindOne c e) := by
  intro st r hg hr
  unfold negBehindOne at hr
  by_cases hE : ((if minSize e ≤ st.ix then [({ st with ix := st.ix - minSize e } : St)] else []).flatMap (sem c e)).isEmpty = true
  · rw [if_pos hE] at hr
    simp only [List.mem_singleton] at hr; subst hr; exact hg
  · rw [if_neg hE] at hr
    simp at hr

/-! ## The compiler's view of an alternation body of one size -/

/-- `visitAltBody` is `visit (Alt es)` in a non-hard context -/
theorem visitAltBody_eq_visit (br : Nat → Bool) (es : List Expr) (pc nsv gix : Nat) :
    visitAltBody br es pc nsv gix = visit br (.alt es) false pc nsv gix := by
  rw [visitAltBody, visit]
  simp only [isHard, Bool.not_false, Bool.true_and]

theorem isAlt_true (e : Expr) (h : isAlt e = true) : ∃ es, e = .alt es := by
  cases e <;> simp [isAlt] at h
  exact ⟨_, rfl⟩

/-- code length of `lookBehindAlts` -/
theorem lookBehindAlts_len (br : Nat → Bool) : ∀ (es : List Expr) (pc nsv gix : Nat) (f : Nat → Code) (endPc nsv' : Nat),
    lookBehindAlts br es pc nsv gix = .ok (f, endPc, nsv') → ∀ t, pc + (f t).length = endPc
  | [], pc, nsv, gix, f, endPc, nsv', hv, t => by
    simp only [lookBehindAlts, Except.ok.injEq, Prod.mk.injEq] at hv
    obtain ⟨rfl, rfl, _⟩ := hv
    simp
  | [e], pc, nsv, gix, f, endPc, nsv', hv, t => by
    simp only [lookBehindAlts] at hv
    split at hv
    · cases hv
    · cases hb : visit br e false (posLookBodyPc (isHard br e) true pc) (nsv + 1) gix with
      | error err => simp [hb] at hv
      | ok p =>
        obtain ⟨c1, nsv1⟩ := p
        simp only [hb, Except.ok.injEq, Prod.mk.injEq] at hv
        obtain ⟨rfl, rfl, _⟩ := hv
        rfl
  | e :: e2 :: es, pc, nsv, gix, f, endPc, nsv', hv, t => by
    simp only [lookBehindAlts] at hv
    split at hv
    · cases hv
    · cases hb : visit br e false (posLookBodyPc (isHard br e) true (pc + 1)) (nsv + 1) gix with
      | error err => simp [hb] at hv
      | ok p =>
        obtain ⟨c1, nsv1⟩ := p
        simp only [hb] at hv
        cases hb2 : lookBehindAlts br (e2 :: es)
            (pc + 1 + (wrapPosLook (isHard br e) true nsv (minSize e) c1).length + 1) nsv1 (gix + groupCount e) with
        | error err => simp [hb2] at hv
        | ok p2 =>
          obtain ⟨f2, endPc2, nsv2⟩ := p2
          simp only [hb2, Except.ok.injEq, Prod.mk.injEq] at hv
          obtain ⟨rfl, rfl, _⟩ := hv
          have := lookBehindAlts_len br (e2 :: es) _ nsv1 _ f2 endPc2 nsv2 hb2 t
          simp only [List.length_append, List.length_cons, List.length_nil] at this ⊢
          omega

end Fancy
