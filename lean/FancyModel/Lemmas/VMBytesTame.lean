import FancyModel.Lemmas.VMBytesInv
import FancyModel.Lemmas.AVM2
/-!
# Tameness from the structured machine

`tameLoop` (Lemmas/VMBytesInv.lean) is the residual run-time monitor of the byte-level refinement: no
`Restore` of a value outside the text, the auxiliary-stack pointer above the ordinary slots at
`BeginAtomic`/`EndAtomic`, a `Delegate`'s group slots present. The structured whole-copy machine
`sstep` (Lemmas/AVM2Defs.lean) is partial exactly there: `Restore` demands `v ≤ len`, `EndAtomic` a
non-empty auxiliary stack, and `DelegOK` bounds the delegates' groups. Hence wherever `Big2` reaches
an answer, the interpreter's run — which follows it (`step_sim2`, as in `link2`) — is tame:
`big2_tame`, `big2_tame_initial`.
-/
namespace Fancy
open State

/-- what `tameLoop` does after a failed instruction -/
def tameAfterFail (c : Ctx) (τ : Nat → Bool) (nS : Nat) (prog : List Insn) (op : VMOpts) (fuel : Nat) (s' : State)
    (bt : Nat) : Bool :=
  if s'.stack.isEmpty then true else
  if bt + 1 > op.backtrackLimit then true else
  match s'.pop with
  | none => true
  | some (s'', pc', ix') => tameLoop c τ nS prog op fuel pc' ix' s'' (bt + 1)

theorem tameLoop_succ (c : Ctx) (τ : Nat → Bool) (nS : Nat) (prog : List Insn) (op : VMOpts)
    (fuel pc ix : Nat) (s : State) (bt : Nat) :
    tameLoop c τ nS prog op (fuel + 1) pc ix s bt =
      ((match prog[pc]? with | none => true | some insn => tameOK τ nS c insn s) &&
      match step c prog pc ix s with
      | .done _ => true
      | .cont pc' ix' s' => tameLoop c τ nS prog op fuel pc' ix' s' bt
      | .fail s' => tameAfterFail c τ nS prog op fuel s' bt) := by
  simp only [tameLoop, tameAfterFail]
  cases step c prog pc ix s <;> rfl

/-- the pointer cell of the auxiliary stack, read off the representation -/
theorem rep_pointer {nS : Nat} {flat sl ak : List Nat} (h : Rep nS flat sl ak) (hne : flat.length ≠ nS) :
    flat[nS]? = some (nS + 1 + ak.length) := by
  obtain ⟨_, _, h3 | h3⟩ := h
  · exact absurd h3.1 hne
  · exact h3.2.1

/-- **where the structured machine is defined, the residual facts hold** of the state representing
    its configuration -/
theorem tameOK_of_sstep (c : Ctx) (τ : Nat → Bool) (prog : List Insn) (nS pc ix : Nat) (s : State) (σ : SState)
    (h : Inv2 nS s σ) (hd : DelegOK c prog nS) (cfg' : SCfg)
    (hs : sstep c prog nS pc ix σ.slots σ.astk σ.stack = some cfg') (insn : Insn) (hpc : prog[pc]? = some insn) :
    tameOK τ nS c insn s = true := by
  have hrep : Rep nS s.saves σ.slots σ.astk := h.rep.1
  unfold sstep at hs
  simp only [hpc] at hs
  cases insn with
  | restore slot =>
    simp only at hs
    simp only [tameOK]
    split at hs
    · rename_i hlt
      rw [rep_get h slot hlt]
      cases hv : σ.slots[slot]? with
      | none => rfl
      | some v =>
        simp only [hv] at hs
        split at hs
        · rename_i hle; exact decide_eq_true hle
        · cases hs
    · cases hs
  | beginAtomic =>
    simp only [tameOK, Bool.and_eq_true, decide_eq_true_eq]
    refine ⟨h.sp, ?_⟩
    rw [h.sp]
    by_cases hl : s.saves.length = nS
    · simp [hl, optAll]
    · simp only [hl, if_false]
      have := rep_pointer hrep hl
      simp only [State.get, this, optAll, decide_eq_true_eq]
      omega
  | endAtomic =>
    simp only at hs
    simp only [tameOK, Bool.and_eq_true, decide_eq_true_eq]
    refine ⟨h.sp, ?_⟩
    rw [h.sp]
    cases hak : σ.astk with
    | nil => rw [hak] at hs; cases hs
    | cons count rest =>
      have hl : s.saves.length ≠ nS := by
        intro hl
        obtain ⟨_, _, h3 | h3⟩ := hrep
        · rw [hak] at h3; cases h3.2
        · omega
      have := rep_pointer hrep hl
      simp only [State.get, this, optAll, decide_eq_true_eq]
      omega
  | delegate es sg eg =>
    simp only [tameOK, decide_eq_true_eq]
    have := (hd pc es sg eg hpc).1
    have := h.len_ge
    omega
  | _ => rfl

/-- what "the run is tame" means for each kind of configuration -/
def FollowsT (c : Ctx) (τ : Nat → Bool) (prog : List Insn) (nS : Nat) (op : VMOpts) : SCfg → Prop
  | .run pc ix slots astk stack =>
    ∀ (s : State) (σ : SState), Inv2 nS s σ → σ = ⟨slots, astk, stack⟩ → ∀ (fuel bt : Nat),
      tameLoop c τ nS prog op fuel pc ix s bt = true
  | .fail stack =>
    ∀ (s : State) (σ : SState), Inv2 nS s σ → σ.stack = stack → ∀ (fuel bt : Nat),
      tameAfterFail c τ nS prog op fuel s bt = true

/-- **the interpreter's run is tame wherever the structured machine reaches an answer** -/
theorem big2_tame (c : Ctx) (τ : Nat → Bool) (prog : List Insn) (nS : Nat) (op : VMOpts) (hd : DelegOK c prog nS)
    (cfg : SCfg) (a : Ans) (h : Big2 c prog nS cfg a) : FollowsT c τ prog nS op cfg := by
  induction h with
  | done pc ix slots astk stack k hend hk hkn hlen =>
    intro s σ hi hσ fuel bt
    cases fuel with
    | zero => rfl
    | succ fuel =>
      rw [tameLoop_succ]
      simp only [hend, tameOK, Bool.true_and]
      have : ∃ out, step c prog pc ix s = .done out := by
        unfold step
        simp only [hend]
        split <;> exact ⟨_, rfl⟩
      obtain ⟨out, ho⟩ := this
      rw [ho]
  | step pc ix slots astk stack cfg' a hstep hbig ih =>
    intro s σ hi hσ fuel bt
    cases fuel with
    | zero => rfl
    | succ fuel =>
      rw [tameLoop_succ]
      subst hσ
      have hpc : ∃ insn, prog[pc]? = some insn := by
        cases hp : prog[pc]? with
        | none => unfold sstep at hstep; simp only [hp] at hstep; cases hstep
        | some insn => exact ⟨insn, rfl⟩
      obtain ⟨insn, hpc⟩ := hpc
      have ht := tameOK_of_sstep c τ prog nS pc ix s _ hi hd cfg' hstep insn hpc
      simp only [hpc, ht, Bool.true_and]
      have hrel := step_sim2 c prog nS pc ix s _ hi hd cfg' hstep
      generalize hst : step c prog pc ix s = sr at hrel
      cases hrel with
      | cont pc' ix' s' σ' hi' => exact ih s' σ' hi' rfl fuel bt
      | fail s' σ' hi' => exact ih s' σ' hi' rfl fuel bt
      | overflow _ => rfl
  | failEmpty =>
    intro s σ hi hσ fuel bt
    unfold tameAfterFail
    have hl := hi.stack_length
    rw [hσ] at hl
    have : s.stack = [] := List.eq_nil_of_length_eq_zero (by simpa using hl.symm)
    simp [this]
  | failPop b rest a hbig ih =>
    intro s σ hi hσ fuel bt
    unfold tameAfterFail
    obtain ⟨s'', h1, h2, _, _⟩ := rep_pop hi b rest hσ
    split
    · rfl
    · split
      · rfl
      · simp only [h1]
        exact ih s'' _ h2 rfl fuel (bt + 1)

/-- from the initial state of a run -/
theorem big2_tame_initial (c : Ctx) (τ : Nat → Bool) (p : Prog) (op : VMOpts) (hd : DelegOK c p.body p.nSaves) (a : Ans)
    (h : Big2 c p.body p.nSaves (.run 0 c.pos (List.replicate p.nSaves UNSET) [] []) a) (fuel : Nat) :
    tameLoop c τ p.nSaves p.body op fuel 0 c.pos (State.new p.nSaves op.maxStack) 0 = true :=
  big2_tame c τ p.body p.nSaves op hd _ a h _ _ (inv2_init p.nSaves op.maxStack) rfl fuel 0

end Fancy
