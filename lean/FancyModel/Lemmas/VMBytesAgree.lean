import FancyModel.Proofs.C05f
import FancyModel.Lemmas.VMBytesTame
/-!
# Along a `Big2`-following run the translated interpreter is the byte machine

`Proofs/C05f.lean`: the translated `vm::run` (`GenVM.genRun`) is `runB` provided every configuration
the run reaches satisfies `StepAgree` (slot operands in range, `start_group ≤ end_group`, the counter
of an unbounded `Repeat*` is not `usize::MAX`). Here that side condition is discharged wherever the
structured machine reaches an answer: `Tracks` is an invariant of the byte machine — every
configuration it reaches is the image (`offOf`, `mapState`) of a code-point configuration that
represents (`Inv2`) a structured configuration from which `Big2` reaches an answer, and is typed — and
`sstep` is only defined where the conditions of `StepAgree` hold (`stepAgree_of_sstep`; the counter
clause is the `cnt ≤ len` demand of `sstep`'s `RepeatGr/Ng` for unbounded loops).

`big2_genRun`: `genRun = runB` from the initial configuration of a `Big2` derivation.
-/
namespace Fancy
open Utf8 GenVM State

section
variable (c : Ctx) (τ : Nat → Bool) (prog : List Insn) (nS : Nat)

/-- the byte configuration `(pc, ixB, sB)` is the image of a typed code-point configuration that
    represents a structured configuration from which the structured machine reaches an answer -/
def Tracks (pc ixB : Nat) (sB : State) : Prop :=
  ∃ (ix : Nat) (s : State) (σ : SState) (a : Ans),
    ixB = offOf c.text ix ∧ sB = mapState τ (offOf c.text) s ∧ Inv2 nS s σ ∧
    Big2 c prog nS (.run pc ix σ.slots σ.astk σ.stack) a ∧ TypedState τ c.len s ∧ ix ≤ c.len

variable (hceq : ∀ a b, c.ceq false a b = (a == b))
variable (hU : (bytesOfChars c.text).length < UNSET)
variable (hτ : ∀ i, nS ≤ i → τ i = false) (hpos : c.pos ≤ c.len)
variable (hwt : wellTyped τ prog = true) (hd : DelegOK c prog nS)

theorem step_end_done (pc ix : Nat) (s : State) (h : prog[pc]? = some .end_) :
    ∃ out, step c prog pc ix s = .done out := by
  unfold step
  simp only [h]
  split <;> exact ⟨_, rfl⟩

include hU hwt hd in
/-- **where the structured machine is defined, `StepAgree` holds** of the mapped state -/
theorem stepAgree_of_sstep (pc ix : Nat) (s : State) (σ : SState) (h : Inv2 nS s σ) (cfg' : SCfg)
    (hs : sstep c prog nS pc ix σ.slots σ.astk σ.stack = some cfg') :
    StepAgree prog pc (mapState τ (offOf c.text) s) := by
  have hlen : (mapState τ (offOf c.text) s).saves.length = s.saves.length := by simp [mapState, mapSaves_length]
  have hge := h.len_ge
  have hlU : c.len < UNSET := by have := len_le_blen c.text; unfold Ctx.len; omega
  unfold StepAgree
  split
  · rename_i lo nx rep hpc
    have hty := wellTyped_at hwt hpc
    simp only [Insn.typed, Bool.not_eq_true'] at hty
    unfold sstep at hs
    simp only [hpc] at hs
    split at hs
    · rename_i hlt
      rw [mapState_get, rep_get h rep hlt]
      cases hv : σ.slots[rep]? with
      | none => simp
      | some cnt =>
        simp only [hv] at hs
        split at hs
        · rename_i hq; simp at hq
        · split at hs
          · cases hs
          · rename_i hle
            have hle' : cnt ≤ c.len := by simpa using hle
            simp only [Option.map_some, mapAt, hty, Bool.false_eq_true, if_false, ne_eq, Option.some.injEq]
            omega
    · cases hs
  · rename_i lo nx rep hpc
    have hty := wellTyped_at hwt hpc
    simp only [Insn.typed, Bool.not_eq_true'] at hty
    unfold sstep at hs
    simp only [hpc] at hs
    split at hs
    · rename_i hlt
      rw [mapState_get, rep_get h rep hlt]
      cases hv : σ.slots[rep]? with
      | none => simp
      | some cnt =>
        simp only [hv] at hs
        split at hs
        · rename_i hq; simp at hq
        · split at hs
          · cases hs
          · rename_i hle
            have hle' : cnt ≤ c.len := by simpa using hle
            simp only [Option.map_some, mapAt, hty, Bool.false_eq_true, if_false, ne_eq, Option.some.injEq]
            omega
    · cases hs
  · rename_i lo nx rep check hpc
    unfold sstep at hs
    simp only [hpc] at hs
    split at hs
    · rename_i hlt; rw [hlen]; omega
    · cases hs
  · rename_i lo nx rep check hpc
    unfold sstep at hs
    simp only [hpc] at hs
    split at hs
    · rename_i hlt; rw [hlen]; omega
    · cases hs
  · rename_i slot hpc
    unfold sstep at hs
    simp only [hpc] at hs
    split at hs
    · rename_i hlt; rw [hlen]; omega
    · cases hs
  · rename_i es sg eg hpc
    exact (hd pc es sg eg hpc).2.1
  · trivial

include hceq hU hτ hpos hwt hd in
/-- the simulation at a tracked configuration: the byte step is the mapped code-point step -/
theorem tracks_step (pc ix : Nat) (s : State) (σ : SState) (h : Inv2 nS s σ) (hts : TypedState τ c.len s)
    (hix : ix ≤ c.len) (insn : Insn) (hpc : prog[pc]? = some insn)
    (ht : tameOK τ nS c insn s = true) :
    stepB (BCtx.ofCtx c) prog pc (offOf c.text ix) (mapState τ (offOf c.text) s) =
      mapRes τ (offOf c.text) (step c prog pc ix s) ∧ ResOK τ c.len (step c prog pc ix s) := by
  have hty := wellTyped_at hwt hpc
  refine ⟨stepB_sim c τ nS hceq hU hτ prog hwt pc ix s ?_, step_typed c τ nS hτ hpos prog pc ix s insn hpc hty hts hix ht⟩
  simp only [cfgOK, hpc]
  exact stepOK_of_typed c τ nS hpos insn ix s hty hts hix ht

include hU hwt hd in
theorem tracks_agree (pc ixB : Nat) (sB : State) (h : Tracks c τ prog nS pc ixB sB) : StepAgree prog pc sB := by
  obtain ⟨ix, s, σ, a, rfl, rfl, hi, hbig, _, _⟩ := h
  cases hbig with
  | done _ _ _ _ _ k hend _ _ _ =>
    unfold StepAgree; simp only [hend]
  | step _ _ _ _ _ cfg' _ hstep _ => exact stepAgree_of_sstep c τ prog nS hU hwt hd pc ix s σ hi cfg' hstep

include hceq hU hτ hpos hwt hd in
theorem tracks_cont (pc ixB : Nat) (sB : State) (pc' ixB' : Nat) (sB' : State)
    (h : Tracks c τ prog nS pc ixB sB) (hs : stepB (BCtx.ofCtx c) prog pc ixB sB = .cont pc' ixB' sB') :
    Tracks c τ prog nS pc' ixB' sB' := by
  obtain ⟨ix, s, σ, a, rfl, rfl, hi, hbig, hts, hix⟩ := h
  cases hbig with
  | done _ _ _ _ _ k hend _ _ _ =>
    obtain ⟨h1, _⟩ := tracks_step c τ prog nS hceq hU hτ hpos hwt hd pc ix s σ hi hts hix _ hend rfl
    obtain ⟨out, ho⟩ := step_end_done c prog pc ix s hend
    rw [h1, ho] at hs
    cases hs
  | step _ _ _ _ _ cfg' _ hstep hbig' =>
    have hpc : ∃ insn, prog[pc]? = some insn := by
      cases hp : prog[pc]? with
      | none => unfold sstep at hstep; simp only [hp] at hstep; cases hstep
      | some insn => exact ⟨insn, rfl⟩
    obtain ⟨insn, hpc⟩ := hpc
    have ht := tameOK_of_sstep c τ prog nS pc ix s σ hi hd cfg' hstep insn hpc
    obtain ⟨h1, h2⟩ := tracks_step c τ prog nS hceq hU hτ hpos hwt hd pc ix s σ hi hts hix insn hpc ht
    have hrel := step_sim2 c prog nS pc ix s σ hi hd cfg' hstep
    rw [h1] at hs
    generalize hst : step c prog pc ix s = sr at hrel hs h2
    cases hrel with
    | cont pc1 ix1 s1 σ1 hi1 =>
      simp only [mapRes, StepResult.cont.injEq] at hs
      obtain ⟨rfl, rfl, rfl⟩ := hs
      exact ⟨ix1, s1, σ1, _, rfl, rfl, hi1, hbig', h2.1, h2.2⟩
    | fail s1 σ1 hi1 => cases hs
    | overflow _ => cases hs

include hceq hU hτ hpos hwt hd in
theorem tracks_fail (pc ixB : Nat) (sB sB' sB'' : State) (pc' ixB' : Nat)
    (h : Tracks c τ prog nS pc ixB sB) (hs : stepB (BCtx.ofCtx c) prog pc ixB sB = .fail sB')
    (hp : sB'.pop = some (sB'', pc', ixB')) : Tracks c τ prog nS pc' ixB' sB'' := by
  obtain ⟨ix, s, σ, a, rfl, rfl, hi, hbig, hts, hix⟩ := h
  cases hbig with
  | done _ _ _ _ _ k hend _ _ _ =>
    obtain ⟨h1, _⟩ := tracks_step c τ prog nS hceq hU hτ hpos hwt hd pc ix s σ hi hts hix _ hend rfl
    obtain ⟨out, ho⟩ := step_end_done c prog pc ix s hend
    rw [h1, ho] at hs
    cases hs
  | step _ _ _ _ _ cfg' _ hstep hbig' =>
    have hpc : ∃ insn, prog[pc]? = some insn := by
      cases hp : prog[pc]? with
      | none => unfold sstep at hstep; simp only [hp] at hstep; cases hstep
      | some insn => exact ⟨insn, rfl⟩
    obtain ⟨insn, hpc⟩ := hpc
    have ht := tameOK_of_sstep c τ prog nS pc ix s σ hi hd cfg' hstep insn hpc
    obtain ⟨h1, h2⟩ := tracks_step c τ prog nS hceq hU hτ hpos hwt hd pc ix s σ hi hts hix insn hpc ht
    have hrel := step_sim2 c prog nS pc ix s σ hi hd cfg' hstep
    rw [h1] at hs
    generalize hst : step c prog pc ix s = sr at hrel hs h2
    cases hrel with
    | cont pc1 ix1 s1 σ1 hi1 => cases hs
    | overflow _ => cases hs
    | fail s1 σ1 hi1 =>
      simp only [mapRes, StepResult.fail.injEq] at hs
      subst hs
      rw [mapState_pop] at hp
      generalize hstk : σ1.stack = stk at hbig'
      cases hbig' with
      | failEmpty =>
        have hl := hi1.stack_length
        rw [hstk] at hl
        have : s1.stack = [] := List.eq_nil_of_length_eq_zero (by simpa using hl.symm)
        have hpn : s1.pop = none := by
          unfold State.pop
          cases State.restore s1.nsave s1.oldsave s1.saves with
          | none => rfl
          | some q => simp [this]
        rw [hpn] at hp; cases hp
      | failPop b rest _ hbig'' =>
        obtain ⟨s2, e1, e2, _, _⟩ := rep_pop hi1 b rest hstk
        rw [e1] at hp
        simp only [Option.map_some, Option.some.injEq, Prod.mk.injEq] at hp
        obtain ⟨rfl, rfl, rfl⟩ := hp
        obtain ⟨t1, t2⟩ := typed_pop h2 e1
        exact ⟨b.ix, s2, ⟨b.slots, b.astk, rest⟩, _, rfl, rfl, e2, hbig'', t1, t2⟩

include hceq hU hτ hpos hwt hd in
/-- **the translated interpreter is the byte machine along a `Big2`-following run** -/
theorem big2_genLoop (op : VMOpts) (pc ix : Nat) (s : State) (σ : SState) (a : Ans) (hi : Inv2 nS s σ)
    (hbig : Big2 c prog nS (.run pc ix σ.slots σ.astk σ.stack) a) (hts : TypedState τ c.len s) (hix : ix ≤ c.len)
    (fuel : Nat) (st : Stats) :
    driveLoop (genStep (BCtx.ofCtx c) prog) (genOnFail op) fuel pc (offOf c.text ix) (mapState τ (offOf c.text) s) st =
      runLoopB (BCtx.ofCtx c) prog op fuel pc (offOf c.text ix) (mapState τ (offOf c.text) s) st :=
  C05_vm_translated_loop (BCtx.ofCtx c) prog pc (offOf c.text ix) (mapState τ (offOf c.text) s) op
    (Tracks c τ prog nS)
    (fun pc ixB sB h => tracks_agree c τ prog nS hU hwt hd pc ixB sB h)
    (fun pc ixB sB pc' ixB' sB' h hs => tracks_cont c τ prog nS hceq hU hτ hpos hwt hd pc ixB sB pc' ixB' sB' h hs)
    (fun pc ixB sB sB' sB'' pc' ixB' h hs hp =>
      tracks_fail c τ prog nS hceq hU hτ hpos hwt hd pc ixB sB sB' sB'' pc' ixB' h hs hp)
    fuel st ⟨ix, s, σ, a, rfl, rfl, hi, hbig, hts, hix⟩

end

/-- from the initial configuration: `genRun = runB` -/
theorem big2_genRun (c : Ctx) (τ : Nat → Bool) (p : Prog)
    (hceq : ∀ a b, c.ceq false a b = (a == b)) (hU : (bytesOfChars c.text).length < UNSET)
    (hτ : ∀ i, p.nSaves ≤ i → τ i = false) (hpos : c.pos ≤ c.len)
    (hwt : wellTyped τ p.body = true) (hd : DelegOK c p.body p.nSaves) (a : Ans)
    (hbig : Big2 c p.body p.nSaves (.run 0 c.pos (List.replicate p.nSaves UNSET) [] []) a)
    (op : VMOpts) (fuel : Nat) :
    genRun (BCtx.ofCtx c) p op fuel = runB (BCtx.ofCtx c) p op fuel := by
  have := big2_genLoop c τ p.body p.nSaves hceq hU hτ hpos hwt hd op 0 c.pos (State.new p.nSaves op.maxStack)
    ⟨List.replicate p.nSaves UNSET, [], []⟩ a (inv2_init p.nSaves op.maxStack) hbig (typed_new _ _) hpos fuel {}
  rw [mapState_new] at this
  simpa only [genRun, runB, BCtx.ofCtx_pos] using this

end Fancy
