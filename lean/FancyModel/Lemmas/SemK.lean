import FancyModel.Spec.SemK
/-!
# First-result evaluation equals the list semantics

`semK c e st k = (sem c e st).findSome? k` for every expression, state and continuation — so the
executable oracle (`refSearchK`, `delegateOracle`) computes exactly what the specification
(`refSearch`, `delegateOracleSpec`) says.
-/
namespace Fancy

theorem findSome?_flatMap {α β γ : Type} (l : List α) (f : α → List β) (k : β → Option γ) :
    (l.flatMap f).findSome? k = l.findSome? fun a => (f a).findSome? k := by
  induction l with
  | nil => rfl
  | cons a as ih =>
    simp only [List.flatMap_cons, List.findSome?_append, List.findSome?_cons, ih]
    cases (f a).findSome? k <;> simp

theorem findSome?_single {α γ : Type} (a : α) (k : α → Option γ) : [a].findSome? k = k a := by
  simp only [List.findSome?]; cases k a <;> rfl

theorem findSome?_ite {α γ : Type} (p : Prop) [Decidable p] (a : α) (k : α → Option γ) :
    (if p then [a] else []).findSome? k = if p then k a else none := by
  split
  · exact findSome?_single a k
  · rfl

theorem findSome?_some_eq_head? {α : Type} (l : List α) : l.findSome? some = l.head? := by
  cases l <;> simp [List.findSome?]

theorem findSome?_firstOnly {γ : Type} (l : List St) (k : St → Option γ) :
    (firstOnly l).findSome? k = match l.head? with | some r => k r | none => none := by
  cases l with
  | nil => rfl
  | cons x xs => simp only [firstOnly, List.head?_cons, Option.toList_some]; exact findSome?_single x k

theorem findSome?_filter {α γ : Type} (l : List α) (p : α → Bool) (k : α → Option γ) :
    (l.filter p).findSome? k = l.findSome? fun a => if p a then k a else none := by
  induction l with
  | nil => rfl
  | cons a as ih =>
    simp only [List.filter_cons]
    by_cases hp : p a = true
    · simp only [hp, ↓reduceIte, List.findSome?_cons, ih]
    · simp only [hp, Bool.false_eq_true, ↓reduceIte, List.findSome?_cons, ih]

/-- the repetition loop -/
theorem repLoopK_eq {γ : Type} (body : St → List St) (bodyK : St → (St → Option γ) → Option γ)
    (hb : ∀ st k, bodyK st k = (body st).findSome? k)
    (lo : Nat) (hi : Option Nat) (greedy : Bool) (fuel count : Nat) (st : St) (k : St → Option γ) :
    repLoopK bodyK lo hi greedy fuel count st k = (repLoop body lo hi greedy fuel count st).findSome? k := by
  induction fuel generalizing count st with
  | zero => rfl
  | succ fuel ih =>
    unfold repLoopK repLoop
    split
    · exact (findSome?_single st k).symm
    · have hiters : (bodyK st fun r =>
            if (hi.isNone && decide (lo ≤ count) && r.ix == st.ix) = true then k r
            else repLoopK bodyK lo hi greedy fuel (count + 1) r k) =
          ((body st).flatMap fun r =>
            if (hi.isNone && decide (lo ≤ count) && r.ix == st.ix) = true then [r]
            else repLoop body lo hi greedy fuel (count + 1) r).findSome? k := by
        rw [hb, findSome?_flatMap]
        congr 1
        funext r
        split
        · exact (findSome?_single r k).symm
        · exact ih _ _
      simp only [hiters]
      split
      · rfl
      · split
        · simp only [List.findSome?_append]
          rw [findSome?_single]
          cases (List.findSome? k _) <;> rfl
        · simp only [List.findSome?_cons]
          cases k st <;> rfl

/-- look-behind over an arbitrary body -/
theorem behindOneK_eq {γ : Type} (body : St → List St) (bodyK : St → (St → Option γ) → Option γ)
    (hb : ∀ st k, bodyK st k = (body st).findSome? k) (st : St) (k : St → Option γ) (n d : Nat) :
    behindOneK bodyK st k n d =
      ((List.range' d n).flatMap fun j =>
        (body { st with ix := st.ix - j }).filter (fun r => r.ix == st.ix)).findSome? k := by
  induction n generalizing d with
  | zero => rfl
  | succ n ih =>
    unfold behindOneK
    rw [hb, List.range'_succ, List.flatMap_cons, List.findSome?_append, findSome?_filter, ih (d + 1)]
    cases List.findSome? _ (body _) <;> rfl

theorem behindOneK_eq' {γ : Type} (body : St → List St) (bodyK : St → (St → Option γ) → Option γ)
    (hb : ∀ st k, bodyK st k = (body st).findSome? k) (st : St) (k : St → Option γ) :
    behindOneK bodyK st k (st.ix + 1) 0 = (behindOne body st).findSome? k := by
  rw [behindOneK_eq body bodyK hb]
  unfold behindOne
  rw [List.range_eq_range']

mutual
theorem semK_eq {γ : Type} (c : Ctx) : ∀ (e : Expr) (st : St) (k : St → Option γ),
    semK c e st k = (sem c e st).findSome? k
  | .empty, st, k => by simp only [semK, sem]; exact (findSome?_single st k).symm
  | .any nl, st, k => by
    simp only [semK, sem]
    cases c.at? st.ix with
    | none => rfl
    | some ch => simp only; rw [findSome?_ite]
  | .assertion a, st, k => by simp only [semK, sem]; rw [findSome?_ite]
  | .literal val casei, st, k => by simp only [semK, sem]; rw [findSome?_ite]
  | .concat es, st, k => by simp only [semK, sem]; exact semKConcat_eq c es st k
  | .alt es, st, k => by simp only [semK, sem]; exact semKAlt_eq c es st k
  | .group g e, st, k => by
    simp only [semK, sem]
    rw [semK_eq c e, List.findSome?_map]
    rfl
  | .look e .ahead, st, k => by
    simp only [semK, sem]
    rw [semK_eq c e, findSome?_some_eq_head?, List.findSome?_map, findSome?_firstOnly]
    cases (sem c e st).head? <;> rfl
  | .look e .aheadNeg, st, k => by
    simp only [semK, sem]
    rw [semK_eq c e, findSome?_some_eq_head?]
    cases h : sem c e st with
    | nil => simp only [List.head?_nil, List.isEmpty_nil, ↓reduceIte]; exact (findSome?_single st k).symm
    | cons x xs => simp
  | .look e .behind, st, k => by
    simp only [semK, sem]
    rw [semKBehind_eq c e, findSome?_some_eq_head?, List.findSome?_map, findSome?_firstOnly]
    cases (semBehind c e st).head? <;> rfl
  | .look e .behindNeg, st, k => by
    simp only [semK, sem]
    rw [semKBehind_eq c e, findSome?_some_eq_head?]
    cases h : semBehind c e st with
    | nil => simp only [List.head?_nil, List.isEmpty_nil, ↓reduceIte]; exact (findSome?_single st k).symm
    | cons x xs => simp
  | .repeat e lo hi greedy, st, k => by
    simp only [semK, sem]
    exact repLoopK_eq (sem c e) (semK c e) (fun st k => semK_eq c e st k) lo hi greedy _ 0 st k
  | .delegate inner size casei, st, k => by simp only [semK, sem]
  | .backref g, st, k => by
    simp only [semK, sem]
    cases h1 : st.slot (2 * g) with
    | none => rfl
    | some lo =>
      cases h2 : st.slot (2 * g + 1) with
      | none => rfl
      | some hi => simp only; rw [findSome?_ite]
  | .atomic e, st, k => by
    simp only [semK, sem]
    rw [semK_eq c e, findSome?_some_eq_head?, findSome?_firstOnly]
    cases (sem c e st).head? <;> rfl
  | .keepOut, st, k => by simp only [semK, sem]; exact (findSome?_single _ k).symm
  | .contPrev, st, k => by simp only [semK, sem]; rw [findSome?_ite]
  | .backrefExists g, st, k => by simp only [semK, sem]; rw [findSome?_ite]
  | .cond cnd y n, st, k => by
    simp only [semK, sem]
    rw [semK_eq c cnd, findSome?_some_eq_head?]
    cases (sem c cnd st).head? with
    | some r => exact semK_eq c y r k
    | none => exact semK_eq c n st k
  | .subroutine g, st, k => by simp [semK, sem]
theorem semKConcat_eq {γ : Type} (c : Ctx) : ∀ (es : List Expr) (st : St) (k : St → Option γ),
    semKConcat c es st k = (semConcat c es st).findSome? k
  | [], st, k => by simp only [semKConcat, semConcat]; exact (findSome?_single st k).symm
  | e :: es, st, k => by
    simp only [semKConcat, semConcat]
    rw [semK_eq c e, findSome?_flatMap]
    congr 1
    funext r
    exact semKConcat_eq c es r k
theorem semKAlt_eq {γ : Type} (c : Ctx) : ∀ (es : List Expr) (st : St) (k : St → Option γ),
    semKAlt c es st k = (semAlt c es st).findSome? k
  | [], st, k => by simp [semKAlt, semAlt]
  | e :: es, st, k => by
    simp only [semKAlt, semAlt, List.findSome?_append]
    rw [semK_eq c e, semKAlt_eq c es]
    cases List.findSome? k (sem c e st) <;> rfl
theorem semKBehind_eq {γ : Type} (c : Ctx) : ∀ (e : Expr) (st : St) (k : St → Option γ),
    semKBehind c e st k = (semBehind c e st).findSome? k
  | e, st, k => by
    cases e <;> simp only [semKBehind, semBehind] <;>
      first
        | exact semKBehindAlts_eq c _ st k
        | exact behindOneK_eq' _ _ (fun st k => semK_eq c _ st k) st k
theorem semKBehindAlts_eq {γ : Type} (c : Ctx) : ∀ (es : List Expr) (st : St) (k : St → Option γ),
    semKBehindAlts c es st k = (semBehindAlts c es st).findSome? k
  | [], st, k => by simp [semKBehindAlts, semBehindAlts]
  | e :: es, st, k => by
    simp only [semKBehindAlts, semBehindAlts, List.findSome?_append]
    rw [behindOneK_eq' _ _ (fun st k => semK_eq c e st k), semKBehindAlts_eq c es]
    cases List.findSome? k (behindOne (sem c e) st) <;> rfl
end

end Fancy
