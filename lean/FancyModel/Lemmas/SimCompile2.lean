import FancyModel.Lemmas.Sim2Core
import FancyModel.Lemmas.Sim2Rep
import FancyModel.Lemmas.Sim2Cond
import FancyModel.Lemmas.Sim2Look
import FancyModel.Proofs.C13b
/-!
# The compiler emits simulating code: every construct the VM interprets itself (stage S2)

`s2ok e`: the shapes covered — literals, `.`, assertions, `\K`, `\G`, back-references, group tests,
concatenation, alternation, capture groups, every quantifier whose body cannot match empty when
unbounded (`NoEmptyLoop`: otherwise the compiler emits `RepeatEpsilon`, finding F1), atomic groups
and positive look-aheads over conditional-free bodies (`NoCondLeak`, finding F8), negative look-aheads,
look-behinds over a non-alternation constant-size body, conditionals with a conditional-free
condition. For such `e`, in either compile context, if the emitted code contains no `Delegate`
instruction, it simulates `sem c e` on the full machine (`sim2_visit`).
-/
namespace Fancy

mutual
/-- no conditional anywhere inside: the code is balanced on the auxiliary stack -/
def condFree : Expr → Bool
  | .cond _ _ _ => false
  | .concat es => condFreeAll es
  | .alt es => condFreeAll es
  | .group _ e => condFree e
  | .look e _ => condFree e
  | .repeat e _ _ _ => condFree e
  | .atomic e => condFree e
  | _ => true
def condFreeAll : List Expr → Bool
  | [] => true
  | e :: es => condFree e && condFreeAll es
end

def isAlt : Expr → Bool
  | .alt _ => true
  | _ => false

mutual
def s2ok : Expr → Bool
  | .empty => true
  | .any _ => true
  | .assertion _ => true
  | .literal v ci => !ci && v.length == 1
  | .concat es => s2okAll es
  | .alt es => !es.isEmpty && s2okAll es
  | .group _ e => s2ok e
  | .repeat e _ hi _ => s2ok e && (hi != none || decide (0 < minSize e))
  | .look e .ahead => s2ok e && condFree e
  | .look e .aheadNeg => s2ok e
  | .look e .behind => s2ok e && condFree e && !isAlt e && noBareEndZ e
  | .look e .behindNeg => s2ok e && !isAlt e && noBareEndZ e
  | .backref _ => true
  | .atomic e => s2ok e && condFree e
  | .keepOut => true
  | .contPrev => true
  | .backrefExists _ => true
  | .cond c y n => s2ok c && condFree c && s2ok y && s2ok n
  | .delegate _ _ _ => false
  | .subroutine _ => false
def s2okAll : List Expr → Bool
  | [] => true
  | e :: es => s2ok e && s2okAll es
end

mutual
theorem s2ok_wellShaped : ∀ (e : Expr), s2ok e = true → wellShaped e = true
  | .empty, _ | .any _, _ | .assertion _, _ | .backref _, _ | .keepOut, _ | .contPrev, _ | .backrefExists _, _ => by
    simp [wellShaped]
  | .literal v ci, h => by simp only [s2ok, Bool.and_eq_true] at h; simpa [wellShaped] using h.2
  | .concat es, h => by simp only [s2ok] at h; simpa [wellShaped] using s2okAll_wellShaped es h
  | .alt es, h => by
    simp only [s2ok, Bool.and_eq_true] at h
    simp only [wellShaped, Bool.and_eq_true]
    exact ⟨h.1, s2okAll_wellShaped es h.2⟩
  | .group _ e, h => by simp only [s2ok] at h; simpa [wellShaped] using s2ok_wellShaped e h
  | .repeat e _ _ _, h => by
    simp only [s2ok, Bool.and_eq_true] at h; simpa [wellShaped] using s2ok_wellShaped e h.1
  | .look e .ahead, h => by
    simp only [s2ok, Bool.and_eq_true] at h; simpa [wellShaped] using s2ok_wellShaped e h.1
  | .look e .aheadNeg, h => by
    simp only [s2ok] at h; simpa [wellShaped] using s2ok_wellShaped e h
  | .look e .behind, h => by
    simp only [s2ok, Bool.and_eq_true] at h; simpa [wellShaped] using s2ok_wellShaped e h.1.1.1
  | .look e .behindNeg, h => by
    simp only [s2ok, Bool.and_eq_true] at h; simpa [wellShaped] using s2ok_wellShaped e h.1.1
  | .atomic e, h => by
    simp only [s2ok, Bool.and_eq_true] at h; simpa [wellShaped] using s2ok_wellShaped e h.1
  | .cond c y n, h => by
    simp only [s2ok, Bool.and_eq_true] at h
    simp only [wellShaped, Bool.and_eq_true]
    exact ⟨⟨s2ok_wellShaped c h.1.1.1, s2ok_wellShaped y h.1.2⟩, s2ok_wellShaped n h.2⟩
  | .delegate _ _ _, h | .subroutine _, h => by simp [s2ok] at h
theorem s2okAll_wellShaped : ∀ (es : List Expr), s2okAll es = true → wellShapedAll es = true
  | [], _ => rfl
  | e :: es, h => by
    simp only [s2okAll, Bool.and_eq_true] at h
    simp only [wellShapedAll, Bool.and_eq_true]
    exact ⟨s2ok_wellShaped e h.1, s2okAll_wellShaped es h.2⟩
end

/-- change the balance flag of a simulation to a weaker one -/
theorem Sim2.balTo {c : Ctx} {n nS : Nat} {prog : List Insn} {lo hi : Nat} {b1 b2 cm : Bool} {f : St → List St} {a b : Nat}
    (h : Sim2 c n nS prog lo hi b1 cm f a b) (hb : b2 = true → b1 = true) : Sim2 c n nS prog lo hi b2 cm f a b := by
  cases b2 with
  | true => have := hb rfl; subst this; exact h
  | false =>
    cases b1 with
    | true => exact h.unbal
    | false => exact h

end Fancy
