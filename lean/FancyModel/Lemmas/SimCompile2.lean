import FancyModel.Lemmas.Sim2Core
import FancyModel.Lemmas.Sim2Rep
import FancyModel.Lemmas.Sim2Cond
import FancyModel.Lemmas.Sim2Look
import FancyModel.Proofs.C13b
/-!
# The compiler emits simulating code: every construct the VM interprets itself (stage S2)

`s2ok e`: the shapes covered — literals, `.`, assertions, `\K`, `\G`, back-references, group tests,
concatenation, alternation, capture groups, every quantifier whose body cannot match empty when
unbounded (`NoEmptyLoop`: otherwise the compiler emits `RepeatEpsilon`, finding F1), atomic groups
and positive look-aheads over conditional-free bodies (`NoCondLeak`, finding F8), negative look-aheads,
look-behinds over a non-alternation constant-size body, conditionals with a conditional-free
condition. For such `e`, in either compile context, if the emitted code contains no `Delegate`
instruction, it simulates `sem c e` on the full machine (`sim2_visit`).
-/
namespace Fancy

mutual
theorem s2ok_wellShaped : ∀ (e : Expr), s2ok e = true → wellShaped e = true
  | .empty, _ | .any _, _ | .assertion _, _ | .backref _, _ | .keepOut, _ | .contPrev, _ | .backrefExists _, _ => by
    simp [wellShaped]
  | .literal v ci, h => by simp only [s2ok, Bool.and_eq_true] at h; simpa [wellShaped] using h.2
  | .concat es, h => by simp only [s2ok] at h; simpa [wellShaped] using s2okAll_wellShaped es h
  | .alt es, h => by
    simp only [s2ok, Bool.and_eq_true] at h
    simp only [wellShaped, Bool.and_eq_true]
    exact ⟨h.1, s2okAll_wellShaped es h.2⟩
  | .group _ e, h => by simp only [s2ok] at h; simpa [wellShaped] using s2ok_wellShaped e h
  | .repeat e _ _ _, h => by
    simp only [s2ok, Bool.and_eq_true] at h; simpa [wellShaped] using s2ok_wellShaped e h.1
  | .look e .ahead, h => by
    simp only [s2ok, Bool.and_eq_true] at h; simpa [wellShaped] using s2ok_wellShaped e h.1
  | .look e .aheadNeg, h => by
    simp only [s2ok] at h; simpa [wellShaped] using s2ok_wellShaped e h
  | .look e .behind, h => by
    simp only [s2ok, Bool.and_eq_true] at h; simpa [wellShaped] using s2ok_wellShaped e h.1.1.1
  | .look e .behindNeg, h => by
    simp only [s2ok, Bool.and_eq_true] at h; simpa [wellShaped] using s2ok_wellShaped e h.1.1
  | .atomic e, h => by
    simp only [s2ok, Bool.and_eq_true] at h; simpa [wellShaped] using s2ok_wellShaped e h.1
  | .cond c y n, h => by
    simp only [s2ok, Bool.and_eq_true] at h
    simp only [wellShaped, Bool.and_eq_true]
    exact ⟨⟨s2ok_wellShaped c h.1.1.1, s2ok_wellShaped y h.1.2⟩, s2ok_wellShaped n h.2⟩
  | .delegate _ _ _, h | .subroutine _, h => by simp [s2ok] at h
theorem s2okAll_wellShaped : ∀ (es : List Expr), s2okAll es = true → wellShapedAll es = true
  | [], _ => rfl
  | e :: es, h => by
    simp only [s2okAll, Bool.and_eq_true] at h
    simp only [wellShapedAll, Bool.and_eq_true]
    exact ⟨s2ok_wellShaped e h.1, s2okAll_wellShaped es h.2⟩
end

/-- change the balance flag of a simulation to a weaker one -/
theorem Sim2.balTo {c : Ctx} {n nS : Nat} {prog : List Insn} {lo hi : Nat} {b1 b2 cm : Bool} {f : St → List St} {a b : Nat}
    (h : Sim2 c n nS prog lo hi b1 cm f a b) (hb : b2 = true → b1 = true) : Sim2 c n nS prog lo hi b2 cm f a b := by
  cases b2 with
  | true => have := hb rfl; subst this; exact h
  | false =>
    cases b1 with
    | true => exact h.unbal
    | false => exact h

end Fancy

namespace Fancy

/-- equality of the two semantics is only needed on good states -/
theorem Sim2.congrGood {c : Ctx} {n nS : Nat} {prog : List Insn} {lo hi : Nat} {bal cm : Bool} {f g : St → List St} {a b : Nat}
    (h : Sim2 c n nS prog lo hi bal cm f a b) (hfg : ∀ st, st.Good c n → f st = g st) :
    Sim2 c n nS prog lo hi bal cm g a b := by
  intro st aux astk X succ failA hg hl hsucc hf hs
  have e := hfg st hg
  rw [← e] at hf hs ⊢
  exact h st aux astk X succ failA hg hl hsucc hf hs

theorem condFreeAll_drop (es : List Expr) (k : Nat) (h : condFreeAll es = true) : condFreeAll (es.drop k) = true := by
  induction es generalizing k with
  | nil => simp [condFreeAll]
  | cons e es ih =>
    cases k with
    | zero => simpa using h
    | succ k =>
      simp only [condFreeAll, Bool.and_eq_true] at h
      simpa using ih k h.2

/-- a non-hard expression in a non-hard context: `compile_delegate`; without `Delegate` it is a literal -/
theorem sim2_easy (c : Ctx) (n nS : Nat) (prog : List Insn) (lo hi : Nat) (bal cm : Bool) (br : Nat → Bool) (e : Expr)
    (hard : Bool) (pc nsv gix : Nat) (code : Code) (nsv' : Nat)
    (hdel : (!hard && !isHard br e) = true) (hv : visit br e hard pc nsv gix = .ok (code, nsv'))
    (hn : noDeleg code = true) (hc : CodeAt prog pc code) :
    nsv' = nsv ∧ Sim2 c n nS prog lo hi bal cm (sem c e) pc (pc + code.length) := by
  rw [visit.eq_def] at hv
  simp only [hdel, ↓reduceIte, Except.ok.injEq, Prod.mk.injEq] at hv
  obtain ⟨rfl, rfl⟩ := hv
  refine ⟨rfl, ?_⟩
  unfold compileDelegate at hn hc ⊢
  by_cases hl : isLiteral e = true
  · simp only [hl, ↓reduceIte, List.length_cons, List.length_nil, Nat.zero_add] at hc ⊢
    exact sim2_isLiteral c n nS prog lo hi bal cm e pc hl hc.head
  · simp [hl, noDeleg, Insn.isDelegate] at hn

theorem length_le_one_of_isLiteral (c : Ctx) (e : Expr) (h : isLiteral e = true) (st : St) : (sem c e st).length ≤ 1 := by
  rw [sem_isLiteral c e h st]
  split <;> simp

end Fancy

namespace Fancy

/-- the conclusion of the simulation theorem for one expression -/
def SimOf (c : Ctx) (n nS : Nat) (prog : List Insn) (nsv nsv' : Nat) (bal : Bool) (sm : St → List St) (a b : Nat) : Prop :=
  nsv ≤ nsv' ∧ (nsv' ≤ nS → ∀ cm, Sim2 c n nS prog nsv nsv' bal cm sm a b)

theorem SimOf.leaf {c : Ctx} {n nS : Nat} {prog : List Insn} {nsv : Nat} {bal : Bool} {sm : St → List St} {a b : Nat}
    (h : ∀ cm, Sim2 c n nS prog nsv nsv bal cm sm a b) : SimOf c n nS prog nsv nsv bal sm a b := ⟨Nat.le_refl _, fun _ => h⟩

theorem simOf_easy (c : Ctx) (n nS : Nat) (prog : List Insn) (bal : Bool) (br : Nat → Bool) (e : Expr)
    (hard : Bool) (pc nsv gix : Nat) (code : Code) (nsv' : Nat)
    (hdel : (!hard && !isHard br e) = true) (hv : visit br e hard pc nsv gix = .ok (code, nsv'))
    (hn : noDeleg code = true) (hc : CodeAt prog pc code) :
    SimOf c n nS prog nsv nsv' bal (sem c e) pc (pc + code.length) := by
  have h1 := (sim2_easy c n nS prog nsv nsv bal true br e hard pc nsv gix code nsv' hdel hv hn hc).1
  subst h1
  exact ⟨Nat.le_refl _, fun _ cm => (sim2_easy c n nS prog _ _ bal cm br e hard pc _ gix code _ hdel hv hn hc).2⟩

theorem condFreeAll_take (es : List Expr) (k : Nat) (h : condFreeAll es = true) : condFreeAll (es.take k) = true := by
  induction es generalizing k with
  | nil => simp [condFreeAll]
  | cons e es ih =>
    cases k with
    | zero => simp [condFreeAll]
    | succ k =>
      simp only [condFreeAll, Bool.and_eq_true] at h
      simp only [List.take_succ_cons, condFreeAll, Bool.and_eq_true]
      exact ⟨h.1, ih k h.2⟩

theorem visitAlt_len (br : Nat → Bool) : ∀ (es : List Expr) (hard : Bool) (pc nsv gix : Nat) (f : Nat → Code) (endPc nsv' : Nat),
    visitAlt br es hard pc nsv gix = .ok (f, endPc, nsv') → ∀ t, pc + (f t).length = endPc
  | [], hard, pc, nsv, gix, f, endPc, nsv', hv, t => by
    simp only [visitAlt, Except.ok.injEq, Prod.mk.injEq] at hv
    obtain ⟨rfl, rfl, _⟩ := hv
    simp
  | [e], hard, pc, nsv, gix, f, endPc, nsv', hv, t => by
    simp only [visitAlt] at hv
    cases hb : visit br e hard pc nsv gix with
    | error err => simp [hb] at hv
    | ok p =>
      obtain ⟨c1, nsv1⟩ := p
      simp only [hb, Except.ok.injEq, Prod.mk.injEq] at hv
      obtain ⟨rfl, rfl, _⟩ := hv
      rfl
  | e :: e2 :: es, hard, pc, nsv, gix, f, endPc, nsv', hv, t => by
    simp only [visitAlt] at hv
    cases hb : visit br e hard (pc + 1) nsv gix with
    | error err => simp [hb] at hv
    | ok p =>
      obtain ⟨c1, nsv1⟩ := p
      simp only [hb] at hv
      cases hb2 : visitAlt br (e2 :: es) hard (pc + 1 + c1.length + 1) nsv1 (gix + groupCount e) with
      | error err => simp [hb2] at hv
      | ok p2 =>
        obtain ⟨f2, endPc2, nsv2⟩ := p2
        simp only [hb2, Except.ok.injEq, Prod.mk.injEq] at hv
        obtain ⟨rfl, rfl, _⟩ := hv
        have := visitAlt_len br (e2 :: es) hard _ nsv1 _ f2 endPc2 nsv2 hb2 t
        simp only [List.length_append, List.length_cons, List.length_nil]
        omega

theorem easy_isLiteral (br : Nat → Bool) (e : Expr) (hard : Bool) (pc nsv gix : Nat) (code : Code) (nsv' : Nat)
    (hdel : (!hard && !isHard br e) = true) (hv : visit br e hard pc nsv gix = .ok (code, nsv'))
    (hn : noDeleg code = true) : isLiteral e = true := by
  rw [visit.eq_def] at hv
  simp only [hdel, ↓reduceIte, Except.ok.injEq, Prod.mk.injEq] at hv
  obtain ⟨rfl, rfl⟩ := hv
  unfold compileDelegate at hn
  by_cases hl : isLiteral e = true
  · exact hl
  · simp [hl, noDeleg, Insn.isDelegate] at hn

theorem isAlt_false_ne (e : Expr) (h : isAlt e = false) : ∀ es, e ≠ .alt es := by
  intro es he; subst he; simp [isAlt] at h

/-- the go-back-then-body semantics of the look-behind layouts, in the form `C13_lookbehind_exact` gives -/
theorem back_flatMap (k : Nat) (body : St → List St) (st : St) :
    (if k ≤ st.ix then [({ st with ix := st.ix - k } : St)] else []).flatMap body =
      if k ≤ st.ix then body { st with ix := st.ix - k } else [] := by
  split <;> simp

mutual
theorem sim2_visit (c : Ctx) (n nS : Nat) (br : Nat → Bool) (hlen : c.len < UNSET) :
    ∀ (e : Expr) (hard : Bool) (pc nsv gix : Nat) (code : Code) (nsv' : Nat) (prog : List Insn),
      s2ok e = true → slotsBelow n e = true →
      visit br e hard pc nsv gix = .ok (code, nsv') → noDeleg code = true → CodeAt prog pc code →
      n ≤ nsv →
      SimOf c n nS prog nsv nsv' (condFree e) (sem c e) pc (pc + code.length)
  | .empty, hard, pc, nsv, gix, code, nsv', prog, _, _, hv, hn, hc, _ => by
    by_cases hdel : (!hard && !isHard br .empty) = true
    · exact simOf_easy c n nS prog _ br _ hard pc nsv gix code nsv' hdel hv hn hc
    · rw [visit] at hv
      simp only [hdel, Bool.false_eq_true, ↓reduceIte, Except.ok.injEq, Prod.mk.injEq] at hv
      obtain ⟨rfl, rfl⟩ := hv
      exact SimOf.leaf fun cm => by
        simpa using (Sim2.nil c n nS prog nsv nsv _ cm pc).congr (fun st => by simp [sem])
  | .any nl, hard, pc, nsv, gix, code, nsv', prog, _, _, hv, hn, hc, _ => by
    by_cases hdel : (!hard && !isHard br (.any nl)) = true
    · exact simOf_easy c n nS prog _ br _ hard pc nsv gix code nsv' hdel hv hn hc
    · cases nl with
      | true =>
        rw [visit] at hv
        simp only [hdel, Bool.false_eq_true, ↓reduceIte, Except.ok.injEq, Prod.mk.injEq] at hv
        obtain ⟨rfl, rfl⟩ := hv
        exact SimOf.leaf fun cm => by simpa using sim2_any c n nS prog nsv nsv _ cm pc hc.head
      | false =>
        rw [visit] at hv
        simp only [hdel, Bool.false_eq_true, ↓reduceIte, Except.ok.injEq, Prod.mk.injEq] at hv
        obtain ⟨rfl, rfl⟩ := hv
        exact SimOf.leaf fun cm => by simpa using sim2_anyNoNL c n nS prog nsv nsv _ cm pc hc.head
  | .assertion a, hard, pc, nsv, gix, code, nsv', prog, _, _, hv, hn, hc, _ => by
    by_cases hdel : (!hard && !isHard br (.assertion a)) = true
    · exact simOf_easy c n nS prog _ br _ hard pc nsv gix code nsv' hdel hv hn hc
    · rw [visit] at hv
      simp only [hdel, Bool.false_eq_true, ↓reduceIte, Except.ok.injEq, Prod.mk.injEq] at hv
      obtain ⟨rfl, rfl⟩ := hv
      exact SimOf.leaf fun cm => by simpa using sim2_assertion c n nS prog nsv nsv _ cm pc a hc.head
  | .literal v ci, hard, pc, nsv, gix, code, nsv', prog, hok, _, hv, hn, hc, _ => by
    by_cases hdel : (!hard && !isHard br (.literal v ci)) = true
    · exact simOf_easy c n nS prog _ br _ hard pc nsv gix code nsv' hdel hv hn hc
    · simp only [s2ok, Bool.and_eq_true, Bool.not_eq_true'] at hok
      have hci : ci = false := hok.1
      subst hci
      rw [visit] at hv
      simp only [hdel, Bool.false_eq_true, ↓reduceIte, Bool.not_false, Except.ok.injEq, Prod.mk.injEq] at hv
      obtain ⟨rfl, rfl⟩ := hv
      exact SimOf.leaf fun cm => by
        have := sim2_lit c n nS prog nsv nsv (condFree (.literal v false)) cm pc v hc.head
        simpa using this.congr (fun st => by simp [sem])
  | .backref g, hard, pc, nsv, gix, code, nsv', prog, _, hs, hv, hn, hc, _ => by
    rw [visit] at hv
    simp only [isHard, Bool.not_true, Bool.and_false, Bool.false_eq_true, ↓reduceIte, Except.ok.injEq, Prod.mk.injEq] at hv
    obtain ⟨rfl, rfl⟩ := hv
    exact SimOf.leaf fun cm => by
      simpa using sim2_backref c n nS prog nsv nsv _ cm pc g hlen hc.head (by simpa [slotsBelow] using hs)
  | .backrefExists g, hard, pc, nsv, gix, code, nsv', prog, _, hs, hv, hn, hc, _ => by
    rw [visit] at hv
    simp only [isHard, Bool.not_true, Bool.and_false, Bool.false_eq_true, ↓reduceIte, Except.ok.injEq, Prod.mk.injEq] at hv
    obtain ⟨rfl, rfl⟩ := hv
    exact SimOf.leaf fun cm => by
      simpa using sim2_backrefExists c n nS prog nsv nsv _ cm pc g hlen hc.head (by simpa [slotsBelow] using hs)
  | .keepOut, hard, pc, nsv, gix, code, nsv', prog, _, hs, hv, hn, hc, _ => by
    rw [visit] at hv
    simp only [isHard, Bool.not_true, Bool.and_false, Bool.false_eq_true, ↓reduceIte, Except.ok.injEq, Prod.mk.injEq] at hv
    obtain ⟨rfl, rfl⟩ := hv
    exact SimOf.leaf fun cm => by
      have := sim2_save c n nS prog nsv nsv (condFree .keepOut) cm pc 0 hc.head (by simpa [slotsBelow] using hs)
      simpa using this.congr (fun st => by simp [sem])
  | .contPrev, hard, pc, nsv, gix, code, nsv', prog, _, _, hv, hn, hc, _ => by
    rw [visit] at hv
    simp only [isHard, Bool.not_true, Bool.and_false, Bool.false_eq_true, ↓reduceIte, Except.ok.injEq, Prod.mk.injEq] at hv
    obtain ⟨rfl, rfl⟩ := hv
    exact SimOf.leaf fun cm => by simpa using sim2_contPrev c n nS prog nsv nsv _ cm pc hc.head
  | .delegate _ _ _, _, _, _, _, _, _, _, h, _, _, _, _, _ | .subroutine _, _, _, _, _, _, _, _, h, _, _, _, _, _ => by
    simp [s2ok] at h
  | .group g e, hard, pc, nsv, gix, code, nsv', prog, hok, hs, hv, hn, hc, hnn => by
    by_cases hdel : (!hard && !isHard br (.group g e)) = true
    · exact simOf_easy c n nS prog _ br _ hard pc nsv gix code nsv' hdel hv hn hc
    · rw [visit] at hv
      simp only [hdel, Bool.false_eq_true, ↓reduceIte] at hv
      cases hb : visit br e hard (pc + 1) nsv (gix + 1) with
      | error err => simp [hb] at hv
      | ok p =>
        obtain ⟨code1, nsv1⟩ := p
        simp only [hb, Except.ok.injEq, Prod.mk.injEq] at hv
        obtain ⟨rfl, rfl⟩ := hv
        simp only [s2ok] at hok
        simp only [slotsBelow, Bool.and_eq_true, decide_eq_true_eq] at hs
        have hn1 : noDeleg code1 = true := by
          simp only [noDeleg_append, Bool.and_eq_true] at hn; exact hn.1.2
        have hc1 : CodeAt prog (pc + 1) code1 := hc.left.right.cast (by addr)
        obtain ⟨hle, ih⟩ := sim2_visit c n nS br hlen e hard (pc + 1) nsv (gix + 1) code1 _ prog hok hs.2 hb hn1 hc1 hnn
        have hsave2 : prog[pc + 1 + code1.length]? = some (.save (g * 2 + 1)) := hc.right.head_at (by addr)
        refine ⟨hle, fun hnS cm => ?_⟩
        have := sim2_group (cm := cm) (g := g) hc.left.left.head hsave2 (ih hnS false) hs.1 (by omega)
        simp only [condFree]
        exact this.cast rfl (by addr)
  | .concat es, hard, pc, nsv, gix, code, nsv', prog, hok, hs, hv, hn, hc, hnn => by
    by_cases hdel : (!hard && !isHard br (.concat es)) = true
    · exact simOf_easy c n nS prog _ br _ hard pc nsv gix code nsv' hdel hv hn hc
    · rw [visit] at hv
      simp only [hdel, Bool.false_eq_true, ↓reduceIte] at hv
      simp only [s2ok] at hok
      simp only [slotsBelow] at hs
      generalize hsp : concatSplit br es hard = sp at hv
      have hle := concatSplit_le br es hard
      rw [hsp] at hle
      cases hb : visitMiddle br es sp.1 (sp.2 - sp.1)
          (pc + (compileDelegates (es.take sp.1) gix).length) nsv (gix + groupCountList (es.take sp.1)) with
      | error err => simp [hb] at hv
      | ok p =>
        obtain ⟨mid, nsv1⟩ := p
        simp only [hb, Except.ok.injEq, Prod.mk.injEq] at hv
        obtain ⟨rfl, rfl⟩ := hv
        simp only [noDeleg_append, Bool.and_eq_true] at hn
        have hcpre := hc.left.left
        have hcmid : CodeAt prog (pc + (compileDelegates (es.take sp.1) gix).length) mid := hc.left.right
        have hcsuf := hc.right
        obtain ⟨hle2, s2⟩ := sim2_visitMiddle c n nS br hlen es sp.1 (sp.2 - sp.1) _ nsv _ mid nsv1 prog hok hs hb hn.1.2 hcmid hnn
        refine ⟨hle2, fun hnS cm => ?_⟩
        have s1 := sim2_delegates_run c n nS prog nsv nsv (condFree (.concat es)) false (es.take sp.1) gix pc hn.1.1 hcpre
        have s3 := (sim2_delegates_run c n nS prog nsv1 nsv1 (condFree (.concat es)) cm (es.drop sp.2) _ _ hn.2 hcsuf).cast
          (a' := pc + (compileDelegates (es.take sp.1) gix).length + mid.length) (by addr) rfl
        have hsplit : es = es.take sp.1 ++ ((es.drop sp.1).take (sp.2 - sp.1) ++ es.drop sp.2) := by
          have h1 : es.drop sp.1 = (es.drop sp.1).take (sp.2 - sp.1) ++ (es.drop sp.1).drop (sp.2 - sp.1) :=
            (List.take_append_drop _ _).symm
          have h2 : (es.drop sp.1).drop (sp.2 - sp.1) = es.drop sp.2 := by
            rw [List.drop_drop]; congr 1; omega
          rw [← h2, ← h1, List.take_append_drop]
        have s2' := ((s2 hnS false).balTo (b2 := condFree (.concat es)) (by
          intro hb2
          simp only [condFree] at hb2
          have := condFreeAll_drop es sp.1 hb2
          exact condFreeAll_take _ _ this))
        have key := (s1.seq (s2'.seq s3 (keepsGood_semConcat c n _) hle2 (Nat.le_refl _) (by addr) (by addr))
          (keepsGood_semConcat c n _) (Nat.le_refl _) hle2 (by addr) (by addr))
        have := key.congr (g := sem c (.concat es)) (fun st => by
          simp only [sem]
          conv => rhs; rw [hsplit]
          rw [semConcat_append]
          congr 1; funext r; rw [semConcat_append])
        exact this.cast rfl (by addr)
  | .alt es, hard, pc, nsv, gix, code, nsv', prog, hok, hs, hv, hn, hc, hnn => by
    by_cases hdel : (!hard && !isHard br (.alt es)) = true
    · exact simOf_easy c n nS prog _ br _ hard pc nsv gix code nsv' hdel hv hn hc
    · rw [visit] at hv
      simp only [hdel, Bool.false_eq_true, ↓reduceIte] at hv
      simp only [s2ok, Bool.and_eq_true] at hok
      simp only [slotsBelow] at hs
      cases hb : visitAlt br es hard pc nsv gix with
      | error err => simp [hb] at hv
      | ok p =>
        obtain ⟨f, endPc, nsv1⟩ := p
        simp only [hb, Except.ok.injEq, Prod.mk.injEq] at hv
        obtain ⟨rfl, rfl⟩ := hv
        have ⟨hlenf, hsim⟩ := sim2_visitAlt c n nS br hlen es hard pc nsv gix f endPc _ prog hok.2 hs
          (by intro h; simp [h] at hok) hb hnn
        obtain ⟨hle, hsim⟩ := hsim hn hc
        refine ⟨hle, fun hnS cm => ?_⟩
        have h2 := (hsim hnS cm).congr (g := sem c (.alt es)) (fun st => by simp only [sem])
        simp only [condFree]
        exact h2.cast rfl (hlenf endPc)
  | .repeat e lo hi greedy, hard, pc, nsv, gix, code, nsv', prog, hok, hs, hv, hn, hc, hnn => by
    by_cases hdel : (!hard && !isHard br (.repeat e lo hi greedy)) = true
    · exact simOf_easy c n nS prog _ br _ hard pc nsv gix code nsv' hdel hv hn hc
    · simp only [s2ok, Bool.and_eq_true, Bool.or_eq_true, bne_iff_ne, ne_eq, decide_eq_true_eq] at hok
      simp only [slotsBelow] at hs
      obtain ⟨hoke, hshape⟩ := hok
      have hw := s2ok_wellShaped e hoke
      rw [visit] at hv
      simp only [hdel, Bool.false_eq_true, ↓reduceIte] at hv
      simp only [condFree]
      by_cases hopt : (lo == 0 && hi == some 1) = true
      · -- `?`
        simp only [hopt, ↓reduceIte] at hv
        simp only [Bool.and_eq_true, beq_iff_eq] at hopt
        obtain ⟨rfl, rfl⟩ := hopt
        cases hb : visit br e hard (pc + 1) nsv gix with
        | error err => simp [hb] at hv
        | ok p =>
          obtain ⟨code1, nsv1⟩ := p
          simp only [hb, Except.ok.injEq, Prod.mk.injEq] at hv
          obtain ⟨rfl, rfl⟩ := hv
          have hn1 : noDeleg code1 = true := by
            have : noDeleg ([if greedy = true then Insn.split (pc + 1) (pc + 1 + code1.length)
                else Insn.split (pc + 1 + code1.length) (pc + 1)] ++ code1) = true := by simpa using hn
            rw [noDeleg_append] at this
            simp only [Bool.and_eq_true] at this; exact this.2
          obtain ⟨hle, ih⟩ := sim2_visit c n nS br hlen e hard (pc + 1) nsv gix code1 _ prog hoke hs hb hn1 hc.tail hnn
          refine ⟨hle, fun hnS cm => ?_⟩
          have hhead := hc.head
          cases greedy with
          | true =>
            have := Sim2.optG (by simpa using hhead) (ih hnS cm) (by omega)
            have := this.congr (g := sem c (.repeat e 0 (some 1) true)) (fun st => by rw [sem_opt]; simp)
            exact this.cast rfl (by addr)
          | false =>
            have := Sim2.optL (by simpa using hhead) (ih hnS cm) (by omega)
            have := this.congr (g := sem c (.repeat e 0 (some 1) false)) (fun st => by rw [sem_opt]; simp)
            exact this.cast rfl (by addr)
      · simp only [hopt, Bool.false_eq_true, ↓reduceIte] at hv
        have heps : (hi == none && minSize e == 0) = false := by
          rcases hshape with h | h
          · cases hi with
            | none => exact absurd rfl h
            | some v => simp
          · have : (minSize e == 0) = false := by simp; omega
            simp [this]
        simp only [heps, Bool.false_eq_true, ↓reduceIte] at hv
        by_cases hstar : (lo == 0 && hi == none) = true
        · -- `*`
          simp only [hstar, ↓reduceIte] at hv
          simp only [Bool.and_eq_true, beq_iff_eq] at hstar
          obtain ⟨rfl, rfl⟩ := hstar
          have hm : 0 < minSize e := by rcases hshape with h | h; exact absurd rfl h; exact h
          cases hb : visit br e (hard || isHard br (.repeat e 0 none greedy)) (pc + 1) nsv gix with
          | error err => simp [hb] at hv
          | ok p =>
            obtain ⟨code1, nsv1⟩ := p
            simp only [hb, Except.ok.injEq, Prod.mk.injEq] at hv
            obtain ⟨rfl, rfl⟩ := hv
            have hn1 : noDeleg code1 = true := by
              simp only [noDeleg_append, Bool.and_eq_true] at hn; exact hn.1.2
            have hc1 : CodeAt prog (pc + 1) code1 := hc.left.right.cast (by addr)
            obtain ⟨hle, ih⟩ := sim2_visit c n nS br hlen e _ (pc + 1) nsv gix code1 _ prog hoke hs hb hn1 hc1 hnn
            refine ⟨hle, fun hnS cm => ?_⟩
            have hjmp : prog[pc + 1 + code1.length]? = some (.jmp pc) := hc.right.head_at (by addr)
            have hsplit := hc.left.left.head
            have := sim2_star (cm := cm) (greedy := greedy) (m := pc + 1 + code1.length)
              (by cases greedy <;> simpa [Nat.add_assoc] using hsplit) hjmp (ih hnS false) hw hm (by omega)
            exact this.cast rfl (by addr)
        · simp only [hstar, Bool.false_eq_true, ↓reduceIte] at hv
          by_cases hplus : (lo == 1 && hi == none) = true
          · -- `+`
            simp only [hplus, ↓reduceIte] at hv
            simp only [Bool.and_eq_true, beq_iff_eq] at hplus
            obtain ⟨rfl, rfl⟩ := hplus
            have hm : 0 < minSize e := by rcases hshape with h | h; exact absurd rfl h; exact h
            cases hb : visit br e (hard || isHard br (.repeat e 1 none greedy)) pc nsv gix with
            | error err => simp [hb] at hv
            | ok p =>
              obtain ⟨code1, nsv1⟩ := p
              simp only [hb, Except.ok.injEq, Prod.mk.injEq] at hv
              obtain ⟨rfl, rfl⟩ := hv
              have hn1 : noDeleg code1 = true := by
                simp only [noDeleg_append, Bool.and_eq_true] at hn; exact hn.1
              obtain ⟨hle, ih⟩ := sim2_visit c n nS br hlen e _ pc nsv gix code1 _ prog hoke hs hb hn1 hc.left hnn
              refine ⟨hle, fun hnS cm => ?_⟩
              have hsplit := hc.right.head
              have := sim2_plus (cm := cm) (greedy := greedy) (m := pc + code1.length)
                (by cases greedy <;> simpa using hsplit) (ih hnS false) hw hm (by omega)
              exact this.cast rfl (by addr)
          · -- counted
            simp only [hplus, Bool.false_eq_true, ↓reduceIte] at hv
            cases hb : visit br e (hard || isHard br (.repeat e lo hi greedy)) (pc + 2) (nsv + 1) gix with
            | error err => simp [hb] at hv
            | ok p =>
              obtain ⟨code1, nsv1⟩ := p
              simp only [hb, Except.ok.injEq, Prod.mk.injEq] at hv
              obtain ⟨rfl, rfl⟩ := hv
              have hn1 : noDeleg code1 = true := by
                simp only [noDeleg_append, Bool.and_eq_true] at hn; exact hn.1.2
              have hc1 : CodeAt prog (pc + 2) code1 := hc.left.right.cast (by addr)
              obtain ⟨hle, ih⟩ := sim2_visit c n nS br hlen e _ (pc + 2) (nsv + 1) gix code1 _ prog hoke hs hb hn1 hc1 (by omega)
              refine ⟨by omega, fun hnS cm => ?_⟩
              have hsave0 : prog[pc]? = some (.save0 nsv) := hc.left.left.head
              have hhead : prog[pc + 1]? = some (if greedy then Insn.repeatGr lo hi (pc + 2 + code1.length + 1) nsv
                  else Insn.repeatNg lo hi (pc + 2 + code1.length + 1) nsv) := by
                have := hc.left.left.tail.head
                cases greedy <;> simpa using this
              have hjmp : prog[pc + 2 + code1.length]? = some (.jmp (pc + 1)) := hc.right.head_at (by addr)
              have := sim2_counted (cm := cm) (e := e) (greedy := greedy) (lo := lo) (hi := hi) (m := pc + 2 + code1.length)
                hsave0 hhead hjmp (ih hnS false) hnn (by omega) hle (by omega) hw
                (by rcases hshape with h | h; exact Or.inl h; exact Or.inr h)
              exact this.cast rfl (by addr)
  | .look e .ahead, hard, pc, nsv, gix, code, nsv', prog, hok, hs, hv, hn, hc, hnn => by
    simp only [s2ok, Bool.and_eq_true] at hok
    simp only [slotsBelow] at hs
    rw [visit] at hv
    simp only [isHard, Bool.not_true, Bool.and_false, Bool.false_eq_true, ↓reduceIte] at hv
    cases hb : visit br e false (posLookBodyPc (isHard br e) false pc) (nsv + 1) gix with
    | error err => simp [hb] at hv
    | ok p =>
      obtain ⟨code1, nsv1⟩ := p
      simp only [hb, Except.ok.injEq, Prod.mk.injEq] at hv
      obtain ⟨rfl, rfl⟩ := hv
      simp only [condFree, hok.2]
      by_cases hh : isHard br e = true
      · -- atomic layout
        simp only [hh, wrapPosLook, posLookBodyPc, ↓reduceIte, Bool.false_eq_true, List.append_nil, Nat.add_zero] at hn hc hb ⊢
        have hn1 : noDeleg code1 = true := by
          simp only [noDeleg_append, Bool.and_eq_true] at hn; exact hn.1.2.1.2
        have hc1 : CodeAt prog (pc + 2) code1 := hc.left.right.left.right.cast (by addr)
        obtain ⟨hle, ih⟩ := sim2_visit c n nS br hlen e false (pc + 1 + 1) (nsv + 1) gix code1 _ prog hok.1 hs hb hn1 hc1 (by omega)
        refine ⟨by omega, fun hnS cm => ?_⟩
        have hbody := ih hnS true
        rw [hok.2] at hbody
        have hsave : prog[pc + 1]? = some (.save nsv) := hc.left.right.left.left.head_at (by addr)
        have hrestore : prog[pc + 2 + code1.length]? = some (.restore nsv) := hc.left.right.right.head_at (by addr)
        have hend : prog[pc + 2 + code1.length + 1]? = some .endAtomic := hc.right.head_at (by addr)
        have := sim2_sem_ahead_atomic (cm := cm) (e := e) (slot := nsv) (hi := nsv1) (a := pc) (m := pc + 2 + code1.length)
          hc.left.left.head hsave hrestore hend hnn (by omega) (by omega) hbody
        exact this.cast rfl (by addr)
      · -- plain layout: the body is not hard, compiled in a non-hard context: a literal
        have hh' : isHard br e = false := by simpa using hh
        simp only [hh', wrapPosLook, posLookBodyPc, ↓reduceIte, Bool.false_eq_true, List.append_nil, Nat.add_zero] at hn hc hb ⊢
        have hn1 : noDeleg code1 = true := by
          simp only [noDeleg_append, Bool.and_eq_true] at hn; exact hn.1.2
        have hc1 : CodeAt prog (pc + 1) code1 := hc.left.right.cast (by addr)
        have hlit := easy_isLiteral br e false (pc + 1) (nsv + 1) gix code1 nsv1 (by simp [hh']) hb hn1
        obtain ⟨hle, ih⟩ := sim2_visit c n nS br hlen e false (pc + 1) (nsv + 1) gix code1 _ prog hok.1 hs hb hn1 hc1 (by omega)
        refine ⟨by omega, fun hnS cm => ?_⟩
        have hbody := ih hnS cm
        rw [hok.2] at hbody
        have hrestore : prog[pc + 1 + code1.length]? = some (.restore nsv) := hc.right.head_at (by addr)
        have := sim2_sem_ahead_plain (cm := cm) (bal := true) (e := e) (slot := nsv) (hi := nsv1) (a := pc) (m := pc + 1 + code1.length)
          hc.left.left.head hrestore hnn (by omega) (by omega) hbody
          (length_le_one_of_isLiteral c e hlit)
        exact this.cast rfl (by addr)
  | .look e .aheadNeg, hard, pc, nsv, gix, code, nsv', prog, hok, hs, hv, hn, hc, hnn => by
    simp only [s2ok] at hok
    simp only [slotsBelow] at hs
    rw [visit] at hv
    simp only [isHard, Bool.not_true, Bool.and_false, Bool.false_eq_true, ↓reduceIte] at hv
    cases hb : visit br e false (negLookBodyPc false pc) nsv gix with
    | error err => simp [hb] at hv
    | ok p =>
      obtain ⟨code1, nsv1⟩ := p
      simp only [hb, Except.ok.injEq, Prod.mk.injEq] at hv
      obtain ⟨rfl, rfl⟩ := hv
      simp only [wrapNegLook, negLookBodyPc, Bool.false_eq_true, ↓reduceIte, List.nil_append, Nat.add_zero] at hn hc hb ⊢
      have hn1 : noDeleg code1 = true := by
        simp only [noDeleg_append, Bool.and_eq_true] at hn; exact hn.1.2
      have hc1 : CodeAt prog (pc + 1) code1 := hc.left.right.cast (by addr)
      obtain ⟨hle, ih⟩ := sim2_visit c n nS br hlen e false (pc + 1) nsv gix code1 _ prog hok hs hb hn1 hc1 hnn
      refine ⟨hle, fun hnS cm => ?_⟩
      have hfail : prog[pc + 1 + code1.length]? = some .failNegLook := hc.right.head_at (by addr)
      have hsplit : prog[pc]? = some (.split (pc + 1) (pc + 1 + code1.length + 1)) := hc.left.left.head
      have := sim2_sem_aheadNeg (cm := cm) (e := e) (m := pc + 1 + code1.length) hsplit hfail (ih hnS true)
      have := this.balTo (b2 := condFree (.look e .aheadNeg)) (fun _ => rfl)
      exact this.cast rfl (by addr)
  | .look e .behind, hard, pc, nsv, gix, code, nsv', prog, hok, hs, hv, hn, hc, hnn => by
    simp only [s2ok, Bool.and_eq_true, Bool.not_eq_true'] at hok
    simp only [slotsBelow] at hs
    obtain ⟨⟨⟨hoke, hcf⟩, hna⟩, hz⟩ := hok
    have hna' := isAlt_false_ne e hna
    have hw := s2ok_wellShaped e hoke
    by_cases hcs : constSize e = true
    · rw [C13_accept_behind_const br e hna' hcs] at hv
      cases hb : visit br e false (posLookBodyPc (isHard br e) true pc) (nsv + 1) gix with
      | error err => simp [hb] at hv
      | ok p =>
        obtain ⟨code1, nsv1⟩ := p
        simp only [hb, Except.ok.injEq, Prod.mk.injEq] at hv
        obtain ⟨rfl, rfl⟩ := hv
        simp only [condFree, hcf]
        have hsemeq : ∀ st, st.Good c n →
            (firstOnly ((if minSize e ≤ st.ix then [({ st with ix := st.ix - minSize e } : St)] else []).flatMap (sem c e))).map
              (fun r => ({ r with ix := st.ix } : St)) = sem c (.look e .behind) st := by
          intro st hg
          rw [C13_lookbehind_pos c n e hna' hw hcs hz st hg (by omega), back_flatMap]
        by_cases hh : isHard br e = true
        · simp only [hh, wrapPosLook, posLookBodyPc, ↓reduceIte, Nat.add_zero] at hn hc hb ⊢
          have hn1 : noDeleg code1 = true := by
            simp only [noDeleg_append, Bool.and_eq_true] at hn; exact hn.1.2.1.2
          have hc1 : CodeAt prog (pc + 3) code1 := hc.left.right.left.right.cast (by addr)
          obtain ⟨hle, ih⟩ := sim2_visit c n nS br hlen e false (pc + 1 + 1 + 1) (nsv + 1) gix code1 _ prog hoke hs hb hn1 hc1 (by omega)
          refine ⟨by omega, fun hnS cm => ?_⟩
          have hbody := ih hnS true
          rw [hcf] at hbody
          have hsave : prog[pc + 1]? = some (.save nsv) := hc.left.right.left.left.left.head_at (by addr)
          have hback : prog[pc + 2]? = some (.goBack (minSize e)) := hc.left.right.left.left.right.head_at (by addr)
          have hrestore : prog[pc + 3 + code1.length]? = some (.restore nsv) := hc.left.right.right.head_at (by addr)
          have hend : prog[pc + 3 + code1.length + 1]? = some .endAtomic := hc.right.head_at (by addr)
          have := sim2_posbehind_atomic (cm := cm) (body := sem c e) (slot := nsv) (hi := nsv1) (a := pc)
            (m := pc + 3 + code1.length) (k := minSize e)
            hc.left.left.head hsave hback hrestore hend hnn (by omega) (by omega) (by omega) hbody (keepsGood_sem c n e)
          exact (this.congrGood hsemeq).cast rfl (by addr)
        · have hh' : isHard br e = false := by simpa using hh
          simp only [hh', wrapPosLook, posLookBodyPc, ↓reduceIte, Bool.false_eq_true, Nat.add_zero] at hn hc hb ⊢
          have hn1 : noDeleg code1 = true := by
            simp only [noDeleg_append, Bool.and_eq_true] at hn; exact hn.1.2
          have hc1 : CodeAt prog (pc + 2) code1 := hc.left.right.cast (by addr)
          have hlit := easy_isLiteral br e false (pc + 1 + 1) (nsv + 1) gix code1 nsv1 (by simp [hh']) hb hn1
          obtain ⟨hle, ih⟩ := sim2_visit c n nS br hlen e false (pc + 1 + 1) (nsv + 1) gix code1 _ prog hoke hs hb hn1 hc1 (by omega)
          refine ⟨by omega, fun hnS cm => ?_⟩
          have hbody := ih hnS cm
          rw [hcf] at hbody
          have hback : prog[pc + 1]? = some (.goBack (minSize e)) := hc.left.left.right.head_at (by addr)
          have hrestore : prog[pc + 2 + code1.length]? = some (.restore nsv) := hc.right.head_at (by addr)
          have := sim2_posbehind_plain (cm := cm) (bal := true) (body := sem c e) (slot := nsv) (hi := nsv1) (a := pc)
            (m := pc + 2 + code1.length) (k := minSize e)
            hc.left.left.left.head hback hrestore hnn (by omega) (by omega) (by omega) hbody (keepsGood_sem c n e)
            (length_le_one_of_isLiteral c e hlit)
          exact (this.congrGood hsemeq).cast rfl (by addr)
    · have hcs' : constSize e = false := by simpa using hcs
      rw [C13_accept_behind_not_const br e hna' hcs'] at hv
      cases hv
  | .look e .behindNeg, hard, pc, nsv, gix, code, nsv', prog, hok, hs, hv, hn, hc, hnn => by
    simp only [s2ok, Bool.and_eq_true, Bool.not_eq_true'] at hok
    simp only [slotsBelow] at hs
    obtain ⟨⟨hoke, hna⟩, hz⟩ := hok
    have hna' := isAlt_false_ne e hna
    have hw := s2ok_wellShaped e hoke
    by_cases hcs : constSize e = true
    · rw [C13_accept_behindNeg_const br e hna' hcs] at hv
      cases hb : visit br e false (negLookBodyPc true pc) nsv gix with
      | error err => simp [hb] at hv
      | ok p =>
        obtain ⟨code1, nsv1⟩ := p
        simp only [hb, Except.ok.injEq, Prod.mk.injEq] at hv
        obtain ⟨rfl, rfl⟩ := hv
        simp only [wrapNegLook, negLookBodyPc, ↓reduceIte] at hn hc hb ⊢
        have hn1 : noDeleg code1 = true := by
          simp only [noDeleg_append, Bool.and_eq_true] at hn; exact hn.1.2.2
        have hc1 : CodeAt prog (pc + 2) code1 := hc.left.right.right.cast (by addr)
        obtain ⟨hle, ih⟩ := sim2_visit c n nS br hlen e false (pc + 1 + 1) nsv gix code1 _ prog hoke hs hb hn1 hc1 hnn
        refine ⟨hle, fun hnS cm => ?_⟩
        have hsplit : prog[pc]? = some (.split (pc + 1) (pc + 2 + code1.length + 1)) := by
          have := hc.left.left.head
          simpa [Nat.add_assoc, Nat.add_comm, Nat.add_left_comm] using this
        have hback : prog[pc + 1]? = some (.goBack (minSize e)) := hc.left.right.left.head_at (by addr)
        have hfail : prog[pc + 2 + code1.length]? = some .failNegLook := hc.right.head_at (by addr)
        have := sim2_negbehind (cm := cm) (body := sem c e) (a := pc) (m := pc + 2 + code1.length) (k := minSize e)
          hsplit hback hfail (by omega) hle (ih hnS true)
        have hsemeq : ∀ st, st.Good c n →
            (if ((if minSize e ≤ st.ix then [({ st with ix := st.ix - minSize e } : St)] else []).flatMap (sem c e)).isEmpty
              then [st] else []) = sem c (.look e .behindNeg) st := by
          intro st hg
          rw [C13_lookbehind_neg c n e hna' hw hcs hz st hg (by omega), back_flatMap]
        have := (this.congrGood hsemeq).balTo (b2 := condFree (.look e .behindNeg)) (fun _ => rfl)
        exact this.cast rfl (by addr)
    · have hcs' : constSize e = false := by simpa using hcs
      rw [C13_accept_behindNeg_not_const br e hna' hcs'] at hv
      cases hv
  | .atomic e, hard, pc, nsv, gix, code, nsv', prog, hok, hs, hv, hn, hc, hnn => by
    simp only [s2ok, Bool.and_eq_true] at hok
    simp only [slotsBelow] at hs
    rw [visit] at hv
    simp only [isHard, Bool.not_true, Bool.and_false, Bool.false_eq_true, ↓reduceIte] at hv
    cases hb : visit br e false (pc + 1) nsv gix with
    | error err => simp [hb] at hv
    | ok p =>
      obtain ⟨code1, nsv1⟩ := p
      simp only [hb, Except.ok.injEq, Prod.mk.injEq] at hv
      obtain ⟨rfl, rfl⟩ := hv
      have hn1 : noDeleg code1 = true := by
        simp only [noDeleg_append, Bool.and_eq_true] at hn; exact hn.1.2
      have hc1 : CodeAt prog (pc + 1) code1 := hc.left.right.cast (by addr)
      obtain ⟨hle, ih⟩ := sim2_visit c n nS br hlen e false (pc + 1) nsv gix code1 _ prog hok.1 hs hb hn1 hc1 hnn
      refine ⟨hle, fun hnS cm => ?_⟩
      have hend : prog[pc + 1 + code1.length]? = some .endAtomic := hc.right.head_at (by addr)
      have hbody := ih hnS true
      rw [hok.2] at hbody
      have := sim2_sem_atomic (cm := cm) (e := e) (m := pc + 1 + code1.length) hc.left.left.head hend hbody
      simp only [condFree, hok.2]
      exact this.cast rfl (by addr)
  | .cond cnd y no, hard, pc, nsv, gix, code, nsv', prog, hok, hs, hv, hn, hc, hnn => by
    simp only [s2ok, Bool.and_eq_true] at hok
    simp only [slotsBelow, Bool.and_eq_true] at hs
    rw [visit] at hv
    simp only [isHard, Bool.not_true, Bool.and_false, Bool.false_eq_true, ↓reduceIte] at hv
    cases hb1 : visit br cnd hard (pc + 2) nsv gix with
    | error err => simp [hb1] at hv
    | ok p1 =>
      obtain ⟨cc, nsv1⟩ := p1
      simp only [hb1] at hv
      cases hb2 : visit br y hard (pc + 2 + cc.length + 1) nsv1 (gix + groupCount cnd) with
      | error err => simp [hb2] at hv
      | ok p2 =>
        obtain ⟨yc, nsv2⟩ := p2
        simp only [hb2] at hv
        cases hb3 : visit br no hard (pc + 2 + cc.length + 1 + yc.length + 1) nsv2 (gix + groupCount cnd + groupCount y) with
        | error err => simp [hb3] at hv
        | ok p3 =>
          obtain ⟨nc, nsv3⟩ := p3
          simp only [hb3, Except.ok.injEq, Prod.mk.injEq] at hv
          obtain ⟨rfl, rfl⟩ := hv
          simp only [noDeleg_append, Bool.and_eq_true] at hn
          have hcc : CodeAt prog (pc + 2) cc := hc.left.left.left.left.right.cast (by addr)
          have hcy : CodeAt prog (pc + 2 + cc.length + 1) yc := hc.left.left.right.cast (by addr)
          have hcn : CodeAt prog (pc + 2 + cc.length + 1 + yc.length + 1) nc := hc.right.cast (by addr)
          obtain ⟨hle1, ih1⟩ := sim2_visit c n nS br hlen cnd hard (pc + 2) nsv gix cc _ prog hok.1.1.1 hs.1.1 hb1
            hn.1.1.1.1.2 hcc hnn
          obtain ⟨hle2, ih2⟩ := sim2_visit c n nS br hlen y hard _ nsv1 _ yc _ prog hok.1.2 hs.1.2 hb2
            hn.1.1.2 hcy (by omega)
          obtain ⟨hle3, ih3⟩ := sim2_visit c n nS br hlen no hard _ nsv2 _ nc _ prog hok.2 hs.2 hb3
            hn.2 hcn (by omega)
          refine ⟨by omega, fun hnS cm => ?_⟩
          have hbegin : prog[pc]? = some .beginAtomic := hc.left.left.left.left.left.head
          have hsplit : prog[pc + 1]? = some (.split (pc + 2) (pc + 2 + cc.length + 1 + yc.length + 1)) :=
            hc.left.left.left.left.left.tail.head
          have hend : prog[pc + 2 + cc.length]? = some .endAtomic := hc.left.left.left.right.head_at (by addr)
          have hjmp : prog[pc + 2 + cc.length + 1 + yc.length]? =
              some (.jmp (pc + 2 + cc.length + 1 + yc.length + 1 + nc.length)) := hc.left.right.head_at (by addr)
          have hcond := ih1 (by omega) true
          rw [hok.1.1.2] at hcond
          have := sim2_cond_sem (cm := cm) (cnd := cnd) (y := y) (no := no)
            (e1 := pc + 2 + cc.length) (e2 := pc + 2 + cc.length + 1 + yc.length)
            (endPc := pc + 2 + cc.length + 1 + yc.length + 1 + nc.length)
            hbegin (by simpa [Nat.add_assoc] using hsplit) hend hjmp hcond (ih2 (by omega) cm) (ih3 hnS cm)
            (by omega) (by omega) (by omega) hle1 hle2 hle3
          simp only [condFree]
          exact this.cast rfl (by addr)
termination_by e => sizeOf e
decreasing_by all_goals (simp_wf; try omega)
theorem sim2_visitMiddle (c : Ctx) (n nS : Nat) (br : Nat → Bool) (hlen : c.len < UNSET) :
    ∀ (es : List Expr) (skip take pc nsv gix : Nat) (code : Code) (nsv' : Nat) (prog : List Insn),
      s2okAll es = true → slotsBelowAll n es = true →
      visitMiddle br es skip take pc nsv gix = .ok (code, nsv') → noDeleg code = true → CodeAt prog pc code →
      n ≤ nsv →
      SimOf c n nS prog nsv nsv' (condFreeAll ((es.drop skip).take take)) (semConcat c ((es.drop skip).take take)) pc (pc + code.length)
  | [], skip, take, pc, nsv, gix, code, nsv', prog, _, _, hv, _, _, _ => by
    simp only [visitMiddle, Except.ok.injEq, Prod.mk.injEq] at hv
    obtain ⟨rfl, rfl⟩ := hv
    exact SimOf.leaf fun cm => by
      simpa [semConcat] using (Sim2.nil c n nS prog nsv nsv _ cm pc).congr (fun st => by simp [semConcat])
  | e :: es, skip + 1, take, pc, nsv, gix, code, nsv', prog, hok, hs, hv, hn, hc, hnn => by
    simp only [visitMiddle] at hv
    simp only [s2okAll, Bool.and_eq_true] at hok
    simp only [slotsBelowAll, Bool.and_eq_true] at hs
    simpa using sim2_visitMiddle c n nS br hlen es skip take pc nsv gix code nsv' prog hok.2 hs.2 hv hn hc hnn
  | e :: es, 0, 0, pc, nsv, gix, code, nsv', prog, _, _, hv, _, _, _ => by
    simp only [visitMiddle, Except.ok.injEq, Prod.mk.injEq] at hv
    obtain ⟨rfl, rfl⟩ := hv
    exact SimOf.leaf fun cm => by
      simpa [semConcat] using (Sim2.nil c n nS prog nsv nsv _ cm pc).congr (fun st => by simp [semConcat])
  | e :: es, 0, take + 1, pc, nsv, gix, code, nsv', prog, hok, hs, hv, hn, hc, hnn => by
    simp only [visitMiddle] at hv
    simp only [s2okAll, Bool.and_eq_true] at hok
    simp only [slotsBelowAll, Bool.and_eq_true] at hs
    cases hb : visit br e true pc nsv gix with
    | error err => simp [hb] at hv
    | ok p =>
      obtain ⟨c1, nsv1⟩ := p
      simp only [hb] at hv
      cases hb2 : visitMiddle br es 0 take (pc + c1.length) nsv1 (gix + groupCount e) with
      | error err => simp [hb2] at hv
      | ok p2 =>
        obtain ⟨c2, nsv2⟩ := p2
        simp only [hb2, Except.ok.injEq, Prod.mk.injEq] at hv
        obtain ⟨rfl, rfl⟩ := hv
        simp only [noDeleg_append, Bool.and_eq_true] at hn
        obtain ⟨hle1, s1⟩ := sim2_visit c n nS br hlen e true pc nsv gix c1 nsv1 prog hok.1 hs.1 hb hn.1 hc.left hnn
        obtain ⟨hle2, s2⟩ := sim2_visitMiddle c n nS br hlen es 0 take (pc + c1.length) nsv1 _ c2 _ prog hok.2 hs.2 hb2 hn.2
          hc.right (by omega)
        refine ⟨by omega, fun hnS cm => ?_⟩
        have hbal : condFreeAll (((e :: es).drop 0).take (take + 1)) = (condFree e && condFreeAll ((es.drop 0).take take)) := by
          simp [condFreeAll]
        rw [hbal]
        have s1' := (s1 (by omega) false).balTo (b2 := condFree e && condFreeAll ((es.drop 0).take take))
          (by intro h; simp only [Bool.and_eq_true] at h; exact h.1)
        have s2' := (s2 hnS cm).balTo (b2 := condFree e && condFreeAll ((es.drop 0).take take))
          (by intro h; simp only [Bool.and_eq_true] at h; exact h.2)
        have := (s1'.seq s2' (keepsGood_sem c n e) hle1 hle2 (by omega) (by omega)).congr
          (g := semConcat c (((e :: es).drop 0).take (take + 1))) (fun st => by simp [semConcat])
        exact this.cast rfl (by addr)
termination_by es => sizeOf es
decreasing_by all_goals (simp_wf; try omega)
theorem sim2_visitAlt (c : Ctx) (n nS : Nat) (br : Nat → Bool) (hlen : c.len < UNSET) :
    ∀ (es : List Expr) (hard : Bool) (pc nsv gix : Nat) (f : Nat → Code) (endPc nsv' : Nat) (prog : List Insn),
      s2okAll es = true → slotsBelowAll n es = true → es ≠ [] →
      visitAlt br es hard pc nsv gix = .ok (f, endPc, nsv') → n ≤ nsv →
      (∀ t, pc + (f t).length = endPc) ∧
        (noDeleg (f endPc) = true → CodeAt prog pc (f endPc) →
          SimOf c n nS prog nsv nsv' (condFreeAll es) (semAlt c es) pc endPc)
  | [], hard, pc, nsv, gix, f, endPc, nsv', prog, _, _, hne, hv, _ => absurd rfl hne
  | [e], hard, pc, nsv, gix, f, endPc, nsv', prog, hok, hs, _, hv, hnn => by
    simp only [visitAlt] at hv
    simp only [s2okAll, Bool.and_eq_true] at hok
    simp only [slotsBelowAll, Bool.and_eq_true] at hs
    cases hb : visit br e hard pc nsv gix with
    | error err => simp [hb] at hv
    | ok p =>
      obtain ⟨c1, nsv1⟩ := p
      simp only [hb, Except.ok.injEq, Prod.mk.injEq] at hv
      obtain ⟨rfl, rfl, rfl⟩ := hv
      refine ⟨by simp, ?_⟩
      intro hn hc
      obtain ⟨hle, ih⟩ := sim2_visit c n nS br hlen e hard pc nsv gix c1 nsv1 prog hok.1 hs.1 hb hn hc hnn
      refine ⟨hle, fun hnS cm => ?_⟩
      simp only [condFreeAll, Bool.and_true]
      exact (ih hnS cm).congr (fun st => by simp [semAlt])
  | e :: e2 :: es, hard, pc, nsv, gix, f, endPc, nsv', prog, hok, hs, _, hv, hnn => by
    simp only [visitAlt] at hv
    simp only [s2okAll, Bool.and_eq_true] at hok
    simp only [slotsBelowAll, Bool.and_eq_true] at hs
    cases hb : visit br e hard (pc + 1) nsv gix with
    | error err => simp [hb] at hv
    | ok p =>
      obtain ⟨c1, nsv1⟩ := p
      simp only [hb] at hv
      cases hb2 : visitAlt br (e2 :: es) hard (pc + 1 + c1.length + 1) nsv1 (gix + groupCount e) with
      | error err => simp [hb2] at hv
      | ok p2 =>
        obtain ⟨f2, endPc2, nsv2⟩ := p2
        simp only [hb2, Except.ok.injEq, Prod.mk.injEq] at hv
        obtain ⟨rfl, rfl, rfl⟩ := hv
        have hlen2 : ∀ t, pc + 1 + c1.length + 1 + (f2 t).length = endPc2 :=
          visitAlt_len br (e2 :: es) hard _ nsv1 _ f2 endPc2 nsv2 hb2
        refine ⟨by intro t; have := hlen2 t; simp only [List.length_append, List.length_cons, List.length_nil]; omega, ?_⟩
        intro hn hc
        simp only [noDeleg_append, Bool.and_eq_true] at hn
        have hc1 : CodeAt prog (pc + 1) c1 := hc.left.left.right.cast (by addr)
        have hcj : prog[pc + 1 + c1.length]? = some (.jmp _) := hc.left.right.head_at (by addr)
        have hc2 : CodeAt prog (pc + 1 + c1.length + 1) (f2 _) := hc.right.cast (by addr)
        obtain ⟨hle1, s1⟩ := sim2_visit c n nS br hlen e hard (pc + 1) nsv gix c1 nsv1 prog hok.1 hs.1 hb hn.1.1.2 hc1 hnn
        have ⟨_, hsim2⟩ := sim2_visitAlt c n nS br hlen (e2 :: es) hard (pc + 1 + c1.length + 1) nsv1 _ f2 _ _ prog
          (by simp [s2okAll, hok.2.1, hok.2.2]) (by simp [slotsBelowAll, hs.2.1, hs.2.2]) (by simp) hb2 (by omega)
        obtain ⟨hle2, s2⟩ := hsim2 hn.2 hc2
        refine ⟨by omega, fun hnS cm => ?_⟩
        have hsplit : prog[pc]? = some (.split (pc + 1) (pc + 1 + c1.length + 1)) := hc.left.left.left.head
        have hbal : condFreeAll (e :: e2 :: es) = (condFree e && condFreeAll (e2 :: es)) := by simp [condFreeAll]
        rw [hbal]
        have s1' := ((s1 (by omega) cm).widen (Nat.le_refl nsv) hle2).balTo (b2 := condFree e && condFreeAll (e2 :: es))
          (by intro h; simp only [Bool.and_eq_true] at h; exact h.1)
        have s2' := ((s2 hnS cm).widen hle1 (Nat.le_refl _)).balTo (b2 := condFree e && condFreeAll (e2 :: es))
          (by intro h; simp only [Bool.and_eq_true] at h; exact h.2)
        have := Sim2.alt2 (m := pc + 1 + c1.length) hsplit hcj (by simpa using s1') s2' (by omega) (by have := hlen2 endPc2; omega)
        exact this.congr (fun st => by simp [semAlt])
termination_by es => sizeOf es
decreasing_by all_goals (simp_wf; try omega)
end

end Fancy
