import FancyModel.Model.Api
/-!
# Hand-written prelude of the generated API layer (`GeneratedApi.lean`)

`tools/rs2lean_api.py` translates the iterator `next` functions, `next_utf8`, `codepoint_len` and `try_replacen`
(src/lib.rs) statement by statement. What the translation does NOT take from the Rust text is fixed here and is
*trusted*; notes/translator-api.md has the full table.

* `usize`, `u8`, `u32` are `Nat`; `+` does not overflow; `self.limit -= 1` is `- 1` (it is guarded by `limit == 0`).
* `&str` is its UTF-8 bytes; `text.len()` = `length`, `text.as_bytes().get(i)` = `text[i]?`.
* the iterator structs are the records of Model/Api.lean: `Matches { re, text, last_end, last_match }` and
  `CaptureMatches(Matches)` are `Api.Iter` (`re` is the oracle parameter, `text` the text parameter); `Split { matches,
  next_start, target }` is `Api.Split`; `SplitN { splits, limit }` is `Api.SplitN`. The declarations are compared with
  these tables on every run.
* `Match` is the pair `(start, end)`; `Captures` is an abstract `α` with `span : α → Nat × Nat` for `.get(0)`.
* **the engine**: `self.re.find_from_pos_with_option_flags(text, pos, flags)` / `captures_from_pos_with_option_flags` are
  the abstract oracle applied to `pos` and to the flag bit, tested as vm.rs tests it (`engineSearch`).
* `&self.target[a..b]` in `Split` / `SplitN` is the item `Item.piece a b` (that these slices do not panic is C05's
  business); in `try_replacen` `&text[a..b]` is `Utf8.slice` and a failing slice is the outcome `Replaced.panic`, as in
  the model.
* `String`: `with_capacity` = `[]`, `push_str x` = `++ x`; the `Replacer` is its two methods: `no_expansion()` a given
  `Option Bytes`, `replace_append(&caps, &mut dst)` = `dst ++ replace_append caps` for a given function.
* a recursive `return self.next()` consumes one unit of fuel (`(none, self, true)` when it is used up); an iterator
  handed to `for` / `peekable` is the list of its items (`iterItems`: repeated calls of the TRANSLATED `next`, with the
  bounds `Api.Iter.collect` uses); `enumerate()` = `enumFrom 0`, `peek().is_none()` = the list is empty.
-/
namespace Fancy.GenApi
open Fancy.Api Fancy.Utf8

/-- `find_from_pos_with_option_flags` / `captures_from_pos_with_option_flags`: the oracle at `pos`, told whether the
    `OPTION_SKIPPED_EMPTY_MATCH` bit (`mask`) is set in `flags` (`option_flags & OPTION_SKIPPED_EMPTY_MATCH != 0` in vm.rs) -/
def engineSearch {α : Type} (f : Oracle α) (mask : Nat) (text : Bytes) (pos flags : Nat) :
    Except SearchErr (Option α) :=
  f pos (flags &&& mask != 0)

/-- `Iterator::enumerate` from index `n` -/
def enumFrom {α : Type} (n : Nat) : List α → List (Nat × α)
  | [] => []
  | x :: xs => (n, x) :: enumFrom (n + 1) xs

/-- the items of a `Matches` / `CaptureMatches` iterator, by repeated calls of `next` (the bounds of `Api.Iter.collect`) -/
def iterItems {item : Type} (next : Nat → Iter → Option item × Iter × Bool) (text : Bytes) : Nat → Iter → List item
  | 0, _ => []
  | n + 1, it =>
    match next (text.length + 2) it with
    | (none, _, _) => []
    | (some x, it', _) => x :: iterItems next text n it'

/-- what a `for` body over an iterator yields: the accumulators (also after `break`), or the function's result -/
inductive LoopRes (β ρ : Type) where
  | next (acc : β)
  | ret (r : ρ)

end Fancy.GenApi
