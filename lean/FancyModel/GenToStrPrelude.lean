import FancyModel.Model.ToStr
import FancyModel.Model.Utf8
import FancyModel.Generated
/-!
# Hand-written prelude of the generated printer (`GeneratedToStr.lean`)

`tools/rs2lean_tostr.py` translates `is_special`, `push_usize`, `push_quoted`, `escape` and `Expr::to_str` (src/lib.rs)
statement by statement. What the translation does NOT take from the Rust text is fixed here and is *trusted*;
notes/translator-tostr.md has the full table.

* `usize` is `Nat` (`/`, `%`, comparisons exact; `+` does not overflow); `u8` is a `Nat` below 256: `e as u8` is
  `e % 256` (the truncating cast), `a + b` on `u8` is CHECKED (`u8Add`: `none` = "attempt to add with overflow", a panic
  outcome, as in a build with overflow checks), `a % b` on `u8` is `%`; `b as char` for a `u8` is `Char.ofNat b`.
* `String` / `&str` are `List Char`: `push c` = `++ [c]`, `push_str s` = `++ s`, `s.chars()` = the list, `with_capacity` =
  `[]`; `text.bytes()` is the UTF-8 encoding of the characters (`strBytes`, Model/Utf8.lean `encode`).
* `Expr` is the model's `Expr` (the variant table of tools/rs2lean_analyze.py, compared with `enum Expr` on every run);
  `Repeat::hi : usize` with `usize::MAX` = unbounded is `Option Nat`, read through `hiVal`.
* a function that writes into `buf: &mut String` takes the buffer and returns the buffer afterwards; if it can panic
  (`panic!`, `u8` addition) it returns `Option`, `none` = the panic. `Cow::Borrowed(text)` is `none`, `Cow::Owned(s)` is
  `some s` (the model's convention for `escape`).
-/
namespace Fancy.GenToStr

/-- `Repeat::hi` as the `usize` the Rust code sees -/
def hiVal : Option Nat → Nat
  | none => UNSET
  | some h => h

/-- `a + b` on `u8` with overflow checks -/
def u8Add (a b : Nat) : Option Nat := if a + b < 256 then some (a + b) else none

/-- `text.bytes()` -/
def strBytes (s : List Char) : List Nat := Utf8.encode (s.map Char.toNat)

end Fancy.GenToStr
