import FancyModel.Model.VMBytes
/-!
# Hand-written prelude of the generated interpreter (`GeneratedVM.lean`)

`tools/rs2lean_vm.py` translates the interpreter loop `vm::run` (src/vm.rs) statement by statement.
Everything the translation does NOT take from the Rust text is fixed here (or in the files this one
imports) and is *trusted*; notes/translator-vm.md has the full table.

* `usize` is `Nat`; `+`, `*`, `+= 1` do not overflow (positions are bounded by the text length, counters
  by the number of steps); `a - b` is CHECKED (`checkedSub`): an underflow is a panic outcome, as in a build
  with overflow checks.
* `&str` / `String` values are their UTF-8 bytes (`Utf8.Bytes`): `s.len()`, `s.as_bytes()[i]`, `&s[a..b]`
  (`Utf8.slice`: a panic off a character boundary), `Insn::Lit(val)` through `litBytes`.
* `State` and its methods are Model/State.lean (`none` = the Rust operation panics).
* the byte helpers `codepoint_len_at`, `prev_codepoint_ix`, `matches_literal` are Model/Utf8.lean /
  Model/VMBytes.lean (the translator checks the text of the two that live in vm.rs token by token).
* **regex-automata** (the A-RA boundary) is not modelled at byte level. The `LookMatcher` methods are DEFINED
  here by the clause of the code-point model's `Ctx.assertion` for the assertion each one implements, at
  the character index of the byte position; `Regex::search_half` / `search_slots` are DEFINED from
  `delegateOracle` exactly as `stepB` uses it. What stays an assumption is that regex-automata behaves
  like these definitions; which method is called for which `Assertion`, with which arguments, and what is
  done with the slots that come back IS read from the Rust text.
-/
namespace Fancy.GenVM
open Utf8

/-! ## numbers, vectors -/

/-- `a - b` on `usize` with overflow checks: `none` = "attempt to subtract with overflow" -/
def checkedSub (a b : Nat) : Option Nat := if b ≤ a then some (a - b) else none

/-- `Repeat*::hi` as the `usize` the Rust code sees: "no upper bound" is `usize::MAX` -/
def hiVal : Option Nat → Nat
  | none => UNSET
  | some h => h

/-- `Vec::resize(n, x)` -/
def vecResize {α : Type} (v : List α) (n : Nat) (x : α) : List α := v.take n ++ List.replicate (n - v.length) x

/-! ## byte helpers of vm.rs -/

/-- `codepoint_len_at(s, ix)` = `codepoint_len(s.as_bytes()[ix])`; `none` = index out of range -/
def codepoint_len_at (s : Bytes) (ix : Nat) : Option Nat := (s[ix]?).map codepointLen

/-- `prev_codepoint_ix(s, ix)` (src/lib.rs); `none` = index underflow / out of range -/
def prev_codepoint_ix (s : Bytes) (ix : Nat) : Option Nat := prevCodepointIx s ix

/-- `matches_literal(s, ix, end, literal)` -/
def matches_literal (s : Bytes) (ix e : Nat) (literal : Bytes) : Bool := matchesLiteral s ix e literal

/-- `option_flags & OPTION_SKIPPED_EMPTY_MATCH != 0`: the flag is a field of the search context -/
def optionSkippedEmptyMatch (bc : BCtx) : Bool := bc.chars.skipped

/-! ## what one pass through the fail handler of the outer loop yields -/

inductive FailResult where
  /-- a branch was popped: go on at `pc`, `ix` -/
  | resume (pc ix : Nat) (s : State) (backtrackCount : Nat)
  /-- `return …` -/
  | done (o : Outcome) (backtrackCount : Nat)

/-- The skeleton of `run`: `loop { 'fail: loop { <one instruction>; } <fail handler> }`, with fuel.
    The `Stats` are the model's instrumentation (`verif::count_step` / `count_backtrack` / `note_depth`
    in the Rust source); `backtracks` is also the local `backtrack_count` that the limit test reads. -/
def driveLoop (step : Nat → Nat → State → StepResult) (onFail : Nat → Nat → State → Nat → FailResult) :
    Nat → Nat → Nat → State → Stats → Outcome × Stats
  | 0, _, _, _, st => (.outOfFuel, st)
  | fuel + 1, pc, ix, s, st =>
    let st := { st with steps := st.steps + 1 }
    match step pc ix s with
    | .done out => (out, st)
    | .cont pc' ix' s' =>
      driveLoop step onFail fuel pc' ix' s' { st with maxDepth := max st.maxDepth s'.stack.length }
    | .fail s' =>
      match onFail pc ix s' st.backtracks with
      | .done out n => (out, { st with backtracks := n })
      | .resume pc' ix' s'' n => driveLoop step onFail fuel pc' ix' s'' { st with backtracks := n }

/-! ## regex-automata: `LookMatcher` (A-RA) -/

/-- the look-around `a` at byte offset `ix` of `haystack`: the code-point model's answer at the character
    index; `none` = the position is not a character boundary (outside the model: a panic outcome) -/
def lookAt (bc : BCtx) (a : Assertion) (haystack : Bytes) (ix : Nat) : Option Bool :=
  (charIx haystack ix).map fun k => bc.chars.assertion a k

def is_start (bc : BCtx) (haystack : Bytes) (ix : Nat) : Option Bool := lookAt bc .startText haystack ix
def is_end (bc : BCtx) (haystack : Bytes) (ix : Nat) : Option Bool := lookAt bc .endText haystack ix
def is_start_lf (bc : BCtx) (haystack : Bytes) (ix : Nat) : Option Bool := lookAt bc (.startLine false) haystack ix
def is_end_lf (bc : BCtx) (haystack : Bytes) (ix : Nat) : Option Bool := lookAt bc (.endLine false) haystack ix
def is_start_crlf (bc : BCtx) (haystack : Bytes) (ix : Nat) : Option Bool := lookAt bc (.startLine true) haystack ix
def is_end_crlf (bc : BCtx) (haystack : Bytes) (ix : Nat) : Option Bool := lookAt bc (.endLine true) haystack ix
/-- the `_unicode` methods return a `Result`; the Rust code `.unwrap()`s it -/
def is_word_start_unicode (bc : BCtx) (haystack : Bytes) (ix : Nat) : Option Bool := lookAt bc .leftWord haystack ix
def is_word_end_unicode (bc : BCtx) (haystack : Bytes) (ix : Nat) : Option Bool := lookAt bc .rightWord haystack ix
def is_word_unicode (bc : BCtx) (haystack : Bytes) (ix : Nat) : Option Bool := lookAt bc .wordB haystack ix
def is_word_unicode_negate (bc : BCtx) (haystack : Bytes) (ix : Nat) : Option Bool := lookAt bc .notWordB haystack ix

/-! ## regex-automata: `Input`, `Regex::search_half`, `Regex::search_slots` (A-RA) -/

/-- `regex_automata::Input` -/
structure RaInput where
  haystack : Bytes
  start : Nat
  stop : Nat
  anchored : Bool

def RaInput.new (haystack : Bytes) : RaInput := ⟨haystack, 0, haystack.length, false⟩
def RaInput.span (i : RaInput) (a b : Nat) : RaInput := { i with start := a, stop := b }
def RaInput.setAnchored (i : RaInput) (yes : Bool) : RaInput := { i with anchored := yes }

/-- the `inner: Regex` of `Insn::Delegate`: in the model, the delegated expressions and the group range -/
structure RaRegex where
  es : List Expr
  startGroup : Nat
  endGroup : Nat

/-- The anchored search of the delegated expressions from `input.start`, answer in byte offsets — what
    `stepB` computes: the byte position to its character index, `delegateOracle` on the code points (handed
    the VM's slots below the delegate's last group, as character indices), the result back to byte offsets.
    Outer `none`: outside the model (not on a character boundary, or an `Input` that is not an anchored
    search on the whole rest of the haystack) - a panic outcome. -/
def raSearch (bc : BCtx) (state : State) (re : RaRegex) (input : RaInput) : Option (Option St) :=
  if input.anchored && input.stop == input.haystack.length then
    match charIx input.haystack input.start with
    | none => none
    | some k =>
      some ((delegateOracle bc.chars re.es re.startGroup re.endGroup k
              ((state.saves.take (2 * re.endGroup)).map (unmapV input.haystack))).map (St.toBytes bc.chars.text))
  else none

/-- `inner.search_half(&input)`: the end offset of the match -/
def search_half (bc : BCtx) (state : State) (re : RaRegex) (input : RaInput) : Option (Option Nat) :=
  (raSearch bc state re input).map fun r => r.map (·.ix)

/-- slot `j` of a `search_slots` answer: slots 0, 1 are the whole match, slots `2(i+1)`, `2(i+1)+1` are group
    `startGroup + i` of the VM (the delegated regex numbers its groups from 1) -/
def raSlot (re : RaRegex) (start : Nat) (r : St) (j : Nat) : Option Nat :=
  if j == 0 then some start else if j == 1 then some r.ix
  else if j / 2 - 1 < re.endGroup - re.startGroup then r.slot ((re.startGroup + (j / 2 - 1)) * 2 + j % 2) else none

/-- `inner.search_slots(&input, &mut slots)`: `(the pattern id of the match if there is one, the slots afterwards)`;
    every slot handed in is overwritten -/
def search_slots (bc : BCtx) (state : State) (re : RaRegex) (input : RaInput) (slots : List (Option Nat)) :
    Option (Option Nat × List (Option Nat)) :=
  (raSearch bc state re input).map fun
    | none => (none, slots.map fun _ => none)
    | some r => (some 0, (List.range slots.length).map (raSlot re input.start r))

end Fancy.GenVM
