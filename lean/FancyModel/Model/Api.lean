import FancyModel.Model.Utf8
/-!
# The API-layer state machines (src/lib.rs): `Matches`, `CaptureMatches`, `Split`, `SplitN`,
`try_replacen` — over an *arbitrary* search oracle

`Oracle α` is "search from byte position `pos` with the skipped-empty-match flag": it stands for
`find_from_pos_with_option_flags` (α = span) or `captures_from_pos_with_option_flags` (α =
captures). Everything here is independent of the engine, so the theorems about it hold whatever
the engine does; the engine only has to satisfy the well-formedness premise (`pos ≤ start ≤ end ≤
len`), which is C05's business.
-/
namespace Fancy.Api
open Fancy.Utf8

/-- `limit` / `stack` are the two `RuntimeError`s. `panicked` and `outOfFuel` are artefacts of the
    executable engine model (a model panic site reached / the model's fuel ran out); the theorems
    are about arbitrary oracles and do not distinguish the constructors. -/
inductive SearchErr where
  | limit | stack | panicked | outOfFuel
deriving DecidableEq, Repr, Inhabited

abbrev Oracle (α : Type) := Nat → Bool → Except SearchErr (Option α)

/-- `Matches` (and, with captures as `α`, `CaptureMatches`) -/
structure Iter where
  lastEnd : Nat
  lastMatch : Option Nat
deriving DecidableEq, Repr, Inhabited

def Iter.start : Iter := ⟨0, none⟩

/-- the flag `Matches::next` passes: the search position is past the previous match's end -/
def Iter.flag (it : Iter) : Bool :=
  match it.lastMatch with
  | some lm => decide (it.lastEnd > lm)
  | none => false

/-- `Matches::next` / `CaptureMatches::next`. The Rust code recurses after dropping an empty
    match adjacent to the previous match; `fuel` bounds that recursion (`none` in the first
    component with exhausted fuel is reported as `outOfFuel := true`). -/
def Iter.next {α : Type} (f : Oracle α) (span : α → Nat × Nat) (text : Bytes) :
    Nat → Iter → Option (Except SearchErr α) × Iter × Bool
  | 0, it => (none, it, true)
  | fuel + 1, it =>
    if it.lastEnd > text.length then (none, it, false) else
    match f it.lastEnd it.flag with
    | .error e => (some (.error e), { it with lastEnd := text.length + 1 }, false)
    | .ok none => (none, it, false)
    | .ok (some a) =>
      let (s, e) := span a
      if s == e then
        let it' := { it with lastEnd := nextUtf8 text e }
        if some e == it.lastMatch then Iter.next f span text fuel it'
        else (some (.ok a), { it' with lastMatch := some e }, false)
      else (some (.ok a), { lastEnd := e, lastMatch := some e }, false)

/-- drain the iterator: at most `n` items -/
def Iter.collect {α : Type} (f : Oracle α) (span : α → Nat × Nat) (text : Bytes) :
    Nat → Iter → List (Except SearchErr α)
  | 0, _ => []
  | n + 1, it =>
    match Iter.next f span text (text.length + 2) it with
    | (none, _, _) => []
    | (some item, it', _) => item :: Iter.collect f span text n it'

/-- `find_iter(text)` collected -/
def findIter (f : Oracle (Nat × Nat)) (text : Bytes) : List (Except SearchErr (Nat × Nat)) :=
  Iter.collect f id text (text.length + 3) Iter.start

/-- `captures_iter(text)` collected -/
def capturesIter {α : Type} (f : Oracle α) (span : α → Nat × Nat) (text : Bytes) :
    List (Except SearchErr α) :=
  Iter.collect f span text (text.length + 3) Iter.start

/-! ## Split / SplitN — items are byte ranges `(a, b)` of the target (`&target[a..b]`) -/

structure Split where
  it : Iter
  nextStart : Nat
deriving DecidableEq, Repr, Inhabited

def Split.start : Split := ⟨Iter.start, 0⟩

inductive Item where
  | piece (a b : Nat)
  | err (e : SearchErr)
deriving DecidableEq, Repr, Inhabited

/-- `Split::next` -/
def Split.next (f : Oracle (Nat × Nat)) (text : Bytes) (s : Split) : Option Item × Split :=
  match Iter.next f id text (text.length + 2) s.it with
  | (none, it', _) =>
    if s.nextStart > text.length then (none, { s with it := it' })
    else (some (.piece s.nextStart text.length), { it := it', nextStart := text.length + 1 })
  | (some (.ok (ms, me)), it', _) => (some (.piece s.nextStart ms), { it := it', nextStart := me })
  | (some (.error e), it', _) => (some (.err e), { s with it := it' })

def Split.collect (f : Oracle (Nat × Nat)) (text : Bytes) : Nat → Split → List Item
  | 0, _ => []
  | n + 1, s =>
    match Split.next f text s with
    | (none, _) => []
    | (some item, s') => item :: Split.collect f text n s'

def split (f : Oracle (Nat × Nat)) (text : Bytes) : List Item :=
  Split.collect f text (text.length + 4) Split.start

structure SplitN where
  sp : Split
  limit : Nat
deriving DecidableEq, Repr, Inhabited

/-- `SplitN::next` -/
def SplitN.next (f : Oracle (Nat × Nat)) (text : Bytes) (s : SplitN) : Option Item × SplitN :=
  if s.limit == 0 then (none, s) else
  let s1 := { s with limit := s.limit - 1 }
  if s1.limit > 0 then
    let (item, sp') := Split.next f text s1.sp
    (item, { s1 with sp := sp' })
  else if s1.sp.nextStart > text.length then (none, s1)
  else (some (.piece s1.sp.nextStart text.length),
        { s1 with sp := { s1.sp with nextStart := text.length + 1 } })

def SplitN.collect (f : Oracle (Nat × Nat)) (text : Bytes) : Nat → SplitN → List Item
  | 0, _ => []
  | n + 1, s =>
    match SplitN.next f text s with
    | (none, _) => []
    | (some item, s') => item :: SplitN.collect f text n s'

def splitn (f : Oracle (Nat × Nat)) (text : Bytes) (limit : Nat) : List Item :=
  SplitN.collect f text (text.length + 4) ⟨Split.start, limit⟩

/-! ## try_replacen -/

inductive Replaced where
  | borrowed                       -- `Cow::Borrowed(text)`: no match
  | owned (out : Bytes)
  | err (e : SearchErr)
  | panic                          -- a slice off a boundary / out of range
deriving DecidableEq, Repr, Inhabited

/-- the loop of `try_replacen` over the already peeked iterator items: `i` = index of the item,
    `last` = `last_match`, `acc` = `new` -/
def replaceLoop {α : Type} (span : α → Nat × Nat) (rep : α → Bytes) (text : Bytes) (limit : Nat) :
    List (Except SearchErr α) → Nat → Nat → Bytes → Replaced
  | [], _, last, acc =>
    match slice text last text.length with
    | some tail => .owned (acc ++ tail)
    | none => .panic
  | .error e :: _, _, _, _ => .err e
  | .ok a :: rest, i, last, acc =>
    if limit > 0 && i ≥ limit then
      match slice text last text.length with
      | some tail => .owned (acc ++ tail)
      | none => .panic
    else
      let (s, e) := span a
      match slice text last s with
      | none => .panic
      | some pre => replaceLoop span rep text limit rest (i + 1) e (acc ++ pre ++ rep a)

/-- `try_replacen` on either path: `items` is the drained iterator (`find_iter` on the
    `no_expansion` fast path, `captures_iter` otherwise), `rep` the replacer's output -/
def replacen {α : Type} (items : List (Except SearchErr α)) (span : α → Nat × Nat)
    (rep : α → Bytes) (text : Bytes) (limit : Nat) : Replaced :=
  match items with
  | [] => .borrowed
  | _ => replaceLoop span rep text limit items 0 0 []

end Fancy.Api
