import FancyModel.Model.Basic
/-!
# The VM's backtracking state (`vm::State`, src/vm.rs), field by field

`stack` and `oldsave` are kept with the *top / newest entry at the head* (the Rust `Vec`s grow at
the end). Every operation returns `Option`: `none` stands for a Rust panic (index out of range,
`unwrap` on `None`, subtraction underflow) at that operation. `push` additionally reports the
`StackOverflow` error.
-/
namespace Fancy

structure Branch where
  pc : Nat
  ix : Nat
  nsave : Nat
deriving DecidableEq, Repr, Inhabited

structure State where
  saves : List Nat
  stack : List Branch
  oldsave : List (Nat × Nat)
  nsave : Nat
  explicitSp : Nat
  maxStack : Nat
deriving DecidableEq, Repr, Inhabited

namespace State

def new (nSaves maxStack : Nat) : State :=
  { saves := List.replicate nSaves UNSET, stack := [], oldsave := [], nsave := 0,
    explicitSp := nSaves, maxStack := maxStack }

inductive PushResult where
  | ok (s : State)
  | overflow
deriving Repr

def push (s : State) (pc ix : Nat) : PushResult :=
  if s.stack.length < s.maxStack then
    .ok { s with stack := ⟨pc, ix, s.nsave⟩ :: s.stack, nsave := 0 }
  else .overflow

/-- undo the newest `n` log entries (newest first) -/
def restore : Nat → List (Nat × Nat) → List Nat → Option (List (Nat × Nat) × List Nat)
  | 0, log, saves => some (log, saves)
  | _ + 1, [], _ => none
  | n + 1, (slot, value) :: log, saves =>
    if slot < saves.length then restore n log (saves.set slot value) else none

def pop (s : State) : Option (State × Nat × Nat) :=
  match restore s.nsave s.oldsave s.saves with
  | none => none
  | some (log, saves) =>
    match s.stack with
    | [] => none
    | b :: rest => some ({ s with saves := saves, oldsave := log, stack := rest, nsave := b.nsave }, b.pc, b.ix)

def get (s : State) (slot : Nat) : Option Nat := s.saves[slot]?

def save (s : State) (slot val : Nat) : Option State :=
  if s.nsave > s.oldsave.length then none else
  if slot ≥ s.saves.length then none else
  if (s.oldsave.take s.nsave).any (fun e => e.1 == slot) then
    some { s with saves := s.saves.set slot val }
  else
    some { s with oldsave := (slot, s.saves.getD slot 0) :: s.oldsave, nsave := s.nsave + 1,
                  saves := s.saves.set slot val }

def stackPush (s : State) (val : Nat) : Option State :=
  -- `if self.saves.len() == self.explicit_sp { self.saves.push(self.explicit_sp + 1) }` (unlogged)
  let s := if s.saves.length == s.explicitSp then { s with saves := s.saves ++ [s.explicitSp + 1] } else s
  match s.get s.explicitSp with
  | none => none
  | some sp =>
    let s' := if s.saves.length == sp then some { s with saves := s.saves ++ [val] } else s.save sp val
    match s' with
    | none => none
    | some s' => s'.save s.explicitSp (sp + 1)

def stackPop (s : State) : Option (State × Nat) :=
  match s.get s.explicitSp with
  | none => none
  | some 0 => none
  | some (sp + 1) =>
    match s.get sp with
    | none => none
    | some result => (s.save s.explicitSp sp).map fun s' => (s', result)

def backtrackCount (s : State) : Nat := s.stack.length

/-- entries kept by the compaction loop of `backtrack_cut`: walking from older to newer, an entry
    is kept iff its slot was not seen before (`seen` starts with the slots of the target segment) -/
def cutKeep : List Nat → List (Nat × Nat) → List (Nat × Nat)
  | _, [] => []
  | seen, e :: es => if seen.contains e.1 then cutKeep seen es else e :: cutKeep (e.1 :: seen) es

def sumNsave (bs : List Branch) : Nat := (bs.map (·.nsave)).sum

def backtrackCut (s : State) (count : Nat) : Option State :=
  if s.stack.length == count then some s else
  if s.stack.length < count then none else          -- `&self.stack[count + 1..]` out of range
  let k := s.stack.length - count
  match s.stack[k - 1]? with
  | none => none
  | some b =>
    let m1 := s.nsave + sumNsave (s.stack.take (k - 1))
    if m1 + b.nsave > s.oldsave.length then none else   -- subtraction underflow
    let newer := (s.oldsave.take m1).reverse
    let seg := (s.oldsave.drop m1).take b.nsave
    let kept := cutKeep (seg.map (·.1)) newer
    some { s with stack := s.stack.drop k,
                  oldsave := kept.reverse ++ seg ++ s.oldsave.drop (m1 + b.nsave),
                  nsave := kept.length + b.nsave }

end State
end Fancy
