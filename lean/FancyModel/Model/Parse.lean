import FancyModel.Model.Basic
import FancyModel.Model.Utf8
import FancyModel.Generated
/-!
# The parser (src/parse.rs, lines 1–968), mirrored function by function

The pattern is its UTF-8 **bytes** (`Array Nat`, every element `< 256`), indices are byte indices,
exactly as in the Rust code.  A `&str` is valid UTF-8 by its type invariant; the model is *defined*
on every byte array (so that the leaf scanners can be proved on arbitrary bytes), but only valid
UTF-8 is the image of a Rust input (`parseStr`).

* `Res α = ok a | err kind pos | cerr | panic site | outOfFuel`.  Every Rust operation that can
  panic is an explicit `panic "site"`: `self.re[a..]`, `self.re[a..b]` (range or char boundary),
  `bytes[i]`, `unwrap`/`expect`, `remove(0)`, `next - 1`, the two `debug_assert`s.  Arithmetic on
  indices cannot overflow a `usize` (every index is at most `len + 4`); numbers read from the
  pattern are bounded by `usize::MAX`/`isize` range through the failure of `from_str_radix` /
  `parse::<isize>`, which is modelled.
* `&mut self` is the explicit `PState` threaded through the functions (fields of `Parser`).
* `char::is_alphanumeric` (used by `is_id_char`) is the parameter `isAlnum`; nothing proved about
  the parser depends on it.
* Loops are structural recursion on a fuel; the mutual descent shares one fuel (`descentFuel`).
  `outOfFuel` is never the result for the fuel chosen by `parse` (checked on every explored input;
  the leaf scanners have proofs in Proofs/C06b.lean).
* `Expr.group` carries number 0 (the parser assigns none); `hi = usize::MAX` is `none`.
* Decoding bytes to `Char`s (`String::from(&self.re[a..b])`, `chars()`) is total (lossy on
  malformed input, which no `&str` contains); the preceding slice check is the panic site.
-/
namespace Fancy.Parse
open Fancy.Utf8 (codepointLen isLead)

abbrev Bytes := Array Nat

/-- byte value of an ASCII character -/
@[reducible] def ch (c : Char) : Nat := c.toNat

/-- `usize::MAX`, `isize::MAX` (64-bit targets) -/
def usizeMax : Nat := 18446744073709551615
def isizeMax : Nat := 9223372036854775807

/-- the three `GeneralParseError` messages -/
inductive GenMsg where
  | endNotReached | expectedCloseParen | expectedConditional
deriving DecidableEq, Repr

/-- `ParseError` (src/error.rs); string payloads are byte lists -/
inductive PErr where
  | general (m : GenMsg)
  | unclosedOpenParen
  | invalidRepeat
  | recursionExceeded
  | trailingBackslash
  | invalidEscape (s : List Nat)
  | unclosedUnicodeName
  | invalidHex
  | invalidCodepointValue
  | invalidClass
  | unknownFlag (s : List Nat)
  | nonUnicodeUnsupported
  | invalidBackref
  | targetNotRepeatable
  | invalidGroupName
  | invalidGroupNameBackref (s : List Nat)
deriving DecidableEq, Repr

/-- outcome of a parser function; `cerr` is `CompileError::NamedBackrefOnly` (the only compile
    error the parser produces) -/
inductive Res (α : Type) where
  | ok (a : α)
  | err (k : PErr) (pos : Nat)
  | cerr
  | panic (site : String)
  | outOfFuel
deriving Repr

@[inline] def Res.bind {α β : Type} (x : Res α) (f : α → Res β) : Res β :=
  match x with
  | .ok a => f a
  | .err k p => .err k p
  | .cerr => .cerr
  | .panic s => .panic s
  | .outOfFuel => .outOfFuel

instance : Monad Res where
  pure := Res.ok
  bind := Res.bind

/-! ## Flags and parser state -/

structure Flags where
  casei : Bool := false
  multi : Bool := false
  dotnl : Bool := false
  swapGreed : Bool := false
  ignoreSpace : Bool := false
  unicode : Bool := true
deriving DecidableEq, Repr

/-- the fields of `Parser` other than `re` -/
structure PState where
  /-- `backrefs: BitSet` as the list of members (no duplicates) -/
  backrefs : List Nat := []
  flags : Flags := {}
  /-- `named_groups: HashMap<String, usize>` as an association list with unique keys -/
  namedGroups : List (List Nat × Nat) := []
  numericBackrefs : Bool := false
  currGroup : Nat := 0
  lastReHadAlt : Bool := false
deriving Repr

def bitsetInsert (s : List Nat) (g : Nat) : List Nat := if s.contains g then s else g :: s

def namedInsert (m : List (List Nat × Nat)) (k : List Nat) (v : Nat) : List (List Nat × Nat) :=
  (k, v) :: m.filter (fun e => e.1 != k)

def namedGet (m : List (List Nat × Nat)) (k : List Nat) : Option Nat :=
  (m.find? (fun e => e.1 == k)).map (·.2)

/-! ## Bytes, slices, characters -/

/-- `str::is_char_boundary` -/
def isBoundary (re : Bytes) (i : Nat) : Bool :=
  i == 0 || i == re.size || (match re[i]? with | some b => isLead b | none => false)

/-- does `&self.re[a..]` succeed -/
def sliceFromOk (re : Bytes) (a : Nat) : Bool := isBoundary re a

/-- does `&self.re[a..b]` succeed -/
def sliceOk (re : Bytes) (a b : Nat) : Bool :=
  a ≤ b && b ≤ re.size && isBoundary re a && isBoundary re b

/-- `&self.re[a..]` as a check: the panic site -/
def sliceFrom (re : Bytes) (a : Nat) (site : String) : Res Unit :=
  if sliceFromOk re a then .ok () else .panic site

/-- `&self.re[a..b]`: the bytes, or the panic -/
def slice (re : Bytes) (a b : Nat) (site : String) : Res (List Nat) :=
  if sliceOk re a b then .ok (re.extract a b).toList else .panic site

/-- `self.re.as_bytes()[i]` -/
def byteAt (re : Bytes) (i : Nat) (site : String) : Res Nat :=
  match re[i]? with
  | some b => .ok b
  | none => .panic site

/-- `self.re[ix..].starts_with(p)` / `bytes[ix..].starts_with(p)` once the slice exists -/
def startsWithAt (re : Bytes) : Nat → List Nat → Bool
  | _, [] => true
  | ix, c :: cs => re[ix]? == some c && startsWithAt re (ix + 1) cs

def isDigit (b : Nat) : Bool := 48 ≤ b && b ≤ 57
def isHexDigit (b : Nat) : Bool := isDigit b || (97 ≤ (b ||| 32) && (b ||| 32) ≤ 102)
def isAsciiAlphabetic (b : Nat) : Bool := (65 ≤ b && b ≤ 90) || (97 ≤ b && b ≤ 122)

/-- scalar value → `Char` (U+FFFD for a non-scalar: only on malformed input) -/
def mkChar (n : Nat) : Char :=
  if h : n.isValidChar then Char.ofNatAux n h else Char.ofNat 0xFFFD

/-- lossy, total UTF-8 decoder (exact on valid UTF-8) -/
def decodeList : List Nat → List Char
  | [] => []
  | b :: rest =>
    if b < 0x80 then mkChar b :: decodeList rest
    else if b < 0xe0 then
      match rest with
      | c1 :: r => mkChar ((b % 32) * 64 + c1 % 64) :: decodeList r
      | [] => [mkChar 0xFFFD]
    else if b < 0xf0 then
      match rest with
      | c1 :: c2 :: r => mkChar ((b % 16) * 4096 + (c1 % 64) * 64 + c2 % 64) :: decodeList r
      | _ => [mkChar 0xFFFD]
    else
      match rest with
      | c1 :: c2 :: c3 :: r =>
        mkChar ((b % 8) * 262144 + (c1 % 64) * 4096 + (c2 % 64) * 64 + c3 % 64) :: decodeList r
      | _ => [mkChar 0xFFFD]

/-- the character starting at byte `ix < len` (whose first byte is `b`) and its length in bytes
    (`chars().next()`) -/
def decodeAt (re : Bytes) (ix : Nat) (b : Nat) : Char × Nat :=
  let n := codepointLen b
  match decodeList (re.extract ix (ix + n)).toList with
  | c :: _ => (c, n)
  | [] => (mkChar 0xFFFD, n)

/-- UTF-8 encoding of a character, as bytes -/
def encodeChar (c : Char) : List Nat := Utf8.encodeChar c.toNat

/-! ## Leaf scanners -/

/-- `is_id_char` -/
def isIdChar (isAlnum : Char → Bool) (c : Char) : Bool := isAlnum c || c == '_'

def isAsciiDigitChar (c : Char) : Bool := '0' ≤ c && c ≤ '9'

/-- value of a list of ASCII digits -/
def digitsVal (ds : List Nat) : Nat := ds.foldl (fun a d => a * 10 + (d - 48)) 0

/-- `parse_decimal(s, ix)`: `while end < len && is_digit(bytes[end])`, then
    `usize::from_str_radix(&s[ix..end], 10).ok()` -/
def parseDecimal (re : Bytes) (ix : Nat) : Res (Option (Nat × Nat)) :=
  let ds := (re.toList.drop ix).takeWhile isDigit
  let end_ := ix + ds.length
  if !sliceOk re ix end_ then .panic "parse_decimal: s[ix..end]"
  else if ds.isEmpty then .ok none
  else
    let v := digitsVal ds
    if v ≤ usizeMax then .ok (some (end_, v)) else .ok none

/-- the inner loop of `optional_whitespace` after `(?#`: index after the closing `)` -/
def skipComment : Nat → Bytes → Nat → Res Nat
  | 0, _, _ => .outOfFuel
  | f + 1, re, ix =>
    if ix ≥ re.size then .err .unclosedOpenParen re.size
    else
      match re[ix]? with
      | none => .panic "optional_whitespace: bytes[ix] (comment)"
      | some b =>
        if b == ch ')' then .ok (ix + 1)
        else if b == ch '\\' then skipComment f re (ix + 2)
        else skipComment f re (ix + 1)

/-- `optional_whitespace` (fuel = iterations of the outer loop) -/
def optionalWhitespace : Nat → Bytes → Flags → Nat → Res Nat
  | 0, _, _, _ => .outOfFuel
  | f + 1, re, fl, ix =>
    if ix == re.size then .ok ix
    else
      match re[ix]? with
      | none => .panic "optional_whitespace: bytes[ix]"
      | some b =>
        if b == ch '#' && fl.ignoreSpace then
          match (re.toList.drop ix).findIdx? (· == 10) with
          | some x => optionalWhitespace f re fl (ix + x + 1)
          | none => .ok re.size
        else if (b == ch ' ' || b == ch '\r' || b == ch '\n' || b == ch '\t') && fl.ignoreSpace then
          optionalWhitespace f re fl (ix + 1)
        else if b == ch '(' && startsWithAt re ix [ch '(', ch '?', ch '#'] then
          match skipComment (re.size + 1) re (ix + 3) with
          | .ok ix' => optionalWhitespace f re fl ix'
          | .err k p => .err k p
          | .cerr => .cerr
          | .panic s => .panic s
          | .outOfFuel => .outOfFuel
        else .ok ix

/-- `self.optional_whitespace(ix)` with the fuel that always suffices -/
def optWs (re : Bytes) (fl : Flags) (ix : Nat) : Res Nat :=
  optionalWhitespace (re.size + 2) re fl ix

/-- `parse_repeat(ix)`: `(next, lo, hi)` with `hi` still a `usize` -/
def parseRepeat (re : Bytes) (fl : Flags) (ix : Nat) : Res (Nat × Nat × Nat) := do
  let ix ← optWs re fl (ix + 1)
  if ix == re.size then .err .invalidRepeat ix
  else
    let b ← byteAt re ix "parse_repeat: bytes[ix] (lo)"
    let lo_end : Nat × Nat ←
      (if b == ch ',' then (pure (0, ix) : Res (Nat × Nat))
       else do
         match ← parseDecimal re ix with
         | some (next, lo) => pure (lo, next)
         | none => .err .invalidRepeat ix)
    let lo := lo_end.1
    let ix ← optWs re fl lo_end.2
    if ix == re.size then .err .invalidRepeat ix
    else
      let b ← byteAt re ix "parse_repeat: bytes[ix] (hi)"
      let hi_end : Nat × Nat ←
        (if b == ch '}' then (pure (lo, ix) : Res (Nat × Nat))
         else if b == ch ',' then do
           let e ← optWs re fl (ix + 1)
           match ← parseDecimal re e with
           | some (next, hi) => pure (hi, next)
           | none => pure (usizeMax, e)
         else .err .invalidRepeat ix)
      let ix ← optWs re fl hi_end.2
      if ix == re.size then .err .invalidRepeat ix
      else
        let b ← byteAt re ix "parse_repeat: bytes[ix] (close)"
        if b != ch '}' then .err .invalidRepeat ix
        else .ok (ix + 1, lo, hi_end.1)

/-- `iter.find(|(_, ch)| !pred(ch))` over `char_indices()` from byte `ix`: the index of the first
    character failing `pred`, `none` at the end of the string -/
def findNot (pred : Char → Bool) : Nat → Bytes → Nat → Res (Option Nat)
  | 0, _, _ => .outOfFuel
  | f + 1, re, ix =>
    match re[ix]? with
    | none => .ok none
    | some b =>
      let (c, n) := decodeAt re ix b
      if pred c then findNot pred f re (ix + n) else .ok (some ix)

/-- `parse_id(&self.re[base..], open, close, allow_relative)`; the caller has made the slice
    `self.re[base..]`.  Result: absolute `(id_start, id_end, skip)`; `skip` is relative to `base`
    as in the Rust code. -/
def parseId (isAlnum : Char → Bool) (re : Bytes) (base : Nat) (open_ close : List Nat)
    (allowRelative : Bool) : Res (Option (Nat × Nat × Nat)) := do
  -- debug_assert!(!close.starts_with(is_id_char))
  if (match close with | c :: _ => isIdChar isAlnum (mkChar c) | [] => false) then
    .panic "parse_id: debug_assert close"
  else if !startsWithAt re base open_ then .ok none
  else
    let idStart := base + open_.length
    sliceFrom re idStart "parse_id: s[id_start..]"
    let afterId ←
      (if allowRelative && re[idStart]? == some (ch '-') then
        findNot isAsciiDigitChar (re.size + 1) re (idStart + 1)
      else findNot (isIdChar isAlnum) (re.size + 1) re idStart)
    let idLen : Option Nat ←
      (match afterId with
      | some p => do
        sliceFrom re p "parse_id: s[id_start + id_len..]"
        if startsWithAt re p close then pure (some (p - idStart)) else pure none
      | none => if close.isEmpty then pure (some (re.size - base)) else pure none)
    match idLen with
    | none => .ok none
    | some 0 => .ok none
    | some l =>
      let idEnd := idStart + l
      if !sliceOk re idStart idEnd then .panic "parse_id: s[id_start..id_end]"
      else .ok (some (idStart, idEnd, (idEnd - base) + close.length))

/-- `id.parse::<isize>()` on the bytes of `id` -/
def parseIsize (id : List Nat) : Option Int :=
  match id with
  | [] => none
  | 45 :: ds =>
    if ds.isEmpty || !ds.all isDigit then none
    else if digitsVal ds ≤ isizeMax + 1 then some (-(digitsVal ds : Int)) else none
  | 43 :: ds =>
    if ds.isEmpty || !ds.all isDigit then none
    else if digitsVal ds ≤ isizeMax then some (digitsVal ds : Int) else none
  | ds =>
    if !ds.all isDigit then none
    else if digitsVal ds ≤ isizeMax then some (digitsVal ds : Int) else none

/-- which expression a reference creates (`create_expr`) -/
inductive RefKind where
  | backref | subroutine
deriving DecidableEq, Repr

def RefKind.mk : RefKind → Nat → Expr
  | .backref, g => .backref g
  | .subroutine, g => .subroutine g

/-- `parse_named_backref(ix, open, close, allow_relative, create_expr)` -/
def parseNamedBackref (isAlnum : Char → Bool) (re : Bytes) (st : PState) (ix : Nat)
    (open_ close : List Nat) (allowRelative : Bool) (k : RefKind) : Res (Nat × Expr × PState) := do
  sliceFrom re ix "parse_named_backref: self.re[ix..]"
  match ← parseId isAlnum re ix open_ close allowRelative with
  | some (idStart, idEnd, skip) =>
    let id := (re.extract idStart idEnd).toList
    let group : Option Nat :=
      match namedGet st.namedGroups id with
      | some g => some g
      | none =>
        match parseIsize id with
        | some g =>
          if g ≥ 0 then some g.toNat
          else
            -- self.curr_group.checked_add_signed(group + 1)
            let r : Int := (st.currGroup : Int) + (g + 1)
            if r ≥ 0 then some r.toNat else none
        | none => none
    match group.filter (fun g => g < re.size / 2) with
    | some g =>
      .ok (ix + skip, k.mk g, { st with backrefs := bitsetInsert st.backrefs g })
    | none => .err (.invalidGroupNameBackref id) ix
  | none => .err .invalidGroupName ix

/-- `parse_numbered_backref(ix, create_expr)` -/
def parseNumberedBackref (re : Bytes) (st : PState) (ix : Nat) (k : RefKind) :
    Res (Nat × Expr × PState) := do
  match ← parseDecimal re ix with
  | some (end_, g) =>
    if g < re.size / 2 then
      .ok (end_, k.mk g, { st with numericBackrefs := true, backrefs := bitsetInsert st.backrefs g })
    else .err .invalidBackref ix
  | none => .err .invalidBackref ix

/-- the `{…}` loop of `parse_hex`: index of the closing `}` -/
def hexBraceLoop : Nat → Bytes → Nat → Nat → Nat → Res Nat
  | 0, _, _, _, _ => .outOfFuel
  | f + 1, re, ix, starthex, endhex =>
    if endhex == re.size then .err .invalidHex ix
    else
      match re[endhex]? with
      | none => .panic "parse_hex: bytes[endhex]"
      | some b =>
        if endhex > starthex && b == ch '}' then .ok endhex
        else if isHexDigit b && endhex < starthex + 8 then hexBraceLoop f re ix starthex (endhex + 1)
        else .err .invalidHex ix

def hexVal (b : Nat) : Nat :=
  if isDigit b then b - 48 else (b ||| 32) - 87

/-- `u32::from_str_radix(s, 16)` for `s` made of hex digits: `none` = `Err` (empty or overflow) -/
def parseHexU32 (s : List Nat) : Option Nat :=
  if s.isEmpty then none
  else
    let v := s.foldl (fun a d => a * 16 + hexVal d) 0
    if v ≤ 4294967295 then some v else none

/-- `parse_hex(ix, digits)` -/
def parseHex (re : Bytes) (fl : Flags) (ix digits : Nat) : Res (Nat × Expr) := do
  if ix ≥ re.size then .err .invalidHex ix
  else
    let b ← byteAt re ix "parse_hex: bytes[ix]"
    let end_s : Nat × List Nat ←
      (if ix + digits ≤ re.size && (re.extract ix (ix + digits)).toList.all isHexDigit then do
        let s ← slice re ix (ix + digits) "parse_hex: self.re[ix..end]"
        pure (ix + digits, s)
      else if b == ch '{' then do
        let starthex := ix + 1
        let endhex ← hexBraceLoop 16 re ix starthex starthex
        let s ← slice re starthex endhex "parse_hex: self.re[starthex..endhex]"
        pure (endhex + 1, s)
      else .err .invalidHex ix)
    match parseHexU32 end_s.2 with
    | none => .panic "parse_hex: from_str_radix(..).unwrap()"
    | some cp =>
      if cp.isValidChar then
        .ok (end_s.1, .literal [mkChar cp] fl.casei)
      else .err .invalidCodepointValue ix

/-- the `\p{…}` loop of `parse_escape`: index after the closing `}` -/
def uniNameLoop : Nat → Bytes → Nat → Nat → Res Nat
  | 0, _, _, _ => .outOfFuel
  | f + 1, re, ix, end_ =>
    if end_ == re.size then .err .unclosedUnicodeName ix
    else
      match re[end_]? with
      | none => .panic "parse_escape: bytes[end] (\\p{)"
      | some b =>
        if b == ch '}' then .ok (end_ + 1)
        else uniNameLoop f re ix (end_ + codepointLen b)

/-- `make_literal` -/
def makeLiteral (s : List Char) : Expr := .literal s false

/-- `parse_escape(ix, in_class)`; `ix` points to the backslash -/
def parseEscape (isAlnum : Char → Bool) (re : Bytes) (st : PState) (ix : Nat) (inClass : Bool) :
    Res (Nat × Expr × PState) :=
  match re[ix + 1]? with
  | none => .err .trailingBackslash ix
  | some b =>
    let end_ := ix + 1 + codepointLen b
    if isDigit b then parseNumberedBackref re st (ix + 1) .backref
    else if b == ch 'k' && !inClass then
      if re[end_]? == some (ch '\'') then
        parseNamedBackref isAlnum re st end_ [ch '\''] [ch '\''] true .backref
      else parseNamedBackref isAlnum re st end_ [ch '<'] [ch '>'] true .backref
    else if b == ch 'A' && !inClass then .ok (end_, .assertion .startText, st)
    else if b == ch 'z' && !inClass then .ok (end_, .assertion .endText, st)
    else if b == ch 'Z' && !inClass then
      .ok (end_, .look (.delegate ['\n', '*', '$'] 0 false) .ahead, st)
    else if b == ch 'b' && !inClass then
      if re[end_]? == some (ch '{') then do
        let s ← slice re (ix + 1) end_ "parse_escape: self.re[ix + 1..end] (\\b{)"
        .err (.invalidEscape (ch '\\' :: s)) ix
      else .ok (end_, .assertion .wordB, st)
    else if b == ch 'B' && !inClass then
      if re[end_]? == some (ch '{') then do
        let s ← slice re (ix + 1) end_ "parse_escape: self.re[ix + 1..end] (\\B{)"
        .err (.invalidEscape (ch '\\' :: s)) ix
      else .ok (end_, .assertion .notWordB, st)
    else if b == ch '<' && !inClass then .ok (end_, .assertion .leftWord, st)
    else if b == ch '>' && !inClass then .ok (end_, .assertion .rightWord, st)
    else if (b ||| 32) == ch 'd' || (b ||| 32) == ch 's' || (b ||| 32) == ch 'w' then do
      let s ← slice re ix end_ "parse_escape: self.re[ix..end] (\\d\\s\\w)"
      .ok (end_, .delegate (decodeList s) 1 st.flags.casei, st)
    else if (b ||| 32) == ch 'h' then
      let s := if b == ch 'h' then "[0-9A-Fa-f]" else "[^0-9A-Fa-f]"
      .ok (end_, .delegate s.toList 1 false, st)
    else if b == ch 'x' then do
      let (e, x) ← parseHex re st.flags end_ 2
      .ok (e, x, st)
    else if b == ch 'u' then do
      let (e, x) ← parseHex re st.flags end_ 4
      .ok (e, x, st)
    else if b == ch 'U' then do
      let (e, x) ← parseHex re st.flags end_ 8
      .ok (e, x, st)
    else if (b ||| 32) == ch 'p' && end_ != re.size then do
      let b2 ← byteAt re end_ "parse_escape: bytes[end] (\\p)"
      let end1 := end_ + codepointLen b2
      let end2 ← (if b2 == ch '{' then uniNameLoop (re.size + 1) re ix end1 else pure end1)
      let s ← slice re ix end2 "parse_escape: self.re[ix..end] (\\p)"
      .ok (end2, .delegate (decodeList s) 1 st.flags.casei, st)
    else if b == ch 'K' && !inClass then .ok (end_, .keepOut, st)
    else if b == ch 'G' && !inClass then .ok (end_, .contPrev, st)
    else if b == ch 'g' && !inClass then
      if end_ == re.size then .err (.invalidEscape [ch '\\', ch 'g']) ix
      else do
        let b2 ← byteAt re end_ "parse_escape: bytes[end] (\\g)"
        if isDigit b2 then parseNumberedBackref re st end_ .subroutine
        else if b2 == ch '\'' then
          parseNamedBackref isAlnum re st end_ [ch '\''] [ch '\''] true .subroutine
        else parseNamedBackref isAlnum re st end_ [ch '<'] [ch '>'] true .subroutine
    else
      if b == ch 'a' then .ok (end_, makeLiteral ['\x07'], st)
      else if b == ch 'b' then .ok (end_, makeLiteral ['\x08'], st)
      else if b == ch 'f' then .ok (end_, makeLiteral ['\x0c'], st)
      else if b == ch 'n' then .ok (end_, makeLiteral ['\n'], st)
      else if b == ch 'r' then .ok (end_, makeLiteral ['\r'], st)
      else if b == ch 't' then .ok (end_, makeLiteral ['\t'], st)
      else if b == ch 'v' then .ok (end_, makeLiteral ['\x0b'], st)
      else if b == ch 'e' then .ok (end_, makeLiteral ['\x1b'], st)
      else if b == ch ' ' then .ok (end_, makeLiteral [' '], st)
      else do
        let s ← slice re (ix + 1) end_ "parse_escape: self.re[ix + 1..end]"
        if isAsciiAlphabetic b &&
            !(b == ch 'k' || b == ch 'A' || b == ch 'z' || b == ch 'b' || b == ch 'B' ||
              b == ch '<' || b == ch '>' || b == ch 'K' || b == ch 'G') then
          .err (.invalidEscape (ch '\\' :: s)) ix
        else .ok (end_, makeLiteral (decodeList s), st)

/-- `regex_syntax::is_meta_character` -/
def isMetaCharacter (c : Char) : Bool :=
  c == '\\' || c == '.' || c == '+' || c == '*' || c == '?' || c == '(' || c == ')' || c == '|' ||
  c == '[' || c == ']' || c == '{' || c == '}' || c == '^' || c == '$' || c == '#' || c == '&' ||
  c == '-' || c == '~'

/-- `regex_syntax::escape_into` (the appended characters) -/
def escapeInto (s : List Char) : List Char :=
  s.flatMap fun c => if isMetaCharacter c then ['\\', c] else [c]

/-- the loop of `parse_class`; `rcls` is the class text so far, reversed.  Result: index of the
    closing `]`, the class text (reversed), the state. -/
def classLoop (isAlnum : Char → Bool) : Nat → Bytes → PState → Nat → Int → List Char →
    Res (Nat × List Char × PState)
  | 0, _, _, _, _, _ => .outOfFuel
  | f + 1, re, st, ix, nest, rcls =>
    if ix == re.size then .err .invalidClass ix
    else
      match re[ix]? with
      | none => .panic "parse_class: bytes[ix]"
      | some b =>
        if b == ch '\\' then
          match parseEscape isAlnum re st ix true with
          | .ok (end_, e, st') =>
            match e with
            | .literal val _ =>
              if val.length != 1 then .panic "parse_class: debug_assert_eq!(val.chars().count(), 1)"
              else classLoop isAlnum f re st' end_ nest ((escapeInto val).reverse ++ rcls)
            | .delegate inner _ _ => classLoop isAlnum f re st' end_ nest (inner.reverse ++ rcls)
            | _ => .err .invalidClass ix
          | .err k p => .err k p
          | .cerr => .cerr
          | .panic s => .panic s
          | .outOfFuel => .outOfFuel
        else if b == ch '[' then classLoop isAlnum f re st (ix + 1) (nest + 1) ('[' :: rcls)
        else if b == ch ']' then
          if nest - 1 == 0 then .ok (ix, ']' :: rcls, st)
          else classLoop isAlnum f re st (ix + 1) (nest - 1) (']' :: rcls)
        else
          let end_ := ix + codepointLen b
          match slice re ix end_ "parse_class: self.re[ix..end]" with
          | .ok s => classLoop isAlnum f re st end_ nest ((decodeList s).reverse ++ rcls)
          | .err k p => .err k p
          | .cerr => .cerr
          | .panic s => .panic s
          | .outOfFuel => .outOfFuel

/-- `parse_class(ix)`; `ix` points to the opening `[` -/
def parseClass (isAlnum : Char → Bool) (re : Bytes) (st : PState) (ix : Nat) :
    Res (Nat × Expr × PState) := do
  let ix := ix + 1
  let rcls : List Char := ['[']
  let (ix, rcls) := if re[ix]? == some (ch '^') then (ix + 1, '^' :: rcls) else (ix, rcls)
  let (ix, rcls) := if re[ix]? == some (ch ']') then (ix + 1, ']' :: rcls) else (ix, rcls)
  let (ix, rcls, st) ← classLoop isAlnum (re.size + 2) re st ix 1 rcls
  .ok (ix + 1, .delegate rcls.reverse 1 st.flags.casei, st)

/-- `check_for_close_paren(ix)` -/
def checkForCloseParen (re : Bytes) (fl : Flags) (ix : Nat) : Res Nat := do
  let ix ← optWs re fl ix
  if ix == re.size then .err .unclosedOpenParen ix
  else
    let b ← byteAt re ix "check_for_close_paren: bytes[ix]"
    if b != ch ')' then .err (.general .expectedCloseParen) ix
    else .ok (ix + 1)

/-- `unknown_flag(re, start, end)` -/
def unknownFlag (re : Bytes) (start end_ : Nat) : Res PErr := do
  let b ← byteAt re end_ "unknown_flag: bytes[end]"
  let afterEnd := end_ + codepointLen b
  let s ← slice re start afterEnd "unknown_flag: re[start..after_end]"
  .ok (.unknownFlag (ch '(' :: ch '?' :: s))

/-- `update_flag(flag, neg)` for the five letters -/
def updateFlag (fl : Flags) (b : Nat) (neg : Bool) : Flags :=
  if b == ch 'i' then { fl with casei := !neg }
  else if b == ch 'm' then { fl with multi := !neg }
  else if b == ch 's' then { fl with dotnl := !neg }
  else if b == ch 'U' then { fl with swapGreed := !neg }
  else if b == ch 'x' then { fl with ignoreSpace := !neg }
  else fl

/-- how the letter loop of `parse_flags` ends (when it does not fail) -/
inductive FlagsEnd where
  /-- `)` at `ix`: `Ok((ix + 1, Expr::Empty))` -/
  | close (ix : Nat)
  /-- `:` at `ix`: go on with `parse_re(ix + 1, depth)` -/
  | colon (ix : Nat)

/-- the loop of `parse_flags` up to `)` or `:`; the flags are updated in place (`self.flags`) -/
def flagsLoop : Nat → Bytes → Flags → Nat → Nat → Bool → Res (FlagsEnd × Flags)
  | 0, _, _, _, _, _ => .outOfFuel
  | f + 1, re, fl, start, ix, neg =>
    match optWs re fl ix with
    | .ok ix =>
      if ix == re.size then .err .unclosedOpenParen ix
      else
        match re[ix]? with
        | none => .panic "parse_flags: bytes[ix]"
        | some b =>
          if b == ch 'i' || b == ch 'm' || b == ch 's' || b == ch 'U' || b == ch 'x' then
            flagsLoop f re (updateFlag fl b neg) start (ix + 1) neg
          else if b == ch 'u' then
            if neg then .err .nonUnicodeUnsupported ix
            else flagsLoop f re fl start (ix + 1) neg
          else if b == ch '-' then
            if neg then
              match unknownFlag re start ix with
              | .ok e => .err e start
              | .err k p => .err k p | .cerr => .cerr | .panic s => .panic s | .outOfFuel => .outOfFuel
            else flagsLoop f re fl start (ix + 1) true
          else if b == ch ')' then
            if ix == start || (neg && ix == start + 1) then
              match unknownFlag re start ix with
              | .ok e => .err e start
              | .err k p => .err k p | .cerr => .cerr | .panic s => .panic s | .outOfFuel => .outOfFuel
            else .ok (.close ix, fl)
          else if b == ch ':' then
            if neg && ix == start + 1 then
              match unknownFlag re start ix with
              | .ok e => .err e start
              | .err k p => .err k p | .cerr => .cerr | .panic s => .panic s | .outOfFuel => .outOfFuel
            else .ok (.colon ix, fl)
          else
            match unknownFlag re start ix with
            | .ok e => .err e start
            | .err k p => .err k p | .cerr => .cerr | .panic s => .panic s | .outOfFuel => .outOfFuel
    | .err k p => .err k p
    | .cerr => .cerr
    | .panic s => .panic s
    | .outOfFuel => .outOfFuel

/-- `is_repeatable` -/
def isRepeatable : Expr → Bool
  | .look _ _ => false
  | .empty => false
  | .assertion _ => false
  | _ => true

/-- `hi` of the Rust tree → `hi` of the model tree -/
def hiOf (h : Nat) : Option Nat := if h == usizeMax then none else some h

/-- which opening a group has, as decided by the `starts_with` chain of `parse_group` -/
def lookOf (re : Bytes) (ix : Nat) : Option (Look × Nat) :=
  if startsWithAt re ix [ch '?', ch '='] then some (.ahead, 2)
  else if startsWithAt re ix [ch '?', ch '!'] then some (.aheadNeg, 2)
  else if startsWithAt re ix [ch '?', ch '<', ch '='] then some (.behind, 3)
  else if startsWithAt re ix [ch '?', ch '<', ch '!'] then some (.behindNeg, 3)
  else none

/-! ## The recursive descent -/

mutual

/-- `parse_re(ix, depth)` -/
def parseRe (isAlnum : Char → Bool) : Nat → Bytes → PState → Nat → Nat → Res (Nat × Expr × PState)
  | 0, _, _, _, _ => .outOfFuel
  | f + 1, re, st, ix, depth => do
    let (ix, child, st) ← parseBranch isAlnum f re st ix depth
    let ix ← optWs re st.flags ix
    sliceFrom re ix "parse_re: self.re[ix..]"
    if re[ix]? == some (ch '|') then
      let (ix, rest, st) ← reAltLoop isAlnum f re st ix depth
      .ok (ix, .alt (child :: rest), { st with lastReHadAlt := true })
    else
      let st := { st with lastReHadAlt := false }
      if st.numericBackrefs && !st.namedGroups.isEmpty then .cerr
      else .ok (ix, child, st)

/-- `while self.re[ix..].starts_with('|') { … }` of `parse_re`: the further children -/
def reAltLoop (isAlnum : Char → Bool) : Nat → Bytes → PState → Nat → Nat →
    Res (Nat × List Expr × PState)
  | 0, _, _, _, _ => .outOfFuel
  | f + 1, re, st, ix, depth => do
    sliceFrom re ix "parse_re: self.re[ix..] (loop)"
    if re[ix]? == some (ch '|') then
      let (next, child, st) ← parseBranch isAlnum f re st (ix + 1) depth
      let ix ← optWs re st.flags next
      let (ix, rest, st) ← reAltLoop isAlnum f re st ix depth
      .ok (ix, child :: rest, st)
    else .ok (ix, [], st)

/-- `parse_branch(ix, depth)` -/
def parseBranch (isAlnum : Char → Bool) : Nat → Bytes → PState → Nat → Nat →
    Res (Nat × Expr × PState)
  | 0, _, _, _, _ => .outOfFuel
  | f + 1, re, st, ix, depth => do
    let (ix, children, st) ← branchLoop isAlnum f re st ix depth
    match children with
    | [] => .ok (ix, .empty, st)
    | [c] => .ok (ix, c, st)
    | cs => .ok (ix, .concat cs, st)

/-- `while ix < self.re.len() { … }` of `parse_branch`: the children -/
def branchLoop (isAlnum : Char → Bool) : Nat → Bytes → PState → Nat → Nat →
    Res (Nat × List Expr × PState)
  | 0, _, _, _, _ => .outOfFuel
  | f + 1, re, st, ix, depth =>
    if ix < re.size then do
      let (next, child, st) ← parsePiece isAlnum f re st ix depth
      if next == ix then .ok (ix, [], st)
      else
        let (ix', rest, st) ← branchLoop isAlnum f re st next depth
        .ok (ix', if child.isEmpty then rest else child :: rest, st)
    else .ok (ix, [], st)

/-- `parse_piece(ix, depth)` -/
def parsePiece (isAlnum : Char → Bool) : Nat → Bytes → PState → Nat → Nat →
    Res (Nat × Expr × PState)
  | 0, _, _, _, _ => .outOfFuel
  | f + 1, re, st, ix, depth => do
    let (ix, child, st) ← parseAtom isAlnum f re st ix depth
    let ix ← optWs re st.flags ix
    if ix < re.size then
      let b ← byteAt re ix "parse_piece: bytes[ix]"
      -- `(lo, hi)` and the index of the last byte of the quantifier, or no quantifier
      let q : Option (Nat × Nat × Nat) ←
        (if b == ch '?' then (pure (some (0, 1, ix)) : Res _)
         else if b == ch '*' then pure (some (0, usizeMax, ix))
         else if b == ch '+' then pure (some (1, usizeMax, ix))
         else if b == ch '{' then
           match parseRepeat re st.flags ix with
           | .ok (next, lo, hi) =>
             if next == 0 then .panic "parse_piece: next - 1" else pure (some (lo, hi, next - 1))
           | .err _ _ => pure none
           | .cerr => pure none
           | .panic s => .panic s
           | .outOfFuel => .outOfFuel
         else pure none)
      match q with
      | none => .ok (ix, child, st)
      | some (lo, hi, ix) =>
        if !isRepeatable child then .err .targetNotRepeatable ix
        else
          let ix ← optWs re st.flags (ix + 1)
          let lazy_ := ix < re.size && re[ix]? == some (ch '?')
          let ix := if lazy_ then ix + 1 else ix
          let greedy := (!lazy_) ^^ st.flags.swapGreed
          let node : Expr := .repeat child lo (hiOf hi) greedy
          if ix < re.size && re[ix]? == some (ch '+') then .ok (ix + 1, .atomic node, st)
          else .ok (ix, node, st)
    else .ok (ix, child, st)

/-- `parse_atom(ix, depth)` -/
def parseAtom (isAlnum : Char → Bool) : Nat → Bytes → PState → Nat → Nat →
    Res (Nat × Expr × PState)
  | 0, _, _, _, _ => .outOfFuel
  | f + 1, re, st, ix, depth => do
    let ix ← optWs re st.flags ix
    if ix == re.size then .ok (ix, .empty, st)
    else
      let b ← byteAt re ix "parse_atom: bytes[ix]"
      if b == ch '.' then .ok (ix + 1, .any st.flags.dotnl, st)
      else if b == ch '^' then
        .ok (ix + 1, .assertion (if st.flags.multi then .startLine false else .startText), st)
      else if b == ch '$' then
        .ok (ix + 1, .assertion (if st.flags.multi then .endLine false else .endText), st)
      else if b == ch '(' then parseGroup isAlnum f re st ix depth
      else if b == ch '\\' then parseEscape isAlnum re st ix false
      else if b == ch '+' || b == ch '*' || b == ch '?' || b == ch '|' || b == ch ')' then
        .ok (ix, .empty, st)
      else if b == ch '[' then parseClass isAlnum re st ix
      else
        let next := ix + codepointLen b
        let s ← slice re ix next "parse_atom: self.re[ix..next]"
        .ok (next, .literal (decodeList s) st.flags.casei, st)

/-- `parse_group(ix, depth)`; `ix` points to the `(` -/
def parseGroup (isAlnum : Char → Bool) : Nat → Bytes → PState → Nat → Nat →
    Res (Nat × Expr × PState)
  | 0, _, _, _, _ => .outOfFuel
  | f + 1, re, st, ix, depth => do
    let depth := depth + 1
    if depth ≥ Generated.maxRecursion then .err .recursionExceeded ix
    else
      let ix ← optWs re st.flags (ix + 1)
      sliceFrom re ix "parse_group: self.re[ix..]"
      -- `(la, skip)` and the state, or an early return
      let body (la : Option Look) (skip : Nat) (st : PState) : Res (Nat × Expr × PState) := do
        let ix := ix + skip
        let (ix, child, st) ← parseRe isAlnum f re st ix depth
        let ix ← checkForCloseParen re st.flags ix
        match la with
        | some la => .ok (ix, .look child la, st)
        | none => if skip == 2 then .ok (ix, .atomic child, st) else .ok (ix, .group 0 child, st)
      match lookOf re ix with
      | some (la, skip) => body (some la) skip st
      | none =>
        if startsWithAt re ix [ch '?', ch '<'] then
          let st := { st with currGroup := st.currGroup + 1 }
          sliceFrom re (ix + 1) "parse_group: self.re[ix + 1..]"
          match ← parseId isAlnum re (ix + 1) [ch '<'] [ch '>'] false with
          | some (a, b, skip) =>
            let st := { st with namedGroups := namedInsert st.namedGroups (re.extract a b).toList st.currGroup }
            body none (skip + 1) st
          | none => .err .invalidGroupName ix
        else if startsWithAt re ix [ch '?', ch 'P', ch '<'] then
          let st := { st with currGroup := st.currGroup + 1 }
          sliceFrom re (ix + 2) "parse_group: self.re[ix + 2..]"
          match ← parseId isAlnum re (ix + 2) [ch '<'] [ch '>'] false with
          | some (a, b, skip) =>
            let st := { st with namedGroups := namedInsert st.namedGroups (re.extract a b).toList st.currGroup }
            body none (skip + 2) st
          | none => .err .invalidGroupName ix
        else if startsWithAt re ix [ch '?', ch 'P', ch '='] then
          parseNamedBackref isAlnum re st (ix + 3) [] [ch ')'] false .backref
        else if startsWithAt re ix [ch '?', ch '>'] then body none 2 st
        else if startsWithAt re ix [ch '?', ch '('] then
          parseConditional isAlnum f re st (ix + 2) depth
        else if startsWithAt re ix [ch '?', ch 'P', ch '>'] then
          parseNamedBackref isAlnum re st (ix + 3) [] [ch ')'] false .subroutine
        else if startsWithAt re ix [ch '?'] then parseFlags isAlnum f re st ix depth
        else body none 0 { st with currGroup := st.currGroup + 1 }

/-- `parse_flags(ix, depth)`; `ix` points to the `?` of `(?` -/
def parseFlags (isAlnum : Char → Bool) : Nat → Bytes → PState → Nat → Nat →
    Res (Nat × Expr × PState)
  | 0, _, _, _, _ => .outOfFuel
  | f + 1, re, st, ix, depth => do
    let start := ix + 1
    let oldflags := st.flags
    let (e, fl) ← flagsLoop (re.size + 2) re st.flags start start false
    let st := { st with flags := fl }
    match e with
    | .close ix => .ok (ix + 1, .empty, st)
    | .colon ix =>
      let (ix, child, st) ← parseRe isAlnum f re st (ix + 1) depth
      if ix == re.size then .err .unclosedOpenParen ix
      else
        let b ← byteAt re ix "parse_flags: bytes[ix] (close)"
        if b != ch ')' then .err (.general .expectedCloseParen) ix
        else .ok (ix + 1, child, { st with flags := oldflags })

/-- `parse_conditional(ix, depth)`; `ix` points after `(?(` -/
def parseConditional (isAlnum : Char → Bool) : Nat → Bytes → PState → Nat → Nat →
    Res (Nat × Expr × PState)
  | 0, _, _, _, _ => .outOfFuel
  | f + 1, re, st, ix, depth => do
    if ix ≥ re.size then .err .unclosedOpenParen ix
    else
      let b ← byteAt re ix "parse_conditional: bytes[ix]"
      -- `(?(1)..)`, `(?('name')..)`, `(?(<name>)..)` test whether the group has matched; any other
      -- condition is an expression to be matched (also when that expression is a back-reference)
      let isGroupTest := isDigit b || b == ch '\'' || b == ch '<'
      let (next, condition, st) ←
        (if isDigit b then parseNumberedBackref re st ix .backref
         else if b == ch '\'' then
           parseNamedBackref isAlnum re st ix [ch '\''] [ch '\''] true .backref
         else if b == ch '<' then
           parseNamedBackref isAlnum re st ix [ch '<'] [ch '>'] true .backref
         else parseRe isAlnum f re st ix depth)
      let next ← checkForCloseParen re st.flags next
      let (end_, child, st) ← parseRe isAlnum f re st next depth
      let hasElse := st.lastReHadAlt
      if end_ == next then
        match isGroupTest, condition with
        | true, .backref g =>
          let after ← checkForCloseParen re st.flags end_
          .ok (after, .backrefExists g, st)
        | _, _ => .err (.general .expectedConditional) end_
      else
        -- (if_true, if_false)
        let branches : Expr × Expr ←
          (match child, hasElse with
          | .alt alternatives, true =>
            match alternatives with
            | [] => (.panic "parse_conditional: alternatives.remove(0)" : Res (Expr × Expr))
            | t :: rest =>
              match rest with
              | [e] => pure (t, e)
              | _ => pure (t, .alt rest)
          | c, _ => pure (c, .empty))
        let innerCondition : Expr :=
          match isGroupTest, condition with
          | true, .backref g => .backrefExists g
          | _, c => c
        let after ← checkForCloseParen re st.flags end_
        if !hasElse && branches.1.isEmpty then .ok (after, innerCondition, st)
        else .ok (after, .cond innerCondition branches.1 branches.2, st)

end

/-- fuel of the mutual descent: every frame of a call chain is either one of at most 8 frames per
    nesting level (`depth < MAX_RECURSION`) or a loop iteration that has consumed a byte -/
def descentFuel (len : Nat) : Nat := 4 * len + 16 * Generated.maxRecursion + 64

/-- what `ExprTree` holds -/
structure Tree where
  expr : Expr
  backrefs : List Nat
  namedGroups : List (List Nat × Nat)
deriving Repr

/-- `Parser::parse_with_case_insensitive(re, casei)` on the bytes of `re` -/
def parseBytes (isAlnum : Char → Bool) (re : Bytes) (casei : Bool) : Res Tree :=
  let st : PState := { flags := { casei := casei } }
  match parseRe isAlnum (descentFuel re.size) re st 0 0 with
  | .ok (ix, e, st) =>
    if ix < re.size then .err (.general .endNotReached) ix
    else .ok { expr := e, backrefs := st.backrefs, namedGroups := st.namedGroups }
  | .err k p => .err k p
  | .cerr => .cerr
  | .panic s => .panic s
  | .outOfFuel => .outOfFuel

/-- the bytes of a string given as scalar values -/
def bytesOf (cs : List Char) : Bytes := (Utf8.encode (cs.map Char.toNat)).toArray

/-- the parser on a `&str` -/
def parseStr (isAlnum : Char → Bool) (cs : List Char) (casei : Bool) : Res Tree :=
  parseBytes isAlnum (bytesOf cs) casei

end Fancy.Parse
