import FancyModel.Model.Basic
/-!
# Analyzer model (src/analyze.rs)

The Rust analyzer builds an `Info` tree bottom-up. Its attributes are synthesized, so the model
gives them as structural functions of the (numbered) tree; `group_ix` threading is `renumber`;
the error checks (`InvalidBackref`, subroutine calls) are `checkRefs`, in the Rust visiting order.
Arithmetic saturates at `usize::MAX` (after the F4 repair).
-/
namespace Fancy

def satAdd (a b : Nat) : Nat := min (a + b) UNSET
def satMul (a b : Nat) : Nat := min (a * b) UNSET

inductive CompileErr where
  | invalidBackref | featureNotSupported | lookBehindNotConst | innerError | namedBackrefOnly
deriving DecidableEq, Repr, Inhabited

mutual
/-- assign group numbers in opening-parenthesis (pre-)order starting from `n` -/
def renumber : Expr → Nat → Expr × Nat
  | .group _ e, n => let r := renumber e (n + 1); (.group n r.1, r.2)
  | .concat es, n => let r := renumberList es n; (.concat r.1, r.2)
  | .alt es, n => let r := renumberList es n; (.alt r.1, r.2)
  | .look e la, n => let r := renumber e n; (.look r.1 la, r.2)
  | .repeat e lo hi g, n => let r := renumber e n; (.repeat r.1 lo hi g, r.2)
  | .atomic e, n => let r := renumber e n; (.atomic r.1, r.2)
  | .cond c y f, n =>
    let rc := renumber c n
    let ry := renumber y rc.2
    let rf := renumber f ry.2
    (.cond rc.1 ry.1 rf.1, rf.2)
  | e, n => (e, n)
def renumberList : List Expr → Nat → List Expr × Nat
  | [], n => ([], n)
  | e :: es, n =>
    let r := renumber e n
    let rs := renumberList es r.2
    (r.1 :: rs.1, rs.2)
end

mutual
/-- number of capture groups inside -/
def groupCount : Expr → Nat
  | .group _ e => groupCount e + 1
  | .concat es => groupCountList es
  | .alt es => groupCountList es
  | .look e _ => groupCount e
  | .repeat e _ _ _ => groupCount e
  | .atomic e => groupCount e
  | .cond c y f => groupCount c + groupCount y + groupCount f
  | _ => 0
def groupCountList : List Expr → Nat
  | [] => 0
  | e :: es => groupCount e + groupCountList es
end

/-- `lo == hi` on the Rust side, where "no upper bound" is `usize::MAX` -/
def boundsEq (lo : Nat) (hi : Option Nat) : Bool := hi == some lo || (hi.isNone && lo == UNSET)

/-- iterations a counted loop is certain to run: `lo`, capped by `hi` -/
def sureReps (lo : Nat) (hi : Option Nat) : Nat := match hi with | some h => min lo h | none => lo

mutual
/-- `Info::min_size` -/
def minSize : Expr → Nat
  | .any _ => 1
  | .literal _ _ => 1
  | .concat es => minSizeSum es
  | .alt es => minSizeMin es
  | .group _ e => minSize e
  -- `min(lo, hi)`: with reversed bounds `{3,2}` the loop stops at `hi` (F18 repair)
  | .repeat e lo hi _ => satMul (minSize e) (sureReps lo hi)
  | .delegate _ size _ => size
  | .atomic e => minSize e
  | .cond c y f => min (satAdd (minSize c) (minSize y)) (minSize f)
  | _ => 0
def minSizeSum : List Expr → Nat
  | [] => 0
  | e :: es => satAdd (minSize e) (minSizeSum es)
/-- minimum over the alternatives (0 for the empty list, which the parser never produces) -/
def minSizeMin : List Expr → Nat
  | [] => 0
  | [e] => minSize e
  | e :: es => min (minSize e) (minSizeMin es)
end

/-- all alternatives have minimum size `m` -/
def allMinSize (m : Nat) : List Expr → Bool
  | [] => true
  | e :: es => minSize e == m && allMinSize m es

mutual
/-- `Info::const_size` -/
def constSize : Expr → Bool
  | .empty => true
  | .assertion _ => true
  | .any _ => true
  | .literal _ _ => true
  | .concat es => constSizeAll es
  | .alt es => constSizeAll es && (match es with | [] => false | e :: _ => allMinSize (minSize e) es)
  | .group _ e => constSize e
  | .look _ _ => true
  | .repeat e lo hi _ => constSize e && boundsEq lo hi
  | .delegate _ _ _ => true
  | .backref _ => false
  | .atomic e => constSize e
  | .keepOut => true
  | .contPrev => true
  | .backrefExists _ => true
  | .cond c y f => constSize c && constSize y && constSize f && satAdd (minSize c) (minSize y) == minSize f
  | .subroutine _ => false
def constSizeAll : List Expr → Bool
  | [] => true
  | e :: es => constSize e && constSizeAll es
end

mutual
/-- `Info::hard`; `br g` = group `g` is the target of some back-reference -/
def isHard (br : Nat → Bool) : Expr → Bool
  | .assertion a => a.isHard
  | .concat es => isHardAny br es
  | .alt es => isHardAny br es
  | .group g e => isHard br e || br g
  | .look _ _ => true
  -- a zero-times repeat with groups inside is kept away from the automata engine (F17 repair)
  | .repeat e _ hi _ => isHard br e || (hi == some 0 && decide (groupCount e > 0))
  | .backref _ => true
  | .atomic _ => true
  | .keepOut => true
  | .contPrev => true
  | .backrefExists _ => true
  | .cond _ _ _ => true
  | _ => false
def isHardAny (br : Nat → Bool) : List Expr → Bool
  | [] => false
  | e :: es => isHard br e || isHardAny br es
end

mutual
/-- The analyzer's error checks in its visiting order; threads `group_ix`. -/
def checkRefs : Expr → Nat → Except CompileErr Nat
  | .group _ e, n => checkRefs e (n + 1)
  | .concat es, n => checkRefsList es n
  | .alt es, n => checkRefsList es n
  | .look e _, n => checkRefs e n
  | .repeat e _ _ _, n => checkRefs e n
  | .atomic e, n => checkRefs e n
  | .backref g, n => if g ≥ n then .error .invalidBackref else .ok n
  | .backrefExists g, n => if g ≥ n then .error .invalidBackref else .ok n
  | .cond c y f, n =>
    match checkRefs c n with
    | .error e => .error e
    | .ok n1 => match checkRefs y n1 with
      | .error e => .error e
      | .ok n2 => checkRefs f n2
  | .subroutine _, _ => .error .featureNotSupported
  | _, n => .ok n
def checkRefsList : List Expr → Nat → Except CompileErr Nat
  | [], n => .ok n
  | e :: es, n => match checkRefs e n with
    | .error err => .error err
    | .ok n' => checkRefsList es n'
end

/-- one row of the analysis: the hook's `NodeFacts` -/
structure Facts where
  depth : Nat
  kind : String
  startGroup : Nat
  endGroup : Nat
  minSize : Nat
  constSize : Bool
  hard : Bool
deriving Repr, DecidableEq

mutual
def factsOf (br : Nat → Bool) : Expr → Nat → Nat → List Facts × Nat
  | e@(.group _ c), d, n =>
    let r := factsOf br c (d + 1) (n + 1)
    (⟨d, e.kind, n, r.2, minSize e, constSize e, isHard br e⟩ :: r.1, r.2)
  | e@(.concat es), d, n =>
    let r := factsOfList br es (d + 1) n
    (⟨d, e.kind, n, r.2, minSize e, constSize e, isHard br e⟩ :: r.1, r.2)
  | e@(.alt es), d, n =>
    let r := factsOfList br es (d + 1) n
    (⟨d, e.kind, n, r.2, minSize e, constSize e, isHard br e⟩ :: r.1, r.2)
  | e@(.look c _), d, n =>
    let r := factsOf br c (d + 1) n
    (⟨d, e.kind, n, r.2, minSize e, constSize e, isHard br e⟩ :: r.1, r.2)
  | e@(.repeat c _ _ _), d, n =>
    let r := factsOf br c (d + 1) n
    (⟨d, e.kind, n, r.2, minSize e, constSize e, isHard br e⟩ :: r.1, r.2)
  | e@(.atomic c), d, n =>
    let r := factsOf br c (d + 1) n
    (⟨d, e.kind, n, r.2, minSize e, constSize e, isHard br e⟩ :: r.1, r.2)
  | e@(.cond c y f), d, n =>
    let rc := factsOf br c (d + 1) n
    let ry := factsOf br y (d + 1) rc.2
    let rf := factsOf br f (d + 1) ry.2
    (⟨d, e.kind, n, rf.2, minSize e, constSize e, isHard br e⟩ :: (rc.1 ++ ry.1 ++ rf.1), rf.2)
  | e, d, n => ([⟨d, e.kind, n, n, minSize e, constSize e, isHard br e⟩], n)
def factsOfList (br : Nat → Bool) : List Expr → Nat → Nat → List Facts × Nat
  | [], _, n => ([], n)
  | e :: es, d, n =>
    let r := factsOf br e d n
    let rs := factsOfList br es d r.2
    (r.1 ++ rs.1, rs.2)
end

end Fancy
