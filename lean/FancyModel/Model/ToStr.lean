import FancyModel.Model.Basic
/-!
# `Expr::to_str`, `push_quoted`, `is_special`, `escape` (src/lib.rs)

`isSpecialList` is *generated* from the source on every run (`Generated.lean`); this file takes it
as a parameter so that the theorems about `escape` are re-checked against what the code says now.
-/
namespace Fancy

def pushQuoted (special : Char → Bool) : List Char → List Char
  | [] => []
  | c :: cs => if special c then '\\' :: c :: pushQuoted special cs else c :: pushQuoted special cs

/-- `escape`: `none` = `Cow::Borrowed` (nothing needed escaping), `some s` = `Cow::Owned s` -/
def escape (special : Char → Bool) (s : List Char) : Option (List Char) :=
  if s.any special then some (pushQuoted special s) else none

def escapeStr (special : Char → Bool) (s : List Char) : List Char :=
  (escape special s).getD s

def natDigits (n : Nat) : List Char := (toString n).toList

mutual
/-- `Expr::to_str`; `none` = the Rust code panics ("attempting to format hard expr") -/
def toStr (sp : Char → Bool) : Expr → Nat → Option (List Char)
  | .empty, _ => some []
  | .any nl, _ => some (if nl then "(?s:.)".toList else ['.'])
  | .literal val casei, _ =>
    some (if casei then "(?i:".toList ++ pushQuoted sp val ++ [')'] else pushQuoted sp val)
  | .assertion .startText, _ => some ['^']
  | .assertion .endText, _ => some ['$']
  | .assertion (.startLine false), _ => some "(?m:^)".toList
  | .assertion (.endLine false), _ => some "(?m:$)".toList
  | .assertion (.startLine true), _ => some "(?Rm:^)".toList
  | .assertion (.endLine true), _ => some "(?Rm:$)".toList
  | .concat es, prec =>
    (toStrConcat sp es).map fun s => if prec > 1 then "(?:".toList ++ s ++ [')'] else s
  | .alt es, prec =>
    (toStrAlt sp es true).map fun s => if prec > 0 then "(?:".toList ++ s ++ [')'] else s
  | .group _ e, _ => (toStr sp e 0).map fun s => '(' :: s ++ [')']
  | .repeat e lo hi greedy, prec =>
    (toStr sp e 3).map fun s =>
      let q : List Char := match lo, hi with
        | 0, some 1 => ['?']
        | 0, none => ['*']
        | 1, none => ['+']
        | lo, hi =>
          '{' :: natDigits lo ++
            (if hi == some lo || (hi.isNone && lo == UNSET) then []
             else ',' :: (match hi with | some h => natDigits h | none => []))
            ++ ['}']
      let body := s ++ q ++ (if greedy then [] else ['?'])
      if prec > 2 then "(?:".toList ++ body ++ [')'] else body
  | .delegate inner _ casei, _ =>
    some (if casei then "(?i:".toList ++ inner ++ [')'] else inner)
  | _, _ => none
def toStrConcat (sp : Char → Bool) : List Expr → Option (List Char)
  | [] => some []
  | e :: es => match toStr sp e 2, toStrConcat sp es with
    | some a, some b => some (a ++ b)
    | _, _ => none
def toStrAlt (sp : Char → Bool) : List Expr → Bool → Option (List Char)
  | [], _ => some []
  | e :: es, first => match toStr sp e 1, toStrAlt sp es false with
    | some a, some b => some ((if first then a else '|' :: a) ++ b)
    | _, _ => none
end

end Fancy
