import FancyModel.Model.State
import FancyModel.Model.Compile
import FancyModel.Spec.SemK
/-!
# The backtracking interpreter (`vm::run`, src/vm.rs), instruction by instruction

Positions are code-point indices. `Delegate` is executed by `delegateOracle`: the first result of
the reference semantics of the delegated expressions anchored at `ix` (assumption A-RA, DESIGN §3.1).
The loop takes fuel; `outOfFuel` is a model artefact that the limit theorems exclude.
-/
namespace Fancy

inductive Outcome where
  | matched (saves : List Nat)
  | noMatch
  | errLimit
  | errStack
  | panic (site : String)
  | outOfFuel
deriving DecidableEq, Repr, Inhabited

structure Stats where
  steps : Nat := 0
  backtracks : Nat := 0
  maxDepth : Nat := 0
deriving DecidableEq, Repr, Inhabited

structure VMOpts where
  backtrackLimit : Nat
  maxStack : Nat

/-- view of the VM's slot vector as capture slots -/
def viewSlots (saves : List Nat) : List (Option Nat) :=
  saves.map fun v => if v == UNSET then none else some v

/-- clear the slots of groups `sg .. eg-1` -/
def clearGroups (slots : List (Option Nat)) (sg eg : Nat) : List (Option Nat) :=
  (List.range (eg - sg)).foldl (fun sl i => (sl.set ((sg + i) * 2) none).set ((sg + i) * 2 + 1) none) slots

/-- Anchored search of the delegated expressions at `ix`: first result of the reference semantics,
    with the delegate's own groups starting unset (as regex-automata starts them). -/
def delegateOracleSpec (c : Ctx) (es : List Expr) (sg eg : Nat) (ix : Nat) (saves : List Nat) : Option St :=
  (semConcat c es ⟨ix, clearGroups (viewSlots saves) sg eg⟩).head?

/-- the same, evaluated first-result (`Lemmas/SemK`: equal to `delegateOracleSpec`) -/
def delegateOracle (c : Ctx) (es : List Expr) (sg eg : Nat) (ix : Nat) (saves : List Nat) : Option St :=
  semKConcat c es ⟨ix, clearGroups (viewSlots saves) sg eg⟩ some

/-- copy the groups that took part into the VM slots (`state.save` for each, in order) -/
def copyGroups (r : St) (sg : Nat) : Nat → State → Option State
  | 0, s => some s
  | n + 1, s =>
    match copyGroups r sg n s with
    | none => none
    | some s =>
      let g := sg + n
      match r.slot (g * 2), r.slot (g * 2 + 1) with
      | some a, some b => (s.save (g * 2) a).bind fun s => s.save (g * 2 + 1) b
      | some _, none => none          -- `inner_slots[..].unwrap()`
      | none, _ => some s

inductive StepResult where
  | cont (pc ix : Nat) (s : State)
  | fail (s : State)
  | done (o : Outcome)

/-- `FailNegativeLookAround`: pop until the popped pc is `target` -/
def popUntil (target : Nat) : Nat → State → Option State
  | 0, _ => none
  | fuel + 1, s =>
    match s.pop with
    | none => none
    | some (s', pc, _) => if pc == target then some s' else popUntil target fuel s'

def goBack (ix : Nat) (n : Nat) : Option Nat := if n ≤ ix then some (ix - n) else none

def pushOr (s : State) (pc ix : Nat) (k : State → StepResult) : StepResult :=
  match s.push pc ix with
  | .overflow => .done .errStack
  | .ok s' => k s'

/-- `Insn::End`: cap the reported start into `[pos, end]` (the lower cap is the F6 repair) -/
def capStart (s : State) (pos : Nat) : Option State :=
  match s.saves[1]? with
  | none => some s
  | some slot1 =>
    (s.get 0).bind fun s0 =>
      (if s0 > slot1 then s.save 0 slot1 else some s).bind fun s1 =>
        (s1.get 0).bind fun s0' => if s0' < pos then s1.save 0 pos else some s1

/-- one instruction at `pc` -/
def step (c : Ctx) (prog : List Insn) (pc ix : Nat) (s : State) : StepResult :=
  match prog[pc]? with
  | none => .done (.panic "prog index")
  | some insn =>
  match insn with
  | .end_ =>
    match capStart s c.pos with
    | some s' => .done (.matched s'.saves)
    | none => .done (.panic "end")
  | .any =>
    match c.at? ix with
    | some _ => .cont (pc + 1) (ix + 1) s
    | none => .fail s
  | .anyNoNL =>
    match c.at? ix with
    | some ch => if ch != '\n' then .cont (pc + 1) (ix + 1) s else .fail s
    | none => .fail s
  | .lit val => if c.litAt false val ix then .cont (pc + 1) (ix + val.length) s else .fail s
  | .assertion a => if c.assertion a ix then .cont (pc + 1) ix s else .fail s
  | .split x y => pushOr s y ix fun s' => .cont x ix s'
  | .jmp t => .cont t ix s
  | .save slot => match s.save slot ix with
    | some s' => .cont (pc + 1) ix s'
    | none => .done (.panic "save")
  | .save0 slot => match s.save slot 0 with
    | some s' => .cont (pc + 1) ix s'
    | none => .done (.panic "save0")
  | .restore slot => match s.get slot with
    | some v => .cont (pc + 1) v s
    | none => .done (.panic "restore")
  | .repeatGr lo hi next rep =>
    match s.get rep with
    | none => .done (.panic "repeat get")
    | some cnt =>
      if hi == some cnt then .cont next ix s else
      match s.save rep (cnt + 1) with
      | none => .done (.panic "repeat save")
      | some s' =>
        if cnt ≥ lo then pushOr s' next ix fun s'' => .cont (pc + 1) ix s''
        else .cont (pc + 1) ix s'
  | .repeatNg lo hi next rep =>
    match s.get rep with
    | none => .done (.panic "repeat get")
    | some cnt =>
      if hi == some cnt then .cont next ix s else
      match s.save rep (cnt + 1) with
      | none => .done (.panic "repeat save")
      | some s' =>
        if cnt ≥ lo then pushOr s' (pc + 1) ix fun s'' => .cont next ix s''
        else .cont (pc + 1) ix s'
  | .repeatEpsGr lo next rep check =>
    match s.get rep, s.get check with
    | some cnt, some chk =>
      if cnt > lo && chk == ix then .fail s else
      match s.save rep (cnt + 1) with
      | none => .done (.panic "repeat save")
      | some s' =>
        if cnt ≥ lo then
          match s'.save check ix with
          | none => .done (.panic "repeat save")
          | some s'' => pushOr s'' next ix fun s3 => .cont (pc + 1) ix s3
        else .cont (pc + 1) ix s'
    | _, _ => .done (.panic "repeat get")
  | .repeatEpsNg lo next rep check =>
    match s.get rep, s.get check with
    | some cnt, some chk =>
      if cnt > lo && chk == ix then .fail s else
      match s.save rep (cnt + 1) with
      | none => .done (.panic "repeat save")
      | some s' =>
        if cnt ≥ lo then
          match s'.save check ix with
          | none => .done (.panic "repeat save")
          | some s'' => pushOr s'' (pc + 1) ix fun s3 => .cont next ix s3
        else .cont (pc + 1) ix s'
    | _, _ => .done (.panic "repeat get")
  | .goBack n => match goBack ix n with
    | some ix' => .cont (pc + 1) ix' s
    | none => .fail s
  | .failNegLook =>
    match popUntil (pc + 1) (s.stack.length + 1) s with
    | some s' => .fail s'
    | none => .done (.panic "failNegLook pop")
  | .backref slot =>
    match s.get slot, s.get (slot + 1) with
    | some lo, some hi =>
      if lo == UNSET || hi == UNSET then .fail s
      else if lo > hi then .fail s
      else if c.sameAt lo hi ix then .cont (pc + 1) (ix + (hi - lo)) s else .fail s
    | _, _ => .done (.panic "backref get")
  | .backrefExists g =>
    match s.get (g * 2) with
    | some lo => if lo == UNSET then .fail s else .cont (pc + 1) ix s
    | none => .done (.panic "backrefExists get")
  | .beginAtomic =>
    match s.stackPush s.backtrackCount with
    | some s' => .cont (pc + 1) ix s'
    | none => .done (.panic "stack_push")
  | .endAtomic =>
    match s.stackPop with
    | none => .done (.panic "stack_pop")
    | some (s', count) =>
      match s'.backtrackCut count with
      | some s'' => .cont (pc + 1) ix s''
      | none => .done (.panic "backtrack_cut")
  | .delegate es sg eg =>
    match delegateOracle c es sg eg ix s.saves with
    | none => .fail s
    | some r =>
      if sg == eg then .cont (pc + 1) r.ix s
      else match copyGroups r sg (eg - sg) s with
        | some s' => .cont (pc + 1) r.ix s'
        | none => .done (.panic "delegate copy")
  | .contPrev => if ix != c.pos || c.skipped then .fail s else .cont (pc + 1) ix s

/-- the interpreter loop -/
def runLoop (c : Ctx) (prog : List Insn) (o : VMOpts) :
    Nat → Nat → Nat → State → Stats → Outcome × Stats
  | 0, _, _, _, st => (.outOfFuel, st)
  | fuel + 1, pc, ix, s, st =>
    let st := { st with steps := st.steps + 1 }
    match step c prog pc ix s with
    | .done out => (out, st)
    | .cont pc' ix' s' =>
      runLoop c prog o fuel pc' ix' s' { st with maxDepth := max st.maxDepth s'.stack.length }
    | .fail s' =>
      if s'.stack.isEmpty then (.noMatch, st) else
      let st := { st with backtracks := st.backtracks + 1 }
      if st.backtracks > o.backtrackLimit then (.errLimit, st) else
      match s'.pop with
      | none => (.panic "pop", st)
      | some (s'', pc', ix') => runLoop c prog o fuel pc' ix' s'' st

/-- `vm::run` -/
def run (c : Ctx) (p : Prog) (o : VMOpts) (fuel : Nat) : Outcome × Stats :=
  runLoop c p.body o fuel 0 c.pos (State.new p.nSaves o.maxStack) {}

end Fancy
