/-!
# Byte-level helpers (src/lib.rs `codepoint_len`, `next_utf8`, `prev_codepoint_ix`)

Bytes are `Nat`s `< 256`; the thresholds of `codepointLen` are re-extracted from the source on
every run (`Generated.lean`) and compared with the ones used here by `Proofs/Generated` checks.
-/
namespace Fancy.Utf8

abbrev Bytes := List Nat

/-- `codepoint_len(b)` -/
def codepointLen (b : Nat) : Nat :=
  if b < 0x80 then 1 else if b < 0xe0 then 2 else if b < 0xf0 then 3 else 4

/-- `next_utf8(text, i)` -/
def nextUtf8 (text : Bytes) (i : Nat) : Nat :=
  match text[i]? with
  | none => i + 1
  | some b => i + codepointLen b

/-- a byte that is not a continuation byte (`(b as i8) >= -0x40`) -/
def isLead (b : Nat) : Bool := b < 0x80 || b ≥ 0xc0

/-- `str::is_char_boundary` -/
def isBoundary (text : Bytes) (i : Nat) : Bool :=
  i == 0 || i == text.length || (match text[i]? with | some b => isLead b | none => false)

/-- `prev_codepoint_ix(s, ix)`; precondition `ix > 0` (`none` = index underflow panic) -/
def prevCodepointIx (text : Bytes) : Nat → Option Nat
  | 0 => none
  | ix + 1 => match text[ix]? with
    | none => none
    | some b => if isLead b then some ix else prevCodepointIx text ix

/-- UTF-8 encoding of a scalar value -/
def encodeChar (c : Nat) : Bytes :=
  if c < 0x80 then [c]
  else if c < 0x800 then [0xc0 + c / 64, 0x80 + c % 64]
  else if c < 0x10000 then [0xe0 + c / 4096, 0x80 + (c / 64) % 64, 0x80 + c % 64]
  else [0xf0 + c / 262144, 0x80 + (c / 4096) % 64, 0x80 + (c / 64) % 64, 0x80 + c % 64]

def encode (cs : List Nat) : Bytes := cs.flatMap encodeChar

/-- `&text[a..b]`: `none` = the slice panics (out of range, `a > b`, or off a boundary) -/
def slice (text : Bytes) (a b : Nat) : Option Bytes :=
  if a ≤ b && b ≤ text.length && isBoundary text a && isBoundary text b then
    some ((text.drop a).take (b - a))
  else none

end Fancy.Utf8
