import FancyModel.Model.Analyze
/-!
# Compiler model (src/compile.rs): analyzed tree → VM program

Written in "known address" style: `visit e hard pc nsv gix` returns the code of `e` *placed at
address `pc`*, given `nsv` auxiliary slots allocated so far and `gix` groups opened so far (the
analyzer's `start_group` of the node). The Rust code back-patches jump targets; here every target
is computed from the lengths of the pieces. The emitted listing is compared with the real one on
every run.

A `Delegate` instruction carries the expressions it was built from (the Rust one carries the
compiled automaton and the pattern string).
-/
namespace Fancy

inductive Insn where
  | end_
  | any
  | anyNoNL
  | assertion (a : Assertion)
  | lit (s : List Char)
  | split (x y : Nat)
  | jmp (t : Nat)
  | save (slot : Nat)
  | save0 (slot : Nat)
  | restore (slot : Nat)
  | repeatGr (lo : Nat) (hi : Option Nat) (next rep : Nat)
  | repeatNg (lo : Nat) (hi : Option Nat) (next rep : Nat)
  | repeatEpsGr (lo next rep check : Nat)
  | repeatEpsNg (lo next rep check : Nat)
  | failNegLook
  | goBack (n : Nat)
  | backref (slot : Nat)
  | beginAtomic
  | endAtomic
  | delegate (es : List Expr) (startGroup endGroup : Nat)
  | contPrev
  | backrefExists (g : Nat)
deriving Repr, Inhabited

structure Prog where
  body : List Insn
  nSaves : Nat
deriving Repr, Inhabited

abbrev Code := List Insn
/-- code, auxiliary slots allocated afterwards -/
abbrev CRes := Except CompileErr (Code × Nat)

mutual
/-- `Info::is_literal` -/
def isLiteral : Expr → Bool
  | .literal _ casei => !casei
  | .concat es => isLiteralAll es
  | _ => false
def isLiteralAll : List Expr → Bool
  | [] => true
  | e :: es => isLiteral e && isLiteralAll es
end

mutual
/-- `Info::push_literal` (only called when `isLiteral`) -/
def pushLiteral : Expr → List Char
  | .literal val _ => val
  | .concat es => pushLiteralAll es
  | _ => []
def pushLiteralAll : List Expr → List Char
  | [] => []
  | e :: es => pushLiteral e ++ pushLiteralAll es
end

/-- `compile_delegate` -/
def compileDelegate (e : Expr) (gix : Nat) : Code :=
  if isLiteral e then [.lit (pushLiteral e)] else [.delegate [e] gix (gix + groupCount e)]

/-- `compile_delegates` -/
def compileDelegates (es : List Expr) (gix : Nat) : Code :=
  if es.isEmpty then []
  else if isLiteralAll es then [.lit (pushLiteralAll es)]
  else [.delegate es gix (gix + groupCountList es)]

/-- where the concat splits: (prefix_end, suffix_begin) -/
def concatSplit (br : Nat → Bool) (es : List Expr) (hard : Bool) : Nat × Nat :=
  let easyConst := fun (c : Expr) => constSize c && !isHard br c
  let prefixEnd := (es.takeWhile easyConst).length
  let rest := (es.drop prefixEnd).reverse
  let suffixLen := if !hard then (rest.takeWhile (fun c => !isHard br c)).length
                   else (rest.takeWhile easyConst).length
  (prefixEnd, es.length - suffixLen)

/-- address of the body of a positive look-around placed at `pc` -/
def posLookBodyPc (atomic behind : Bool) (pc : Nat) : Nat :=
  pc + (if atomic then 1 else 0) + 1 + (if behind then 1 else 0)

/-- `compile_positive_lookaround` around an already compiled body (atomic when the body is
    compiled for the VM: F14 repair); `slot` is the auxiliary slot holding the position -/
def wrapPosLook (atomic behind : Bool) (slot minSz : Nat) (body : Code) : Code :=
  let core := [Insn.save slot] ++ (if behind then [Insn.goBack minSz] else []) ++ body ++ [Insn.restore slot]
  if atomic then [Insn.beginAtomic] ++ core ++ [Insn.endAtomic] else core

/-- address of the body of a negative look-around placed at `pc` -/
def negLookBodyPc (behind : Bool) (pc : Nat) : Nat := pc + 1 + (if behind then 1 else 0)

/-- `compile_negative_lookaround` around an already compiled body placed at `pc` -/
def wrapNegLook (behind : Bool) (pc minSz : Nat) (body : Code) : Code :=
  let inner := (if behind then [Insn.goBack minSz] else []) ++ body
  [Insn.split (pc + 1) (pc + 1 + inner.length + 1)] ++ inner ++ [Insn.failNegLook]

mutual
def visit (br : Nat → Bool) : Expr → Bool → Nat → Nat → Nat → CRes
  | e, hard, pc, nsv, gix =>
    if !hard && !isHard br e then .ok (compileDelegate e gix, nsv) else
    match e with
    | .empty => .ok ([], nsv)
    | .literal val casei => if !casei then .ok ([.lit val], nsv) else .ok (compileDelegate e gix, nsv)
    | .any true => .ok ([.any], nsv)
    | .any false => .ok ([.anyNoNL], nsv)
    | .concat es =>
      let sp := concatSplit br es hard
      let pre := compileDelegates (es.take sp.1) gix
      let gMid := gix + groupCountList (es.take sp.1)
      match visitMiddle br es sp.1 (sp.2 - sp.1) (pc + pre.length) nsv gMid with
      | .error err => .error err
      | .ok (mid, nsv') =>
        let gSuf := gix + groupCountList (es.take sp.2)
        .ok (pre ++ mid ++ compileDelegates (es.drop sp.2) gSuf, nsv')
    | .alt es =>
      match visitAlt br es hard pc nsv gix with
      | .error err => .error err
      | .ok (f, endPc, nsv') => .ok (f endPc, nsv')
    | .group g c =>
      match visit br c hard (pc + 1) nsv (gix + 1) with
      | .error err => .error err
      | .ok (code, nsv') => .ok ([.save (g * 2)] ++ code ++ [.save (g * 2 + 1)], nsv')
    | .repeat c lo hi greedy =>
      if lo == 0 && hi == some 1 then
        match visit br c hard (pc + 1) nsv gix with
        | .error err => .error err
        | .ok (code, nsv') =>
          let next := pc + 1 + code.length
          .ok ((if greedy then Insn.split (pc + 1) next else Insn.split next (pc + 1)) :: code, nsv')
      else
        let hard' := hard || isHard br e
        if hi == none && minSize c == 0 then
          let rep := nsv
          let check := nsv + 1
          match visit br c hard' (pc + 2) (nsv + 2) gix with
          | .error err => .error err
          | .ok (code, nsv') =>
            let next := pc + 2 + code.length + 1
            let head := if greedy then Insn.repeatEpsGr lo next rep check else Insn.repeatEpsNg lo next rep check
            .ok ([.save0 rep, head] ++ code ++ [.jmp (pc + 1)], nsv')
        else if lo == 0 && hi == none then
          match visit br c hard' (pc + 1) nsv gix with
          | .error err => .error err
          | .ok (code, nsv') =>
            let next := pc + 1 + code.length + 1
            .ok ([if greedy then Insn.split (pc + 1) next else Insn.split next (pc + 1)] ++ code ++ [.jmp pc], nsv')
        else if lo == 1 && hi == none then
          match visit br c hard' pc nsv gix with
          | .error err => .error err
          | .ok (code, nsv') =>
            let next := pc + code.length + 1
            .ok (code ++ [if greedy then Insn.split pc next else Insn.split next pc], nsv')
        else
          let rep := nsv
          match visit br c hard' (pc + 2) (nsv + 1) gix with
          | .error err => .error err
          | .ok (code, nsv') =>
            let next := pc + 2 + code.length + 1
            let head := if greedy then Insn.repeatGr lo hi next rep else Insn.repeatNg lo hi next rep
            .ok ([.save0 rep, head] ++ code ++ [.jmp (pc + 1)], nsv')
    | .look c .ahead =>
      match visit br c false (posLookBodyPc (isHard br c) false pc) (nsv + 1) gix with
      | .error err => .error err
      | .ok (code, nsv') => .ok (wrapPosLook (isHard br c) false nsv 0 code, nsv')
    | .look c .aheadNeg =>
      match visit br c false (negLookBodyPc false pc) nsv gix with
      | .error err => .error err
      | .ok (code, nsv') => .ok (wrapNegLook false pc 0 code, nsv')
    | .look (.alt es) .behind =>
      if !constSize (.alt es) then
        match lookBehindAlts br es (pc + 1) nsv gix with
        | .error err => .error err
        | .ok (f, endPc, nsv') => .ok ([.beginAtomic] ++ f endPc ++ [.endAtomic], nsv')
      else
        match visitAltBody br es (posLookBodyPc (isHardAny br es) true pc) (nsv + 1) gix with
        | .error err => .error err
        | .ok (code, nsv') => .ok (wrapPosLook (isHardAny br es) true nsv (minSizeMin es) code, nsv')
    | .look c .behind =>
      if !constSize c then .error .lookBehindNotConst else
      match visit br c false (posLookBodyPc (isHard br c) true pc) (nsv + 1) gix with
      | .error err => .error err
      | .ok (code, nsv') => .ok (wrapPosLook (isHard br c) true nsv (minSize c) code, nsv')
    | .look (.alt es) .behindNeg =>
      if !constSize (.alt es) then lookBehindNegAlts br es pc nsv gix
      else
        match visitAltBody br es (negLookBodyPc true pc) nsv gix with
        | .error err => .error err
        | .ok (code, nsv') => .ok (wrapNegLook true pc (minSizeMin es) code, nsv')
    | .look c .behindNeg =>
      if !constSize c then .error .lookBehindNotConst else
      match visit br c false (negLookBodyPc true pc) nsv gix with
      | .error err => .error err
      | .ok (code, nsv') => .ok (wrapNegLook true pc (minSize c) code, nsv')
    | .backref g => .ok ([.backref (g * 2)], nsv)
    | .backrefExists g => .ok ([.backrefExists g], nsv)
    | .atomic c =>
      match visit br c false (pc + 1) nsv gix with
      | .error err => .error err
      | .ok (code, nsv') => .ok ([.beginAtomic] ++ code ++ [.endAtomic], nsv')
    | .delegate _ _ _ => .ok (compileDelegate e gix, nsv)
    | .assertion a => .ok ([.assertion a], nsv)
    | .keepOut => .ok ([.save 0], nsv)
    | .contPrev => .ok ([.contPrev], nsv)
    | .cond c y n =>
      -- BeginAtomic; Split(pc+2, falsePc); cond; EndAtomic; yes; Jmp(end); no
      match visit br c hard (pc + 2) nsv gix with
      | .error err => .error err
      | .ok (cc, nsv1) =>
        let yPc := pc + 2 + cc.length + 1
        match visit br y hard yPc nsv1 (gix + groupCount c) with
        | .error err => .error err
        | .ok (yc, nsv2) =>
          let falsePc := yPc + yc.length + 1
          match visit br n hard falsePc nsv2 (gix + groupCount c + groupCount y) with
          | .error err => .error err
          | .ok (nc, nsv3) =>
            .ok ([.beginAtomic, .split (pc + 2) falsePc] ++ cc ++ [.endAtomic] ++ yc ++
                 [.jmp (falsePc + nc.length)] ++ nc, nsv3)
    | .subroutine _ => .error .featureNotSupported

/-- `visit (Alt es) false …` for an alternation that is the (constant-size) body of a look-behind:
    the same code as the `.alt` case of `visit` in a non-hard context -/
def visitAltBody (br : Nat → Bool) : List Expr → Nat → Nat → Nat → CRes
  | es, pc, nsv, gix =>
    if !isHardAny br es then .ok (compileDelegate (.alt es) gix, nsv) else
    match visitAlt br es false pc nsv gix with
    | .error err => .error err
    | .ok (f, endPc, nsv') => .ok (f endPc, nsv')

/-- the children `skip .. skip+take` of a concat, each in a hard context -/
def visitMiddle (br : Nat → Bool) : List Expr → Nat → Nat → Nat → Nat → Nat → CRes
  | [], _, _, _, nsv, _ => .ok ([], nsv)
  | e :: es, skip + 1, take, pc, nsv, gix => visitMiddle br es skip take pc nsv gix
  | _ :: _, 0, 0, _, nsv, _ => .ok ([], nsv)
  | e :: es, 0, take + 1, pc, nsv, gix =>
    match visit br e true pc nsv gix with
    | .error err => .error err
    | .ok (c1, nsv1) =>
      match visitMiddle br es 0 take (pc + c1.length) nsv1 (gix + groupCount e) with
      | .error err => .error err
      | .ok (c2, nsv2) => .ok (c1 ++ c2, nsv2)

/-- `compile_alt` over the alternatives, each visited in context `hard`. Returns the code as a
    function of the address just after the whole alternation, that address, and the slot count. -/
def visitAlt (br : Nat → Bool) : List Expr → Bool → Nat → Nat → Nat →
    Except CompileErr ((Nat → Code) × Nat × Nat)
  | [], _, pc, nsv, _ => .ok (fun _ => [], pc, nsv)
  | [e], hard, pc, nsv, gix =>
    match visit br e hard pc nsv gix with
    | .error err => .error err
    | .ok (c, nsv') => .ok (fun _ => c, pc + c.length, nsv')
  | e :: es, hard, pc, nsv, gix =>
    match visit br e hard (pc + 1) nsv gix with
    | .error err => .error err
    | .ok (c, nsv1) =>
      let nextAlt := pc + 1 + c.length + 1
      match visitAlt br es hard nextAlt nsv1 (gix + groupCount e) with
      | .error err => .error err
      | .ok (f, endPc, nsv2) =>
        .ok (fun endT => [Insn.split (pc + 1) nextAlt] ++ c ++ [Insn.jmp endT] ++ f endT, endPc, nsv2)

/-- `(?<=a|bb)` ⇒ alternation of positive look-behinds -/
def lookBehindAlts (br : Nat → Bool) : List Expr → Nat → Nat → Nat →
    Except CompileErr ((Nat → Code) × Nat × Nat)
  | [], pc, nsv, _ => .ok (fun _ => [], pc, nsv)
  | [e], pc, nsv, gix =>
    if !constSize e then .error .lookBehindNotConst else
    match visit br e false (posLookBodyPc (isHard br e) true pc) (nsv + 1) gix with
    | .error err => .error err
    | .ok (body, nsv') =>
      let c := wrapPosLook (isHard br e) true nsv (minSize e) body
      .ok (fun _ => c, pc + c.length, nsv')
  | e :: es, pc, nsv, gix =>
    if !constSize e then .error .lookBehindNotConst else
    match visit br e false (posLookBodyPc (isHard br e) true (pc + 1)) (nsv + 1) gix with
    | .error err => .error err
    | .ok (body, nsv1) =>
      let c := wrapPosLook (isHard br e) true nsv (minSize e) body
      let nextAlt := pc + 1 + c.length + 1
      match lookBehindAlts br es nextAlt nsv1 (gix + groupCount e) with
      | .error err => .error err
      | .ok (f, endPc, nsv2) =>
        .ok (fun endT => [Insn.split (pc + 1) nextAlt] ++ c ++ [Insn.jmp endT] ++ f endT, endPc, nsv2)

/-- `(?<!a|bb)` ⇒ sequence of negative look-behinds -/
def lookBehindNegAlts (br : Nat → Bool) : List Expr → Nat → Nat → Nat → CRes
  | [], _, nsv, _ => .ok ([], nsv)
  | e :: es, pc, nsv, gix =>
    if !constSize e then .error .lookBehindNotConst else
    match visit br e false (negLookBodyPc true pc) nsv gix with
    | .error err => .error err
    | .ok (body, nsv1) =>
      let c1 := wrapNegLook true pc (minSize e) body
      match lookBehindNegAlts br es (pc + c1.length) nsv1 (gix + groupCount e) with
      | .error err => .error err
      | .ok (c2, nsv2) => .ok (c1 ++ c2, nsv2)
end

/-- `compile(info)`: the whole (wrapped, numbered) tree with `n_saves = 2 * end_group` to start -/
def compile (br : Nat → Bool) (e : Expr) : Except CompileErr Prog :=
  let nGroups := groupCount e
  match visit br e false 0 (nGroups * 2) 0 with
  | .error err => .error err
  | .ok (code, nsv) => .ok ⟨code ++ [.end_], nsv⟩

/-! stage predicate of the engine refinement: the program has no `Delegate` instruction -/
def Insn.isDelegate : Insn → Bool
  | .delegate _ _ _ => true
  | _ => false

def noDeleg (code : List Insn) : Bool := code.all fun i => !i.isDelegate

end Fancy
