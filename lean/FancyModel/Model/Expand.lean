import FancyModel.Model.Basic
/-!
# Template expansion (src/expand.rs) and its scanners `parse_id`, `parse_decimal` (src/parse.rs)

Templates are `List Char`; `skip` counts characters (the Rust code counts bytes of the same
prefix). `isId` is `char::is_alphanumeric() || '_'` — a parameter of every theorem, instantiated
by the driver with a table for the harness alphabet.
-/
namespace Fancy.Expand

structure Expander where
  subChar : Char
  openD : List Char
  closeD : List Char
  allowUndelimited : Bool
deriving Repr, DecidableEq

/-- `Expander::default()` -/
def dollar : Expander := ⟨'$', ['{'], ['}'], true⟩
/-- `Expander::python()` -/
def python : Expander := ⟨'\\', ['g', '<'], ['>'], false⟩

def isDigit (c : Char) : Bool := '0' ≤ c && c ≤ '9'

def digitsVal (ds : List Char) : Nat := ds.foldl (fun acc d => acc * 10 + (d.toNat - '0'.toNat)) 0

/-- `parse_decimal(s, 0)`: `(skip, value)`; fails on no digits or a value above `usize::MAX` -/
def parseDecimal (s : List Char) : Option (Nat × Nat) :=
  let ds := s.takeWhile isDigit
  if ds.isEmpty then none
  else if digitsVal ds > UNSET then none
  else some (ds.length, digitsVal ds)

/-- `str::parse::<usize>()` on a string of identifier characters -/
def parseUsize (s : List Char) : Option Nat :=
  if s.isEmpty || !s.all isDigit then none
  else if digitsVal s > UNSET then none
  else some (digitsVal s)

/-- the identifier characters at the head of `body` (`-` and digits for a relative reference) -/
def idCharsOf (isId : Char → Bool) (body : List Char) (allowRelative : Bool) : List Char :=
  match allowRelative, body with
  | true, '-' :: rest => '-' :: rest.takeWhile isDigit
  | _, _ => body.takeWhile isId

/-- is what follows the identifier the closing delimiter (running to the end of the string is fine
    only without a closer) -/
def closeOk (closeD after : List Char) : Bool :=
  match after with
  | [] => closeD.isEmpty
  | _ => closeD.isPrefixOf after

/-- `parse_id(s, open, close, allow_relative)`: `(id, skip)` -/
def parseId (isId : Char → Bool) (s openD closeD : List Char) (allowRelative : Bool) :
    Option (List Char × Nat) :=
  if !openD.isPrefixOf s then none else
  if !closeOk closeD ((s.drop openD.length).drop (idCharsOf isId (s.drop openD.length) allowRelative).length) ||
      (idCharsOf isId (s.drop openD.length) allowRelative).isEmpty then none
  else some (idCharsOf isId (s.drop openD.length) allowRelative,
             openD.length + (idCharsOf isId (s.drop openD.length) allowRelative).length + closeD.length)

inductive Step where
  | char (c : Char)
  | groupName (id : List Char)
  | groupNum (n : Nat)
  | error
deriving Repr, DecidableEq

/-- `Expander::exec`: the steps handed to the callback, in order -/
def exec (isId : Char → Bool) (x : Expander) : Nat → List Char → List Step
  | 0, _ => []
  | _, [] => []
  | fuel + 1, c :: tail =>
    if c == x.subChar then
      match tail with
      | d :: _ =>
        if d == x.subChar then .char x.subChar :: exec isId x fuel (tail.drop 1) else
        match (parseId isId tail x.openD x.closeD false).orElse
                (fun _ => if x.allowUndelimited then parseId isId tail [] [] false else none) with
        | some (id, skip) => .groupName id :: exec isId x fuel (tail.drop skip)
        | none =>
          match parseDecimal tail with
          | some (skip, n) => .groupNum n :: exec isId x fuel (tail.drop skip)
          | none => .error :: .char x.subChar :: exec isId x fuel tail
      | [] => [.error, .char x.subChar]
    else .char c :: exec isId x fuel tail

def steps (isId : Char → Bool) (x : Expander) (t : List Char) : List Step :=
  exec isId x (t.length + 1) t

/-- what a `Captures` offers to the expander -/
structure Caps where
  /-- matched text of group `i` (`none`: unmatched or no such group) -/
  groups : List (Option (List Char))
  /-- named groups: name ↦ index -/
  names : List (List Char × Nat)

def Caps.get (c : Caps) (i : Nat) : Option (List Char) := (c.groups[i]?).join
def Caps.index (c : Caps) (name : List Char) : Option Nat := (c.names.find? (·.1 == name)).map (·.2)
def Caps.name (c : Caps) (name : List Char) : Option (List Char) := (c.index name).bind c.get

/-- output of one step of `write_expansion` -/
def stepOut (c : Caps) : Step → List Char
  | .char ch => [ch]
  | .groupName id =>
    match c.name id with
    | some m => m
    | none => match (parseUsize id).bind c.get with
      | some m => m
      | none => []
  | .groupNum n => (c.get n).getD []
  | .error => []

/-- `Expander::expansion` -/
def expansion (isId : Char → Bool) (x : Expander) (t : List Char) (c : Caps) : List Char :=
  (steps isId x t).flatMap (stepOut c)

/-- `Expander::escape`: `none` = borrowed -/
def escape (x : Expander) (t : List Char) : Option (List Char) :=
  if t.contains x.subChar then some (t.flatMap fun c => if c == x.subChar then [c, c] else [c])
  else none

def escapeStr (x : Expander) (t : List Char) : List Char := (escape x t).getD t

inductive CheckErr where
  | namedBackrefOnly | invalidBackref | parseError
deriving Repr, DecidableEq

/-- what `Expander::check` needs from the regex -/
structure RegexInfo where
  capturesLen : Nat
  names : List (List Char)

def onGroupNum (r : RegexInfo) (n : Nat) : Except CheckErr Unit :=
  if n == 0 then .ok ()
  else if !r.names.isEmpty then .error .namedBackrefOnly
  else if n < r.capturesLen then .ok ()
  else .error .invalidBackref

def checkStep (r : RegexInfo) : Step → Except CheckErr Unit
  | .char _ => .ok ()
  | .groupName id =>
    if r.names.contains id then .ok ()
    else match parseUsize id with
      | some n => onGroupNum r n
      | none => .error .invalidBackref
  | .groupNum n => onGroupNum r n
  | .error => .error .parseError

def checkSteps (r : RegexInfo) : List Step → Except CheckErr Unit
  | [] => .ok ()
  | s :: ss => match checkStep r s with
    | .error e => .error e
    | .ok () => checkSteps r ss

/-- `Expander::check` -/
def check (isId : Char → Bool) (x : Expander) (t : List Char) (r : RegexInfo) : Except CheckErr Unit :=
  checkSteps r (steps isId x t)

end Fancy.Expand
