import FancyModel.Proofs.C05b
/-!
# The backtracking interpreter at BYTE level (`vm::run`, src/vm.rs) — twin of `Model/VM.lean`

`Model/VM.lean` (`step`, `runLoop`, `run`) indexes the text by code point. The Rust interpreter
works on the bytes of a `&str` with byte offsets. This file is the interpreter once more, on a byte
context (`BCtx`: the text as `Utf8.Bytes`, the start position as a byte offset), instruction by
instruction as vm.rs manipulates bytes. The state is `Model/State.lean`'s `State`, unchanged: its
slots, undo log and branch stack now hold byte offsets.

Byte level (mirrors vm.rs):
* `Any` / `AnyNoNL`: `if ix < s.len() { ix += codepoint_len(s.as_bytes()[ix]) }`, the `\n` test on the
  byte;
* `Lit(val)`: `matches_literal`: `end = ix + val.len(); end <= s.len() && s.as_bytes()[ix..end] == val`
  (the literal's bytes are `encode (val.map Char.toNat)`);
* `GoBack(count)`: the loop `for _ in 0..count { if ix == 0 { fail }; ix = prev_codepoint_ix(s, ix) }`
  (`Utf8.goBackBytes`, over `Utf8.prevCodepointIx`);
* `Backref(slot)`: `ref_text = &s[lo..hi]` — a `str` slice: off a character boundary it panics
  (`Utf8.slice`) — `ix_end = ix + ref_text.len()`, `matches_literal(s, ix, ix_end, ref_text)`.
  (This version of vm.rs has no case-insensitive branch in `Backref`.)
* `Save`, `Restore`, `End` (with the start cap against the byte `pos`), `\G` (`ix == pos`), and every
  instruction that does not look at the text: as in `step`, on byte offsets.

**The A-RA boundary** (regex-automata is NOT modelled at byte level): `Assertion` (regex-automata's
`LookMatcher` on the bytes) and `Delegate` (an anchored regex-automata search on the bytes) are the
code-point model's `Ctx.assertion` / `delegateOracle`, conjugated by the offset map: the byte position
is converted to its character index (`charIx`; a position that is not a character boundary is a
panic outcome), the code-point answer is computed on `BCtx.chars`, and the resulting positions are
converted back to byte offsets (`offOf`). The oracle is handed the slots of the groups below the
delegate's last group (`saves.take (2 * eg)`), converted to character indices; regex-automata itself
starts from fresh slots, and for the pieces the compiler delegates (no back-references:
`pure_of_not_hard`) the oracle's answer does not depend on them (`semConcat_oblivious`).

Panic-site strings are those of `step`; the byte level adds `"backref slice"` (`&s[lo..hi]` off a
boundary / out of range), `"goBack index"` (`prev_codepoint_ix` indexing out of range),
`"assertion boundary"` and `"delegate boundary"`.

All definitions are computable.
-/
namespace Fancy
open Utf8

/-- UTF-8 bytes of a list of characters (`str::as_bytes`) -/
def bytesOfChars (cs : List Char) : Bytes := encode (cs.map Char.toNat)

/-- byte offset of character index `k` in `bytesOfChars cs` -/
def offOf (cs : List Char) (k : Nat) : Nat := off (cs.map Char.toNat) k

/-- byte-level search context: the bytes, the byte offset the search starts from, and — for the A-RA
    boundary (`Assertion`, `Delegate`) and the tables — the code-point context -/
structure BCtx where
  chars : Ctx
  text : Bytes
  pos : Nat

/-- the byte context of a code-point context: the text encoded, `pos` as a byte offset -/
def BCtx.ofCtx (c : Ctx) : BCtx := ⟨c, bytesOfChars c.text, offOf c.text c.pos⟩

/-- character index of a byte offset: the number of lead bytes before it; `none` off a boundary -/
def charIx (text : Bytes) (i : Nat) : Option Nat :=
  if i ≤ text.length && isBoundary text i then some ((text.take i).countP isLead) else none

/-- a slot value as a character index where it is one (oracle input only) -/
def unmapV (text : Bytes) (v : Nat) : Nat := (charIx text v).getD v

/-- `matches_literal(s, ix, end, literal)` -/
def matchesLiteral (text : Bytes) (ix e : Nat) (lit : Bytes) : Bool :=
  e ≤ text.length && (text.drop ix).take (e - ix) == lit

/-- bytes of a literal -/
def litBytes (val : List Char) : Bytes := encode (val.map Char.toNat)

/-- an oracle result with its positions converted to byte offsets -/
def St.toBytes (cs : List Char) (r : St) : St := ⟨offOf cs r.ix, r.slots.map (Option.map (offOf cs))⟩

/-- `Insn::End` against the byte `pos`: `capStart` is position-agnostic -/
abbrev capStartB (s : State) (pos : Nat) : Option State := capStart s pos

/-- one instruction at `pc`, byte level -/
def stepB (bc : BCtx) (prog : List Insn) (pc ix : Nat) (s : State) : StepResult :=
  match prog[pc]? with
  | none => .done (.panic "prog index")
  | some insn =>
  match insn with
  | .end_ =>
    match capStartB s bc.pos with
    | some s' => .done (.matched s'.saves)
    | none => .done (.panic "end")
  | .any =>
    match bc.text[ix]? with
    | some b => .cont (pc + 1) (ix + codepointLen b) s
    | none => .fail s
  | .anyNoNL =>
    match bc.text[ix]? with
    | some b => if b != 10 then .cont (pc + 1) (ix + codepointLen b) s else .fail s
    | none => .fail s
  | .lit val =>
    let ixEnd := ix + (litBytes val).length
    if matchesLiteral bc.text ix ixEnd (litBytes val) then .cont (pc + 1) ixEnd s else .fail s
  | .assertion a =>
    match charIx bc.text ix with
    | none => .done (.panic "assertion boundary")
    | some k => if bc.chars.assertion a k then .cont (pc + 1) ix s else .fail s
  | .split x y => pushOr s y ix fun s' => .cont x ix s'
  | .jmp t => .cont t ix s
  | .save slot => match s.save slot ix with
    | some s' => .cont (pc + 1) ix s'
    | none => .done (.panic "save")
  | .save0 slot => match s.save slot 0 with
    | some s' => .cont (pc + 1) ix s'
    | none => .done (.panic "save0")
  | .restore slot => match s.get slot with
    | some v => .cont (pc + 1) v s
    | none => .done (.panic "restore")
  | .repeatGr lo hi next rep =>
    match s.get rep with
    | none => .done (.panic "repeat get")
    | some cnt =>
      if hi == some cnt then .cont next ix s else
      match s.save rep (cnt + 1) with
      | none => .done (.panic "repeat save")
      | some s' =>
        if cnt ≥ lo then pushOr s' next ix fun s'' => .cont (pc + 1) ix s''
        else .cont (pc + 1) ix s'
  | .repeatNg lo hi next rep =>
    match s.get rep with
    | none => .done (.panic "repeat get")
    | some cnt =>
      if hi == some cnt then .cont next ix s else
      match s.save rep (cnt + 1) with
      | none => .done (.panic "repeat save")
      | some s' =>
        if cnt ≥ lo then pushOr s' (pc + 1) ix fun s'' => .cont next ix s''
        else .cont (pc + 1) ix s'
  | .repeatEpsGr lo next rep check =>
    match s.get rep, s.get check with
    | some cnt, some chk =>
      if cnt > lo && chk == ix then .fail s else
      match s.save rep (cnt + 1) with
      | none => .done (.panic "repeat save")
      | some s' =>
        if cnt ≥ lo then
          match s'.save check ix with
          | none => .done (.panic "repeat save")
          | some s'' => pushOr s'' next ix fun s3 => .cont (pc + 1) ix s3
        else .cont (pc + 1) ix s'
    | _, _ => .done (.panic "repeat get")
  | .repeatEpsNg lo next rep check =>
    match s.get rep, s.get check with
    | some cnt, some chk =>
      if cnt > lo && chk == ix then .fail s else
      match s.save rep (cnt + 1) with
      | none => .done (.panic "repeat save")
      | some s' =>
        if cnt ≥ lo then
          match s'.save check ix with
          | none => .done (.panic "repeat save")
          | some s'' => pushOr s'' (pc + 1) ix fun s3 => .cont next ix s3
        else .cont (pc + 1) ix s'
    | _, _ => .done (.panic "repeat get")
  | .goBack n =>
    match goBackBytes bc.text n ix with
    | none => .done (.panic "goBack index")
    | some none => .fail s
    | some (some ix') => .cont (pc + 1) ix' s
  | .failNegLook =>
    match popUntil (pc + 1) (s.stack.length + 1) s with
    | some s' => .fail s'
    | none => .done (.panic "failNegLook pop")
  | .backref slot =>
    match s.get slot, s.get (slot + 1) with
    | some lo, some hi =>
      if lo == UNSET || hi == UNSET then .fail s
      else if lo > hi then .fail s
      else
        match slice bc.text lo hi with
        | none => .done (.panic "backref slice")
        | some refText =>
          let ixEnd := ix + refText.length
          if matchesLiteral bc.text ix ixEnd refText then .cont (pc + 1) ixEnd s else .fail s
    | _, _ => .done (.panic "backref get")
  | .backrefExists g =>
    match s.get (g * 2) with
    | some lo => if lo == UNSET then .fail s else .cont (pc + 1) ix s
    | none => .done (.panic "backrefExists get")
  | .beginAtomic =>
    match s.stackPush s.backtrackCount with
    | some s' => .cont (pc + 1) ix s'
    | none => .done (.panic "stack_push")
  | .endAtomic =>
    match s.stackPop with
    | none => .done (.panic "stack_pop")
    | some (s', count) =>
      match s'.backtrackCut count with
      | some s'' => .cont (pc + 1) ix s''
      | none => .done (.panic "backtrack_cut")
  | .delegate es sg eg =>
    match charIx bc.text ix with
    | none => .done (.panic "delegate boundary")
    | some k =>
      match delegateOracle bc.chars es sg eg k ((s.saves.take (2 * eg)).map (unmapV bc.text)) with
      | none => .fail s
      | some r =>
        let rB := r.toBytes bc.chars.text
        if sg == eg then .cont (pc + 1) rB.ix s
        else match copyGroups rB sg (eg - sg) s with
          | some s' => .cont (pc + 1) rB.ix s'
          | none => .done (.panic "delegate copy")
  | .contPrev => if ix != bc.pos || bc.chars.skipped then .fail s else .cont (pc + 1) ix s

/-- the interpreter loop, byte level (the same loop as `runLoop`) -/
def runLoopB (bc : BCtx) (prog : List Insn) (o : VMOpts) :
    Nat → Nat → Nat → State → Stats → Outcome × Stats
  | 0, _, _, _, st => (.outOfFuel, st)
  | fuel + 1, pc, ix, s, st =>
    let st := { st with steps := st.steps + 1 }
    match stepB bc prog pc ix s with
    | .done out => (out, st)
    | .cont pc' ix' s' =>
      runLoopB bc prog o fuel pc' ix' s' { st with maxDepth := max st.maxDepth s'.stack.length }
    | .fail s' =>
      if s'.stack.isEmpty then (.noMatch, st) else
      let st := { st with backtracks := st.backtracks + 1 }
      if st.backtracks > o.backtrackLimit then (.errLimit, st) else
      match s'.pop with
      | none => (.panic "pop", st)
      | some (s'', pc', ix') => runLoopB bc prog o fuel pc' ix' s'' st

/-- `vm::run(prog, s, pos, ..)` on bytes -/
def runB (bc : BCtx) (p : Prog) (o : VMOpts) (fuel : Nat) : Outcome × Stats :=
  runLoopB bc p.body o fuel 0 bc.pos (State.new p.nSaves o.maxStack) {}

end Fancy
