/-!
# Expression tree (mirror of `fancy_regex::Expr`, src/lib.rs) and common result types.

Differences from the Rust type, all recorded in DESIGN.md §3.1:
* `group` carries its number. The Rust tree has none; the analyzer assigns it (`group_ix`).
  `Analyze.renumber` is the model of that assignment and overwrites the field.
* `hi = usize::MAX` ("no upper bound") is `none`.
* strings are `List Char` (the engine model is indexed by code point).
-/
namespace Fancy

inductive Look where
  | ahead | aheadNeg | behind | behindNeg
deriving DecidableEq, Repr, Inhabited

inductive Assertion where
  | startText | endText
  | startLine (crlf : Bool) | endLine (crlf : Bool)
  | leftWord | rightWord | wordB | notWordB
deriving DecidableEq, Repr, Inhabited

/-- `Assertion::is_hard` -/
def Assertion.isHard : Assertion → Bool
  | .leftWord | .rightWord | .wordB | .notWordB => true
  | _ => false

inductive Expr where
  | empty
  | any (newline : Bool)
  | assertion (a : Assertion)
  | literal (val : List Char) (casei : Bool)
  | concat (es : List Expr)
  | alt (es : List Expr)
  | group (g : Nat) (e : Expr)
  | look (e : Expr) (la : Look)
  | repeat (e : Expr) (lo : Nat) (hi : Option Nat) (greedy : Bool)
  | delegate (inner : List Char) (size : Nat) (casei : Bool)
  | backref (g : Nat)
  | atomic (e : Expr)
  | keepOut
  | contPrev
  | backrefExists (g : Nat)
  | cond (c y n : Expr)
  | subroutine (g : Nat)
deriving Repr, Inhabited

def Expr.isEmpty : Expr → Bool
  | .empty => true
  | _ => false

def Expr.kind : Expr → String
  | .empty => "emp" | .any _ => "any" | .assertion _ => "as" | .literal _ _ => "lit"
  | .concat _ => "cat" | .alt _ => "alt" | .group _ _ => "grp" | .look _ _ => "look"
  | .repeat _ _ _ _ => "rep" | .delegate _ _ _ => "del" | .backref _ => "bref"
  | .atomic _ => "atom" | .keepOut => "keep" | .contPrev => "cont" | .backrefExists _ => "bex"
  | .cond _ _ _ => "cond" | .subroutine _ => "sub"

/-- `wrap_tree` (src/lib.rs): `(?s:.)*?` followed by group 0 around the pattern. -/
def wrapTree (e : Expr) : Expr :=
  .concat [.repeat (.any true) 0 none false, .group 0 e]

/-- `usize::MAX` on the 64-bit targets the crate is tested on: the "unset" slot value. -/
def UNSET : Nat := 18446744073709551615

end Fancy
