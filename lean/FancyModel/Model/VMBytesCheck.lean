import FancyModel.Model.VMBytes
import FancyModel.Spec.Domain
/-!
# Computable side conditions of the byte-level refinement (`Lemmas/VMBytesRefine.lean`)

Everything here is executable and imports no proof: the slot typing discipline (`Insn.typed`,
`wellTyped`), the typing of compiled programs (`tauOf`), the local precondition of one instruction
(`stepOK`, `cfgOK`) and the run-time monitor (`okLoop`). `Lemmas/VMBytesRefine.lean` proves the
refinement under them, `Lemmas/VMBytesTyped.lean` proves `wellTyped (tauOf …)` for compiled programs;
the driver (`capsB`) evaluates `okLoop` and `wellTyped` per run.
-/
namespace Fancy
open Utf8

/-- a position value that is set lies inside the text -/
def Valid (len v : Nat) : Prop := v ≤ len ∨ v = UNSET

instance (len v : Nat) : Decidable (Valid len v) := by unfold Valid; exact inferInstance

/-- static discipline of one instruction under the slot typing `τ` (`true` = position slot) -/
def Insn.typed (τ : Nat → Bool) : Insn → Bool
  | .save slot | .restore slot => τ slot
  | .repeatGr _ _ _ rep | .repeatNg _ _ _ rep => !τ rep
  | .repeatEpsGr _ _ rep check | .repeatEpsNg _ _ rep check => !τ rep && τ check
  | .backref slot => τ slot && τ (slot + 1)
  | .end_ => τ 0 && τ 1
  | .delegate es _ eg => slotsBelowAll (2 * eg) es && (List.range (2 * eg)).all τ
  | _ => true

def wellTyped (τ : Nat → Bool) (prog : List Insn) : Bool := prog.all (Insn.typed τ)

/-- `p` holds of the value, if there is one -/
def optAll (x : Option Nat) (p : Nat → Bool) : Bool :=
  match x with
  | some v => p v
  | none => true

/-- the local (dynamic) precondition of the simulation of one instruction: the current position is
    inside the text, and the slot values the instruction READS AS POSITIONS are `UNSET` or inside the
    text (`Restore`: inside the text); `BeginAtomic`/`EndAtomic`: the pointer cell of the auxiliary
    stack points above the ordinary slots. (`nS` = number of ordinary slots.) -/
def stepOK (τ : Nat → Bool) (nS : Nat) (c : Ctx) (insn : Insn) (ix : Nat) (s : State) : Bool :=
  decide (ix ≤ c.len) &&
  match insn with
  | .restore slot => optAll (s.get slot) fun v => decide (v ≤ c.len)
  | .repeatEpsGr _ _ _ check | .repeatEpsNg _ _ _ check => optAll (s.get check) fun v => decide (Valid c.len v)
  | .backref slot =>
    (optAll (s.get slot) fun v => decide (Valid c.len v)) && (optAll (s.get (slot + 1)) fun v => decide (Valid c.len v))
  | .end_ =>
    decide (c.pos ≤ c.len) && (optAll (s.get 0) fun v => decide (Valid c.len v)) &&
      (optAll (s.get 1) fun v => decide (Valid c.len v))
  | .beginAtomic =>
    decide (s.explicitSp = nS) &&
      optAll (if s.saves.length = s.explicitSp then some (s.explicitSp + 1) else s.get s.explicitSp)
        fun sp => decide (nS ≤ sp)
  | .endAtomic =>
    decide (s.explicitSp = nS) && optAll (s.get s.explicitSp) fun p => decide (nS + 1 ≤ p)
  | .delegate _ _ eg =>
    decide (2 * eg ≤ s.saves.length) && (s.saves.take (2 * eg)).all fun v => decide (Valid c.len v)
  | .contPrev => decide (c.pos ≤ c.len)
  | _ => true

/-- the local precondition at a configuration (`true` where `prog[pc]` is out of range: both machines
    stop there with the same panic) -/
def cfgOK (c : Ctx) (τ : Nat → Bool) (nS : Nat) (prog : List Insn) (pc ix : Nat) (s : State) : Bool :=
  match prog[pc]? with
  | none => true
  | some insn => stepOK τ nS c insn ix s

/-- the monitor: every configuration the code-point run visits (the same loop as `runLoop`, stopping
    where it stops; `bt` = backtracks so far) satisfies the local precondition. Computable. -/
def okLoop (c : Ctx) (τ : Nat → Bool) (nS : Nat) (prog : List Insn) (op : VMOpts) : Nat → Nat → Nat → State → Nat → Bool
  | 0, _, _, _, _ => true
  | fuel + 1, pc, ix, s, bt =>
    cfgOK c τ nS prog pc ix s &&
    match step c prog pc ix s with
    | .done _ => true
    | .cont pc' ix' s' => okLoop c τ nS prog op fuel pc' ix' s' bt
    | .fail s' =>
      if s'.stack.isEmpty then true else
      if bt + 1 > op.backtrackLimit then true else
      match s'.pop with
      | none => true
      | some (s'', pc', ix') => okLoop c τ nS prog op fuel pc' ix' s'' (bt + 1)

def Insn.posSlots : Insn → List Nat
  | .save s | .restore s => [s]
  | .repeatEpsGr _ _ _ ch | .repeatEpsNg _ _ _ ch => [ch]
  | _ => []

/-- the slot typing of a compiled program (computable): slot `i` is a position slot iff it is a capture
    slot or is used by a `Save` / `Restore` / as the `check` slot of a `RepeatEpsilon*` -/
def tauOf (prog : List Insn) (nG : Nat) (i : Nat) : Bool :=
  decide (i < 2 * nG) || prog.any fun insn => insn.posSlots.contains i

end Fancy
