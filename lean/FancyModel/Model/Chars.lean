import FancyModel.Model.Basic
/-!
# Character tables used by the executable model

These are the *concrete* instances of the table parameters of `Ctx` (`isWord`, `cls`, `ceq`).
No theorem depends on their values: every theorem is stated for an arbitrary `Ctx`. They are valid
for the alphabet the harness uses and are checked against the real crates on every run
(`chartab` operation of the line protocol); a character or class syntax outside what is modelled
makes the driver answer `unmodelled` for the case instead of guessing.
-/
namespace Fancy.Chars

/-- non-ASCII characters the tables know about: (char, isWord, simple-case-fold partner) -/
def known : List (Char × Bool × Option Char) :=
  [('é', true, some 'É'), ('É', true, some 'é'), ('ß', true, none), ('日', true, none),
   ('€', false, none), ('😀', false, none), ('ü', true, some 'Ü'), ('Ü', true, some 'ü'),
   ('ÿ', true, some 'Ÿ'), ('Ÿ', true, some 'ÿ'), ('¿', false, none), ('अ', true, none), ('ก', true, none)]

def isAscii (c : Char) : Bool := c.val < 128

def modelledChar (c : Char) : Bool :=
  -- 'k', 's' have non-ASCII simple-fold partners (Kelvin sign, long s); fine for matching ASCII
  -- texts, and the alphabet contains neither partner
  isAscii c || known.any (fun k => k.1 == c)

def isDigit (c : Char) : Bool := '0' ≤ c && c ≤ '9'
def isAsciiAlpha (c : Char) : Bool := ('a' ≤ c && c ≤ 'z') || ('A' ≤ c && c ≤ 'Z')

def isWord (c : Char) : Bool :=
  if isAscii c then isDigit c || isAsciiAlpha c || c == '_'
  else known.any (fun k => k.1 == c && k.2.1)

def isSpace (c : Char) : Bool :=
  c == ' ' || c == '\t' || c == '\n' || c == '\r' || c == '\x0b' || c == '\x0c'

def foldPartner (c : Char) : Option Char :=
  if 'a' ≤ c && c ≤ 'z' then some (Char.ofNat (c.toNat - 32))
  else if 'A' ≤ c && c ≤ 'Z' then some (Char.ofNat (c.toNat + 32))
  else match known.find? (fun k => k.1 == c) with
    | some k => k.2.2
    | none => none

/-- case-insensitive equality (simple folding) -/
def ceq (casei : Bool) (a b : Char) : Bool :=
  a == b || (casei && foldPartner a == some b)

/-! ## Class strings (`Expr::Delegate { size: 1 }`): the sub-grammar the harness generates -/

/-- a parsed class item -/
inductive Item where
  | ch (c : Char)
  | range (a b : Char)
  | digit (neg : Bool) | word (neg : Bool) | space (neg : Bool)
  | set (neg : Bool) (items : List Item)
deriving Inhabited

/-- escape inside or outside a class: `\d \w \s` (and negations), otherwise an escaped literal -/
def escItem (c : Char) : Option Item :=
  match c with
  | 'd' => some (.digit false) | 'D' => some (.digit true)
  | 'w' => some (.word false) | 'W' => some (.word true)
  | 's' => some (.space false) | 'S' => some (.space true)
  | 'n' => some (.ch '\n') | 't' => some (.ch '\t') | 'r' => some (.ch '\r')
  | c => if isAsciiAlpha c || isDigit c then none else some (.ch c)

/-- parse the items of a bracketed set up to the closing `]`; `first` allows a literal `]` -/
def parseItems : Nat → List Char → Bool → Option (List Item × List Char)
  | 0, _, _ => none
  | _, [], _ => none
  | fuel+1, ']' :: rest, first => if first then
        (parseItems fuel rest false).map fun (is, r) => (.ch ']' :: is, r)
      else some ([], rest)
  | fuel+1, '[' :: ':' :: _, _ => none            -- POSIX classes: not modelled
  | fuel+1, '[' :: rest, _ =>
      let (neg, rest) := match rest with | '^' :: r => (true, r) | r => (false, r)
      match parseItems fuel rest true with
      | none => none
      | some (inner, rest') =>
        (parseItems fuel rest' false).map fun (is, r) => (.set neg inner :: is, r)
  | fuel+1, '&' :: '&' :: _, _ => none            -- set operations: not modelled
  | fuel+1, '-' :: '-' :: _, _ => none
  | fuel+1, '~' :: '~' :: _, _ => none
  | fuel+1, '\\' :: c :: rest, _ =>
      match escItem c with
      | none => none
      | some (.ch a) =>
        -- possible range a-b
        match rest with
        | '-' :: ']' :: _ => (parseItems fuel rest false).map fun (is, r) => (.ch a :: is, r)
        | '-' :: '\\' :: b :: rest' =>
          (match escItem b with
           | some (.ch b') => (parseItems fuel rest' false).map fun (is, r) => (.range a b' :: is, r)
           | _ => none)
        | '-' :: '[' :: _ => none
        | '-' :: b :: rest' => (parseItems fuel rest' false).map fun (is, r) => (.range a b :: is, r)
        | _ => (parseItems fuel rest false).map fun (is, r) => (.ch a :: is, r)
      | some it => (parseItems fuel rest false).map fun (is, r) => (it :: is, r)
  | fuel+1, a :: rest, _ =>
      match rest with
      | '-' :: ']' :: _ => (parseItems fuel rest false).map fun (is, r) => (.ch a :: is, r)
      | '-' :: '\\' :: b :: rest' =>
        (match escItem b with
         | some (.ch b') => (parseItems fuel rest' false).map fun (is, r) => (.range a b' :: is, r)
         | _ => none)
      | '-' :: '[' :: _ => none
      | '-' :: b :: rest' => (parseItems fuel rest' false).map fun (is, r) => (.range a b :: is, r)
      | _ => (parseItems fuel rest false).map fun (is, r) => (.ch a :: is, r)

/-- parse a whole class string as it appears in `Expr::Delegate.inner` -/
def parseClass (s : List Char) : Option Item :=
  match s with
  | ['\\', c] => match escItem c with
      | some (.ch _) => none      -- an escaped literal is never a Delegate node
      | r => r
  | '[' :: rest =>
      let (neg, rest) := match rest with | '^' :: r => (true, r) | r => (false, r)
      match parseItems (s.length + 1) rest true with
      | some (items, []) => some (.set neg items)
      | _ => none
  | _ => none

mutual
def Item.matchesExact : Item → Char → Bool
  | .ch a, c => a == c
  | .range a b, c => a ≤ c && c ≤ b
  | .digit neg, c => isDigit c != neg
  | .word neg, c => isWord c != neg
  | .space neg, c => isSpace c != neg
  | .set neg items, c => itemsMatch items c != neg
def itemsMatch : List Item → Char → Bool
  | [], _ => false
  | i :: is, c => i.matchesExact c || itemsMatch is c
end

mutual
def Item.modelled : Item → Bool
  | .ch a => modelledChar a
  | .range a b => isAscii a && isAscii b
  | .set _ items => itemsModelled items
  | _ => true
def itemsModelled : List Item → Bool
  | [] => true
  | i :: is => i.modelled && itemsModelled is
end

/-- Does the class string accept `c`? Case-insensitive: some simple-fold variant is accepted
    (regex-syntax folds the class, negation applied after folding the positive set). -/
def classMatches (s : List Char) (casei : Bool) (c : Char) : Bool :=
  match parseClass s with
  | none => false
  | some (.set neg items) =>
    let pos := itemsMatch items c ||
      (casei && match foldPartner c with | some d => itemsMatch items d | none => false)
    pos != neg
  | some it =>
    it.matchesExact c ||
      (casei && match foldPartner c with | some d => it.matchesExact d | none => false)

def classModelled (s : List Char) : Bool :=
  match parseClass s with
  | none => false
  | some it => it.modelled

end Fancy.Chars
