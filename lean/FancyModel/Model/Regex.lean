import FancyModel.Model.VM
import FancyModel.Model.ToStr
/-!
# `Regex::new_options` and the search entry points (src/lib.rs), over the engine model

`build` mirrors: wrap the tree, analyze, and either hand the whole pattern to the automata engine
("Wrap", when the user's expression is not hard) or compile it for the VM ("Fancy").
On the Wrap path a search is `delegateOracle`-style: the reference search (assumption A-RA).
-/
namespace Fancy

inductive Kind where
  | wrap
  | fancy (prog : Prog)
deriving Repr, Inhabited

structure Built where
  /-- the user's expression, numbered (groups from 1) -/
  raw : Expr
  /-- the wrapped tree `(?s:.)*?(raw)`, numbered (group 0 = whole match) -/
  wrapped : Expr
  nGroups : Nat
  backrefs : List Nat
  kind : Kind
deriving Repr, Inhabited

/-- `Regex::new_options` after parsing: `tree` as the parser returned it (unnumbered) -/
def build (tree : Expr) (backrefs : List Nat) : Except CompileErr Built :=
  let wrapped := (renumber (wrapTree tree) 0).1
  let br := fun g => backrefs.contains g
  match checkRefs wrapped 0 with
  | .error e => .error e
  | .ok nGroups =>
    match wrapped with
    | .concat [_, .group _ raw] =>
      if !isHard br raw then .ok ⟨raw, wrapped, nGroups, backrefs, .wrap⟩
      else match compile br wrapped with
        | .error e => .error e
        | .ok prog => .ok ⟨raw, wrapped, nGroups, backrefs, .fancy prog⟩
    | _ => .error .innerError   -- unreachable: `renumber` keeps the shape of `wrapTree`

inductive SearchResult where
  | found (slots : List (Option Nat))
  | noMatch
  | errLimit
  | errStack
  | panic (site : String)
  | outOfFuel
deriving DecidableEq, Repr, Inhabited

def maxStackDefault : Nat := 1000000

/-- `captures_from_pos_with_option_flags`: all group slots (`truncate(n_groups * 2)`) -/
def Built.captures (b : Built) (c : Ctx) (limit fuel : Nat) : SearchResult × Stats :=
  match b.kind with
  | .wrap =>
    match refSearchK c b.raw b.nGroups with
    | some f => (.found f.slots, {})
    | none => (.noMatch, {})
  | .fancy prog =>
    match run c prog ⟨limit, maxStackDefault⟩ fuel with
    | (.matched saves, st) => (.found ((viewSlots saves).take (b.nGroups * 2)), st)
    | (.noMatch, st) => (.noMatch, st)
    | (.errLimit, st) => (.errLimit, st)
    | (.errStack, st) => (.errStack, st)
    | (.panic s, st) => (.panic s, st)
    | (.outOfFuel, st) => (.outOfFuel, st)

/-- `find_from_pos_with_option_flags`: the overall span only -/
def Built.find (b : Built) (c : Ctx) (limit fuel : Nat) : SearchResult :=
  match (b.captures c limit fuel).1 with
  | .found slots => .found (slots.take 2)
  | r => r

end Fancy
