import FancyModel.Driver.Engine
import FancyModel.Model.Api
import FancyModel.Model.Expand
import FancyModel.Spec.ApiSpec
/-!
# Driver glue for the API-layer, expander, escape and state operations. Tie code, not model.
-/
namespace Fancy.Drv
open Fancy Fancy.Wire Fancy.Api

def bytesOf (s : String) : Utf8.Bytes := s.toUTF8.toList.map (·.toNat)

def strOfBytes (b : Utf8.Bytes) : Option String :=
  String.fromUTF8? (ByteArray.mk (b.map UInt8.ofNat).toArray)

def hexBytes (b : Utf8.Bytes) : String :=
  if b.isEmpty then "-" else
  String.ofList (b.flatMap fun x => [hexDigit (x / 16), hexDigit (x % 16)])

def showErr : SearchErr → String
  | .limit => "E:limit" | .stack => "E:stack" | .panicked => "E:panic" | .outOfFuel => "E:fuel"

/-- slots (character indices) → byte offsets -/
def slotsToBytes (off : Array Nat) (slots : List (Option Nat)) : List (Option Nat) :=
  slots.map fun s => s.map fun x => off.getD x 0

def spanOfSlots (slots : List (Option Nat)) : Nat × Nat :=
  match slots with
  | some a :: some b :: _ => (a, b)
  | _ => (0, 0)

/-- the model engine as a captures oracle over byte positions -/
def modelOracle (b : Built) (chars : List Char) (off : Array Nat) (limit : Nat) :
    Oracle (List (Option Nat)) := fun pos flag =>
  match charIndexOf off pos with
  | none => .ok none
  | some cpos =>
    match (b.captures (mkCtx chars cpos flag) limit driverFuel).1 with
    | .found slots => .ok (some (slotsToBytes off slots))
    | .noMatch => .ok none
    | .errLimit => .error .limit
    | .errStack => .error .stack
    | .panic _ => .error .panicked
    | .outOfFuel => .error .outOfFuel

def spanOracle (f : Oracle (List (Option Nat))) : Oracle (Nat × Nat) := fun pos flag =>
  match f pos flag with
  | .error e => .error e
  | .ok none => .ok none
  | .ok (some slots) => .ok (some (spanOfSlots slots))

/-- a table of the implementation's own answers: entries `pos:flag=ans` separated by `;` -/
def parseTable (s : String) : List ((Nat × Bool) × Except SearchErr (Option (Nat × Nat))) :=
  (s.splitOn ";").filterMap fun ent =>
    match ent.splitOn "=" with
    | [k, v] =>
      match k.splitOn ":" with
      | [p, f] =>
        match p.toNat?, bool01 f with
        | some p, some f =>
          let ans : Option (Except SearchErr (Option (Nat × Nat))) :=
            if v == "none" then some (.ok none)
            else if v == "E:limit" then some (.error .limit)
            else if v == "E:stack" then some (.error .stack)
            else match v.splitOn "," with
              | [a, b] => match a.toNat?, b.toNat? with
                | some a, some b => some (.ok (some (a, b)))
                | _, _ => none
              | _ => none
          ans.map fun a => ((p, f), a)
        | _, _ => none
      | _ => none
    | _ => none

def tableOracle (t : List ((Nat × Bool) × Except SearchErr (Option (Nat × Nat)))) : Oracle (Nat × Nat) :=
  fun pos flag => match t.find? (fun e => e.1 == (pos, flag)) with
    | some e => e.2
    | none => .ok none

def showSpanItem : Except SearchErr (Nat × Nat) → String
  | .ok (a, b) => s!"{a},{b}"
  | .error e => showErr e

def showBSlots (slots : List (Option Nat)) : String :=
  let rec go : List (Option Nat) → List String
    | a :: b :: rest =>
      (match a, b with
       | some x, some y => toString x ++ "," ++ toString y
       | some x, none => toString x ++ ",?"
       | none, _ => "-") :: go rest
    | _ => []
  "/".intercalate (go slots)

def showCapItem : Except SearchErr (List (Option Nat)) → String
  | .ok slots => showBSlots slots
  | .error e => showErr e

def showItem : Item → String
  | .piece a b => s!"{a},{b}"
  | .err e => showErr e

structure TextCtx where
  text : String
  chars : List Char
  bytes : Utf8.Bytes
  off : Array Nat

def mkText (s : String) : TextCtx := ⟨s, s.toList, bytesOf s, offsets s.toList⟩

/-- resolve the oracle source: `M` = model engine over the current pattern, `T:<table>` -/
def spanSource (cur : Cur) (src : String) (t : TextCtx) (limit : Nat) : Option (Oracle (Nat × Nat)) :=
  if src == "M" then
    match cur.built with
    | .ok b => some (spanOracle (modelOracle b t.chars t.off limit))
    | .error _ => none
  else if src.startsWith "T:" then some (tableOracle (parseTable (src.drop 2).toString))
  else none

def modelledText (cur : Cur) (t : TextCtx) : Bool := cur.modelled && t.chars.all Chars.modelledChar

def join (l : List String) : String := if l.isEmpty then "-" else " ".intercalate l

/-- `iter <src> <hextext> <limit>` -/
def doIter (cur : Cur) : List String → String
  | [src, h, limit] =>
    match unhex h, limit.toNat? with
    | some s, some limit =>
      let t := mkText s
      if src == "M" && !modelledText cur t then "unmodelled" else
      match spanSource cur src t limit with
      | none => "nobuild"
      | some f => join ((findIter f t.bytes).map showSpanItem)
    | _, _ => "bad-op"
  | _ => "bad-op"

/-- `riter <hextext>`: the statement's iteration over the *reference* search (in-domain only) -/
def doRiter (cur : Cur) : List String → String
  | [h] =>
    match unhex h, cur.built with
    | some s, .ok b =>
      let t := mkText s
      if !modelledText cur t then "unmodelled" else
      if !(wellShaped b.raw && closed b.raw && noEmptyLoop b.raw && noCondLeak b.raw) then "offdom" else
      let search : Nat → Bool → Option (Nat × Nat) := fun pos flag =>
        match charIndexOf t.off pos with
        | none => none
        | some cpos => match refSearchK (mkCtx t.chars cpos flag) b.raw b.nGroups with
          | some f => some (spanOfSlots (slotsToBytes t.off f.slots))
          | none => none
      join ((ApiSpec.iter search t.bytes).map fun (a, e) => s!"{a},{e}")
    | _, _ => "nobuild"
  | _ => "bad-op"

/-- `citer <hextext> <limit>`: captures_iter over the model engine -/
def doCiter (cur : Cur) : List String → String
  | [h, limit] =>
    match unhex h, limit.toNat?, cur.built with
    | some s, some limit, .ok b =>
      let t := mkText s
      if !modelledText cur t then "unmodelled" else
      join ((capturesIter (modelOracle b t.chars t.off limit) spanOfSlots t.bytes).map showCapItem)
    | _, _, _ => "nobuild"
  | _ => "bad-op"

def doSplit (cur : Cur) : List String → String
  | [src, h, limit] =>
    match unhex h, limit.toNat? with
    | some s, some limit =>
      let t := mkText s
      if src == "M" && !modelledText cur t then "unmodelled" else
      match spanSource cur src t limit with
      | none => "nobuild"
      | some f => join ((split f t.bytes).map showItem)
    | _, _ => "bad-op"
  | _ => "bad-op"

def doSplitn (cur : Cur) : List String → String
  | [src, h, limit, n] =>
    match unhex h, limit.toNat?, n.toNat? with
    | some s, some limit, some n =>
      let t := mkText s
      if src == "M" && !modelledText cur t then "unmodelled" else
      match spanSource cur src t limit with
      | none => "nobuild"
      | some f => join ((splitn f t.bytes n).map showItem)
    | _, _, _ => "bad-op"
  | _ => "bad-op"

def isIdChar (c : Char) : Bool := Chars.isWord c

def capsOfSlots (t : TextCtx) (names : List (List Char × Nat)) (slots : List (Option Nat)) : Expand.Caps :=
  let rec go : List (Option Nat) → List (Option (List Char))
    | some a :: some b :: rest =>
      (match Utf8.slice t.bytes a b with
       | some bs => (strOfBytes bs).map String.toList
       | none => none) :: go rest
    | _ :: _ :: rest => none :: go rest
    | _ => []
  ⟨go slots, names⟩

def showReplaced : Replaced → String
  | .borrowed => "B"
  | .owned out => "O:" ++ hexBytes out
  | .err e => showErr e
  | .panic => "PANIC"

/-- `replace <hextext> <limit> <n> <kind> <hexrep>` over the model engine; kinds:
    `tpl` (a `&str` replacer), `noexp` (`NoExpand`), `closure` (returns the string), `ident`
    (closure returning the whole match) -/
def doReplace (cur : Cur) (names : List (List Char × Nat)) : List String → String
  | [h, limit, n, kind, hrep] =>
    match unhex h, limit.toNat?, n.toNat?, unhex hrep, cur.built with
    | some s, some limit, some n, some rep, .ok b =>
      let t := mkText s
      if !modelledText cur t || !(rep.toList.all Chars.modelledChar) then "unmodelled" else
      let capO := modelOracle b t.chars t.off limit
      let fast := kind == "noexp" || (kind == "tpl" && !rep.toList.contains '$')
      if fast then
        showReplaced (replacen (findIter (spanOracle capO) t.bytes) id (fun _ => bytesOf rep) t.bytes n)
      else
        let items := capturesIter capO spanOfSlots t.bytes
        let repf : List (Option Nat) → Utf8.Bytes := fun slots =>
          if kind == "tpl" then
            bytesOf (String.ofList (Expand.expansion isIdChar Expand.dollar rep.toList (capsOfSlots t names slots)))
          else if kind == "ident" then
            let (a, e) := spanOfSlots slots
            (Utf8.slice t.bytes a e).getD []
          else bytesOf rep
        showReplaced (replacen items spanOfSlots repf t.bytes n)
    | _, _, _, _, _ => "nobuild"
  | _ => "bad-op"

/-- caps given explicitly: groups `hex|~` comma separated; names `hexname=idx` comma separated -/
def parseCaps (g n : String) : Option Expand.Caps := do
  let groups ← ((g.splitOn ",").filter (· ≠ "")).mapM fun x =>
    if x == "~" then some none else (unhex x).map fun s => some s.toList
  let names ← ((n.splitOn ",").filter (· ≠ "")).mapM fun x =>
    match x.splitOn "=" with
    | [a, b] => do
      let a ← unhex a
      let b ← b.toNat?
      pure (a.toList, b)
    | _ => none
  pure ⟨groups, names⟩

def expanderOf : String → Option Expand.Expander
  | "d" => some Expand.dollar | "p" => some Expand.python | _ => none

def doExpand : List String → String
  | [x, htpl, g, n] =>
    match expanderOf x, unhex htpl, parseCaps g n with
    | some x, some tpl, some caps =>
      if !(tpl.toList.all Chars.modelledChar) then "unmodelled" else
      hexChars (Expand.expansion isIdChar x tpl.toList caps)
    | _, _, _ => "bad-op"
  | _ => "bad-op"

def doCheck : List String → String
  | [x, htpl, len, names] =>
    match expanderOf x, unhex htpl, len.toNat?,
          ((names.splitOn ",").filter (· ≠ "")).mapM (fun h => (unhex h).map String.toList) with
    | some x, some tpl, some len, some names =>
      if !(tpl.toList.all Chars.modelledChar) then "unmodelled" else
      match Expand.check isIdChar x tpl.toList ⟨len, names⟩ with
      | .ok () => "ok"
      | .error .namedBackrefOnly => "E:NamedBackrefOnly"
      | .error .invalidBackref => "E:InvalidBackref"
      | .error .parseError => "E:parse"
    | _, _, _, _ => "bad-op"
  | _ => "bad-op"

def doTplEscape : List String → String
  | [x, h] =>
    match expanderOf x, unhex h with
    | some x, some s => match Expand.escape x s.toList with
      | none => "B"
      | some o => "O:" ++ hexChars o
    | _, _ => "bad-op"
  | _ => "bad-op"

def doEscape (sp : List Char) : List String → String
  | [h] =>
    match unhex h with
    | some s => match escape (isSpecial sp) s.toList with
      | none => "B"
      | some o => "O:" ++ hexChars o
    | none => "bad-op"
  | _ => "bad-op"

/-! ## `state` -/

def showState (s : State) : String :=
  let sv := ",".intercalate (s.saves.map fun v => if v == UNSET then "u" else toString v)
  let st := ",".intercalate (s.stack.reverse.map fun b => s!"{b.pc}.{b.ix}.{b.nsave}")
  let os := ",".intercalate (s.oldsave.reverse.map fun e => s!"{e.1}.{if e.2 == UNSET then "u" else toString e.2}")
  s!"sv={sv};st={st};os={os};n={s.nsave}"

def stateOp (s : State) (op : String) : Option (State × String) :=
  match op.splitOn ":" with
  | ["P", pc, ix] => do
    let pc ← pc.toNat?
    let ix ← ix.toNat?
    match s.push pc ix with
    | .ok s' => some (s', "ok")
    | .overflow => some (s, "overflow")
  | ["O"] => (s.pop).map fun (s', pc, ix) => (s', s!"{pc}.{ix}")
  | ["S", slot, v] => do
    let slot ← slot.toNat?
    let v ← v.toNat?
    (s.save slot v).map fun s' => (s', "ok")
  | ["G", slot] => do
    let slot ← slot.toNat?
    (s.get slot).map fun v => (s, if v == UNSET then "u" else toString v)
  | ["U", v] => do
    let v ← v.toNat?
    (s.stackPush v).map fun s' => (s', "ok")
  | ["V"] => (s.stackPop).map fun (s', v) => (s', toString v)
  | ["C", c] => do
    let c ← c.toNat?
    (s.backtrackCut c).map fun s' => (s', "ok")
  | ["B"] => (s.stackPush s.backtrackCount).map fun s' => (s', "ok")
  | ["E"] => do
    let (s1, c) ← s.stackPop
    let s2 ← s1.backtrackCut c
    pure (s2, "ok")
  | _ => none

/-- `state <nsaves> <maxstack> <op op op …>`: the dump after every operation, `|`-separated -/
def doState : List String → String
  | [n, m, ops] =>
    match n.toNat?, m.toNat? with
    | some n, some m =>
      let rec go (s : State) : List String → List String
        | [] => []
        | op :: rest =>
          match stateOp s op with
          | none => ["PANIC"]
          | some (s', r) => (r ++ ";" ++ showState s') :: go s' rest
      "|".intercalate (go (State.new n m) ((ops.splitOn " ").filter (· ≠ "")))
    | _, _ => "bad-op"
  | _ => "bad-op"

end Fancy.Drv
