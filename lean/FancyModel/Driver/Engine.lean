import FancyModel.Spec.Stage
import FancyModel.Model.Regex
import FancyModel.Model.Chars
import FancyModel.Spec.Domain
import FancyModel.Driver.Wire
import FancyModel.Model.VMBytesCheck
import FancyModel.Spec.Stage4
import FancyModel.Spec.Stage5
/-!
# Driver glue for the engine operations (`pat`, `facts`, `prog`, `caps`). Tie code, not model.
-/
namespace Fancy.Drv
open Fancy Fancy.Wire

/-- everything the driver keeps about the current pattern -/
structure Cur where
  tree : Expr                          -- as received (unnumbered)
  backrefs : List Nat
  built : Except CompileErr Built
  modelled : Bool                      -- all characters / classes are inside the modelled tables
                                       -- and no delegated piece contains an empty-bodied loop
  specialChars : List Char
deriving Inhabited

def isSpecial (sp : List Char) (c : Char) : Bool := sp.contains c

mutual
def exprModelled : Expr → Bool
  | .literal v _ => v.all Chars.modelledChar
  | .concat es => exprsModelled es
  | .alt es => exprsModelled es
  | .group _ e => exprModelled e
  | .look e _ => exprModelled e
  | .repeat e _ _ _ => exprModelled e
  | .atomic e => exprModelled e
  | .cond c y n => exprModelled c && exprModelled y && exprModelled n
  | .delegate inner size _ =>
    (size == 1 && Chars.classModelled inner) || (size == 0 && inner == ['\n', '*', '$'])
  | .assertion (.startLine true) => false
  | .assertion (.endLine true) => false
  | _ => true
def exprsModelled : List Expr → Bool
  | [] => true
  | e :: es => exprModelled e && exprsModelled es
end

/-- A-RA is assumed only for delegated pieces without empty-bodied unbounded loops (F1 territory:
    regex-automata has span and capture semantics of its own there) -/
def raModelled (b : Built) : Bool :=
  match b.kind with
  | .wrap => noEmptyLoop b.raw
  | .fancy prog => prog.body.all fun i => match i with
    | .delegate es _ _ => noEmptyLoopAll es
    | _ => true

def errName : CompileErr → String
  | .invalidBackref => "InvalidBackref"
  | .featureNotSupported => "FeatureNotYetSupported"
  | .lookBehindNotConst => "LookBehindNotConst"
  | .innerError => "InnerError"
  | .namedBackrefOnly => "NamedBackrefOnly"

def mkCtx (text : List Char) (pos : Nat) (skipped : Bool) : Ctx :=
  { text := text, pos := pos, skipped := skipped,
    isWord := Chars.isWord, cls := Chars.classMatches, ceq := Chars.ceq }

/-- byte offset of every character index (`off[i]`, with `off[len] = byte length`) -/
def offsets (text : List Char) : Array Nat :=
  (text.foldl (fun (acc : Array Nat × Nat) ch => (acc.1.push (acc.2 + ch.utf8Size), acc.2 + ch.utf8Size))
    (#[0], 0)).1

def charIndexOf (off : Array Nat) (bytePos : Nat) : Option Nat :=
  off.toList.findIdx? (· == bytePos)

def showSlots (off : Array Nat) (slots : List (Option Nat)) : String :=
  let rec go : List (Option Nat) → List String
    | a :: b :: rest =>
      (match a, b with
       | some x, some y => toString (off.getD x 0) ++ "," ++ toString (off.getD y 0)
       | some x, none => toString (off.getD x 0) ++ ",?"
       | none, _ => "-") :: go rest
    | _ => []
  " ".intercalate (go slots)

def showResult (off : Array Nat) : SearchResult → String
  | .found slots => "m " ++ showSlots off slots
  | .noMatch => "none"
  | .errLimit => "err:limit"
  | .errStack => "err:stack"
  | .panic s => "panic:" ++ s
  | .outOfFuel => "fuel"

def showInsn (sp : Char → Bool) : Insn → String
  | .end_ => "end"
  | .any => "any"
  | .anyNoNL => "anynonl"
  | .assertion a => "as:" ++ showAssertion a
  | .lit s => "lit:" ++ hexChars s
  | .split x y => s!"split:{x}:{y}"
  | .jmp t => s!"jmp:{t}"
  | .save s => s!"save:{s}"
  | .save0 s => s!"save0:{s}"
  | .restore s => s!"restore:{s}"
  | .repeatGr lo hi next rep =>
    s!"rgr:{lo}:{match hi with | some h => toString h | none => "inf"}:{next}:{rep}"
  | .repeatNg lo hi next rep =>
    s!"rng:{lo}:{match hi with | some h => toString h | none => "inf"}:{next}:{rep}"
  | .repeatEpsGr lo next rep check => s!"regr:{lo}:{next}:{rep}:{check}"
  | .repeatEpsNg lo next rep check => s!"reng:{lo}:{next}:{rep}:{check}"
  | .failNegLook => "failneg"
  | .goBack n => s!"goback:{n}"
  | .backref s => s!"backref:{s}"
  | .beginAtomic => "begin"
  | .endAtomic => "endatomic"
  | .delegate es sg eg =>
    let strs := es.map fun e => toStr sp e 1
    if strs.all Option.isSome then
      s!"del:{hexChars (strs.flatMap fun s => s.getD [])}:{sg}:{eg}"
    else "del:PANIC"
  | .contPrev => "contprev"
  | .backrefExists g => s!"bex:{g}"

def showFacts (f : Facts) : String :=
  s!"{f.depth}:{f.kind}:{f.startGroup}:{f.endGroup}:{f.minSize}:{b01 f.constSize}:{b01 f.hard}"

/-- `pat <tokens> <backrefs>`: set the current pattern; answer kind, group count, domain flags -/
def doPat (sp : List Char) (fields : List String) : Cur × String :=
  match fields with
  | [toks, brs] =>
    let tokens := (toks.splitOn " ").filter (· ≠ "")
    match parseTree (2 * tokens.length + 4) tokens with
    | some (tree, []) =>
      let backrefs := ((brs.splitOn ",").filterMap String.toNat?)
      let built := build tree backrefs
      let modelled := exprModelled tree && (match built with | .ok b => raModelled b | .error _ => true)
      let cur : Cur := ⟨tree, backrefs, built, modelled, sp⟩
      let ans := match built with
        | .error e =>
          -- the domain flags of the numbered tree all the same: when the implementation accepts what the model
          -- rejects (a look-behind judged constant-size), the check still compares it with the reference
          let raw := (renumber tree 1).1
          s!"err:{errName e} ws={b01 (wellShaped raw)} closed={b01 (closed raw)} nel={b01 (noEmptyLoop raw)} ncl={b01 (noCondLeak raw)} mod={b01 modelled}"
        | .ok b =>
          let kind := match b.kind with | .wrap => "wrap" | .fancy _ => "fancy"
          -- the decidable side conditions of the proved compiler-correctness theorem (`C01_vm_correct_s2`)
          let s2 := match b.kind with | .wrap => false | .fancy prog => s2ok b.raw && noDeleg prog.body
          -- … and of the theorem with delegation (`C01_vm_correct_s3`, Proofs/C01d.lean: `s3Stage`)
          let s3 := match b.kind with
            | .wrap => false
            | .fancy prog => s3ok (fun g => backrefs.contains g) b.raw true && wellShaped b.raw && noBareEndZ b.raw &&
                progDelegOK prog.nSaves prog.body
          -- … and of the theorem for the larger stage S4 (`C01_vm_correct_s4`, Proofs/C01g.lean: `s4Stage`): delegated
          -- runs of the top-level concatenation may own capture groups that nothing else touches
          let s4 := match b.kind with
            | .wrap => false
            | .fancy _ => s4ok (fun g => backrefs.contains g) b.raw && wellShaped b.raw && noBareEndZ b.raw
          -- … and for stage S5 (`C01_vm_correct_s5`, Proofs/C01h.lean: `s5Stage` = S4 or `s5New`): such runs anywhere
          -- (look-behind bodies included), when no back-reference / group test in the pattern names one of their groups
          let s5 := s4 || (match b.kind with
            | .wrap => false
            | .fancy _ => s5Raw (fun g => backrefs.contains g) b.raw && wellShaped b.raw && noBareEndZ b.raw)
          s!"{kind} {b.nGroups} ws={b01 (wellShaped b.raw)} closed={b01 (closed b.raw)} nel={b01 (noEmptyLoop b.raw)} ncl={b01 (noCondLeak b.raw)} mod={b01 modelled} s2={b01 s2} s3={b01 s3} s4={b01 s4} s5={b01 s5}"
      (cur, ans)
    | _ => (default, "bad-tree")
  | _ => (default, "bad-op")

def doFacts (cur : Cur) : String :=
  let wrapped := (renumber (wrapTree cur.tree) 0).1
  match checkRefs wrapped 0 with
  | .error e => "err:" ++ errName e
  | .ok _ =>
    let fs := (factsOf (fun g => cur.backrefs.contains g) wrapped 0 0).1
    " ".intercalate (fs.map showFacts)

def doProg (cur : Cur) : String :=
  match cur.built with
  | .error e => "err:" ++ errName e
  | .ok b => match b.kind with
    | .wrap =>
      match toStr (isSpecial cur.specialChars) b.raw 0 with
      | some s => "wrap:" ++ hexChars s
      | none => "wrap:PANIC"
    | .fancy prog =>
      s!"n_saves={prog.nSaves} " ++ " ".intercalate (prog.body.map (showInsn (isSpecial cur.specialChars)))

def driverFuel : Nat := 3000000

/-- `caps <hextext> <bytepos> <skipped 0|1> <limit>`:
    model outcome, statistics, reference outcome -/
def doCaps (cur : Cur) (fields : List String) : String :=
  match fields with
  | [htext, pos, sk, limit] =>
    match unhex htext, pos.toNat?, bool01 sk, limit.toNat? with
    | some text, some bytePos, some skipped, some limit =>
      match cur.built with
      | .error .lookBehindNotConst =>
        -- no program; the reference semantics of a look-behind does not need a constant size
        let chars := text.toList
        if !(cur.modelled && chars.all Chars.modelledChar) then "err:LookBehindNotConst" else
        let off := offsets chars
        match charIndexOf off bytePos with
        | none => "err:LookBehindNotConst"
        | some cpos =>
          let c := mkCtx chars cpos skipped
          let raw := (renumber cur.tree 1).1
          let ref := match refSearchK c raw (groupCount cur.tree + 1) with
            | some f => SearchResult.found f.slots
            | none => .noMatch
          s!"err:LookBehindNotConst\t-\t{showResult off ref}"
      | .error e => "err:" ++ errName e
      | .ok b =>
        let chars := text.toList
        if !(cur.modelled && chars.all Chars.modelledChar) then "unmodelled" else
        let off := offsets chars
        match charIndexOf off bytePos with
        | none => "badpos"
        | some cpos =>
          let c := mkCtx chars cpos skipped
          let (r, st) := b.captures c limit driverFuel
          let ref := match refSearchK c b.raw b.nGroups with
            | some f => SearchResult.found f.slots
            | none => .noMatch
          s!"{showResult off r}\t{st.steps},{st.backtracks},{st.maxDepth}\t{showResult off ref}"
    | _, _, _, _ => "bad-op"
  | _ => "bad-op"

/-- capture slots that are already byte offsets: printed raw, in the format of `showSlots` -/
def showSlotsRaw (slots : List (Option Nat)) : String :=
  let rec go : List (Option Nat) → List String
    | a :: b :: rest =>
      (match a, b with
       | some x, some y => toString x ++ "," ++ toString y
       | some x, none => toString x ++ ",?"
       | none, _ => "-") :: go rest
    | _ => []
  " ".intercalate (go slots)

/-- outcome of the byte machine in the format of `showResult` (slots truncated to the capture slots as
    `Built.captures` does; the offsets are byte offsets already) -/
def showOutcomeB (nGroups : Nat) : Outcome → String
  | .matched saves => "m " ++ showSlotsRaw ((viewSlots saves).take (nGroups * 2))
  | .noMatch => "none"
  | .errLimit => "err:limit"
  | .errStack => "err:stack"
  | .panic s => "panic:" ++ s
  | .outOfFuel => "fuel"

/-- `capsB <hextext> <bytepos> <skipped 0|1> <limit>`: the BYTE-level machine (`Model/VMBytes.lean`) on the
    encoded text from the byte position; then `ok=` the run-time monitor `okLoop` and `wt=` the typing
    check `wellTyped` of the refinement theorem (`runB_refines`), both with the typing `tauOf` -/
def doCapsB (cur : Cur) (fields : List String) : String :=
  match fields with
  | [htext, pos, sk, limit] =>
    match unhex htext, pos.toNat?, bool01 sk, limit.toNat? with
    | some text, some bytePos, some skipped, some limit =>
      match cur.built with
      | .error e => "err:" ++ errName e
      | .ok b =>
        match b.kind with
        | .wrap => "skip"
        | .fancy prog =>
          let chars := text.toList
          if !(cur.modelled && chars.all Chars.modelledChar) then "skip" else
          match charIndexOf (offsets chars) bytePos with
          | none => "badpos"
          | some cpos =>
            let c := mkCtx chars cpos skipped
            let op : VMOpts := ⟨limit, maxStackDefault⟩
            let τ := tauOf prog.body b.nGroups
            let (out, st) := runB (BCtx.ofCtx c) prog op driverFuel
            let ok := okLoop c τ prog.nSaves prog.body op driverFuel 0 c.pos (State.new prog.nSaves op.maxStack) 0
            let wt := wellTyped τ prog.body
            s!"{showOutcomeB b.nGroups out}\t{st.steps},{st.backtracks},{st.maxDepth}\tok={b01 ok}\twt={b01 wt}"
    | _, _, _, _ => "bad-op"
  | _ => "bad-op"

/-- `chartab <hexchars>`: for every character: isWord, isDigit, isSpace, fold partner -/
def doChartab (fields : List String) : String :=
  match fields with
  | [h] => match unhex h with
    | some s =>
      " ".intercalate (s.toList.map fun ch =>
        s!"{ch.toNat}:{b01 (Chars.isWord ch)}{b01 (Chars.isDigit ch)}{b01 (Chars.isSpace ch)}:{match Chars.foldPartner ch with | some d => toString d.toNat | none => "-"}")
    | none => "bad-op"
  | _ => "bad-op"

end Fancy.Drv
