import FancyModel.Model.Basic
/-!
# Wire format helpers of the line protocol (hex strings, tree tokens). Tie code, not model.
-/
namespace Fancy.Wire

def hexVal (c : Char) : Option Nat :=
  if '0' ≤ c && c ≤ '9' then some (c.toNat - '0'.toNat)
  else if 'a' ≤ c && c ≤ 'f' then some (c.toNat - 'a'.toNat + 10)
  else if 'A' ≤ c && c ≤ 'F' then some (c.toNat - 'A'.toNat + 10)
  else none

def unhexBytes : List Char → Option (List UInt8)
  | [] => some []
  | a :: b :: rest => do
    let x ← hexVal a
    let y ← hexVal b
    let r ← unhexBytes rest
    pure (UInt8.ofNat (x * 16 + y) :: r)
  | _ => none

/-- hex → string ("-" is the empty string) -/
def unhex (s : String) : Option String :=
  if s == "-" then some "" else
  match unhexBytes s.toList with
  | none => none
  | some bs => String.fromUTF8? (ByteArray.mk bs.toArray)

def hexDigit (n : Nat) : Char := if n < 10 then Char.ofNat (48 + n) else Char.ofNat (87 + n)

def hex (s : String) : String :=
  if s.isEmpty then "-" else
  String.ofList (s.toUTF8.toList.flatMap fun b => [hexDigit (b.toNat / 16), hexDigit (b.toNat % 16)])

def hexChars (cs : List Char) : String := hex (String.ofList cs)

def parseAssertion : String → Option Assertion
  | "st" => some .startText | "et" => some .endText
  | "sl0" => some (.startLine false) | "sl1" => some (.startLine true)
  | "el0" => some (.endLine false) | "el1" => some (.endLine true)
  | "lw" => some .leftWord | "rw" => some .rightWord | "wb" => some .wordB | "nwb" => some .notWordB
  | _ => none

def parseLook : String → Option Look
  | "a" => some .ahead | "an" => some .aheadNeg | "b" => some .behind | "bn" => some .behindNeg
  | _ => none

def bool01 : String → Option Bool
  | "0" => some false | "1" => some true | _ => none

mutual
/-- prefix-notation tree tokens → tree (groups numbered 0; `renumber` assigns numbers) -/
def parseTree : Nat → List String → Option (Expr × List String)
  | 0, _ => none
  | _, [] => none
  | fuel + 1, tok :: rest =>
    match tok.splitOn ":" with
    | ["emp"] => some (.empty, rest)
    | ["any0"] => some (.any false, rest)
    | ["any1"] => some (.any true, rest)
    | ["as", a] => (parseAssertion a).map fun a => (.assertion a, rest)
    | ["lit", h, ci] => do
      let s ← unhex h
      let ci ← bool01 ci
      pure (.literal s.toList ci, rest)
    | ["cat", n] => do
      let n ← n.toNat?
      let (es, rest) ← parseTrees fuel n rest
      pure (.concat es, rest)
    | ["alt", n] => do
      let n ← n.toNat?
      let (es, rest) ← parseTrees fuel n rest
      pure (.alt es, rest)
    | ["grp"] => do
      let (e, rest) ← parseTree fuel rest
      pure (.group 0 e, rest)
    | ["look", la] => do
      let la ← parseLook la
      let (e, rest) ← parseTree fuel rest
      pure (.look e la, rest)
    | ["rep", lo, hi, g] => do
      let lo ← lo.toNat?
      let hi ← if hi == "inf" then some none else hi.toNat?.map some
      let g ← bool01 g
      let (e, rest) ← parseTree fuel rest
      pure (.repeat e lo hi g, rest)
    | ["del", h, size, ci] => do
      let s ← unhex h
      let size ← size.toNat?
      let ci ← bool01 ci
      pure (.delegate s.toList size ci, rest)
    | ["bref", n] => n.toNat?.map fun n => (.backref n, rest)
    | ["atom"] => do
      let (e, rest) ← parseTree fuel rest
      pure (.atomic e, rest)
    | ["keep"] => some (.keepOut, rest)
    | ["cont"] => some (.contPrev, rest)
    | ["bex", n] => n.toNat?.map fun n => (.backrefExists n, rest)
    | ["cond"] => do
      let (c, rest) ← parseTree fuel rest
      let (y, rest) ← parseTree fuel rest
      let (n, rest) ← parseTree fuel rest
      pure (.cond c y n, rest)
    | ["sub", n] => n.toNat?.map fun n => (.subroutine n, rest)
    | _ => none
def parseTrees : Nat → Nat → List String → Option (List Expr × List String)
  | 0, _, _ => none
  | _, 0, rest => some ([], rest)
  | fuel + 1, n + 1, rest => do
    let (e, rest) ← parseTree fuel rest
    let (es, rest) ← parseTrees fuel n rest
    pure (e :: es, rest)
end

def showAssertion : Assertion → String
  | .startText => "st" | .endText => "et"
  | .startLine false => "sl0" | .startLine true => "sl1"
  | .endLine false => "el0" | .endLine true => "el1"
  | .leftWord => "lw" | .rightWord => "rw" | .wordB => "wb" | .notWordB => "nwb"

def showLook : Look → String
  | .ahead => "a" | .aheadNeg => "an" | .behind => "b" | .behindNeg => "bn"

def b01 (b : Bool) : String := if b then "1" else "0"

mutual
/-- tree → tokens (inverse of `parseTree`, group numbers dropped) -/
def showTree : Expr → List String
  | .empty => ["emp"]
  | .any nl => [if nl then "any1" else "any0"]
  | .assertion a => ["as:" ++ showAssertion a]
  | .literal v ci => ["lit:" ++ hexChars v ++ ":" ++ b01 ci]
  | .concat es => ("cat:" ++ toString es.length) :: showTrees es
  | .alt es => ("alt:" ++ toString es.length) :: showTrees es
  | .group _ e => "grp" :: showTree e
  | .look e la => ("look:" ++ showLook la) :: showTree e
  | .repeat e lo hi g =>
    ("rep:" ++ toString lo ++ ":" ++ (match hi with | some h => toString h | none => "inf") ++ ":" ++ b01 g)
      :: showTree e
  | .delegate s size ci => ["del:" ++ hexChars s ++ ":" ++ toString size ++ ":" ++ b01 ci]
  | .backref n => ["bref:" ++ toString n]
  | .atomic e => "atom" :: showTree e
  | .keepOut => ["keep"]
  | .contPrev => ["cont"]
  | .backrefExists n => ["bex:" ++ toString n]
  | .cond c y n => "cond" :: (showTree c ++ showTree y ++ showTree n)
  | .subroutine n => ["sub:" ++ toString n]
def showTrees : List Expr → List String
  | [] => []
  | e :: es => showTree e ++ showTrees es
end

end Fancy.Wire
