import Lean.Elab.Tactic
import FancyModel.GeneratedAnalyze
import FancyModel.Model.Compile
import FancyModel.GeneratedToStr
/-!
# Hand-written prelude of the generated compiler (`GeneratedCompile.lean`)

`tools/rs2lean_compile.py` translates `VMBuilder`, `Compiler`, `DelegateBuilder` and `compile_with_options`
(src/compile.rs) and `Info::is_literal` / `Info::push_literal` (src/analyze.rs) statement by statement.
Everything the translation does NOT take from the Rust text is fixed here (or in the files this one
imports) and is *trusted* (notes/translator-compile.md):

* `usize` is `Nat`; `+`, `*`, `+= 1` do not overflow; `a - b` is `checkedSub` (underflow = panic);
  `usize::MAX` is `USIZE_MAX = UNSET`.
* `Vec<Insn>` is `List Insn`: `push` appends, `len()` is `length`, `v[i]` reads `v[i]?` (`none` = index
  panic), `*field = x` through a `ref mut` binding of `match v[i]` is `List.set`.
* `Insn` (src/vm.rs) is the model's `Insn`; `Lit(String)` carries `List Char`; `RepeatGr/Ng::hi : usize`
  with `usize::MAX` = "no upper bound" is `Option Nat`, written through `hiOpt`; `Delegate { inner, pattern, .. }`
  is `.delegate es sg eg`: `inner` is the list of expressions handed to regex-automata, `pattern` has no
  counterpart.
* `&Info` is `GInfo` of GeneratedAnalyze.lean. `info.children[i]` is `childAt` (`none` = index panic);
  the slices `&v[..a]`, `&v[a..]`, `&v[a..b]` are `sliceTo` / `sliceFrom` / `sliceRange` (`none` = panic);
  both return the element / sub-list together with the size fact the termination proofs of the generated
  definitions use. The iterator chains are the list functions named below.
* `DelegateBuilder::re : String`, filled by `info.expr.to_str(&mut self.re, 1)`, is the list of the
  expressions printed (`to_str_push`); `compile_inner(&self.re, options)` hands that list over and is assumed
  to succeed (`CompileError::InnerError` is outside the model); `RegexOptions` is not modelled.
* `Err(Error::CompileError(CompileError::X(..)))` is `CErr.compile .x`; `panic!(msg)`, a failed `expect`,
  an index out of range, an underflow are `CErr.panic site`.
-/
namespace Fancy.GenCompile
open Fancy.GenAnalyze

/-- outcomes of the translated functions other than `Ok`: a compile error, or a panic -/
inductive CErr where
  | compile (e : CompileErr)
  | panic (site : String)
deriving DecidableEq, Repr, Inhabited

/-- `usize::MAX` -/
def USIZE_MAX : Nat := UNSET

/-- `a - b` on `usize` (a build with overflow checks) -/
def checkedSub (a b : Nat) : Option Nat := if b ≤ a then some (a - b) else none

/-- the `hi : usize` field of `Insn::RepeatGr/Ng` as the model's `Option Nat` -/
def hiOpt (h : Nat) : Option Nat := if h = UNSET then none else some h

/-- `Prog::new(body, n_saves)` (src/vm.rs: `Prog { body, n_saves }`) -/
def Prog.new (body : List Insn) (n_saves : Nat) : Prog := ⟨body, n_saves⟩

/-- `info.expr.to_str(&mut self.re, 1)`: the expression is added to what regex-automata will be given -/
def to_str_push (re : List Expr) (e : Expr) : List Expr := re ++ [e]

/-- `compile_inner(&self.re, options)`: regex-automata compiles the text; assumed to succeed -/
def compile_inner (re : List Expr) : Except CErr (List Expr) := .ok re

/-! ## the text reading of `DelegateBuilder` (second translation of the same functions: `re : String` is a `List Char`) -/

/-- the two instructions `compile_delegate(s)` emit, with the text they carry: `Insn::Lit(val)` and
    `Insn::Delegate { pattern, start_group, end_group, .. }` (`inner` is regex-automata's compilation of `pattern`) -/
inductive TInsn where
  | lit (s : List Char)
  | delegate (pattern : List Char) (startGroup endGroup : Nat)
deriving DecidableEq, Repr, Inhabited

/-- `info.expr.to_str(&mut self.re, 1)`: the translated `Expr::to_str` (GeneratedToStr.lean) appends to the buffer;
    `none` is its `panic!("attempting to format hard expr")` -/
def to_str_text (e : Expr) (buf : List Char) (precedence : Nat) : Except CErr (List Char) :=
  match Fancy.GenToStr.genToStr e buf precedence with
  | none => .error (.panic "attempting to format hard expr")
  | some s => .ok s

/-- `compile_inner(&self.re, options)` in the text reading: regex-automata accepts the text (assumed) -/
def compile_inner_text (re : List Char) : Except CErr (List Char) := .ok re

/-! ## size facts for the termination proofs -/

theorem GInfo.sizeOf_children_lt (info : GInfo) : sizeOf info.children < sizeOf info := by
  cases info; simp only [GInfo.mk.sizeOf_spec]; omega

theorem sizeOf_lt_of_getElem? {l : List GInfo} {i : Nat} {c : GInfo} (h : l[i]? = some c) :
    sizeOf c < sizeOf l :=
  List.sizeOf_lt_of_mem (List.mem_of_getElem? h)

theorem sizeOf_drop_le (l : List GInfo) (n : Nat) : sizeOf (l.drop n) ≤ sizeOf l := by
  induction l generalizing n with
  | nil => simp
  | cons a l ih =>
    cases n with
    | zero => simp
    | succ n => simp only [List.drop_succ_cons, List.cons.sizeOf_spec]; have := ih n; omega

theorem sizeOf_take_le (l : List GInfo) (n : Nat) : sizeOf (l.take n) ≤ sizeOf l := by
  induction l generalizing n with
  | nil => simp
  | cons a l ih =>
    cases n with
    | zero => simp only [List.take_zero, List.nil.sizeOf_spec, List.cons.sizeOf_spec]; omega
    | succ n => simp only [List.take_succ_cons, List.cons.sizeOf_spec]; have := ih n; omega

/-! ## `Vec<Info>` / `&[Info]` access -/

/-- `&v[i]` -/
def childAt (l : List GInfo) (i : Nat) : Option { c : GInfo // sizeOf c < sizeOf l } :=
  match h : l[i]? with
  | none => none
  | some c => some ⟨c, sizeOf_lt_of_getElem? h⟩

/-- `&v[..b]` -/
def sliceTo (l : List GInfo) (b : Nat) : Option { m : List GInfo // sizeOf m ≤ sizeOf l } :=
  if b ≤ l.length then some ⟨l.take b, sizeOf_take_le l b⟩ else none

/-- `&v[a..]` -/
def sliceFrom (l : List GInfo) (a : Nat) : Option { m : List GInfo // sizeOf m ≤ sizeOf l } :=
  if a ≤ l.length then some ⟨l.drop a, sizeOf_drop_le l a⟩ else none

/-- `&v[a..b]` -/
def sliceRange (l : List GInfo) (a b : Nat) : Option { m : List GInfo // sizeOf m ≤ sizeOf l } :=
  if a ≤ b ∧ b ≤ l.length then
    some ⟨(l.take b).drop a, Nat.le_trans (sizeOf_drop_le _ a) (sizeOf_take_le l b)⟩
  else none

/-- `.iter().take_while(p).count()` -/
def takeWhileCount (l : List GInfo) (p : GInfo → Bool) : Nat := (l.takeWhile p).length

/-- `.iter().rev().take_while(p).count()` -/
def revTakeWhileCount (l : List GInfo) (p : GInfo → Bool) : Nat := (l.reverse.takeWhile p).length

/-- `.iter().all(p)` -/
def allOf (l : List GInfo) (p : GInfo → Bool) : Bool := l.all p

theorem childAt_eq_some {l : List GInfo} {i : Nat} {c : GInfo} (h : l[i]? = some c) :
    childAt l i = some ⟨c, sizeOf_lt_of_getElem? h⟩ := by
  unfold childAt; split
  · next h' => rw [h] at h'; cases h'
  · next c' h' => rw [h] at h'; cases h'; rfl

theorem childAt_eq_none {l : List GInfo} {i : Nat} (h : l[i]? = none) : childAt l i = none := by
  unfold childAt; split
  · rfl
  · next c' h' => rw [h] at h'; cases h'

/-! ## the decreasing tactic of the generated definitions -/

open Lean Elab Tactic Meta in
/-- adds `sizeOf x.children < sizeOf x` for every local `x : GInfo` -/
elab "ginfo_facts" : tactic => withMainContext do
  for d in ← getLCtx do
    if d.isImplementationDetail then continue
    let ty ← instantiateMVars d.type
    if ty.isConstOf ``Fancy.GenAnalyze.GInfo then
      let stx ← Term.exprToSyntax d.toExpr
      evalTactic (← `(tactic| have := Fancy.GenCompile.GInfo.sizeOf_children_lt $stx))

end Fancy.GenCompile
