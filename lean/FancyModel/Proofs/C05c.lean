import FancyModel.Proofs.C05
import FancyModel.Proofs.C01c
import FancyModel.Lemmas.AVM2
import FancyModel.Lemmas.SemGood
/-!
# C05c — no VM instruction panics, and every state stays valid

Part 1 — instructions. `Proofs/C05.lean` (`C05_step_no_panic`) covers every instruction except the
four whose safety depends on the discipline of the program: `BeginAtomic`, `EndAtomic`,
`FailNegativeLookAround`, `Delegate`. Here they are settled on a state satisfying the
auxiliary-stack invariant `Inv2 nS s σ` (Lemmas/AuxStack.lean), with the EXACT panic conditions:

* `BeginAtomic` never panics (`C05_beginAtomic_ok`);
* `EndAtomic` (`C05_endAtomic_cases`, `C05_endAtomic_no_panic_iff`): with a non-empty auxiliary
  stack `count :: rest` it panics (`backtrack_cut`: `&self.stack[count + 1..]` out of range) iff
  `count` exceeds the branch-stack height; with an EMPTY auxiliary stack (the territory of finding
  F8: an `EndAtomic` whose `BeginAtomic` entry was lost) it panics at `stack_pop`
  (`saves[explicit_sp]` out of range) iff the pointer cell was never created, at `backtrack_cut` iff
  the branch stack has at most `nS` entries, and otherwise does NOT panic but leaves the invariant:
  the pointer cell then holds `nS`, below its base, and the vector represents no `(slots, astk)`;
* `FailNegativeLookAround` panics (`self.stack.pop().unwrap()` running off the stack) iff no pending
  branch has the marker pc `pc + 1` (`C05_failNegLook_no_panic_iff`);
* `Delegate` (slots of its groups inside the ordinary slots, `eg * 2 ≤ nS`) panics
  (`inner_slots[..].unwrap()`) iff the oracle's result has a group in range with the start set and
  the end unset (`C05_delegate_no_panic_iff`).

`C05_step_no_panic_all` packages the four with `C05_step_no_panic`; `C05_step_total` is the clean
form: wherever the structured machine `sstep` is defined, the interpreter does not panic and the
next state is again valid (`Inv2`); `C05_sstep_defined` says when `sstep` is defined.

Part 2 — runs: `C05_run_no_panic` (`Big2` reaches an answer ⇒ `runLoop` never returns a panic),
`C05_run_no_panic_initial`, `C05_compiled_no_panic` (stage S2 programs).

Part 3 — offsets: `C05_offsets_valid` (stage S2, VM path) and `C05_offsets_valid_wrap` (Wrap path):
a reported vector has the `2 * n_groups` capture slots, every reported slot is `≤ len`, every group
with both ends set has `start ≤ end`, and the overall span is `pos ≤ start ≤ end ≤ len`
(`SlotsValid`). Reference side: `sem_adv` (no result is before its start position; ordered pairs of
groups `≥ 1` stay ordered) — this needs `noSelfNest` (no group inside a group of the same number):
WITHOUT it the statement is false of `sem` (`(?<1>(?=x(?<1>a)))` on `xa` gives the pair `(1, 0)`, see
the `example` at the end); `renumber` always produces such trees (`noSelfNest_renumber`), so the
property theorems carry no extra hypothesis. `\K` moves slot 0 only; `finish` caps it into
`[pos, end]` (`finish_valid`).
-/
namespace Fancy
open State

/-! ## Part 1: the four disciplined instructions -/

/-- `BeginAtomic` never panics; the next state is valid -/
theorem C05_beginAtomic_ok (c : Ctx) (prog : List Insn) (nS pc ix : Nat) (s : State) (σ : SState)
    (h : Inv2 nS s σ) (hpc : prog[pc]? = some .beginAtomic) :
    ∃ s', step c prog pc ix s = .cont (pc + 1) ix s' ∧
      Inv2 nS s' { σ with astk := σ.stack.length :: σ.astk } := by
  obtain ⟨s', e1, e2, _⟩ := rep_stackPush h s.backtrackCount
  refine ⟨s', ?_, ?_⟩
  · unfold step; simp only [hpc, e1]
  · rw [rep_backtrackCount h] at e2; exact e2

theorem c05_backtrackCut_none_of_lt (s : State) (count : Nat) (h : s.stack.length < count) :
    s.backtrackCut count = none := by
  unfold State.backtrackCut
  have h1 : (s.stack.length == count) = false := by simp; omega
  simp [h1, h]

/-- **`EndAtomic`, every case**, from a state satisfying `Inv2` -/
theorem C05_endAtomic_cases (c : Ctx) (prog : List Insn) (nS pc ix : Nat) (s : State) (σ : SState)
    (h : Inv2 nS s σ) (hpc : prog[pc]? = some .endAtomic) :
    match σ.astk with
    | count :: rest =>
      if count ≤ σ.stack.length then
        ∃ s', step c prog pc ix s = .cont (pc + 1) ix s' ∧
          Inv2 nS s' ⟨σ.slots, rest, σ.stack.drop (σ.stack.length - count)⟩
      else step c prog pc ix s = .done (.panic "backtrack_cut")
    | [] =>
      if s.saves.length = nS then step c prog pc ix s = .done (.panic "stack_pop")
      else if σ.stack.length ≤ nS then step c prog pc ix s = .done (.panic "backtrack_cut")
      else ∃ s', step c prog pc ix s = .cont (pc + 1) ix s' ∧ Inv s' ∧ s'.explicitSp = nS ∧
          s'.saves = s.saves.set nS nS ∧ s'.stack.length = nS + 1 ∧ ∀ sl ak, ¬ Rep nS s'.saves sl ak := by
  have hl := h.stack_length
  cases hak : σ.astk with
  | cons count rest =>
    simp only
    obtain ⟨s1, e1, e2, e3, _⟩ := rep_stackPop h count rest hak
    split
    · rename_i hc
      obtain ⟨s2, g1, g2, _⟩ := rep_cut e2 count hc
      exact ⟨s2, by unfold step; simp only [hpc, e1, g1], g2⟩
    · rename_i hc
      have : s1.backtrackCut count = none := c05_backtrackCut_none_of_lt s1 count (by omega)
      unfold step; simp only [hpc, e1, this]
  | nil =>
    simp only
    rcases rep_stackPop_empty h hak with ⟨a, b⟩ | ⟨a, s1, e1, e2, e3, e4, e5, _, e7⟩
    · rw [if_pos a]
      unfold step; simp only [hpc, b]
    · rw [if_neg (by omega)]
      split
      · rename_i hc
        have : s1.backtrackCut (nS + 1) = none := c05_backtrackCut_none_of_lt s1 _ (by omega)
        unfold step; simp only [hpc, e1, this]
      · rename_i hc
        obtain ⟨s2, g1, g2, g3, _⟩ := cut_spec s1 e3 (nS + 1) (by omega)
        obtain ⟨f1, _, f3⟩ := cut_fields s1 s2 _ g1
        refine ⟨s2, by unfold step; simp only [hpc, e1, g1], g3, by rw [f1, e4], by rw [f3, e2], ?_,
          by rw [f3]; exact e7⟩
        have := congrArg (fun a => a.stack.length) g2
        simp only [abs_stack_length_eq, AState.cut, List.length_drop] at this
        omega

/-- `EndAtomic` does not panic exactly when the top of the auxiliary stack is `≤` the branch-stack
    height, or — auxiliary stack empty — the pointer cell exists and the branch stack is higher than
    `nS` (the silent case: no panic, but the state is no longer represented) -/
theorem C05_endAtomic_no_panic_iff (c : Ctx) (prog : List Insn) (nS pc ix : Nat) (s : State) (σ : SState)
    (h : Inv2 nS s σ) (hpc : prog[pc]? = some .endAtomic) :
    (∀ site, step c prog pc ix s ≠ .done (.panic site)) ↔
      (∃ count rest, σ.astk = count :: rest ∧ count ≤ σ.stack.length) ∨
      (σ.astk = [] ∧ nS < s.saves.length ∧ nS < σ.stack.length) := by
  have hc := C05_endAtomic_cases c prog nS pc ix s σ h hpc
  have hge := h.len_ge
  cases hak : σ.astk with
  | cons count rest =>
    simp only [hak] at hc
    split at hc
    · rename_i hle
      obtain ⟨s', e, _⟩ := hc
      constructor
      · intro _; exact Or.inl ⟨count, rest, rfl, hle⟩
      · intro _ site hh; rw [e] at hh; cases hh
    · rename_i hle
      constructor
      · intro hn; exact absurd hc (hn _)
      · rintro (⟨c', r', e, hle'⟩ | ⟨e, _⟩)
        · cases e; exact absurd hle' hle
        · cases e
  | nil =>
    simp only [hak] at hc
    split at hc
    · rename_i hq
      constructor
      · intro hn; exact absurd hc (hn _)
      · rintro (⟨c', r', e, _⟩ | ⟨_, hlt, _⟩)
        · cases e
        · omega
    · rename_i hq
      split at hc
      · rename_i hle
        constructor
        · intro hn; exact absurd hc (hn _)
        · rintro (⟨c', r', e, _⟩ | ⟨_, _, hlt⟩)
          · cases e
          · omega
      · rename_i hle
        obtain ⟨s', e, _⟩ := hc
        constructor
        · intro _; exact Or.inr ⟨rfl, by omega, by omega⟩
        · intro _ site hh; rw [e] at hh; cases hh

/-- the disciplined case of `EndAtomic`: no panic and the next state is valid -/
theorem C05_endAtomic_ok (c : Ctx) (prog : List Insn) (nS pc ix : Nat) (s : State) (σ : SState)
    (h : Inv2 nS s σ) (hpc : prog[pc]? = some .endAtomic) (count : Nat) (rest : List Nat)
    (hak : σ.astk = count :: rest) (hle : count ≤ σ.stack.length) :
    ∃ s', step c prog pc ix s = .cont (pc + 1) ix s' ∧
      Inv2 nS s' ⟨σ.slots, rest, σ.stack.drop (σ.stack.length - count)⟩ := by
  have hc := C05_endAtomic_cases c prog nS pc ix s σ h hpc
  simp only [hak, hle, ↓reduceIte] at hc
  exact hc

/-- `FailNegativeLookAround` with the marker on the stack: no panic, the next state is valid -/
theorem C05_failNegLook_ok (c : Ctx) (prog : List Insn) (nS pc ix : Nat) (s : State) (σ : SState)
    (h : Inv2 nS s σ) (hpc : prog[pc]? = some .failNegLook)
    (pre : List SBranch) (b : SBranch) (rest : List SBranch)
    (hs : pre ++ b :: rest = σ.stack) (hb : b.pc = pc + 1) (hpre : ∀ x ∈ pre, x.pc ≠ pc + 1) :
    ∃ s', step c prog pc ix s = .fail s' ∧ Inv2 nS s' ⟨b.slots, b.astk, rest⟩ := by
  obtain ⟨s', e1, e2, _⟩ := rep_popUntil h (pc + 1) pre b rest hs hb hpre
  exact ⟨s', by unfold step; simp only [hpc, e1], e2⟩

/-- `FailNegativeLookAround` does not panic iff a branch with the marker pc is on the stack -/
theorem C05_failNegLook_no_panic_iff (c : Ctx) (prog : List Insn) (nS pc ix : Nat) (s : State) (σ : SState)
    (h : Inv2 nS s σ) (hpc : prog[pc]? = some .failNegLook) :
    (∀ site, step c prog pc ix s ≠ .done (.panic site)) ↔ ∃ b ∈ σ.stack, b.pc = pc + 1 := by
  constructor
  · intro hn
    apply Classical.byContradiction
    intro hne
    have hall : ∀ x ∈ σ.stack, x.pc ≠ pc + 1 := fun x hx hp => hne ⟨x, hx, hp⟩
    have := rep_popUntil_none (pc + 1) σ.stack (s.stack.length + 1) s σ h rfl hall
    apply hn "failNegLook pop"
    unfold step; simp only [hpc, this]
  · intro hex site hh
    obtain ⟨pre, b, rest, e, hb, hp⟩ := exists_first_pc (pc + 1) σ.stack hex
    obtain ⟨s', e1, _⟩ := C05_failNegLook_ok c prog nS pc ix s σ h hpc pre b rest e hb hp
    rw [e1] at hh; cases hh

/-- `copyGroups` succeeds when every group in range has the start unset or the end set -/
theorem c05_copyGroups_ok {nS : Nat} (r : St) (sg : Nat) :
    ∀ (n : Nat) (s : State) (σ : SState), Inv2 nS s σ → (sg + n) * 2 ≤ nS →
      (∀ g, sg ≤ g → g < sg + n → r.slot (g * 2) = none ∨ (r.slot (g * 2 + 1)).isSome) →
      ∃ s' sl', copyGroups r sg n s = some s' ∧ Inv2 nS s' { σ with slots := sl' } := by
  intro n
  induction n with
  | zero => intro s σ h _ _; exact ⟨s, σ.slots, rfl, h⟩
  | succ n ih =>
    intro s σ h hle hp
    obtain ⟨s1, sl1, e1, i1⟩ := ih s σ h (by omega) (fun g h1 h2 => hp g h1 (by omega))
    unfold copyGroups
    simp only [e1]
    rcases hp (sg + n) (by omega) (by omega) with hx | hy
    · simp only [hx]
      exact ⟨s1, sl1, rfl, i1⟩
    · cases hx : r.slot ((sg + n) * 2) with
      | none => exact ⟨s1, sl1, rfl, i1⟩
      | some a =>
        cases hy' : r.slot ((sg + n) * 2 + 1) with
        | none => rw [hy'] at hy; cases hy
        | some b =>
          simp only
          obtain ⟨s2, f1, i2, _⟩ := rep_save i1 ((sg + n) * 2) a (by omega)
          obtain ⟨s3, g1, i3, _⟩ := rep_save i2 ((sg + n) * 2 + 1) b (by omega)
          exact ⟨s3, _, by simp only [f1, Option.bind_some, g1], i3⟩

/-- … and fails (`inner_slots[..].unwrap()` on `None`) when some group in range has the start set
    and the end unset -/
theorem c05_copyGroups_none (r : St) (sg : Nat) :
    ∀ (n : Nat) (s : State),
      (∃ g, sg ≤ g ∧ g < sg + n ∧ (r.slot (g * 2)).isSome ∧ r.slot (g * 2 + 1) = none) →
      copyGroups r sg n s = none := by
  intro n
  induction n with
  | zero => intro s ⟨g, h1, h2, _⟩; omega
  | succ n ih =>
    intro s ⟨g, h1, h2, h3, h4⟩
    unfold copyGroups
    cases hrec : copyGroups r sg n s with
    | none => rfl
    | some s1 =>
      simp only
      by_cases hg : g = sg + n
      · subst hg
        cases hx : r.slot ((sg + n) * 2) with
        | none => rw [hx] at h3; cases h3
        | some a => simp only [h4]
      · have := ih s ⟨g, h1, by omega, h3, h4⟩
        rw [this] at hrec; cases hrec

/-- `Delegate` whose oracle result is well-formed: no panic, the next state is valid -/
theorem C05_delegate_ok (c : Ctx) (prog : List Insn) (nS pc ix : Nat) (s : State) (σ : SState)
    (h : Inv2 nS s σ) (es : List Expr) (sg eg : Nat) (hpc : prog[pc]? = some (.delegate es sg eg))
    (hle : eg * 2 ≤ nS)
    (hr : ∀ r, delegateOracle c es sg eg ix s.saves = some r → ∀ g, sg ≤ g → g < eg →
      r.slot (g * 2) = none ∨ (r.slot (g * 2 + 1)).isSome) :
    step c prog pc ix s = .fail s ∨
    ∃ ix' s' sl', step c prog pc ix s = .cont (pc + 1) ix' s' ∧ Inv2 nS s' { σ with slots := sl' } := by
  unfold step
  simp only [hpc]
  cases ho : delegateOracle c es sg eg ix s.saves with
  | none => left; rfl
  | some r =>
    right
    simp only
    by_cases hq : (sg == eg) = true
    · rw [if_pos hq]; exact ⟨r.ix, s, σ.slots, rfl, h⟩
    · rw [if_neg hq]
      by_cases hlt : sg ≤ eg
      · obtain ⟨s', sl', e1, e2⟩ := c05_copyGroups_ok (nS := nS) r sg (eg - sg) s σ h
          (by have : sg + (eg - sg) = eg := by omega
              rw [this]; exact hle)
          (fun g g1 g2 => hr r ho g g1 (by omega))
        simp only [e1]
        exact ⟨r.ix, s', sl', rfl, e2⟩
      · have : eg - sg = 0 := by omega
        simp only [this, copyGroups]
        exact ⟨r.ix, s, σ.slots, rfl, h⟩

/-- `Delegate` (its group slots inside the ordinary slots) does not panic iff the oracle's result has,
    for every group in range, the start unset or the end set -/
theorem C05_delegate_no_panic_iff (c : Ctx) (prog : List Insn) (nS pc ix : Nat) (s : State) (σ : SState)
    (h : Inv2 nS s σ) (es : List Expr) (sg eg : Nat) (hpc : prog[pc]? = some (.delegate es sg eg))
    (hle : eg * 2 ≤ nS) :
    (∀ site, step c prog pc ix s ≠ .done (.panic site)) ↔
      ∀ r, delegateOracle c es sg eg ix s.saves = some r → ∀ g, sg ≤ g → g < eg →
        r.slot (g * 2) = none ∨ (r.slot (g * 2 + 1)).isSome := by
  constructor
  · intro hn r ho g g1 g2
    apply Classical.byContradiction
    intro hbad
    have hx : (r.slot (g * 2)).isSome := by
      cases hx : r.slot (g * 2) with
      | none => exact absurd (Or.inl hx) hbad
      | some a => rfl
    have hy : r.slot (g * 2 + 1) = none := by
      cases hy : r.slot (g * 2 + 1) with
      | none => rfl
      | some b => exact absurd (Or.inr (by rw [hy]; rfl)) hbad
    have hcg := c05_copyGroups_none r sg (eg - sg) s ⟨g, g1, by omega, hx, hy⟩
    apply hn "delegate copy"
    unfold step
    have hq : (sg == eg) = false := by simp; omega
    simp only [hpc, ho, hq, Bool.false_eq_true, ↓reduceIte, hcg]
  · intro hr site hh
    rcases C05_delegate_ok c prog nS pc ix s σ h es sg eg hpc hle hr with e | ⟨_, _, _, e, _⟩
    · rw [e] at hh; cases hh
    · rw [e] at hh; cases hh

/-- the exact no-panic condition of each disciplined instruction on a state representing `σ` -/
def DiscOK (c : Ctx) (nS pc ix : Nat) (s : State) (σ : SState) : Insn → Prop
  | .endAtomic =>
    (∃ count rest, σ.astk = count :: rest ∧ count ≤ σ.stack.length) ∨
      (σ.astk = [] ∧ nS < s.saves.length ∧ nS < σ.stack.length)
  | .failNegLook => ∃ b ∈ σ.stack, b.pc = pc + 1
  | .delegate es sg eg =>
    eg * 2 ≤ nS ∧ ∀ r, delegateOracle c es sg eg ix s.saves = some r → ∀ g, sg ≤ g → g < eg →
      r.slot (g * 2) = none ∨ (r.slot (g * 2 + 1)).isSome
  | _ => True

/-- **no instruction panics**: every instruction whose slot operands lie inside the slot vector and
    which satisfies its discipline condition (`DiscOK`: trivial except for `EndAtomic`,
    `FailNegativeLookAround`, `Delegate`, and for those three exact) — on every state satisfying
    `Inv2`. Together with `prog[pc]? = none → panic "prog index"` these are all panic sites of `step`. -/
theorem C05_step_no_panic_all (c : Ctx) (prog : List Insn) (nS pc ix : Nat) (s : State) (σ : SState)
    (h : Inv2 nS s σ) (insn : Insn) (hpc : prog[pc]? = some insn)
    (hs : SlotsOK s.saves.length insn) (hd : DiscOK c nS pc ix s σ insn) :
    ∀ site, step c prog pc ix s ≠ .done (.panic site) := by
  by_cases hdisc : Disciplined insn = false
  · exact C05_step_no_panic c prog pc ix s h.inv insn hpc hs hdisc
  · cases insn with
    | beginAtomic =>
      intro site hh
      obtain ⟨s', e, _⟩ := C05_beginAtomic_ok c prog nS pc ix s σ h hpc
      rw [e] at hh; cases hh
    | endAtomic => exact (C05_endAtomic_no_panic_iff c prog nS pc ix s σ h hpc).mpr hd
    | failNegLook => exact (C05_failNegLook_no_panic_iff c prog nS pc ix s σ h hpc).mpr hd
    | delegate es sg eg => exact (C05_delegate_no_panic_iff c prog nS pc ix s σ h es sg eg hpc hd.1).mpr hd.2
    | _ => simp [Disciplined] at hdisc

/-- the loop's own panic site (`self.stack.pop().unwrap()` after a failure, taken only when the stack
    is non-empty) is unreachable from a state satisfying the undo-log invariant -/
theorem C05_pop_no_panic (s : State) (hi : Inv s) (hne : s.stack.isEmpty = false) : s.pop ≠ none := by
  cases hst : s.stack with
  | nil => rw [hst] at hne; cases hne
  | cons b rest =>
    obtain ⟨s', e, _⟩ := pop_spec s hi b rest hst
    rw [e]; intro hh; cases hh

/-- **wherever the structured machine is defined, the interpreter does not panic** — and its next
    state is again valid: `StepRel2` carries `Inv2` for the successor (`.cont` / `.fail`), or the step
    is the branch-stack cap `StackOverflow` -/
theorem C05_step_total (c : Ctx) (prog : List Insn) (nS pc ix : Nat) (s : State) (σ : SState)
    (h : Inv2 nS s σ) (hd : DelegOK c prog nS) (cfg' : SCfg)
    (hs : sstep c prog nS pc ix σ.slots σ.astk σ.stack = some cfg') :
    (∀ site, step c prog pc ix s ≠ .done (.panic site)) ∧ StepRel2 nS (step c prog pc ix s) cfg' := by
  have hrel := step_sim2 c prog nS pc ix s σ h hd cfg' hs
  refine ⟨?_, hrel⟩
  intro site hh
  rw [hh] at hrel
  cases hrel

/-- the successor state of a step the structured machine can take is valid -/
theorem C05_step_valid (c : Ctx) (prog : List Insn) (nS pc ix : Nat) (s : State) (σ : SState)
    (h : Inv2 nS s σ) (hd : DelegOK c prog nS) (cfg' : SCfg)
    (hs : sstep c prog nS pc ix σ.slots σ.astk σ.stack = some cfg') :
    (∀ pc' ix' s', step c prog pc ix s = .cont pc' ix' s' →
      ∃ σ', Inv2 nS s' σ' ∧ cfg' = .run pc' ix' σ'.slots σ'.astk σ'.stack) ∧
    (∀ s', step c prog pc ix s = .fail s' → ∃ σ', Inv2 nS s' σ' ∧ cfg' = .fail σ'.stack) := by
  have hrel := step_sim2 c prog nS pc ix s σ h hd cfg' hs
  constructor
  · intro pc' ix' s' hh
    rw [hh] at hrel
    cases hrel with
    | cont _ _ _ σ' hi => exact ⟨σ', hi, rfl⟩
  · intro s' hh
    rw [hh] at hrel
    cases hrel with
    | fail _ σ' hi => exact ⟨σ', hi, rfl⟩

/-! ### when `sstep` is defined -/

theorem c05_dropUntil_isSome (target : Nat) (l : List SBranch) (h : ∃ b ∈ l, b.pc = target) :
    (dropUntil target l).isSome := by
  induction l with
  | nil => obtain ⟨b, hb, _⟩ := h; cases hb
  | cons y ys ih =>
    unfold dropUntil
    by_cases hy : y.pc = target
    · simp [hy]
    · have : (y.pc == target) = false := by simp [hy]
      simp only [this, Bool.false_eq_true, ↓reduceIte]
      obtain ⟨b, hb, hbt⟩ := h
      rcases List.mem_cons.mp hb with rfl | hb
      · exact absurd hbt hy
      · exact ih ⟨b, hb, hbt⟩

theorem c05_copyGroupsA_ok (r : St) (sg : Nat) :
    ∀ (n : Nat) (sl : List Nat), (sg + n) * 2 ≤ sl.length →
      (∀ g, sg ≤ g → g < sg + n → r.slot (g * 2) = none ∨ (r.slot (g * 2 + 1)).isSome) →
      ∃ sl', copyGroupsA r sg n sl = some sl' ∧ sl'.length = sl.length := by
  intro n
  induction n with
  | zero => intro sl _ _; exact ⟨sl, rfl, rfl⟩
  | succ n ih =>
    intro sl hle hp
    obtain ⟨sl1, e1, l1⟩ := ih sl (by omega) (fun g h1 h2 => hp g h1 (by omega))
    unfold copyGroupsA
    simp only [e1]
    rcases hp (sg + n) (by omega) (by omega) with hx | hy
    · simp only [hx]; exact ⟨sl1, rfl, l1⟩
    · cases hx : r.slot ((sg + n) * 2) with
      | none => exact ⟨sl1, rfl, l1⟩
      | some a =>
        cases hy' : r.slot ((sg + n) * 2 + 1) with
        | none => rw [hy'] at hy; cases hy
        | some b =>
          simp only
          rw [if_pos (by omega)]
          exact ⟨_, rfl, by simp [l1]⟩

/-- the discipline conditions at the structured level -/
def DiscOKσ (c : Ctx) (nS pc ix : Nat) (slots astk : List Nat) (stack : List SBranch) : Insn → Prop
  | .end_ => False
  | .endAtomic => ∃ count rest, astk = count :: rest ∧ count ≤ stack.length
  | .failNegLook => ∃ b ∈ stack, b.pc = pc + 1
  | .delegate es sg eg =>
    eg * 2 ≤ nS ∧ ∀ r, delegateOracle c es sg eg ix slots = some r → ∀ g, sg ≤ g → g < eg →
      r.slot (g * 2) = none ∨ (r.slot (g * 2 + 1)).isSome
  | .restore slot => ∀ v, slots[slot]? = some v → v ≤ c.len
  | .repeatGr _ hi _ rep | .repeatNg _ hi _ rep => hi = none → ∀ v, slots[rep]? = some v → v ≤ c.len
  | _ => True

/-- **when the structured machine is defined**: at every instruction other than `End`, with slot
    operands inside the ordinary slots and the discipline condition of the instruction -/
theorem C05_sstep_defined (c : Ctx) (prog : List Insn) (nS pc ix : Nat) (slots astk : List Nat)
    (stack : List SBranch) (hl : slots.length = nS) (insn : Insn) (hpc : prog[pc]? = some insn)
    (hs : SlotsOK nS insn) (hd : DiscOKσ c nS pc ix slots astk stack insn) :
    (sstep c prog nS pc ix slots astk stack).isSome := by
  have hget : ∀ i, i < nS → ∃ v, slots[i]? = some v := by
    intro i hi
    exact ⟨slots[i], List.getElem?_eq_getElem (by omega)⟩
  unfold sstep
  simp only [hpc]
  cases insn with
  | end_ => exact hd.elim
  | any => simp only; split <;> rfl
  | anyNoNL => simp only; split <;> (try split) <;> rfl
  | lit val => simp only; split <;> rfl
  | assertion a => simp only; split <;> rfl
  | split x y => rfl
  | jmp t => rfl
  | save slot => simp only [SlotsOK] at hs; simp only [hs, ↓reduceIte]; rfl
  | save0 slot => simp only [SlotsOK] at hs; simp only [hs, ↓reduceIte]; rfl
  | restore slot =>
    simp only [SlotsOK] at hs
    obtain ⟨v, hv⟩ := hget slot hs
    have hvl : v ≤ c.len := hd v hv
    simp only [hs, ↓reduceIte, hv, hvl]; rfl
  | repeatGr lo hi next rep =>
    simp only [SlotsOK] at hs
    obtain ⟨v, hv⟩ := hget rep hs
    have hb : (hi == none && decide (c.len < v)) = false := by
      cases hi with
      | none => have := hd rfl v hv; simp; omega
      | some x => simp
    simp only [hs, ↓reduceIte, hv, hb, Bool.false_eq_true]
    split <;> (try split) <;> rfl
  | repeatNg lo hi next rep =>
    simp only [SlotsOK] at hs
    obtain ⟨v, hv⟩ := hget rep hs
    have hb : (hi == none && decide (c.len < v)) = false := by
      cases hi with
      | none => have := hd rfl v hv; simp; omega
      | some x => simp
    simp only [hs, ↓reduceIte, hv, hb, Bool.false_eq_true]
    split <;> (try split) <;> rfl
  | repeatEpsGr lo next rep check =>
    simp only [SlotsOK] at hs
    obtain ⟨v, hv⟩ := hget rep hs.1
    obtain ⟨w, hw⟩ := hget check hs.2
    simp only [hs, and_self, ↓reduceIte, hv, hw]
    split <;> (try split) <;> rfl
  | repeatEpsNg lo next rep check =>
    simp only [SlotsOK] at hs
    obtain ⟨v, hv⟩ := hget rep hs.1
    obtain ⟨w, hw⟩ := hget check hs.2
    simp only [hs, and_self, ↓reduceIte, hv, hw]
    split <;> (try split) <;> rfl
  | goBack n => simp only; split <;> rfl
  | failNegLook =>
    have := c05_dropUntil_isSome (pc + 1) stack hd
    simp only
    cases hdu : dropUntil (pc + 1) stack with
    | none => rw [hdu] at this; cases this
    | some rest => rfl
  | backref slot =>
    simp only [SlotsOK] at hs
    obtain ⟨v, hv⟩ := hget slot (by omega)
    obtain ⟨w, hw⟩ := hget (slot + 1) hs
    simp only [hs, ↓reduceIte, hv, hw]
    split <;> (try split) <;> (try split) <;> rfl
  | backrefExists g =>
    simp only [SlotsOK] at hs
    obtain ⟨v, hv⟩ := hget (g * 2) hs
    simp only [hs, ↓reduceIte, hv]
    split <;> rfl
  | beginAtomic => rfl
  | endAtomic =>
    obtain ⟨count, rest, e, hle⟩ := hd
    simp only [e, hle, ↓reduceIte]; rfl
  | delegate es sg eg =>
    obtain ⟨hle, hr⟩ := hd
    simp only
    cases ho : delegateOracle c es sg eg ix slots with
    | none => rfl
    | some r =>
      simp only
      split
      · rfl
      · by_cases hlt : sg ≤ eg
        · obtain ⟨sl', e1, _⟩ := c05_copyGroupsA_ok r sg (eg - sg) slots
            (by have : sg + (eg - sg) = eg := by omega
                rw [this, hl]; exact hle)
            (fun g g1 g2 => hr r ho g g1 (by omega))
          simp only [e1]; rfl
        · have : eg - sg = 0 := by omega
          simp only [this, copyGroupsA]; rfl
  | contPrev => simp only; split <;> rfl

/-! ### Part 1, concrete instances (`exS`, `exσ`, `exInv2` of Lemmas/AuxStack.lean: one pending
alternative with pc 5, auxiliary stack `[9]`; `exProg` of Lemmas/AVM2.lean) -/
example (c : Ctx) : ∃ s', step c exProg 1 7 exS = .cont 2 7 s' ∧ Inv2 2 s' { exσ with astk := 1 :: exσ.astk } :=
  C05_beginAtomic_ok c exProg 2 1 7 exS exσ exInv2 rfl

example (c : Ctx) : ∃ s s', Inv2 2 s { exσ with astk := 1 :: exσ.astk } ∧ step c exProg 3 7 s = .cont 4 7 s' := by
  obtain ⟨s, _, h, _⟩ := rep_stackPush exInv2 1
  obtain ⟨s', e, _⟩ := C05_endAtomic_ok c exProg 2 3 7 s _ h rfl 1 [9] rfl (by decide)
  exact ⟨s, s', h, e⟩

example (c : Ctx) : step c exProg 3 7 exS = .done (.panic "backtrack_cut") := by
  have := C05_endAtomic_cases c exProg 2 3 7 exS exσ exInv2 rfl
  simpa [exσ] using this

example (c : Ctx) : step c exProg 3 0 (State.new 2 10) = .done (.panic "stack_pop") := by
  have := C05_endAtomic_cases c exProg 2 3 0 _ _ (inv2_init 2 10) rfl
  simpa [State.new] using this

example (c : Ctx) : ∀ site, step c [.any, .any, .any, .any, .failNegLook] 4 0 exS ≠ .done (.panic site) :=
  (C05_failNegLook_no_panic_iff c _ 2 4 0 exS exσ exInv2 rfl).mpr ⟨⟨5, 1, [7, 8], []⟩, by simp [exσ], rfl⟩

example (c : Ctx) : ∀ site, step c exProg 4 3 exS ≠ .done (.panic site) := by
  refine (C05_delegate_no_panic_iff c exProg 2 4 3 exS exσ exInv2 [] 0 1 rfl (by decide)).mpr ?_
  intro r hr g _ hg
  have : g = 0 := by omega
  subst this
  simp only [delegateOracle, semKConcat, Option.some.injEq] at hr
  subst hr
  left
  simp [St.slot, clearGroups, viewSlots, exS]

example (c : Ctx) : ∀ site, step c [.any, .any, .any, .any, .failNegLook] 4 0 exS ≠ .done (.panic site) :=
  C05_step_no_panic_all c _ 2 4 0 exS exσ exInv2 .failNegLook rfl trivial
    ⟨⟨5, 1, [7, 8], []⟩, by simp [exσ], rfl⟩

example (c : Ctx) : ∀ site, step c exProg 1 7 exS ≠ .done (.panic site) :=
  (C05_step_total c exProg 2 1 7 exS exσ exInv2 (exDelegOK c) _ rfl).1

example (c : Ctx) : (sstep c exProg 2 3 0 [0, 0] [0] []).isSome :=
  C05_sstep_defined c exProg 2 3 0 [0, 0] [0] [] rfl .endAtomic rfl trivial ⟨0, [], rfl, by decide⟩

/-! ## Part 2: whole runs -/

/-- `Good2` excludes every panic -/
theorem Good2_not_panic {nS : Nat} {out : Outcome} {a : Ans} (h : Good2 nS out a) :
    ∀ site, out ≠ .panic site := by
  intro site he
  subst he
  rcases h with h | h | h | h
  · cases h
  · cases h
  · cases h
  · cases a with
    | noMatch => cases h
    | matched sl => obtain ⟨_, h, _⟩ := h; cases h

/-- **a run never panics**: if the structured machine reaches an answer from `cfg`, then `runLoop`
    from ANY concrete state representing `cfg` (any fuel, any limits) never returns a panic -/
theorem C05_run_no_panic (c : Ctx) (prog : List Insn) (nS : Nat) (o : VMOpts) (hd : DelegOK c prog nS)
    (pc ix : Nat) (slots astk : List Nat) (stack : List SBranch) (a : Ans)
    (h : Big2 c prog nS (.run pc ix slots astk stack) a)
    (s : State) (hi : Inv2 nS s ⟨slots, astk, stack⟩) (fuel : Nat) (st : Stats) :
    ∀ site, (runLoop c prog o fuel pc ix s st).1 ≠ .panic site :=
  Good2_not_panic (link2 c prog nS o hd _ a h s _ hi rfl fuel st)

/-- the same from a failing configuration (what the loop does after a failed instruction) -/
theorem C05_run_no_panic_fail (c : Ctx) (prog : List Insn) (nS : Nat) (o : VMOpts) (hd : DelegOK c prog nS)
    (stack : List SBranch) (a : Ans) (h : Big2 c prog nS (.fail stack) a)
    (s : State) (σ : SState) (hi : Inv2 nS s σ) (hσ : σ.stack = stack) (fuel : Nat) (st : Stats) :
    ∀ site, (afterFail c prog o fuel s st).1 ≠ .panic site :=
  Good2_not_panic (link2 c prog nS o hd _ a h s σ hi hσ fuel st)

/-- … and from the initial configuration of `vm::run` -/
theorem C05_run_no_panic_initial (c : Ctx) (p : Prog) (o : VMOpts) (hd : DelegOK c p.body p.nSaves) (a : Ans)
    (h : Big2 c p.body p.nSaves (.run 0 c.pos (List.replicate p.nSaves UNSET) [] []) a) (fuel : Nat) :
    ∀ site, (run c p o fuel).1 ≠ .panic site :=
  Good2_not_panic (link2_initial c p o hd a h fuel)

example (c : Ctx) (o : VMOpts) (fuel : Nat) : ∀ site, (run c ⟨exProg, 2⟩ o fuel).1 ≠ .panic site :=
  C05_run_no_panic_initial c ⟨exProg, 2⟩ o (exDelegOK c) _ (exBig2 c) fuel

/-- `VmCorrectR` excludes every panic -/
theorem VmCorrectR_not_panic {b : Built} {c : Ctx} (h : VmCorrectR b c) (limit fuel : Nat) :
    ∀ site, (b.captures c limit fuel).1 ≠ .panic site := by
  intro site he
  rcases h limit fuel with h | h | h | h
  · rw [he] at h; cases h
  · rw [he] at h; cases h
  · rw [he] at h; cases h
  · rw [he] at h
    cases hr : refSearch c b.raw b.nGroups with
    | none => rw [hr] at h; cases h
    | some f => rw [hr] at h; cases h

/-- a panic of the VM run is a panic of the search -/
theorem captures_panic_of_run (b : Built) (prog : Prog) (c : Ctx) (hk : b.kind = .fancy prog)
    (limit fuel : Nat) (site : String)
    (h : (run c prog ⟨limit, maxStackDefault⟩ fuel).1 = .panic site) :
    (b.captures c limit fuel).1 = .panic site := by
  unfold Built.captures
  simp only [hk]
  generalize run c prog ⟨limit, maxStackDefault⟩ fuel = res at h ⊢
  obtain ⟨out, st⟩ := res
  simp only at h
  subst h
  rfl

/-- **compiled programs of the proved stage never panic**: for every pattern in stage S2 whose program
    has no `Delegate`, every text, every start offset, every backtrack limit (and every fuel of the
    model's loop): neither the search (`captures`) nor the VM run it performs returns a panic -/
theorem C05_compiled_no_panic (tree : Expr) (backrefs : List Nat) (b : Built) (prog : Prog) (c : Ctx)
    (hb : build tree backrefs = .ok b) (hk : b.kind = .fancy prog)
    (hok : s2ok b.raw = true) (hnd : noDeleg prog.body = true)
    (hlen : c.len < UNSET) (hpos : c.pos ≤ c.len) (limit fuel : Nat) :
    ∀ site, (b.captures c limit fuel).1 ≠ .panic site ∧
      (run c prog ⟨limit, maxStackDefault⟩ fuel).1 ≠ .panic site := by
  intro site
  have h := VmCorrectR_not_panic (C01_vm_correct_s2 tree backrefs b prog c hb hk hok hnd hlen hpos) limit fuel
  exact ⟨h site, fun hr => h site (captures_panic_of_run b prog c hk limit fuel site hr)⟩


example (c : Ctx) (o : VMOpts) (fuel : Nat) (st : Stats) :
    ∀ site, (runLoop c exProg o fuel 0 c.pos (State.new 2 o.maxStack) st).1 ≠ .panic site :=
  C05_run_no_panic c exProg 2 o (exDelegOK c) _ _ _ _ _ _ (exBig2 c) _ (inv2_init 2 o.maxStack) fuel st

/-! ## Part 3: every reported offset is valid -/

mutual
/-- no capture group is nested inside a group with the same number (and `\K`, which writes slot 0, is
    not inside a group numbered 0): true of every tree numbered by `renumber` from `n ≥ 1` -/
def noSelfNest : Expr → Bool
  | .group g e => !(ownSlots e).contains (2 * g) && noSelfNest e
  | .concat es => noSelfNestAll es
  | .alt es => noSelfNestAll es
  | .look e _ => noSelfNest e
  | .repeat e _ _ _ => noSelfNest e
  | .atomic e => noSelfNest e
  | .cond c y n => noSelfNest c && noSelfNest y && noSelfNest n
  | _ => true
def noSelfNestAll : List Expr → Bool
  | [] => true
  | e :: es => noSelfNest e && noSelfNestAll es
end

theorem noSelfNestAll_mem : ∀ (es : List Expr), noSelfNestAll es = true → ∀ e ∈ es, noSelfNest e = true
  | [], _, e, he => by cases he
  | x :: xs, h, e, he => by
    simp only [noSelfNestAll, Bool.and_eq_true] at h
    rcases List.mem_cons.mp he with rfl | he
    · exact h.1
    · exact noSelfNestAll_mem xs h.2 e he

/-- the pair of group `g` is ordered (vacuous unless both ends are set) -/
def PairOK (st : St) (g : Nat) : Prop :=
  ∀ a b, st.slot (2 * g) = some a → st.slot (2 * g + 1) = some b → a ≤ b

/-- what every result of every expression satisfies w.r.t. the state it started from: the position
    did not move backwards, and every ordered pair (groups `≥ 1`) is still ordered -/
def PairAdv (st r : St) : Prop := st.ix ≤ r.ix ∧ ∀ g, 1 ≤ g → PairOK st g → PairOK r g

theorem PairAdv.refl (st : St) : PairAdv st st := ⟨Nat.le_refl _, fun _ _ h => h⟩
theorem PairAdv.trans {a b d : St} (h1 : PairAdv a b) (h2 : PairAdv b d) : PairAdv a d :=
  ⟨Nat.le_trans h1.1 h2.1, fun g hg h => h2.2 g hg (h1.2 g hg h)⟩
theorem PairAdv.withIx {st r : St} (h : PairAdv st r) (k : Nat) (hk : st.ix ≤ k) : PairAdv st { r with ix := k } :=
  ⟨hk, h.2⟩
theorem PairAdv.ofIx (st : St) (k : Nat) (hk : st.ix ≤ k) : PairAdv st { st with ix := k } :=
  (PairAdv.refl st).withIx k hk

theorem c05_slot_setSlot_ne (st : St) (i j : Nat) (v : Option Nat) (h : i ≠ j) :
    (st.setSlot i v).slot j = st.slot j := by
  simp only [St.slot, St.setSlot]
  rw [List.getElem?_set_ne h]

theorem c05_slot_setSlot_self (st : St) (i v b : Nat) (h : (st.setSlot i (some v)).slot i = some b) : b = v := by
  simp only [St.slot, St.setSlot] at h
  by_cases hi : i < st.slots.length
  · rw [List.getElem?_set_self hi] at h
    simp at h; exact h.symm
  · rw [List.getElem?_eq_none (by simp; omega)] at h
    simp at h

theorem PairOK_setSlot_ne (st : St) (i g : Nat) (v : Option Nat) (h1 : i ≠ 2 * g) (h2 : i ≠ 2 * g + 1) :
    PairOK (st.setSlot i v) g ↔ PairOK st g := by
  unfold PairOK
  rw [c05_slot_setSlot_ne st i _ v h1, c05_slot_setSlot_ne st i _ v h2]

theorem c05_repLoop_rel (R : St → St → Prop) (hrefl : ∀ s, R s s) (htrans : ∀ a b d, R a b → R b d → R a d)
    (body : St → List St) (hb : ∀ st r, r ∈ body st → R st r)
    (lo : Nat) (hi : Option Nat) (greedy : Bool) (fuel count : Nat) (st r : St)
    (h : r ∈ repLoop body lo hi greedy fuel count st) : R st r := by
  induction fuel generalizing count st r with
  | zero => simp [repLoop] at h
  | succ fuel ih =>
    unfold repLoop at h
    split at h
    · simp only [List.mem_singleton] at h; subst h; exact hrefl _
    · have hiters : ∀ q, q ∈ ((body st).flatMap fun r' =>
            if hi.isNone && decide (lo ≤ count) && r'.ix == st.ix then [r']
            else repLoop body lo hi greedy fuel (count + 1) r') → R st q := by
        intro q hq
        simp only [List.mem_flatMap] at hq
        obtain ⟨r', hr', hmem⟩ := hq
        have h1 := hb st r' hr'
        split at hmem
        · simp only [List.mem_singleton] at hmem; subst hmem; exact h1
        · exact htrans _ _ _ h1 (ih _ _ _ hmem)
      split at h
      · exact hiters r h
      · split at h
        · rcases List.mem_append.mp h with h | h
          · exact hiters r h
          · simp only [List.mem_singleton] at h; subst h; exact hrefl _
        · rcases List.mem_cons.mp h with h | h
          · subst h; exact hrefl _
          · exact hiters r h

/-- pairs only (a look-behind body starts at an earlier position) -/
def PairKeeps (st r : St) : Prop := ∀ g, 1 ≤ g → PairOK st g → PairOK r g

theorem c05_behindOne_keeps (body : St → List St) (hb : ∀ st r, r ∈ body st → PairAdv st r)
    (st r : St) (h : r ∈ behindOne body st) : PairKeeps st r := by
  simp only [behindOne, List.mem_flatMap, List.mem_filter] at h
  obtain ⟨k, _, hr, _⟩ := h
  exact (hb _ _ hr).2

theorem c05_semBehindAlts_keeps_of (c : Ctx) (es : List Expr)
    (hsem : ∀ e', e' ∈ es → ∀ st r, r ∈ sem c e' st → PairAdv st r) :
    ∀ st r, r ∈ semBehindAlts c es st → PairKeeps st r := by
  induction es with
  | nil => intro st r h; simp [semBehindAlts] at h
  | cons e es ih =>
    intro st r h
    simp only [semBehindAlts, List.mem_append] at h
    rcases h with h | h
    · exact c05_behindOne_keeps _ (hsem e (by simp)) st r h
    · exact ih (fun e' he' => hsem e' (by simp [he'])) st r h

theorem c05_semBehind_keeps_of (c : Ctx) (e : Expr) (hn : noSelfNest e = true)
    (hsem : ∀ e', sizeOf e' ≤ sizeOf e → noSelfNest e' = true → ∀ st r, r ∈ sem c e' st → PairAdv st r) :
    ∀ st r, r ∈ semBehind c e st → PairKeeps st r := by
  intro st r h
  cases e with
  | alt es =>
    simp only [semBehind] at h
    simp only [noSelfNest] at hn
    exact c05_semBehindAlts_keeps_of c es (fun e' he' => hsem e' (by
      have := List.sizeOf_lt_of_mem he'
      simp only [Expr.alt.sizeOf_spec]; omega) (noSelfNestAll_mem es hn e' he')) st r h
  | _ => exact c05_behindOne_keeps _ (hsem _ (Nat.le_refl _) hn) st r (by simpa [semBehind] using h)

mutual
/-- every result of every (not self-nested) expression: position not before the start, ordered
    pairs stay ordered -/
theorem sem_adv (c : Ctx) : ∀ (e : Expr) (st r : St), noSelfNest e = true → r ∈ sem c e st → PairAdv st r
  | .empty, st, r, _, h => by simp [sem] at h; subst h; exact PairAdv.refl _
  | .any nl, st, r, _, h => by
    simp only [sem] at h
    split at h
    · split at h
      · simp at h; subst h; exact PairAdv.ofIx st _ (by omega)
      · simp at h
    · simp at h
  | .assertion a, st, r, _, h => by
    simp only [sem] at h; split at h
    · simp at h; subst h; exact PairAdv.refl _
    · simp at h
  | .literal val casei, st, r, _, h => by
    simp only [sem] at h; split at h
    · simp at h; subst h; exact PairAdv.ofIx st _ (by omega)
    · simp at h
  | .concat es, st, r, hn, h => by
    simp only [sem] at h; simp only [noSelfNest] at hn; exact semConcat_adv c es st r hn h
  | .alt es, st, r, hn, h => by
    simp only [sem] at h; simp only [noSelfNest] at hn; exact semAlt_adv c es st r hn h
  | .group g e, st, r, hn, h => by
    simp only [sem, List.mem_map] at h
    obtain ⟨r', hr', rfl⟩ := h
    simp only [noSelfNest, Bool.and_eq_true, Bool.not_eq_eq_eq_not, Bool.not_true] at hn
    have hown : 2 * g ∉ ownSlots e := by
      intro hm
      have := List.contains_iff_mem.mpr hm
      rw [hn.1] at this; cases this
    have h1 := sem_adv c e _ r' hn.2 hr'
    refine ⟨by simpa [St.setSlot] using h1.1, ?_⟩
    intro g' hg' hp
    by_cases hgg : g' = g
    · subst hgg
      intro a b ha hb
      rw [c05_slot_setSlot_ne _ _ _ _ (by omega)] at ha
      have hfr := C02_frame c e _ r' hr' (2 * g') hown
      have ha' : (st.setSlot (2 * g') (some st.ix)).slot (2 * g') = some a := by
        simp only [St.slot] at ha ⊢
        rw [← hfr]; exact ha
      have e1 := c05_slot_setSlot_self _ _ _ _ ha'
      have e2 := c05_slot_setSlot_self _ _ _ _ hb
      have := h1.1
      simp only [St.setSlot] at this
      omega
    · rw [PairOK_setSlot_ne _ _ _ _ (by omega) (by omega)]
      apply h1.2 g' hg'
      rw [PairOK_setSlot_ne _ _ _ _ (by omega) (by omega)]
      exact hp
  | .look e .ahead, st, r, hn, h => by
    simp only [sem, List.mem_map] at h
    obtain ⟨r', hr', rfl⟩ := h
    simp only [noSelfNest] at hn
    exact (sem_adv c e st r' hn (firstOnly_mem _ _ hr')).withIx _ (Nat.le_refl _)
  | .look e .aheadNeg, st, r, _, h => by
    simp only [sem] at h; split at h
    · simp at h; subst h; exact PairAdv.refl _
    · simp at h
  | .look e .behind, st, r, hn, h => by
    simp only [sem, List.mem_map] at h
    obtain ⟨r', hr', rfl⟩ := h
    simp only [noSelfNest] at hn
    exact ⟨Nat.le_refl _, c05_semBehind_keeps_of c e hn (fun e' _ hn' st r hr => sem_adv c e' st r hn' hr) st r'
      (firstOnly_mem _ _ hr')⟩
  | .look e .behindNeg, st, r, _, h => by
    simp only [sem] at h; split at h
    · simp at h; subst h; exact PairAdv.refl _
    · simp at h
  | .repeat e lo hi greedy, st, r, hn, h => by
    simp only [sem] at h
    simp only [noSelfNest] at hn
    exact c05_repLoop_rel PairAdv PairAdv.refl (fun _ _ _ => PairAdv.trans) (sem c e)
      (fun st r hr => sem_adv c e st r hn hr) lo hi greedy _ 0 st r h
  | .delegate inner size casei, st, r, _, h => by
    simp only [sem, delegateSem] at h
    split at h
    · split at h
      · split at h
        · simp at h; subst h; exact PairAdv.ofIx st _ (by omega)
        · simp at h
      · simp at h
    · split at h
      · split at h
        · simp at h; subst h; exact PairAdv.ofIx st _ (by omega)
        · simp at h
      · simp at h
  | .backref g, st, r, _, h => by
    simp only [sem] at h
    split at h
    · split at h
      · simp at h; subst h; exact PairAdv.ofIx st _ (by omega)
      · simp at h
    · simp at h
  | .atomic e, st, r, hn, h => by
    simp only [sem] at h
    simp only [noSelfNest] at hn
    exact sem_adv c e st r hn (firstOnly_mem _ _ h)
  | .keepOut, st, r, _, h => by
    simp [sem] at h; subst h
    refine ⟨Nat.le_refl _, fun g hg hp => ?_⟩
    rw [PairOK_setSlot_ne _ _ _ _ (by omega) (by omega)]
    exact hp
  | .contPrev, st, r, _, h => by
    simp only [sem] at h; split at h
    · simp at h; subst h; exact PairAdv.refl _
    · simp at h
  | .backrefExists g, st, r, _, h => by
    simp only [sem] at h; split at h
    · simp at h; subst h; exact PairAdv.refl _
    · simp at h
  | .cond cnd y f, st, r, hn, h => by
    simp only [sem] at h
    simp only [noSelfNest, Bool.and_eq_true] at hn
    split at h
    · rename_i r1 hr1
      exact (sem_adv c cnd st r1 hn.1.1 (List.mem_of_mem_head? hr1)).trans (sem_adv c y r1 r hn.1.2 h)
    · exact sem_adv c f st r hn.2 h
  | .subroutine g, st, r, _, h => by simp [sem] at h
termination_by e => sizeOf e
decreasing_by all_goals (simp_wf; try omega)
theorem semConcat_adv (c : Ctx) : ∀ (es : List Expr) (st r : St), noSelfNestAll es = true →
    r ∈ semConcat c es st → PairAdv st r
  | [], st, r, _, h => by simp [semConcat] at h; subst h; exact PairAdv.refl _
  | e :: es, st, r, hn, h => by
    simp only [semConcat, List.mem_flatMap] at h
    simp only [noSelfNestAll, Bool.and_eq_true] at hn
    obtain ⟨r1, hr1, hr⟩ := h
    exact (sem_adv c e st r1 hn.1 hr1).trans (semConcat_adv c es r1 r hn.2 hr)
termination_by es => sizeOf es
decreasing_by all_goals (simp_wf; try omega)
theorem semAlt_adv (c : Ctx) : ∀ (es : List Expr) (st r : St), noSelfNestAll es = true →
    r ∈ semAlt c es st → PairAdv st r
  | [], st, r, _, h => by simp [semAlt] at h
  | e :: es, st, r, hn, h => by
    simp only [semAlt, List.mem_append] at h
    simp only [noSelfNestAll, Bool.and_eq_true] at hn
    rcases h with h | h
    · exact sem_adv c e st r hn.1 h
    · exact semAlt_adv c es st r hn.2 h
termination_by es => sizeOf es
decreasing_by all_goals (simp_wf; try omega)
end


/-! ### trees numbered by `renumber` are not self-nested -/

mutual
theorem ownSlots_renumber : ∀ (e : Expr) (n i : Nat), i ∈ ownSlots (renumber e n).1 → i = 0 ∨ 2 * n ≤ i
  | .group g e, n, i, h => by
    simp only [renumber, ownSlots, List.mem_cons] at h
    rcases h with h | h | h
    · omega
    · omega
    · have := ownSlots_renumber e (n + 1) i h; omega
  | .concat es, n, i, h => by
    simp only [renumber, ownSlots] at h; exact ownSlotsList_renumber es n i h
  | .alt es, n, i, h => by
    simp only [renumber, ownSlots] at h; exact ownSlotsList_renumber es n i h
  | .look e la, n, i, h => by
    simp only [renumber, ownSlots] at h; exact ownSlots_renumber e n i h
  | .repeat e lo hi gr, n, i, h => by
    simp only [renumber, ownSlots] at h; exact ownSlots_renumber e n i h
  | .atomic e, n, i, h => by
    simp only [renumber, ownSlots] at h; exact ownSlots_renumber e n i h
  | .cond cnd y f, n, i, h => by
    simp only [renumber, ownSlots, List.mem_append] at h
    have r1 := renumber_snd cnd n
    have r2 := renumber_snd y (renumber cnd n).2
    rcases h with (h | h) | h
    · exact ownSlots_renumber cnd n i h
    · have := ownSlots_renumber y _ i h; omega
    · have := ownSlots_renumber f _ i h; omega
  | .keepOut, n, i, h => by simp [renumber, ownSlots] at h; exact Or.inl h
  | .empty, _, _, h | .any _, _, _, h | .assertion _, _, _, h | .literal _ _, _, _, h
  | .delegate _ _ _, _, _, h | .contPrev, _, _, h | .subroutine _, _, _, h | .backref _, _, _, h
  | .backrefExists _, _, _, h => by simp [renumber, ownSlots] at h
theorem ownSlotsList_renumber : ∀ (es : List Expr) (n i : Nat), i ∈ ownSlotsList (renumberList es n).1 →
    i = 0 ∨ 2 * n ≤ i
  | [], _, _, h => by simp [renumberList, ownSlotsList] at h
  | e :: es, n, i, h => by
    simp only [renumberList, ownSlotsList, List.mem_append] at h
    have r1 := renumber_snd e n
    rcases h with h | h
    · exact ownSlots_renumber e n i h
    · have := ownSlotsList_renumber es _ i h; omega
end

mutual
theorem noSelfNest_renumber : ∀ (e : Expr) (n : Nat), 1 ≤ n → noSelfNest (renumber e n).1 = true
  | .group g e, n, hn => by
    simp only [renumber, noSelfNest, Bool.and_eq_true, Bool.not_eq_eq_eq_not, Bool.not_true]
    refine ⟨?_, noSelfNest_renumber e (n + 1) (by omega)⟩
    cases hc : (ownSlots (renumber e (n + 1)).1).contains (2 * n) with
    | false => rfl
    | true =>
      have := ownSlots_renumber e (n + 1) (2 * n) (List.contains_iff_mem.mp hc)
      omega
  | .concat es, n, hn => by simp only [renumber, noSelfNest]; exact noSelfNestAll_renumber es n hn
  | .alt es, n, hn => by simp only [renumber, noSelfNest]; exact noSelfNestAll_renumber es n hn
  | .look e la, n, hn => by simp only [renumber, noSelfNest]; exact noSelfNest_renumber e n hn
  | .repeat e lo hi gr, n, hn => by simp only [renumber, noSelfNest]; exact noSelfNest_renumber e n hn
  | .atomic e, n, hn => by simp only [renumber, noSelfNest]; exact noSelfNest_renumber e n hn
  | .cond cnd y f, n, hn => by
    simp only [renumber, noSelfNest, Bool.and_eq_true]
    have r1 := renumber_snd cnd n
    have r2 := renumber_snd y (renumber cnd n).2
    exact ⟨⟨noSelfNest_renumber cnd n hn, noSelfNest_renumber y _ (by omega)⟩,
      noSelfNest_renumber f _ (by omega)⟩
  | .empty, _, _ | .any _, _, _ | .assertion _, _, _ | .literal _ _, _, _
  | .delegate _ _ _, _, _ | .contPrev, _, _ | .subroutine _, _, _ | .backref _, _, _
  | .backrefExists _, _, _ | .keepOut, _, _ => by simp [renumber, noSelfNest]
theorem noSelfNestAll_renumber : ∀ (es : List Expr) (n : Nat), 1 ≤ n → noSelfNestAll (renumberList es n).1 = true
  | [], _, _ => by simp [renumberList, noSelfNestAll]
  | e :: es, n, hn => by
    simp only [renumberList, noSelfNestAll, Bool.and_eq_true]
    have r1 := renumber_snd e n
    exact ⟨noSelfNest_renumber e n hn, noSelfNestAll_renumber es _ (by omega)⟩
end

/-- the user's expression of a built regex is the tree numbered from 1 (either engine path) -/
theorem c05_build_raw (tree : Expr) (backrefs : List Nat) (b : Built) (h : build tree backrefs = .ok b) :
    b.raw = (renumber tree 1).1 := by
  unfold build at h
  simp only at h
  cases hc : checkRefs (renumber (wrapTree tree) 0).1 0 with
  | error e => simp [hc] at h
  | ok n =>
    simp only [hc] at h
    have hshape : (renumber (wrapTree tree) 0).1 =
        .concat [.repeat (.any true) 0 none false, .group 0 (renumber tree 1).1] := by
      simp [wrapTree, renumber, renumberList]
    rw [hshape] at h
    simp only at h
    split at h
    · cases h; rfl
    · split at h
      · cases h
      · cases h; rfl

theorem build_noSelfNest (tree : Expr) (backrefs : List Nat) (b : Built) (h : build tree backrefs = .ok b) :
    noSelfNest b.raw = true := by
  rw [c05_build_raw tree backrefs b h]; exact noSelfNest_renumber tree 1 (Nat.le_refl _)

/-! ### what a search reports -/

/-- validity of a reported slot vector (`n` slots): every set offset is inside the text, every group
    with both ends set has `start ≤ end`, and the overall span satisfies
    `pos ≤ start ≤ end ≤ len` -/
structure SlotsValid (c : Ctx) (n : Nat) (slots : List (Option Nat)) : Prop where
  len : slots.length = n
  le_len : ∀ v, some v ∈ slots → v ≤ c.len
  pairs : ∀ g a b, slots[2 * g]? = some (some a) → slots[2 * g + 1]? = some (some b) → a ≤ b
  span : 1 < n → ∃ s e, slots[0]? = some (some s) ∧ slots[1]? = some (some e) ∧
    c.pos ≤ s ∧ s ≤ e ∧ e ≤ c.len

theorem c05_slot_eq_of_getElem? (st : St) (i a : Nat) (h : st.slots[i]? = some (some a)) : st.slot i = some a := by
  simp [St.slot, h]

/-- what `finish` makes of a result of the expression started at `start ∈ [pos, len]` -/
theorem finish_valid (c : Ctx) (e : Expr) (nG start : Nat) (r : St) (hn : noSelfNest e = true)
    (hps : c.pos ≤ start) (hsl : start ≤ c.len)
    (hr : r ∈ sem c e ⟨start, (initSlots nG).set 0 (some start)⟩) :
    SlotsValid c (2 * nG) (finish c r).slots := by
  have h0 : (⟨start, initSlots nG⟩ : St).Good c (2 * nG) :=
    ⟨hsl, by simp [initSlots], by intro v hv; simp [initSlots] at hv⟩
  have hg : r.Good c (2 * nG) := sem_good c _ e _ r (h0.setSlot 0 start hsl) hr
  have ha := sem_adv c e _ r hn hr
  have hix : start ≤ r.ix := ha.1
  have hrl := hg.ix
  have hl := hg.len
  -- the capped start
  have hs0 : ∀ s0, s0 = (if (if (r.slot 0).getD r.ix > r.ix then r.ix else (r.slot 0).getD r.ix) < c.pos then c.pos
        else (if (r.slot 0).getD r.ix > r.ix then r.ix else (r.slot 0).getD r.ix)) →
      c.pos ≤ s0 ∧ s0 ≤ r.ix := by
    intro s0 h
    subst h
    split <;> (try split) <;> omega
  simp only [finish]
  generalize hs0' : (if (if (r.slot 0).getD r.ix > r.ix then r.ix else (r.slot 0).getD r.ix) < c.pos then c.pos
        else (if (r.slot 0).getD r.ix > r.ix then r.ix else (r.slot 0).getD r.ix)) = s0
  obtain ⟨b1, b2⟩ := hs0 s0 hs0'.symm
  refine ⟨by simp [hl], ?_, ?_, ?_⟩
  · intro v hv
    rcases List.mem_or_eq_of_mem_set hv with hm | he
    · rcases List.mem_or_eq_of_mem_set hm with hm2 | he2
      · exact hg.vals v hm2
      · cases he2; omega
    · cases he; exact hrl
  · intro g a b ha' hb'
    by_cases hg0 : g = 0
    · subst hg0
      simp only [Nat.mul_zero, Nat.zero_add] at ha' hb'
      rw [List.getElem?_set_ne (by omega), List.getElem?_set] at ha'
      rw [List.getElem?_set] at hb'
      simp only [↓reduceIte, List.length_set] at ha' hb'
      split at ha'
      · split at hb'
        · cases ha'; cases hb'; exact b2
        · cases hb'
      · cases ha'
    · rw [List.getElem?_set_ne (by omega), List.getElem?_set_ne (by omega)] at ha' hb'
      have hp0 : PairOK ⟨start, (initSlots nG).set 0 (some start)⟩ g := by
        intro a' b' h1 _
        simp only [St.slot, initSlots] at h1
        rw [List.getElem?_set_ne (by omega)] at h1
        simp only [List.getElem?_replicate] at h1
        split at h1 <;> simp at h1
      exact ha.2 g (by omega) hp0 a b (c05_slot_eq_of_getElem? r _ a ha') (c05_slot_eq_of_getElem? r _ b hb')
  · intro h1
    refine ⟨s0, r.ix, ?_, ?_, b1, b2, hrl⟩
    · rw [List.getElem?_set_ne (by omega), List.getElem?_set_self (by omega)]
    · rw [List.getElem?_set_self (by simp; omega)]

theorem c05_scanFrom_some (c : Ctx) (e : Expr) (nG : Nat) : ∀ (n start : Nat) (f : Found),
    scanFrom c e nG n start = some f →
    ∃ k r, k < n ∧ r ∈ sem c e ⟨start + k, (initSlots nG).set 0 (some (start + k))⟩ ∧ f = finish c r := by
  intro n
  induction n with
  | zero => intro start f h; simp [scanFrom] at h
  | succ n ih =>
    intro start f h
    unfold scanFrom at h
    cases hh : (sem c e ⟨start, (initSlots nG).set 0 (some start)⟩).head? with
    | some r =>
      simp only [hh, Option.some.injEq] at h
      exact ⟨0, r, by omega, List.mem_of_mem_head? hh, h.symm⟩
    | none =>
      simp only [hh] at h
      obtain ⟨k, r, hk, hr, hf⟩ := ih (start + 1) f h
      refine ⟨k + 1, r, by omega, ?_, hf⟩
      have : start + 1 + k = start + (k + 1) := by omega
      rw [this] at hr; exact hr

/-- **the reference search reports valid offsets only**, for every not self-nested expression -/
theorem refSearch_valid (c : Ctx) (e : Expr) (nG : Nat) (hn : noSelfNest e = true) (f : Found)
    (h : refSearch c e nG = some f) : SlotsValid c (2 * nG) f.slots := by
  unfold refSearch at h
  split at h
  · rename_i hpos
    obtain ⟨k, r, hk, hr, rfl⟩ := c05_scanFrom_some c e nG _ _ f h
    exact finish_valid c e nG (c.pos + k) r hn (by omega) (by omega) hr
  · cases h

/-- **every reported offset is valid** (stage S2 programs, VM path): whenever a search of a pattern
    of the proved stage reports a match, the reported vector has the `2 * n_groups` capture slots,
    every reported slot is `≤` the text length, every reported group has `start ≤ end`, and the
    overall span satisfies `pos ≤ start ≤ end ≤ len`. (Offsets are character positions; the byte
    offsets of character positions are exactly the character boundaries: `C05_boundary_iff`.) -/
theorem C05_offsets_valid (tree : Expr) (backrefs : List Nat) (b : Built) (prog : Prog) (c : Ctx)
    (hb : build tree backrefs = .ok b) (hk : b.kind = .fancy prog)
    (hok : s2ok b.raw = true) (hnd : noDeleg prog.body = true)
    (hlen : c.len < UNSET) (hpos : c.pos ≤ c.len) (limit fuel : Nat) (slots : List (Option Nat))
    (hfound : (b.captures c limit fuel).1 = .found slots) :
    SlotsValid c (2 * b.nGroups) slots := by
  have h := C01_vm_correct_s2 tree backrefs b prog c hb hk hok hnd hlen hpos limit fuel
  rw [hfound] at h
  rcases h with h | h | h | h
  · cases h
  · cases h
  · cases h
  · cases href : refSearch c b.raw b.nGroups with
    | none => rw [href] at h; cases h
    | some f =>
      rw [href] at h
      simp only [SearchResult.found.injEq] at h
      subst h
      exact refSearch_valid c b.raw b.nGroups (build_noSelfNest tree backrefs b hb) f href

/-- the same on the Wrap path (whole pattern handed to the automata engine, modelled by the reference
    search: assumption A-RA) — for every pattern -/
theorem C05_offsets_valid_wrap (tree : Expr) (backrefs : List Nat) (b : Built) (c : Ctx)
    (hb : build tree backrefs = .ok b) (hk : b.kind = .wrap) (limit fuel : Nat)
    (slots : List (Option Nat)) (hfound : (b.captures c limit fuel).1 = .found slots) :
    SlotsValid c (2 * b.nGroups) slots := by
  unfold Built.captures at hfound
  simp only [hk, C01_refSearchK_eq] at hfound
  cases href : refSearch c b.raw b.nGroups with
  | none => rw [href] at hfound; cases hfound
  | some f =>
    rw [href] at hfound
    simp only [SearchResult.found.injEq] at hfound
    subst hfound
    exact refSearch_valid c b.raw b.nGroups (build_noSelfNest tree backrefs b hb) f href


/-! ### Part 3, concrete instances -/

/-- the hypothesis of `sem_adv` / `refSearch_valid` holds of a concrete tree -/
example : noSelfNest exTree2 = true := by
  simp [noSelfNest, noSelfNestAll, ownSlots, exTree2]

/-- why `sem_adv` needs `noSelfNest`: with a group nested inside a look-ahead inside a group of the
    SAME number — `(?<1>(?=x(?<1>a)))` on `xa` — the reference semantics yields the pair `(1, 0)`.
    `renumber` never produces such a tree (`noSelfNest_renumber`). -/
def c05Ctx : Ctx := ⟨['x', 'a'], 0, false, fun _ => false, fun _ _ _ => false, fun _ a b => a == b⟩

example : sem c05Ctx (.group 1 (.look (.concat [.literal ['x'] false, .group 1 (.literal ['a'] false)]) .ahead))
    ⟨0, [none, none, none, none]⟩ = [⟨0, [none, none, some 1, some 0]⟩] := by
  simp [sem, semConcat, Ctx.litAt, Ctx.at?, firstOnly, St.setSlot, c05Ctx]

/-- shape of a successful stage-S2 check (the decidable side conditions the driver evaluates) -/
theorem s2AndNoDeleg_spec (tree : Expr) (backrefs : List Nat) (h : s2AndNoDeleg tree backrefs = true) :
    ∃ b prog, build tree backrefs = .ok b ∧ b.kind = .fancy prog ∧ s2ok b.raw = true ∧
      noDeleg prog.body = true := by
  unfold s2AndNoDeleg at h
  cases hb : build tree backrefs with
  | error e => simp [hb] at h
  | ok b =>
    simp only [hb] at h
    cases hk : b.kind with
    | wrap => simp [hk] at h
    | fancy prog =>
      simp only [hk, Bool.and_eq_true] at h
      exact ⟨b, prog, rfl, hk, h.1, h.2⟩

/-- `C05_compiled_no_panic` and `C05_offsets_valid` in the form the driver checks per pattern -/
theorem C05_checked (tree : Expr) (backrefs : List Nat) (h : s2AndNoDeleg tree backrefs = true) (c : Ctx)
    (hlen : c.len < UNSET) (hpos : c.pos ≤ c.len) (limit fuel : Nat) :
    ∃ b, build tree backrefs = .ok b ∧ (∀ site, (b.captures c limit fuel).1 ≠ .panic site) ∧
      ∀ slots, (b.captures c limit fuel).1 = .found slots → SlotsValid c (2 * b.nGroups) slots := by
  obtain ⟨b, prog, hb, hk, hok, hnd⟩ := s2AndNoDeleg_spec tree backrefs h
  exact ⟨b, hb, fun site => (C05_compiled_no_panic tree backrefs b prog c hb hk hok hnd hlen hpos limit fuel site).1,
    fun slots hf => C05_offsets_valid tree backrefs b prog c hb hk hok hnd hlen hpos limit fuel slots hf⟩

set_option linter.unusedSimpArgs false in
/-- non-vacuity: `(a)(?>\1|b)(?=c)` (group, atomic group over a hard alternation, look-ahead) -/
example (c : Ctx) (hlen : c.len < UNSET) (hpos : c.pos ≤ c.len) (limit fuel : Nat) :
    ∃ b, build exTree2 [1] = .ok b ∧ (∀ site, (b.captures c limit fuel).1 ≠ .panic site) ∧
      ∀ slots, (b.captures c limit fuel).1 = .found slots → SlotsValid c (2 * b.nGroups) slots :=
  C05_checked exTree2 [1] (by
    simp [s2AndNoDeleg, build, exTree2, wrapTree, renumber, renumberList, checkRefs, checkRefsList, isHard, isHardAny,
      compile, visit, visitMiddle, visitAlt, concatSplit, groupCount, groupCountList, constSize, constSizeAll, minSize, minSizeMin,
      allMinSize, compileDelegates, compileDelegate, isLiteral, isLiteralAll, s2ok, s2okAll, condFree, condFreeAll, noDeleg,
      Insn.isDelegate, boundsEq, satMul, sureReps, UNSET, Assertion.isHard, wrapPosLook, posLookBodyPc, pushLiteral])
    c hlen hpos limit fuel

end Fancy
