import FancyModel.Lemmas.SimTop
/-!
# C01 / C02 — compiler correctness for the interpreted core (engine refinement, stage S1)

`C01_vm_correct_core`: for every pattern whose tree lies in the interpreted core (`isCore`:
literals, `.`, assertions, `\K`, `\G`, back-references, concatenation, alternation, capture groups,
`?`, and `*`/`+` over bodies that cannot match empty — greedy or lazy) and whose compiled program
contains no `Delegate` instruction, for every text and every start offset, the VM run of the
compiled wrapped tree returns **exactly** the reference search result — same match / no match, same
span, same value for every capture group — unless it stops for one of the three resource reasons
(model fuel, backtrack limit, branch-stack cap).

The chain, all machine-checked, no bound on pattern, text or offset:

    runLoop (undo-log State)  ──link──▶  Big (whole-copy machine)  ──sim_visit──▶  sem (reference, ordered list of results)
                                                                              ──sem_wrapped_head / scanFrom_findSome──▶  refSearch

`VmCorrectR` is the statement; it differs from `VmCorrect` of `Proofs/C01.lean` only in naming the
third resource stop (`StackOverflow`), which `VmCorrect` forgot.
-/
namespace Fancy

/-- the model's search equals the reference search, up to the three resource stops -/
def VmCorrectR (b : Built) (c : Ctx) : Prop :=
  ∀ limit fuel,
    (b.captures c limit fuel).1 = .outOfFuel ∨ (b.captures c limit fuel).1 = .errStack ∨
    (b.captures c limit fuel).1 = .errLimit ∨
    (b.captures c limit fuel).1 =
      match refSearch c b.raw b.nGroups with
      | some f => .found f.slots
      | none => .noMatch

theorem concatSplit_wrapped (br : Nat → Bool) (raw : Expr) (g : Nat) (h : isHard br (.group g raw) = true) :
    concatSplit br [.repeat (.any true) 0 none false, .group g raw] false = (0, 2) := by
  have h' : (isHard br raw || br g) = true := by simpa [isHard] using h
  simp [concatSplit, constSize, boundsEq, UNSET, isHard, h']

/-- shape of `build`: what a successful build on the VM path consists of -/
theorem build_fancy (tree : Expr) (backrefs : List Nat) (b : Built) (prog : Prog)
    (h : build tree backrefs = .ok b) (hk : b.kind = .fancy prog) :
    b.wrapped = .concat [.repeat (.any true) 0 none false, .group 0 b.raw] ∧
    b.wrapped = (renumber (wrapTree tree) 0).1 ∧
    checkRefs b.wrapped 0 = .ok b.nGroups ∧ isHard (fun g => backrefs.contains g) b.raw = true ∧
    compile (fun g => backrefs.contains g) b.wrapped = .ok prog := by
  unfold build at h
  simp only at h
  generalize (fun g => backrefs.contains g) = br at h ⊢
  cases hc : checkRefs (renumber (wrapTree tree) 0).1 0 with
  | error e => simp [hc] at h
  | ok n =>
    simp only [hc] at h
    have hshape : (renumber (wrapTree tree) 0).1 =
        .concat [.repeat (.any true) 0 none false, .group 0 (renumber tree 1).1] := by
      simp [wrapTree, renumber, renumberList]
    rw [hshape] at h hc
    simp only at h
    split at h
    · cases h; simp at hk
    · rename_i hh
      cases hcomp : compile br
          (.concat [.repeat (.any true) 0 none false, .group 0 (renumber tree 1).1]) with
      | error e => simp [hcomp] at h
      | ok p =>
        simp only [hcomp, Except.ok.injEq] at h
        subst h
        simp only [Kind.fancy.injEq] at hk
        subst hk
        refine ⟨rfl, hshape.symm, hc, ?_, hcomp⟩
        simpa using hh

theorem C01_vm_correct_core (tree : Expr) (backrefs : List Nat) (b : Built) (prog : Prog) (c : Ctx)
    (hb : build tree backrefs = .ok b) (hk : b.kind = .fancy prog)
    (hcore : isCore b.raw = true) (hnd : noDeleg prog.body = true)
    (hlen : c.len < UNSET) (hpos : c.pos ≤ c.len) : VmCorrectR b c := by
  obtain ⟨hw, hwr, hchk, hhard, hcomp⟩ := build_fancy tree backrefs b prog hb hk
  intro limit fuel
  generalize (fun g => backrefs.contains g) = br at hhard hcomp
  -- the compiled program
  unfold compile at hcomp
  rw [hw] at hcomp hchk
  have hgc : groupCount (Expr.concat [.repeat (.any true) 0 none false, .group 0 b.raw]) = b.nGroups := by
    have := checkRefs_count _ _ _ hchk; omega
  simp only [hgc] at hcomp
  cases hv : visit br (Expr.concat [.repeat (.any true) 0 none false, .group 0 b.raw]) false 0 (b.nGroups * 2) 0 with
  | error e => simp [hv] at hcomp
  | ok p =>
    obtain ⟨code, nsv⟩ := p
    simp only [hv, Except.ok.injEq] at hcomp
    subst hcomp
    -- open the top-level `visit` (non-hard context, hard expression: the concat case)
    have hgh : isHard br (.group 0 b.raw) = true := by simp [isHard, hhard]
    have hwh : isHard br (Expr.concat [.repeat (.any true) 0 none false, .group 0 b.raw]) = true := by
      simp [isHard, isHardAny, hhard]
    rw [visit] at hv
    simp only [hwh, Bool.not_true, Bool.and_false, Bool.false_eq_true, ↓reduceIte, concatSplit_wrapped br b.raw 0 hgh,
      List.take_zero, compileDelegates, List.isEmpty_nil, List.length_nil, Nat.add_zero, groupCountList,
      List.drop_length, Nat.sub_zero] at hv
    cases hm : visitMiddle br [.repeat (.any true) 0 none false, .group 0 b.raw] 0 2 0 (b.nGroups * 2) 0 with
    | error e => simp [hm] at hv
    | ok pm =>
      obtain ⟨mid, nsv1⟩ := pm
      simp only [hm] at hv
      have hdrop : List.drop 2 [Expr.repeat (.any true) 0 none false, .group 0 b.raw] = [] := rfl
      simp only [hdrop, List.isEmpty_nil, ↓reduceIte, List.append_nil, List.nil_append, Except.ok.injEq,
        Prod.mk.injEq] at hv
      obtain ⟨rfl, rfl⟩ := hv
      -- the simulation for the two children
      have hn0 : 0 < b.nGroups := by
        simp only [groupCount, groupCountList] at hgc; omega
      have hcoreAll : isCoreAll [.repeat (.any true) 0 none false, .group 0 b.raw] = true := by
        simp [isCoreAll, isCore, hcore, minSize]
      have hsb : slotsBelowAll (2 * b.nGroups) [.repeat (.any true) 0 none false, .group 0 b.raw] = true := by
        have := slotsBelow_renumber b.nGroups hn0 (wrapTree tree) 0 b.nGroups (by rw [← hwr, hw]; exact hchk)
          (Nat.le_refl _)
        rw [← hwr, hw] at this
        simpa [slotsBelow] using this
      have hndm : noDeleg mid = true := by
        simp only [noDeleg_append, Bool.and_eq_true] at hnd; exact hnd.1
      have hcode : CodeAt (mid ++ [Insn.end_]) 0 mid := ⟨[], [Insn.end_], by simp, rfl⟩
      have hsim := sim_visitMiddle c (2 * b.nGroups) br hlen _ 0 2 0 (b.nGroups * 2) 0 mid nsv1 (mid ++ [Insn.end_])
        hcoreAll hsb hm hndm hcode
      simp only [List.drop_zero, List.take, Nat.zero_add] at hsim
      -- run it from the initial configuration
      have hst0 : (⟨c.pos, initSlots b.nGroups⟩ : St).Good c (2 * b.nGroups) :=
        ⟨hpos, by simp [initSlots], by intro v hv; simp [initSlots] at hv⟩
      have hend : (mid ++ [Insn.end_])[mid.length]? = some Insn.end_ := by simp
      have hbig := hsim ⟨c.pos, initSlots b.nGroups⟩ []
        (fun r _ => .matched (capSaves (unview r.slots) c.pos)) .noMatch hst0 Big.failEmpty
        (by
          intro r hr S acc _
          have hrg := semConcat_good c _ _ _ r hst0 hr
          exact Big.done _ _ _ _ hend (by simp [hrg.len]; omega))
      have huv : unview (initSlots b.nGroups) = List.replicate (b.nGroups * 2) UNSET := by
        simp [unview, initSlots, Nat.mul_comm]
      simp only [huv, List.append_nil] at hbig
      -- no auxiliary slots in a core program: `nsv = 2 * n_groups`
      have hnsv : nsv1 = b.nGroups * 2 := visitMiddle_core_nsv br _ 0 2 0 (b.nGroups * 2) 0 mid nsv1 hcoreAll hm
      subst hnsv
      have hgood := link_initial c ⟨mid ++ [Insn.end_], b.nGroups * 2⟩ ⟨limit, maxStackDefault⟩ _ hbig fuel
      -- the reference side
      have hsemc : semConcat c [.repeat (.any true) 0 none false, .group 0 b.raw] ⟨c.pos, initSlots b.nGroups⟩ =
          sem c (.concat [.repeat (.any true) 0 none false, .group 0 b.raw]) ⟨c.pos, initSlots b.nGroups⟩ := by
        simp only [sem]
      have hhead := sem_wrapped_head c b.raw b.nGroups hpos
      rw [← hsemc] at hhead
      have href : refSearch c b.raw b.nGroups =
          (List.range (c.len - c.pos + 1)).findSome? fun k =>
            ((sem c b.raw ⟨c.pos + k, (initSlots b.nGroups).set 0 (some (c.pos + k))⟩).head?).map (finish c) := by
        unfold refSearch
        simp only [hpos, ↓reduceIte]
        exact scanFrom_findSome c b.raw b.nGroups _ _
      -- fold over the ordered results = look at the first one
      have hfold : ∀ (l : List St), l.foldr (fun r (_ : Ans) => Ans.matched (capSaves (unview r.slots) c.pos)) .noMatch =
          match l.head? with
          | some r => .matched (capSaves (unview r.slots) c.pos)
          | none => .noMatch := by
        intro l; cases l <;> rfl
      rw [hfold, hhead] at hgood
      unfold Built.captures
      simp only [hk]
      unfold Good at hgood
      generalize run c ⟨mid ++ [Insn.end_], b.nGroups * 2⟩ ⟨limit, maxStackDefault⟩ fuel = res at hgood ⊢
      obtain ⟨out, stats⟩ := res
      simp only at hgood
      rcases hgood with h | h | h | h
      · left; subst h; rfl
      · right; left; subst h; rfl
      · right; right; left; subst h; rfl
      · right; right; right
        rw [href]
        subst h
        -- both sides scan the same start positions
        have hks : ∀ k ∈ List.range (c.len - c.pos + 1), c.pos + k ≤ c.len := by
          intro k hk'; have := List.mem_range.mp hk'; omega
        generalize (List.range (c.len - c.pos + 1)) = ks at hks
        induction ks with
        | nil => simp [Ans.toOutcome]
        | cons k ks ih =>
          simp only [List.findSome?_cons]
          cases hh : (sem c b.raw ⟨c.pos + k, (initSlots b.nGroups).set 0 (some (c.pos + k))⟩).head? with
          | none => simpa using ih (fun k' hk' => hks k' (List.mem_cons_of_mem _ hk'))
          | some r =>
            simp only [Option.map_some, Ans.toOutcome]
            have hrg : r.Good c (b.nGroups * 2) := by
              have hmem : r ∈ sem c b.raw ⟨c.pos + k, (initSlots b.nGroups).set 0 (some (c.pos + k))⟩ :=
                List.mem_of_mem_head? hh
              have hk' := hks k (by simp)
              refine sem_good c _ b.raw _ r ?_ hmem
              have h0 : (⟨c.pos + k, initSlots b.nGroups⟩ : St).Good c (b.nGroups * 2) :=
                ⟨hk', by simp [initSlots, Nat.mul_comm], by intro v hv; simp [initSlots] at hv⟩
              exact h0.setSlot 0 (c.pos + k) hk'
            have := finish_eq c r (b.nGroups * 2) hrg (by omega) hlen hpos
            simp only [this]

end Fancy

namespace Fancy

/-- and conversely: no match is reported only if the reference has none -/
theorem C01_no_match_core (tree : Expr) (backrefs : List Nat) (b : Built) (prog : Prog) (c : Ctx)
    (hb : build tree backrefs = .ok b) (hk : b.kind = .fancy prog)
    (hcore : isCore b.raw = true) (hnd : noDeleg prog.body = true)
    (hlen : c.len < UNSET) (hpos : c.pos ≤ c.len) (limit fuel : Nat)
    (hnone : (b.captures c limit fuel).1 = .noMatch) :
    refSearch c b.raw b.nGroups = none := by
  have h := C01_vm_correct_core tree backrefs b prog c hb hk hcore hnd hlen hpos limit fuel
  rw [hnone] at h
  rcases h with h | h | h | h
  · cases h
  · cases h
  · cases h
  · cases href : refSearch c b.raw b.nGroups with
    | none => rfl
    | some f => simp [href] at h

/-! ### Non-vacuity: `(a|b)+\1` is built for the VM, lies in the core, and compiles without `Delegate` -/
def exTree : Expr :=
  .concat [.repeat (.group 0 (.alt [.literal ['a'] false, .literal ['b'] false])) 1 none true, .backref 1]

def coreAndNoDeleg (tree : Expr) (backrefs : List Nat) : Bool :=
  match build tree backrefs with
  | .ok b => (match b.kind with
    | .fancy prog => isCore b.raw && noDeleg prog.body
    | .wrap => false)
  | .error _ => false


set_option linter.unusedSimpArgs false in
example : coreAndNoDeleg exTree [1] = true := by
  simp [coreAndNoDeleg, build, exTree, wrapTree, renumber, renumberList, checkRefs, checkRefsList, isHard, isHardAny,
    compile, visit, visitMiddle, visitAlt, concatSplit, groupCount, groupCountList, constSize, constSizeAll, minSize, minSizeMin,
    allMinSize, compileDelegates, compileDelegate, isLiteral, isLiteralAll, isCore, isCoreAll, noDeleg, Insn.isDelegate,
    boundsEq, satMul, sureReps, UNSET, Assertion.isHard]

end Fancy
