import FancyModel.Proofs.C01d
/-!
# C02 — capture groups of compiled programs, delegation included (engine refinement, stage S3)
-/
namespace Fancy

theorem C02_groups_s3 (tree : Expr) (backrefs : List Nat) (b : Built) (prog : Prog) (c : Ctx)
    (hb : build tree backrefs = .ok b) (hk : b.kind = .fancy prog)
    (hok : s3ok (fun g => backrefs.contains g) b.raw true = true) (hws : wellShaped b.raw = true)
    (hz : noBareEndZ b.raw = true) (hdok : progDelegOK prog.nSaves prog.body = true)
    (hlen : c.len < UNSET) (hpos : c.pos ≤ c.len) (limit fuel : Nat) (slots : List (Option Nat))
    (hfound : (b.captures c limit fuel).1 = .found slots) :
    ∃ f, refSearch c b.raw b.nGroups = some f ∧ ∀ i : Nat, slots[i]? = f.slots[i]? := by
  have h := C01_vm_correct_s3 tree backrefs b prog c hb hk hok hws hz hdok hlen hpos limit fuel
  rw [hfound] at h
  rcases h with h | h | h | h
  · cases h
  · cases h
  · cases h
  · cases href : refSearch c b.raw b.nGroups with
    | none => simp [href] at h
    | some f =>
      simp only [href, SearchResult.found.injEq] at h
      exact ⟨f, rfl, fun i => by rw [h]⟩

end Fancy
