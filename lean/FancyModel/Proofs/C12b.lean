import FancyModel.Proofs.C12
/-!
# C12b — the documented `$`-syntax, token by token

`specSteps` below is a tokenizer written from the DOCUMENTATION of `Expander` (src/expand.rs doc
comments and the `Captures::expand` docs), not from the code: it never counts a `skip`, has no fuel,
and reads every token by splitting the text after the substitution character into
"open delimiter ++ longest identifier ++ close delimiter ++ rest" (`stripPrefix`, `takeWhile`,
`dropWhile`). `C12_steps_eq_spec` shows that the mirror of `Expander::exec` produces exactly the
same steps for EVERY expander (hence for `Expander::default()` and `Expander::python()`), every
identifier predicate and every template; no normalisation of adjacent literal steps is needed,
because both sides emit one `Step.char` per literal character.
-/
namespace Fancy.Expand

/-! ## 1. The specification-level tokenizer -/

/-- `stripPrefix p s = some r` iff `s = p ++ r` (see `stripPrefix_eq_some`) -/
def stripPrefix : List Char → List Char → Option (List Char)
  | [], s => some s
  | _ :: _, [] => none
  | p :: ps, c :: cs => if p = c then stripPrefix ps cs else none

/-- a delimited reference `open name close` at the head of `s`, where `name` is the LONGEST run of
    identifier characters after `open` and is not empty: `(name, rest)` -/
def refAt (isId : Char → Bool) (o k s : List Char) : Option (List Char × List Char) :=
  match stripPrefix o s with
  | none => none
  | some body =>
    if body.takeWhile isId = [] then none else
    match stripPrefix k (body.dropWhile isId) with
    | none => none
    | some rest => some (body.takeWhile isId, rest)

/-- `${name}` / `\g<name>` -/
def bracedRef (isId : Char → Bool) (x : Expander) (s : List Char) : Option (List Char × List Char) :=
  refAt isId x.openD x.closeD s

/-- `$name`: the longest (non-empty) run of identifier characters -/
def bareRef (isId : Char → Bool) (s : List Char) : Option (List Char × List Char) :=
  if s.takeWhile isId = [] then none else some (s.takeWhile isId, s.dropWhile isId)

/-- `\N`: the longest (non-empty) run of digits, if its value is a `usize`: `(N, rest)` -/
def numRef (s : List Char) : Option (Nat × List Char) :=
  if s.takeWhile isDigit = [] ∨ digitsVal (s.takeWhile isDigit) > UNSET then none
  else some (digitsVal (s.takeWhile isDigit), s.dropWhile isDigit)

/-- the token that starts with the substitution character, given the text `tail` after it:
    the steps it stands for and the text after the token -/
def specRef (isId : Char → Bool) (x : Expander) (tail : List Char) : List Step × List Char :=
  match tail with
  | [] => ([.error, .char x.subChar], [])                    -- a lone `$` at the end: copied
  | d :: rest =>
    if d = x.subChar then ([.char x.subChar], rest)           -- `$$`
    else match bracedRef isId x tail with
      | some (name, rest') => ([.groupName name], rest')      -- `${name}`
      | none =>
        match (if x.allowUndelimited then bareRef isId tail else none) with
        | some (name, rest') => ([.groupName name], rest')    -- `$name`
        | none =>
          match numRef tail with
          | some (n, rest') => ([.groupNum n], rest')         -- `\N`
          | none => ([.error, .char x.subChar], tail)          -- not a reference: `$` copied

theorem stripPrefix_eq_some {p s r : List Char} : stripPrefix p s = some r ↔ s = p ++ r := by
  induction p generalizing s with
  | nil => simp [stripPrefix, eq_comm]
  | cons a as ih =>
    cases s with
    | nil => simp [stripPrefix]
    | cons c cs =>
      simp only [stripPrefix]
      by_cases hac : a = c
      · subst hac; simp [ih]
      · simp only [hac, ↓reduceIte, List.cons_append, List.cons.injEq]
        constructor
        · intro h; cases h
        · intro h; exact absurd h.1.symm hac

theorem stripPrefix_append (p r : List Char) : stripPrefix p (p ++ r) = some r :=
  stripPrefix_eq_some.mpr rfl

theorem stripPrefix_model (p s : List Char) :
    stripPrefix p s = if p.isPrefixOf s then some (s.drop p.length) else none := by
  induction p generalizing s with
  | nil => simp [stripPrefix]
  | cons a as ih =>
    cases s with
    | nil => simp [stripPrefix]
    | cons c cs =>
      simp only [stripPrefix, List.isPrefixOf, List.length_cons, List.drop_succ_cons]
      by_cases hac : a = c
      · subst hac; simp [ih]
      · simp [hac]

theorem stripPrefix_length {p s r : List Char} (h : stripPrefix p s = some r) :
    r.length + p.length = s.length := by
  rw [stripPrefix_eq_some] at h; subst h; simp; omega

theorem drop_length_takeWhile (p : Char → Bool) (s : List Char) :
    s.drop (s.takeWhile p).length = s.dropWhile p := by
  induction s with
  | nil => rfl
  | cons c cs ih =>
    by_cases hc : p c = true
    · simp [hc, ih]
    · simp [hc]

theorem length_dropWhile_le (p : Char → Bool) (s : List Char) :
    (s.dropWhile p).length ≤ s.length := by
  induction s with
  | nil => simp
  | cons c cs ih =>
    by_cases hc : p c = true
    · simp only [List.dropWhile_cons, hc, ↓reduceIte, List.length_cons]; omega
    · simp [hc]

theorem refAt_length {isId : Char → Bool} {o k s name rest : List Char}
    (h : refAt isId o k s = some (name, rest)) : rest.length ≤ s.length := by
  unfold refAt at h
  split at h
  · cases h
  · rename_i body hb
    split at h
    · cases h
    · split at h
      · cases h
      · rename_i r hr
        cases h
        have h1 := stripPrefix_length hb
        have h2 := stripPrefix_length hr
        have h3 := length_dropWhile_le isId body
        omega

theorem specRef_length (isId : Char → Bool) (x : Expander) (tail : List Char) :
    (specRef isId x tail).2.length ≤ tail.length := by
  unfold specRef
  split
  · simp
  · rename_i d rest
    split
    · simp
    · split
      · rename_i name rest' h
        exact refAt_length h
      · split
        · rename_i name rest' h
          split at h
          · unfold bareRef at h
            split at h
            · cases h
            · cases h; exact length_dropWhile_le _ _
          · cases h
        · split
          · rename_i n rest' h
            unfold numRef at h
            split at h
            · cases h
            · cases h; exact length_dropWhile_le _ _
          · exact Nat.le_refl _

/-- **the documented interpretation of a template**: literal characters are copied one by one, and
    the substitution character starts a token read by `specRef` -/
def specSteps (isId : Char → Bool) (x : Expander) : List Char → List Step
  | [] => []
  | c :: tail =>
    if c = x.subChar then
      (specRef isId x tail).1 ++ specSteps isId x (specRef isId x tail).2
    else .char c :: specSteps isId x tail
termination_by t => t.length
decreasing_by
  · have := specRef_length isId x tail
    simp only [List.length_cons]; omega
  · simp

/-! ## 2. The code's scanners compute the documented tokens -/

theorem idCharsOf_false (isId : Char → Bool) (body : List Char) :
    idCharsOf isId body false = body.takeWhile isId := by
  simp [idCharsOf]

theorem closeOk_eq (k after : List Char) : closeOk k after = k.isPrefixOf after := by
  cases after with
  | nil => cases k <;> simp [closeOk]
  | cons a as => simp [closeOk]

/-- `parse_id(s, open, close, false)` finds the documented delimited reference, and `&s[skip..]`
    is the text after it -/
theorem parseId_spec (isId : Char → Bool) (s o k : List Char) :
    (parseId isId s o k false).map (fun p => (p.1, s.drop p.2)) = refAt isId o k s := by
  unfold parseId refAt
  simp only [idCharsOf_false, closeOk_eq, drop_length_takeWhile, stripPrefix_model]
  by_cases hpre : o.isPrefixOf s = true
  · simp only [hpre, Bool.not_true, Bool.false_eq_true, ↓reduceIte]
    by_cases hne : (s.drop o.length).takeWhile isId = []
    · simp [hne]
    · by_cases hk : k.isPrefixOf ((s.drop o.length).dropWhile isId) = true
      · have hne' : ((s.drop o.length).takeWhile isId).isEmpty = false := by
          simpa [List.isEmpty_iff] using hne
        simp only [hk, hne, hne', Bool.not_true, Bool.or_self, Bool.false_eq_true,
          ↓reduceIte, Option.map_some, Option.some.injEq, Prod.mk.injEq, true_and]
        rw [← drop_length_takeWhile, List.drop_drop, List.drop_drop, Nat.add_assoc]
      · simp [hk, hne]
  · simp [hpre]

theorem parseId_bare (isId : Char → Bool) (s : List Char) :
    (parseId isId s [] [] false).map (fun p => (p.1, s.drop p.2)) = bareRef isId s := by
  rw [parseId_spec]
  unfold refAt bareRef
  simp [stripPrefix]

theorem parseDecimal_spec (s : List Char) :
    (parseDecimal s).map (fun p => (p.2, s.drop p.1)) = numRef s := by
  unfold parseDecimal numRef
  by_cases hne : s.takeWhile isDigit = []
  · simp [hne]
  · by_cases hov : digitsVal (s.takeWhile isDigit) > UNSET
    · simp [hne, hov]
    · simp [hne, hov, drop_length_takeWhile]

/-- one iteration of the `while let` loop of `Expander::exec`, for any fuel -/
theorem exec_succ_cons (isId : Char → Bool) (x : Expander) (fuel : Nat) (c : Char) (tail : List Char) :
    exec isId x (fuel + 1) (c :: tail) =
      if c = x.subChar then (specRef isId x tail).1 ++ exec isId x fuel (specRef isId x tail).2
      else .char c :: exec isId x fuel tail := by
  by_cases hc : c = x.subChar
  · subst hc
    cases tail with
    | nil => cases fuel <;> simp [exec, specRef]
    | cons d rest =>
      by_cases hd : d = x.subChar
      · subst hd; simp [exec, specRef]
      · have hb := parseId_spec isId (d :: rest) x.openD x.closeD
        have hu := parseId_bare isId (d :: rest)
        have hn := parseDecimal_spec (d :: rest)
        simp only [exec, beq_self_eq_true, ↓reduceIte, beq_iff_eq, hd, specRef, bracedRef]
        rw [← hb]
        cases hpb : parseId isId (d :: rest) x.openD x.closeD false with
        | some p => simp
        | none =>
          simp only [Option.orElse_none, Option.map_none]
          cases hal : x.allowUndelimited with
          | true =>
            simp only [↓reduceIte]
            rw [← hu]
            cases hpu : parseId isId (d :: rest) [] [] false with
            | some p => simp
            | none =>
              simp only [Option.map_none]
              rw [← hn]
              cases parseDecimal (d :: rest) with
              | some p => simp
              | none => simp
          | false =>
            simp only [Bool.false_eq_true, ↓reduceIte]
            rw [← hn]
            cases parseDecimal (d :: rest) with
            | some p => simp
            | none => simp
  · have hne : (c == x.subChar) = false := by simpa using hc
    simp [exec, hne, hc]

/-- with enough fuel the loop is the documented tokenizer -/
theorem exec_eq_spec (isId : Char → Bool) (x : Expander) (fuel : Nat) (t : List Char)
    (hf : t.length ≤ fuel) : exec isId x fuel t = specSteps isId x t := by
  induction fuel generalizing t with
  | zero =>
    have : t = [] := by cases t with
      | nil => rfl
      | cons _ _ => simp at hf
    subst this; simp [exec, specSteps]
  | succ fuel ih =>
    cases t with
    | nil => simp [exec, specSteps]
    | cons c tail =>
      rw [exec_succ_cons, specSteps]
      simp only [List.length_cons] at hf
      split
      · rw [ih]
        have := specRef_length isId x tail
        omega
      · rw [ih]; omega

/-- **C12 at full strength: expansion equals the documented interpretation.** The steps that
    `Expander::exec` hands to its callback are exactly the documented tokens, for every expander,
    identifier predicate and template (step lists are EQUAL, no normalisation needed). -/
theorem C12_steps_eq_spec (isId : Char → Bool) (x : Expander) (t : List Char) :
    steps isId x t = specSteps isId x t :=
  exec_eq_spec isId x _ t (Nat.le_succ _)

theorem C12_expansion_eq_spec (isId : Char → Bool) (x : Expander) (t : List Char) (caps : Caps) :
    expansion isId x t caps = (specSteps isId x t).flatMap (stepOut caps) := by
  rw [expansion, C12_steps_eq_spec]

theorem C12_check_eq_spec (isId : Char → Bool) (x : Expander) (t : List Char) (r : RegexInfo) :
    check isId x t r = checkSteps r (specSteps isId x t) := by
  rw [check, C12_steps_eq_spec]

/-! ## 3. The documented token forms, one by one -/

section Tokens
variable (isId : Char → Bool) (x : Expander)

theorem specSteps_cons (c : Char) (tail : List Char) :
    specSteps isId x (c :: tail) =
      if c = x.subChar then (specRef isId x tail).1 ++ specSteps isId x (specRef isId x tail).2
      else .char c :: specSteps isId x tail := by
  rw [specSteps]

/-- **anything else is copied verbatim**: a character other than the substitution character -/
theorem C12_literal (c : Char) (t : List Char) (h : c ≠ x.subChar) :
    steps isId x (c :: t) = .char c :: steps isId x t := by
  rw [C12_steps_eq_spec, C12_steps_eq_spec, specSteps_cons, if_neg h]

theorem steps_sub (tail : List Char) :
    steps isId x (x.subChar :: tail) =
      (specRef isId x tail).1 ++ steps isId x (specRef isId x tail).2 := by
  rw [C12_steps_eq_spec, C12_steps_eq_spec, specSteps_cons, if_pos rfl]

theorem steps_nil : steps isId x [] = [] := by simp [steps, exec]

theorem expansion_of_steps {t t' : List Char} {pre : List Step}
    (h : steps isId x t = pre ++ steps isId x t') (caps : Caps) :
    expansion isId x t caps = pre.flatMap (stepOut caps) ++ expansion isId x t' caps := by
  simp [expansion, h]

/-- a run `a` of characters satisfying `p`, followed by text that does not continue it, is exactly
    the longest `p`-prefix -/
theorem run_split (p : Char → Bool) (a b : List Char) (ha : ∀ c ∈ a, p c = true)
    (hb : ∀ c, b.head? = some c → p c = false) :
    (a ++ b).takeWhile p = a ∧ (a ++ b).dropWhile p = b := by
  induction a with
  | nil =>
    cases b with
    | nil => simp
    | cons c cs =>
      have := hb c rfl
      simp [this]
  | cons c cs ih =>
    have hc : p c = true := ha c (by simp)
    have := ih (fun d hd => ha d (by simp [hd]))
    simp [hc, this.1, this.2]

theorem takeWhile_eq_nil_of_head (p : Char → Bool) (s : List Char)
    (h : ∀ c, s.head? = some c → p c = false) : s.takeWhile p = [] := by
  cases s with
  | nil => rfl
  | cons c cs => simp [h c rfl]

/-- what is after the substitution character is not a reference: not a second substitution
    character, not `open name close`, not a bare name (if those are allowed), not a number -/
def NotRef (tail : List Char) : Prop :=
  tail.head? ≠ some x.subChar ∧ bracedRef isId x tail = none ∧
    (x.allowUndelimited = true → bareRef isId tail = none) ∧ numRef tail = none

theorem specRef_esc (t : List Char) :
    specRef isId x (x.subChar :: t) = ([.char x.subChar], t) := by
  simp [specRef]

theorem specRef_braced {d : Char} {rest name r : List Char} (hd : d ≠ x.subChar)
    (hb : bracedRef isId x (d :: rest) = some (name, r)) :
    specRef isId x (d :: rest) = ([.groupName name], r) := by
  simp [specRef, hd, hb]

theorem specRef_bare {d : Char} {rest name r : List Char} (hd : d ≠ x.subChar)
    (hb : bracedRef isId x (d :: rest) = none) (hal : x.allowUndelimited = true)
    (hu : bareRef isId (d :: rest) = some (name, r)) :
    specRef isId x (d :: rest) = ([.groupName name], r) := by
  simp [specRef, hd, hb, hal, hu]

theorem specRef_num {d : Char} {rest r : List Char} {n : Nat} (hd : d ≠ x.subChar)
    (hb : bracedRef isId x (d :: rest) = none)
    (hu : x.allowUndelimited = true → bareRef isId (d :: rest) = none)
    (hn : numRef (d :: rest) = some (n, r)) :
    specRef isId x (d :: rest) = ([.groupNum n], r) := by
  cases hal : x.allowUndelimited with
  | true => simp [specRef, hd, hb, hal, hu hal, hn]
  | false => simp [specRef, hd, hb, hal, hn]

theorem specRef_bad {tail : List Char} (h : NotRef isId x tail) :
    specRef isId x tail = ([.error, .char x.subChar], tail) := by
  obtain ⟨h1, h2, h3, h4⟩ := h
  cases tail with
  | nil => simp [specRef]
  | cons d rest =>
    have hd : d ≠ x.subChar := by
      intro hd; apply h1; simp [hd]
    cases hal : x.allowUndelimited with
    | true => simp [specRef, hd, h2, hal, h3 hal, h4]
    | false => simp [specRef, hd, h2, hal, h4]

/-- `$$` is a literal `$` (any expander), anywhere in a template -/
theorem C12_escaped (t : List Char) :
    steps isId x (x.subChar :: x.subChar :: t) = .char x.subChar :: steps isId x t := by
  rw [steps_sub, specRef_esc]; rfl

/-- a substitution character followed by something that is not a reference is copied
    (and reported as `Step.error`, which `check` turns into a parse error) -/
theorem C12_not_reference (tail : List Char) (h : NotRef isId x tail) :
    steps isId x (x.subChar :: tail) = .error :: .char x.subChar :: steps isId x tail := by
  rw [steps_sub, specRef_bad isId x h]; rfl

theorem refAt_mk (o k name t : List Char) (hne : name ≠ []) (hid : ∀ c ∈ name, isId c = true)
    (hfollow : ∀ c, (k ++ t).head? = some c → isId c = false) :
    refAt isId o k (o ++ name ++ k ++ t) = some (name, t) := by
  have hs := run_split isId name (k ++ t) hid hfollow
  unfold refAt
  simp only [List.append_assoc, stripPrefix_append, hs.1, hs.2, hne, ↓reduceIte]

theorem refAt_none_of_head (o : Char) (os k : List Char) (d : Char) (rest : List Char) (h : o ≠ d) :
    refAt isId (o :: os) k (d :: rest) = none := by
  simp [refAt, stripPrefix, h]

/-- the name of a delimited reference: not empty, identifier characters only, and the delimiters
    are not empty, the opening one not starting with the substitution character, the closing one
    not with an identifier character (the `debug_assert!`s of `exec` and `parse_id`) -/
def IsBraced (name : List Char) : Prop :=
  (∃ o os, x.openD = o :: os ∧ o ≠ x.subChar) ∧ (∃ k ks, x.closeD = k :: ks ∧ isId k = false) ∧
    name ≠ [] ∧ ∀ c ∈ name, isId c = true

/-- **`${name}` / `\g<name>`** (any expander): the group named `name`, then the rest -/
theorem C12_braced_gen (name t : List Char) (h : IsBraced isId x name) :
    steps isId x (x.subChar :: x.openD ++ name ++ x.closeD ++ t) =
      .groupName name :: steps isId x t := by
  obtain ⟨⟨o, os, ho, hos⟩, ⟨k, ks, hk, hkid⟩, hne, hid⟩ := h
  have hb : bracedRef isId x (x.openD ++ name ++ x.closeD ++ t) = some (name, t) := by
    apply refAt_mk isId _ _ _ _ hne hid
    intro c hc
    rw [hk] at hc
    simp only [List.cons_append, List.head?_cons, Option.some.injEq] at hc
    rw [← hc]; exact hkid
  have hshape : x.openD ++ name ++ x.closeD ++ t = o :: (os ++ name ++ x.closeD ++ t) := by
    rw [ho]; simp
  simp only [List.cons_append]
  rw [steps_sub]
  rw [hshape] at hb ⊢
  rw [specRef_braced isId x hos hb]; rfl

/-- a bare name: allowed by the expander, not empty, identifier characters only; the
    substitution character and the first character of the opening delimiter are not identifier
    characters (true of `Expander::default()` with the real `is_id_char`) -/
def IsBare (name : List Char) : Prop :=
  x.allowUndelimited = true ∧ isId x.subChar = false ∧ (∃ o os, x.openD = o :: os ∧ isId o = false) ∧
    name ≠ [] ∧ ∀ c ∈ name, isId c = true

/-- **`$name` takes the LONGEST run of identifier characters** (any expander allowing bare names):
    if `name` is followed by the end of the template or a non-identifier character, the token is
    the group named `name` -/
theorem C12_longest_id_gen (name rest : List Char) (h : IsBare isId x name)
    (hfollow : ∀ c, rest.head? = some c → isId c = false) :
    steps isId x (x.subChar :: name ++ rest) = .groupName name :: steps isId x rest := by
  obtain ⟨hal, hsub, ⟨o, os, ho, hoid⟩, hne, hid⟩ := h
  obtain ⟨n, ns, rfl⟩ := List.exists_cons_of_ne_nil hne
  have hn : isId n = true := hid n (by simp)
  have hd : n ≠ x.subChar := by
    intro e; rw [e, hsub] at hn; cases hn
  have hon : o ≠ n := by
    intro e; rw [e, hn] at hoid; cases hoid
  have hs := run_split isId (n :: ns) rest hid hfollow
  simp only [List.cons_append] at hs ⊢
  rw [steps_sub]
  have hu : bareRef isId (n :: (ns ++ rest)) = some (n :: ns, rest) := by
    simp only [bareRef, hs.1, hs.2]; simp
  rw [specRef_bare isId x hd (by rw [bracedRef, ho]; exact refAt_none_of_head isId _ _ _ _ _ hon) hal hu]
  rfl

/-- a number: bare names are not allowed (the Python expander), digits only, not empty, a `usize`;
    the substitution character and the opening delimiter do not start with a digit -/
def IsNum (ds : List Char) : Prop :=
  x.allowUndelimited = false ∧ isDigit x.subChar = false ∧
    (∃ o os, x.openD = o :: os ∧ isDigit o = false) ∧
    ds ≠ [] ∧ (∀ c ∈ ds, isDigit c = true) ∧ digitsVal ds ≤ UNSET

/-- **`\N` takes the LONGEST digit run** (any expander without bare names) -/
theorem C12_num_gen (ds rest : List Char) (h : IsNum x ds)
    (hfollow : ∀ c, rest.head? = some c → isDigit c = false) :
    steps isId x (x.subChar :: ds ++ rest) = .groupNum (digitsVal ds) :: steps isId x rest := by
  obtain ⟨hal, hsub, ⟨o, os, ho, hoid⟩, hne, hid, hval⟩ := h
  obtain ⟨n, ns, rfl⟩ := List.exists_cons_of_ne_nil hne
  have hn : isDigit n = true := hid n (by simp)
  have hd : n ≠ x.subChar := by
    intro e; rw [e, hsub] at hn; cases hn
  have hon : o ≠ n := by
    intro e; rw [e, hn] at hoid; cases hoid
  have hs := run_split isDigit (n :: ns) rest hid hfollow
  simp only [List.cons_append] at hs ⊢
  rw [steps_sub]
  have hnum : numRef (n :: (ns ++ rest)) = some (digitsVal (n :: ns), rest) := by
    simp only [numRef, hs.1, hs.2]
    rw [if_neg]
    intro hc
    rcases hc with hc | hc
    · cases hc
    · omega
  rw [specRef_num isId x hd (by rw [bracedRef, ho]; exact refAt_none_of_head isId _ _ _ _ _ hon)
    (by simp [hal]) hnum]
  rfl

theorem stripPrefix_none_of_head (k : Char) (ks s : List Char) (h : s.head? ≠ some k) :
    stripPrefix (k :: ks) s = none := by
  cases s with
  | nil => rfl
  | cons c cs =>
    have : k ≠ c := by intro e; apply h; simp [e]
    simp [stripPrefix, this]

/-- literal text (no substitution character) is copied character by character, whatever follows -/
theorem C12_literal_run (a b : List Char) (ha : ∀ c ∈ a, c ≠ x.subChar) :
    steps isId x (a ++ b) = a.map Step.char ++ steps isId x b := by
  induction a with
  | nil => rfl
  | cons c cs ih =>
    rw [List.cons_append, C12_literal isId x c _ (ha c (by simp)), ih (fun d hd => ha d (by simp [hd]))]
    rfl

/-- **an opening delimiter that is not followed by `name close` is not a reference** (any
    expander): empty name, a character that is not an identifier character before the closing
    delimiter, or no closing delimiter -/
theorem C12_unclosed_gen (o : Char) (os body : List Char) (ho : x.openD = o :: os)
    (hsub : o ≠ x.subChar) (hdig : isDigit o = false) (hbare : x.allowUndelimited = true → isId o = false)
    (hbad : body.takeWhile isId = [] ∨ stripPrefix x.closeD (body.dropWhile isId) = none) :
    steps isId x (x.subChar :: x.openD ++ body) =
      .error :: .char x.subChar :: steps isId x (x.openD ++ body) := by
  simp only [List.cons_append]
  apply C12_not_reference
  refine ⟨?_, ?_, ?_, ?_⟩
  · rw [ho]; simp; exact fun e => hsub e
  · unfold bracedRef refAt
    rw [stripPrefix_append]
    rcases hbad with h | h
    · simp [h]
    · by_cases hn : body.takeWhile isId = []
      · simp [hn]
      · simp [hn, h]
  · intro hal
    rw [ho]
    simp [bareRef, hbare hal]
  · rw [ho]
    simp [numRef, hdig]

end Tokens

/-! ## 4. The two documented expanders, in the words of the property -/

section Documented
variable (isId : Char → Bool)

/-- **`$name` takes the LONGEST run of identifier characters** (`Expander::default()`): if `id` is a
    non-empty run of identifier characters and `rest` is empty or starts with a non-identifier
    character, `$id rest` is the group `id` followed by `rest`. (For an all-digit `id` this is the
    documented `$N`: see `C12_numbered_name`.) The hypotheses on `$` and `{` hold of `is_id_char`. -/
theorem C12_longest_id (id rest : List Char) (hsub : isId '$' = false) (hopen : isId '{' = false)
    (hne : id ≠ []) (hid : ∀ c ∈ id, isId c = true)
    (hfollow : ∀ c, rest.head? = some c → isId c = false) :
    steps isId dollar ('$' :: id ++ rest) = .groupName id :: steps isId dollar rest :=
  C12_longest_id_gen isId dollar id rest ⟨rfl, hsub, ⟨'{', [], rfl, hopen⟩, hne, hid⟩ hfollow

theorem C12_longest_id_expansion (id rest : List Char) (caps : Caps) (hsub : isId '$' = false)
    (hopen : isId '{' = false) (hne : id ≠ []) (hid : ∀ c ∈ id, isId c = true)
    (hfollow : ∀ c, rest.head? = some c → isId c = false) :
    expansion isId dollar ('$' :: id ++ rest) caps =
      stepOut caps (.groupName id) ++ expansion isId dollar rest caps := by
  have h := C12_longest_id isId id rest hsub hopen hne hid hfollow
  have := expansion_of_steps isId dollar (pre := [.groupName id]) h caps
  simpa using this

/-- a name made of digits that is not the name of a group is the group with that NUMBER
    (`$N`, `${N}`, `\g<N>`); an absent / unmatched group or a number above `usize::MAX` inserts nothing -/
theorem C12_numbered_name (caps : Caps) (id : List Char) (hne : id ≠ [])
    (hd : ∀ c ∈ id, isDigit c = true) (hv : digitsVal id ≤ UNSET) (hname : caps.name id = none) :
    stepOut caps (.groupName id) = (caps.get (digitsVal id)).getD [] := by
  have hall : id.all isDigit = true := List.all_eq_true.mpr hd
  have hemp : id.isEmpty = false := by cases id with
    | nil => exact absurd rfl hne
    | cons _ _ => rfl
  have : parseUsize id = some (digitsVal id) := by
    unfold parseUsize
    simp only [hemp, hall, Bool.not_true, Bool.or_self, Bool.false_eq_true, ↓reduceIte]
    rw [if_neg (by omega)]
  simp only [stepOut, hname, this, Option.bind_some]
  cases caps.get (digitsVal id) <;> rfl

/-- **`${name}`** (`Expander::default()`): a non-empty run of identifier characters between the
    braces is the group of that name -/
theorem C12_braced (name t : List Char) (hclose : isId '}' = false)
    (hne : name ≠ []) (hid : ∀ c ∈ name, isId c = true) :
    steps isId dollar ('$' :: '{' :: name ++ '}' :: t) = .groupName name :: steps isId dollar t := by
  have := C12_braced_gen isId dollar name t
    ⟨⟨'{', [], rfl, by decide⟩, ⟨'}', [], rfl, hclose⟩, hne, hid⟩
  simpa [dollar] using this

/-- **an unclosed / malformed brace is copied verbatim** (`Expander::default()`): `${` followed by
    an empty name, or by a name that is not directly followed by `}` -/
theorem C12_braced_unclosed (body : List Char) (hopen : isId '{' = false)
    (hbad : body.takeWhile isId = [] ∨ (body.dropWhile isId).head? ≠ some '}') :
    steps isId dollar ('$' :: '{' :: body) =
      .error :: .char '$' :: .char '{' :: steps isId dollar body := by
  have := C12_unclosed_gen isId dollar '{' [] body rfl (by decide) (by decide) (fun _ => hopen)
    (hbad.imp id (stripPrefix_none_of_head '}' [] _))
  rw [← C12_literal isId dollar '{' body (by decide)]
  simpa [dollar] using this

theorem C12_braced_unclosed_expansion (body : List Char) (caps : Caps) (hopen : isId '{' = false)
    (hbad : body.takeWhile isId = [] ∨ (body.dropWhile isId).head? ≠ some '}') :
    expansion isId dollar ('$' :: '{' :: body) caps = '$' :: '{' :: expansion isId dollar body caps := by
  have h := C12_braced_unclosed isId body hopen hbad
  have := expansion_of_steps isId dollar (pre := [.error, .char '$', .char '{']) h caps
  simpa [stepOut] using this

/-- **`\g<name>` / `\g<N>`** (`Expander::python()`) -/
theorem C12_python_named (name t : List Char) (hclose : isId '>' = false)
    (hne : name ≠ []) (hid : ∀ c ∈ name, isId c = true) :
    steps isId python ('\\' :: 'g' :: '<' :: name ++ '>' :: t) =
      .groupName name :: steps isId python t := by
  have := C12_braced_gen isId python name t
    ⟨⟨'g', ['<'], rfl, by decide⟩, ⟨'>', [], rfl, hclose⟩, hne, hid⟩
  simpa [python] using this

/-- **`\N` takes the LONGEST digit run** (`Expander::python()`): `\10` is group 10, not group 1
    followed by `0` -/
theorem C12_num (ds rest : List Char) (hne : ds ≠ []) (hd : ∀ c ∈ ds, isDigit c = true)
    (hv : digitsVal ds ≤ UNSET) (hfollow : ∀ c, rest.head? = some c → isDigit c = false) :
    steps isId python ('\\' :: ds ++ rest) = .groupNum (digitsVal ds) :: steps isId python rest :=
  C12_num_gen isId python ds rest ⟨rfl, by decide, ⟨'g', ['<'], rfl, by decide⟩, hne, hd, hv⟩ hfollow

theorem C12_num_expansion (ds rest : List Char) (caps : Caps) (hne : ds ≠ [])
    (hd : ∀ c ∈ ds, isDigit c = true) (hv : digitsVal ds ≤ UNSET)
    (hfollow : ∀ c, rest.head? = some c → isDigit c = false) :
    expansion isId python ('\\' :: ds ++ rest) caps =
      (caps.get (digitsVal ds)).getD [] ++ expansion isId python rest caps := by
  have h := C12_num isId ds rest hne hd hv hfollow
  have := expansion_of_steps isId python (pre := [.groupNum (digitsVal ds)]) h caps
  simpa [stepOut] using this

/-- OBSERVATION (code behaviour the documentation does not describe): `\N` with `N > usize::MAX`
    is not "an invalid group, replaced with the empty string" — the backslash and the digits are
    copied verbatim (and `check` reports a parse error). `$N`, `${N}`, `\g<N>` with such an `N`
    do insert nothing (`C12_longest_id` + `stepOut`). -/
theorem C12_num_overflow_verbatim (ds rest : List Char) (caps : Caps) (hne : ds ≠ [])
    (hd : ∀ c ∈ ds, isDigit c = true) (hv : digitsVal ds > UNSET)
    (hfollow : ∀ c, rest.head? = some c → isDigit c = false) :
    expansion isId python ('\\' :: ds ++ rest) caps = '\\' :: ds ++ expansion isId python rest caps := by
  obtain ⟨n, ns, rfl⟩ := List.exists_cons_of_ne_nil hne
  have hn : isDigit n = true := hd n (by simp)
  have hs := run_split isDigit (n :: ns) rest hd hfollow
  have hnr : NotRef isId python (n :: ns ++ rest) := by
    refine ⟨?_, ?_, ?_, ?_⟩
    · simp only [List.cons_append, List.head?_cons, ne_eq, Option.some.injEq]
      intro e; rw [e] at hn; revert hn; decide
    · have : ('g' : Char) ≠ n := by intro e; rw [← e] at hn; revert hn; decide
      exact refAt_none_of_head isId _ _ _ _ _ this
    · intro h; cases h
    · simp only [numRef, hs.1]
      rw [if_pos (Or.inr hv)]
  have h1 := C12_not_reference isId python _ hnr
  have hlit : ∀ c ∈ n :: ns, c ≠ python.subChar := by
    intro c hc e
    have := hd c hc
    rw [e] at this; revert this; decide
  rw [C12_literal_run isId python _ rest hlit] at h1
  have h2 : steps isId python ('\\' :: (n :: ns) ++ rest) =
      (.error :: .char '\\' :: (n :: ns).map Step.char) ++ steps isId python rest := h1
  rw [expansion_of_steps isId python h2 caps]
  have hm : ∀ l : List Char, (l.map Step.char).flatMap (stepOut caps) = l := by
    intro l; induction l with
    | nil => rfl
    | cons c cs ih => simp [stepOut, ih]
  simp [stepOut, hm]

/-- **`\\` is a literal backslash** (`Expander::python()`) -/
theorem C12_python_backslash (t : List Char) :
    steps isId python ('\\' :: '\\' :: t) = .char '\\' :: steps isId python t :=
  C12_escaped isId python t

theorem C12_python_backslash_expansion (t : List Char) (caps : Caps) :
    expansion isId python ('\\' :: '\\' :: t) caps = '\\' :: expansion isId python t caps := by
  have := expansion_of_steps isId python (pre := [.char '\\']) (C12_python_backslash isId t) caps
  simpa [stepOut] using this

/-- `\g<` not followed by `name>` is copied verbatim (`Expander::python()`) -/
theorem C12_python_unclosed (body : List Char)
    (hbad : body.takeWhile isId = [] ∨ (body.dropWhile isId).head? ≠ some '>') :
    steps isId python ('\\' :: 'g' :: '<' :: body) =
      .error :: .char '\\' :: .char 'g' :: .char '<' :: steps isId python body := by
  have := C12_unclosed_gen isId python 'g' ['<'] body rfl (by decide) (by decide)
    (fun h => by cases h) (hbad.imp id (stripPrefix_none_of_head '>' [] _))
  rw [← C12_literal isId python '<' body (by decide),
    ← C12_literal isId python 'g' ('<' :: body) (by decide)]
  simpa [python] using this

/-- **relative references are NOT references in a template** (seeds C12a / C12c): `${-1}` and
    `\g<-1>` are copied verbatim — `parse_id` is called with `allow_relative = false`, and `-` is
    not an identifier character -/
theorem C12_relative_not_reference (rest : List Char) (hopen : isId '{' = false)
    (hminus : isId '-' = false) :
    steps isId dollar ('$' :: '{' :: '-' :: rest) =
      .error :: .char '$' :: .char '{' :: .char '-' :: steps isId dollar rest := by
  rw [C12_braced_unclosed isId ('-' :: rest) hopen (Or.inl (by simp [hminus])),
    C12_literal isId dollar '-' rest (by decide)]

theorem C12_relative_not_reference_python (rest : List Char) (hminus : isId '-' = false) :
    steps isId python ('\\' :: 'g' :: '<' :: '-' :: rest) =
      .error :: .char '\\' :: .char 'g' :: .char '<' :: .char '-' :: steps isId python rest := by
  rw [C12_python_unclosed isId ('-' :: rest) (Or.inl (by simp [hminus])),
    C12_literal isId python '-' rest (by decide)]

theorem C12_relative_not_reference_expansion (rest : List Char) (caps : Caps)
    (hopen : isId '{' = false) (hminus : isId '-' = false) :
    expansion isId dollar ('$' :: '{' :: '-' :: rest) caps =
        '$' :: '{' :: '-' :: expansion isId dollar rest caps ∧
    expansion isId python ('\\' :: 'g' :: '<' :: '-' :: rest) caps =
        '\\' :: 'g' :: '<' :: '-' :: expansion isId python rest caps := by
  constructor
  · have := expansion_of_steps isId dollar (pre := [.error, .char '$', .char '{', .char '-'])
      (C12_relative_not_reference isId rest hopen hminus) caps
    simpa [stepOut] using this
  · have := expansion_of_steps isId python
      (pre := [.error, .char '\\', .char 'g', .char '<', .char '-'])
      (C12_relative_not_reference_python isId rest hminus) caps
    simpa [stepOut] using this

end Documented

/-! ## 5. Compositionality at token boundaries -/

section Compositional
variable (isId : Char → Bool) (x : Expander)

/-- `Boundary isId x t2 t1`: **the end of `t1` is a token boundary of the documented syntax when
    `t2` follows.** `t1` is a sequence of complete tokens —
    literal characters, `$$`, `${name}`, `$name`, `\N`, or a substitution character that starts no
    reference — where
    * a bare `$name` must be followed (in `t1 ++ t2`) by the end or a NON-identifier character,
    * a `\N` must be followed (in `t1 ++ t2`) by the end or a NON-digit,
    * a substitution character that starts no reference in `t1` must not start one in `t1 ++ t2`
      either (so `t1` may not end in a lone `$` if `t2` starts with `$`, `{name}`, a name or a
      digit; nor in `${name` if `t2` supplies the `}`).
    Complete `$$` and `${name}` tokens put no condition on what follows. -/
inductive Boundary (t2 : List Char) : List Char → Prop
  | nil : Boundary t2 []
  | lit {c : Char} {t : List Char} : c ≠ x.subChar → Boundary t2 t → Boundary t2 (c :: t)
  | esc {t : List Char} : Boundary t2 t → Boundary t2 (x.subChar :: x.subChar :: t)
  | braced {name t : List Char} : IsBraced isId x name → Boundary t2 t →
      Boundary t2 (x.subChar :: x.openD ++ name ++ x.closeD ++ t)
  | bare {name t : List Char} : IsBare isId x name →
      (∀ c, (t ++ t2).head? = some c → isId c = false) → Boundary t2 t →
      Boundary t2 (x.subChar :: name ++ t)
  | num {ds t : List Char} : IsNum x ds →
      (∀ c, (t ++ t2).head? = some c → isDigit c = false) → Boundary t2 t →
      Boundary t2 (x.subChar :: ds ++ t)
  | bad {tail : List Char} : NotRef isId x tail → NotRef isId x (tail ++ t2) → Boundary t2 tail →
      Boundary t2 (x.subChar :: tail)

theorem follow_left {p : Char → Bool} {t t2 : List Char}
    (h : ∀ c, (t ++ t2).head? = some c → p c = false) : ∀ c, t.head? = some c → p c = false := by
  cases t with
  | nil => intro c hc; cases hc
  | cons a as => simpa using h

/-- the steps of `t1 ++ t2` are the steps of `t1` followed by the steps of `t2` whenever the split
    point is a token boundary -/
theorem C12_steps_compositional (t1 t2 : List Char) (h : Boundary isId x t2 t1) :
    steps isId x (t1 ++ t2) = steps isId x t1 ++ steps isId x t2 := by
  induction h with
  | nil => simp [steps_nil]
  | lit hc _ ih =>
    rw [List.cons_append, C12_literal isId x _ _ hc, C12_literal isId x _ _ hc, ih]; rfl
  | esc _ ih =>
    rw [List.cons_append, List.cons_append, C12_escaped, C12_escaped, ih]; rfl
  | @braced name t hb _ ih =>
    rw [List.append_assoc _ t t2, C12_braced_gen isId x name _ hb, C12_braced_gen isId x name _ hb, ih]
    rfl
  | @bare name t hb hf _ ih =>
    rw [List.append_assoc _ t t2, C12_longest_id_gen isId x name _ hb hf,
      C12_longest_id_gen isId x name _ hb (follow_left hf), ih]
    rfl
  | @num ds t hb hf _ ih =>
    rw [List.append_assoc _ t t2, C12_num_gen isId x ds _ hb hf,
      C12_num_gen isId x ds _ hb (follow_left hf), ih]
    rfl
  | @bad tail h1 h2 _ ih =>
    rw [List.cons_append, C12_not_reference isId x _ h2, C12_not_reference isId x _ h1, ih]
    rfl

/-- **expansion is compositional at token boundaries** -/
theorem C12_expansion_compositional (t1 t2 : List Char) (caps : Caps) (h : Boundary isId x t2 t1) :
    expansion isId x (t1 ++ t2) caps = expansion isId x t1 caps ++ expansion isId x t2 caps := by
  simp [expansion, C12_steps_compositional isId x t1 t2 h]

theorem C12_check_compositional (t1 t2 : List Char) (r : RegexInfo) (h : Boundary isId x t2 t1) :
    check isId x (t1 ++ t2) r = checkSteps r (steps isId x t1 ++ steps isId x t2) := by
  rw [check, C12_steps_compositional isId x t1 t2 h]

/-- literal text before a boundary keeps it a boundary -/
theorem Boundary.of_literal {t2 t : List Char} (a : List Char) (ha : ∀ c ∈ a, c ≠ x.subChar)
    (h : Boundary isId x t2 t) : Boundary isId x t2 (a ++ t) := by
  induction a with
  | nil => exact h
  | cons c cs ih => exact .lit (ha c (by simp)) (ih (fun d hd => ha d (by simp [hd])))

/-- the end of literal text is always a boundary -/
theorem C12_compositional_literal (t1 t2 : List Char) (caps : Caps) (h1 : ∀ c ∈ t1, c ≠ x.subChar) :
    expansion isId x (t1 ++ t2) caps = t1 ++ expansion isId x t2 caps := by
  have hb : Boundary isId x t2 (t1 ++ []) := Boundary.of_literal isId x t1 h1 .nil
  rw [List.append_nil] at hb
  rw [C12_expansion_compositional isId x t1 t2 caps hb, C12_verbatim]
  simp only [List.contains_eq_mem, decide_eq_false_iff_not]
  exact fun hm => h1 _ hm rfl

/-- the side condition in its most common form: `t1 = literal text ++ $name` ends inside a bare
    reference, and the split is a boundary iff `t2` does not continue the name — here: `t2` is empty
    or starts with a non-identifier character -/
theorem C12_compositional_after_name (pre name t2 : List Char) (caps : Caps)
    (hpre : ∀ c ∈ pre, c ≠ x.subChar) (hname : IsBare isId x name)
    (hfollow : ∀ c, t2.head? = some c → isId c = false) :
    expansion isId x ((pre ++ (x.subChar :: name)) ++ t2) caps =
      expansion isId x (pre ++ (x.subChar :: name)) caps ++ expansion isId x t2 caps := by
  apply C12_expansion_compositional
  apply Boundary.of_literal isId x pre hpre
  have : Boundary isId x t2 (x.subChar :: name ++ []) := .bare hname (by simpa using hfollow) .nil
  simpa using this

end Compositional

/-- … and it FAILS when the split point is inside a token: `"$1" ++ "0"` is the (absent) group 10,
    not group 1 followed by `0` -/
theorem C12_expansion_not_compositional :
    expansion demoId dollar ("$1".toList ++ "0".toList) demoCaps ≠
      expansion demoId dollar "$1".toList demoCaps ++ expansion demoId dollar "0".toList demoCaps := by
  decide

/-- hence the end of `"$1"` is not a token boundary when `"0"` follows -/
theorem C12_not_boundary : ¬ Boundary demoId dollar "0".toList "$1".toList := fun h =>
  C12_expansion_not_compositional (C12_expansion_compositional demoId dollar _ _ demoCaps h)

/-! ## 6. Every iteration consumes input; the fuel never runs out; slices are in range -/

section Progress
variable (isId : Char → Bool) (x : Expander)

theorem stripPrefix_suffix {p s r : List Char} (h : stripPrefix p s = some r) : r <:+ s := by
  rw [stripPrefix_eq_some] at h; subst h; exact List.suffix_append _ _

theorem specRef_suffix (tail : List Char) : (specRef isId x tail).2 <:+ tail := by
  unfold specRef
  split
  · exact List.suffix_refl _
  · rename_i d rest
    split
    · exact List.suffix_cons _ _
    · split
      · rename_i name rest' h
        unfold bracedRef refAt at h
        split at h
        · cases h
        · rename_i body hb
          split at h
          · cases h
          · split at h
            · cases h
            · rename_i r hr
              cases h
              exact (stripPrefix_suffix hr).trans
                ((List.dropWhile_suffix isId).trans (stripPrefix_suffix hb))
      · split
        · rename_i name rest' h
          split at h
          · unfold bareRef at h
            split at h
            · cases h
            · cases h; exact List.dropWhile_suffix _
          · cases h
        · split
          · rename_i n rest' h
            unfold numRef at h
            split at h
            · cases h
            · cases h; exact List.dropWhile_suffix _
          · exact List.suffix_refl _

/-- **every iteration of `exec` emits at least one step and consumes at least one character**: it
    continues on a suffix `rest` of `tail` (the text after the character just read), so the loop
    terminates without fuel -/
theorem C12_exec_consumes (c : Char) (tail : List Char) :
    ∃ out rest, out ≠ [] ∧ rest <:+ tail ∧ rest.length < (c :: tail).length ∧
      ∀ fuel, exec isId x (fuel + 1) (c :: tail) = out ++ exec isId x fuel rest := by
  by_cases hc : c = x.subChar
  · refine ⟨(specRef isId x tail).1, (specRef isId x tail).2, ?_, specRef_suffix isId x tail, ?_, ?_⟩
    · unfold specRef
      split
      · simp
      · split
        · simp
        · split
          · simp
          · split
            · simp
            · split <;> simp
    · have := (specRef_suffix isId x tail).length_le
      simp only [List.length_cons]; omega
    · intro fuel; rw [exec_succ_cons, if_pos hc]
  · refine ⟨[.char c], tail, by simp, List.suffix_refl _, by simp, ?_⟩
    intro fuel; rw [exec_succ_cons, if_neg hc]; rfl

/-- **the fuel of the model is never the reason to stop**: any fuel ≥ the template length gives the
    same (documented) steps -/
theorem C12_exec_fuel_irrelevant (t : List Char) (f1 f2 : Nat) (h1 : t.length ≤ f1) (h2 : t.length ≤ f2) :
    exec isId x f1 t = exec isId x f2 t := by
  rw [exec_eq_spec isId x f1 t h1, exec_eq_spec isId x f2 t h2]

/-- **`tail[skip..]` is in range** (`parse_id` as the expander calls it; for `parse_decimal` see
    `C06_parse_decimal_bound`), and it is the text after the documented token -/
theorem C12_skip_in_bounds (s o k id : List Char) (skip : Nat)
    (h : parseId isId s o k false = some (id, skip)) :
    skip ≤ s.length ∧ refAt isId o k s = some (id, s.drop skip) := by
  refine ⟨?_, by rw [← parseId_spec, h]; rfl⟩
  unfold parseId at h
  simp only [idCharsOf_false, closeOk_eq, drop_length_takeWhile] at h
  split at h
  · cases h
  · rename_i hpre
    split at h
    · cases h
    · rename_i hcond
      cases h
      simp only [Bool.not_eq_true', Bool.not_eq_false, Bool.or_eq_true, not_or] at hpre hcond
      have hpre' : o.isPrefixOf s = true := by simpa using hpre
      have hk : k.isPrefixOf ((s.drop o.length).dropWhile isId) = true := by simpa using hcond.1
      have h1 := stripPrefix_length (p := o) (s := s) (r := s.drop o.length)
        (by rw [stripPrefix_model, if_pos hpre'])
      have h2 := stripPrefix_length (p := k) (s := (s.drop o.length).dropWhile isId)
        (r := ((s.drop o.length).dropWhile isId).drop k.length) (by rw [stripPrefix_model, if_pos hk])
      have h3 : ((s.drop o.length).takeWhile isId).length + ((s.drop o.length).dropWhile isId).length
          = (s.drop o.length).length := by
        rw [← List.length_append, List.takeWhile_append_dropWhile]
      omega

end Progress

/-! ## 7. Concrete instances (non-vacuity; `demoId` = ASCII alphanumerics and `_`) -/

-- the documented tokenizer itself, on a template with every token form
example : steps demoId dollar "a$$${x}$1a $2.$-".toList =
    [.char 'a', .char '$', .groupName "x".toList, .groupName "1a".toList, .char ' ',
     .groupName "2".toList, .char '.', .error, .char '$', .char '-'] := by decide
example : specSteps demoId dollar "$x.".toList = [.groupName "x".toList, .char '.'] := by
  rw [← C12_steps_eq_spec]; decide
-- `C12_longest_id`: hypotheses hold for `$ab` followed by `-c`
example : steps demoId dollar ('$' :: "ab".toList ++ "-c".toList) =
    .groupName "ab".toList :: steps demoId dollar "-c".toList :=
  C12_longest_id demoId "ab".toList "-c".toList (by decide) (by decide) (by decide) (by decide) (by decide)
-- `C12_numbered_name`: `$1` with no group called "1" is group number 1
example : stepOut demoCaps (.groupName "1".toList) = "a".toList :=
  C12_numbered_name demoCaps "1".toList (by decide) (by decide) (by decide) (by decide)
-- `C12_braced`, `C12_braced_unclosed` (unclosed, empty, space inside)
example : steps demoId dollar ('$' :: '{' :: "x1".toList ++ '}' :: "y".toList) =
    .groupName "x1".toList :: steps demoId dollar "y".toList :=
  C12_braced demoId "x1".toList "y".toList (by decide) (by decide) (by decide)
example : expansion demoId dollar "${x".toList demoCaps = "${x".toList := by decide
example : expansion demoId dollar "${}".toList demoCaps = "${}".toList := by decide
example : expansion demoId dollar "${x y}".toList demoCaps = "${x y}".toList := by decide
-- `C12_num`: `\10` is group 10 (absent: nothing), `\1` is group 1, `\g<1>`, `\g<x>`
example : steps demoId python ('\\' :: "10".toList ++ "a".toList) =
    .groupNum 10 :: steps demoId python "a".toList :=
  C12_num demoId "10".toList "a".toList (by decide) (by decide) (by decide) (by decide)
example : expansion demoId python "\\10|\\1|\\g<1>|\\g<x>".toList demoCaps = "|a|a|a".toList := by decide
-- `C12_num_overflow_verbatim`: 2^64 is not a `usize`
example : expansion demoId python "\\18446744073709551616".toList demoCaps =
    "\\18446744073709551616".toList := by decide
-- `C12_relative_not_reference`
example : expansion demoId dollar "${-1}".toList demoCaps = "${-1}".toList := by decide
example : expansion demoId python "\\g<-1>".toList demoCaps = "\\g<-1>".toList := by decide
example : check demoId dollar "${-1}".toList ⟨3, []⟩ = .error .parseError := by rfl
-- `C12_expansion_compositional`: `"$1"` followed by `" 0"` IS a boundary (a space follows the name)
example : Boundary demoId dollar " 0".toList "$1".toList :=
  .bare (name := "1".toList) (t := []) ⟨rfl, by decide, ⟨'{', [], rfl, by decide⟩, by decide, by decide⟩
    (by decide) .nil
example : expansion demoId dollar ("$1".toList ++ " 0".toList) demoCaps =
    expansion demoId dollar "$1".toList demoCaps ++ expansion demoId dollar " 0".toList demoCaps := by decide
-- `C12_exec_fuel_irrelevant` / `C12_skip_in_bounds`
example : exec demoId dollar 3 "$x".toList = exec demoId dollar 100 "$x".toList :=
  C12_exec_fuel_irrelevant demoId dollar _ 3 100 (by decide) (by decide)
example : parseId demoId "{ab}c".toList ['{'] ['}'] false = some ("ab".toList, 4) := by decide

end Fancy.Expand
