import FancyModel.Proofs.C12
/-!
# C12b — the documented `$`-syntax, token by token

`specSteps` below is a tokenizer written from the DOCUMENTATION of `Expander` (src/expand.rs doc
comments and the `Captures::expand` docs), not from the code: it never counts a `skip`, has no fuel,
and reads every token by splitting the text after the substitution character into
"open delimiter ++ longest identifier ++ close delimiter ++ rest" (`stripPrefix`, `takeWhile`,
`dropWhile`). `C12_steps_eq_spec` shows that the mirror of `Expander::exec` produces exactly the
same steps for EVERY expander (hence for `Expander::default()` and `Expander::python()`), every
identifier predicate and every template; no normalisation of adjacent literal steps is needed,
because both sides emit one `Step.char` per literal character.
-/
namespace Fancy.Expand

/-! ## 1. The specification-level tokenizer -/

/-- `stripPrefix p s = some r` iff `s = p ++ r` (see `stripPrefix_eq_some`) -/
def stripPrefix : List Char → List Char → Option (List Char)
  | [], s => some s
  | _ :: _, [] => none
  | p :: ps, c :: cs => if p = c then stripPrefix ps cs else none

/-- a delimited reference `open name close` at the head of `s`, where `name` is the LONGEST run of
    identifier characters after `open` and is not empty: `(name, rest)` -/
def refAt (isId : Char → Bool) (o k s : List Char) : Option (List Char × List Char) :=
  match stripPrefix o s with
  | none => none
  | some body =>
    if body.takeWhile isId = [] then none else
    match stripPrefix k (body.dropWhile isId) with
    | none => none
    | some rest => some (body.takeWhile isId, rest)

/-- `${name}` / `\g<name>` -/
def bracedRef (isId : Char → Bool) (x : Expander) (s : List Char) : Option (List Char × List Char) :=
  refAt isId x.openD x.closeD s

/-- `$name`: the longest (non-empty) run of identifier characters -/
def bareRef (isId : Char → Bool) (s : List Char) : Option (List Char × List Char) :=
  if s.takeWhile isId = [] then none else some (s.takeWhile isId, s.dropWhile isId)

/-- `\N`: the longest (non-empty) run of digits, if its value is a `usize`: `(N, rest)` -/
def numRef (s : List Char) : Option (Nat × List Char) :=
  if s.takeWhile isDigit = [] ∨ digitsVal (s.takeWhile isDigit) > UNSET then none
  else some (digitsVal (s.takeWhile isDigit), s.dropWhile isDigit)

/-- the token that starts with the substitution character, given the text `tail` after it:
    the steps it stands for and the text after the token -/
def specRef (isId : Char → Bool) (x : Expander) (tail : List Char) : List Step × List Char :=
  match tail with
  | [] => ([.error, .char x.subChar], [])                    -- a lone `$` at the end: copied
  | d :: rest =>
    if d = x.subChar then ([.char x.subChar], rest)           -- `$$`
    else match bracedRef isId x tail with
      | some (name, rest') => ([.groupName name], rest')      -- `${name}`
      | none =>
        match (if x.allowUndelimited then bareRef isId tail else none) with
        | some (name, rest') => ([.groupName name], rest')    -- `$name`
        | none =>
          match numRef tail with
          | some (n, rest') => ([.groupNum n], rest')         -- `\N`
          | none => ([.error, .char x.subChar], tail)          -- not a reference: `$` copied

theorem stripPrefix_eq_some {p s r : List Char} : stripPrefix p s = some r ↔ s = p ++ r := by
  induction p generalizing s with
  | nil => simp [stripPrefix, eq_comm]
  | cons a as ih =>
    cases s with
    | nil => simp [stripPrefix]
    | cons c cs =>
      simp only [stripPrefix]
      by_cases hac : a = c
      · subst hac; simp [ih]
      · simp only [hac, ↓reduceIte, List.cons_append, List.cons.injEq]
        constructor
        · intro h; cases h
        · intro h; exact absurd h.1.symm hac

theorem stripPrefix_append (p r : List Char) : stripPrefix p (p ++ r) = some r :=
  stripPrefix_eq_some.mpr rfl

theorem stripPrefix_model (p s : List Char) :
    stripPrefix p s = if p.isPrefixOf s then some (s.drop p.length) else none := by
  induction p generalizing s with
  | nil => simp [stripPrefix]
  | cons a as ih =>
    cases s with
    | nil => simp [stripPrefix]
    | cons c cs =>
      simp only [stripPrefix, List.isPrefixOf, List.length_cons, List.drop_succ_cons]
      by_cases hac : a = c
      · subst hac; simp [ih]
      · simp [hac]

theorem stripPrefix_length {p s r : List Char} (h : stripPrefix p s = some r) :
    r.length + p.length = s.length := by
  rw [stripPrefix_eq_some] at h; subst h; simp; omega

theorem drop_length_takeWhile (p : Char → Bool) (s : List Char) :
    s.drop (s.takeWhile p).length = s.dropWhile p := by
  induction s with
  | nil => rfl
  | cons c cs ih =>
    by_cases hc : p c = true
    · simp [hc, ih]
    · simp [hc]

theorem length_dropWhile_le (p : Char → Bool) (s : List Char) :
    (s.dropWhile p).length ≤ s.length := by
  induction s with
  | nil => simp
  | cons c cs ih =>
    by_cases hc : p c = true
    · simp only [List.dropWhile_cons, hc, ↓reduceIte, List.length_cons]; omega
    · simp [hc]

theorem refAt_length {isId : Char → Bool} {o k s name rest : List Char}
    (h : refAt isId o k s = some (name, rest)) : rest.length ≤ s.length := by
  unfold refAt at h
  split at h
  · cases h
  · rename_i body hb
    split at h
    · cases h
    · split at h
      · cases h
      · rename_i r hr
        cases h
        have h1 := stripPrefix_length hb
        have h2 := stripPrefix_length hr
        have h3 := length_dropWhile_le isId body
        omega

theorem specRef_length (isId : Char → Bool) (x : Expander) (tail : List Char) :
    (specRef isId x tail).2.length ≤ tail.length := by
  unfold specRef
  split
  · simp
  · rename_i d rest
    split
    · simp
    · split
      · rename_i name rest' h
        exact refAt_length h
      · split
        · rename_i name rest' h
          split at h
          · unfold bareRef at h
            split at h
            · cases h
            · cases h; exact length_dropWhile_le _ _
          · cases h
        · split
          · rename_i n rest' h
            unfold numRef at h
            split at h
            · cases h
            · cases h; exact length_dropWhile_le _ _
          · exact Nat.le_refl _

/-- **the documented interpretation of a template**: literal characters are copied one by one, and
    the substitution character starts a token read by `specRef` -/
def specSteps (isId : Char → Bool) (x : Expander) : List Char → List Step
  | [] => []
  | c :: tail =>
    if c = x.subChar then
      (specRef isId x tail).1 ++ specSteps isId x (specRef isId x tail).2
    else .char c :: specSteps isId x tail
termination_by t => t.length
decreasing_by
  · have := specRef_length isId x tail
    simp only [List.length_cons]; omega
  · simp

/-! ## 2. The code's scanners compute the documented tokens -/

theorem idCharsOf_false (isId : Char → Bool) (body : List Char) :
    idCharsOf isId body false = body.takeWhile isId := by
  simp [idCharsOf]

theorem closeOk_eq (k after : List Char) : closeOk k after = k.isPrefixOf after := by
  cases after with
  | nil => cases k <;> simp [closeOk]
  | cons a as => simp [closeOk]

/-- `parse_id(s, open, close, false)` finds the documented delimited reference, and `&s[skip..]`
    is the text after it -/
theorem parseId_spec (isId : Char → Bool) (s o k : List Char) :
    (parseId isId s o k false).map (fun p => (p.1, s.drop p.2)) = refAt isId o k s := by
  unfold parseId refAt
  simp only [idCharsOf_false, closeOk_eq, drop_length_takeWhile, stripPrefix_model]
  by_cases hpre : o.isPrefixOf s = true
  · simp only [hpre, Bool.not_true, Bool.false_eq_true, ↓reduceIte]
    by_cases hne : (s.drop o.length).takeWhile isId = []
    · simp [hne]
    · by_cases hk : k.isPrefixOf ((s.drop o.length).dropWhile isId) = true
      · have hne' : ((s.drop o.length).takeWhile isId).isEmpty = false := by
          simpa [List.isEmpty_iff] using hne
        simp only [hk, hne, hne', Bool.not_true, Bool.or_self, Bool.false_eq_true,
          ↓reduceIte, Option.map_some, Option.some.injEq, Prod.mk.injEq, true_and]
        rw [← drop_length_takeWhile, List.drop_drop, List.drop_drop, Nat.add_assoc]
      · simp [hk, hne]
  · simp [hpre]

theorem parseId_bare (isId : Char → Bool) (s : List Char) :
    (parseId isId s [] [] false).map (fun p => (p.1, s.drop p.2)) = bareRef isId s := by
  rw [parseId_spec]
  unfold refAt bareRef
  simp [stripPrefix]

theorem parseDecimal_spec (s : List Char) :
    (parseDecimal s).map (fun p => (p.2, s.drop p.1)) = numRef s := by
  unfold parseDecimal numRef
  by_cases hne : s.takeWhile isDigit = []
  · simp [hne]
  · by_cases hov : digitsVal (s.takeWhile isDigit) > UNSET
    · simp [hne, hov]
    · simp [hne, hov, drop_length_takeWhile]

/-- one iteration of the `while let` loop of `Expander::exec`, for any fuel -/
theorem exec_succ_cons (isId : Char → Bool) (x : Expander) (fuel : Nat) (c : Char) (tail : List Char) :
    exec isId x (fuel + 1) (c :: tail) =
      if c = x.subChar then (specRef isId x tail).1 ++ exec isId x fuel (specRef isId x tail).2
      else .char c :: exec isId x fuel tail := by
  by_cases hc : c = x.subChar
  · subst hc
    cases tail with
    | nil => cases fuel <;> simp [exec, specRef]
    | cons d rest =>
      by_cases hd : d = x.subChar
      · subst hd; simp [exec, specRef]
      · have hb := parseId_spec isId (d :: rest) x.openD x.closeD
        have hu := parseId_bare isId (d :: rest)
        have hn := parseDecimal_spec (d :: rest)
        simp only [exec, beq_self_eq_true, ↓reduceIte, beq_iff_eq, hd, specRef, bracedRef]
        rw [← hb]
        cases hpb : parseId isId (d :: rest) x.openD x.closeD false with
        | some p => simp
        | none =>
          simp only [Option.orElse_none, Option.map_none]
          cases hal : x.allowUndelimited with
          | true =>
            simp only [↓reduceIte]
            rw [← hu]
            cases hpu : parseId isId (d :: rest) [] [] false with
            | some p => simp
            | none =>
              simp only [Option.map_none]
              rw [← hn]
              cases parseDecimal (d :: rest) with
              | some p => simp
              | none => simp
          | false =>
            simp only [Bool.false_eq_true, ↓reduceIte]
            rw [← hn]
            cases parseDecimal (d :: rest) with
            | some p => simp
            | none => simp
  · have hne : (c == x.subChar) = false := by simpa using hc
    simp [exec, hne, hc]

/-- with enough fuel the loop is the documented tokenizer -/
theorem exec_eq_spec (isId : Char → Bool) (x : Expander) (fuel : Nat) (t : List Char)
    (hf : t.length ≤ fuel) : exec isId x fuel t = specSteps isId x t := by
  induction fuel generalizing t with
  | zero =>
    have : t = [] := by cases t with
      | nil => rfl
      | cons _ _ => simp at hf
    subst this; simp [exec, specSteps]
  | succ fuel ih =>
    cases t with
    | nil => simp [exec, specSteps]
    | cons c tail =>
      rw [exec_succ_cons, specSteps]
      simp only [List.length_cons] at hf
      split
      · rw [ih]
        have := specRef_length isId x tail
        omega
      · rw [ih]; omega

/-- **C12 at full strength: expansion equals the documented interpretation.** The steps that
    `Expander::exec` hands to its callback are exactly the documented tokens, for every expander,
    identifier predicate and template (step lists are EQUAL, no normalisation needed). -/
theorem C12_steps_eq_spec (isId : Char → Bool) (x : Expander) (t : List Char) :
    steps isId x t = specSteps isId x t :=
  exec_eq_spec isId x _ t (Nat.le_succ _)

theorem C12_expansion_eq_spec (isId : Char → Bool) (x : Expander) (t : List Char) (caps : Caps) :
    expansion isId x t caps = (specSteps isId x t).flatMap (stepOut caps) := by
  rw [expansion, C12_steps_eq_spec]

theorem C12_check_eq_spec (isId : Char → Bool) (x : Expander) (t : List Char) (r : RegexInfo) :
    check isId x t r = checkSteps r (specSteps isId x t) := by
  rw [check, C12_steps_eq_spec]

end Fancy.Expand
