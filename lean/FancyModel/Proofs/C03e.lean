import FancyModel.Proofs.C03d
import FancyModel.Proofs.C17c
import FancyModel.Proofs.C06c
/-!
# C03 / C17 (translator part) — the text handed to regex-automata

`DelegateBuilder` (src/compile.rs) assembles a `String`: `re` starts empty (`String::new()`: there is NO `^` prefix in this
version of the source — the interpreter asks for an anchored search instead), every pushed expression is printed by
`info.expr.to_str(&mut self.re, 1)` (precedence 1, appended, no separator), `build` hands `re` to `compile_inner` and stores
it as `Insn::Delegate { pattern, start_group, end_group, .. }`.  `tools/rs2lean_compile.py` translates these functions and
`compile_delegate(s)` a second time with `re` read as the `String` it is (`DelegateBuilderText`, `compile_delegate(s)_text`
in GeneratedCompile.lean), calling the TRANSLATED `Expr::to_str` (`GenToStr.genToStr`, proved equal to `toStr` in C17c).

This file proves: the text the translated code attaches to a delegate instruction is `delegText es` = the concatenation of
`toStr isSpecial e 1` over the carried expressions — exactly what the driver prints for the model's `.delegate es sg eg`
(`showInsn`: `es.map (toStr sp · 1)`, concatenated) — the instruction emitted is the model's (`compileDelegate(s)`) with
that text, and the `to_str` panic is never reached for the pieces the compiler delegates.
-/
namespace Fancy
open GenAnalyze GenCompile

local notation "sp" => Generated.isSpecial

/-- what `DelegateBuilder` builds: every expression printed at precedence 1, concatenated (no anchor, no separator);
    `none` = `to_str` panics on one of them -/
def delegText : List Expr → Option (List Char)
  | [] => some []
  | e :: es =>
    match toStr sp e 1, delegText es with
    | some a, some b => some (a ++ b)
    | _, _ => none

/-- the instruction of the model with the text the Rust instruction carries -/
def insnText : Insn → Option TInsn
  | .lit s => some (.lit s)
  | .delegate es sg eg => (delegText es).map fun t => .delegate t sg eg
  | _ => none

theorem delegText_isSome_iff : ∀ (es : List Expr), (delegText es).isSome = true ↔ ∀ e ∈ es, (toStr sp e 1).isSome = true
  | [] => by simp [delegText]
  | e :: es => by
    have ih := delegText_isSome_iff es
    simp only [delegText, List.mem_cons, forall_eq_or_imp]
    cases h1 : toStr sp e 1 <;> cases h2 : delegText es <;> simp_all

/-- the driver's rendering (`showInsn`) of the same text -/
theorem delegText_eq_flatMap (es : List Expr) (t : List Char) (h : delegText es = some t) :
    t = (es.map fun e => toStr sp e 1).flatMap (fun s => s.getD []) := by
  induction es generalizing t with
  | nil => simp [delegText] at h; simp [h]
  | cons e es ih =>
    simp only [delegText] at h
    cases h1 : toStr sp e 1 with
    | none => simp [h1] at h
    | some a =>
      cases h2 : delegText es with
      | none => simp [h1, h2] at h
      | some b =>
        simp only [h1, h2, Option.some.injEq] at h
        simp [← h, h1, ih b h2]

theorem to_str_text_eq (e : Expr) (buf : List Char) (hp : hiPrintOK e = true) :
    to_str_text e buf 1 = match toStr sp e 1 with
      | some s => .ok (buf ++ s)
      | none => .error (.panic "attempting to format hard expr") := by
  unfold to_str_text
  rw [C17_to_str_translated_eq e buf 1 hp]
  cases toStr sp e 1 <;> rfl

/-- one `push` in the text reading -/
theorem push_text_eq (br : Nat → Bool) (e : Expr) (g : Nat) (db : DelegateBuilderText) (hp : hiPrintOK e = true) :
    db.push (mkInfo br e g) = match toStr sp e 1 with
      | some s => .ok { re := db.re ++ s, min_size := satAdd db.min_size (minSize e), const_size := db.const_size && constSize e,
                        start_group := (match db.start_group with | some x => some x | none => some g),
                        end_group := g + groupCount e }
      | none => .error (.panic "attempting to format hard expr") := by
  unfold DelegateBuilderText.push
  simp only [mkInfo_expr, mkInfo_minSize, mkInfo_constSize, mkInfo_startGroup, mkInfo_endGroup]
  cases hs : db.start_group <;> simp only [Option.isNone_none, Option.isNone_some, if_true, Bool.false_eq_true, if_false] <;>
    rw [to_str_text_eq e db.re hp] <;> cases toStr sp e 1 <;> rfl

/-- the push loop of `compile_delegates` in the text reading: the text grows by `delegText es`, the group range is the
    one of the expression reading (C03d) -/
theorem loop1_text_eq (br : Nat → Bool) : ∀ (es : List Expr) (g : Nat) (db : DelegateBuilderText), hiPrintOKAll es = true →
    match delegText es with
    | some t => ∃ db', compile_delegates_text_loop1 (mkInfoList br es g) db = .ok db' ∧ db'.re = db.re ++ t ∧
        db'.start_group = (match db.start_group with | some x => some x | none => if es.isEmpty then none else some g) ∧
        db'.end_group = (if es.isEmpty then db.end_group else g + groupCountList es)
    | none => compile_delegates_text_loop1 (mkInfoList br es g) db = .error (.panic "attempting to format hard expr")
  | [], g, db, _ => by
    simp only [delegText, mkInfoList, compile_delegates_text_loop1]
    exact ⟨db, rfl, by simp, by cases db.start_group <;> simp, by simp⟩
  | e :: es, g, db, hp => by
    simp only [hiPrintOKAll, Bool.and_eq_true] at hp
    simp only [delegText, mkInfoList, compile_delegates_text_loop1, push_text_eq br e g db hp.1]
    cases h1 : toStr sp e 1 with
    | none => simp
    | some a =>
      have ih := loop1_text_eq br es (g + groupCount e)
        { re := db.re ++ a, min_size := satAdd db.min_size (minSize e), const_size := db.const_size && constSize e,
          start_group := (match db.start_group with | some x => some x | none => some g), end_group := g + groupCount e } hp.2
      cases h2 : delegText es with
      | none => rw [h2] at ih; simpa using ih
      | some b =>
        rw [h2] at ih
        obtain ⟨db', h, hr, hs, he⟩ := ih
        refine ⟨db', by simpa using h, by simp [hr], ?_, ?_⟩
        · rw [hs]; cases db.start_group <;> simp
        · rw [he]; cases es with
          | nil => simp [groupCountList]
          | cons e2 es2 => simp [groupCountList]; omega

theorem loop0_text_eq (br : Nat → Bool) : ∀ (es : List Expr) (g : Nat) (buf : List Char), isLiteralAll es = true →
    compile_delegates_text_loop0 (mkInfoList br es g) buf = .ok (buf ++ pushLiteralAll es)
  | [], _, buf, _ => by simp [mkInfoList, compile_delegates_text_loop0, pushLiteralAll]
  | e :: es, g, buf, h => by
    simp only [isLiteralAll, Bool.and_eq_true] at h
    simp only [mkInfoList, compile_delegates_text_loop0, push_literal_eq br e g buf h.1,
      loop0_text_eq br es _ _ h.2, pushLiteralAll, List.append_assoc]

/-- **`compile_delegates`, text reading**: the instruction is the model's, the text is `delegText es`; the only failure
    is the `to_str` panic on a piece that cannot be printed -/
theorem C03_delegate_text_translated (br : Nat → Bool) (es : List Expr) (g : Nat) (out : List TInsn)
    (hp : hiPrintOKAll es = true) :
    compile_delegates_text (mkInfoList br es g) out =
      if es.isEmpty then .ok out
      else if isLiteralAll es then .ok (out ++ [.lit (pushLiteralAll es)])
      else match delegText es with
        | some t => .ok (out ++ [.delegate t g (g + groupCountList es)])
        | none => .error (.panic "attempting to format hard expr") := by
  unfold compile_delegates_text
  cases es with
  | nil => simp [mkInfoList]
  | cons e es =>
    have hne : (mkInfoList br (e :: es) g).isEmpty = false := by simp [mkInfoList]
    rw [hne, is_literal_allOf]
    simp only [Bool.false_eq_true, if_false, List.isEmpty_cons]
    by_cases h : isLiteralAll (e :: es) = true
    · simp only [h, if_true, loop0_text_eq br (e :: es) g [] h, List.nil_append]
    · simp only [h, if_false]
      have hl := loop1_text_eq br (e :: es) g DelegateBuilderText.new hp
      cases ht : delegText (e :: es) with
      | none => rw [ht] at hl; simp only at hl ⊢; rw [hl]; simp
      | some t =>
        rw [ht] at hl
        obtain ⟨db', h1, hr, hs, he⟩ := hl
        have hs' : db'.start_group = some g := by rw [hs]; simp [DelegateBuilderText.new]
        have he' : db'.end_group = g + groupCountList (e :: es) := by rw [he]; simp
        have hr' : db'.re = t := by rw [hr]; simp [DelegateBuilderText.new]
        rw [h1]
        simp [DelegateBuilderText.build, hs', he', hr', compile_inner_text]

/-- **`compile_delegate`, text reading** (a single expression) -/
theorem C03_delegate_text_translated_one (br : Nat → Bool) (e : Expr) (g : Nat) (out : List TInsn) (hp : hiPrintOK e = true) :
    compile_delegate_text (mkInfo br e g) out =
      if isLiteral e then .ok (out ++ [.lit (pushLiteral e)])
      else match toStr sp e 1 with
        | some t => .ok (out ++ [.delegate t g (g + groupCount e)])
        | none => .error (.panic "attempting to format hard expr") := by
  unfold compile_delegate_text
  rw [is_literal_eq]
  by_cases h : isLiteral e = true
  · simp only [h, if_true, push_literal_eq br e g [] h, List.nil_append]
  · simp only [h, if_false, push_text_eq br e g DelegateBuilderText.new hp]
    cases toStr sp e 1 with
    | none => rfl
    | some t => simp [DelegateBuilderText.build, DelegateBuilderText.new, compile_inner_text]

/-- the same statement against the model's instruction list: what `compile_delegates` appends to the program (C03d:
    `compileDelegates es g`) is what the text reading appends, instruction for instruction, each with its text -/
theorem C03_delegate_text_matches_program (br : Nat → Bool) (es : List Expr) (g : Nat) (out : List TInsn)
    (hp : hiPrintOKAll es = true) (hs : ∀ e ∈ es, (toStr sp e 1).isSome = true) :
    compile_delegates_text (mkInfoList br es g) out = .ok (out ++ (compileDelegates es g).filterMap insnText) := by
  rw [C03_delegate_text_translated br es g out hp]
  unfold compileDelegates
  obtain ⟨t, ht⟩ := Option.isSome_iff_exists.mp ((delegText_isSome_iff es).mpr hs)
  by_cases h1 : es.isEmpty = true
  · simp [h1]
  · by_cases h2 : isLiteralAll es = true
    · simp [h1, h2, insnText]
    · simp [h1, h2, insnText, ht]

mutual
/-- the repeat-bound condition of C17c follows from the one of `domAt` -/
theorem hiPrintOK_of_hiOK : ∀ (e : Expr), hiOK e = true → hiPrintOK e = true
  | .concat es, h => by simp only [hiOK] at h; simp only [hiPrintOK]; exact hiPrintOKAll_of_hiOKAll es h
  | .alt es, h => by simp only [hiOK] at h; simp only [hiPrintOK]; exact hiPrintOKAll_of_hiOKAll es h
  | .group _ e, h => by simp only [hiOK] at h; simp only [hiPrintOK]; exact hiPrintOK_of_hiOK e h
  | .repeat e _ hi _, h => by
    simp only [hiOK, Bool.and_eq_true] at h
    simp only [hiPrintOK, Bool.and_eq_true]; exact ⟨h.1, hiPrintOK_of_hiOK e h.2⟩
  | .look _ _, _ | .atomic _, _ | .cond _ _ _, _ | .empty, _ | .any _, _ | .assertion _, _ | .literal _ _, _
  | .delegate _ _ _, _ | .backref _, _ | .keepOut, _ | .contPrev, _ | .backrefExists _, _ | .subroutine _, _ => by
    simp [hiPrintOK]
theorem hiPrintOKAll_of_hiOKAll : ∀ (es : List Expr), hiOKAll es = true → hiPrintOKAll es = true
  | [], _ => by simp [hiPrintOKAll]
  | e :: es, h => by
    simp only [hiOKAll, Bool.and_eq_true] at h
    simp only [hiPrintOKAll, Bool.and_eq_true]; exact ⟨hiPrintOK_of_hiOK e h.1, hiPrintOKAll_of_hiOKAll es h.2⟩
end

/-- **never the panic**: every delegate instruction of a built program carries printable expressions (C06c), so the text
    reading attaches a text to it -/
theorem C03_delegate_text_total (tree : Expr) (backrefs : List Nat) (b : Built) (prog : Prog)
    (hb : build tree backrefs = .ok b) (hk : b.kind = .fancy prog) :
    ∀ es sg eg, Insn.delegate es sg eg ∈ prog.body → (delegText es).isSome = true := by
  intro es sg eg hm
  obtain ⟨_, _, h⟩ := C06_delegate_text_total sp tree backrefs b prog hb hk es sg eg hm
  exact (delegText_isSome_iff es).mpr (fun e he => h e he 1)

end Fancy
