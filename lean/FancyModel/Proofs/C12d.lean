import FancyModel.Proofs.C06d
import FancyModel.Proofs.C12c
/-!
# C12 (translator part, scanners) — the expander's scanners are the TRANSLATED `parse_id` / `parse_decimal` of src/parse.rs

In GeneratedExpand.lean (src/expand.rs, Proofs/C12c.lean) the two scanners that `Expander::exec` calls were ADAPTORS: the
model's `Expand.parseId isId` / `Expand.parseDecimal` on the CHARACTERS of the template's tail (`skip` counted in characters).
Meanwhile tools/rs2lean_parse.py translates exactly these two functions from src/parse.rs (GeneratedParse.lean: `GenParse.parse_id`,
`GenParse.parse_decimal`, on `Str` = bytes + offset, `skip` in BYTES) and Proofs/C06d.lean proves them equal to the parser model's
byte-level `Parse.parseId` / `Parse.parseDecimal`. This file is the bridge between the two models, on the bytes of a string:

* `parseId_bytesOf`: `Parse.parseId isAlnum (bytesOf s) 0 (bytes o) (bytes c) allow = .ok ((Expand.parseId (isIdChar isAlnum) s o c allow).map (conv s o))`
  - never a panic, and the byte offsets are the offsets of the character positions (`conv`); through `decodeAt_bytesOf`,
  `findNot_bytesOf` (the `iter.find(..)` over `char_indices()` = `takeWhile` on characters), `startsWithAt_bytesOf` (UTF-8 is
  prefix-free), `dash_at`, `afterId_eq`;
* `parse_id_translated`: `GenParse.parse_id isAlnum ⟨bytesOf s, 0⟩ (strBytes o) (strBytes c) allow =
  .ok ((GenExpand.parse_id (isIdChar isAlnum) s o c allow).map fun (id, skip) => (strBytes id, (strBytes (s.take skip)).length))`;
* `parse_decimal_translated`: `GenParse.parse_decimal ⟨bytesOf s, 0⟩ 0 = .ok (GenExpand.parse_decimal s)` (digits are single bytes);
* **`C12_scanners_translated`**: `scanId` / `scanDec` - what `exec` does with the answers of the translated scanners (the
  identifier is the `&str` with the returned bytes; the template goes on at the returned byte offset) - ARE the adaptors
  `GenExpand.parse_id (isIdChar isAlnum)` / `GenExpand.parse_decimal`;
* **`C12_exec_translated_eq'`**: `genExec (isIdChar isAlnum) x t f st = runSteps f (execT isAlnum x (t.length + 1) t) st`, `execT` = the
  model's `exec` verbatim with `scanId` / `scanDec` in place of its scanners (`execT_eq`: the same steps); instances for the two
  expanders of the crate (`C12_exec_translated_dollar`, `C12_exec_translated_python`).

Side conditions (`DelimOK isAlnum open close`, proved for `""`/`""`, `"{"`/`"}"` given `isAlnum '}' = false`, `"g<"`/`">"` given
`isAlnum '>' = false` - both true of `char::is_alphanumeric`):
1. the `debug_assert!(!close.starts_with(is_id_char))` of `parse_id` holds (else the translated scanner panics in a debug build);
2. `close = "" → open = ""`: with an opener but no closer `parse_id` computes `id_len = s.len()` (not `s.len() - open.len()`) when the
   identifier runs to the end of the string and slices `s[id_start..id_start + s.len()]` - out of range, a PANIC, where
   `Expand.parseId` returns the identifier. Not reachable: `Expander`'s fields are private and its two constructors have a closer
   whenever they have an opener; the parser calls `parse_id` with both or neither.
The template needs no hypothesis: it is a `List Char`, its bytes are `bytesOf t` (valid UTF-8 by construction; `DashWF_bytesOf`).
-/
namespace Fancy.C12d
open Fancy.Parse (Bytes bytesOf decodeAt findNot startsWithAt sliceOk sliceFromOk isBoundary mkChar decodeList isIdChar Res)
open Fancy.Utf8 (off encode encodeChar)
open Fancy.GenParse (res_bind_ok res_pure)

/-- the code points of a string -/
abbrev cps (cs : List Char) : List Nat := cs.map Char.toNat

theorem bytesOf_size (cs : List Char) : (bytesOf cs).size = (encode (cps cs)).length := by
  simp [bytesOf]

theorem bytesOf_get (cs : List Char) (i : Nat) : (bytesOf cs)[i]? = (encode (cps cs))[i]? := by
  simp [bytesOf]

/-- at the byte offset of the `k`-th character the decoder sees exactly that character -/
theorem decodeAt_bytesOf (cs : List Char) (k : Nat) (hk : k < cs.length) :
    ∃ b, (bytesOf cs)[off (cps cs) k]? = some b ∧
      decodeAt (bytesOf cs) (off (cps cs) k) b = (cs[k], (encodeChar cs[k].toNat).length) := by
  have hk' : k < (cps cs).length := by simpa using hk
  obtain ⟨b, hb1, _, hb3⟩ := Utf8.lead_at (cps cs) k hk'
  have hnk : (cps cs)[k] = cs[k].toNat := by simp [cps]
  refine ⟨b, by rw [bytesOf_get]; exact hb1, ?_⟩
  have hex : ((bytesOf cs).extract (off (cps cs) k) (off (cps cs) k + Utf8.codepointLen b)).toList =
      encodeChar (cps cs)[k] := by
    rw [hb3]
    unfold bytesOf
    conv => lhs; rw [Utf8.encode_split3 (cps cs) k hk']
    have hoff : off (cps cs) k = (encode ((cps cs).take k)).length := rfl
    simp [hoff]
  have hdl : decodeList (encodeChar (cps cs)[k]) = [cs[k]] := by
    rw [hnk]; exact Parse.decodeList_encodeChar _
  unfold decodeAt
  simp only [hex, hdl]
  simp only [hb3, hnk]

theorem bytesOf_get_end (cs : List Char) : (bytesOf cs)[off (cps cs) cs.length]? = none := by
  rw [bytesOf_get]
  have : off (cps cs) cs.length = (encode (cps cs)).length := by
    have := Utf8.off_length (cps cs); simpa using this
  rw [this]; simp

/-- `iter.find(|(_, ch)| !pred(ch))` from the `k`-th character: the byte offset of the first character that fails `pred` -/
theorem findNot_bytesOf (pred : Char → Bool) (cs : List Char) : ∀ (f k : Nat), k ≤ cs.length → cs.length - k < f →
    findNot pred f (bytesOf cs) (off (cps cs) k) =
      .ok (if k + ((cs.drop k).takeWhile pred).length < cs.length
            then some (off (cps cs) (k + ((cs.drop k).takeWhile pred).length)) else none) := by
  intro f
  induction f with
  | zero => intro k _ h; omega
  | succ f ih =>
    intro k hk hf
    rcases Nat.lt_or_ge k cs.length with hlt | hge
    · obtain ⟨b, hb, hd⟩ := decodeAt_bytesOf cs k hlt
      have hdrop : cs.drop k = cs[k] :: cs.drop (k + 1) := (List.drop_eq_getElem_cons hlt)
      have hsucc : off (cps cs) k + (encodeChar cs[k].toNat).length = off (cps cs) (k + 1) := by
        have := Utf8.off_succ (cps cs) k (by simpa using hlt)
        simp only [cps, List.getElem_map] at this ⊢
        omega
      rw [findNot, hb]
      simp only [hd]
      rw [hdrop, List.takeWhile_cons]
      cases hp : pred cs[k]
      · simp [hlt]
      · simp only [↓reduceIte, List.length_cons]
        rw [hsucc, ih (k + 1) (by omega) (by omega)]
        have : k + 1 + ((cs.drop (k + 1)).takeWhile pred).length = k + (((cs.drop (k + 1)).takeWhile pred).length + 1) := by omega
        rw [this]
    · have hk2 : k = cs.length := by omega
      subst hk2
      rw [findNot, bytesOf_get_end]
      simp


/-! ## prefixes, boundaries -/

theorem cps_prefix (a b : List Char) : cps a <+: cps b ↔ a <+: b := by
  induction a generalizing b with
  | nil => simp [cps]
  | cons x a ih =>
    cases b with
    | nil => simp [cps]
    | cons y b =>
      simp only [cps, List.map_cons, List.cons_prefix_cons, Char.toNat_inj] at ih ⊢
      rw [ih]

theorem startsWithAt_eq (re : Bytes) : ∀ (lit : List Nat) (ix : Nat),
    startsWithAt re ix lit = lit.isPrefixOf (re.toList.drop ix) := by
  intro lit
  induction lit with
  | nil => intro ix; simp [startsWithAt]
  | cons c lit ih =>
    intro ix
    rw [startsWithAt, ih]
    rcases h : re[ix]? with _ | b
    · have : re.toList.drop ix = [] := by
        have := Array.getElem?_eq_none_iff.mp h
        simp; omega
      simp [this]
    · have hlt := (Array.getElem?_eq_some_iff.mp h).1
      have hb : re[ix] = b := (Array.getElem?_eq_some_iff.mp h).2
      have : re.toList.drop ix = b :: re.toList.drop (ix + 1) := by
        rw [List.drop_eq_getElem_cons (by simpa using hlt)]
        simp [hb]
      rw [this]
      simp only [List.isPrefixOf]
      by_cases hbc : b = c
      · subst hbc; simp
      · have h2 : ¬ c = b := fun e => hbc e.symm
        have e1 : (some b == some c) = false := by simp [hbc]
        rw [e1, beq_false_of_ne h2]

theorem startsWithAt_bytesOf (cs o : List Char) (k : Nat) :
    startsWithAt (bytesOf cs) (off (cps cs) k) (encode (cps o)) = o.isPrefixOf (cs.drop k) := by
  rw [startsWithAt_eq]
  have h1 : (bytesOf cs).toList.drop (off (cps cs) k) = encode (cps (cs.drop k)) := by
    simp only [bytesOf]
    rw [Utf8.drop_off]
    simp [cps]
  rw [h1]
  rw [Bool.eq_iff_iff, List.isPrefixOf_iff_prefix, List.isPrefixOf_iff_prefix, Utf8.encode_prefix_iff, cps_prefix]

theorem boundary_bytesOf (cs : List Char) (k : Nat) (hk : k ≤ cs.length) :
    isBoundary (bytesOf cs) (off (cps cs) k) = true := by
  unfold bytesOf
  rw [Parse.isBoundary_toArray]
  exact (Utf8.C05_boundary_iff (cps cs) _).mpr ⟨k, by simpa using hk, rfl⟩


theorem len_le_size (cs : List Char) : cs.length ≤ (bytesOf cs).size := by
  rw [bytesOf_size]
  have h := Utf8.C05_count_lead (cps cs)
  have h2 := List.countP_le_length (p := Utf8.isLead) (l := encode (cps cs))
  have h3 : (cps cs).length = cs.length := by simp [cps]
  omega

theorem off_len (cs : List Char) : off (cps cs) cs.length = (bytesOf cs).size := by
  rw [bytesOf_size]
  have := Utf8.off_length (cps cs)
  simpa using this

theorem off_mono (cs : List Char) (j k : Nat) (hjk : j < k) (hk : k ≤ cs.length) : off (cps cs) j < off (cps cs) k :=
  Utf8.off_lt_of_lt (cps cs) j k hjk (by simpa using hk)

/-- is the byte at the offset of the `k`-th character the ASCII `-`? -/
theorem dash_at (cs : List Char) (k : Nat) (hk : k ≤ cs.length) :
    ((bytesOf cs)[off (cps cs) k]? == some 45) = (match cs.drop k with | '-' :: _ => true | _ => false) := by
  rcases Nat.lt_or_ge k cs.length with hlt | hge
  · obtain ⟨b, hb, hd⟩ := decodeAt_bytesOf cs k hlt
    have hdrop : cs.drop k = cs[k] :: cs.drop (k + 1) := List.drop_eq_getElem_cons hlt
    rw [hb, hdrop]
    by_cases h45 : b = 45
    · subst h45
      have := Fancy.GenParse.Ident.decodeAt_ascii (bytesOf cs) (off (cps cs) k) 45 hb (by omega)
      rw [this] at hd
      have hc : cs[k] = '-' := by
        have := congrArg Prod.fst hd
        simp only at this
        rw [← this]; decide
      simp [hc]
    · have hne : cs[k] ≠ '-' := by
        intro hc
        have hg := Utf8.get_at (cps cs) k 0 (by simpa using hlt) (Utf8.encodeChar_length_pos _)
        rw [Nat.add_zero, ← bytesOf_get, hb] at hg
        have hnk : (cps cs)[k]'(by simpa using hlt) = cs[k].toNat := by simp [cps]
        rw [hnk, hc] at hg
        have h1 : (encodeChar '-'.toNat)[0]? = some 45 := by decide
        rw [h1] at hg
        exact h45 (Option.some.inj hg)
      have e1 : (some b == some 45) = false := by simp [h45]
      rw [e1]
      split
      · rename_i heq; exact absurd (List.cons.inj heq).1 hne
      · rfl
  · have hk2 : k = cs.length := by omega
    subst hk2
    rw [bytesOf_get_end]
    simp


open Fancy.Expand (idCharsOf closeOk)

theorem idCharsOf_norel (isId : Char → Bool) (body : List Char) (allow : Bool)
    (h : (allow && (match body with | '-' :: _ => true | _ => false)) = false) :
    idCharsOf isId body allow = body.takeWhile isId := by
  unfold idCharsOf
  split
  · rename_i rest; simp at h
  · rfl

theorem idCharsOf_length_le (isId : Char → Bool) (body : List Char) (allow : Bool) :
    (idCharsOf isId body allow).length ≤ body.length := by
  unfold idCharsOf
  split
  · simp only [List.length_cons]; exact Nat.succ_le_succ (List.takeWhile_prefix _).length_le
  · exact (List.takeWhile_prefix _).length_le

/-- where the identifier ends: the two `iter.find(..)` of `parse_id` on the bytes of a string -/
theorem afterId_eq (isAlnum : Char → Bool) (s : List Char) (ol : Nat) (hol : ol ≤ s.length) (allow : Bool) :
    (if (allow && (bytesOf s)[off (cps s) ol]? == some (Parse.ch '-')) = true then
        findNot Parse.isAsciiDigitChar ((bytesOf s).size + 1) (bytesOf s) (off (cps s) ol + 1)
      else findNot (isIdChar isAlnum) ((bytesOf s).size + 1) (bytesOf s) (off (cps s) ol)) =
      .ok (if ol + (idCharsOf (isIdChar isAlnum) (s.drop ol) allow).length < s.length
            then some (off (cps s) (ol + (idCharsOf (isIdChar isAlnum) (s.drop ol) allow).length)) else none) := by
  have hsz := len_le_size s
  have h45 : Parse.ch '-' = 45 := by decide
  rw [h45, dash_at s ol hol]
  by_cases hrel : (allow && (match s.drop ol with | '-' :: _ => true | _ => false)) = true
  · rw [if_pos hrel]
    simp only [Bool.and_eq_true] at hrel
    obtain ⟨ha, hd⟩ := hrel
    subst ha
    rcases hb : s.drop ol with _ | ⟨c, rest⟩
    · rw [hb] at hd; simp at hd
    · rw [hb] at hd
      have hc : c = '-' := by
        split at hd
        · rename_i heq; exact (List.cons.inj heq).1
        · simp at hd
      subst hc
      have hlt : ol < s.length := by
        rcases Nat.lt_or_ge ol s.length with h | h
        · exact h
        · rw [List.drop_of_length_le h] at hb; cases hb
      have hdrop : s.drop ol = s[ol] :: s.drop (ol + 1) := List.drop_eq_getElem_cons hlt
      rw [hdrop] at hb
      obtain ⟨h1, h2⟩ := List.cons.inj hb
      have hsucc : off (cps s) ol + 1 = off (cps s) (ol + 1) := by
        have := Utf8.off_succ (cps s) ol (by simpa using hlt)
        have hnk : (cps s)[ol]'(by simpa using hlt) = s[ol].toNat := by simp [cps]
        rw [hnk, h1] at this
        have hl : (encodeChar '-'.toNat).length = 1 := by decide
        omega
      rw [hsucc, findNot_bytesOf _ s _ (ol + 1) (by omega) (by omega)]
      have hid : idCharsOf (isIdChar isAlnum) ('-' :: rest) true = '-' :: rest.takeWhile Expand.isDigit := rfl
      rw [hid, ← h2]
      have hdig : Parse.isAsciiDigitChar = Expand.isDigit := rfl
      rw [hdig]
      simp only [List.length_cons]
      have : ol + 1 + ((s.drop (ol + 1)).takeWhile Expand.isDigit).length =
          ol + (((s.drop (ol + 1)).takeWhile Expand.isDigit).length + 1) := by omega
      rw [this]
  · have hrel' : (allow && (match s.drop ol with | '-' :: _ => true | _ => false)) = false := by
      simpa using hrel
    rw [if_neg hrel, idCharsOf_norel _ _ _ hrel', findNot_bytesOf _ s _ ol hol (by omega)]


/-- what the delimiters of an expander satisfy (`""`/`""`, `"{"`/`"}"`, `"g<"`/`">"`): the `debug_assert!` of `parse_id` holds, and
    a missing closer comes with a missing opener (else `parse_id` slices `s[open.len()..open.len() + s.len()]`: a panic) -/
structure DelimOK (isAlnum : Char → Bool) (o c : List Char) : Prop where
  close : ∀ b rest, encode (cps c) = b :: rest → isIdChar isAlnum (mkChar b) = false
  empty : c = [] → o = []

/-- character positions of the model's answer as byte offsets -/
def conv (s o : List Char) (p : List Char × Nat) : Nat × Nat × Nat :=
  (off (cps s) o.length, off (cps s) (o.length + p.1.length), off (cps s) p.2)

theorem encode_isEmpty (c : List Char) : (encode (cps c)).isEmpty = c.isEmpty := by
  cases c with
  | nil => rfl
  | cons x c =>
    have := Utf8.encodeChar_length_pos x.toNat
    simp only [cps, List.map_cons, Utf8.encode_cons, List.isEmpty_cons]
    cases h : encodeChar x.toNat with
    | nil => rw [h] at this; simp at this
    | cons _ _ => rfl

theorem sliceFrom_ok (s : List Char) (k : Nat) (hk : k ≤ s.length) (site : String) :
    Parse.sliceFrom (bytesOf s) (off (cps s) k) site = .ok () := by
  simp [Parse.sliceFrom, sliceFromOk, boundary_bytesOf s k hk]

theorem sliceOk_ok (s : List Char) (a b : Nat) (hab : a ≤ b) (hb : b ≤ s.length) :
    sliceOk (bytesOf s) (off (cps s) a) (off (cps s) b) = true := by
  have h1 : off (cps s) a ≤ off (cps s) b := Utf8.off_le_of_le (cps s) a b hab (by simpa using hb)
  have h2 : off (cps s) b ≤ (bytesOf s).size := by
    rw [bytesOf_size]; exact Utf8.off_le_length _ _
  simp [sliceOk, h1, h2, boundary_bytesOf s a (by omega), boundary_bytesOf s b hb]

theorem sliceOk_ok' (s : List Char) : sliceOk (bytesOf s) 0 (off (cps s) s.length) = true := by
  have := sliceOk_ok s 0 s.length (by omega) (Nat.le_refl _)
  rwa [Utf8.off_zero] at this

/-- **the parser's `parse_id` on the bytes of a string is the expander's scanner on its characters** -/
theorem parseId_bytesOf (isAlnum : Char → Bool) (s o c : List Char) (allow : Bool) (h : DelimOK isAlnum o c) :
    Parse.parseId isAlnum (bytesOf s) 0 (encode (cps o)) (encode (cps c)) allow =
      .ok ((Expand.parseId (isIdChar isAlnum) s o c allow).map (conv s o)) := by
  unfold Parse.parseId Expand.parseId
  rw [if_neg (by
    intro hm
    split at hm
    · rename_i b r heq; rw [h.close b r heq] at hm; cases hm
    · cases hm)]
  have h0 : (0 : Nat) = off (cps s) 0 := (Utf8.off_zero _).symm
  have hsw : startsWithAt (bytesOf s) 0 (encode (cps o)) = o.isPrefixOf s := by
    conv => lhs; rw [h0]
    rw [startsWithAt_bytesOf]; simp
  rw [hsw]
  cases hpre : o.isPrefixOf s
  · simp
  · simp only [Bool.not_true, Bool.false_eq_true, ↓reduceIte]
    have hp : cps o <+: (cps s).drop 0 := by
      simp only [List.drop_zero]; exact (cps_prefix o s).mpr (List.isPrefixOf_iff_prefix.mp hpre)
    obtain ⟨e1, e2, _⟩ := Utf8.C05_lit_end (cps s) (cps o) 0 (by omega) hp
    have hol : o.length ≤ s.length := by simpa [cps] using e2
    have hst : 0 + (encode (cps o)).length = off (cps s) o.length := by
      rw [Utf8.off_zero] at e1; simpa [cps] using e1
    rw [hst, sliceFrom_ok s _ hol]
    have haf := afterId_eq isAlnum s o.length hol allow
    rw [haf]
    simp only [res_bind_ok]
    -- the identifier
    generalize hids : idCharsOf (isIdChar isAlnum) (s.drop o.length) allow = ids
    have hidle : o.length + ids.length ≤ s.length := by
      have := idCharsOf_length_le (isIdChar isAlnum) (s.drop o.length) allow
      rw [hids] at this
      simp only [List.length_drop] at this; omega
    have hafter : (s.drop o.length).drop ids.length = s.drop (o.length + ids.length) := by
      rw [List.drop_drop]
    rw [hafter]
    by_cases hlt : o.length + ids.length < s.length
    · -- something follows the identifier
      rw [if_pos hlt]
      simp only [sliceFrom_ok s _ (Nat.le_of_lt hlt), startsWithAt_bytesOf, res_bind_ok]
      have hne : s.drop (o.length + ids.length) ≠ [] := by
        intro he; have := congrArg List.length he; simp at this; omega
      have hck : closeOk c (s.drop (o.length + ids.length)) = c.isPrefixOf (s.drop (o.length + ids.length)) := by
        unfold closeOk
        split
        · rename_i he; exact absurd he hne
        · rfl
      rw [hck]
      cases hcp : c.isPrefixOf (s.drop (o.length + ids.length))
      · simp
      · simp only [↓reduceIte, Bool.not_true, Bool.false_or]
        cases ids with
        | nil => simp
        | cons x ids =>
          have hpos : off (cps s) o.length < off (cps s) (o.length + (x :: ids).length) :=
            off_mono s _ _ (by simp) hidle
          have hl : ∃ l, off (cps s) (o.length + (x :: ids).length) - off (cps s) o.length = l + 1 :=
            ⟨_, (Nat.succ_pred_eq_of_pos (by omega)).symm⟩
          obtain ⟨l, hl⟩ := hl
          rw [hl]
          simp only [res_pure, res_bind_ok, List.isEmpty_cons, Bool.false_eq_true, ↓reduceIte]
          have hend : off (cps s) o.length + (l + 1) = off (cps s) (o.length + (x :: ids).length) := by omega
          rw [hend, sliceOk_ok s _ _ (by omega) hidle]
          simp only [Bool.not_true, Bool.false_eq_true, ↓reduceIte, Option.map_some, conv]
          have hpc : cps c <+: (cps s).drop (o.length + (x :: ids).length) := by
            have := (cps_prefix c _).mpr (List.isPrefixOf_iff_prefix.mp hcp)
            simpa [cps, List.map_drop] using this
          obtain ⟨f1, _, _⟩ := Utf8.C05_lit_end (cps s) (cps c) _ (by simpa using hidle) hpc
          have f1' : off (cps s) (o.length + (x :: ids).length) + (encode (cps c)).length =
              off (cps s) (o.length + (x :: ids).length + c.length) := by simpa [cps] using f1
          rw [Nat.sub_zero, f1']
    · -- the identifier runs to the end of the string
      rw [if_neg hlt]
      have hend : o.length + ids.length = s.length := by omega
      have hnil : s.drop (o.length + ids.length) = [] := by rw [hend]; simp
      rw [hnil]
      simp only [closeOk, encode_isEmpty]
      by_cases hc : c.isEmpty = true
      · have hc' : c = [] := List.isEmpty_iff.mp hc
        have ho : o = [] := h.empty hc'
        subst hc' ho
        simp only [List.length_nil, Nat.zero_add] at hend hidle ⊢
        simp only [pure, Nat.sub_zero]
        cases ids with
        | nil =>
          have : s = [] := List.eq_nil_of_length_eq_zero (by simpa using hend.symm)
          subst this
          simp [bytesOf, cps, encode]
        | cons x ids =>
          have hsz : (bytesOf s).size = off (cps s) s.length := (off_len s).symm
          have hpos : 0 < off (cps s) s.length := by
            have := off_mono s 0 s.length (by rw [← hend]; simp) (Nat.le_refl _)
            rw [Utf8.off_zero] at this; exact this
          obtain ⟨l, hl⟩ : ∃ l, (bytesOf s).size = l + 1 := ⟨_, (Nat.succ_pred_eq_of_pos (by omega)).symm⟩
          rw [hl]
          simp only [List.isEmpty_nil, ↓reduceIte, res_bind_ok]
          have e3 : l + 1 = off (cps s) s.length := by omega
          rw [e3]
          simp only [Utf8.off_zero, Nat.zero_add, sliceOk_ok' s]
          simp [conv, hend, cps, Utf8.off_zero, encode]
      · simp [hc]


/-! ## the translated `parse_id` -/

theorem idCharsOf_prefix (isId : Char → Bool) (body : List Char) (allow : Bool) : idCharsOf isId body allow <+: body := by
  unfold idCharsOf
  split
  · exact List.prefix_cons_inj _ |>.mpr (List.takeWhile_prefix _)
  · exact List.takeWhile_prefix _

/-- the bytes between two character offsets are the encoding of the characters between them -/
theorem extract_bytesOf (s : List Char) (a b : Nat) (hab : a ≤ b) (hb : b ≤ s.length) :
    ((bytesOf s).extract (off (cps s) a) (off (cps s) b)).toList = encode (cps ((s.drop a).take (b - a))) := by
  have h := Utf8.C05_slice_ok (cps s) a b hab (by simpa using hb)
  unfold Utf8.slice at h
  split at h
  · have h' := Option.some.inj h
    simp only [bytesOf, List.extract_toArray, List.extract_eq_take_drop]
    rw [h']
    simp [cps, List.map_take, List.map_drop]
  · cases h

open Fancy.GenExpand (strBytes) in
/-- **`parse_id` as translated from src/parse.rs, on the bytes of a string, returns the bytes of the identifier the expander's
    scanner returns and the BYTE length of the prefix it skips** (the scanner counts that prefix in characters) -/
theorem parse_id_translated (isAlnum : Char → Bool) (s o c : List Char) (allow : Bool) (h : DelimOK isAlnum o c) :
    GenParse.parse_id isAlnum ⟨bytesOf s, 0⟩ (strBytes o) (strBytes c) allow =
      .ok ((GenExpand.parse_id (isIdChar isAlnum) s o c allow).map
        (fun p => (strBytes p.1, (strBytes (s.take p.2)).length))) := by
  rw [GenParse.Ident.parse_id_eq isAlnum (bytesOf s) 0 _ _ allow (GenParse.Ident.DashWF_bytesOf s)]
  show GenParse.Res.mapv _ (Parse.parseId isAlnum (bytesOf s) 0 (encode (cps o)) (encode (cps c)) allow) = _
  rw [parseId_bytesOf isAlnum s o c allow h]
  simp only [GenParse.Res.mapv, GenExpand.parse_id, Option.map_map]
  congr 1
  cases hp : Expand.parseId (isIdChar isAlnum) s o c allow with
  | none => rfl
  | some p =>
    obtain ⟨ids, skip⟩ := p
    simp only [Option.map_some, Function.comp, conv]
    -- what `parseId` returned
    unfold Expand.parseId at hp
    split at hp
    · cases hp
    · rename_i hpre
      split at hp
      · cases hp
      · obtain ⟨rfl, rfl⟩ := Prod.mk.inj (Option.some.inj hp)
        have hpre' : o.isPrefixOf s = true := by simpa using hpre
        have hol : o.length ≤ s.length := (List.isPrefixOf_iff_prefix.mp hpre').length_le
        have hpf := idCharsOf_prefix (isIdChar isAlnum) (s.drop o.length) allow
        have hle := hpf.length_le
        simp only [List.length_drop] at hle
        rw [extract_bytesOf s _ _ (by omega) (by omega), Nat.add_sub_cancel_left, ← List.prefix_iff_eq_take.mp hpf]
        simp [strBytes, off, cps, List.map_take]


theorem delim_none (isAlnum : Char → Bool) : DelimOK isAlnum [] [] :=
  ⟨fun b r h => by simp [cps, encode] at h, fun _ => rfl⟩

theorem delim_braces (isAlnum : Char → Bool) (h : isAlnum '}' = false) : DelimOK isAlnum ['{'] ['}'] := by
  refine ⟨fun b r hb => ?_, fun hc => by cases hc⟩
  have he : encode (cps ['}']) = [125] := by decide
  rw [he] at hb
  obtain ⟨rfl, _⟩ := List.cons.inj hb
  have hm : mkChar 125 = '}' := by decide
  rw [hm, isIdChar, h]; decide

theorem delim_python (isAlnum : Char → Bool) (h : isAlnum '>' = false) : DelimOK isAlnum ['g', '<'] ['>'] := by
  refine ⟨fun b r hb => ?_, fun hc => by cases hc⟩
  have he : encode (cps ['>']) = [62] := by decide
  rw [he] at hb
  obtain ⟨rfl, _⟩ := List.cons.inj hb
  have hm : mkChar 62 = '>' := by decide
  rw [hm, isIdChar, h]; decide

/-! ## `parse_decimal` -/

theorem isDigit_char_iff (c : Char) : Expand.isDigit c = true ↔ 48 ≤ c.toNat ∧ c.toNat ≤ 57 := by
  simp only [Expand.isDigit, Bool.and_eq_true, decide_eq_true_eq, Char.le_def, UInt32.le_iff_toNat_le]
  have h0 : ('0' : Char).val.toNat = 48 := by decide
  have h9 : ('9' : Char).val.toNat = 57 := by decide
  rw [h0, h9]; rfl

/-- the leading ASCII digits of the bytes of a string are the code points of its leading digits -/
theorem takeWhile_digits (s : List Char) :
    (encode (cps s)).takeWhile Parse.isDigit = (s.takeWhile Expand.isDigit).map Char.toNat := by
  induction s with
  | nil => rfl
  | cons c s ih =>
    simp only [cps, List.map_cons, Utf8.encode_cons] at ih ⊢
    by_cases hd : Expand.isDigit c = true
    · have := (isDigit_char_iff c).mp hd
      have he : encodeChar c.toNat = [c.toNat] := by unfold encodeChar; rw [if_pos (by omega)]
      have hb : Parse.isDigit c.toNat = true := by simp [Parse.isDigit]; omega
      rw [he, List.takeWhile_cons_of_pos hd]
      simp only [List.singleton_append, List.map_cons]
      rw [List.takeWhile_cons_of_pos hb, ih]
    · have hd' : Expand.isDigit c = false := by simpa using hd
      rw [List.takeWhile_cons_of_neg hd]
      obtain ⟨b, rest, he, hl, _, _⟩ := Utf8.encodeChar_shape c.toNat
      have hnb : Parse.isDigit b = false := by
        cases hb : Parse.isDigit b with
        | false => rfl
        | true =>
          exfalso
          have hb' : 48 ≤ b ∧ b ≤ 57 := by simpa [Parse.isDigit] using hb
          have : b = c.toNat := by
            unfold encodeChar at he
            split at he
            · exact (List.cons.inj he).1.symm
            · split at he
              · have := (List.cons.inj he).1; omega
              · split at he
                · have := (List.cons.inj he).1; omega
                · have := (List.cons.inj he).1; omega
          rw [this] at hb'
          exact hd ((isDigit_char_iff c).mpr hb')
      rw [he]
      simp only [List.cons_append, List.map_nil]
      rw [List.takeWhile_cons_of_neg (by simp [hnb])]

theorem digitsVal_map (ds : List Char) : Parse.digitsVal (ds.map Char.toNat) = Expand.digitsVal ds := by
  unfold Parse.digitsVal Expand.digitsVal
  rw [List.foldl_map]
  rfl


theorem encode_digits (ds : List Char) (h : ∀ c ∈ ds, Expand.isDigit c = true) : encode (cps ds) = ds.map Char.toNat := by
  induction ds with
  | nil => rfl
  | cons c ds ih =>
    have := (isDigit_char_iff c).mp (h c (by simp))
    have he : encodeChar c.toNat = [c.toNat] := by unfold encodeChar; rw [if_pos (by omega)]
    simp only [cps, List.map_cons, Utf8.encode_cons, he, List.singleton_append] at ih ⊢
    rw [ih (fun x hx => h x (by simp [hx]))]

/-- **`parse_decimal` as translated from src/parse.rs, on the bytes of a string, is the expander's scanner on its characters**
    (digits are single bytes: the byte `skip` is the character `skip`) -/
theorem parse_decimal_translated (s : List Char) :
    GenParse.parse_decimal ⟨bytesOf s, 0⟩ 0 = .ok (GenExpand.parse_decimal s) := by
  rw [GenParse.Leaf.parse_decimal_eq]
  unfold Parse.parseDecimal GenExpand.parse_decimal Expand.parseDecimal
  have hl : (bytesOf s).toList.drop 0 = encode (cps s) := by simp [bytesOf]
  simp only [hl, takeWhile_digits, List.length_map, Nat.zero_add]
  generalize hds : s.takeWhile Expand.isDigit = ds
  have hall : ∀ c ∈ ds, Expand.isDigit c = true := by
    intro c hc; rw [← hds] at hc
    exact List.all_eq_true.mp (List.all_takeWhile (p := Expand.isDigit) (l := s)) c hc
  have hpre : ds <+: s := by rw [← hds]; exact List.takeWhile_prefix _
  have hoff : off (cps s) ds.length = ds.length := by
    unfold off
    have : (cps s).take ds.length = cps ds := by
      simp only [cps, ← List.map_take]
      rw [← List.prefix_iff_eq_take.mp hpre]
    rw [this, encode_digits ds hall]; simp
  have hsl : sliceOk (bytesOf s) 0 ds.length = true := by
    have := sliceOk_ok s 0 ds.length (by omega) hpre.length_le
    rwa [Utf8.off_zero, hoff] at this
  rw [hsl, digitsVal_map]
  simp only [Bool.not_true, Bool.false_eq_true, ↓reduceIte, List.isEmpty_map]
  cases ds with
  | nil => rfl
  | cons d ds =>
    simp only [List.isEmpty_cons, Bool.false_eq_true, ↓reduceIte]
    have hu : Parse.usizeMax = UNSET := rfl
    rw [hu]
    by_cases hv : Expand.digitsVal (d :: ds) ≤ UNSET
    · rw [if_pos hv, if_neg (Nat.not_lt.mpr hv)]
    · rw [if_neg hv, if_pos (Nat.lt_of_not_le hv)]


/-! ## the expander with the translated scanners -/

open Fancy.GenExpand (strBytes fromUtf8)
open Fancy.Expand (Expander Step)

theorem parseId_skip_le (isId : Char → Bool) (s o c : List Char) (allow : Bool) (ids : List Char) (skip : Nat)
    (h : Expand.parseId isId s o c allow = some (ids, skip)) : skip ≤ s.length := by
  unfold Expand.parseId at h
  split at h
  · cases h
  · rename_i hpre
    split at h
    · cases h
    · rename_i hc
      obtain ⟨rfl, rfl⟩ := Prod.mk.inj (Option.some.inj h)
      have hpre' : o.isPrefixOf s = true := by simpa using hpre
      have hol : o.length ≤ s.length := (List.isPrefixOf_iff_prefix.mp hpre').length_le
      have hle := idCharsOf_length_le isId (s.drop o.length) allow
      simp only [List.length_drop] at hle
      have hck : closeOk c ((s.drop o.length).drop (idCharsOf isId (s.drop o.length) allow).length) = true := by
        simp only [Bool.or_eq_true, Bool.not_eq_true', not_or, Bool.not_eq_false] at hc
        exact hc.1
      unfold closeOk at hck
      split at hck
      · have : c.length = 0 := by simpa [List.isEmpty_iff] using hck
        omega
      · have := (List.isPrefixOf_iff_prefix.mp hck).length_le
        simp only [List.length_drop] at this
        omega

/-- what `exec` does with the answer of the TRANSLATED `parse_id` on `tail: &str`: the identifier is the `&str` made of the
    returned bytes, and the template goes on at the returned BYTE offset, i.e. after as many characters as there are lead
    bytes before it -/
noncomputable def scanId (isAlnum : Char → Bool) (tail o c : List Char) (allow : Bool) : Option (List Char × Nat) :=
  match GenParse.parse_id isAlnum ⟨bytesOf tail, 0⟩ (strBytes o) (strBytes c) allow with
  | .ok (some (idb, skipb)) => (fromUtf8 idb).map (fun id => (id, ((strBytes tail).take skipb).countP Utf8.isLead))
  | _ => none

/-- the answer of the TRANSLATED `parse_decimal(tail, 0)` (digits are single bytes) -/
def scanDec (tail : List Char) : Option (Nat × Nat) :=
  match GenParse.parse_decimal ⟨bytesOf tail, 0⟩ 0 with
  | .ok r => r
  | _ => none

/-- **the scanners the generated `exec` calls (adaptors of GenExpandPrelude.lean) ARE the translated `parse_id` /
    `parse_decimal` of src/parse.rs** on the bytes of the template's tail, for delimiters as the expanders have them -/
theorem C12_scanners_translated (isAlnum : Char → Bool) (tail o c : List Char) (allow : Bool) (h : DelimOK isAlnum o c) :
    scanId isAlnum tail o c allow = GenExpand.parse_id (isIdChar isAlnum) tail o c allow ∧
    scanDec tail = GenExpand.parse_decimal tail := by
  constructor
  · unfold scanId
    rw [parse_id_translated isAlnum tail o c allow h]
    cases hp : GenExpand.parse_id (isIdChar isAlnum) tail o c allow with
    | none => rfl
    | some p =>
      obtain ⟨ids, skip⟩ := p
      have hle := parseId_skip_le _ _ _ _ _ _ _ hp
      simp only [Option.map_some, Fancy.fromUtf8_strBytes]
      have hsplit : strBytes tail = strBytes (tail.take skip) ++ strBytes (tail.drop skip) := by
        simp only [strBytes, ← Utf8.encode_append, ← List.map_append, List.take_append_drop]
      rw [hsplit, List.take_left']
      · have := Utf8.C05_count_lead (cps (tail.take skip))
        simp only [strBytes, cps] at this ⊢
        rw [this]; simp; omega
      · rfl
  · unfold scanDec
    rw [parse_decimal_translated]

/-- `Expander::exec` (Model/Expand.lean's `exec`, verbatim) with the translated scanners in place of the model's -/
noncomputable def execT (isAlnum : Char → Bool) (x : Expander) : Nat → List Char → List Step
  | 0, _ => []
  | _, [] => []
  | fuel + 1, c :: tail =>
    if c == x.subChar then
      match tail with
      | d :: _ =>
        if d == x.subChar then .char x.subChar :: execT isAlnum x fuel (tail.drop 1) else
        match (scanId isAlnum tail x.openD x.closeD false).orElse
                (fun _ => if x.allowUndelimited then scanId isAlnum tail [] [] false else none) with
        | some (id, skip) => .groupName id :: execT isAlnum x fuel (tail.drop skip)
        | none =>
          match scanDec tail with
          | some (skip, n) => .groupNum n :: execT isAlnum x fuel (tail.drop skip)
          | none => .error :: .char x.subChar :: execT isAlnum x fuel tail
      | [] => [.error, .char x.subChar]
    else .char c :: execT isAlnum x fuel tail

theorem execT_eq (isAlnum : Char → Bool) (x : Expander) (hx : DelimOK isAlnum x.openD x.closeD) :
    ∀ (fuel : Nat) (t : List Char), execT isAlnum x fuel t = Expand.exec (isIdChar isAlnum) x fuel t := by
  intro fuel
  induction fuel with
  | zero => intro t; simp [execT, Expand.exec]
  | succ fuel ih =>
    intro t
    cases t with
    | nil => simp [execT, Expand.exec]
    | cons c tail =>
      have h1 := fun tl => (C12_scanners_translated isAlnum tl x.openD x.closeD false hx).1
      have h2 := fun tl => (C12_scanners_translated isAlnum tl [] [] false (delim_none isAlnum)).1
      have h3 := fun tl => (C12_scanners_translated isAlnum tl [] [] false (delim_none isAlnum)).2
      simp only [execT, Expand.exec, h1, h2, h3, ih, GenExpand.parse_id, GenExpand.parse_decimal]
      by_cases hc : (c == x.subChar) = true
      · rw [if_pos hc, if_pos hc]
        cases tail with
        | nil => rfl
        | cons d tl =>
          by_cases hd : (d == x.subChar) = true
          · simp only [hd, if_true]
          · simp only [hd, if_false]
            generalize ((Expand.parseId (isIdChar isAlnum) (d :: tl) x.openD x.closeD false).orElse fun _ =>
              if x.allowUndelimited = true then Expand.parseId (isIdChar isAlnum) (d :: tl) [] [] false else none) = r
            cases r with
            | some p => cases p; rfl
            | none =>
              generalize Expand.parseDecimal (d :: tl) = q
              cases q with
              | some p => cases p; rfl
              | none => rfl
      · rw [if_neg hc, if_neg hc]

/-- **`exec` as translated hands the callback the steps computed with the TRANSLATED scanners of src/parse.rs** - no
    hand-written scanner is left between src/expand.rs + src/parse.rs and the callback -/
theorem C12_exec_translated_eq' {σ ε : Type} (isAlnum : Char → Bool) (x : Expander) (t : List Char)
    (hx : DelimOK isAlnum x.openD x.closeD) (f : Step → σ → Except ε σ) (st : σ) :
    GenExpand.genExec (isIdChar isAlnum) x t f st = Fancy.runSteps f (execT isAlnum x (t.length + 1) t) st := by
  rw [execT_eq isAlnum x hx, Fancy.C12_exec_translated_eq]
  rfl

/-- the two expanders of the crate -/
theorem C12_exec_translated_dollar {σ ε : Type} (isAlnum : Char → Bool) (h : isAlnum '}' = false) (t : List Char)
    (f : Step → σ → Except ε σ) (st : σ) :
    GenExpand.genExec (isIdChar isAlnum) Expand.dollar t f st =
      Fancy.runSteps f (execT isAlnum Expand.dollar (t.length + 1) t) st :=
  C12_exec_translated_eq' isAlnum _ t (delim_braces isAlnum h) f st

theorem C12_exec_translated_python {σ ε : Type} (isAlnum : Char → Bool) (h : isAlnum '>' = false) (t : List Char)
    (f : Step → σ → Except ε σ) (st : σ) :
    GenExpand.genExec (isIdChar isAlnum) Expand.python t f st =
      Fancy.runSteps f (execT isAlnum Expand.python (t.length + 1) t) st :=
  C12_exec_translated_eq' isAlnum _ t (delim_python isAlnum h) f st

end Fancy.C12d
