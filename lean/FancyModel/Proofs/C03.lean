import FancyModel.Spec.Sem
/-!
# C03 — results do not depend on how the pattern is split between VM and automata

Specification side, unconditional: an empty positive look-ahead `(?=)` is the identity of the
reference semantics, inserting it before or after a sub-expression changes nothing
(`C03_inject_before`, `C03_inject_after`), and the semantics is a congruence — replacing a
sub-expression by one with the same semantics, under any constructor, leaves the semantics of the
whole unchanged (`C03_congr_*`). Together: for every one-hole context `C` (built from these
constructors), `sem (C[(?=) x]) = sem (C[x]) = sem (C[x (?=)])`.

One position is excluded, and the code excludes it too: directly under a look-behind the shape of
the body matters (a top-level alternation is lowered per alternative); `(?<=(?=)(?:a|bb))` does not
compile ("whenever the modified pattern still compiles" in the property).

Engine side (VM + delegation gives the same result for `P` and `inject P`): decided by the in-process
metamorphic comparison on the implementation plus the tie of both spellings to the model.
-/
namespace Fancy

/-- `(?=)` is the identity -/
theorem C03_empty_lookahead_id (c : Ctx) (st : St) : sem c (.look .empty .ahead) st = [st] := by
  simp [sem, firstOnly]

theorem flatMap_semConcat_nil (c : Ctx) (l : List St) : l.flatMap (semConcat c []) = l := by
  induction l with
  | nil => rfl
  | cons a as ih => simp [semConcat, ih]

theorem semConcat_empty_la (c : Ctx) (r : St) : semConcat c [.look .empty .ahead] r = [r] := by
  simp [semConcat, sem, firstOnly]

theorem flatMap_semConcat_empty_la (c : Ctx) (l : List St) :
    l.flatMap (semConcat c [.look .empty .ahead]) = l := by
  induction l with
  | nil => rfl
  | cons a as ih => simp [semConcat_empty_la, ih]

theorem C03_inject_before (c : Ctx) (x : Expr) (st : St) :
    sem c (.concat [.look .empty .ahead, x]) st = sem c x st := by
  simp only [sem, semConcat, firstOnly, List.head?_cons, Option.toList_some, List.map_cons, List.map_nil,
    List.flatMap_cons, List.flatMap_nil, List.append_nil]
  exact flatMap_semConcat_nil c _

theorem C03_inject_after (c : Ctx) (x : Expr) (st : St) :
    sem c (.concat [x, .look .empty .ahead]) st = sem c x st := by
  simp only [sem, semConcat]
  exact flatMap_semConcat_empty_la c _

/-- inside a longer concatenation -/
theorem C03_inject_before_in_concat (c : Ctx) (es : List Expr) (st : St) :
    semConcat c (.look .empty .ahead :: es) st = semConcat c es st := by
  simp [sem, semConcat, firstOnly]

theorem semConcat_append (c : Ctx) (a b : List Expr) (st : St) :
    semConcat c (a ++ b) st = (semConcat c a st).flatMap (semConcat c b) := by
  induction a generalizing st with
  | nil => simp [semConcat]
  | cons e es ih =>
    simp only [List.cons_append, semConcat, List.flatMap_assoc]
    congr 1
    funext r
    exact ih r

theorem C03_inject_after_in_concat (c : Ctx) (es : List Expr) (st : St) :
    semConcat c (es ++ [.look .empty .ahead]) st = semConcat c es st := by
  rw [semConcat_append]
  exact flatMap_semConcat_empty_la c _

/-! ### Congruence: equal semantics of a part ⇒ equal semantics of the whole -/

variable (c : Ctx) {x y : Expr}

theorem C03_congr_group (h : ∀ st, sem c x st = sem c y st) (g : Nat) (st : St) :
    sem c (.group g x) st = sem c (.group g y) st := by simp [sem, h]

theorem C03_congr_atomic (h : ∀ st, sem c x st = sem c y st) (st : St) :
    sem c (.atomic x) st = sem c (.atomic y) st := by simp [sem, h]

theorem C03_congr_lookahead (h : ∀ st, sem c x st = sem c y st) (st : St) :
    sem c (.look x .ahead) st = sem c (.look y .ahead) st ∧
    sem c (.look x .aheadNeg) st = sem c (.look y .aheadNeg) st := by simp [sem, h]

theorem C03_congr_repeat (h : ∀ st, sem c x st = sem c y st) (lo : Nat) (hi : Option Nat) (gr : Bool) (st : St) :
    sem c (.repeat x lo hi gr) st = sem c (.repeat y lo hi gr) st := by
  have : sem c x = sem c y := funext h
  simp [sem, this]

theorem C03_congr_cond (hc : ∀ st, sem c x st = sem c y st) (a b : Expr) (st : St) :
    sem c (.cond x a b) st = sem c (.cond y a b) st ∧
    sem c (.cond a x b) st = sem c (.cond a y b) st ∧
    sem c (.cond a b x) st = sem c (.cond a b y) st := by
  simp [sem, hc]

theorem semConcat_congr (pre post : List Expr) (h : ∀ st, sem c x st = sem c y st) (st : St) :
    semConcat c (pre ++ x :: post) st = semConcat c (pre ++ y :: post) st := by
  rw [semConcat_append, semConcat_append]
  congr 1
  funext r
  simp only [semConcat, h]

theorem C03_congr_concat (pre post : List Expr) (h : ∀ st, sem c x st = sem c y st) (st : St) :
    sem c (.concat (pre ++ x :: post)) st = sem c (.concat (pre ++ y :: post)) st := by
  simp only [sem]; exact semConcat_congr c pre post h st

theorem semAlt_append (a b : List Expr) (st : St) : semAlt c (a ++ b) st = semAlt c a st ++ semAlt c b st := by
  induction a with
  | nil => simp [semAlt]
  | cons e es ih => simp [semAlt, ih]

theorem C03_congr_alt (pre post : List Expr) (h : ∀ st, sem c x st = sem c y st) (st : St) :
    sem c (.alt (pre ++ x :: post)) st = sem c (.alt (pre ++ y :: post)) st := by
  simp only [sem, semAlt_append, semAlt, h]

/-- under a look-behind: bodies of the same (non-alternation) shape -/
theorem C03_congr_lookbehind (h : ∀ st, sem c x st = sem c y st)
    (hx : ∀ es, x ≠ .alt es) (hy : ∀ es, y ≠ .alt es) (st : St) :
    sem c (.look x .behind) st = sem c (.look y .behind) st ∧
    sem c (.look x .behindNeg) st = sem c (.look y .behindNeg) st := by
  have hfun : sem c x = sem c y := funext h
  have e1 : semBehind c x st = behindOne (sem c x) st := by
    cases x <;> simp_all [semBehind]
  have e2 : semBehind c y st = behindOne (sem c y) st := by
    cases y <;> simp_all [semBehind]
  simp [sem, e1, e2, hfun]

/-! ### Non-vacuity: the two injections on a concrete loop body -/
example (c : Ctx) (st : St) :
    sem c (.repeat (.concat [.look .empty .ahead, .literal ['a'] false]) 0 none true) st =
      sem c (.repeat (.literal ['a'] false) 0 none true) st :=
  C03_congr_repeat c (C03_inject_before c _) 0 none true st

end Fancy
