import FancyModel.Proofs.C16
import FancyModel.Proofs.C13
/-!
# C02 — capture groups equal those of the reference match path

Specification-side facts about captures, for every expression, context and start state:

* `C02_frame`: a result of `e` differs from the start state only in the slots of groups that occur
  in `e` (and slot 0 when `e` contains `\K`) — **groups that never participated are untouched, and
  nothing is left over from an abandoned alternative** (`sem` is a function of the state: each
  alternative starts from the state the alternation was entered with);
* `C02_group_records`: every result of a capture group records exactly the span of its body's
  result: start = where the group was entered, end = where that body result ended (so after a loop
  the group holds its **last** iteration);
* `C02_lookahead_keeps`: captures made inside a positive look-around are retained on its result;
* group numbering is opening-parenthesis order: `C16_renumber_count` / `C16_renumber_idempotent`.

The engine part (the VM + delegation reproduce these captures) is validated on the explored space:
implementation vs model vs reference, all groups of every match.
-/
namespace Fancy

mutual
/-- the slots `e` can write: both slots of every group inside, slot 0 for `\K` -/
def ownSlots : Expr → List Nat
  | .group g e => (2 * g) :: (2 * g + 1) :: ownSlots e
  | .concat es => ownSlotsList es
  | .alt es => ownSlotsList es
  | .look e _ => ownSlots e
  | .repeat e _ _ _ => ownSlots e
  | .atomic e => ownSlots e
  | .cond c y n => ownSlots c ++ ownSlots y ++ ownSlots n
  | .keepOut => [0]
  | _ => []
def ownSlotsList : List Expr → List Nat
  | [] => []
  | e :: es => ownSlots e ++ ownSlotsList es
end

/-- `r` agrees with `st` outside the slot set `w` -/
def Frame (w : List Nat) (st r : St) : Prop :=
  r.slots.length = st.slots.length ∧ ∀ i, i ∉ w → r.slots[i]? = st.slots[i]?

theorem Frame.refl (w : List Nat) (st : St) : Frame w st st := ⟨rfl, fun _ _ => rfl⟩

theorem Frame.trans {w : List Nat} {a b d : St} (h1 : Frame w a b) (h2 : Frame w b d) : Frame w a d :=
  ⟨h2.1.trans h1.1, fun i hi => (h2.2 i hi).trans (h1.2 i hi)⟩

theorem Frame.mono {w w' : List Nat} {a b : St} (h : Frame w a b) (hs : ∀ i, i ∈ w → i ∈ w') : Frame w' a b :=
  ⟨h.1, fun i hi => h.2 i (fun hm => hi (hs i hm))⟩

theorem Frame.ix {w : List Nat} {a b : St} (h : Frame w a b) (k : Nat) : Frame w a { b with ix := k } := h

theorem Frame.ix_left {w : List Nat} {a b : St} (k : Nat) (h : Frame w { a with ix := k } b) : Frame w a b := h

theorem Frame.setSlot {w : List Nat} {a b : St} (h : Frame w a b) (i : Nat) (v : Option Nat) (hi : i ∈ w) :
    Frame w a (b.setSlot i v) := by
  refine ⟨by simpa [St.setSlot] using h.1, fun j hj => ?_⟩
  have : i ≠ j := fun e => hj (e ▸ hi)
  simp only [St.setSlot]
  rw [List.getElem?_set_ne this]
  exact h.2 j hj

theorem Frame.setSlot_left {w : List Nat} {a b : St} (i : Nat) (v : Option Nat) (hi : i ∈ w)
    (h : Frame w (a.setSlot i v) b) : Frame w a b := by
  refine ⟨by simpa [St.setSlot] using h.1, fun j hj => ?_⟩
  have hne : i ≠ j := fun e => hj (e ▸ hi)
  have h2 := h.2 j hj
  simp only [St.setSlot] at h2
  rwa [List.getElem?_set_ne hne] at h2

theorem repLoop_frame (body : St → List St) (w : List Nat) (hb : ∀ st r, r ∈ body st → Frame w st r)
    (lo : Nat) (hi : Option Nat) (greedy : Bool) (fuel count : Nat) (st r : St)
    (h : r ∈ repLoop body lo hi greedy fuel count st) : Frame w st r := by
  induction fuel generalizing count st r with
  | zero => simp [repLoop] at h
  | succ fuel ih =>
    unfold repLoop at h
    split at h
    · simp only [List.mem_singleton] at h; subst h; exact Frame.refl _ _
    · have hiters : ∀ q, q ∈ ((body st).flatMap fun r' =>
            if hi.isNone && decide (lo ≤ count) && r'.ix == st.ix then [r']
            else repLoop body lo hi greedy fuel (count + 1) r') → Frame w st q := by
        intro q hq
        simp only [List.mem_flatMap] at hq
        obtain ⟨r', hr', hmem⟩ := hq
        have h1 := hb st r' hr'
        split at hmem
        · simp only [List.mem_singleton] at hmem; subst hmem; exact h1
        · exact h1.trans (ih _ _ _ hmem)
      split at h
      · exact hiters r h
      · split at h
        · rcases List.mem_append.mp h with h | h
          · exact hiters r h
          · simp only [List.mem_singleton] at h; subst h; exact Frame.refl _ _
        · rcases List.mem_cons.mp h with h | h
          · subst h; exact Frame.refl _ _
          · exact hiters r h

theorem behindOne_frame (body : St → List St) (w : List Nat) (hb : ∀ st r, r ∈ body st → Frame w st r)
    (st r : St) (h : r ∈ behindOne body st) : Frame w st r := by
  simp only [behindOne, List.mem_flatMap, List.mem_filter] at h
  obtain ⟨k, _, hr, _⟩ := h
  exact Frame.ix_left _ (hb _ _ hr)

theorem semBehindAlts_frame_of (c : Ctx) (es : List Expr)
    (hsem : ∀ e', e' ∈ es → ∀ st r, r ∈ sem c e' st → Frame (ownSlots e') st r) :
    ∀ st r, r ∈ semBehindAlts c es st → Frame (ownSlotsList es) st r := by
  induction es with
  | nil => intro st r h; simp [semBehindAlts] at h
  | cons e es ih =>
    intro st r h
    simp only [semBehindAlts, List.mem_append] at h
    rcases h with h | h
    · exact (behindOne_frame _ _ (hsem e (by simp)) st r h).mono (by intro i hi; simp [ownSlotsList, hi])
    · exact (ih (fun e' he' => hsem e' (by simp [he'])) st r h).mono (by intro i hi; simp [ownSlotsList, hi])

/-- frame for a look-behind body, given frame for every expression not larger than the body -/
theorem semBehind_frame_of (c : Ctx) (e : Expr)
    (hsem : ∀ e', sizeOf e' ≤ sizeOf e → ∀ st r, r ∈ sem c e' st → Frame (ownSlots e') st r) :
    ∀ st r, r ∈ semBehind c e st → Frame (ownSlots e) st r := by
  intro st r h
  cases e with
  | alt es =>
    simp only [semBehind] at h
    have := semBehindAlts_frame_of c es (fun e' he' => hsem e' (by
      have := List.sizeOf_lt_of_mem he'
      simp only [Expr.alt.sizeOf_spec]; omega)) st r h
    simpa [ownSlots] using this
  | _ => exact behindOne_frame _ _ (hsem _ (Nat.le_refl _)) st r (by simpa [semBehind] using h)

mutual
theorem sem_frame (c : Ctx) : ∀ (e : Expr) (st r : St), r ∈ sem c e st → Frame (ownSlots e) st r
  | .empty, st, r, h => by simp [sem] at h; subst h; exact Frame.refl _ _
  | .any nl, st, r, h => by
    simp only [sem] at h
    split at h
    · split at h
      · simp at h; subst h; exact (Frame.refl _ st).ix _
      · simp at h
    · simp at h
  | .assertion a, st, r, h => by
    simp only [sem] at h; split at h
    · simp at h; subst h; exact Frame.refl _ _
    · simp at h
  | .literal val casei, st, r, h => by
    simp only [sem] at h; split at h
    · simp at h; subst h; exact (Frame.refl _ st).ix _
    · simp at h
  | .concat es, st, r, h => by
    simp only [sem] at h; simpa [ownSlots] using semConcat_frame c es st r h
  | .alt es, st, r, h => by
    simp only [sem] at h; simpa [ownSlots] using semAlt_frame c es st r h
  | .group g e, st, r, h => by
    simp only [sem, List.mem_map] at h
    obtain ⟨r', hr', rfl⟩ := h
    have h1 := (sem_frame c e _ _ hr').mono (w' := ownSlots (.group g e)) (by
      intro i hi; simp [ownSlots, hi])
    have h2 := Frame.setSlot_left (2 * g) _ (by simp [ownSlots]) h1
    exact h2.setSlot (2 * g + 1) _ (by simp [ownSlots])
  | .look e .ahead, st, r, h => by
    simp only [sem, List.mem_map] at h
    obtain ⟨r', hr', rfl⟩ := h
    exact ((sem_frame c e st r' (firstOnly_mem _ _ hr'))).ix _
  | .look e .aheadNeg, st, r, h => by
    simp only [sem] at h; split at h
    · simp at h; subst h; exact Frame.refl _ _
    · simp at h
  | .look e .behind, st, r, h => by
    simp only [sem, List.mem_map] at h
    obtain ⟨r', hr', rfl⟩ := h
    exact (semBehind_frame_of c e (fun e' _ st r hr => sem_frame c e' st r hr) st r' (firstOnly_mem _ _ hr')).ix _
  | .look e .behindNeg, st, r, h => by
    simp only [sem] at h; split at h
    · simp at h; subst h; exact Frame.refl _ _
    · simp at h
  | .repeat e lo hi greedy, st, r, h => by
    simp only [sem] at h
    exact repLoop_frame (sem c e) (ownSlots e) (fun st r hr => sem_frame c e st r hr) lo hi greedy _ 0 st r h
  | .delegate inner size casei, st, r, h => by
    simp only [sem, delegateSem] at h
    split at h
    · split at h
      · split at h
        · simp at h; subst h; exact (Frame.refl _ st).ix _
        · simp at h
      · simp at h
    · split at h
      · split at h
        · simp at h; subst h; exact (Frame.refl _ st).ix _
        · simp at h
      · simp at h
  | .backref g, st, r, h => by
    simp only [sem] at h
    split at h
    · split at h
      · simp at h; subst h; exact (Frame.refl _ st).ix _
      · simp at h
    · simp at h
  | .atomic e, st, r, h => by
    simp only [sem] at h
    exact sem_frame c e st r (firstOnly_mem _ _ h)
  | .keepOut, st, r, h => by
    simp [sem] at h; subst h
    exact (Frame.refl _ st).setSlot 0 _ (by simp [ownSlots])
  | .contPrev, st, r, h => by
    simp only [sem] at h; split at h
    · simp at h; subst h; exact Frame.refl _ _
    · simp at h
  | .backrefExists g, st, r, h => by
    simp only [sem] at h; split at h
    · simp at h; subst h; exact Frame.refl _ _
    · simp at h
  | .cond cnd y n, st, r, h => by
    simp only [sem] at h
    split at h
    · rename_i r1 hr1
      have h1 := (sem_frame c cnd st r1 (List.mem_of_mem_head? hr1)).mono
        (w' := ownSlots (.cond cnd y n)) (by intro i hi; simp [ownSlots, hi])
      have h2 := (sem_frame c y r1 r h).mono (w' := ownSlots (.cond cnd y n)) (by intro i hi; simp [ownSlots, hi])
      exact h1.trans h2
    · exact (sem_frame c n st r h).mono (by intro i hi; simp [ownSlots, hi])
  | .subroutine g, st, r, h => by simp [sem] at h
termination_by e => sizeOf e
decreasing_by all_goals (simp_wf; try omega)
theorem semConcat_frame (c : Ctx) : ∀ (es : List Expr) (st r : St), r ∈ semConcat c es st →
    Frame (ownSlotsList es) st r
  | [], st, r, h => by simp [semConcat] at h; subst h; exact Frame.refl _ _
  | e :: es, st, r, h => by
    simp only [semConcat, List.mem_flatMap] at h
    obtain ⟨r1, hr1, hr⟩ := h
    have h1 := (sem_frame c e st r1 hr1).mono (w' := ownSlotsList (e :: es)) (by
      intro i hi; simp [ownSlotsList, hi])
    have h2 := (semConcat_frame c es r1 r hr).mono (w' := ownSlotsList (e :: es)) (by
      intro i hi; simp [ownSlotsList, hi])
    exact h1.trans h2
termination_by es => sizeOf es
decreasing_by all_goals (simp_wf; try omega)
theorem semAlt_frame (c : Ctx) : ∀ (es : List Expr) (st r : St), r ∈ semAlt c es st →
    Frame (ownSlotsList es) st r
  | [], st, r, h => by simp [semAlt] at h
  | e :: es, st, r, h => by
    simp only [semAlt, List.mem_append] at h
    rcases h with h | h
    · exact (sem_frame c e st r h).mono (by intro i hi; simp [ownSlotsList, hi])
    · exact (semAlt_frame c es st r h).mono (by intro i hi; simp [ownSlotsList, hi])
termination_by es => sizeOf es
decreasing_by all_goals (simp_wf; try omega)
end

/-- **frame**: groups outside `e` (and slot 0 unless `e` has `\K`) are untouched by every result -/
theorem C02_frame (c : Ctx) (e : Expr) (st r : St) (h : r ∈ sem c e st) (i : Nat) (hi : i ∉ ownSlots e) :
    r.slots[i]? = st.slots[i]? :=
  (sem_frame c e st r h).2 i hi

/-- **a group records its body's span**: start = entry position, end = end of the body result -/
theorem C02_group_records (c : Ctx) (g : Nat) (e : Expr) (st r : St) (h : r ∈ sem c (.group g e) st)
    (hlen : 2 * g + 1 < st.slots.length) (hown : 2 * g ∉ ownSlots e) :
    r.slots[2 * g]? = some (some st.ix) ∧ r.slots[2 * g + 1]? = some (some r.ix) := by
  simp only [sem, List.mem_map] at h
  obtain ⟨r', hr', rfl⟩ := h
  have hf := sem_frame c e _ _ hr'
  have hl : r'.slots.length = st.slots.length := by simpa [St.setSlot] using hf.1
  constructor
  · simp only [St.setSlot]
    rw [List.getElem?_set_ne (by omega)]
    rw [hf.2 (2 * g) hown]
    simp only [St.setSlot]
    rw [List.getElem?_set_self (by omega)]
  · simp only [St.setSlot]
    rw [List.getElem?_set_self (by omega)]

/-- **captures made inside a positive look-ahead are retained**: the result of `(?=e)` carries the
    slots of `e`'s first result -/
theorem C02_lookahead_keeps (c : Ctx) (e : Expr) (st r' : St) (rest : List St) (h : sem c e st = r' :: rest) :
    sem c (.look e .ahead) st = [{ r' with ix := st.ix }] := by
  simp [sem, firstOnly, h]

/-- **nothing survives an abandoned alternative**: the second alternative starts from the state the
    alternation was entered with, whatever the first one did -/
theorem C02_alt_fresh (c : Ctx) (a b : Expr) (st : St) :
    sem c (.alt [a, b]) st = sem c a st ++ sem c b st := by
  simp [sem, semAlt]

end Fancy
