import FancyModel.Lemmas.SemK
import FancyModel.Model.Regex
/-!
# C01 — match existence and span follow ordered-backtracking reference semantics

What is proved here (all patterns, texts, offsets):

* `C01_refSearchK_eq`, `C01_delegateOracle_eq`: the first-result evaluators that the executable model
  and the driver run (`refSearchK`, `delegateOracle`) compute exactly the specification
  (`refSearch`, `delegateOracleSpec`), which is defined on the *list* of all results in priority
  order. So "the reference answer" reported by the driver is the specification's, not an
  implementation artefact.
* `C01_scan_leftmost`: the reference search is **leftmost** — it reports the first result of the
  least start position `≥ pos` that has one, and no smaller start position has any result.
* `C01_wrap_path`: on the whole-pattern hand-off path the model's search *is* the reference search
  (assumption A-RA made explicit: this is what regex-automata is trusted to compute).
* `C01_lazy_any_star`: the `(?s:.)*?` prefix that `wrap_tree` puts in front of every pattern
  enumerates the start positions `ix, ix+1, …, len` in that order — the reason the compiled
  program of the wrapped tree scans left to right.

What is **not** proved: `vm_correct` — that the VM run of the *compiled* wrapped tree equals
`refSearch` under `WF ∧ Closed ∧ NoEmptyLoop ∧ NoCondLeak` (DESIGN §3.4). The statement is below as
`VmCorrect`; it is validated, not proved: the driver evaluates both sides and the check compares
them on every explored in-domain case (evidence key `oracle_cases`), next to the tie of the model
VM and the compiler model to the implementation (listing and results).
-/
namespace Fancy

/-- the executable reference search is the specified one -/
theorem C01_refSearchK_eq (c : Ctx) (e : Expr) (nGroups : Nat) :
    refSearchK c e nGroups = refSearch c e nGroups := by
  unfold refSearchK refSearch
  split
  · generalize c.len - c.pos + 1 = n
    generalize c.pos = start
    induction n generalizing start with
    | zero => rfl
    | succ n ih =>
      simp only [scanFromK, scanFrom, semK_eq, findSome?_some_eq_head?, ih]
      cases (sem c e ⟨start, (initSlots nGroups).set 0 (some start)⟩).head? <;> rfl
  · rfl

/-- the executable delegate oracle is the specified one -/
theorem C01_delegateOracle_eq (c : Ctx) (es : List Expr) (sg eg ix : Nat) (saves : List Nat) :
    delegateOracle c es sg eg ix saves = delegateOracleSpec c es sg eg ix saves := by
  unfold delegateOracle delegateOracleSpec
  rw [semKConcat_eq, findSome?_some_eq_head?]

def startState (nGroups start : Nat) : St := ⟨start, (initSlots nGroups).set 0 (some start)⟩

/-- **leftmost**: `scanFrom` reports the first result at the least start that has one -/
theorem scanFrom_spec (c : Ctx) (e : Expr) (nGroups : Nat) (n start : Nat) (f : Found)
    (h : scanFrom c e nGroups n start = some f) :
    ∃ s r, start ≤ s ∧ s < start + n ∧ (sem c e (startState nGroups s)).head? = some r ∧
      f = finish c r ∧ ∀ s', start ≤ s' → s' < s → sem c e (startState nGroups s') = [] := by
  induction n generalizing start with
  | zero => simp [scanFrom] at h
  | succ n ih =>
    simp only [scanFrom] at h
    cases hh : (sem c e ⟨start, (initSlots nGroups).set 0 (some start)⟩).head? with
    | some r =>
      simp only [hh, Option.some.injEq] at h
      exact ⟨start, r, Nat.le_refl _, by omega, hh, h.symm, fun s' h1 h2 => by omega⟩
    | none =>
      simp only [hh] at h
      obtain ⟨s, r, h1, h2, h3, h4, h5⟩ := ih (start + 1) h
      refine ⟨s, r, by omega, by omega, h3, h4, ?_⟩
      intro s' hs1 hs2
      rcases Nat.eq_or_lt_of_le hs1 with heq | hlt
      · subst heq
        simpa [startState, List.head?_eq_none_iff] using hh
      · exact h5 s' (by omega) hs2

/-- the reference search finds nothing only if no start position has a result -/
theorem scanFrom_none (c : Ctx) (e : Expr) (nGroups : Nat) (n start : Nat)
    (h : scanFrom c e nGroups n start = none) :
    ∀ s, start ≤ s → s < start + n → sem c e (startState nGroups s) = [] := by
  induction n generalizing start with
  | zero => intro s h1 h2; omega
  | succ n ih =>
    simp only [scanFrom] at h
    cases hh : (sem c e ⟨start, (initSlots nGroups).set 0 (some start)⟩).head? with
    | some r => simp [hh] at h
    | none =>
      simp only [hh] at h
      intro s h1 h2
      rcases Nat.eq_or_lt_of_le h1 with heq | hlt
      · subst heq; simpa [startState, List.head?_eq_none_iff] using hh
      · exact ih (start + 1) h s (by omega) (by omega)

/-- **C01, reference side**: a match is reported iff some start in `[pos, len]` has a result; the
    reported one belongs to the least such start and is its first result in priority order -/
theorem C01_scan_leftmost (c : Ctx) (e : Expr) (nGroups : Nat) (hpos : c.pos ≤ c.len) :
    (∀ f, refSearch c e nGroups = some f →
      ∃ s r, c.pos ≤ s ∧ s ≤ c.len ∧ (sem c e (startState nGroups s)).head? = some r ∧ f = finish c r ∧
        ∀ s', c.pos ≤ s' → s' < s → sem c e (startState nGroups s') = []) ∧
    (refSearch c e nGroups = none →
      ∀ s, c.pos ≤ s → s ≤ c.len → sem c e (startState nGroups s) = []) := by
  unfold refSearch
  simp only [hpos, ↓reduceIte]
  constructor
  · intro f h
    obtain ⟨s, r, h1, h2, h3, h4, h5⟩ := scanFrom_spec c e nGroups _ _ f h
    exact ⟨s, r, h1, by omega, h3, h4, h5⟩
  · intro h s h1 h2
    exact scanFrom_none c e nGroups _ _ h s h1 (by omega)

/-- on the whole-pattern hand-off path the model's search is the reference search (A-RA) -/
theorem C01_wrap_path (b : Built) (c : Ctx) (limit fuel : Nat) (hk : b.kind = .wrap) :
    (b.captures c limit fuel).1 =
      match refSearch c b.raw b.nGroups with
      | some f => .found f.slots
      | none => .noMatch := by
  unfold Built.captures
  simp only [hk, C01_refSearchK_eq]
  cases refSearch c b.raw b.nGroups <;> rfl

theorem range_map_shift (st : St) (m i : Nat) :
    (List.range (m + 1)).map (fun k => ({ st with ix := i + k } : St)) =
      { st with ix := i } :: (List.range m).map (fun k => { st with ix := i + 1 + k }) := by
  rw [List.range_succ_eq_map]
  simp only [List.map_cons, Nat.add_zero, List.map_map, List.cons.injEq, true_and]
  apply List.map_congr_left
  intro k _
  simp only [Function.comp]
  congr 1
  omega

/-- the `(?s:.)*?` prefix enumerates the positions `ix, ix+1, …, len` in order -/
theorem lazy_any_loop (c : Ctx) (fuel count : Nat) (st : St) (hix : st.ix ≤ c.len)
    (hfuel : c.len - st.ix < fuel) :
    repLoop (sem c (.any true)) 0 none false fuel count st =
      (List.range (c.len - st.ix + 1)).map fun k => { st with ix := st.ix + k } := by
  induction fuel generalizing count st with
  | zero => omega
  | succ fuel ih =>
    unfold repLoop
    simp only [reduceCtorEq, ↓reduceIte, Nat.not_lt_zero, Bool.false_eq_true, Option.isNone_none,
      Nat.zero_le, decide_true, Bool.and_self, Bool.true_and]
    by_cases hlt : st.ix < c.len
    · have hat : ∃ ch, c.at? st.ix = some ch := by
        unfold Ctx.at? Ctx.len at *
        exact ⟨c.text[st.ix], List.getElem?_eq_getElem hlt⟩
      obtain ⟨ch, hch⟩ := hat
      simp only [sem, hch, Bool.true_or, ↓reduceIte, List.flatMap_cons, List.flatMap_nil, List.append_nil]
      have hne : ((st.ix + 1 == st.ix) = false) := by simp
      simp only [hne, Bool.false_eq_true, ↓reduceIte]
      rw [ih (count + 1) { st with ix := st.ix + 1 } (Nat.succ_le_of_lt hlt) (by simp only; omega)]
      have hm : c.len - st.ix + 1 = (c.len - (st.ix + 1) + 1) + 1 := by omega
      rw [hm, range_map_shift st _ st.ix]
    · have heq : st.ix = c.len := by omega
      have hat : c.at? st.ix = none := by
        unfold Ctx.at? Ctx.len at *
        exact List.getElem?_eq_none (by omega)
      simp only [sem, hat, List.flatMap_nil, heq, Nat.sub_self, Nat.zero_add, List.range_one, List.map_cons,
        Nat.add_zero, List.map_nil]
      cases st
      simp_all

theorem C01_lazy_any_star (c : Ctx) (st : St) (hix : st.ix ≤ c.len) :
    sem c (.repeat (.any true) 0 none false) st =
      (List.range (c.len - st.ix + 1)).map fun k => { st with ix := st.ix + k } := by
  simp only [sem]
  exact lazy_any_loop c _ 0 st hix (by simp; omega)

/-- The statement that is validated rather than proved (DESIGN §3.4, `vm_correct`): for a pattern in
    the domain, the model's search — VM run of the compiled wrapped tree — equals the reference. -/
def VmCorrect (b : Built) (c : Ctx) : Prop :=
  ∀ limit fuel, (b.captures c limit fuel).1 ≠ .outOfFuel → (b.captures c limit fuel).1 ≠ .errLimit →
    (b.captures c limit fuel).1 =
      match refSearch c b.raw b.nGroups with
      | some f => .found f.slots
      | none => .noMatch

/-- `VmCorrect` holds on the hand-off path (by A-RA); the VM path is the open obligation -/
theorem C01_vm_correct_partial (b : Built) (c : Ctx) (hk : b.kind = .wrap) : VmCorrect b c := by
  intro limit fuel _ _
  exact C01_wrap_path b c limit fuel hk

end Fancy
