import FancyModel.Proofs.C01c
/-!
# C15 — conditionals in compiled programs follow the reference semantics (engine refinement, stage S2)

The reference semantics of a conditional is the documented one (`Proofs/C15.lean`: the condition is
tried once; on success `yes` continues after it and `no` is never tried; otherwise `no` from the
original position). `C15_vm_correct_cond`: the VM run of the *compiled* pattern computes exactly
that, wherever the conditional appears that `s2ok` allows: inside loops, alternations, groups,
negative look-arounds, the branches of other conditionals — not inside atomic groups, positive
look-arounds or other conditions, where the compiled code leaks an auxiliary-stack entry (finding F8,
`Proofs/C15.lean` has the witness) — for programs without `Delegate` instructions.
-/
namespace Fancy

theorem C15_vm_correct_cond (tree : Expr) (backrefs : List Nat) (b : Built) (prog : Prog) (c : Ctx)
    (hb : build tree backrefs = .ok b) (hk : b.kind = .fancy prog)
    (hok : s2ok b.raw = true) (hnd : noDeleg prog.body = true)
    (hlen : c.len < UNSET) (hpos : c.pos ≤ c.len) : VmCorrectR b c :=
  C01_vm_correct_s2 tree backrefs b prog c hb hk hok hnd hlen hpos

/-! ### Non-vacuity: `(?:(a)?(?(1)b|c))+` — a group test inside a loop; `(?(?=(a))\1b|c)` — a
look-ahead condition setting a group used by the yes branch -/
def exCond1 : Expr :=
  .repeat (.concat [.repeat (.group 0 (.literal ['a'] false)) 0 (some 1) true,
    .cond (.backrefExists 1) (.literal ['b'] false) (.literal ['c'] false)]) 1 none true

def exCond2 : Expr :=
  .cond (.look (.group 0 (.literal ['a'] false)) .ahead)
    (.concat [.backref 1, .literal ['b'] false]) (.literal ['c'] false)

set_option linter.unusedSimpArgs false in
example : s2AndNoDeleg exCond1 [1] = true := by
  simp [s2AndNoDeleg, build, exCond1, wrapTree, renumber, renumberList, checkRefs, checkRefsList, isHard, isHardAny,
    compile, visit, visitMiddle, visitAlt, concatSplit, groupCount, groupCountList, constSize, constSizeAll, minSize, minSizeMin,
    minSizeSum, allMinSize, compileDelegates, compileDelegate, isLiteral, isLiteralAll, s2ok, s2okAll, condFree, condFreeAll, noDeleg,
    Insn.isDelegate, boundsEq, satMul, satAdd, sureReps, UNSET, Assertion.isHard, wrapPosLook, posLookBodyPc, pushLiteral]

set_option linter.unusedSimpArgs false in
example : s2AndNoDeleg exCond2 [1] = true := by
  simp [s2AndNoDeleg, build, exCond2, wrapTree, renumber, renumberList, checkRefs, checkRefsList, isHard, isHardAny,
    compile, visit, visitMiddle, visitAlt, concatSplit, groupCount, groupCountList, constSize, constSizeAll, minSize, minSizeMin,
    minSizeSum, allMinSize, compileDelegates, compileDelegate, isLiteral, isLiteralAll, s2ok, s2okAll, condFree, condFreeAll, noDeleg,
    Insn.isDelegate, boundsEq, satMul, satAdd, sureReps, UNSET, Assertion.isHard, wrapPosLook, posLookBodyPc, pushLiteral]

end Fancy
