import FancyModel.Proofs.C01b
/-!
# C03 — injecting `(?=)` at any depth changes no search result

`Inj e e'`: `e'` is `e` with ONE empty positive look-ahead `(?=)` inserted before or after one
sub-expression, at any depth (`InjStar`: any number of insertions).

* `C03_inject_sem` / `C03_injectStar_sem`: the reference semantics of the two trees is the same
  function (all results, in priority order, from every state);
* `C03_inject_numbering` / `C03_injectStar_numbering`: the insertion does not disturb the analyzer's
  group numbering (`groupCount` unchanged, the renumbered trees are again related by `Inj`);
* `C03_inject_refSearch`: the reference search gives the same answer;
* `C03_wrap_vmcorrect`: a pattern handed to the automata engine as a whole satisfies `VmCorrectR`;
* `C03_inject_engine`: if both patterns build and both satisfy the engine-refinement statement
  `VmCorrectR`, every search on the two built regexes gives the same result — same match / no match,
  same span, same value of every group — unless one of them stops for a resource reason.

## The one excluded position

Directly under a look-behind the *shape* of the body matters: the reference semantics (like the
compiler) tries the top-level alternatives of a look-behind body one after the other
(`semBehind`/`semBehindAlts`: alternative 1 from every start, then alternative 2, …), while a
non-alternation body is tried start by start. Wrapping the alternation body itself —
`(?<=a|bb)` ↦ `(?<=(?=)(?:a|bb))` or `(?<=(?:a|bb)(?=))` — turns it into a non-alternation body, and
the order of the results (hence the first one, hence the captures) can change. The modified pattern
then compiles only if the whole body is constant-size (`visit`, case `.look c .behind`:
`lookBehindNotConst` otherwise), so for `(?<=a|bb)` it does not compile at all ("whenever the modified
pattern still compiles" in the property text). `Inj.look` excludes exactly this single position by
its side condition: under a look-behind, an alternation body must stay an alternation. Every other
position inside a look-behind body — inside one of the alternatives, or anywhere in / around a
non-alternation body — is included, and proved.
-/
namespace Fancy

def Look.isBehind : Look → Bool
  | .behind | .behindNeg => true
  | _ => false

/-- `e'` is `e` with one `(?=)` inserted before or after one sub-expression, at any depth -/
inductive Inj : Expr → Expr → Prop
  /-- `x ↦ (?=)x` -/
  | before (x : Expr) : Inj x (.concat [.look .empty .ahead, x])
  /-- `x ↦ x(?=)` -/
  | after (x : Expr) : Inj x (.concat [x, .look .empty .ahead])
  /-- in place, `x` already a member of a concatenation: `…x… ↦ …(?=)x…` -/
  | beforeIn (pre : List Expr) (x : Expr) (post : List Expr) :
      Inj (.concat (pre ++ x :: post)) (.concat (pre ++ .look .empty .ahead :: x :: post))
  /-- in place: `…x… ↦ …x(?=)…` -/
  | afterIn (pre : List Expr) (x : Expr) (post : List Expr) :
      Inj (.concat (pre ++ x :: post)) (.concat (pre ++ x :: .look .empty .ahead :: post))
  | group (g : Nat) {x y : Expr} : Inj x y → Inj (.group g x) (.group g y)
  | concat (pre post : List Expr) {x y : Expr} : Inj x y →
      Inj (.concat (pre ++ x :: post)) (.concat (pre ++ y :: post))
  | alt (pre post : List Expr) {x y : Expr} : Inj x y →
      Inj (.alt (pre ++ x :: post)) (.alt (pre ++ y :: post))
  /-- any of the four look-arounds; under a look-behind an alternation body stays an alternation
      (the single excluded position, see the header) -/
  | look (k : Look) {x y : Expr} : Inj x y →
      (k.isBehind = true → isAlt x = true → isAlt y = true) → Inj (.look x k) (.look y k)
  | «repeat» (lo : Nat) (hi : Option Nat) (gr : Bool) {x y : Expr} : Inj x y →
      Inj (.repeat x lo hi gr) (.repeat y lo hi gr)
  | atomic {x y : Expr} : Inj x y → Inj (.atomic x) (.atomic y)
  | condC (a b : Expr) {x y : Expr} : Inj x y → Inj (.cond x a b) (.cond y a b)
  | condY (a b : Expr) {x y : Expr} : Inj x y → Inj (.cond a x b) (.cond a y b)
  | condN (a b : Expr) {x y : Expr} : Inj x y → Inj (.cond a b x) (.cond a b y)

/-- any number of insertions -/
inductive InjStar : Expr → Expr → Prop
  | refl (e : Expr) : InjStar e e
  | tail {a b c : Expr} : InjStar a b → Inj b c → InjStar a c

theorem InjStar.single {a b : Expr} (h : Inj a b) : InjStar a b := .tail (.refl a) h

theorem InjStar.trans {a b c : Expr} (h1 : InjStar a b) (h2 : InjStar b c) : InjStar a c := by
  induction h2 with
  | refl => exact h1
  | tail _ hi ih => exact .tail ih hi

/-! ## 1. Shape facts -/

/-- an insertion never turns a non-alternation into an alternation -/
theorem c03_inj_isAlt {e e' : Expr} (h : Inj e e') : isAlt e' = true → isAlt e = true := by
  cases h <;> simp [isAlt]

theorem c03_semBehind_not_alt (c : Ctx) (e : Expr) (st : St) (h : isAlt e = false) :
    semBehind c e st = behindOne (sem c e) st := by
  cases e <;> simp_all [semBehind, isAlt]

theorem c03_semBehindAlts_append (c : Ctx) (a b : List Expr) (st : St) :
    semBehindAlts c (a ++ b) st = semBehindAlts c a st ++ semBehindAlts c b st := by
  induction a with
  | nil => simp [semBehindAlts]
  | cons e es ih => simp [semBehindAlts, ih]

/-- `(?=)` anywhere in a concatenation is invisible -/
theorem c03_semConcat_insert (c : Ctx) (a b : List Expr) (st : St) :
    semConcat c (a ++ .look .empty .ahead :: b) st = semConcat c (a ++ b) st := by
  rw [semConcat_append, semConcat_append]
  congr 1
  funext r
  exact C03_inject_before_in_concat c b r

/-! ## 2. The reference semantics is unchanged -/

/-- the induction: `sem` is unchanged, and so is the look-behind reading of the body unless the
    insertion wrapped an alternation body itself -/
theorem c03_inject_sem_aux {e e' : Expr} (h : Inj e e') :
    (∀ (c : Ctx) (st : St), sem c e' st = sem c e st) ∧
    ((isAlt e = true → isAlt e' = true) → ∀ (c : Ctx) (st : St), semBehind c e' st = semBehind c e st) := by
  -- the second part follows from the first whenever neither side is an alternation
  have key : ∀ {a a' : Expr}, (∀ (c : Ctx) (st : St), sem c a' st = sem c a st) → isAlt a = false →
      isAlt a' = false → ∀ (c : Ctx) (st : St), semBehind c a' st = semBehind c a st := by
    intro a a' hs h1 h2 c st
    have hf : sem c a' = sem c a := funext (hs c)
    rw [c03_semBehind_not_alt c a' st h2, c03_semBehind_not_alt c a st h1, hf]
  induction h with
  | before x =>
    have hs : ∀ (c : Ctx) (st : St), sem c (.concat [.look .empty .ahead, x]) st = sem c x st :=
      fun c st => C03_inject_before c x st
    refine ⟨hs, fun hal => ?_⟩
    have hx : isAlt x = false := by
      cases hh : isAlt x with
      | false => rfl
      | true => have := hal hh; simp [isAlt] at this
    exact key hs hx (by simp [isAlt])
  | after x =>
    have hs : ∀ (c : Ctx) (st : St), sem c (.concat [x, .look .empty .ahead]) st = sem c x st :=
      fun c st => C03_inject_after c x st
    refine ⟨hs, fun hal => ?_⟩
    have hx : isAlt x = false := by
      cases hh : isAlt x with
      | false => rfl
      | true => have := hal hh; simp [isAlt] at this
    exact key hs hx (by simp [isAlt])
  | beforeIn pre x post =>
    have hs : ∀ (c : Ctx) (st : St), sem c (.concat (pre ++ .look .empty .ahead :: x :: post)) st =
        sem c (.concat (pre ++ x :: post)) st := by
      intro c st; simp only [sem]; exact c03_semConcat_insert c pre (x :: post) st
    exact ⟨hs, fun _ => key hs (by simp [isAlt]) (by simp [isAlt])⟩
  | afterIn pre x post =>
    have hs : ∀ (c : Ctx) (st : St), sem c (.concat (pre ++ x :: .look .empty .ahead :: post)) st =
        sem c (.concat (pre ++ x :: post)) st := by
      intro c st
      simp only [sem]
      have e1 : pre ++ x :: .look .empty .ahead :: post = (pre ++ [x]) ++ .look .empty .ahead :: post := by simp
      have e2 : pre ++ x :: post = (pre ++ [x]) ++ post := by simp
      rw [e1, e2]
      exact c03_semConcat_insert c (pre ++ [x]) post st
    exact ⟨hs, fun _ => key hs (by simp [isAlt]) (by simp [isAlt])⟩
  | group g _ ih =>
    have hs := fun (c : Ctx) (st : St) => C03_congr_group c (fun s => ih.1 c s) g st
    exact ⟨hs, fun _ => key hs (by simp [isAlt]) (by simp [isAlt])⟩
  | concat pre post _ ih =>
    have hs := fun (c : Ctx) (st : St) => C03_congr_concat c pre post (fun s => ih.1 c s) st
    exact ⟨hs, fun _ => key hs (by simp [isAlt]) (by simp [isAlt])⟩
  | alt pre post _ ih =>
    have hs := fun (c : Ctx) (st : St) => C03_congr_alt c pre post (fun s => ih.1 c s) st
    refine ⟨hs, fun _ c st => ?_⟩
    have hf := funext (ih.1 c)
    simp only [semBehind, c03_semBehindAlts_append, semBehindAlts, hf]
  | look k _ hside ih =>
    rename_i x y hxy
    have hs : ∀ (c : Ctx) (st : St), sem c (.look y k) st = sem c (.look x k) st := by
      intro c st
      cases k with
      | ahead => exact (C03_congr_lookahead c (fun s => ih.1 c s) st).1
      | aheadNeg => exact (C03_congr_lookahead c (fun s => ih.1 c s) st).2
      | behind => simp only [sem, ih.2 (hside rfl) c st]
      | behindNeg => simp only [sem, ih.2 (hside rfl) c st]
    exact ⟨hs, fun _ => key hs (by simp [isAlt]) (by simp [isAlt])⟩
  | «repeat» lo hi gr _ ih =>
    have hs := fun (c : Ctx) (st : St) => C03_congr_repeat c (fun s => ih.1 c s) lo hi gr st
    exact ⟨hs, fun _ => key hs (by simp [isAlt]) (by simp [isAlt])⟩
  | atomic _ ih =>
    have hs := fun (c : Ctx) (st : St) => C03_congr_atomic c (fun s => ih.1 c s) st
    exact ⟨hs, fun _ => key hs (by simp [isAlt]) (by simp [isAlt])⟩
  | condC a b _ ih =>
    have hs := fun (c : Ctx) (st : St) => (C03_congr_cond c (fun s => ih.1 c s) a b st).1
    exact ⟨hs, fun _ => key hs (by simp [isAlt]) (by simp [isAlt])⟩
  | condY a b _ ih =>
    have hs := fun (c : Ctx) (st : St) => (C03_congr_cond c (fun s => ih.1 c s) a b st).2.1
    exact ⟨hs, fun _ => key hs (by simp [isAlt]) (by simp [isAlt])⟩
  | condN a b _ ih =>
    have hs := fun (c : Ctx) (st : St) => (C03_congr_cond c (fun s => ih.1 c s) a b st).2.2
    exact ⟨hs, fun _ => key hs (by simp [isAlt]) (by simp [isAlt])⟩

/-- **C03, specification side**: one `(?=)` inserted anywhere (but see the header for the single
    position under a look-behind) leaves the reference semantics unchanged — every result, in
    priority order, from every state -/
theorem C03_inject_sem {e e' : Expr} (h : Inj e e') : ∀ (c : Ctx) (st : St), sem c e' st = sem c e st :=
  (c03_inject_sem_aux h).1

/-- … and so does any number of insertions -/
theorem C03_injectStar_sem {e e' : Expr} (h : InjStar e e') :
    ∀ (c : Ctx) (st : St), sem c e' st = sem c e st := by
  induction h with
  | refl => intro c st; rfl
  | tail _ hi ih => intro c st; rw [C03_inject_sem hi c st, ih c st]

/-- `(?<=(?=)x|y)`-style positions: the insertion inside an alternative of a look-behind body, or
    in / around a non-alternation body, also leaves the look-behind reading unchanged -/
theorem C03_inject_semBehind {e e' : Expr} (h : Inj e e') (hal : isAlt e = true → isAlt e' = true) :
    ∀ (c : Ctx) (st : St), semBehind c e' st = semBehind c e st :=
  (c03_inject_sem_aux h).2 hal

example (c : Ctx) (st : St) :
    sem c (.look (.alt [.literal ['a'] false, .concat [.look .empty .ahead, .literal ['b', 'b'] false]]) .behind) st =
      sem c (.look (.alt [.literal ['a'] false, .literal ['b', 'b'] false]) .behind) st :=
  C03_inject_sem (.look .behind (.alt [.literal ['a'] false] [] (.before (.literal ['b', 'b'] false)))
    (by simp [isAlt])) c st

/-! ## 3. The numbering is undisturbed -/

theorem c03_groupCountList_append (a b : List Expr) :
    groupCountList (a ++ b) = groupCountList a + groupCountList b := by
  induction a with
  | nil => simp [groupCountList]
  | cons e es ih => simp only [List.cons_append, groupCountList, ih]; omega

theorem c03_inject_groupCount {e e' : Expr} (h : Inj e e') : groupCount e' = groupCount e := by
  induction h with
  | before x => simp [groupCount, groupCountList]
  | after x => simp [groupCount, groupCountList]
  | beforeIn pre x post => simp [groupCount, groupCountList, c03_groupCountList_append]
  | afterIn pre x post => simp [groupCount, groupCountList, c03_groupCountList_append]
  | group g _ ih => simp [groupCount, ih]
  | concat pre post _ ih => simp [groupCount, groupCountList, c03_groupCountList_append, ih]
  | alt pre post _ ih => simp [groupCount, groupCountList, c03_groupCountList_append, ih]
  | look k _ _ ih => simp [groupCount, ih]
  | «repeat» lo hi gr _ ih => simp [groupCount, ih]
  | atomic _ ih => simp [groupCount, ih]
  | condC a b _ ih => simp [groupCount, ih]
  | condY a b _ ih => simp [groupCount, ih]
  | condN a b _ ih => simp [groupCount, ih]

theorem c03_renumberList_append (a b : List Expr) (n : Nat) :
    renumberList (a ++ b) n =
      ((renumberList a n).1 ++ (renumberList b (renumberList a n).2).1, (renumberList b (renumberList a n).2).2) := by
  induction a generalizing n with
  | nil => simp [renumberList]
  | cons e es ih => simp only [List.cons_append, renumberList, ih]

theorem c03_isAlt_renumber (e : Expr) (n : Nat) : isAlt (renumber e n).1 = isAlt e := by
  cases e <;> simp [renumber, isAlt]

theorem c03_inject_renumber {e e' : Expr} (h : Inj e e') :
    ∀ n, Inj (renumber e n).1 (renumber e' n).1 := by
  have snd : ∀ {x y : Expr}, Inj x y → ∀ m, (renumber y m).2 = (renumber x m).2 := by
    intro x y hxy m; rw [renumber_snd, renumber_snd, c03_inject_groupCount hxy]
  induction h with
  | before x =>
    intro n; simp only [renumber, renumberList]; exact .before _
  | after x =>
    intro n; simp only [renumber, renumberList]; exact .after _
  | beforeIn pre x post =>
    intro n; simp only [renumber, c03_renumberList_append, renumberList]; exact .beforeIn _ _ _
  | afterIn pre x post =>
    intro n; simp only [renumber, c03_renumberList_append, renumberList]; exact .afterIn _ _ _
  | group g _ ih => intro n; simp only [renumber]; exact .group n (ih (n + 1))
  | concat pre post hxy ih =>
    intro n
    simp only [renumber, c03_renumberList_append, renumberList, snd hxy]
    exact .concat _ _ (ih _)
  | alt pre post hxy ih =>
    intro n
    simp only [renumber, c03_renumberList_append, renumberList, snd hxy]
    exact .alt _ _ (ih _)
  | look k _ hside ih =>
    intro n; simp only [renumber]
    exact .look k (ih n) (by simpa only [c03_isAlt_renumber] using hside)
  | «repeat» lo hi gr _ ih => intro n; simp only [renumber]; exact .repeat lo hi gr (ih n)
  | atomic _ ih => intro n; simp only [renumber]; exact .atomic (ih n)
  | condC a b hxy ih => intro n; simp only [renumber, snd hxy]; exact .condC _ _ (ih n)
  | condY a b hxy ih => intro n; simp only [renumber, snd hxy]; exact .condY _ _ (ih _)
  | condN a b _ ih => intro n; simp only [renumber]; exact .condN _ _ (ih _)

/-- **the insertion does not disturb the numbering**: same number of groups, and the numbered trees
    are related by the same insertion (so every group keeps its number) -/
theorem C03_inject_numbering {e e' : Expr} (h : Inj e e') :
    groupCount e' = groupCount e ∧ ∀ n, Inj (renumber e n).1 (renumber e' n).1 :=
  ⟨c03_inject_groupCount h, c03_inject_renumber h⟩

theorem C03_injectStar_numbering {e e' : Expr} (h : InjStar e e') :
    groupCount e' = groupCount e ∧ ∀ n, InjStar (renumber e n).1 (renumber e' n).1 := by
  induction h with
  | refl => exact ⟨rfl, fun n => .refl _⟩
  | tail _ hi ih =>
    exact ⟨by rw [c03_inject_groupCount hi, ih.1], fun n => .tail (ih.2 n) (c03_inject_renumber hi n)⟩

example : Inj (renumber (.concat [.group 0 (.literal ['a'] false), .group 0 .empty]) 1).1
    (renumber (.concat [.group 0 (.literal ['a'] false), .look .empty .ahead, .group 0 .empty]) 1).1 :=
  (C03_inject_numbering (.afterIn [] (.group 0 (.literal ['a'] false)) [.group 0 .empty])).2 1

/-! ## 4. The reference search -/

/-- the reference search depends on the expression only through its semantics -/
theorem c03_refSearch_congr (c : Ctx) {e e' : Expr} (nG : Nat) (h : ∀ st, sem c e' st = sem c e st) :
    refSearch c e' nG = refSearch c e nG := by
  unfold refSearch
  split
  · generalize c.len - c.pos + 1 = n
    generalize c.pos = start
    induction n generalizing start with
    | zero => rfl
    | succ n ih => simp only [scanFrom, h, ih]
  · rfl

/-- **same answer of the reference search** — match / no match, span, every group -/
theorem C03_inject_refSearch {e e' : Expr} (h : InjStar e e') (c : Ctx) (nG : Nat) :
    refSearch c e' nG = refSearch c e nG :=
  c03_refSearch_congr c nG (C03_injectStar_sem h c)

example (c : Ctx) (nG : Nat) :
    refSearch c (.concat [.literal ['a'] false, .look .empty .ahead, .literal ['b'] false]) nG =
      refSearch c (.concat [.literal ['a'] false, .literal ['b'] false]) nG :=
  C03_inject_refSearch (.single (.afterIn [] (.literal ['a'] false) [.literal ['b'] false])) c nG

/-! ## 5. The engine -/

/-- the user's expression of a built regex is the tree numbered from 1 (either engine path) -/
theorem c03_build_raw (tree : Expr) (backrefs : List Nat) (b : Built) (h : build tree backrefs = .ok b) :
    b.raw = (renumber tree 1).1 := by
  unfold build at h
  simp only at h
  cases hc : checkRefs (renumber (wrapTree tree) 0).1 0 with
  | error e => simp [hc] at h
  | ok n =>
    simp only [hc] at h
    have hshape : (renumber (wrapTree tree) 0).1 =
        .concat [.repeat (.any true) 0 none false, .group 0 (renumber tree 1).1] := by
      simp [wrapTree, renumber, renumberList]
    rw [hshape] at h
    simp only at h
    split at h
    · cases h; rfl
    · split at h
      · cases h
      · cases h; rfl

/-- a pattern handed to the automata engine as a whole satisfies the engine-refinement statement
    (assumption A-RA: `C01_wrap_path`) -/
theorem C03_wrap_vmcorrect (b : Built) (c : Ctx) (hk : b.kind = .wrap) : VmCorrectR b c := by
  intro limit fuel
  exact .inr (.inr (.inr (C01_wrap_path b c limit fuel hk)))

/-- a search stopped for a resource reason: model fuel, branch-stack cap, backtrack limit -/
def ResourceStop (r : SearchResult) : Prop := r = .outOfFuel ∨ r = .errStack ∨ r = .errLimit

/-- what the two built regexes are compared against is the same reference answer -/
theorem c03_inject_reference (tree tree' : Expr) (brs brs' : List Nat) (b b' : Built)
    (hb : build tree brs = .ok b) (hb' : build tree' brs' = .ok b') (hinj : InjStar tree tree') (c : Ctx) :
    b'.nGroups = b.nGroups ∧ InjStar b.raw b'.raw ∧
      refSearch c b'.raw b'.nGroups = refSearch c b.raw b.nGroups := by
  have hn : b'.nGroups = b.nGroups := by
    rw [C16_len tree brs b hb, C16_len tree' brs' b' hb', (C03_injectStar_numbering hinj).1]
  have hr : InjStar b.raw b'.raw := by
    rw [c03_build_raw tree brs b hb, c03_build_raw tree' brs' b' hb']
    exact (C03_injectStar_numbering hinj).2 1
  exact ⟨hn, hr, by rw [hn]; exact C03_inject_refSearch hr c b.nGroups⟩

/-- **C03, engine side**: `tree'` is `tree` with any number of `(?=)` inserted, both build (with any
    back-reference tables), and both built regexes satisfy the engine-refinement statement
    `VmCorrectR` (proved for the hand-off path: `C03_wrap_vmcorrect`; for the VM path in the proved
    stage: `C01_vm_correct_s2`). Then every search on the one and every search on the other — whatever
    the backtrack limits and the model fuel — give the same result: same match / no match, same
    span, same value of every capture group; unless one of the two stops for a resource reason. -/
theorem C03_inject_engine (tree tree' : Expr) (brs brs' : List Nat) (b b' : Built) (c : Ctx)
    (hb : build tree brs = .ok b) (hb' : build tree' brs' = .ok b') (hinj : InjStar tree tree')
    (hvm : VmCorrectR b c) (hvm' : VmCorrectR b' c) (limit fuel limit' fuel' : Nat) :
    ResourceStop (b.captures c limit fuel).1 ∨ ResourceStop (b'.captures c limit' fuel').1 ∨
      (b.captures c limit fuel).1 = (b'.captures c limit' fuel').1 := by
  obtain ⟨_, _, href⟩ := c03_inject_reference tree tree' brs brs' b b' hb hb' hinj c
  rcases hvm limit fuel with h | h | h | h
  · exact .inl (.inl h)
  · exact .inl (.inr (.inl h))
  · exact .inl (.inr (.inr h))
  · rcases hvm' limit' fuel' with h' | h' | h' | h'
    · exact .inr (.inl (.inl h'))
    · exact .inr (.inl (.inr (.inl h')))
    · exact .inr (.inl (.inr (.inr h')))
    · exact .inr (.inr (by rw [h, h', href]))

/-- the same, when the original is an ordinary regex handed to the automata engine as a whole: its
    side of the hypothesis is then a theorem, and it never stops for a resource reason -/
theorem C03_inject_engine_wrap (tree tree' : Expr) (brs brs' : List Nat) (b b' : Built) (c : Ctx)
    (hb : build tree brs = .ok b) (hb' : build tree' brs' = .ok b') (hinj : InjStar tree tree')
    (hk : b.kind = .wrap) (hvm' : VmCorrectR b' c) (limit fuel limit' fuel' : Nat) :
    ResourceStop (b'.captures c limit' fuel').1 ∨
      (b.captures c limit fuel).1 = (b'.captures c limit' fuel').1 := by
  obtain ⟨_, _, href⟩ := c03_inject_reference tree tree' brs brs' b b' hb hb' hinj c
  have h := C01_wrap_path b c limit fuel hk
  rcases hvm' limit' fuel' with h' | h' | h' | h'
  · exact .inl (.inl h')
  · exact .inl (.inr (.inl h'))
  · exact .inl (.inr (.inr h'))
  · refine .inr ?_
    rw [h, h', href]
    cases refSearch c b.raw b.nGroups <;> rfl

/-! ## 6. Non-vacuity: `ab` (handed to the automata engine whole) and `a(?=)b` (compiled for the VM)

**Finding recorded here.** The task asked to discharge `VmCorrectR` for `a(?=)b` by the stage-S2
theorem `C01_vm_correct_s2`. That is impossible, for this and for *every* injected pattern: the body
of `(?=)` is the easy expression `Expr.empty`, met in a non-hard context, so the compiler emits
`Delegate [empty]` for it (`visit`, first line: `compile_delegate`) — the program of every pattern
containing `(?=)` has a `Delegate` instruction, and stage S2 is exactly "no `Delegate`"
(`c03_ex_fancy` below proves `noDeleg prog.body = false` for `a(?=)b`). The hypothesis `VmCorrectR b'`
for the injected pattern therefore needs the stage-S3 theorem (delegation included; `s3ok` holds of
`a(?=)b`), which is not yet available; in the example it stays a hypothesis. Everything else is
discharged: both patterns build, the first on the hand-off path (where `VmCorrectR` is
`C03_wrap_vmcorrect`), the second on the VM path. -/

def c03_exAB : Expr := .concat [.literal ['a'] false, .literal ['b'] false]
def c03_exAB' : Expr := .concat [.literal ['a'] false, .look .empty .ahead, .literal ['b'] false]

theorem c03_ex_inj : InjStar c03_exAB c03_exAB' :=
  .single (.afterIn [] (.literal ['a'] false) [.literal ['b'] false])

/-- `ab` builds, and is handed to the automata engine as a whole -/
theorem c03_ex_wrap : ∃ b, build c03_exAB [] = .ok b ∧ b.kind = .wrap := by
  simp [build, c03_exAB, wrapTree, renumber, renumberList, checkRefs, checkRefsList, isHard, isHardAny]

set_option linter.unusedSimpArgs false in
/-- `a(?=)b` builds, is compiled for the VM, and its program contains a `Delegate` (the body of `(?=)`) -/
theorem c03_ex_fancy : ∃ b prog, build c03_exAB' [] = .ok b ∧ b.kind = .fancy prog ∧ noDeleg prog.body = false := by
  simp [build, c03_exAB', wrapTree, renumber, renumberList, checkRefs, checkRefsList, isHard, isHardAny,
    compile, visit, visitMiddle, visitAlt, concatSplit, groupCount, groupCountList, constSize, constSizeAll, minSize,
    minSizeMin, allMinSize, compileDelegates, compileDelegate, isLiteral, isLiteralAll, noDeleg,
    Insn.isDelegate, boundsEq, satMul, sureReps, UNSET, Assertion.isHard, wrapPosLook, posLookBodyPc, pushLiteral]

/-- `C03_inject_engine` on `ab` / `a(?=)b`: the only hypothesis left is the engine-refinement statement
    of the VM-compiled `a(?=)b` (stage S3, see above) -/
example (c : Ctx) (b b' : Built) (hb : build c03_exAB [] = .ok b) (hb' : build c03_exAB' [] = .ok b')
    (hvm' : VmCorrectR b' c) (limit fuel limit' fuel' : Nat) :
    ResourceStop (b.captures c limit fuel).1 ∨ ResourceStop (b'.captures c limit' fuel').1 ∨
      (b.captures c limit fuel).1 = (b'.captures c limit' fuel').1 := by
  have hk : b.kind = .wrap := by
    obtain ⟨b0, h0, hk0⟩ := c03_ex_wrap
    rw [hb] at h0; cases h0; exact hk0
  exact C03_inject_engine c03_exAB c03_exAB' [] [] b b' c hb hb' c03_ex_inj (C03_wrap_vmcorrect b c hk) hvm'
    limit fuel limit' fuel'

/-! ## 7. The excluded position is really different

`(?<=(ba)|(a))` against `(?<=(?=)(?:(ba)|(a)))` at the end of `ba`: as a look-behind over an
alternation the first alternative wins (group 1 = (0,2)); as a look-behind over a concatenation the
nearest start wins (group 2 = (1,2)). So `Inj.look` cannot include the position "around the
alternation body of a look-behind"; and the compiler rejects the modified pattern (the body is not
constant-size), which is the property's "whenever the modified pattern still compiles". -/

def c03_wCtx : Ctx := ⟨['b', 'a'], 0, false, fun _ => false, fun _ _ _ => false, fun _ a b => a == b⟩
def c03_wAlt : Expr :=
  .alt [.group 1 (.concat [.literal ['b'] false, .literal ['a'] false]), .group 2 (.literal ['a'] false)]
def c03_wSt : St := ⟨2, [none, none, none, none, none, none]⟩

theorem c03_w_orig : sem c03_wCtx (.look c03_wAlt .behind) c03_wSt =
    [⟨2, [none, none, some 0, some 2, none, none]⟩] := by
  simp [sem, semConcat, semBehind, semBehindAlts, behindOne, firstOnly, Ctx.litAt, Ctx.at?, St.setSlot, c03_wCtx,
    c03_wAlt, c03_wSt, List.range_succ, List.range_zero]

theorem c03_w_wrapped : sem c03_wCtx (.look (.concat [.look .empty .ahead, c03_wAlt]) .behind) c03_wSt =
    [⟨2, [none, none, none, none, some 1, some 2]⟩] := by
  simp [sem, semConcat, semAlt, semBehind, behindOne, firstOnly, Ctx.litAt, Ctx.at?, St.setSlot, c03_wCtx, c03_wAlt,
    c03_wSt, List.range_succ, List.range_zero]

/-- wrapping the alternation body of a look-behind changes the reference semantics -/
theorem C03_lookbehind_alt_body_excluded :
    ∃ (c : Ctx) (x : Expr) (st : St),
      sem c (.look (.concat [.look .empty .ahead, x]) .behind) st ≠ sem c (.look x .behind) st := by
  refine ⟨c03_wCtx, c03_wAlt, c03_wSt, ?_⟩
  rw [c03_w_orig, c03_w_wrapped]
  simp

set_option linter.unusedSimpArgs false in
/-- the original pattern compiles (each alternative is constant-size) … -/
example : ∃ b, build (.look c03_wAlt .behind) [] = .ok b := by
  simp [build, c03_wAlt, wrapTree, renumber, renumberList, checkRefs, checkRefsList, isHard, isHardAny,
    compile, visit, visitMiddle, visitAlt, visitAltBody, lookBehindAlts, concatSplit, groupCount, groupCountList,
    constSize, constSizeAll, minSize, minSizeMin, minSizeSum, allMinSize, compileDelegates, compileDelegate,
    isLiteral, isLiteralAll, boundsEq, satMul, satAdd, sureReps, UNSET, Assertion.isHard, wrapPosLook,
    posLookBodyPc, pushLiteral]

set_option linter.unusedSimpArgs false in
/-- … and the modified pattern does not compile -/
example : build (.look (.concat [.look .empty .ahead, c03_wAlt]) .behind) [] = .error .lookBehindNotConst := by
  simp [build, c03_wAlt, wrapTree, renumber, renumberList, checkRefs, checkRefsList, isHard, isHardAny,
    compile, visit, visitMiddle, visitAlt, concatSplit, groupCount, groupCountList, constSize, constSizeAll, minSize,
    minSizeMin, minSizeSum, allMinSize, compileDelegates, compileDelegate, isLiteral, isLiteralAll,
    boundsEq, satMul, satAdd, sureReps, UNSET, Assertion.isHard, wrapPosLook, posLookBodyPc, pushLiteral]

end Fancy
