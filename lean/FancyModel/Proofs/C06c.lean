import FancyModel.Lemmas.ProgDelegAll
import FancyModel.Lemmas.ParseShape
import FancyModel.Proofs.C06b
/-!
# C06 (compile step) — `Regex::new` never reaches "attempting to format hard expr"

`Expr::to_str` (src/lib.rs) ends with `_ => panic!("attempting to format hard expr")`: it can only print
what the regex crate can express.  It is called

* by `DelegateBuilder::push` (src/compile.rs: `info.expr.to_str(&mut self.re, 1)`) for every piece that
  `compile_delegate` / `compile_delegates` hand to regex-automata, and
* by `Regex::new_options` (src/lib.rs) for the whole user tree (`raw_e.to_str(&mut re_cooked, 0)`) when
  the analysis says the tree is not hard (the hand-off, "Wrap", path).

In the model `toStr sp e prec = none` is the panic.  Proved here:

* `toStr_isSome_of_easy` (with `toStrConcat_isSome_of_easy`, `toStrAlt_isSome_of_easy`): a tree the
  analyzer calls not hard, without subroutine calls, is printed at every precedence.  The side condition
  is needed: `isHard br (.subroutine g) = false` and `toStr sp (.subroutine g) p = none`
  (`toStr_subroutine_none`); it is the analyzer's *error check* (`checkRefs`, `FeatureNotSupported`), not
  the `hard` attribute, that keeps subroutine calls away from `to_str`.  Every assertion the analyzer
  calls not hard (`^ $ (?m:^) (?m:$)` and the CRLF variants) is one `to_str` prints
  (`toStr_assertion_isSome_iff`): no gap there.
* `visit_dAll` (+ companions): the mutual induction of `Lemmas/ProgDelegAll.lean` again, for the
  invariant "every `Delegate es sg eg` emitted has `es ≠ []`, `isHardAny br es = false`,
  `noSubAll es = true`".
* `C06_delegate_text_total`, `C06_wrap_text_total`, `C06_compile_no_panic`.

The `.lit` path (`isLiteral e` / `isLiteralAll es` ⇒ `Insn.lit (pushLiteral …)`) never calls `to_str`
(`compile_delegate(s)` return before building a `DelegateBuilder`), so there is nothing to prove for it;
`DelegateBuilder::build`'s `expect("Expected at least one expression")` is the `es ≠ []` part below.
-/
namespace Fancy

/-! ## 1. `to_str` of an easy tree -/

theorem toStr_subroutine_none (sp : Char → Bool) (br : Nat → Bool) (g p : Nat) :
    isHard br (.subroutine g) = false ∧ toStr sp (.subroutine g) p = none := by
  constructor
  · simp [isHard]
  · rw [toStr]
    all_goals (intros; simp_all)

/-- the assertions `to_str` prints are exactly those the analyzer calls not hard -/
theorem toStr_assertion_isSome_iff (sp : Char → Bool) (a : Assertion) (p : Nat) :
    (toStr sp (.assertion a) p).isSome = !a.isHard := by
  cases a with
  | startLine b => cases b <;> simp [toStr, Assertion.isHard]
  | endLine b => cases b <;> simp [toStr, Assertion.isHard]
  | _ => simp [toStr, Assertion.isHard]

theorem toStrConcat_isSome_iff (sp : Char → Bool) : ∀ (es : List Expr),
    (toStrConcat sp es).isSome = true ↔ ∀ e ∈ es, (toStr sp e 2).isSome = true
  | [] => by simp [toStrConcat]
  | e :: es => by
    have ih := toStrConcat_isSome_iff sp es
    simp only [toStrConcat, List.mem_cons, forall_eq_or_imp, ← ih]
    cases toStr sp e 2 <;> cases toStrConcat sp es <;> simp

mutual
/-- **a tree the analyzer calls easy, without subroutine calls, is printed** (`to_str` does not panic),
    at every precedence -/
theorem toStr_isSome_of_easy (sp : Char → Bool) (br : Nat → Bool) :
    ∀ (e : Expr), isHard br e = false → noSub e = true → ∀ p, (toStr sp e p).isSome = true
  | .empty, _, _, p => by simp [toStr]
  | .any _, _, _, p => by simp [toStr]
  | .literal _ _, _, _, p => by simp [toStr]
  | .delegate _ _ _, _, _, p => by simp [toStr]
  | .assertion a, hh, _, p => by
    rw [toStr_assertion_isSome_iff]; simpa [isHard] using hh
  | .concat es, hh, hs, p => by
    simp only [isHard] at hh; simp only [noSub] at hs
    have := toStrConcat_isSome_of_easy sp br es hh hs
    simp only [toStr, Option.isSome_map]; exact this
  | .alt es, hh, hs, p => by
    simp only [isHard] at hh; simp only [noSub] at hs
    have := toStrAlt_isSome_of_easy sp br es hh hs true
    simp only [toStr, Option.isSome_map]; exact this
  | .group g e, hh, hs, p => by
    simp only [isHard, Bool.or_eq_false_iff] at hh; simp only [noSub] at hs
    have := toStr_isSome_of_easy sp br e hh.1 hs 0
    simp only [toStr, Option.isSome_map]; exact this
  | .repeat e lo hi gr, hh, hs, p => by
    simp only [isHard, Bool.or_eq_false_iff] at hh; simp only [noSub] at hs
    have := toStr_isSome_of_easy sp br e hh.1 hs 3
    simp only [toStr, Option.isSome_map]; exact this
  | .subroutine _, _, hs, _ => by simp [noSub] at hs
  | .look _ _, hh, _, _ => by simp [isHard] at hh
  | .backref _, hh, _, _ => by simp [isHard] at hh
  | .atomic _, hh, _, _ => by simp [isHard] at hh
  | .keepOut, hh, _, _ => by simp [isHard] at hh
  | .contPrev, hh, _, _ => by simp [isHard] at hh
  | .backrefExists _, hh, _, _ => by simp [isHard] at hh
  | .cond _ _ _, hh, _, _ => by simp [isHard] at hh
theorem toStrConcat_isSome_of_easy (sp : Char → Bool) (br : Nat → Bool) :
    ∀ (es : List Expr), isHardAny br es = false → noSubAll es = true → (toStrConcat sp es).isSome = true
  | [], _, _ => by simp [toStrConcat]
  | e :: es, hh, hs => by
    simp only [isHardAny, Bool.or_eq_false_iff] at hh
    simp only [noSubAll, Bool.and_eq_true] at hs
    have h1 := toStr_isSome_of_easy sp br e hh.1 hs.1 2
    have h2 := toStrConcat_isSome_of_easy sp br es hh.2 hs.2
    simp only [toStrConcat]
    cases ha : toStr sp e 2 with
    | none => simp [ha] at h1
    | some a =>
      cases hb : toStrConcat sp es with
      | none => simp [hb] at h2
      | some b => simp
theorem toStrAlt_isSome_of_easy (sp : Char → Bool) (br : Nat → Bool) :
    ∀ (es : List Expr), isHardAny br es = false → noSubAll es = true →
      ∀ first, (toStrAlt sp es first).isSome = true
  | [], _, _, _ => by simp [toStrAlt]
  | e :: es, hh, hs, first => by
    simp only [isHardAny, Bool.or_eq_false_iff] at hh
    simp only [noSubAll, Bool.and_eq_true] at hs
    have h1 := toStr_isSome_of_easy sp br e hh.1 hs.1 1
    have h2 := toStrAlt_isSome_of_easy sp br es hh.2 hs.2 false
    simp only [toStrAlt]
    cases ha : toStr sp e 1 with
    | none => simp [ha] at h1
    | some a =>
      cases hb : toStrAlt sp es false with
      | none => simp [hb] at h2
      | some b => simp
end

/-! ## 2. The invariant of the compiler: every delegated piece is a non-empty run of easy expressions -/

/-- a `Delegate` instruction is built from at least one expression (`DelegateBuilder::build`'s `expect`),
    all of them easy for the analyzer and free of subroutine calls -/
def dOK (br : Nat → Bool) : Insn → Bool
  | .delegate es _ _ => !es.isEmpty && !isHardAny br es && noSubAll es
  | _ => true

def dAll (br : Nat → Bool) (code : List Insn) : Bool := code.all (dOK br)

theorem dAll_nil (br : Nat → Bool) : dAll br [] = true := rfl

theorem dAll_cons (br : Nat → Bool) (i : Insn) (code : List Insn) :
    dAll br (i :: code) = (dOK br i && dAll br code) := by
  simp only [dAll, List.all_cons]

theorem dAll_append (br : Nat → Bool) (a b : List Insn) :
    dAll br (a ++ b) = (dAll br a && dAll br b) := by
  simp only [dAll, List.all_append]

theorem dAll_iff (br : Nat → Bool) (code : List Insn) :
    dAll br code = true ↔
      ∀ es sg eg, Insn.delegate es sg eg ∈ code →
        es ≠ [] ∧ isHardAny br es = false ∧ noSubAll es = true := by
  simp only [dAll, List.all_eq_true]
  constructor
  · intro h es sg eg hm
    have := h _ hm
    simp only [dOK, Bool.and_eq_true, Bool.not_eq_true', List.isEmpty_eq_false_iff] at this
    exact ⟨this.1.1, this.1.2, this.2⟩
  · intro h i hm
    cases i with
    | delegate es sg eg =>
      have := h es sg eg hm
      simp only [dOK, Bool.and_eq_true, Bool.not_eq_true', List.isEmpty_eq_false_iff]
      exact ⟨⟨this.1, this.2.1⟩, this.2.2⟩
    | _ => rfl

theorem dAll_wrapPosLook (br : Nat → Bool) (atomic behind : Bool) (slot k : Nat) (body : Code) :
    dAll br (wrapPosLook atomic behind slot k body) = dAll br body := by
  cases atomic <;> cases behind <;>
    simp [wrapPosLook, dAll_append, dAll_cons, dAll_nil, dOK]

theorem dAll_wrapNegLook (br : Nat → Bool) (behind : Bool) (pc k : Nat) (body : Code) :
    dAll br (wrapNegLook behind pc k body) = dAll br body := by
  cases behind <;> simp [wrapNegLook, dAll_append, dAll_cons, dAll_nil, dOK]

theorem noSubAll_take : ∀ (es : List Expr) (k : Nat), noSubAll es = true → noSubAll (es.take k) = true
  | [], _, _ => by simp [noSubAll]
  | _ :: _, 0, _ => by simp [noSubAll]
  | e :: es, k + 1, h => by
    simp only [noSubAll, Bool.and_eq_true] at h
    simp only [List.take_succ_cons, noSubAll, Bool.and_eq_true]
    exact ⟨h.1, noSubAll_take es k h.2⟩

theorem noSubAll_drop : ∀ (es : List Expr) (k : Nat), noSubAll es = true → noSubAll (es.drop k) = true
  | [], _, _ => by simp [noSubAll]
  | _ :: _, 0, h => by simpa using h
  | e :: es, k + 1, h => by
    simp only [noSubAll, Bool.and_eq_true] at h
    simp only [List.drop_succ_cons]
    exact noSubAll_drop es k h.2

/-- `compile_delegate` of an easy expression -/
theorem dAll_compileDelegate (br : Nat → Bool) (e : Expr) (gix : Nat)
    (hh : isHard br e = false) (hs : noSub e = true) : dAll br (compileDelegate e gix) = true := by
  unfold compileDelegate
  split
  · simp [dAll_cons, dAll_nil, dOK]
  · simp [dAll_cons, dAll_nil, dOK, isHardAny, noSubAll, hh, hs]

/-- `compile_delegates` of a run of easy expressions -/
theorem dAll_compileDelegates (br : Nat → Bool) (es : List Expr) (gix : Nat)
    (hh : isHardAny br es = false) (hs : noSubAll es = true) :
    dAll br (compileDelegates es gix) = true := by
  unfold compileDelegates
  split
  · rfl
  · rename_i hne
    split
    · simp [dAll_cons, dAll_nil, dOK]
    · simp [dAll_cons, dAll_nil, dOK, hh, hs, hne]

/-- the whole expression handed over (non-hard context, easy expression) -/
theorem visit_easy_dAll (br : Nat → Bool) (e : Expr) (hard : Bool) (pc nsv gix : Nat) (code : Code) (nsv' : Nat)
    (hs : noSub e = true) (hdel : (!hard && !isHard br e) = true)
    (hv : visit br e hard pc nsv gix = .ok (code, nsv')) : dAll br code = true := by
  rw [visit_easy_eq br e hard pc nsv gix hdel] at hv
  simp only [Except.ok.injEq, Prod.mk.injEq] at hv
  obtain ⟨rfl, rfl⟩ := hv
  simp only [Bool.and_eq_true, Bool.not_eq_true'] at hdel
  exact dAll_compileDelegate br e gix hdel.2 hs

/-! ### Induction over the compiler (the structure of `visit_delegIn`, Lemmas/ProgDelegAll.lean) -/

mutual
theorem visit_dAll (br : Nat → Bool) :
    ∀ (e : Expr) (hard : Bool) (pc nsv gix : Nat) (code : Code) (nsv' : Nat),
      noSub e = true → visit br e hard pc nsv gix = .ok (code, nsv') → dAll br code = true
  | .empty, hard, pc, nsv, gix, code, nsv', hs, hv => by
    by_cases hdel : (!hard && !isHard br .empty) = true
    · exact visit_easy_dAll br _ hard pc nsv gix code nsv' hs hdel hv
    · rw [visit] at hv
      simp only [hdel, Bool.false_eq_true, ↓reduceIte, Except.ok.injEq, Prod.mk.injEq] at hv
      obtain ⟨rfl, rfl⟩ := hv
      rfl
  | .any nl, hard, pc, nsv, gix, code, nsv', hs, hv => by
    by_cases hdel : (!hard && !isHard br (.any nl)) = true
    · exact visit_easy_dAll br _ hard pc nsv gix code nsv' hs hdel hv
    · cases nl <;>
      · rw [visit] at hv
        simp only [hdel, Bool.false_eq_true, ↓reduceIte, Except.ok.injEq, Prod.mk.injEq] at hv
        obtain ⟨rfl, rfl⟩ := hv
        rfl
  | .assertion a, hard, pc, nsv, gix, code, nsv', hs, hv => by
    by_cases hdel : (!hard && !isHard br (.assertion a)) = true
    · exact visit_easy_dAll br _ hard pc nsv gix code nsv' hs hdel hv
    · rw [visit] at hv
      simp only [hdel, Bool.false_eq_true, ↓reduceIte, Except.ok.injEq, Prod.mk.injEq] at hv
      obtain ⟨rfl, rfl⟩ := hv
      rfl
  | .literal v ci, hard, pc, nsv, gix, code, nsv', hs, hv => by
    by_cases hdel : (!hard && !isHard br (.literal v ci)) = true
    · exact visit_easy_dAll br _ hard pc nsv gix code nsv' hs hdel hv
    · rw [visit] at hv
      simp only [hdel, Bool.false_eq_true, ↓reduceIte] at hv
      cases ci with
      | false =>
        simp only [Bool.not_false, ↓reduceIte, Except.ok.injEq, Prod.mk.injEq] at hv
        obtain ⟨rfl, rfl⟩ := hv
        rfl
      | true =>
        simp only [Bool.not_true, Bool.false_eq_true, ↓reduceIte, Except.ok.injEq, Prod.mk.injEq] at hv
        obtain ⟨rfl, rfl⟩ := hv
        exact dAll_compileDelegate br _ gix (by simp [isHard]) hs
  | .delegate inner size ci, hard, pc, nsv, gix, code, nsv', hs, hv => by
    by_cases hdel : (!hard && !isHard br (.delegate inner size ci)) = true
    · exact visit_easy_dAll br _ hard pc nsv gix code nsv' hs hdel hv
    · rw [visit] at hv
      simp only [hdel, Bool.false_eq_true, ↓reduceIte, Except.ok.injEq, Prod.mk.injEq] at hv
      obtain ⟨rfl, rfl⟩ := hv
      exact dAll_compileDelegate br _ gix (by simp [isHard]) hs
  | .backref g, hard, pc, nsv, gix, code, nsv', _, hv => by
    rw [visit] at hv
    simp only [isHard, Bool.not_true, Bool.and_false, Bool.false_eq_true, ↓reduceIte, Except.ok.injEq, Prod.mk.injEq] at hv
    obtain ⟨rfl, rfl⟩ := hv
    rfl
  | .backrefExists g, hard, pc, nsv, gix, code, nsv', _, hv => by
    rw [visit] at hv
    simp only [isHard, Bool.not_true, Bool.and_false, Bool.false_eq_true, ↓reduceIte, Except.ok.injEq, Prod.mk.injEq] at hv
    obtain ⟨rfl, rfl⟩ := hv
    rfl
  | .keepOut, hard, pc, nsv, gix, code, nsv', _, hv => by
    rw [visit] at hv
    simp only [isHard, Bool.not_true, Bool.and_false, Bool.false_eq_true, ↓reduceIte, Except.ok.injEq, Prod.mk.injEq] at hv
    obtain ⟨rfl, rfl⟩ := hv
    rfl
  | .contPrev, hard, pc, nsv, gix, code, nsv', _, hv => by
    rw [visit] at hv
    simp only [isHard, Bool.not_true, Bool.and_false, Bool.false_eq_true, ↓reduceIte, Except.ok.injEq, Prod.mk.injEq] at hv
    obtain ⟨rfl, rfl⟩ := hv
    rfl
  | .subroutine g, hard, pc, nsv, gix, code, nsv', hs, hv => by
    simp [noSub] at hs
  | .group g e, hard, pc, nsv, gix, code, nsv', hs, hv => by
    by_cases hdel : (!hard && !isHard br (.group g e)) = true
    · exact visit_easy_dAll br _ hard pc nsv gix code nsv' hs hdel hv
    · rw [visit] at hv
      simp only [hdel, Bool.false_eq_true, ↓reduceIte] at hv
      simp only [noSub] at hs
      cases hb : visit br e hard (pc + 1) nsv (gix + 1) with
      | error err => simp [hb] at hv
      | ok p =>
        obtain ⟨code1, nsv1⟩ := p
        simp only [hb, Except.ok.injEq, Prod.mk.injEq] at hv
        obtain ⟨rfl, rfl⟩ := hv
        have ih := visit_dAll br e hard (pc + 1) nsv (gix + 1) code1 _ hs hb
        simp only [dAll_append, dAll_cons, dAll_nil, dOK, ih, Bool.and_true]
  | .concat es, hard, pc, nsv, gix, code, nsv', hs, hv => by
    by_cases hdel : (!hard && !isHard br (.concat es)) = true
    · exact visit_easy_dAll br _ hard pc nsv gix code nsv' hs hdel hv
    · rw [visit] at hv
      simp only [hdel, Bool.false_eq_true, ↓reduceIte] at hv
      simp only [noSub] at hs
      generalize hsp : concatSplit br es hard = sp at hv
      rw [visitMiddle_skip] at hv
      cases hb : visitMiddle br (es.drop sp.1) 0 (sp.2 - sp.1)
          (pc + (compileDelegates (es.take sp.1) gix).length) nsv (gix + groupCountList (es.take sp.1)) with
      | error err => simp [hb] at hv
      | ok p =>
        obtain ⟨mid, nsv1⟩ := p
        simp only [hb, Except.ok.injEq, Prod.mk.injEq] at hv
        obtain ⟨rfl, rfl⟩ := hv
        have hsz := sizeOf_drop_le es sp.1
        have ihm := visitMiddle_dAll br (es.drop sp.1) (sp.2 - sp.1) _ nsv _ mid nsv1
          (noSubAll_drop es sp.1 hs) hb
        have hpre := dAll_compileDelegates br (es.take sp.1) gix
          (by rw [← hsp]; exact concatSplit_prefix_isHardAny br es hard) (noSubAll_take es sp.1 hs)
        have hsuf := dAll_compileDelegates br (es.drop sp.2) (gix + groupCountList (es.take sp.2))
          (by rw [← hsp]; exact concatSplit_suffix_isHardAny br es hard) (noSubAll_drop es sp.2 hs)
        simp only [dAll_append, Bool.and_eq_true]
        exact ⟨⟨hpre, ihm⟩, hsuf⟩
  | .alt es, hard, pc, nsv, gix, code, nsv', hs, hv => by
    by_cases hdel : (!hard && !isHard br (.alt es)) = true
    · exact visit_easy_dAll br _ hard pc nsv gix code nsv' hs hdel hv
    · rw [visit] at hv
      simp only [hdel, Bool.false_eq_true, ↓reduceIte] at hv
      simp only [noSub] at hs
      cases hb : visitAlt br es hard pc nsv gix with
      | error err => simp [hb] at hv
      | ok p =>
        obtain ⟨f, endPc, nsv1⟩ := p
        simp only [hb, Except.ok.injEq, Prod.mk.injEq] at hv
        obtain ⟨rfl, rfl⟩ := hv
        exact visitAlt_dAll br es hard pc nsv gix f endPc _ hs hb endPc
  | .repeat e lo hi greedy, hard, pc, nsv, gix, code, nsv', hs, hv => by
    by_cases hdel : (!hard && !isHard br (.repeat e lo hi greedy)) = true
    · exact visit_easy_dAll br _ hard pc nsv gix code nsv' hs hdel hv
    · rw [visit] at hv
      simp only [hdel, Bool.false_eq_true, ↓reduceIte] at hv
      simp only [noSub] at hs
      by_cases hopt : (lo == 0 && hi == some 1) = true
      · simp only [hopt, ↓reduceIte] at hv
        cases hb : visit br e hard (pc + 1) nsv gix with
        | error err => simp [hb] at hv
        | ok p =>
          obtain ⟨code1, nsv1⟩ := p
          simp only [hb, Except.ok.injEq, Prod.mk.injEq] at hv
          obtain ⟨rfl, rfl⟩ := hv
          have ih := visit_dAll br e hard (pc + 1) nsv gix code1 _ hs hb
          cases greedy <;> simp [dAll_cons, dOK, ih]
      · simp only [hopt, Bool.false_eq_true, ↓reduceIte] at hv
        generalize (hard || isHard br (.repeat e lo hi greedy)) = hard' at hv
        by_cases heps : (hi == none && minSize e == 0) = true
        · simp only [heps, ↓reduceIte] at hv
          cases hb : visit br e hard' (pc + 2) (nsv + 2) gix with
          | error err => simp [hb] at hv
          | ok p =>
            obtain ⟨code1, nsv1⟩ := p
            simp only [hb, Except.ok.injEq, Prod.mk.injEq] at hv
            obtain ⟨rfl, rfl⟩ := hv
            have ih := visit_dAll br e hard' (pc + 2) (nsv + 2) gix code1 _ hs hb
            cases greedy <;> simp [dAll_append, dAll_cons, dAll_nil, dOK, ih]
        · simp only [heps, Bool.false_eq_true, ↓reduceIte] at hv
          by_cases hstar : (lo == 0 && hi == none) = true
          · simp only [hstar, ↓reduceIte] at hv
            cases hb : visit br e hard' (pc + 1) nsv gix with
            | error err => simp [hb] at hv
            | ok p =>
              obtain ⟨code1, nsv1⟩ := p
              simp only [hb, Except.ok.injEq, Prod.mk.injEq] at hv
              obtain ⟨rfl, rfl⟩ := hv
              have ih := visit_dAll br e hard' (pc + 1) nsv gix code1 _ hs hb
              cases greedy <;> simp [dAll_append, dAll_cons, dAll_nil, dOK, ih]
          · simp only [hstar, Bool.false_eq_true, ↓reduceIte] at hv
            by_cases hplus : (lo == 1 && hi == none) = true
            · simp only [hplus, ↓reduceIte] at hv
              cases hb : visit br e hard' pc nsv gix with
              | error err => simp [hb] at hv
              | ok p =>
                obtain ⟨code1, nsv1⟩ := p
                simp only [hb, Except.ok.injEq, Prod.mk.injEq] at hv
                obtain ⟨rfl, rfl⟩ := hv
                have ih := visit_dAll br e hard' pc nsv gix code1 _ hs hb
                cases greedy <;> simp [dAll_append, dAll_cons, dAll_nil, dOK, ih]
            · simp only [hplus, Bool.false_eq_true, ↓reduceIte] at hv
              cases hb : visit br e hard' (pc + 2) (nsv + 1) gix with
              | error err => simp [hb] at hv
              | ok p =>
                obtain ⟨code1, nsv1⟩ := p
                simp only [hb, Except.ok.injEq, Prod.mk.injEq] at hv
                obtain ⟨rfl, rfl⟩ := hv
                have ih := visit_dAll br e hard' (pc + 2) (nsv + 1) gix code1 _ hs hb
                cases greedy <;> simp [dAll_append, dAll_cons, dAll_nil, dOK, ih]
  | .look e .ahead, hard, pc, nsv, gix, code, nsv', hs, hv => by
    simp only [noSub] at hs
    rw [visit] at hv
    simp only [isHard, Bool.not_true, Bool.and_false, Bool.false_eq_true, ↓reduceIte] at hv
    cases hb : visit br e false (posLookBodyPc (isHard br e) false pc) (nsv + 1) gix with
    | error err => simp [hb] at hv
    | ok p =>
      obtain ⟨code1, nsv1⟩ := p
      simp only [hb, Except.ok.injEq, Prod.mk.injEq] at hv
      obtain ⟨rfl, rfl⟩ := hv
      have ih := visit_dAll br e false _ (nsv + 1) gix code1 _ hs hb
      simp only [dAll_wrapPosLook]
      exact ih
  | .look e .aheadNeg, hard, pc, nsv, gix, code, nsv', hs, hv => by
    simp only [noSub] at hs
    rw [visit] at hv
    simp only [isHard, Bool.not_true, Bool.and_false, Bool.false_eq_true, ↓reduceIte] at hv
    cases hb : visit br e false (negLookBodyPc false pc) nsv gix with
    | error err => simp [hb] at hv
    | ok p =>
      obtain ⟨code1, nsv1⟩ := p
      simp only [hb, Except.ok.injEq, Prod.mk.injEq] at hv
      obtain ⟨rfl, rfl⟩ := hv
      have ih := visit_dAll br e false _ nsv gix code1 _ hs hb
      simp only [dAll_wrapNegLook]
      exact ih
  | .look e .behind, hard, pc, nsv, gix, code, nsv', hs, hv => by
    simp only [noSub] at hs
    cases hia : isAlt e with
    | false =>
      have hna' := isAlt_false_ne e hia
      by_cases hcs : constSize e = true
      · rw [C13_accept_behind_const br e hna' hcs] at hv
        cases hb : visit br e false (posLookBodyPc (isHard br e) true pc) (nsv + 1) gix with
        | error err => simp [hb] at hv
        | ok p =>
          obtain ⟨code1, nsv1⟩ := p
          simp only [hb, Except.ok.injEq, Prod.mk.injEq] at hv
          obtain ⟨rfl, rfl⟩ := hv
          have ih := visit_dAll br e false _ (nsv + 1) gix code1 _ hs hb
          simp only [dAll_wrapPosLook]
          exact ih
      · have hcs' : constSize e = false := by simpa using hcs
        rw [C13_accept_behind_not_const br e hna' hcs'] at hv
        cases hv
    | true =>
      obtain ⟨es, rfl⟩ := isAlt_true e hia
      rw [visit] at hv
      simp only [isHard, Bool.not_true, Bool.and_false, Bool.false_eq_true, ↓reduceIte] at hv
      by_cases hcs : constSize (.alt es) = true
      · simp only [hcs, Bool.not_true, Bool.false_eq_true, ↓reduceIte] at hv
        rw [visitAltBody_eq_visit] at hv
        cases hb : visit br (.alt es) false (posLookBodyPc (isHardAny br es) true pc) (nsv + 1) gix with
        | error err => simp [hb] at hv
        | ok p =>
          obtain ⟨code1, nsv1⟩ := p
          simp only [hb, Except.ok.injEq, Prod.mk.injEq] at hv
          obtain ⟨rfl, rfl⟩ := hv
          have ih := visit_dAll br (.alt es) false _ (nsv + 1) gix code1 _ hs hb
          simp only [dAll_wrapPosLook]
          exact ih
      · have hcs' : constSize (.alt es) = false := by simpa using hcs
        simp only [hcs', Bool.not_false, ↓reduceIte] at hv
        simp only [noSub] at hs
        cases hb : lookBehindAlts br es (pc + 1) nsv gix with
        | error err => simp [hb] at hv
        | ok p =>
          obtain ⟨f, endPc, nsv1⟩ := p
          simp only [hb, Except.ok.injEq, Prod.mk.injEq] at hv
          obtain ⟨rfl, rfl⟩ := hv
          have ih := lookBehindAlts_dAll br es (pc + 1) nsv gix f endPc _ hs hb
          simp only [dAll_append, dAll_cons, dAll_nil, dOK, ih endPc, Bool.and_true]
  | .look e .behindNeg, hard, pc, nsv, gix, code, nsv', hs, hv => by
    simp only [noSub] at hs
    cases hia : isAlt e with
    | false =>
      have hna' := isAlt_false_ne e hia
      by_cases hcs : constSize e = true
      · rw [C13_accept_behindNeg_const br e hna' hcs] at hv
        cases hb : visit br e false (negLookBodyPc true pc) nsv gix with
        | error err => simp [hb] at hv
        | ok p =>
          obtain ⟨code1, nsv1⟩ := p
          simp only [hb, Except.ok.injEq, Prod.mk.injEq] at hv
          obtain ⟨rfl, rfl⟩ := hv
          have ih := visit_dAll br e false _ nsv gix code1 _ hs hb
          simp only [dAll_wrapNegLook]
          exact ih
      · have hcs' : constSize e = false := by simpa using hcs
        rw [C13_accept_behindNeg_not_const br e hna' hcs'] at hv
        cases hv
    | true =>
      obtain ⟨es, rfl⟩ := isAlt_true e hia
      rw [visit] at hv
      simp only [isHard, Bool.not_true, Bool.and_false, Bool.false_eq_true, ↓reduceIte] at hv
      by_cases hcs : constSize (.alt es) = true
      · simp only [hcs, Bool.not_true, Bool.false_eq_true, ↓reduceIte] at hv
        rw [visitAltBody_eq_visit] at hv
        cases hb : visit br (.alt es) false (negLookBodyPc true pc) nsv gix with
        | error err => simp [hb] at hv
        | ok p =>
          obtain ⟨code1, nsv1⟩ := p
          simp only [hb, Except.ok.injEq, Prod.mk.injEq] at hv
          obtain ⟨rfl, rfl⟩ := hv
          have ih := visit_dAll br (.alt es) false _ nsv gix code1 _ hs hb
          simp only [dAll_wrapNegLook]
          exact ih
      · have hcs' : constSize (.alt es) = false := by simpa using hcs
        simp only [hcs', Bool.not_false, ↓reduceIte] at hv
        simp only [noSub] at hs
        exact lookBehindNegAlts_dAll br es pc nsv gix code nsv' hs hv
  | .atomic e, hard, pc, nsv, gix, code, nsv', hs, hv => by
    simp only [noSub] at hs
    rw [visit] at hv
    simp only [isHard, Bool.not_true, Bool.and_false, Bool.false_eq_true, ↓reduceIte] at hv
    cases hb : visit br e false (pc + 1) nsv gix with
    | error err => simp [hb] at hv
    | ok p =>
      obtain ⟨code1, nsv1⟩ := p
      simp only [hb, Except.ok.injEq, Prod.mk.injEq] at hv
      obtain ⟨rfl, rfl⟩ := hv
      have ih := visit_dAll br e false (pc + 1) nsv gix code1 _ hs hb
      simp only [dAll_append, dAll_cons, dAll_nil, dOK, ih, Bool.and_true]
  | .cond cnd y no, hard, pc, nsv, gix, code, nsv', hs, hv => by
    simp only [noSub, Bool.and_eq_true] at hs
    obtain ⟨⟨hsc, hsy⟩, hsn⟩ := hs
    rw [visit] at hv
    simp only [isHard, Bool.not_true, Bool.and_false, Bool.false_eq_true, ↓reduceIte] at hv
    cases hb1 : visit br cnd hard (pc + 2) nsv gix with
    | error err => simp [hb1] at hv
    | ok p1 =>
      obtain ⟨cc, nsv1⟩ := p1
      simp only [hb1] at hv
      cases hb2 : visit br y hard (pc + 2 + cc.length + 1) nsv1 (gix + groupCount cnd) with
      | error err => simp [hb2] at hv
      | ok p2 =>
        obtain ⟨yc, nsv2⟩ := p2
        simp only [hb2] at hv
        cases hb3 : visit br no hard (pc + 2 + cc.length + 1 + yc.length + 1) nsv2 (gix + groupCount cnd + groupCount y) with
        | error err => simp [hb3] at hv
        | ok p3 =>
          obtain ⟨nc, nsv3⟩ := p3
          simp only [hb3, Except.ok.injEq, Prod.mk.injEq] at hv
          obtain ⟨rfl, rfl⟩ := hv
          have k1 := visit_dAll br cnd hard (pc + 2) nsv gix cc _ hsc hb1
          have k2 := visit_dAll br y hard _ nsv1 _ yc _ hsy hb2
          have k3 := visit_dAll br no hard _ nsv2 _ nc _ hsn hb3
          simp only [dAll_append, dAll_cons, dAll_nil, dOK, k1, k2, k3, Bool.and_true]
termination_by e => sizeOf e
decreasing_by all_goals (simp_wf; try (first | omega | (subst_vars; simp; try omega)))
theorem visitMiddle_dAll (br : Nat → Bool) :
    ∀ (es : List Expr) (take pc nsv gix : Nat) (code : Code) (nsv' : Nat),
      noSubAll es = true → visitMiddle br es 0 take pc nsv gix = .ok (code, nsv') → dAll br code = true
  | [], take, pc, nsv, gix, code, nsv', _, hv => by
    simp only [visitMiddle, Except.ok.injEq, Prod.mk.injEq] at hv
    obtain ⟨rfl, rfl⟩ := hv
    rfl
  | e :: es, 0, pc, nsv, gix, code, nsv', _, hv => by
    simp only [visitMiddle, Except.ok.injEq, Prod.mk.injEq] at hv
    obtain ⟨rfl, rfl⟩ := hv
    rfl
  | e :: es, take + 1, pc, nsv, gix, code, nsv', hs, hv => by
    simp only [visitMiddle] at hv
    simp only [noSubAll, Bool.and_eq_true] at hs
    cases hb : visit br e true pc nsv gix with
    | error err => simp [hb] at hv
    | ok p =>
      obtain ⟨c1, nsv1⟩ := p
      simp only [hb] at hv
      cases hb2 : visitMiddle br es 0 take (pc + c1.length) nsv1 (gix + groupCount e) with
      | error err => simp [hb2] at hv
      | ok p2 =>
        obtain ⟨c2, nsv2⟩ := p2
        simp only [hb2, Except.ok.injEq, Prod.mk.injEq] at hv
        obtain ⟨rfl, rfl⟩ := hv
        have ih1 := visit_dAll br e true pc nsv gix c1 nsv1 hs.1 hb
        have ih2 := visitMiddle_dAll br es take (pc + c1.length) nsv1 _ c2 _ hs.2 hb2
        simp only [dAll_append, Bool.and_eq_true]
        exact ⟨ih1, ih2⟩
termination_by es => sizeOf es
decreasing_by all_goals (simp_wf; try omega)
theorem visitAlt_dAll (br : Nat → Bool) :
    ∀ (es : List Expr) (hard : Bool) (pc nsv gix : Nat) (f : Nat → Code) (endPc nsv' : Nat),
      noSubAll es = true → visitAlt br es hard pc nsv gix = .ok (f, endPc, nsv') →
      ∀ t, dAll br (f t) = true
  | [], hard, pc, nsv, gix, f, endPc, nsv', _, hv => by
    simp only [visitAlt, Except.ok.injEq, Prod.mk.injEq] at hv
    obtain ⟨rfl, rfl, rfl⟩ := hv
    exact fun _ => rfl
  | [e], hard, pc, nsv, gix, f, endPc, nsv', hs, hv => by
    simp only [visitAlt] at hv
    simp only [noSubAll, Bool.and_eq_true] at hs
    cases hb : visit br e hard pc nsv gix with
    | error err => simp [hb] at hv
    | ok p =>
      obtain ⟨c1, nsv1⟩ := p
      simp only [hb, Except.ok.injEq, Prod.mk.injEq] at hv
      obtain ⟨rfl, rfl, rfl⟩ := hv
      have ih := visit_dAll br e hard pc nsv gix c1 nsv1 hs.1 hb
      exact fun _ => ih
  | e :: e2 :: es, hard, pc, nsv, gix, f, endPc, nsv', hs, hv => by
    simp only [visitAlt] at hv
    rw [noSubAll, Bool.and_eq_true] at hs
    cases hb : visit br e hard (pc + 1) nsv gix with
    | error err => simp [hb] at hv
    | ok p =>
      obtain ⟨c1, nsv1⟩ := p
      simp only [hb] at hv
      cases hb2 : visitAlt br (e2 :: es) hard (pc + 1 + c1.length + 1) nsv1 (gix + groupCount e) with
      | error err => simp [hb2] at hv
      | ok p2 =>
        obtain ⟨f2, endPc2, nsv2⟩ := p2
        simp only [hb2, Except.ok.injEq, Prod.mk.injEq] at hv
        obtain ⟨rfl, rfl, rfl⟩ := hv
        have k1 := visit_dAll br e hard (pc + 1) nsv gix c1 nsv1 hs.1 hb
        have ih2 := visitAlt_dAll br (e2 :: es) hard _ nsv1 _ f2 _ _ hs.2 hb2
        intro t
        have k2 := ih2 t
        simp only [dAll_append, dAll_cons, dAll_nil, dOK, k1, k2, Bool.and_true]
termination_by es => sizeOf es
decreasing_by all_goals (simp_wf; try omega)
theorem lookBehindAlts_dAll (br : Nat → Bool) :
    ∀ (es : List Expr) (pc nsv gix : Nat) (f : Nat → Code) (endPc nsv' : Nat),
      noSubAll es = true → lookBehindAlts br es pc nsv gix = .ok (f, endPc, nsv') →
      ∀ t, dAll br (f t) = true
  | [], pc, nsv, gix, f, endPc, nsv', _, hv => by
    simp only [lookBehindAlts, Except.ok.injEq, Prod.mk.injEq] at hv
    obtain ⟨rfl, rfl, rfl⟩ := hv
    exact fun _ => rfl
  | [e], pc, nsv, gix, f, endPc, nsv', hs, hv => by
    simp only [lookBehindAlts] at hv
    simp only [noSubAll, Bool.and_eq_true] at hs
    by_cases hcs : constSize e = true
    · simp only [hcs, Bool.not_true, Bool.false_eq_true, ↓reduceIte] at hv
      cases hb : visit br e false (posLookBodyPc (isHard br e) true pc) (nsv + 1) gix with
      | error err => simp [hb] at hv
      | ok p =>
        obtain ⟨c1, nsv1⟩ := p
        simp only [hb, Except.ok.injEq, Prod.mk.injEq] at hv
        obtain ⟨rfl, rfl, rfl⟩ := hv
        have ih := visit_dAll br e false _ (nsv + 1) gix c1 nsv1 hs.1 hb
        intro _
        simp only [dAll_wrapPosLook]
        exact ih
    · simp [hcs] at hv
  | e :: e2 :: es, pc, nsv, gix, f, endPc, nsv', hs, hv => by
    simp only [lookBehindAlts] at hv
    rw [noSubAll, Bool.and_eq_true] at hs
    by_cases hcs : constSize e = true
    · simp only [hcs, Bool.not_true, Bool.false_eq_true, ↓reduceIte] at hv
      cases hb : visit br e false (posLookBodyPc (isHard br e) true (pc + 1)) (nsv + 1) gix with
      | error err => simp [hb] at hv
      | ok p =>
        obtain ⟨c1, nsv1⟩ := p
        simp only [hb] at hv
        cases hb2 : lookBehindAlts br (e2 :: es)
            (pc + 1 + (wrapPosLook (isHard br e) true nsv (minSize e) c1).length + 1) nsv1 (gix + groupCount e) with
        | error err => simp [hb2] at hv
        | ok p2 =>
          obtain ⟨f2, endPc2, nsv2⟩ := p2
          simp only [hb2, Except.ok.injEq, Prod.mk.injEq] at hv
          obtain ⟨rfl, rfl, rfl⟩ := hv
          have k1 := visit_dAll br e false _ (nsv + 1) gix c1 nsv1 hs.1 hb
          have ih2 := lookBehindAlts_dAll br (e2 :: es) _ nsv1 _ f2 _ _ hs.2 hb2
          intro t
          have k2 := ih2 t
          simp only [dAll_append, dAll_cons, dAll_nil, dOK, dAll_wrapPosLook, k1, k2, Bool.and_true]
    · simp [hcs] at hv
termination_by es => sizeOf es
decreasing_by all_goals (simp_wf; try omega)
theorem lookBehindNegAlts_dAll (br : Nat → Bool) :
    ∀ (es : List Expr) (pc nsv gix : Nat) (code : Code) (nsv' : Nat),
      noSubAll es = true → lookBehindNegAlts br es pc nsv gix = .ok (code, nsv') → dAll br code = true
  | [], pc, nsv, gix, code, nsv', _, hv => by
    simp only [lookBehindNegAlts, Except.ok.injEq, Prod.mk.injEq] at hv
    obtain ⟨rfl, rfl⟩ := hv
    rfl
  | e :: es, pc, nsv, gix, code, nsv', hs, hv => by
    simp only [lookBehindNegAlts] at hv
    simp only [noSubAll, Bool.and_eq_true] at hs
    by_cases hcs : constSize e = true
    · simp only [hcs, Bool.not_true, Bool.false_eq_true, ↓reduceIte] at hv
      cases hb : visit br e false (negLookBodyPc true pc) nsv gix with
      | error err => simp [hb] at hv
      | ok p =>
        obtain ⟨c1, nsv1⟩ := p
        simp only [hb] at hv
        cases hb2 : lookBehindNegAlts br es (pc + (wrapNegLook true pc (minSize e) c1).length) nsv1 (gix + groupCount e) with
        | error err => simp [hb2] at hv
        | ok p2 =>
          obtain ⟨c2, nsv2⟩ := p2
          simp only [hb2, Except.ok.injEq, Prod.mk.injEq] at hv
          obtain ⟨rfl, rfl⟩ := hv
          have ih1 := visit_dAll br e false _ nsv gix c1 nsv1 hs.1 hb
          have ih2 := lookBehindNegAlts_dAll br es _ nsv1 _ c2 nsv2 hs.2 hb2
          simp only [dAll_append, dAll_wrapNegLook, Bool.and_eq_true]
          exact ⟨ih1, ih2⟩
    · simp [hcs] at hv
termination_by es => sizeOf es
decreasing_by all_goals (simp_wf; try omega)
end

/-- the general lemma over the compiler, in `∀ … ∈ code` form -/
theorem visit_delegates_easy (br : Nat → Bool) (e : Expr) (hard : Bool) (pc nsv gix : Nat) (code : Code) (nsv' : Nat)
    (hs : noSub e = true) (hv : visit br e hard pc nsv gix = .ok (code, nsv')) :
    ∀ es sg eg, Insn.delegate es sg eg ∈ code →
      es ≠ [] ∧ isHardAny br es = false ∧ noSubAll es = true :=
  (dAll_iff br code).mp (visit_dAll br e hard pc nsv gix code nsv' hs hv)

theorem compile_dAll (br : Nat → Bool) (e : Expr) (prog : Prog) (hs : noSub e = true)
    (hc : compile br e = .ok prog) : dAll br prog.body = true := by
  unfold compile at hc
  simp only at hc
  cases hv : visit br e false 0 (groupCount e * 2) 0 with
  | error err => simp [hv] at hc
  | ok p =>
    obtain ⟨code, nsv⟩ := p
    simp only [hv, Except.ok.injEq] at hc
    subst hc
    have h := visit_dAll br e false 0 (groupCount e * 2) 0 code nsv hs hv
    simp only [dAll_append, dAll_cons, dAll_nil, dOK, h, Bool.and_true]

/-- the wrapped tree of a tree that builds holds no subroutine call (the analyzer's check) -/
theorem build_wrapped_noSub (tree : Expr) (backrefs : List Nat) (b : Built)
    (hb : build tree backrefs = .ok b) : noSub b.wrapped = true ∧ noSub b.raw = true := by
  obtain ⟨hr, hw, _, _, _⟩ := build_raw_eq tree backrefs b hb
  have hs := build_noSub tree backrefs b hb
  rw [hw, hr]
  simp [noSub, noSubAll, noSub_renumber, hs]

/-- every `Delegate` of every program `build` returns: a non-empty run of easy expressions without
    subroutine calls -/
theorem build_delegates_easy (tree : Expr) (backrefs : List Nat) (b : Built) (prog : Prog)
    (hb : build tree backrefs = .ok b) (hk : b.kind = .fancy prog) :
    ∀ es sg eg, Insn.delegate es sg eg ∈ prog.body →
      es ≠ [] ∧ isHardAny (fun g => backrefs.contains g) es = false ∧ noSubAll es = true := by
  obtain ⟨_, _, _, _, hcomp⟩ := build_fancy tree backrefs b prog hb hk
  exact (dAll_iff _ _).mp (compile_dAll _ b.wrapped prog (build_wrapped_noSub tree backrefs b hb).1 hcomp)

/-- on the hand-off path the user's tree is easy -/
theorem build_wrap_easy (tree : Expr) (backrefs : List Nat) (b : Built)
    (hb : build tree backrefs = .ok b) (hk : b.kind = .wrap) :
    isHard (fun g => backrefs.contains g) b.raw = false := by
  unfold build at hb
  simp only [renumber_wrapTree] at hb
  split at hb
  · cases hb
  · split at hb
    · rename_i hh
      cases hb
      simpa using hh
    · split at hb
      · cases hb
      · cases hb; simp at hk

/-! `to_str` does not look at group numbers: the text of the numbered tree is the text of the parser's -/
mutual
theorem toStr_renumber (sp : Char → Bool) : ∀ (e : Expr) (n p : Nat),
    toStr sp (renumber e n).1 p = toStr sp e p
  | .group g e, n, p => by simp only [renumber, toStr, toStr_renumber sp e (n + 1) 0]
  | .concat es, n, p => by simp only [renumber, toStr, toStrConcat_renumber sp es n]
  | .alt es, n, p => by simp only [renumber, toStr, toStrAlt_renumber sp es n true]
  | .repeat e lo hi gr, n, p => by simp only [renumber, toStr, toStr_renumber sp e n 3]
  | .look e la, n, p => by
    simp only [renumber]
    rw [toStr, toStr]
    all_goals (intros; simp_all)
  | .atomic e, n, p => by
    simp only [renumber]
    rw [toStr, toStr]
    all_goals (intros; simp_all)
  | .cond c y f, n, p => by
    simp only [renumber]
    rw [toStr, toStr]
    all_goals (intros; simp_all)
  | .empty, _, _ | .any _, _, _ | .assertion _, _, _ | .literal _ _, _, _ | .delegate _ _ _, _, _
  | .backref _, _, _ | .keepOut, _, _ | .contPrev, _, _ | .backrefExists _, _, _ | .subroutine _, _, _ => by
    simp only [renumber]
theorem toStrConcat_renumber (sp : Char → Bool) : ∀ (es : List Expr) (n : Nat),
    toStrConcat sp (renumberList es n).1 = toStrConcat sp es
  | [], _ => by simp only [renumberList]
  | e :: es, n => by
    simp only [renumberList, toStrConcat, toStr_renumber sp e n 2, toStrConcat_renumber sp es _]
theorem toStrAlt_renumber (sp : Char → Bool) : ∀ (es : List Expr) (n : Nat) (first : Bool),
    toStrAlt sp (renumberList es n).1 first = toStrAlt sp es first
  | [], _, _ => by simp only [renumberList]
  | e :: es, n, first => by
    simp only [renumberList, toStrAlt, toStr_renumber sp e n 1, toStrAlt_renumber sp es _ false]
end

/-! ## 3. The theorems -/

/-- **every delegated piece can be printed**: in every program `build` returns, every `Delegate es sg eg`
    is built from at least one expression (`DelegateBuilder::build`'s `expect` holds), each of them is
    printed by `to_str` at every precedence — in particular at precedence 1, the call
    `info.expr.to_str(&mut self.re, 1)` of `DelegateBuilder::push` — and so is the concatenation the model
    keeps.  The compile step never reaches `panic!("attempting to format hard expr")`. -/
theorem C06_delegate_text_total (sp : Char → Bool) (tree : Expr) (backrefs : List Nat) (b : Built) (prog : Prog)
    (hb : build tree backrefs = .ok b) (hk : b.kind = .fancy prog) :
    ∀ es sg eg, Insn.delegate es sg eg ∈ prog.body →
      (toStrConcat sp es).isSome = true ∧ es ≠ [] ∧ ∀ e ∈ es, ∀ p, (toStr sp e p).isSome = true := by
  intro es sg eg hm
  obtain ⟨hne, hh, hs⟩ := build_delegates_easy tree backrefs b prog hb hk es sg eg hm
  refine ⟨toStrConcat_isSome_of_easy sp _ es hh hs, hne, fun e he p => ?_⟩
  exact toStr_isSome_of_easy sp _ e ((isHardAny_false_iff _ es).mp hh e he)
    (by
      clear hm hh hne
      induction es with
      | nil => cases he
      | cons x xs ih =>
        simp only [noSubAll, Bool.and_eq_true] at hs
        rcases List.mem_cons.mp he with rfl | h
        · exact hs.1
        · exact ih hs.2 h) p

/-- **the hand-off path prints the user's tree**: `new_options` calls `raw_e.to_str(&mut re_cooked, 0)` on
    the user's expression inside the wrapper (`tree.expr = Concat[_, Group(raw_e)]`): `b.raw`, which is
    the parser's tree with its groups numbered — and `to_str` ignores the numbers, so this is also the
    text of `tree` itself -/
theorem C06_wrap_text_total (sp : Char → Bool) (tree : Expr) (backrefs : List Nat) (b : Built)
    (hb : build tree backrefs = .ok b) (hk : b.kind = .wrap) :
    (toStr sp b.raw 0).isSome = true ∧ toStr sp b.raw 0 = toStr sp tree 0 := by
  have hr := (build_raw_eq tree backrefs b hb).1
  refine ⟨toStr_isSome_of_easy sp _ b.raw (build_wrap_easy tree backrefs b hb hk)
    (build_wrapped_noSub tree backrefs b hb).2 0, ?_⟩
  rw [hr, toStr_renumber]

/-- **C06, compile step, from the pattern string**: whatever the parser returns, if `build` accepts it then
    neither `to_str` call site panics -/
theorem C06_compile_no_panic (sp : Char → Bool) (isAlnum : Char → Bool) (cs : List Char) (casei : Bool)
    (t : Parse.Tree) (b : Built) (_h : Parse.parseStr isAlnum cs casei = .ok t)
    (hb : build t.expr t.backrefs = .ok b) :
    (∀ prog, b.kind = .fancy prog → ∀ es sg eg, Insn.delegate es sg eg ∈ prog.body →
      (toStrConcat sp es).isSome = true ∧ es ≠ [] ∧ ∀ e ∈ es, ∀ p, (toStr sp e p).isSome = true) ∧
    (b.kind = .wrap → (toStr sp b.raw 0).isSome = true ∧ toStr sp b.raw 0 = toStr sp t.expr 0) :=
  ⟨fun prog hk => C06_delegate_text_total sp t.expr t.backrefs b prog hb hk,
   fun hk => C06_wrap_text_total sp t.expr t.backrefs b hb hk⟩

/-- the hypothesis `build … = .ok b` matters: the compiler model *without* the analyzer's check hands a
    subroutine call over (easy for `Info::hard`), and its text is the panic.  No pattern string reaches
    this: `analyze` (here `checkRefs`) answers `FeatureNotSupported` first. -/
theorem C06_subroutine_needs_check (sp : Char → Bool) (br : Nat → Bool) :
    visit br (.subroutine 1) false 0 0 0 = .ok ([.delegate [.subroutine 1] 0 0], 0) ∧
    toStrConcat sp [.subroutine 1] = none ∧
    (∀ backrefs, build (.subroutine 1) backrefs = .error .featureNotSupported) := by
  refine ⟨?_, ?_, fun backrefs => ?_⟩
  · rw [visit_easy_eq br _ false 0 0 0 (by simp [isHard])]
    simp [compileDelegate, isLiteral, groupCount]
  · simp [toStrConcat, (toStr_subroutine_none sp br 1 2).2]
  · simp [build, wrapTree, renumber, renumberList, checkRefs, checkRefsList]

/-! ## Non-vacuity -/

section Examples
open Parse

private def spGen : Char → Bool := Generated.isSpecial

/-- the piece `(a|b)c` of `(?=(a|b)c)x` -/
private def exPiece : Expr :=
  .concat [.group 1 (.alt [.literal ['a'] false, .literal ['b'] false]), .literal ['c'] false]

set_option linter.unusedSimpArgs false in
private theorem exDeleg_build : build exDelegGroupTree [] = .ok
    ⟨.concat [.look exPiece .ahead, .literal ['x'] false],
      .concat [.repeat (.any true) 0 none false, .group 0 (.concat [.look exPiece .ahead, .literal ['x'] false])],
      2, [], .fancy ⟨[.split 3 1, .any, .jmp 0, .save 0, .save 4, .delegate [exPiece] 1 2,
        .restore 4, .lit ['x'], .save 1, .end_], 5⟩⟩ := by
  simp [build, exDelegGroupTree, exPiece, wrapTree, renumber, renumberList, checkRefs, checkRefsList, isHard, isHardAny,
    compile, visit, visitMiddle, visitAlt, concatSplit, groupCount, groupCountList, constSize, constSizeAll, minSize,
    minSizeMin, minSizeSum, allMinSize, compileDelegates, compileDelegate, isLiteral, isLiteralAll, boundsEq, satMul,
    satAdd, sureReps, UNSET, wrapPosLook, posLookBodyPc, pushLiteral, pushLiteralAll]

/-- `(?=(a|b)c)x` from the pattern string: parsed, built for the VM, the body of the look-ahead is the
    `Delegate [(a|b)c] 1 2`; the text `DelegateBuilder::push` writes (precedence 1) is `(a|b)c`, the model's
    concatenation (precedence 2) is `(?:(a|b)c)`; `.lit ['x']` is the literal path (no `to_str`) -/
example : ∃ t b prog, parseStr (fun c => c.isAlphanum) "(?=(a|b)c)x".toList false = .ok t ∧
    build t.expr t.backrefs = .ok b ∧ b.kind = .fancy prog ∧
    Insn.delegate [exPiece] 1 2 ∈ prog.body ∧ Insn.lit ['x'] ∈ prog.body ∧
    toStr spGen exPiece 1 = some "(a|b)c".toList ∧
    toStrConcat spGen [exPiece] = some "(?:(a|b)c)".toList ∧
    (toStrConcat spGen [exPiece]).isSome = true := by
  have hp : parseStr (fun c => c.isAlphanum) "(?=(a|b)c)x".toList false = .ok ⟨exDelegGroupTree, [], []⟩ :=
    isTree_sound (by decide +kernel)
  refine ⟨_, _, _, hp, exDeleg_build, rfl, by simp, by simp, by decide, by decide, ?_⟩
  exact (C06_compile_no_panic spGen _ _ _ _ _ hp exDeleg_build).1 _ rfl [exPiece] 1 2 (by simp) |>.1

/-- `(a|b)*\.c` : not hard, handed over whole; the text `new_options` prints -/
private def exWrapTree : Expr :=
  .concat [.repeat (.group 0 (.alt [.literal ['a'] false, .literal ['b'] false])) 0 none true,
    .literal ['.'] false, .literal ['c'] false]

set_option linter.unusedSimpArgs false in
private theorem exWrap_build : build exWrapTree [] = .ok
    ⟨.concat [.repeat (.group 1 (.alt [.literal ['a'] false, .literal ['b'] false])) 0 none true,
        .literal ['.'] false, .literal ['c'] false],
      .concat [.repeat (.any true) 0 none false, .group 0 (.concat [.repeat (.group 1 (.alt [.literal ['a'] false,
        .literal ['b'] false])) 0 none true, .literal ['.'] false, .literal ['c'] false])],
      2, [], .wrap⟩ := by
  simp [build, exWrapTree, wrapTree, renumber, renumberList, checkRefs, checkRefsList, isHard, isHardAny, groupCount,
    groupCountList]

example : ∃ t b, parseStr (fun c => c.isAlphanum) "(a|b)*\\.c".toList false = .ok t ∧
    build t.expr t.backrefs = .ok b ∧ b.kind = .wrap ∧
    toStr spGen b.raw 0 = some "(a|b)*\\.c".toList ∧ (toStr spGen b.raw 0).isSome = true := by
  have hp : parseStr (fun c => c.isAlphanum) "(a|b)*\\.c".toList false = .ok ⟨exWrapTree, [], []⟩ :=
    isTree_sound (by decide +kernel)
  exact ⟨_, _, hp, exWrap_build, rfl, by decide,
    ((C06_compile_no_panic spGen _ _ _ _ _ hp exWrap_build).2 rfl).1⟩

/-- the side condition of `toStr_isSome_of_easy` at work: `(a)\g1` parses to a tree with a subroutine
    call, easy for `Info::hard`, which `to_str` cannot print — and which never builds -/
example : isHard (fun _ => false) (.concat [.group 0 (.literal ['a'] false), .subroutine 1]) = false ∧
    toStr spGen (.concat [.group 0 (.literal ['a'] false), .subroutine 1]) 0 = none ∧
    build (.concat [.group 0 (.literal ['a'] false), .subroutine 1]) [1] = .error .featureNotSupported :=
  ⟨by simp [isHard, isHardAny], by decide, parse_wellShaped_counterexample.2.2⟩

end Examples

end Fancy
