import FancyModel.Proofs.C08c
import FancyModel.Proofs.C11
import FancyModel.Proofs.C05b
/-!
# C11b — `replacen` from the engine down; entry-point coherence of the engine oracle

`Proofs/C11.lean` proves `try_replacen` (`replacen`, `replaceLoop`) correct over an abstract drained
iterator whose matches satisfy `WFMatches` (ordered, in range, on character boundaries);
`Proofs/C08c.lean` shows the drained `captures_iter` over the model engine is the reference
iteration. Here they are composed, with `WFMatches` DERIVED (ordering: `C08_ordered` over the
engine oracle, well-formed by `C09_ref_wf`; boundaries: every reference span is `(boff s, boff e)`
for character indices, and those are exactly the boundaries of the encoded text by C05b's
`C05_boundary_iff`). The text is `utf8Of chars` (the model's encoder on the characters), and
`bytesOf s = utf8Of s.toList` (`bytesOf_eq_utf8Of`) ties it to the driver's `mkText`.

* `C11_replacen_is_reference` (+ `_wrap`, `_s3`), `C11_replacen_no_panic` (+ `_s3`, `_driver`)
* `replaceLoop_ok_err` / `replacen_ok_err`: what the loop does on `Ok … Ok, Err`
* `C09_entry_points_engine`: `find` / `captures` coherence of the engine oracle
-/
namespace Fancy.Api
open Fancy Fancy.Drv Fancy.Utf8 Fancy.ApiSpec

/-! ### The text as bytes: the model's UTF-8 encoder on the characters -/

/-- the UTF-8 encoding of `chars` (the model's encoder of `Model/Utf8.lean`, the one C05b is about) -/
def utf8Of (chars : List Char) : Bytes := encode (chars.map Char.toNat)

theorem encodeChar_length_utf8Size (c : Char) : (encodeChar c.toNat).length = c.utf8Size := by
  unfold encodeChar Char.utf8Size Char.toNat
  simp only [UInt32.le_iff_toNat_le]
  have : c.val.toNat < 0x110000 := by
    rcases c.valid with h | h
    · exact Nat.lt_trans h (by decide)
    · exact h.2
  simp only [UInt32.toNat_ofNatLT]
  split <;> split <;> (try split) <;> (try split) <;> (try split) <;> (try split) <;> simp <;> omega

theorem encode_map_length (cs : List Char) :
    (encode (cs.map Char.toNat)).length = (cs.map Char.utf8Size).sum := by
  induction cs with
  | nil => rfl
  | cons c cs ih =>
    rw [List.map_cons, encode_cons, List.length_append, ih, encodeChar_length_utf8Size]; simp

/-- the byte offset of C05b (`off`) is the driver's offset table entry (`boff`) -/
theorem off_eq_boff (chars : List Char) (k : Nat) : off (chars.map Char.toNat) k = boff chars k := by
  unfold off boff
  rw [← List.map_take, encode_map_length]

theorem utf8Of_length (chars : List Char) : (utf8Of chars).length = byteLen chars := by
  unfold utf8Of byteLen; exact encode_map_length chars

/-- every character offset is a character boundary of the encoded text -/
theorem boff_isBoundary (chars : List Char) (k : Nat) (hk : k ≤ chars.length) :
    isBoundary (utf8Of chars) (boff chars k) = true := by
  unfold utf8Of
  rw [C05_boundary_iff]
  exact ⟨k, by simpa using hk, (off_eq_boff chars k).symm⟩

/-! ### What the reference captures report: spans are byte offsets of character positions -/

theorem refCaps_span (b : Built) (chars : List Char) (hns : noSelfNest b.raw = true) (hg : 1 ≤ b.nGroups)
    (pos : Nat) (flag : Bool) (a : List (Option Nat)) (h : refCapsOracle b chars pos flag = some a) :
    ∃ s e, s ≤ e ∧ e ≤ chars.length ∧ spanOfSlots a = (boff chars s, boff chars e) := by
  unfold refCapsOracle at h
  cases hci : charIndexOf (offsets chars) pos with
  | none => simp [hci] at h
  | some cpos =>
    simp only [hci] at h
    cases href : refSearch (mkCtx chars cpos flag) b.raw b.nGroups with
    | none => simp [href] at h
    | some f =>
      simp only [href, Option.some.injEq] at h
      subst h
      have hv := refSearch_valid (mkCtx chars cpos flag) b.raw b.nGroups hns f href
      obtain ⟨s, e, h0, h1, _, hse, hel⟩ := hv.span (by omega)
      have hel' : e ≤ chars.length := hel
      refine ⟨s, e, hse, hel', ?_⟩
      rw [spanOfSlots_slotsToBytes _ _ s e h0 h1, offsets_getD chars s (by omega), offsets_getD chars e hel']

/-- both ends of a reference span are character boundaries of the encoded text -/
theorem refCaps_boundary (b : Built) (chars : List Char) (hns : noSelfNest b.raw = true) (hg : 1 ≤ b.nGroups)
    (pos : Nat) (flag : Bool) (a : List (Option Nat)) (h : refCapsOracle b chars pos flag = some a) :
    isBoundary (utf8Of chars) (spanOfSlots a).1 = true ∧ isBoundary (utf8Of chars) (spanOfSlots a).2 = true := by
  obtain ⟨s, e, hse, hel, hsp⟩ := refCaps_span b chars hns hg pos flag a h
  rw [hsp]
  exact ⟨boff_isBoundary chars s (by omega), boff_isBoundary chars e hel⟩

/-- the engine's captures oracle is well-formed under (E) -/
theorem C09_engine_wf (b : Built) (chars : List Char) (limit fuel : Nat) (hE : EngineOK b chars)
    (hns : noSelfNest b.raw = true) (hg : 1 ≤ b.nGroups) :
    WFOracle (modelOracleF b chars (offsets chars) limit fuel) spanOfSlots (byteLen chars) := by
  intro pos flag a h
  exact C09_ref_wf b chars hns hg pos flag a
    (by show Except.ok _ = _; rw [C09_engine_agrees b chars limit fuel hE pos flag _ h])

/-! ### `WFMatches` from the iterator's ordering and the boundary facts (not assumed) -/

theorem wfMatches_of_ordered {α : Type} (span : α → Nat × Nat) (text : Bytes) (as : List α)
    (lo last : Nat) (lm : Option Nat)
    (hord : Ordered span text.length lo lm (as.map .ok)) (hll : last ≤ lo)
    (hlast : last ≤ text.length) (hlb : isBoundary text last = true)
    (hb : ∀ a ∈ as, isBoundary text (span a).1 = true ∧ isBoundary text (span a).2 = true) :
    WFMatches text (as.map span) last := by
  induction as generalizing lo last lm with
  | nil => exact ⟨hlast, hlb⟩
  | cons a as ih =>
    simp only [List.map_cons, Ordered] at hord
    obtain ⟨o1, o2, o3, _, o5⟩ := hord
    obtain ⟨b1, b2⟩ := hb a (by simp)
    simp only [List.map_cons]
    generalize hsp : span a = se at o1 o2 o3 o5 b1 b2
    obtain ⟨s, e⟩ := se
    simp only at o1 o2 o3 o5 b1 b2
    refine ⟨by omega, o2, o3, hlb, b1, ?_⟩
    exact ih _ e _ o5 (by omega) o3 b2 (fun x hx => hb x (by simp [hx]))

/-- an ordered prefix: drop the trailing error item -/
theorem Ordered_prefix {α : Type} (span : α → Nat × Nat) (len lo : Nat) (lm : Option Nat) (as : List α)
    (tail : List (Except SearchErr α)) (h : Ordered span len lo lm (as.map .ok ++ tail)) :
    Ordered span len lo lm (as.map .ok) := by
  induction as generalizing lo lm with
  | nil => trivial
  | cons a as ih =>
    simp only [List.map_cons, List.cons_append, Ordered] at h ⊢
    exact ⟨h.1, h.2.1, h.2.2.1, h.2.2.2.1, ih _ _ h.2.2.2.2⟩

/-! ### the replace loop over `Ok` items followed by one `Err` item -/

/-- what `replaceLoop` does on a well-formed run of matches followed by an error item: if the limit
    cuts the loop at one of the `Ok` items the result is the rewritten text (the error is never
    looked at); otherwise the error item is reached and returned -/
theorem replaceLoop_ok_err {α : Type} (span : α → Nat × Nat) (rep : α → Bytes) (text : Bytes) (limit : Nat)
    (as : List α) (e : SearchErr) (i last : Nat) (acc : Bytes)
    (hwf : WFMatches text (as.map span) last) :
    replaceLoop span rep text limit (as.map .ok ++ [.error e]) i last acc =
      if 0 < limit ∧ limit - i < as.length then
        .owned (acc ++ rewrite text ((as.take (limit - i)).map fun a => (span a, rep a)) last)
      else .err e := by
  induction as generalizing i last acc with
  | nil => simp [replaceLoop]
  | cons a as ih =>
    simp only [List.map_cons, WFMatches] at hwf
    generalize hsp : span a = se at hwf
    obtain ⟨s, en⟩ := se
    obtain ⟨h1, h2, h3, h4, h5, h6⟩ := hwf
    simp only [List.map_cons, List.cons_append, replaceLoop]
    split
    · rename_i hlim
      have hlim' : limit > 0 ∧ i ≥ limit := by simpa using hlim
      have h0 : limit - i = 0 := by omega
      rw [if_pos ⟨hlim'.1, by simp [h0]⟩, h0]
      simp only [List.take_zero, List.map_nil, rewrite]
      rw [slice_ok text last text.length (by omega) (Nat.le_refl _) h4 (isBoundary_len text)]
      simp [List.take_of_length_le]
    · rename_i hlim
      rw [hsp]
      simp only
      rw [slice_ok text last s h1 (by omega) h4 h5]
      simp only
      rw [ih (i + 1) en _ h6]
      by_cases hl0 : limit = 0
      · simp [hl0]
      · have hlt : i < limit := by
          rcases Nat.lt_or_ge i limit with h | h
          · exact h
          · exfalso; apply hlim; simp; omega
        have hsub : limit - i = (limit - (i + 1)) + 1 := by omega
        by_cases hc : limit - (i + 1) < as.length
        · rw [if_pos ⟨by omega, hc⟩, if_pos ⟨by omega, by simp only [List.length_cons]; omega⟩, hsub]
          simp only [List.take_succ_cons, List.map_cons, rewrite, hsp]
          simp [List.append_assoc]
        · rw [if_neg (fun h => hc h.2), if_neg (fun h => hc (by have := h.2; simp only [List.length_cons] at this; omega))]

theorem replacen_ok_err {α : Type} (span : α → Nat × Nat) (rep : α → Bytes) (text : Bytes) (n : Nat)
    (as : List α) (e : SearchErr) (hwf : WFMatches text (as.map span) 0) :
    replacen (as.map .ok ++ [.error e]) span rep text n =
      if 0 < n ∧ n < as.length then .owned (rewrite text ((as.take n).map fun a => (span a, rep a)) 0)
      else .err e := by
  have h := replaceLoop_ok_err span rep text n as e 0 0 [] hwf
  simp only [Nat.sub_zero, List.nil_append] at h
  rw [← h]
  cases as <;> rfl

/-! ### 1. `replacen` over the engine's `captures_iter` is the rewriting by the reference matches -/

/-- **C11, from the engine down.** `text` is the UTF-8 encoding of `chars`; `items` the drained
    `captures_iter` over the model engine; `R` the property's iteration of the REFERENCE search.
    There is a list `as` of capture vectors, each of them the reference search's answer (all groups,
    byte offsets) at some search position, such that
    * either no item is an error: `items = as.map Ok`, the spans of `as` are exactly `R`;
      the result is `Borrowed` iff `R` is empty, and otherwise `Owned` of the text in which the first
      `n` (all, for `n = 0`) matches of `R` are replaced by the replacer's output for the
      corresponding reference captures and every other byte is unchanged (`rewrite`, `chosen`);
    * or `items = as.map Ok ++ [Err e]` with the spans of `as` a prefix of `R` and `e` a resource
      stop; then, precisely as `replaceLoop` does: if `0 < n < as.length` the limit cuts the loop
      before the error is looked at and the result is `Owned` of the text with the first `n` matches
      replaced; otherwise (`n = 0` or `n ≥ as.length`) the result is `Err e`.
    In no case `Panic` (`C11_replacen_no_panic`): the `WFMatches` side conditions (order, range,
    character boundaries) are derived from `C09_ref_wf`, `C08_ordered` and the UTF-8 layer C05b. -/
theorem C11_replacen_is_reference (b : Built) (chars : List Char) (limit fuel : Nat)
    (hE : EngineOK b chars) (hns : noSelfNest b.raw = true) (hg : 1 ≤ b.nGroups)
    (rep : List (Option Nat) → Bytes) (n : Nat) :
    ∃ as : List (List (Option Nat)),
      (∀ a ∈ as, ∃ p fl, refCapsOracle b chars p fl = some a) ∧
      WFMatches (utf8Of chars) (as.map spanOfSlots) 0 ∧
      ((capturesIter (modelOracleF b chars (offsets chars) limit fuel) spanOfSlots (utf8Of chars) = as.map .ok ∧
        as.map spanOfSlots = ApiSpec.iter (refSpanOracle b chars) (utf8Of chars) ∧
        (replacen (capturesIter (modelOracleF b chars (offsets chars) limit fuel) spanOfSlots (utf8Of chars))
            spanOfSlots rep (utf8Of chars) n = .borrowed ↔
          ApiSpec.iter (refSpanOracle b chars) (utf8Of chars) = []) ∧
        (ApiSpec.iter (refSpanOracle b chars) (utf8Of chars) ≠ [] →
          replacen (capturesIter (modelOracleF b chars (offsets chars) limit fuel) spanOfSlots (utf8Of chars))
            spanOfSlots rep (utf8Of chars) n =
          .owned (rewrite (utf8Of chars) ((chosen n 0 as).map fun a => (spanOfSlots a, rep a)) 0))) ∨
       (∃ e, capturesIter (modelOracleF b chars (offsets chars) limit fuel) spanOfSlots (utf8Of chars) =
            as.map .ok ++ [.error e] ∧
          as.map spanOfSlots <+: ApiSpec.iter (refSpanOracle b chars) (utf8Of chars) ∧
          (e = .limit ∨ e = .stack ∨ e = .outOfFuel) ∧
          replacen (capturesIter (modelOracleF b chars (offsets chars) limit fuel) spanOfSlots (utf8Of chars))
            spanOfSlots rep (utf8Of chars) n =
          if 0 < n ∧ n < as.length then
            .owned (rewrite (utf8Of chars) ((as.take n).map fun a => (spanOfSlots a, rep a)) 0)
          else .err e)) := by
  obtain ⟨as, hrefs, hcase⟩ :=
    C09_captures_iter_is_reference b chars limit fuel hE hns hg (utf8Of chars) (utf8Of_length chars)
  have hwfo := C09_engine_wf b chars limit fuel hE hns hg
  rw [← utf8Of_length chars] at hwfo
  have hord : Ordered spanOfSlots (utf8Of chars).length 0 none
      (capturesIter (modelOracleF b chars (offsets chars) limit fuel) spanOfSlots (utf8Of chars)) :=
    C08_ordered _ spanOfSlots (utf8Of chars) hwfo _ Iter.start Iter.J_start
  have hbd : ∀ a ∈ as, isBoundary (utf8Of chars) (spanOfSlots a).1 = true ∧
      isBoundary (utf8Of chars) (spanOfSlots a).2 = true := by
    intro a ha
    obtain ⟨p, fl, hp⟩ := hrefs a ha
    exact refCaps_boundary b chars hns hg p fl a hp
  have hwfm : WFMatches (utf8Of chars) (as.map spanOfSlots) 0 := by
    have hpre : Ordered spanOfSlots (utf8Of chars).length 0 none (as.map .ok) := by
      rcases hcase with ⟨h1, _⟩ | ⟨e, h1, _⟩
      · rw [h1] at hord; exact hord
      · rw [h1] at hord; exact Ordered_prefix _ _ _ _ _ _ hord
    exact wfMatches_of_ordered spanOfSlots (utf8Of chars) as 0 0 none hpre (Nat.le_refl _) (Nat.zero_le _)
      (by simp [isBoundary]) hbd
  refine ⟨as, hrefs, hwfm, ?_⟩
  rcases hcase with ⟨h1, h2⟩ | ⟨e, h1, h2, h3⟩
  · left
    refine ⟨h1, h2, ?_, ?_⟩
    · rw [C11_borrow, h1, ← h2]
      cases as <;> simp
    · intro hne
      rw [h1]
      cases as with
      | nil => rw [← h2] at hne; simp at hne
      | cons a as' => exact C11_replacen spanOfSlots rep (utf8Of chars) n a as' hwfm
  · right
    refine ⟨e, h1, h2, h3, ?_⟩
    rw [h1]
    exact replacen_ok_err spanOfSlots rep (utf8Of chars) n as e hwfm

/-- **no panic**: under (E) `try_replacen` over the model engine never slices off a boundary or out
    of range -/
theorem C11_replacen_no_panic (b : Built) (chars : List Char) (limit fuel : Nat)
    (hE : EngineOK b chars) (hns : noSelfNest b.raw = true) (hg : 1 ≤ b.nGroups)
    (rep : List (Option Nat) → Bytes) (n : Nat) :
    replacen (capturesIter (modelOracleF b chars (offsets chars) limit fuel) spanOfSlots (utf8Of chars))
      spanOfSlots rep (utf8Of chars) n ≠ .panic := by
  obtain ⟨as, _, _, ⟨_, h2, h3, h4⟩ | ⟨e, _, _, _, h4⟩⟩ :=
    C11_replacen_is_reference b chars limit fuel hE hns hg rep n
  · by_cases hR : ApiSpec.iter (refSpanOracle b chars) (utf8Of chars) = []
    · rw [h3.mpr hR]; simp
    · rw [h4 hR]; simp
  · rw [h4]; split <;> simp

/-! ### 2. instances: hand-off path, stage S3 -/

theorem modelOracleF_wrap_no_error (b : Built) (chars : List Char) (limit fuel : Nat) (hk : b.kind = .wrap)
    (p : Nat) (fl : Bool) (e : SearchErr) :
    modelOracleF b chars (offsets chars) limit fuel p fl ≠ .error e := by
  intro h3
  unfold modelOracleF at h3
  cases hci : charIndexOf (offsets chars) p with
  | none => simp [hci] at h3
  | some cpos =>
    simp only [hci, C01_wrap_path b (mkCtx chars cpos fl) limit fuel hk] at h3
    cases href : refSearch (mkCtx chars cpos fl) b.raw b.nGroups <;> simp [href] at h3

/-- **hand-off path** (every pattern `build` hands to the automata engine as a whole; A-RA): no error
    branch — `Borrowed` iff the reference iteration is empty, else the text with the first `n` (all
    for `n = 0`) reference matches replaced by the replacer's output on the reference captures -/
theorem C11_replacen_is_reference_wrap (tree : Expr) (backrefs : List Nat) (b : Built)
    (hb : build tree backrefs = .ok b) (hk : b.kind = .wrap) (chars : List Char) (limit fuel : Nat)
    (rep : List (Option Nat) → Bytes) (n : Nat) :
    ∃ as : List (List (Option Nat)),
      (∀ a ∈ as, ∃ p fl, refCapsOracle b chars p fl = some a) ∧
      WFMatches (utf8Of chars) (as.map spanOfSlots) 0 ∧
      capturesIter (modelOracleF b chars (offsets chars) limit fuel) spanOfSlots (utf8Of chars) = as.map .ok ∧
      as.map spanOfSlots = ApiSpec.iter (refSpanOracle b chars) (utf8Of chars) ∧
      (replacen (capturesIter (modelOracleF b chars (offsets chars) limit fuel) spanOfSlots (utf8Of chars))
          spanOfSlots rep (utf8Of chars) n = .borrowed ↔
        ApiSpec.iter (refSpanOracle b chars) (utf8Of chars) = []) ∧
      (ApiSpec.iter (refSpanOracle b chars) (utf8Of chars) ≠ [] →
        replacen (capturesIter (modelOracleF b chars (offsets chars) limit fuel) spanOfSlots (utf8Of chars))
          spanOfSlots rep (utf8Of chars) n =
        .owned (rewrite (utf8Of chars) ((chosen n 0 as).map fun a => (spanOfSlots a, rep a)) 0)) := by
  have hns := build_noSelfNest tree backrefs b hb
  have hg := build_nGroups_pos tree backrefs b hb
  have hE := engineOK_wrap b chars hk
  obtain ⟨as, hrefs, hwfm, ⟨h1, h2, h3, h4⟩ | ⟨e, h1, _⟩⟩ :=
    C11_replacen_is_reference b chars limit fuel hE hns hg rep n
  · exact ⟨as, hrefs, hwfm, h1, h2, h3, h4⟩
  · exfalso
    -- the error item would be an answer of the oracle; on the hand-off path there is none
    obtain ⟨as', ⟨g1, _⟩ | ⟨e', g1, _, p, fl, g3⟩⟩ :=
      C08_eq_spec_until_error (modelOracleF b chars (offsets chars) limit fuel)
        (refCapsOracle b chars) spanOfSlots (utf8Of chars)
        (C09_engine_agrees b chars limit fuel hE) (utf8Of_length chars ▸ C09_ref_wf b chars hns hg)
    · have hmem : Except.error e ∈ as'.map Except.ok := by rw [← g1, h1]; simp
      simp at hmem
    · exact modelOracleF_wrap_no_error b chars limit fuel hk p fl e' g3

/-- **stage S3, from the pattern string** (hypotheses of `C01_pipeline_s3` and a text shorter than
    `usize::MAX` characters): the statement of `C11_replacen_is_reference` -/
theorem C11_replacen_is_reference_s3 (isAlnum : Char → Bool) (cs : List Char) (casei : Bool)
    (t : Parse.Tree) (b : Built) (prog : Prog)
    (hp : Parse.parseStr isAlnum cs casei = .ok t) (hb : build t.expr t.backrefs = .ok b)
    (hk : b.kind = .fancy prog) (hst : s3Pattern t b = true)
    (chars : List Char) (hlen : chars.length < UNSET) (limit fuel : Nat)
    (rep : List (Option Nat) → Bytes) (n : Nat) :
    ∃ as : List (List (Option Nat)),
      (∀ a ∈ as, ∃ p fl, refCapsOracle b chars p fl = some a) ∧
      WFMatches (utf8Of chars) (as.map spanOfSlots) 0 ∧
      ((capturesIter (modelOracleF b chars (offsets chars) limit fuel) spanOfSlots (utf8Of chars) = as.map .ok ∧
        as.map spanOfSlots = ApiSpec.iter (refSpanOracle b chars) (utf8Of chars) ∧
        (replacen (capturesIter (modelOracleF b chars (offsets chars) limit fuel) spanOfSlots (utf8Of chars))
            spanOfSlots rep (utf8Of chars) n = .borrowed ↔
          ApiSpec.iter (refSpanOracle b chars) (utf8Of chars) = []) ∧
        (ApiSpec.iter (refSpanOracle b chars) (utf8Of chars) ≠ [] →
          replacen (capturesIter (modelOracleF b chars (offsets chars) limit fuel) spanOfSlots (utf8Of chars))
            spanOfSlots rep (utf8Of chars) n =
          .owned (rewrite (utf8Of chars) ((chosen n 0 as).map fun a => (spanOfSlots a, rep a)) 0))) ∨
       (∃ e, capturesIter (modelOracleF b chars (offsets chars) limit fuel) spanOfSlots (utf8Of chars) =
            as.map .ok ++ [.error e] ∧
          as.map spanOfSlots <+: ApiSpec.iter (refSpanOracle b chars) (utf8Of chars) ∧
          (e = .limit ∨ e = .stack ∨ e = .outOfFuel) ∧
          replacen (capturesIter (modelOracleF b chars (offsets chars) limit fuel) spanOfSlots (utf8Of chars))
            spanOfSlots rep (utf8Of chars) n =
          if 0 < n ∧ n < as.length then
            .owned (rewrite (utf8Of chars) ((as.take n).map fun a => (spanOfSlots a, rep a)) 0)
          else .err e)) :=
  C11_replacen_is_reference b chars limit fuel
    (engineOK_s3 isAlnum cs casei t b prog hp hb hk hst chars hlen)
    (build_noSelfNest _ _ b hb) (build_nGroups_pos _ _ b hb) rep n

/-- and never panics, from the pattern string -/
theorem C11_replacen_no_panic_s3 (isAlnum : Char → Bool) (cs : List Char) (casei : Bool)
    (t : Parse.Tree) (b : Built) (prog : Prog)
    (hp : Parse.parseStr isAlnum cs casei = .ok t) (hb : build t.expr t.backrefs = .ok b)
    (hk : b.kind = .fancy prog) (hst : s3Pattern t b = true)
    (chars : List Char) (hlen : chars.length < UNSET) (limit fuel : Nat)
    (rep : List (Option Nat) → Bytes) (n : Nat) :
    replacen (capturesIter (modelOracleF b chars (offsets chars) limit fuel) spanOfSlots (utf8Of chars))
      spanOfSlots rep (utf8Of chars) n ≠ .panic :=
  C11_replacen_no_panic b chars limit fuel
    (engineOK_s3 isAlnum cs casei t b prog hp hb hk hst chars hlen)
    (build_noSelfNest _ _ b hb) (build_nGroups_pos _ _ b hb) rep n

/-! ### 3. entry-point coherence of the engine oracle (`find` vs `captures`; there is no separate
model of `is_match`: in the crate it is `find(..).is_some()` on the VM path) -/

/-- the driver's span oracle is the `find`-from-`captures` projection of `Proofs/C09.lean` -/
theorem spanOracle_eq_spans (f : Oracle (List (Option Nat))) : spanOracle f = f.spans spanOfSlots := by
  funext pos flag
  unfold spanOracle Oracle.spans
  cases f pos flag with
  | error e => rfl
  | ok r => cases r <;> rfl

theorem refCaps_slots01 (b : Built) (chars : List Char) (hns : noSelfNest b.raw = true) (hg : 1 ≤ b.nGroups)
    (pos : Nat) (flag : Bool) (a : List (Option Nat)) (h : refCapsOracle b chars pos flag = some a) :
    ∃ x y, a[0]? = some (some x) ∧ a[1]? = some (some y) ∧ spanOfSlots a = (x, y) := by
  unfold refCapsOracle at h
  cases hci : charIndexOf (offsets chars) pos with
  | none => simp [hci] at h
  | some cpos =>
    simp only [hci] at h
    cases href : refSearch (mkCtx chars cpos flag) b.raw b.nGroups with
    | none => simp [href] at h
    | some f =>
      simp only [href, Option.some.injEq] at h
      subst h
      have hv := refSearch_valid (mkCtx chars cpos flag) b.raw b.nGroups hns f href
      obtain ⟨s, e, h0, h1, _⟩ := hv.span (by omega)
      match hsl : f.slots, h0, h1 with
      | a0 :: a1 :: rest, h0, h1 =>
        simp only [List.getElem?_cons_zero, List.getElem?_cons_succ, Option.some.injEq] at h0 h1
        subst h0; subst h1
        exact ⟨(offsets chars).getD s 0, (offsets chars).getD e 0, by simp [slotsToBytes], by simp [slotsToBytes],
          by simp [slotsToBytes, spanOfSlots]⟩

/-- **C09, engine oracle**: at every byte position and flag, `find` (the span oracle) and `captures`
    (the captures oracle) over the model engine have the same outcome class — a match iff captures,
    whose overall span it is; no match iff no match; the same error iff an error. Under (E) the
    span found is slots 0 and 1 of the REFERENCE captures at that position. -/
theorem C09_entry_points_engine (b : Built) (chars : List Char) (limit fuel : Nat) (pos : Nat) (flag : Bool) :
    (∀ sp, spanOracle (modelOracleF b chars (offsets chars) limit fuel) pos flag = .ok (some sp) ↔
      ∃ slots, modelOracleF b chars (offsets chars) limit fuel pos flag = .ok (some slots) ∧
        spanOfSlots slots = sp) ∧
    (spanOracle (modelOracleF b chars (offsets chars) limit fuel) pos flag = .ok none ↔
      modelOracleF b chars (offsets chars) limit fuel pos flag = .ok none) ∧
    (∀ e, spanOracle (modelOracleF b chars (offsets chars) limit fuel) pos flag = .error e ↔
      modelOracleF b chars (offsets chars) limit fuel pos flag = .error e) ∧
    (EngineOK b chars → noSelfNest b.raw = true → 1 ≤ b.nGroups →
      ∀ sp, spanOracle (modelOracleF b chars (offsets chars) limit fuel) pos flag = .ok (some sp) →
        ∃ slots, refCapsOracle b chars pos flag = some slots ∧
          slots[0]? = some (some sp.1) ∧ slots[1]? = some (some sp.2)) := by
  have hcoh : ∀ sp, spanOracle (modelOracleF b chars (offsets chars) limit fuel) pos flag = .ok (some sp) ↔
      ∃ slots, modelOracleF b chars (offsets chars) limit fuel pos flag = .ok (some slots) ∧
        spanOfSlots slots = sp := by
    intro sp
    unfold spanOracle
    cases hf : modelOracleF b chars (offsets chars) limit fuel pos flag with
    | error e => simp
    | ok r => cases r <;> simp
  refine ⟨hcoh, ?_, ?_, ?_⟩
  · unfold spanOracle
    cases hf : modelOracleF b chars (offsets chars) limit fuel pos flag with
    | error e => simp
    | ok r => cases r <;> simp
  · intro e
    unfold spanOracle
    cases hf : modelOracleF b chars (offsets chars) limit fuel pos flag with
    | error e' => simp
    | ok r => cases r <;> simp
  · intro hE hns hg sp hsp
    obtain ⟨slots, hsl, rfl⟩ := (hcoh sp).mp hsp
    have href := C09_engine_agrees b chars limit fuel hE pos flag _ hsl
    obtain ⟨x, y, h0, h1, hxy⟩ := refCaps_slots01 b chars hns hg pos flag slots href
    exact ⟨slots, href, by rw [hxy]; exact h0, by rw [hxy]; exact h1⟩

/-! ### the driver's own text: `bytesOf s` IS the model encoder's output on `s.toList` -/

theorem ba_size_mk (arr : Array UInt8) : (ByteArray.mk arr).size = arr.size := rfl

theorem ba_loop_eq (arr : Array UInt8) (i : Nat) (r : List UInt8) (hi : i ≤ arr.size) :
    ByteArray.toList.loop ⟨arr⟩ i r = r.reverse ++ arr.toList.drop i := by
  induction h : arr.size - i generalizing i r with
  | zero =>
    unfold ByteArray.toList.loop
    rw [ba_size_mk]
    have : ¬ i < arr.size := by omega
    rw [if_neg this, List.drop_of_length_le (by simp; omega)]; simp
  | succ n ih =>
    unfold ByteArray.toList.loop
    rw [ba_size_mk]
    have hlt : i < arr.size := by omega
    rw [if_pos hlt, ih (i + 1) _ (by omega) (by omega)]
    rw [List.drop_eq_getElem_cons (l := arr.toList) (i := i) (by simpa using hlt)]
    have : (ByteArray.mk arr).get! i = arr.toList[i]'(by simpa using hlt) := by
      show arr[i]! = _
      simp [hlt]
    rw [this]; simp

theorem ba_toList_eq (bs : ByteArray) : bs.toList = bs.data.toList := by
  obtain ⟨arr⟩ := bs
  unfold ByteArray.toList
  rw [ba_loop_eq arr 0 [] (Nat.zero_le _)]; simp

theorem utf8EncodeChar_toNat (c : Char) :
    (String.utf8EncodeChar c).map (·.toNat) = encodeChar c.toNat := by
  unfold String.utf8EncodeChar encodeChar Char.toNat
  have : c.val.toNat < 0x110000 := by
    rcases c.valid with h | h
    · exact Nat.lt_trans h (by decide)
    · exact h.2
  have hv : c.toNat = c.val.toNat := rfl
  simp only
  split <;> split <;> (try split) <;> (try split) <;> (try split) <;> (try split) <;>
    simp [UInt8.toNat_ofNat'] <;> omega

theorem bytesOf_eq_utf8Of (s : String) : bytesOf s = utf8Of s.toList := by
  unfold bytesOf utf8Of
  rw [String.toUTF8, ← String.utf8Encode_toList, ba_toList_eq, List.utf8Encode, List.data_toByteArray]
  unfold encode
  induction s.toList with
  | nil => rfl
  | cons c cs ih => simp [List.flatMap_cons, List.map_append, ih, utf8EncodeChar_toNat]

theorem mkText_bytes (s : String) : (mkText s).bytes = utf8Of s.toList := bytesOf_eq_utf8Of s

/-- what the driver's `replace` computes on the slow path (`Drv.doReplace`: `mkText`, `modelOracle`,
    `driverFuel`), stage S3 from the pattern string: never a panic, for every replacer -/
theorem C11_replacen_no_panic_driver (isAlnum : Char → Bool) (cs : List Char) (casei : Bool)
    (t : Parse.Tree) (b : Built) (prog : Prog)
    (hp : Parse.parseStr isAlnum cs casei = .ok t) (hb : build t.expr t.backrefs = .ok b)
    (hk : b.kind = .fancy prog) (hst : s3Pattern t b = true)
    (s : String) (hlen : s.toList.length < UNSET) (limit : Nat)
    (rep : List (Option Nat) → Bytes) (n : Nat) :
    replacen (capturesIter (modelOracle b (mkText s).chars (mkText s).off limit) spanOfSlots (mkText s).bytes)
      spanOfSlots rep (mkText s).bytes n ≠ .panic := by
  rw [mkText_bytes]
  exact C11_replacen_no_panic_s3 isAlnum cs casei t b prog hp hb hk hst s.toList hlen limit driverFuel rep n

/-! ### 4. Non-vacuity: `a*` on "aab", constant replacer `x`, hand-off path — `replace_all` gives
"xbx" (the empty match at 2 is dropped by the iterator, the one at 3 is replaced), `replacen 1`
gives "xb" -/

theorem exStar_utf8 : utf8Of ['a', 'a', 'b'] = [97, 97, 98] := by decide

theorem exStar_replace (limit fuel n : Nat) :
    replacen (capturesIter (modelOracleF exStarB ['a','a','b'] (offsets ['a','a','b']) limit fuel) spanOfSlots
        [97, 97, 98]) spanOfSlots (fun _ => [120]) [97, 97, 98] n =
      .owned (rewrite [97, 97, 98] ((chosen n 0 [(0, 2), (3, 3)]).map fun sp => (sp, [120])) 0) := by
  obtain ⟨as, _, _, _, h2, _, h4⟩ :=
    C11_replacen_is_reference_wrap exStar [] exStarB exStar_build rfl ['a','a','b'] limit fuel (fun _ => [120]) n
  rw [exStar_utf8, exStar_iter] at h2 h4
  rw [h4 (by simp)]
  have : (chosen n 0 as).map (fun a => (spanOfSlots a, ([120] : Bytes))) =
      (chosen n 0 (as.map spanOfSlots)).map fun sp => (sp, [120]) := by
    unfold chosen; split <;> simp [List.map_take, Function.comp_def]
  rw [this, h2]

example (limit fuel : Nat) :
    replacen (capturesIter (modelOracleF exStarB ['a','a','b'] (offsets ['a','a','b']) limit fuel) spanOfSlots
        [97, 97, 98]) spanOfSlots (fun _ => [120]) [97, 97, 98] 0 = .owned [120, 98, 120] := by
  rw [exStar_replace]; rfl

example (limit fuel : Nat) :
    replacen (capturesIter (modelOracleF exStarB ['a','a','b'] (offsets ['a','a','b']) limit fuel) spanOfSlots
        [97, 97, 98]) spanOfSlots (fun _ => [120]) [97, 97, 98] 1 = .owned [120, 98] := by
  rw [exStar_replace]; rfl

/-- the hypotheses of `C11_replacen_is_reference_s3` hold of the string `a(?=b)` (VM path), every text -/
example (chars : List Char) (hlen : chars.length < UNSET) (limit fuel : Nat) (rep : List (Option Nat) → Bytes)
    (n : Nat) : ∃ b, build exLook [] = .ok b ∧
      replacen (capturesIter (modelOracleF b chars (offsets chars) limit fuel) spanOfSlots (utf8Of chars))
        spanOfSlots rep (utf8Of chars) n ≠ .panic := by
  obtain ⟨b, prog, hb, hk, hst, _, _⟩ := exLook_built
  exact ⟨b, hb, C11_replacen_no_panic_s3 _ _ _ ⟨exLook, [], []⟩ b prog exLook_parse hb hk hst chars hlen limit fuel rep n⟩

end Fancy.Api
