import FancyModel.Model.Regex
import FancyModel.Generated
/-!
# C18 — a compiled regex can be used from many threads at once

What a theorem can carry: in the model a compiled regex is an immutable value and a search is a
function of `(regex, text, pos, flags, limit)` — so **whatever the interleaving** of calls made by
any number of threads, each call returns what it returns standalone (`C18_history_independent`);
and, on the source side, no field reachable from `Regex` / `Prog` / `RegexOptions` / the VM state is
declared with an interior-mutability or shared-ownership-of-mutable-state type
(`C18_no_interior_mutability`, decided over the field lists **re-extracted from the source on every
run**).

What it cannot carry: real schedules, the cache pool inside regex-automata, `Send`/`Sync` as checked
by rustc. Those are exercised by the concurrent correspondence (2..16 threads on one shared `Regex`
and on clones; heavy-backtracking searches under a tight limit to expose shared counters), which is
the decisive part of this check.
-/
namespace Fancy

/-- a call made by some thread -/
structure Call where
  ctx : Ctx
  limit : Nat
  fuel : Nat

/-- any history: the list of calls in the order some schedule happened to serialise them -/
def runHistory (b : Built) (calls : List Call) : List SearchResult :=
  calls.map fun k => (b.captures k.ctx k.limit k.fuel).1

/-- **history independence**: the result of the `i`-th call of any history is the standalone result
    of that call — it does not depend on which calls came before, after, or "concurrently" -/
theorem C18_history_independent (b : Built) (before after : List Call) (k : Call) :
    (runHistory b (before ++ k :: after))[before.length]? = some (b.captures k.ctx k.limit k.fuel).1 := by
  simp [runHistory]

/-- reordering the calls (another schedule) permutes the results accordingly -/
theorem C18_schedule_permutes (b : Built) (calls calls' : List Call) (h : calls.Perm calls') :
    (runHistory b calls).Perm (runHistory b calls') := h.map _

/-- type fragments that would make a shared `&Regex` carry mutable state -/
def mutableMarkers : List (List Char) :=
  [['C','e','l','l','<'], ['R','e','f','C','e','l','l'], ['M','u','t','e','x'], ['R','w','L','o','c','k'],
   ['A','t','o','m','i','c'], ['U','n','s','a','f','e','C','e','l','l'], ['O','n','c','e','C','e','l','l'],
   ['O','n','c','e','L','o','c','k'], ['s','t','a','t','i','c',' ','m','u','t'], ['*','m','u','t']]

def hasPrefix : List Char → List Char → Bool
  | [], _ => true
  | _ :: _, [] => false
  | p :: ps, c :: cs => p == c && hasPrefix ps cs

def hasInfix (sub : List Char) : List Char → Bool
  | [] => sub.isEmpty
  | c :: cs => hasPrefix sub (c :: cs) || hasInfix sub cs

def fieldClean (f : List Char × List Char) : Bool :=
  mutableMarkers.all fun m => !hasInfix m f.2 && !hasInfix m f.1

/-- no field of `Regex`, `RegexImpl`, `Prog`, `RegexOptions` (nor the `Delegate` instruction) is
    declared with a mutable-state type; `vm::State` is created afresh inside every `run` call — it is
    not a field of any of them -/
theorem C18_no_interior_mutability :
    (Generated.regexFieldsC ++ Generated.regexImplVariantsC ++ Generated.progFieldsC ++
      Generated.regexOptionsFieldsC).all fieldClean = true ∧
    mutableMarkers.all (fun m => !hasInfix m Generated.insnDelegateFieldsC) = true ∧
    (Generated.regexFieldsC ++ Generated.regexImplVariantsC ++ Generated.progFieldsC).all
      (fun f => !hasInfix ['S','t','a','t','e'] f.2) = true := by
  decide +kernel

end Fancy
