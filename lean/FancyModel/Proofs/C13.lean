import FancyModel.Spec.Sem
import FancyModel.Spec.Domain
import FancyModel.Model.Analyze
/-!
# C13 — the engine's static size facts are sound

About the reference semantics only (no VM): **no sub-expression can match fewer characters than
its computed minimum** (`C13_min_sound`), for every expression whose literals are single characters
(what the parser produces: `wellShaped`), every context, every start state. The analyzer's
arithmetic saturates at `usize::MAX`; saturation only lowers the bound, so no overflow hypothesis
is needed. This is what makes "go back `min_size` characters" in a look-behind safe, and it is the
statement whose conditional case was wrong before the F3 repair (`cond + min(yes, no)`) and whose
counted-repeat case was wrong for reversed bounds `{3,2}` before the F18 repair.
-/
namespace Fancy

theorem satAdd_le (a b : Nat) : satAdd a b ≤ a + b := by unfold satAdd; omega
theorem satMul_le (a b : Nat) : satMul a b ≤ a * b := by unfold satMul; omega

/-- results of the repetition loop: at least `sureReps - count` further iterations of `≥ m` each -/
theorem repLoop_min (body : St → List St) (m : Nat) (hbody : ∀ st r, r ∈ body st → st.ix + m ≤ r.ix)
    (lo : Nat) (hi : Option Nat) (greedy : Bool) (fuel count : Nat) (st r : St)
    (h : r ∈ repLoop body lo hi greedy fuel count st) : st.ix + (sureReps lo hi - count) * m ≤ r.ix := by
  induction fuel generalizing count st r with
  | zero => simp [repLoop] at h
  | succ fuel ih =>
    unfold repLoop at h
    split at h
    · rename_i hhi
      simp only [List.mem_singleton] at h
      subst h
      have : sureReps lo hi - count = 0 := by
        subst hhi; simp only [sureReps]; omega
      simp [this]
    · rename_i hhi
      -- membership in the iterations
      have hiters : ∀ q, q ∈ ((body st).flatMap fun r' =>
            if hi.isNone && decide (lo ≤ count) && r'.ix == st.ix then [r']
            else repLoop body lo hi greedy fuel (count + 1) r') →
          st.ix + (sureReps lo hi - count) * m ≤ q.ix := by
        intro q hr
        simp only [List.mem_flatMap] at hr
        obtain ⟨r', hr', hmem⟩ := hr
        have hb := hbody st r' hr'
        split at hmem
        · rename_i hcond
          simp only [List.mem_singleton] at hmem
          subst hmem
          simp only [Bool.and_eq_true, decide_eq_true_eq] at hcond
          have hnone : hi = none := by
            cases hi with
            | none => rfl
            | some h => simp at hcond
          have : sureReps lo hi - count = 0 := by
            subst hnone; simp only [sureReps]; omega
          simp only [this, Nat.zero_mul, Nat.add_zero]; omega
        · have := ih (count + 1) r' q hmem
          have hle : (sureReps lo hi - count) * m ≤ m + (sureReps lo hi - (count + 1)) * m := by
            rcases Nat.lt_or_ge count (sureReps lo hi) with hlt | hge
            · have : sureReps lo hi - count = (sureReps lo hi - (count + 1)) + 1 := by omega
              rw [this, Nat.add_mul]; omega
            · have : sureReps lo hi - count = 0 := by omega
              simp [this]
          omega
      split at h
      · exact hiters r h
      · rename_i hcl
        have hz : sureReps lo hi - count = 0 := by
          have : sureReps lo hi ≤ lo := by
            unfold sureReps; cases hi <;> simp <;> omega
          omega
        split at h
        · rcases List.mem_append.mp h with h | h
          · exact hiters r h
          · simp only [List.mem_singleton] at h; subst h; simp [hz]
        · rcases List.mem_cons.mp h with h | h
          · subst h; simp [hz]
          · exact hiters r h

theorem behindOne_ix (body : St → List St) (st r : St) (h : r ∈ behindOne body st) : r.ix = st.ix := by
  simp only [behindOne, List.mem_flatMap, List.mem_filter] at h
  obtain ⟨_, _, _, h⟩ := h
  simpa using h

theorem firstOnly_mem (l : List St) (r : St) (h : r ∈ firstOnly l) : r ∈ l := by
  unfold firstOnly at h
  cases l with
  | nil => simp at h
  | cons x xs => simp at h; simp [h]

theorem setSlot_ix (st : St) (i : Nat) (v : Option Nat) : (st.setSlot i v).ix = st.ix := rfl

theorem minSizeMin_le (e : Expr) (es : List Expr) (h : e ∈ es) : minSizeMin es ≤ minSize e := by
  induction es with
  | nil => simp at h
  | cons x xs ih =>
    cases xs with
    | nil => simp at h; subst h; simp [minSizeMin]
    | cons y ys =>
      simp only [minSizeMin]
      rcases List.mem_cons.mp h with rfl | h
      · omega
      · have := ih h; omega

mutual
/-- **no sub-expression matches fewer characters than its computed minimum** -/
theorem C13_min_sound (c : Ctx) : ∀ (e : Expr), wellShaped e = true → ∀ (st r : St),
    r ∈ sem c e st → st.ix + minSize e ≤ r.ix
  | .empty, _, st, r, h => by simp [sem] at h; subst h; simp [minSize]
  | .any nl, _, st, r, h => by
    simp only [sem] at h
    split at h
    · split at h
      · simp at h; subst h; simp [minSize]
      · simp at h
    · simp at h
  | .assertion a, _, st, r, h => by
    simp only [sem] at h; split at h
    · simp at h; subst h; simp [minSize]
    · simp at h
  | .literal val casei, hw, st, r, h => by
    simp only [sem] at h
    split at h
    · simp at h; subst h
      simp only [wellShaped, beq_iff_eq] at hw
      simp [minSize, hw]
    · simp at h
  | .concat es, hw, st, r, h => by
    simp only [sem] at h
    simp only [wellShaped] at hw
    simpa [minSize] using min_sound_concat c es hw st r h
  | .alt es, hw, st, r, h => by
    simp only [sem] at h
    simp only [wellShaped, Bool.and_eq_true] at hw
    simpa [minSize] using min_sound_alt c es hw.2 st r h
  | .group g e, hw, st, r, h => by
    simp only [sem, List.mem_map] at h
    obtain ⟨r', hr', rfl⟩ := h
    simp only [wellShaped] at hw
    have := C13_min_sound c e hw _ _ hr'
    simpa [minSize, setSlot_ix] using this
  | .look e .ahead, _, st, r, h => by
    simp only [sem, List.mem_map] at h
    obtain ⟨r', _, rfl⟩ := h
    simp [minSize]
  | .look e .aheadNeg, _, st, r, h => by
    simp only [sem] at h; split at h
    · simp at h; subst h; simp [minSize]
    · simp at h
  | .look e .behind, _, st, r, h => by
    simp only [sem, List.mem_map] at h
    obtain ⟨r', _, rfl⟩ := h
    simp [minSize]
  | .look e .behindNeg, _, st, r, h => by
    simp only [sem] at h; split at h
    · simp at h; subst h; simp [minSize]
    · simp at h
  | .repeat e lo hi greedy, hw, st, r, h => by
    simp only [sem] at h
    simp only [wellShaped] at hw
    have := repLoop_min (sem c e) (minSize e) (fun st r hr => C13_min_sound c e hw st r hr)
      lo hi greedy _ 0 st r h
    have h2 : minSize (.repeat e lo hi greedy) ≤ sureReps lo hi * minSize e := by
      simp only [minSize]
      have := satMul_le (minSize e) (sureReps lo hi)
      rw [Nat.mul_comm] at this
      exact this
    simp only [Nat.sub_zero] at this
    omega
  | .delegate inner size casei, _, st, r, h => by
    simp only [sem, delegateSem] at h
    split at h
    · rename_i hs
      have hs' : size = 1 := by simpa using hs
      split at h
      · split at h
        · simp at h; subst h; simp [minSize, hs']
        · simp at h
      · simp at h
    · split at h
      · rename_i hs
        simp only [Bool.and_eq_true, beq_iff_eq] at hs
        split at h
        · simp at h; subst h; simp [minSize, hs.1]
        · simp at h
      · simp at h
  | .backref g, _, st, r, h => by
    simp only [sem] at h
    split at h
    · split at h
      · simp at h; subst h; simp [minSize]
      · simp at h
    · simp at h
  | .atomic e, hw, st, r, h => by
    simp only [sem] at h
    simp only [wellShaped] at hw
    have := C13_min_sound c e hw st r (firstOnly_mem _ _ h)
    simpa [minSize] using this
  | .keepOut, _, st, r, h => by simp [sem] at h; subst h; simp [minSize, setSlot_ix]
  | .contPrev, _, st, r, h => by
    simp only [sem] at h; split at h
    · simp at h; subst h; simp [minSize]
    · simp at h
  | .backrefExists g, _, st, r, h => by
    simp only [sem] at h; split at h
    · simp at h; subst h; simp [minSize]
    · simp at h
  | .cond cnd y n, hw, st, r, h => by
    simp only [sem] at h
    simp only [wellShaped, Bool.and_eq_true] at hw
    have hm : minSize (.cond cnd y n) ≤ minSize cnd + minSize y ∧ minSize (.cond cnd y n) ≤ minSize n := by
      simp only [minSize]
      have := satAdd_le (minSize cnd) (minSize y)
      omega
    split at h
    · rename_i r1 hr1
      have h1 := C13_min_sound c cnd hw.1.1 st r1 (List.mem_of_mem_head? hr1)
      have h2 := C13_min_sound c y hw.1.2 r1 r h
      omega
    · have h3 := C13_min_sound c n hw.2 st r h
      omega
  | .subroutine g, _, st, r, h => by simp [sem] at h
theorem min_sound_concat (c : Ctx) : ∀ (es : List Expr), wellShapedAll es = true → ∀ (st r : St),
    r ∈ semConcat c es st → st.ix + minSizeSum es ≤ r.ix
  | [], _, st, r, h => by simp [semConcat] at h; subst h; simp [minSizeSum]
  | e :: es, hw, st, r, h => by
    simp only [semConcat, List.mem_flatMap] at h
    obtain ⟨r1, hr1, hr⟩ := h
    simp only [wellShapedAll, Bool.and_eq_true] at hw
    have h1 := C13_min_sound c e hw.1 st r1 hr1
    have h2 := min_sound_concat c es hw.2 r1 r hr
    have := satAdd_le (minSize e) (minSizeSum es)
    simp only [minSizeSum]
    omega
theorem min_sound_alt (c : Ctx) : ∀ (es : List Expr), wellShapedAll es = true → ∀ (st r : St),
    r ∈ semAlt c es st → st.ix + minSizeMin es ≤ r.ix
  | [], _, st, r, h => by simp [semAlt] at h
  | e :: es, hw, st, r, h => by
    simp only [semAlt, List.mem_append] at h
    simp only [wellShapedAll, Bool.and_eq_true] at hw
    rcases h with h | h
    · have := C13_min_sound c e hw.1 st r h
      have := minSizeMin_le e (e :: es) (by simp)
      omega
    · have h2 := min_sound_alt c es hw.2 st r h
      cases es with
      | nil => simp [semAlt] at h
      | cons y ys =>
        simp only [minSizeMin] at h2 ⊢
        omega
end

end Fancy
