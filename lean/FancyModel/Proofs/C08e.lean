import FancyModel.Proofs.C08d
import FancyModel.Proofs.C09b
import FancyModel.Proofs.C11b
import FancyModel.Proofs.C01h
import FancyModel.Proofs.C06d
import FancyModel.Lemmas.ParseHiOK
import FancyModel.Lemmas.ParseCodeBound
/-!
# C08e — C08 – C11 composed: from the pattern string, through the TRANSLATED lib.rs, to the reference search

The layers that exist:

* Proofs/C08d.lean: the translated `Matches::next`, `CaptureMatches::next`, `Split::next`, `try_replacen` are the
  model's API layer, for EVERY oracle (`Oracle α = byte position → skipped-empty-match bit → Except SearchErr (Option α)`);
* Proofs/C09b.lean: the translated `new_options` is `build`; the translated entry points
  `find_from_pos_with_option_flags` / `captures_from_pos_with_option_flags` of a `Regex` that corresponds to `b`
  (`Corr`) are the projections of `Built.captures`. **These entry points are stated over the model's code-point
  context `Ctx`** (the text as characters, positions as character indices, the flag word as a `Nat`), not over bytes;
* Proofs/C08c.lean, C11b.lean: over the model engine seen as a byte-position oracle (`modelOracleF`: byte position →
  character index by `charIndexOf (offsets chars)`, reported slots → byte offsets by `slotsToBytes (offsets chars)`),
  `find_iter` / `captures_iter` / `split` / `replacen` are the statement-level functions of the REFERENCE search;
* Proofs/C01h.lean: `VmCorrectR` for every pattern string of stage S5 (`C01_pipeline_s5`).

The bridge here: `genFindOracle` / `genCapsOracle` — the TRANSLATED entry point of C09b applied to `rx`, wrapped in the
SAME position conversion `modelOracleF` uses (this conversion is the model's, it is not translated code: C09b has no
byte-level entry point). `genCapsOracle_eq`: it IS `modelOracleF b …` (from `Corr` alone); `genFindOracle_eq`: it IS
`spanOracle (modelOracleF b …)` (from `Corr` and the engine hypothesis, which supplies slots 0 and 1 of a match).
On the wrapped path the translated entry point does not touch the `skipped` field of the context it is given, and the
reference oracle `refSpanOracle` reads the flag from that field: the wrapper passes the flag in the base context
(`mkCtx chars 0 flag`); on the VM path the entry point overwrites the field from `option_flags` (`genFindOracle_vm_base`).

Results (`Source`: the pattern string parsed by the translated parser, handed to the translated `new_options`, which
returned `rx`; `b` is what `build` returns): `C08_source_to_reference_s5` / `_wrap` (translated `find_iter`),
`C09_source_to_reference` (translated `captures_iter` spans = translated `find_iter` items), `C10_source_to_reference_s5`
/ `_wrap` (translated `split`), `C11_source_to_model`, `C11_source_to_reference_s5` (translated `try_replacen`, both paths).
-/
set_option linter.unusedSimpArgs false
namespace Fancy
open Fancy.Api Fancy.Utf8 Fancy.GenApi Fancy.GenLib Fancy.Drv Fancy.ApiSpec

/-! ## the translated entry points as byte-position oracles -/

/-- the error of an entry point as the API layer's `SearchErr` (a compile error cannot come out of a search) -/
def errOf : RErr → SearchErr
  | .backtrackLimit => .limit
  | .stackOverflow => .stack
  | .outOfFuel => .outOfFuel
  | .compile _ => .panicked

/-- the flag word `Matches::next` passes for the bit the oracle is told -/
def flagsOf (flag : Bool) : Nat := if flag then OPTION_SKIPPED_EMPTY_MATCH else 0

/-- the slots of a translated `Captures` value -/
def slotsOfCaps (cp : RCaptures) : List (Option Nat) :=
  match cp.inner with
  | .wrap (some s) => s
  | .wrap none => []
  | .fancy saves => viewSlots saves

/-- the TRANSLATED `find_from_pos_with_option_flags` of `rx` as a byte-position oracle (conversion as `modelOracleF`) -/
def genFindOracle (sem : RaSem) (fuel : Nat) (rx : RRegex) (chars : List Char) : Oracle (Nat × Nat) := fun pos flag =>
  match charIndexOf (offsets chars) pos with
  | none => .ok none
  | some cpos =>
    match genFindFromPosWithOptionFlags sem fuel rx (mkCtx chars 0 flag) cpos (flagsOf flag) with
    | .ok none => .ok none
    | .ok (some m) => .ok (some ((offsets chars).getD m.1 0, (offsets chars).getD m.2 0))
    | .err e => .error (errOf e)
    | .panic _ => .error .panicked

/-- the TRANSLATED `captures_from_pos_with_option_flags` of `rx` as a byte-position oracle -/
def genCapsOracle (sem : RaSem) (fuel : Nat) (rx : RRegex) (chars : List Char) : Oracle (List (Option Nat)) :=
  fun pos flag =>
    match charIndexOf (offsets chars) pos with
    | none => .ok none
    | some cpos =>
      match genCapturesFromPosWithOptionFlags sem fuel rx (mkCtx chars 0 flag) cpos (flagsOf flag) with
      | .ok none => .ok none
      | .ok (some cp) => .ok (some (slotsToBytes (offsets chars) (slotsOfCaps cp)))
      | .err e => .error (errOf e)
      | .panic _ => .error .panicked

theorem ctxOf_mkCtx (b : Built) (chars : List Char) (cpos : Nat) (flag : Bool) :
    ctxOf b (mkCtx chars 0 flag) cpos (flagsOf flag) = mkCtx chars cpos flag := by
  unfold ctxOf flagsOf mkCtx
  cases b.kind <;> simp [flag_bit]

/-- on the VM path the `skipped` field of the base context is irrelevant: the entry point overwrites it -/
theorem genFindOracle_vm_base (sem : RaSem) (fuel : Nat) (rx : RRegex) (prog : Prog) (n : Nat) (o : ROptions)
    (hi : rx.inner = .fancy prog n o) (chars : List Char) (cpos flags : Nat) (sk : Bool) :
    genFindFromPosWithOptionFlags sem fuel rx (mkCtx chars 0 sk) cpos flags =
      genFindFromPosWithOptionFlags sem fuel rx (mkCtx chars 0 false) cpos flags := by
  unfold genFindFromPosWithOptionFlags
  simp only [hi, vmRun, mkCtx]

theorem viewSlots_rawOf_take (saves : List Nat) (k : Nat) :
    viewSlots (((viewSlots saves).map rawOf).take k) = (viewSlots saves).take k := by
  rw [rawOf_view]
  simp [viewSlots, List.map_take]

/-- **the translated `captures` entry point, as a byte-position oracle, is the model engine's oracle** -/
theorem genCapsOracle_eq (sem : RaSem) (fuel : Nat) (rx : RRegex) (b : Built) (h : Corr sem rx b) (chars : List Char) :
    genCapsOracle sem fuel rx chars = modelOracleF b chars (offsets chars) (optionsOf rx).backtrackLimit fuel := by
  funext pos flag
  unfold genCapsOracle modelOracleF
  cases charIndexOf (offsets chars) pos with
  | none => rfl
  | some cpos =>
    simp only
    rw [C09_captures_translated_eq sem fuel rx b h, ctxOf_mkCtx]
    unfold Corr at h
    cases hi : rx.inner with
    | wrap inner o =>
      rw [hi] at h
      unfold Built.captures
      simp only [h.1]
      cases refSearchK (mkCtx chars cpos flag) b.raw b.nGroups with
      | none => rfl
      | some f => simp [expectCaptures, capsOf, h.1, slotsOfCaps]
    | fancy prog n o =>
      rw [hi] at h
      unfold Built.captures
      simp only [h.1]
      rcases run (mkCtx chars cpos flag) prog ⟨(optionsOf rx).backtrackLimit, maxStackDefault⟩ fuel with ⟨out, st⟩
      cases out with
      | matched saves => simp [expectCaptures, capsOf, h.1, slotsOfCaps, List.map_take, viewSlots_rawOf_take]
      | noMatch => rfl
      | errLimit => rfl
      | errStack => rfl
      | panic s => rfl
      | outOfFuel => rfl

/-- under the engine hypothesis a match of the VM has at least the two slots of group 0 -/
theorem twoSlots_of_engineOK (b : Built) (chars : List Char) (hE : EngineOK b chars) (hns : noSelfNest b.raw = true)
    (hg : 1 ≤ b.nGroups) (cpos : Nat) (flag : Bool) (hc : cpos ≤ chars.length) (limit fuel : Nat) :
    TwoSlots b (mkCtx chars cpos flag) limit fuel := by
  refine ⟨hg, fun prog saves hk hrun => ?_⟩
  have hv := hE cpos flag hc limit fuel
  have hcap : (b.captures (mkCtx chars cpos flag) limit fuel).1 = .found ((viewSlots saves).take (b.nGroups * 2)) := by
    unfold Built.captures
    simp only [hk]
    rcases hr : run (mkCtx chars cpos flag) prog ⟨limit, maxStackDefault⟩ fuel with ⟨out, st⟩
    rw [hr] at hrun
    simp only at hrun
    subst hrun
    rfl
  rw [hcap] at hv
  rcases hv with hv | hv | hv | hv
  · cases hv
  · cases hv
  · cases hv
  · cases href : refSearch (mkCtx chars cpos flag) b.raw b.nGroups with
    | none => rw [href] at hv; cases hv
    | some f =>
      rw [href] at hv
      simp only [SearchResult.found.injEq] at hv
      have hlen := (refSearch_valid _ _ _ hns f href).len
      rw [← hv] at hlen
      simp only [List.length_take, viewSlots_length] at hlen
      omega

/-- **the translated `find` entry point, as a byte-position oracle, is the span oracle of the model engine** -/
theorem genFindOracle_eq (sem : RaSem) (fuel : Nat) (rx : RRegex) (b : Built) (h : Corr sem rx b) (chars : List Char)
    (hE : EngineOK b chars) (hns : noSelfNest b.raw = true) (hg : 1 ≤ b.nGroups) :
    genFindOracle sem fuel rx chars =
      spanOracle (modelOracleF b chars (offsets chars) (optionsOf rx).backtrackLimit fuel) := by
  funext pos flag
  unfold genFindOracle spanOracle modelOracleF
  cases hci : charIndexOf (offsets chars) pos with
  | none => rfl
  | some cpos =>
    have hc := (charIndexOf_some chars pos cpos hci).1
    simp only
    rw [C09_find_translated_eq sem fuel rx b h _ cpos _
      (by rw [ctxOf_mkCtx]; exact twoSlots_of_engineOK b chars hE hns hg cpos flag hc _ fuel), ctxOf_mkCtx]
    unfold Built.find
    have hv := hE cpos flag hc (optionsOf rx).backtrackLimit fuel
    cases hcap : (b.captures (mkCtx chars cpos flag) (optionsOf rx).backtrackLimit fuel).1 with
    | found slots =>
      rw [hcap] at hv
      rcases hv with hv | hv | hv | hv
      · cases hv
      · cases hv
      · cases hv
      · cases href : refSearch (mkCtx chars cpos flag) b.raw b.nGroups with
        | none => rw [href] at hv; cases hv
        | some f =>
          rw [href] at hv
          simp only [SearchResult.found.injEq] at hv
          obtain ⟨s, e, h0, h1, _⟩ := (refSearch_valid _ _ _ hns f href).span (by omega)
          rw [← hv] at h0 h1
          match slots, h0, h1 with
          | a0 :: a1 :: rest, h0, h1 =>
            simp only [List.getElem?_cons_zero, List.getElem?_cons_succ, Option.some.injEq] at h0 h1
            subst h0; subst h1
            simp [expectFind, rawOf, slotsToBytes, spanOfSlots]
    | noMatch => rfl
    | errLimit => rfl
    | errStack => rfl
    | panic s => rfl
    | outOfFuel => rfl

/-! ## the engine hypothesis for stage S5 -/

/-- (E) for stage S5, from the pattern string (hypotheses of `C01_pipeline_s5`) -/
theorem engineOK_s5 (isAlnum : Char → Bool) (cs : List Char) (casei : Bool) (t : Parse.Tree) (b : Built)
    (prog : Prog) (hp : Parse.parseStr isAlnum cs casei = .ok t) (hb : build t.expr t.backrefs = .ok b)
    (hk : b.kind = .fancy prog) (hst : s5Pattern t b = true)
    (chars : List Char) (hlen : chars.length < UNSET) : EngineOK b chars :=
  fun cpos flag hc =>
    C01_pipeline_s5 isAlnum cs casei t b prog (mkCtx chars cpos flag) hp hb hk hst hlen hc

/-! ## from the source: the translated parser and the translated `new_options` -/

/-- the pattern string `options.pattern` is parsed by the translated parse.rs into `t`; the translated
    `Regex::new_options` (whose parser parameter returns that tree) returns `rx`; `b` is what `build` returns for `t`;
    on the wrapped path regex-automata understood the printed pattern as `b.raw` with `b.nGroups` groups (A-RA) -/
structure Source (isAlnum : Char → Bool) (parse : List Char → Bool → LRes Parse.Tree) (options : ROptions) (sem : RaSem)
    (t : Parse.Tree) (b : Built) (rx : RRegex) : Prop where
  hp : GenParse.parse_with_case_insensitive isAlnum (Parse.bytesOf options.pattern) options.syntaxc = .ok t
  hparse : parse options.pattern options.syntaxc = .ok t
  hsize : (Parse.bytesOf options.pattern).size < 2 ^ 58
  hrx : genNewOptions parse options = .ok rx
  hb : build t.expr t.backrefs = .ok b
  hra : b.kind = .wrap → ∀ cooked, GenToStr.genToStr t.expr [] 0 = some cooked → sem cooked = some (b.raw, b.nGroups)

theorem Source.parseStr {isAlnum : Char → Bool} {parse : List Char → Bool → LRes Parse.Tree} {options : ROptions} {sem : RaSem}
    {t : Parse.Tree} {b : Built} {rx : RRegex} (s : Source isAlnum parse options sem t b rx) :
    Parse.parseStr isAlnum options.pattern options.syntaxc = .ok t := by
  rw [← GenParse.Descent.C06_parse_translated_str]; exact s.hp

/-- the regex the translated `new_options` returned corresponds to `b` and carries the options -/
theorem Source.corr {isAlnum : Char → Bool} {parse : List Char → Bool → LRes Parse.Tree} {options : ROptions} {sem : RaSem}
    {t : Parse.Tree} {b : Built} {rx : RRegex} (s : Source isAlnum parse options sem t b rx) :
    Corr sem rx b ∧ optionsOf rx = options := by
  have hp' := s.parseStr
  have h := C09_new_options_translated_eq parse options t s.hparse
    (Parse.parse_analyzable isAlnum _ _ t hp') (Parse.parse_hiOK isAlnum _ _ t hp')
    (Parse.parse_codeBound_fits isAlnum _ _ t hp' s.hsize)
  rw [s.hb] at h
  have hrx := s.hrx
  rw [h] at hrx
  simp only [regexOf] at hrx
  cases hk : b.kind with
  | fancy prog =>
    rw [hk] at hrx
    simp only [LRes.ok.injEq] at hrx
    subst hrx
    exact ⟨by simp [Corr, hk], rfl⟩
  | wrap =>
    rw [hk] at hrx
    cases hs : GenToStr.genToStr t.expr [] 0 with
    | none => rw [hs] at hrx; cases hrx
    | some cooked =>
      rw [hs] at hrx
      simp only [LRes.ok.injEq] at hrx
      subst hrx
      exact ⟨by simp [Corr, hk, s.hra hk cooked hs], rfl⟩

/-! ## C08: `find_iter` -/

/-- **C08, from the source text to the reference search, stage S5.** The pattern string is parsed by the translated
    parser and built by the translated `new_options` into `rx`; its parse lies in stage S5. Then the TRANSLATED
    `find_iter` (the translated `Matches::next` drained from the translated constructor) over the TRANSLATED
    `find_from_pos_with_option_flags` of `rx` yields exactly the property's iteration of the REFERENCE search, every
    item `Ok`, or a prefix of it followed by exactly one resource stop. -/
theorem C08_source_to_reference_s5 {isAlnum : Char → Bool} {parse : List Char → Bool → LRes Parse.Tree} {options : ROptions}
    {sem : RaSem} {t : Parse.Tree} {b : Built} {rx : RRegex} (s : Source isAlnum parse options sem t b rx)
    (prog : Prog) (hk : b.kind = .fancy prog) (hst : s5Pattern t b = true)
    (chars : List Char) (hlen : chars.length < UNSET) (fuel : Nat) (text : Bytes) (htext : text.length = byteLen chars) :
    iterItems (genMatchesNext (genFindOracle sem fuel rx chars) text) text (text.length + 3) genFindIter =
        (ApiSpec.iter (refSpanOracle b chars) text).map .ok ∨
    ∃ ms e, iterItems (genMatchesNext (genFindOracle sem fuel rx chars) text) text (text.length + 3) genFindIter =
          ms.map .ok ++ [.error e] ∧
        ms <+: ApiSpec.iter (refSpanOracle b chars) text ∧
        (e = .limit ∨ e = .stack ∨ e = .outOfFuel) := by
  have hE := engineOK_s5 isAlnum _ _ t b prog s.parseStr s.hb hk hst chars hlen
  have hns := build_noSelfNest _ _ b s.hb
  have hg := build_nGroups_pos _ _ b s.hb
  rw [C08_find_iter_translated_eq, genFindOracle_eq sem fuel rx b s.corr.1 chars hE hns hg]
  exact C08_find_iter_is_reference b chars _ fuel hE hns hg text htext

/-- **the wrapped path**: exactly the reference iteration, no error item -/
theorem C08_source_to_reference_wrap {isAlnum : Char → Bool} {parse : List Char → Bool → LRes Parse.Tree} {options : ROptions}
    {sem : RaSem} {t : Parse.Tree} {b : Built} {rx : RRegex} (s : Source isAlnum parse options sem t b rx)
    (hk : b.kind = .wrap) (chars : List Char) (fuel : Nat) (text : Bytes) (htext : text.length = byteLen chars) :
    iterItems (genMatchesNext (genFindOracle sem fuel rx chars) text) text (text.length + 3) genFindIter =
      (ApiSpec.iter (refSpanOracle b chars) text).map .ok := by
  have hE := engineOK_wrap b chars hk
  have hns := build_noSelfNest _ _ b s.hb
  have hg := build_nGroups_pos _ _ b s.hb
  rw [C08_find_iter_translated_eq, genFindOracle_eq sem fuel rx b s.corr.1 chars hE hns hg]
  exact C08_find_iter_is_reference_wrap _ _ b s.hb hk chars _ fuel text htext

/-! ## C09: `captures_iter` -/

/-- **C09**: the translated `captures_iter` over the translated `captures` entry point yields values whose overall
    spans are exactly the items of the translated `find_iter` over the translated `find` entry point (errors included) -/
theorem C09_source_to_reference (sem : RaSem) (fuel : Nat) (rx : RRegex) (b : Built) (h : Corr sem rx b)
    (chars : List Char) (hE : EngineOK b chars) (hns : noSelfNest b.raw = true) (hg : 1 ≤ b.nGroups) (text : Bytes) :
    iterItems (genMatchesNext (genFindOracle sem fuel rx chars) text) text (text.length + 3) genFindIter =
      (iterItems (genCaptureMatchesNext (genCapsOracle sem fuel rx chars) spanOfSlots text) text (text.length + 3)
        genCapturesIter).map (mapItem spanOfSlots) := by
  rw [C08_find_iter_translated_eq, C09_captures_iter_translated_eq, genFindOracle_eq sem fuel rx b h chars hE hns hg,
    genCapsOracle_eq sem fuel rx b h chars, spanOracle_eq_spans]
  exact C09_iters_equal _ _ _

/-- … in particular for a stage-S5 pattern from the source -/
theorem C09_source_to_reference_s5 {isAlnum : Char → Bool} {parse : List Char → Bool → LRes Parse.Tree} {options : ROptions}
    {sem : RaSem} {t : Parse.Tree} {b : Built} {rx : RRegex} (s : Source isAlnum parse options sem t b rx)
    (prog : Prog) (hk : b.kind = .fancy prog) (hst : s5Pattern t b = true)
    (chars : List Char) (hlen : chars.length < UNSET) (fuel : Nat) (text : Bytes) :
    iterItems (genMatchesNext (genFindOracle sem fuel rx chars) text) text (text.length + 3) genFindIter =
      (iterItems (genCaptureMatchesNext (genCapsOracle sem fuel rx chars) spanOfSlots text) text (text.length + 3)
        genCapturesIter).map (mapItem spanOfSlots) :=
  C09_source_to_reference sem fuel rx b s.corr.1 chars
    (engineOK_s5 isAlnum _ _ t b prog s.parseStr s.hb hk hst chars hlen)
    (build_noSelfNest _ _ b s.hb) (build_nGroups_pos _ _ b s.hb) text

/-! ## C10: `split` -/

/-- **C10, stage S5**: when the translated `find_iter` yields no `Err` item, the translated `split` yields exactly the
    substrings between consecutive matches of the reference iteration and then the rest of the text -/
theorem C10_source_to_reference_s5 {isAlnum : Char → Bool} {parse : List Char → Bool → LRes Parse.Tree} {options : ROptions}
    {sem : RaSem} {t : Parse.Tree} {b : Built} {rx : RRegex} (s : Source isAlnum parse options sem t b rx)
    (prog : Prog) (hk : b.kind = .fancy prog) (hst : s5Pattern t b = true)
    (chars : List Char) (hlen : chars.length < UNSET) (fuel : Nat) (text : Bytes) (htext : text.length = byteLen chars)
    (hnoerr : ∀ e, .error e ∉
      iterItems (genMatchesNext (genFindOracle sem fuel rx chars) text) text (text.length + 3) genFindIter) :
    drain (genSplitNext (genFindOracle sem fuel rx chars) text) (text.length + 4) genSplit =
        (ApiSpec.pieces text.length (ApiSpec.iter (refSpanOracle b chars) text)).map (fun p => Item.piece p.1 p.2) ∧
      (drain (genSplitNext (genFindOracle sem fuel rx chars) text) (text.length + 4) genSplit).length =
        (ApiSpec.iter (refSpanOracle b chars) text).length + 1 := by
  have hE := engineOK_s5 isAlnum _ _ t b prog s.parseStr s.hb hk hst chars hlen
  have hns := build_noSelfNest _ _ b s.hb
  have hg := build_nGroups_pos _ _ b s.hb
  rw [C08_find_iter_translated_eq, genFindOracle_eq sem fuel rx b s.corr.1 chars hE hns hg] at hnoerr
  rw [C10_split_translated_eq, genFindOracle_eq sem fuel rx b s.corr.1 chars hE hns hg]
  exact C10_split_is_reference b chars _ fuel hE hns hg text htext hnoerr

/-- **C10, the wrapped path**: unconditionally -/
theorem C10_source_to_reference_wrap {isAlnum : Char → Bool} {parse : List Char → Bool → LRes Parse.Tree} {options : ROptions}
    {sem : RaSem} {t : Parse.Tree} {b : Built} {rx : RRegex} (s : Source isAlnum parse options sem t b rx)
    (hk : b.kind = .wrap) (chars : List Char) (fuel : Nat) (text : Bytes) (htext : text.length = byteLen chars) :
    drain (genSplitNext (genFindOracle sem fuel rx chars) text) (text.length + 4) genSplit =
        (ApiSpec.pieces text.length (ApiSpec.iter (refSpanOracle b chars) text)).map (fun p => Item.piece p.1 p.2) ∧
      (drain (genSplitNext (genFindOracle sem fuel rx chars) text) (text.length + 4) genSplit).length =
        (ApiSpec.iter (refSpanOracle b chars) text).length + 1 := by
  have hE := engineOK_wrap b chars hk
  have hns := build_noSelfNest _ _ b s.hb
  have hg := build_nGroups_pos _ _ b s.hb
  rw [C10_split_translated_eq, genFindOracle_eq sem fuel rx b s.corr.1 chars hE hns hg]
  refine C10_split_is_reference b chars _ fuel hE hns hg text htext (fun e he => ?_)
  rw [C08_find_iter_is_reference_wrap _ _ b s.hb hk chars _ fuel text htext] at he
  simp at he

/-! ## C11: `try_replacen` -/

/-- the replacement `try_replacen` uses: the constant text on the `no_expansion()` path, `replace_append` otherwise -/
def repOf {α : Type} (ne : Option Bytes) (ra : α → Bytes) : α → Bytes :=
  match ne with
  | some rep => fun _ => rep
  | none => ra

/-- **C11, down to the model**: the translated `try_replacen` over the two translated entry points of `rx`, on either
    path, is the model's `replacen` over `captures_iter` of the model engine -/
theorem C11_source_to_model (sem : RaSem) (fuel : Nat) (rx : RRegex) (b : Built) (h : Corr sem rx b)
    (chars : List Char) (hE : EngineOK b chars) (hns : noSelfNest b.raw = true) (hg : 1 ≤ b.nGroups) (text : Bytes)
    (n : Nat) (ne : Option Bytes) (ra : List (Option Nat) → Bytes) :
    genTryReplacen (genFindOracle sem fuel rx chars) (genCapsOracle sem fuel rx chars) spanOfSlots text n ne ra =
      replacen (capturesIter (modelOracleF b chars (offsets chars) (optionsOf rx).backtrackLimit fuel) spanOfSlots text)
        spanOfSlots (repOf ne ra) text n := by
  rw [C11_replacen_translated_eq, genFindOracle_eq sem fuel rx b h chars hE hns hg,
    genCapsOracle_eq sem fuel rx b h chars]
  cases ne with
  | none => rfl
  | some rep =>
    simp only [repOf]
    rw [spanOracle_eq_spans]
    exact C11_paths_agree _ _ _ _ _

/-- **C11, from the source text to the reference search, stage S5**: the result of the translated `try_replacen` (both
    paths) on the UTF-8 bytes of `chars`, in terms of the reference iteration: `Borrowed` iff the reference search finds
    nothing; otherwise the text rewritten at the first `n` (all, for `n = 0`) reference matches; or, after a resource
    stop, the rewrite of the matches before it when the limit cuts the loop first, the error otherwise. Never a panic. -/
theorem C11_source_to_reference_s5 {isAlnum : Char → Bool} {parse : List Char → Bool → LRes Parse.Tree} {options : ROptions}
    {sem : RaSem} {t : Parse.Tree} {b : Built} {rx : RRegex} (s : Source isAlnum parse options sem t b rx)
    (prog : Prog) (hk : b.kind = .fancy prog) (hst : s5Pattern t b = true)
    (chars : List Char) (hlen : chars.length < UNSET) (fuel : Nat)
    (n : Nat) (ne : Option Bytes) (ra : List (Option Nat) → Bytes) :
    ∃ as : List (List (Option Nat)),
      (∀ a ∈ as, ∃ p fl, refCapsOracle b chars p fl = some a) ∧
      WFMatches (utf8Of chars) (as.map spanOfSlots) 0 ∧
      ((as.map spanOfSlots = ApiSpec.iter (refSpanOracle b chars) (utf8Of chars) ∧
        (genTryReplacen (genFindOracle sem fuel rx chars) (genCapsOracle sem fuel rx chars) spanOfSlots (utf8Of chars)
            n ne ra = .borrowed ↔ ApiSpec.iter (refSpanOracle b chars) (utf8Of chars) = []) ∧
        (ApiSpec.iter (refSpanOracle b chars) (utf8Of chars) ≠ [] →
          genTryReplacen (genFindOracle sem fuel rx chars) (genCapsOracle sem fuel rx chars) spanOfSlots (utf8Of chars)
            n ne ra =
          .owned (rewrite (utf8Of chars) ((chosen n 0 as).map fun a => (spanOfSlots a, repOf ne ra a)) 0))) ∨
       (∃ e, as.map spanOfSlots <+: ApiSpec.iter (refSpanOracle b chars) (utf8Of chars) ∧
          (e = .limit ∨ e = .stack ∨ e = .outOfFuel) ∧
          genTryReplacen (genFindOracle sem fuel rx chars) (genCapsOracle sem fuel rx chars) spanOfSlots (utf8Of chars)
            n ne ra =
          if 0 < n ∧ n < as.length then
            .owned (rewrite (utf8Of chars) ((as.take n).map fun a => (spanOfSlots a, repOf ne ra a)) 0)
          else .err e)) := by
  have hE := engineOK_s5 isAlnum _ _ t b prog s.parseStr s.hb hk hst chars hlen
  have hns := build_noSelfNest _ _ b s.hb
  have hg := build_nGroups_pos _ _ b s.hb
  rw [C11_source_to_model sem fuel rx b s.corr.1 chars hE hns hg]
  obtain ⟨as, h1, h2, h3⟩ := C11_replacen_is_reference b chars (optionsOf rx).backtrackLimit fuel hE hns hg (repOf ne ra) n
  refine ⟨as, h1, h2, ?_⟩
  rcases h3 with ⟨_, ha, hb', hc⟩ | ⟨e, _, ha, hb', hc⟩
  · exact Or.inl ⟨ha, hb', hc⟩
  · exact Or.inr ⟨e, ha, hb', hc⟩

/-! ## Non-vacuity -/

/-- the translated parser as the parser parameter of the translated `new_options` (only its successes matter here) -/
def srcParse (isAlnum : Char → Bool) : List Char → Bool → LRes Parse.Tree := fun cs casei =>
  match GenParse.parse_with_case_insensitive isAlnum (Parse.bytesOf cs) casei with
  | .ok t => .ok t
  | _ => .panic "parse error"

/-- `Source` holds whenever the translated parser and `build` succeed on the VM path: the translated `new_options`
    then returns the regex with the compiled program -/
theorem source_of_build_vm (isAlnum : Char → Bool) (options : ROptions) (sem : RaSem) (t : Parse.Tree) (b : Built)
    (prog : Prog)
    (hp : GenParse.parse_with_case_insensitive isAlnum (Parse.bytesOf options.pattern) options.syntaxc = .ok t)
    (hsize : (Parse.bytesOf options.pattern).size < 2 ^ 58)
    (hb : build t.expr t.backrefs = .ok b) (hk : b.kind = .fancy prog) :
    Source isAlnum (srcParse isAlnum) options sem t b ⟨.fancy prog b.nGroups options, t.namedGroups⟩ := by
  have hparse : srcParse isAlnum options.pattern options.syntaxc = .ok t := by simp [srcParse, hp]
  refine ⟨hp, hparse, hsize, ?_, hb, fun hw => by rw [hk] at hw; cases hw⟩
  have hp' : Parse.parseStr isAlnum options.pattern options.syntaxc = .ok t := by
    rw [← GenParse.Descent.C06_parse_translated_str]; exact hp
  have h := C09_new_options_translated_eq (srcParse isAlnum) options t hparse
    (Parse.parse_analyzable isAlnum _ _ t hp') (Parse.parse_hiOK isAlnum _ _ t hp')
    (Parse.parse_codeBound_fits isAlnum _ _ t hp' hsize)
  rw [hb] at h
  rw [h]
  simp [regexOf, hk]

/-- the pattern string `a(?=b)` (VM path, stage S3 ⊆ S5), every backtrack limit, text and fuel: all hypotheses of
    `C08_source_to_reference_s5` hold -/
example (limit : Nat) (sem : RaSem) (chars : List Char) (hlen : chars.length < UNSET) (fuel : Nat) (text : Bytes)
    (htext : text.length = byteLen chars) :
    ∃ b rx, genNewOptions (srcParse (fun c => c.isAlphanum)) ⟨"a(?=b)".toList, false, limit, none, none⟩ = .ok rx ∧
      (iterItems (genMatchesNext (genFindOracle sem fuel rx chars) text) text (text.length + 3) genFindIter =
          (ApiSpec.iter (refSpanOracle b chars) text).map .ok ∨
       ∃ ms e, iterItems (genMatchesNext (genFindOracle sem fuel rx chars) text) text (text.length + 3) genFindIter =
            ms.map .ok ++ [.error e] ∧
          ms <+: ApiSpec.iter (refSpanOracle b chars) text ∧
          (e = .limit ∨ e = .stack ∨ e = .outOfFuel)) := by
  obtain ⟨b, prog, hb, hk, hst, _, _⟩ := exLook_built
  have hp : GenParse.parse_with_case_insensitive (fun c => c.isAlphanum) (Parse.bytesOf "a(?=b)".toList) false =
      .ok ⟨exLook, [], []⟩ := by
    rw [GenParse.Descent.C06_parse_translated_str]; exact exLook_parse
  have src := source_of_build_vm (fun c => c.isAlphanum) ⟨"a(?=b)".toList, false, limit, none, none⟩ sem
    ⟨exLook, [], []⟩ b prog hp (show (Parse.bytesOf "a(?=b)".toList).size < 2 ^ 58 by decide) hb hk
  have hst5 : s5Pattern ⟨exLook, [], []⟩ b = true := by
    simp only [s3Pattern, Bool.and_eq_true] at hst
    have h4 := s4ok_of_s3ok _ _ hst.1
    simp only [s5Pattern, s4Pattern, h4, hst.2, Bool.and_self, Bool.true_or]
  exact ⟨b, _, src.hrx, C08_source_to_reference_s5 src prog hk hst5 chars hlen fuel text htext⟩

end Fancy
