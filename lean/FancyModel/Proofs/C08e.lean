import FancyModel.Proofs.C08d
import FancyModel.Proofs.C09b
import FancyModel.Proofs.C11b
import FancyModel.Proofs.C01h
import FancyModel.Proofs.C06d
import FancyModel.Lemmas.ParseHiOK
import FancyModel.Lemmas.ParseCodeBound
/-!
# C08e — C08 – C11 composed: from the pattern string, through the TRANSLATED lib.rs, to the reference search

The layers that exist:

* Proofs/C08d.lean: the translated `Matches::next`, `CaptureMatches::next`, `Split::next`, `try_replacen` are the
  model's API layer, for EVERY oracle (`Oracle α = byte position → skipped-empty-match bit → Except SearchErr (Option α)`);
* Proofs/C09b.lean: the translated `new_options` is `build`; the translated entry points
  `find_from_pos_with_option_flags` / `captures_from_pos_with_option_flags` of a `Regex` that corresponds to `b`
  (`Corr`) are the projections of `Built.captures`. **These entry points are stated over the model's code-point
  context `Ctx`** (the text as characters, positions as character indices, the flag word as a `Nat`), not over bytes;
* Proofs/C08c.lean, C11b.lean: over the model engine seen as a byte-position oracle (`modelOracleF`: byte position →
  character index by `charIndexOf (offsets chars)`, reported slots → byte offsets by `slotsToBytes (offsets chars)`),
  `find_iter` / `captures_iter` / `split` / `replacen` are the statement-level functions of the REFERENCE search;
* Proofs/C01h.lean: `VmCorrectR` for every pattern string of stage S5 (`C01_pipeline_s5`).

The bridge here: `genFindOracle` / `genCapsOracle` — the TRANSLATED entry point of C09b applied to `rx`, wrapped in the
SAME position conversion `modelOracleF` uses (this conversion is the model's, it is not translated code: C09b has no
byte-level entry point). `genCapsOracle_eq`: it IS `modelOracleF b …` (from `Corr` alone); `genFindOracle_eq`: it IS
`spanOracle (modelOracleF b …)` (from `Corr` and the engine hypothesis, which supplies slots 0 and 1 of a match).
On the wrapped path the translated entry point does not touch the `skipped` field of the context it is given, and the
reference oracle `refSpanOracle` reads the flag from that field: the wrapper passes the flag in the base context
(`mkCtx chars 0 flag`); on the VM path the entry point overwrites the field from `option_flags` (`genFindOracle_vm_base`).

Results (`Source`: the pattern string parsed by the translated parser, handed to the translated `new_options`, which
returned `rx`; `b` is what `build` returns): `C08_source_to_reference_s5` / `_wrap` (translated `find_iter`),
`C09_source_to_reference` (translated `captures_iter` spans = translated `find_iter` items), `C10_source_to_reference_s5`
/ `_wrap` (translated `split`), `C11_source_to_model`, `C11_source_to_reference_s5` (translated `try_replacen`, both paths); `C10_source_split_pieces`,
`C10_source_splitn_pieces` (errors included), `C10_source_splitn_s5` / `_wrap` (with the model-level collected theorems
`C10_splitn_pieces`, `C10_splitn_spec`), `C02_source_to_reference_s5` / `_wrap` (every group of every item),
`C16_source_captures_len`.
-/
set_option linter.unusedSimpArgs false
namespace Fancy
open Fancy.Api Fancy.Utf8 Fancy.GenApi Fancy.GenLib Fancy.Drv Fancy.ApiSpec

/-! ## the translated entry points as byte-position oracles -/

/-- the error of an entry point as the API layer's `SearchErr` (a compile error cannot come out of a search) -/
def errOf : RErr → SearchErr
  | .backtrackLimit => .limit
  | .stackOverflow => .stack
  | .outOfFuel => .outOfFuel
  | .compile _ => .panicked

/-- the flag word `Matches::next` passes for the bit the oracle is told -/
def flagsOf (flag : Bool) : Nat := if flag then OPTION_SKIPPED_EMPTY_MATCH else 0

/-- the slots of a translated `Captures` value -/
def slotsOfCaps (cp : RCaptures) : List (Option Nat) :=
  match cp.inner with
  | .wrap (some s) => s
  | .wrap none => []
  | .fancy saves => viewSlots saves

/-- the TRANSLATED `find_from_pos_with_option_flags` of `rx` as a byte-position oracle (conversion as `modelOracleF`) -/
def genFindOracle (sem : RaSem) (fuel : Nat) (rx : RRegex) (chars : List Char) : Oracle (Nat × Nat) := fun pos flag =>
  match charIndexOf (offsets chars) pos with
  | none => .ok none
  | some cpos =>
    match genFindFromPosWithOptionFlags sem fuel rx (mkCtx chars 0 flag) cpos (flagsOf flag) with
    | .ok none => .ok none
    | .ok (some m) => .ok (some ((offsets chars).getD m.1 0, (offsets chars).getD m.2 0))
    | .err e => .error (errOf e)
    | .panic _ => .error .panicked

/-- the TRANSLATED `captures_from_pos_with_option_flags` of `rx` as a byte-position oracle -/
def genCapsOracle (sem : RaSem) (fuel : Nat) (rx : RRegex) (chars : List Char) : Oracle (List (Option Nat)) :=
  fun pos flag =>
    match charIndexOf (offsets chars) pos with
    | none => .ok none
    | some cpos =>
      match genCapturesFromPosWithOptionFlags sem fuel rx (mkCtx chars 0 flag) cpos (flagsOf flag) with
      | .ok none => .ok none
      | .ok (some cp) => .ok (some (slotsToBytes (offsets chars) (slotsOfCaps cp)))
      | .err e => .error (errOf e)
      | .panic _ => .error .panicked

theorem ctxOf_mkCtx (b : Built) (chars : List Char) (cpos : Nat) (flag : Bool) :
    ctxOf b (mkCtx chars 0 flag) cpos (flagsOf flag) = mkCtx chars cpos flag := by
  unfold ctxOf flagsOf mkCtx
  cases b.kind <;> simp [flag_bit]

/-- on the VM path the `skipped` field of the base context is irrelevant: the entry point overwrites it -/
theorem genFindOracle_vm_base (sem : RaSem) (fuel : Nat) (rx : RRegex) (prog : Prog) (n : Nat) (o : ROptions)
    (hi : rx.inner = .fancy prog n o) (chars : List Char) (cpos flags : Nat) (sk : Bool) :
    genFindFromPosWithOptionFlags sem fuel rx (mkCtx chars 0 sk) cpos flags =
      genFindFromPosWithOptionFlags sem fuel rx (mkCtx chars 0 false) cpos flags := by
  unfold genFindFromPosWithOptionFlags
  simp only [hi, vmRun, mkCtx]

theorem viewSlots_rawOf_take (saves : List Nat) (k : Nat) :
    viewSlots (((viewSlots saves).map rawOf).take k) = (viewSlots saves).take k := by
  rw [rawOf_view]
  simp [viewSlots, List.map_take]

/-- **the translated `captures` entry point, as a byte-position oracle, is the model engine's oracle** -/
theorem genCapsOracle_eq (sem : RaSem) (fuel : Nat) (rx : RRegex) (b : Built) (h : Corr sem rx b) (chars : List Char) :
    genCapsOracle sem fuel rx chars = modelOracleF b chars (offsets chars) (optionsOf rx).backtrackLimit fuel := by
  funext pos flag
  unfold genCapsOracle modelOracleF
  cases charIndexOf (offsets chars) pos with
  | none => rfl
  | some cpos =>
    simp only
    rw [C09_captures_translated_eq sem fuel rx b h, ctxOf_mkCtx]
    unfold Corr at h
    cases hi : rx.inner with
    | wrap inner o =>
      rw [hi] at h
      unfold Built.captures
      simp only [h.1]
      cases refSearchK (mkCtx chars cpos flag) b.raw b.nGroups with
      | none => rfl
      | some f => simp [expectCaptures, capsOf, h.1, slotsOfCaps]
    | fancy prog n o =>
      rw [hi] at h
      unfold Built.captures
      simp only [h.1]
      rcases run (mkCtx chars cpos flag) prog ⟨(optionsOf rx).backtrackLimit, maxStackDefault⟩ fuel with ⟨out, st⟩
      cases out with
      | matched saves => simp [expectCaptures, capsOf, h.1, slotsOfCaps, List.map_take, viewSlots_rawOf_take]
      | noMatch => rfl
      | errLimit => rfl
      | errStack => rfl
      | panic s => rfl
      | outOfFuel => rfl

/-- under the engine hypothesis a match of the VM has at least the two slots of group 0 -/
theorem twoSlots_of_engineOK (b : Built) (chars : List Char) (hE : EngineOK b chars) (hns : noSelfNest b.raw = true)
    (hg : 1 ≤ b.nGroups) (cpos : Nat) (flag : Bool) (hc : cpos ≤ chars.length) (limit fuel : Nat) :
    TwoSlots b (mkCtx chars cpos flag) limit fuel := by
  refine ⟨hg, fun prog saves hk hrun => ?_⟩
  have hv := hE cpos flag hc limit fuel
  have hcap : (b.captures (mkCtx chars cpos flag) limit fuel).1 = .found ((viewSlots saves).take (b.nGroups * 2)) := by
    unfold Built.captures
    simp only [hk]
    rcases hr : run (mkCtx chars cpos flag) prog ⟨limit, maxStackDefault⟩ fuel with ⟨out, st⟩
    rw [hr] at hrun
    simp only at hrun
    subst hrun
    rfl
  rw [hcap] at hv
  rcases hv with hv | hv | hv | hv
  · cases hv
  · cases hv
  · cases hv
  · cases href : refSearch (mkCtx chars cpos flag) b.raw b.nGroups with
    | none => rw [href] at hv; cases hv
    | some f =>
      rw [href] at hv
      simp only [SearchResult.found.injEq] at hv
      have hlen := (refSearch_valid _ _ _ hns f href).len
      rw [← hv] at hlen
      simp only [List.length_take, viewSlots_length] at hlen
      omega

/-- **the translated `find` entry point, as a byte-position oracle, is the span oracle of the model engine** -/
theorem genFindOracle_eq (sem : RaSem) (fuel : Nat) (rx : RRegex) (b : Built) (h : Corr sem rx b) (chars : List Char)
    (hE : EngineOK b chars) (hns : noSelfNest b.raw = true) (hg : 1 ≤ b.nGroups) :
    genFindOracle sem fuel rx chars =
      spanOracle (modelOracleF b chars (offsets chars) (optionsOf rx).backtrackLimit fuel) := by
  funext pos flag
  unfold genFindOracle spanOracle modelOracleF
  cases hci : charIndexOf (offsets chars) pos with
  | none => rfl
  | some cpos =>
    have hc := (charIndexOf_some chars pos cpos hci).1
    simp only
    rw [C09_find_translated_eq sem fuel rx b h _ cpos _
      (by rw [ctxOf_mkCtx]; exact twoSlots_of_engineOK b chars hE hns hg cpos flag hc _ fuel), ctxOf_mkCtx]
    unfold Built.find
    have hv := hE cpos flag hc (optionsOf rx).backtrackLimit fuel
    cases hcap : (b.captures (mkCtx chars cpos flag) (optionsOf rx).backtrackLimit fuel).1 with
    | found slots =>
      rw [hcap] at hv
      rcases hv with hv | hv | hv | hv
      · cases hv
      · cases hv
      · cases hv
      · cases href : refSearch (mkCtx chars cpos flag) b.raw b.nGroups with
        | none => rw [href] at hv; cases hv
        | some f =>
          rw [href] at hv
          simp only [SearchResult.found.injEq] at hv
          obtain ⟨s, e, h0, h1, _⟩ := (refSearch_valid _ _ _ hns f href).span (by omega)
          rw [← hv] at h0 h1
          match slots, h0, h1 with
          | a0 :: a1 :: rest, h0, h1 =>
            simp only [List.getElem?_cons_zero, List.getElem?_cons_succ, Option.some.injEq] at h0 h1
            subst h0; subst h1
            simp [expectFind, rawOf, slotsToBytes, spanOfSlots]
    | noMatch => rfl
    | errLimit => rfl
    | errStack => rfl
    | panic s => rfl
    | outOfFuel => rfl

/-! ## the engine hypothesis for stage S5 -/

/-- (E) for stage S5, from the pattern string (hypotheses of `C01_pipeline_s5`) -/
theorem engineOK_s5 (isAlnum : Char → Bool) (cs : List Char) (casei : Bool) (t : Parse.Tree) (b : Built)
    (prog : Prog) (hp : Parse.parseStr isAlnum cs casei = .ok t) (hb : build t.expr t.backrefs = .ok b)
    (hk : b.kind = .fancy prog) (hst : s5Pattern t b = true)
    (chars : List Char) (hlen : chars.length < UNSET) : EngineOK b chars :=
  fun cpos flag hc =>
    C01_pipeline_s5 isAlnum cs casei t b prog (mkCtx chars cpos flag) hp hb hk hst hlen hc

/-! ## from the source: the translated parser and the translated `new_options` -/

/-- the pattern string `options.pattern` is parsed by the translated parse.rs into `t`; the translated
    `Regex::new_options` (whose parser parameter returns that tree) returns `rx`; `b` is what `build` returns for `t`;
    on the wrapped path regex-automata understood the printed pattern as `b.raw` with `b.nGroups` groups (A-RA) -/
structure Source (isAlnum : Char → Bool) (parse : List Char → Bool → LRes Parse.Tree) (options : ROptions) (sem : RaSem)
    (t : Parse.Tree) (b : Built) (rx : RRegex) : Prop where
  hp : GenParse.parse_with_case_insensitive isAlnum (Parse.bytesOf options.pattern) options.syntaxc = .ok t
  hparse : parse options.pattern options.syntaxc = .ok t
  hsize : (Parse.bytesOf options.pattern).size < 2 ^ 58
  hrx : genNewOptions parse options = .ok rx
  hb : build t.expr t.backrefs = .ok b
  hra : b.kind = .wrap → ∀ cooked, GenToStr.genToStr t.expr [] 0 = some cooked → sem cooked = some (b.raw, b.nGroups)

theorem Source.parseStr {isAlnum : Char → Bool} {parse : List Char → Bool → LRes Parse.Tree} {options : ROptions} {sem : RaSem}
    {t : Parse.Tree} {b : Built} {rx : RRegex} (s : Source isAlnum parse options sem t b rx) :
    Parse.parseStr isAlnum options.pattern options.syntaxc = .ok t := by
  rw [← GenParse.Descent.C06_parse_translated_str]; exact s.hp

/-- the regex the translated `new_options` returned corresponds to `b` and carries the options -/
theorem Source.corr {isAlnum : Char → Bool} {parse : List Char → Bool → LRes Parse.Tree} {options : ROptions} {sem : RaSem}
    {t : Parse.Tree} {b : Built} {rx : RRegex} (s : Source isAlnum parse options sem t b rx) :
    Corr sem rx b ∧ optionsOf rx = options := by
  have hp' := s.parseStr
  have h := C09_new_options_translated_eq parse options t s.hparse
    (Parse.parse_analyzable isAlnum _ _ t hp') (Parse.parse_hiOK isAlnum _ _ t hp')
    (Parse.parse_codeBound_fits isAlnum _ _ t hp' s.hsize)
  rw [s.hb] at h
  have hrx := s.hrx
  rw [h] at hrx
  simp only [regexOf] at hrx
  cases hk : b.kind with
  | fancy prog =>
    rw [hk] at hrx
    simp only [LRes.ok.injEq] at hrx
    subst hrx
    exact ⟨by simp [Corr, hk], rfl⟩
  | wrap =>
    rw [hk] at hrx
    cases hs : GenToStr.genToStr t.expr [] 0 with
    | none => rw [hs] at hrx; cases hrx
    | some cooked =>
      rw [hs] at hrx
      simp only [LRes.ok.injEq] at hrx
      subst hrx
      exact ⟨by simp [Corr, hk, s.hra hk cooked hs], rfl⟩

/-! ## C08: `find_iter` -/

/-- **C08, from the source text to the reference search, stage S5.** The pattern string is parsed by the translated
    parser and built by the translated `new_options` into `rx`; its parse lies in stage S5. Then the TRANSLATED
    `find_iter` (the translated `Matches::next` drained from the translated constructor) over the TRANSLATED
    `find_from_pos_with_option_flags` of `rx` yields exactly the property's iteration of the REFERENCE search, every
    item `Ok`, or a prefix of it followed by exactly one resource stop. -/
theorem C08_source_to_reference_s5 {isAlnum : Char → Bool} {parse : List Char → Bool → LRes Parse.Tree} {options : ROptions}
    {sem : RaSem} {t : Parse.Tree} {b : Built} {rx : RRegex} (s : Source isAlnum parse options sem t b rx)
    (prog : Prog) (hk : b.kind = .fancy prog) (hst : s5Pattern t b = true)
    (chars : List Char) (hlen : chars.length < UNSET) (fuel : Nat) (text : Bytes) (htext : text.length = byteLen chars) :
    iterItems (genMatchesNext (genFindOracle sem fuel rx chars) text) text (text.length + 3) genFindIter =
        (ApiSpec.iter (refSpanOracle b chars) text).map .ok ∨
    ∃ ms e, iterItems (genMatchesNext (genFindOracle sem fuel rx chars) text) text (text.length + 3) genFindIter =
          ms.map .ok ++ [.error e] ∧
        ms <+: ApiSpec.iter (refSpanOracle b chars) text ∧
        (e = .limit ∨ e = .stack ∨ e = .outOfFuel) := by
  have hE := engineOK_s5 isAlnum _ _ t b prog s.parseStr s.hb hk hst chars hlen
  have hns := build_noSelfNest _ _ b s.hb
  have hg := build_nGroups_pos _ _ b s.hb
  rw [C08_find_iter_translated_eq, genFindOracle_eq sem fuel rx b s.corr.1 chars hE hns hg]
  exact C08_find_iter_is_reference b chars _ fuel hE hns hg text htext

/-- **the wrapped path**: exactly the reference iteration, no error item -/
theorem C08_source_to_reference_wrap {isAlnum : Char → Bool} {parse : List Char → Bool → LRes Parse.Tree} {options : ROptions}
    {sem : RaSem} {t : Parse.Tree} {b : Built} {rx : RRegex} (s : Source isAlnum parse options sem t b rx)
    (hk : b.kind = .wrap) (chars : List Char) (fuel : Nat) (text : Bytes) (htext : text.length = byteLen chars) :
    iterItems (genMatchesNext (genFindOracle sem fuel rx chars) text) text (text.length + 3) genFindIter =
      (ApiSpec.iter (refSpanOracle b chars) text).map .ok := by
  have hE := engineOK_wrap b chars hk
  have hns := build_noSelfNest _ _ b s.hb
  have hg := build_nGroups_pos _ _ b s.hb
  rw [C08_find_iter_translated_eq, genFindOracle_eq sem fuel rx b s.corr.1 chars hE hns hg]
  exact C08_find_iter_is_reference_wrap _ _ b s.hb hk chars _ fuel text htext

/-! ## C09: `captures_iter` -/

/-- **C09**: the translated `captures_iter` over the translated `captures` entry point yields values whose overall
    spans are exactly the items of the translated `find_iter` over the translated `find` entry point (errors included) -/
theorem C09_source_to_reference (sem : RaSem) (fuel : Nat) (rx : RRegex) (b : Built) (h : Corr sem rx b)
    (chars : List Char) (hE : EngineOK b chars) (hns : noSelfNest b.raw = true) (hg : 1 ≤ b.nGroups) (text : Bytes) :
    iterItems (genMatchesNext (genFindOracle sem fuel rx chars) text) text (text.length + 3) genFindIter =
      (iterItems (genCaptureMatchesNext (genCapsOracle sem fuel rx chars) spanOfSlots text) text (text.length + 3)
        genCapturesIter).map (mapItem spanOfSlots) := by
  rw [C08_find_iter_translated_eq, C09_captures_iter_translated_eq, genFindOracle_eq sem fuel rx b h chars hE hns hg,
    genCapsOracle_eq sem fuel rx b h chars, spanOracle_eq_spans]
  exact C09_iters_equal _ _ _

/-- … in particular for a stage-S5 pattern from the source -/
theorem C09_source_to_reference_s5 {isAlnum : Char → Bool} {parse : List Char → Bool → LRes Parse.Tree} {options : ROptions}
    {sem : RaSem} {t : Parse.Tree} {b : Built} {rx : RRegex} (s : Source isAlnum parse options sem t b rx)
    (prog : Prog) (hk : b.kind = .fancy prog) (hst : s5Pattern t b = true)
    (chars : List Char) (hlen : chars.length < UNSET) (fuel : Nat) (text : Bytes) :
    iterItems (genMatchesNext (genFindOracle sem fuel rx chars) text) text (text.length + 3) genFindIter =
      (iterItems (genCaptureMatchesNext (genCapsOracle sem fuel rx chars) spanOfSlots text) text (text.length + 3)
        genCapturesIter).map (mapItem spanOfSlots) :=
  C09_source_to_reference sem fuel rx b s.corr.1 chars
    (engineOK_s5 isAlnum _ _ t b prog s.parseStr s.hb hk hst chars hlen)
    (build_noSelfNest _ _ b s.hb) (build_nGroups_pos _ _ b s.hb) text

/-! ## C10: `split` -/

/-- **C10, stage S5**: when the translated `find_iter` yields no `Err` item, the translated `split` yields exactly the
    substrings between consecutive matches of the reference iteration and then the rest of the text -/
theorem C10_source_to_reference_s5 {isAlnum : Char → Bool} {parse : List Char → Bool → LRes Parse.Tree} {options : ROptions}
    {sem : RaSem} {t : Parse.Tree} {b : Built} {rx : RRegex} (s : Source isAlnum parse options sem t b rx)
    (prog : Prog) (hk : b.kind = .fancy prog) (hst : s5Pattern t b = true)
    (chars : List Char) (hlen : chars.length < UNSET) (fuel : Nat) (text : Bytes) (htext : text.length = byteLen chars)
    (hnoerr : ∀ e, .error e ∉
      iterItems (genMatchesNext (genFindOracle sem fuel rx chars) text) text (text.length + 3) genFindIter) :
    drain (genSplitNext (genFindOracle sem fuel rx chars) text) (text.length + 4) genSplit =
        (ApiSpec.pieces text.length (ApiSpec.iter (refSpanOracle b chars) text)).map (fun p => Item.piece p.1 p.2) ∧
      (drain (genSplitNext (genFindOracle sem fuel rx chars) text) (text.length + 4) genSplit).length =
        (ApiSpec.iter (refSpanOracle b chars) text).length + 1 := by
  have hE := engineOK_s5 isAlnum _ _ t b prog s.parseStr s.hb hk hst chars hlen
  have hns := build_noSelfNest _ _ b s.hb
  have hg := build_nGroups_pos _ _ b s.hb
  rw [C08_find_iter_translated_eq, genFindOracle_eq sem fuel rx b s.corr.1 chars hE hns hg] at hnoerr
  rw [C10_split_translated_eq, genFindOracle_eq sem fuel rx b s.corr.1 chars hE hns hg]
  exact C10_split_is_reference b chars _ fuel hE hns hg text htext hnoerr

/-- **C10, the wrapped path**: unconditionally -/
theorem C10_source_to_reference_wrap {isAlnum : Char → Bool} {parse : List Char → Bool → LRes Parse.Tree} {options : ROptions}
    {sem : RaSem} {t : Parse.Tree} {b : Built} {rx : RRegex} (s : Source isAlnum parse options sem t b rx)
    (hk : b.kind = .wrap) (chars : List Char) (fuel : Nat) (text : Bytes) (htext : text.length = byteLen chars) :
    drain (genSplitNext (genFindOracle sem fuel rx chars) text) (text.length + 4) genSplit =
        (ApiSpec.pieces text.length (ApiSpec.iter (refSpanOracle b chars) text)).map (fun p => Item.piece p.1 p.2) ∧
      (drain (genSplitNext (genFindOracle sem fuel rx chars) text) (text.length + 4) genSplit).length =
        (ApiSpec.iter (refSpanOracle b chars) text).length + 1 := by
  have hE := engineOK_wrap b chars hk
  have hns := build_noSelfNest _ _ b s.hb
  have hg := build_nGroups_pos _ _ b s.hb
  rw [C10_split_translated_eq, genFindOracle_eq sem fuel rx b s.corr.1 chars hE hns hg]
  refine C10_split_is_reference b chars _ fuel hE hns hg text htext (fun e he => ?_)
  rw [C08_find_iter_is_reference_wrap _ _ b s.hb hk chars _ fuel text htext] at he
  simp at he

/-! ## C11: `try_replacen` -/

/-- the replacement `try_replacen` uses: the constant text on the `no_expansion()` path, `replace_append` otherwise -/
def repOf {α : Type} (ne : Option Bytes) (ra : α → Bytes) : α → Bytes :=
  match ne with
  | some rep => fun _ => rep
  | none => ra

/-- **C11, down to the model**: the translated `try_replacen` over the two translated entry points of `rx`, on either
    path, is the model's `replacen` over `captures_iter` of the model engine -/
theorem C11_source_to_model (sem : RaSem) (fuel : Nat) (rx : RRegex) (b : Built) (h : Corr sem rx b)
    (chars : List Char) (hE : EngineOK b chars) (hns : noSelfNest b.raw = true) (hg : 1 ≤ b.nGroups) (text : Bytes)
    (n : Nat) (ne : Option Bytes) (ra : List (Option Nat) → Bytes) :
    genTryReplacen (genFindOracle sem fuel rx chars) (genCapsOracle sem fuel rx chars) spanOfSlots text n ne ra =
      replacen (capturesIter (modelOracleF b chars (offsets chars) (optionsOf rx).backtrackLimit fuel) spanOfSlots text)
        spanOfSlots (repOf ne ra) text n := by
  rw [C11_replacen_translated_eq, genFindOracle_eq sem fuel rx b h chars hE hns hg,
    genCapsOracle_eq sem fuel rx b h chars]
  cases ne with
  | none => rfl
  | some rep =>
    simp only [repOf]
    rw [spanOracle_eq_spans]
    exact C11_paths_agree _ _ _ _ _

/-- **C11, from the source text to the reference search, stage S5**: the result of the translated `try_replacen` (both
    paths) on the UTF-8 bytes of `chars`, in terms of the reference iteration: `Borrowed` iff the reference search finds
    nothing; otherwise the text rewritten at the first `n` (all, for `n = 0`) reference matches; or, after a resource
    stop, the rewrite of the matches before it when the limit cuts the loop first, the error otherwise. Never a panic. -/
theorem C11_source_to_reference_s5 {isAlnum : Char → Bool} {parse : List Char → Bool → LRes Parse.Tree} {options : ROptions}
    {sem : RaSem} {t : Parse.Tree} {b : Built} {rx : RRegex} (s : Source isAlnum parse options sem t b rx)
    (prog : Prog) (hk : b.kind = .fancy prog) (hst : s5Pattern t b = true)
    (chars : List Char) (hlen : chars.length < UNSET) (fuel : Nat)
    (n : Nat) (ne : Option Bytes) (ra : List (Option Nat) → Bytes) :
    ∃ as : List (List (Option Nat)),
      (∀ a ∈ as, ∃ p fl, refCapsOracle b chars p fl = some a) ∧
      WFMatches (utf8Of chars) (as.map spanOfSlots) 0 ∧
      ((as.map spanOfSlots = ApiSpec.iter (refSpanOracle b chars) (utf8Of chars) ∧
        (genTryReplacen (genFindOracle sem fuel rx chars) (genCapsOracle sem fuel rx chars) spanOfSlots (utf8Of chars)
            n ne ra = .borrowed ↔ ApiSpec.iter (refSpanOracle b chars) (utf8Of chars) = []) ∧
        (ApiSpec.iter (refSpanOracle b chars) (utf8Of chars) ≠ [] →
          genTryReplacen (genFindOracle sem fuel rx chars) (genCapsOracle sem fuel rx chars) spanOfSlots (utf8Of chars)
            n ne ra =
          .owned (rewrite (utf8Of chars) ((chosen n 0 as).map fun a => (spanOfSlots a, repOf ne ra a)) 0))) ∨
       (∃ e, as.map spanOfSlots <+: ApiSpec.iter (refSpanOracle b chars) (utf8Of chars) ∧
          (e = .limit ∨ e = .stack ∨ e = .outOfFuel) ∧
          genTryReplacen (genFindOracle sem fuel rx chars) (genCapsOracle sem fuel rx chars) spanOfSlots (utf8Of chars)
            n ne ra =
          if 0 < n ∧ n < as.length then
            .owned (rewrite (utf8Of chars) ((as.take n).map fun a => (spanOfSlots a, repOf ne ra a)) 0)
          else .err e)) := by
  have hE := engineOK_s5 isAlnum _ _ t b prog s.parseStr s.hb hk hst chars hlen
  have hns := build_noSelfNest _ _ b s.hb
  have hg := build_nGroups_pos _ _ b s.hb
  rw [C11_source_to_model sem fuel rx b s.corr.1 chars hE hns hg]
  obtain ⟨as, h1, h2, h3⟩ := C11_replacen_is_reference b chars (optionsOf rx).backtrackLimit fuel hE hns hg (repOf ne ra) n
  refine ⟨as, h1, h2, ?_⟩
  rcases h3 with ⟨_, ha, hb', hc⟩ | ⟨e, _, ha, hb', hc⟩
  · exact Or.inl ⟨ha, hb', hc⟩
  · exact Or.inr ⟨e, ha, hb', hc⟩

/-! ## Non-vacuity -/

/-- the translated parser as the parser parameter of the translated `new_options` (only its successes matter here) -/
def srcParse (isAlnum : Char → Bool) : List Char → Bool → LRes Parse.Tree := fun cs casei =>
  match GenParse.parse_with_case_insensitive isAlnum (Parse.bytesOf cs) casei with
  | .ok t => .ok t
  | _ => .panic "parse error"

/-- `Source` holds whenever the translated parser and `build` succeed on the VM path: the translated `new_options`
    then returns the regex with the compiled program -/
theorem source_of_build_vm (isAlnum : Char → Bool) (options : ROptions) (sem : RaSem) (t : Parse.Tree) (b : Built)
    (prog : Prog)
    (hp : GenParse.parse_with_case_insensitive isAlnum (Parse.bytesOf options.pattern) options.syntaxc = .ok t)
    (hsize : (Parse.bytesOf options.pattern).size < 2 ^ 58)
    (hb : build t.expr t.backrefs = .ok b) (hk : b.kind = .fancy prog) :
    Source isAlnum (srcParse isAlnum) options sem t b ⟨.fancy prog b.nGroups options, t.namedGroups⟩ := by
  have hparse : srcParse isAlnum options.pattern options.syntaxc = .ok t := by simp [srcParse, hp]
  refine ⟨hp, hparse, hsize, ?_, hb, fun hw => by rw [hk] at hw; cases hw⟩
  have hp' : Parse.parseStr isAlnum options.pattern options.syntaxc = .ok t := by
    rw [← GenParse.Descent.C06_parse_translated_str]; exact hp
  have h := C09_new_options_translated_eq (srcParse isAlnum) options t hparse
    (Parse.parse_analyzable isAlnum _ _ t hp') (Parse.parse_hiOK isAlnum _ _ t hp')
    (Parse.parse_codeBound_fits isAlnum _ _ t hp' hsize)
  rw [hb] at h
  rw [h]
  simp [regexOf, hk]

/-- the pattern string `a(?=b)` (VM path, stage S3 ⊆ S5), every backtrack limit, text and fuel: all hypotheses of
    `C08_source_to_reference_s5` hold -/
example (limit : Nat) (sem : RaSem) (chars : List Char) (hlen : chars.length < UNSET) (fuel : Nat) (text : Bytes)
    (htext : text.length = byteLen chars) :
    ∃ b rx, genNewOptions (srcParse (fun c => c.isAlphanum)) ⟨"a(?=b)".toList, false, limit, none, none⟩ = .ok rx ∧
      (iterItems (genMatchesNext (genFindOracle sem fuel rx chars) text) text (text.length + 3) genFindIter =
          (ApiSpec.iter (refSpanOracle b chars) text).map .ok ∨
       ∃ ms e, iterItems (genMatchesNext (genFindOracle sem fuel rx chars) text) text (text.length + 3) genFindIter =
            ms.map .ok ++ [.error e] ∧
          ms <+: ApiSpec.iter (refSpanOracle b chars) text ∧
          (e = .limit ∨ e = .stack ∨ e = .outOfFuel)) := by
  obtain ⟨b, prog, hb, hk, hst, _, _⟩ := exLook_built
  have hp : GenParse.parse_with_case_insensitive (fun c => c.isAlphanum) (Parse.bytesOf "a(?=b)".toList) false =
      .ok ⟨exLook, [], []⟩ := by
    rw [GenParse.Descent.C06_parse_translated_str]; exact exLook_parse
  have src := source_of_build_vm (fun c => c.isAlphanum) ⟨"a(?=b)".toList, false, limit, none, none⟩ sem
    ⟨exLook, [], []⟩ b prog hp (show (Parse.bytesOf "a(?=b)".toList).size < 2 ^ 58 by decide) hb hk
  have hst5 : s5Pattern ⟨exLook, [], []⟩ b = true := by
    simp only [s3Pattern, Bool.and_eq_true] at hst
    have h4 := s4ok_of_s3ok _ _ hst.1
    simp only [s5Pattern, s4Pattern, h4, hst.2, Bool.and_self, Bool.true_or]
  exact ⟨b, _, src.hrx, C08_source_to_reference_s5 src prog hk hst5 chars hlen fuel text htext⟩

/-! ## `splitn`, collected (model level, every well-formed oracle) -/

namespace Api
open Fancy.Utf8

/-- the pieces `splitn (k + 1)` yields for a drained `find_iter` sequence, starting from `ns`: as `toPieces` for `k`
    items, then the untouched remainder -/
def toPiecesN (len : Nat) : Nat → List (Except SearchErr (Nat × Nat)) → Nat → List Item
  | 0, _, ns => if ns > len then [] else [.piece ns len]
  | _ + 1, [], ns => if ns > len then [] else [.piece ns len]
  | k + 1, .ok (s, e) :: rest, ns => .piece ns s :: toPiecesN len k rest e
  | k + 1, .error e :: rest, ns => .err e :: toPiecesN len k rest ns

theorem splitN_done_collect (f : Oracle (Nat × Nat)) (text : Bytes) (n : Nat) (sp : Split) :
    SplitN.collect f text n ⟨sp, 0⟩ = [] := by
  cases n with
  | zero => rfl
  | succ n => simp [SplitN.collect, C10_splitn_done]

theorem splitN_after_end (f : Oracle (Nat × Nat)) (text : Bytes) (it' : Iter)
    (hf : ∀ fuel', (Iter.next f id text (fuel' + 1) it').1 = none) (n k : Nat) :
    SplitN.collect f text n ⟨⟨it', text.length + 1⟩, k⟩ = [] := by
  cases n with
  | zero => rfl
  | succ n =>
    unfold SplitN.collect
    match k with
    | 0 => simp [C10_splitn_done]
    | 1 => rw [C10_splitn_last]; simp
    | k + 2 =>
      rw [C10_splitn_step, C10_step]
      have := hf (text.length + 1)
      generalize Iter.next f id text (text.length + 2) it' = r at this
      obtain ⟨i, it2, o⟩ := r
      simp only at this; subst this
      simp

theorem splitN_tail (f : Oracle (Nat × Nat)) (text : Bytes) (it' it2 : Iter) (ns : Nat)
    (hn2 : Iter.next f id text (text.length + 2) it' = (none, it2, false)) (hns : ns ≤ text.length) (n k : Nat) :
    SplitN.collect f text (n + 1) ⟨⟨it', ns⟩, k + 1⟩ = [.piece ns text.length] := by
  unfold SplitN.collect
  cases k with
  | zero =>
    rw [C10_splitn_last]
    simp [Nat.not_lt.mpr hns, splitN_done_collect]
  | succ k =>
    rw [C10_splitn_step, C10_step, hn2]
    simp only [Nat.not_lt.mpr hns, ↓reduceIte]
    rw [splitN_after_end f text it2 (fun fuel' => C08_fused f id text _ fuel' it' it2 hn2) n (k + 1)]

theorem splitN_collect_eq (f : Oracle (Nat × Nat)) (text : Bytes) (hwf : WFOracle f id text.length)
    (n : Nat) (it : Iter) (hj : it.J) (ns : Nat) (hns : ns ≤ text.length)
    (hshort : (Iter.collect f id text n it).length < n) (k : Nat) :
    SplitN.collect f text (n + 1) ⟨⟨it, ns⟩, k + 1⟩ = toPiecesN text.length k (Iter.collect f id text n it) ns := by
  induction n generalizing it ns k with
  | zero => simp at hshort
  | succ n ih =>
    cases k with
    | zero =>
      unfold SplitN.collect
      rw [C10_splitn_last]
      simp [Nat.not_lt.mpr hns, toPiecesN, splitN_done_collect]
    | succ k =>
      unfold SplitN.collect
      rw [C10_splitn_step, C10_step]
      unfold Iter.collect at hshort ⊢
      have hoof := C08_terminates f id text hwf it
      generalize hn : Iter.next f id text (text.length + 2) it = r at hshort hoof ⊢
      obtain ⟨item, it', oof⟩ := r
      simp only at hoof; subst hoof
      cases item with
      | none =>
        simp only [Nat.not_lt.mpr hns, ↓reduceIte, toPiecesN]
        rw [splitN_after_end f text it' (fun fuel' => C08_fused f id text _ fuel' it it' hn) (n + 1) (k + 1)]
      | some item =>
        cases item with
        | ok p =>
          obtain ⟨s, e⟩ := p
          obtain ⟨_, _, r3, _, _, _, _, r8⟩ := next_ok_spec f id text hwf _ it it' (s, e) false hj hn
          simp only [toPiecesN]
          congr 1
          exact ih it' r8 e r3 (by simpa using hshort) k
        | error e =>
          simp only [toPiecesN]
          congr 1
          have hl := next_err_spec f id text _ it it' e false hn
          cases n with
          | zero => simp at hshort
          | succ n =>
            have hnone : (Iter.next f id text (text.length + 2) it').1 = none :=
              next_exhausted f id text _ it' (by omega)
            have hoof2 := C08_terminates f id text hwf it'
            unfold Iter.collect
            generalize hn2 : Iter.next f id text (text.length + 2) it' = r2 at hnone hoof2
            obtain ⟨i2, it2, o2⟩ := r2
            simp only at hnone hoof2; subst hnone; subst hoof2
            simp only
            rw [splitN_tail f text it' it2 ns hn2 hns (n + 1) k]
            cases k <;> simp [toPiecesN, Nat.not_lt.mpr hns]

/-- **`splitn (k + 1)` in terms of `find_iter`** (errors included): `k` items as `split`, then the untouched remainder -/
theorem C10_splitn_pieces (f : Oracle (Nat × Nat)) (text : Bytes) (hwf : WFOracle f id text.length) (k : Nat) :
    splitn f text (k + 1) = toPiecesN text.length k (findIter f text) 0 := by
  unfold splitn findIter
  exact splitN_collect_eq f text hwf (text.length + 3) Iter.start Iter.J_start 0 (Nat.zero_le _)
    (by have := C08_length_bound f text hwf; unfold findIter at this; omega) k

theorem toPiecesN_ok (len : Nat) (ms : List (Nat × Nat)) (ns k : Nat) (hns : ns ≤ len) (hms : ∀ m ∈ ms, m.2 ≤ len) :
    toPiecesN len k (ms.map .ok) ns =
      (if (ApiSpec.piecesFrom len ms ns).length ≤ k then ApiSpec.piecesFrom len ms ns
        else (ApiSpec.piecesFrom len ms ns).take k ++ [(((ApiSpec.piecesFrom len ms ns).getD k (0, 0)).1, len)]).map
        fun p => Item.piece p.1 p.2 := by
  induction ms generalizing ns k with
  | nil => cases k <;> simp [toPiecesN, ApiSpec.piecesFrom, Nat.not_lt.mpr hns]
  | cons m ms ih =>
    obtain ⟨s, e⟩ := m
    cases k with
    | zero => simp [toPiecesN, ApiSpec.piecesFrom, Nat.not_lt.mpr hns]
    | succ k =>
      simp only [List.map_cons, toPiecesN, ApiSpec.piecesFrom]
      rw [ih e k (hms (s, e) (by simp)) (fun m hm => hms m (by simp [hm]))]
      by_cases hle : (ApiSpec.piecesFrom len ms e).length ≤ k
      · simp [hle]
      · simp [hle]

/-- **the statement of `splitn`, for an error-free run**: if `find_iter` yields the matches `ms`, `splitn n` yields
    the property's `piecesN`: nothing for `n = 0`, the first `n - 1` pieces of `split` and then the untouched remainder -/
theorem C10_splitn_spec (f : Oracle (Nat × Nat)) (text : Bytes) (hwf : WFOracle f id text.length)
    (ms : List (Nat × Nat)) (hms : findIter f text = ms.map .ok) (n : Nat) :
    splitn f text n = (ApiSpec.piecesN text.length ms n).map (fun p => Item.piece p.1 p.2) := by
  cases n with
  | zero => simp [C10_splitn_zero, ApiSpec.piecesN]
  | succ k =>
    have hord := C08_find_iter_ordered f text hwf
    have hends : ∀ m ∈ ms, m.2 ≤ text.length := by
      rw [hms] at hord
      clear hms
      generalize (0 : Nat) = lo at hord
      generalize (none : Option Nat) = lm at hord
      induction ms generalizing lo lm with
      | nil => intro m hm; simp at hm
      | cons x xs ih =>
        intro m hm
        simp only [List.map_cons, Ordered, id] at hord
        rcases List.mem_cons.mp hm with rfl | hm
        · exact hord.2.2.1
        · exact ih _ _ hord.2.2.2.2 m hm
    rw [C10_splitn_pieces f text hwf, hms, toPiecesN_ok _ _ _ _ (Nat.zero_le _) hends]
    rfl

example : toPiecesN 3 1 (findIter demoOracle [97, 97, 98]) 0 = splitn demoOracle [97, 97, 98] 2 := by rfl
example : splitn demoOracle [97, 97, 98] 2 = [.piece 0 0, .piece 2 3] := by rfl

end Api

/-! ## C10 completed: `split` with errors, `splitn` -/

/-- **the translated `split`, errors or not**: the pieces induced by the items of the translated `find_iter` -/
theorem C10_source_split_pieces (sem : RaSem) (fuel : Nat) (rx : RRegex) (b : Built) (h : Corr sem rx b)
    (chars : List Char) (hE : EngineOK b chars) (hns : noSelfNest b.raw = true) (hg : 1 ≤ b.nGroups) (text : Bytes)
    (htext : text.length = byteLen chars) :
    drain (genSplitNext (genFindOracle sem fuel rx chars) text) (text.length + 4) genSplit =
      toPieces text.length
        (iterItems (genMatchesNext (genFindOracle sem fuel rx chars) text) text (text.length + 3) genFindIter) 0 := by
  rw [C10_split_translated_eq, C08_find_iter_translated_eq, genFindOracle_eq sem fuel rx b h chars hE hns hg]
  exact C10_split_pieces_engine b chars _ fuel hE hns hg text htext

/-- **the translated `splitn`, errors or not**: nothing for `n = 0`; for `n = k + 1`, `k` items as `split`, then the
    untouched remainder -/
theorem C10_source_splitn_pieces (sem : RaSem) (fuel : Nat) (rx : RRegex) (b : Built) (h : Corr sem rx b)
    (chars : List Char) (hE : EngineOK b chars) (hns : noSelfNest b.raw = true) (hg : 1 ≤ b.nGroups) (text : Bytes)
    (htext : text.length = byteLen chars) :
    drain (genSplitNNext (genFindOracle sem fuel rx chars) text) (text.length + 4) (genSplitn 0) = [] ∧
    ∀ k, drain (genSplitNNext (genFindOracle sem fuel rx chars) text) (text.length + 4) (genSplitn (k + 1)) =
      toPiecesN text.length k
        (iterItems (genMatchesNext (genFindOracle sem fuel rx chars) text) text (text.length + 3) genFindIter) 0 := by
  have hwf := C08_engine_wf b chars (optionsOf rx).backtrackLimit fuel hE hns hg
  rw [← htext] at hwf
  refine ⟨by rw [C10_splitn_translated_eq]; exact C10_splitn_zero _ _, fun k => ?_⟩
  rw [C10_splitn_translated_eq, C08_find_iter_translated_eq, genFindOracle_eq sem fuel rx b h chars hE hns hg]
  exact C10_splitn_pieces _ text hwf k

/-- **C10 `splitn`, stage S5**: when the translated `find_iter` yields no `Err` item, the translated `splitn n` yields the
    property's pieces of the REFERENCE iteration: nothing for `n = 0`, otherwise the first `n - 1` pieces of the reference
    split and then the untouched remainder of the text -/
theorem C10_source_splitn_s5 {isAlnum : Char → Bool} {parse : List Char → Bool → LRes Parse.Tree} {options : ROptions}
    {sem : RaSem} {t : Parse.Tree} {b : Built} {rx : RRegex} (s : Source isAlnum parse options sem t b rx)
    (prog : Prog) (hk : b.kind = .fancy prog) (hst : s5Pattern t b = true)
    (chars : List Char) (hlen : chars.length < UNSET) (fuel : Nat) (text : Bytes) (htext : text.length = byteLen chars)
    (hnoerr : ∀ e, .error e ∉
      iterItems (genMatchesNext (genFindOracle sem fuel rx chars) text) text (text.length + 3) genFindIter) (n : Nat) :
    drain (genSplitNNext (genFindOracle sem fuel rx chars) text) (text.length + 4) (genSplitn n) =
      (ApiSpec.piecesN text.length (ApiSpec.iter (refSpanOracle b chars) text) n).map (fun p => Item.piece p.1 p.2) := by
  have hE := engineOK_s5 isAlnum _ _ t b prog s.parseStr s.hb hk hst chars hlen
  have hns := build_noSelfNest _ _ b s.hb
  have hg := build_nGroups_pos _ _ b s.hb
  have hwf := C08_engine_wf b chars (optionsOf rx).backtrackLimit fuel hE hns hg
  rw [← htext] at hwf
  rw [C08_find_iter_translated_eq, genFindOracle_eq sem fuel rx b s.corr.1 chars hE hns hg] at hnoerr
  rw [C10_splitn_translated_eq, genFindOracle_eq sem fuel rx b s.corr.1 chars hE hns hg]
  rcases C08_find_iter_is_reference b chars _ fuel hE hns hg text htext with hfi | ⟨ms, e, hfi, _⟩
  · exact C10_splitn_spec _ text hwf _ hfi n
  · exact absurd (by rw [hfi]; simp) (hnoerr e)

/-- **C10 `splitn`, the wrapped path**: unconditionally -/
theorem C10_source_splitn_wrap {isAlnum : Char → Bool} {parse : List Char → Bool → LRes Parse.Tree} {options : ROptions}
    {sem : RaSem} {t : Parse.Tree} {b : Built} {rx : RRegex} (s : Source isAlnum parse options sem t b rx)
    (hk : b.kind = .wrap) (chars : List Char) (fuel : Nat) (text : Bytes) (htext : text.length = byteLen chars) (n : Nat) :
    drain (genSplitNNext (genFindOracle sem fuel rx chars) text) (text.length + 4) (genSplitn n) =
      (ApiSpec.piecesN text.length (ApiSpec.iter (refSpanOracle b chars) text) n).map (fun p => Item.piece p.1 p.2) := by
  have hE := engineOK_wrap b chars hk
  have hns := build_noSelfNest _ _ b s.hb
  have hg := build_nGroups_pos _ _ b s.hb
  have hwf := C08_engine_wf b chars (optionsOf rx).backtrackLimit fuel hE hns hg
  rw [← htext] at hwf
  rw [C10_splitn_translated_eq, genFindOracle_eq sem fuel rx b s.corr.1 chars hE hns hg]
  exact C10_splitn_spec _ text hwf _ (C08_find_iter_is_reference_wrap _ _ b s.hb hk chars _ fuel text htext) n

/-! ## C02: every capture group of every item; C16: `captures_len` -/

/-- **C02, from the source text to the reference search, stage S5**: the translated `captures_iter` over the translated
    `captures` entry point yields values `as` each of which is — group for group, all `2 * n_groups` slots, in byte
    offsets — the reference search's answer at some search position; their overall spans are the reference iteration
    (or a prefix of it, followed by one resource stop) -/
theorem C02_source_to_reference_s5 {isAlnum : Char → Bool} {parse : List Char → Bool → LRes Parse.Tree} {options : ROptions}
    {sem : RaSem} {t : Parse.Tree} {b : Built} {rx : RRegex} (s : Source isAlnum parse options sem t b rx)
    (prog : Prog) (hk : b.kind = .fancy prog) (hst : s5Pattern t b = true)
    (chars : List Char) (hlen : chars.length < UNSET) (fuel : Nat) (text : Bytes) (htext : text.length = byteLen chars) :
    ∃ as : List (List (Option Nat)),
      (∀ a ∈ as, ∃ p fl, refCapsOracle b chars p fl = some a) ∧
      ((iterItems (genCaptureMatchesNext (genCapsOracle sem fuel rx chars) spanOfSlots text) text (text.length + 3)
            genCapturesIter = as.map .ok ∧
          as.map spanOfSlots = ApiSpec.iter (refSpanOracle b chars) text) ∨
       (∃ e, iterItems (genCaptureMatchesNext (genCapsOracle sem fuel rx chars) spanOfSlots text) text (text.length + 3)
            genCapturesIter = as.map .ok ++ [.error e] ∧
          as.map spanOfSlots <+: ApiSpec.iter (refSpanOracle b chars) text ∧
          (e = .limit ∨ e = .stack ∨ e = .outOfFuel))) := by
  have hE := engineOK_s5 isAlnum _ _ t b prog s.parseStr s.hb hk hst chars hlen
  rw [C09_captures_iter_translated_eq, genCapsOracle_eq sem fuel rx b s.corr.1 chars]
  exact C09_captures_iter_is_reference b chars _ fuel hE (build_noSelfNest _ _ b s.hb) (build_nGroups_pos _ _ b s.hb)
    text htext

/-- the same on the wrapped path: all items, no error -/
theorem C02_source_to_reference_wrap {isAlnum : Char → Bool} {parse : List Char → Bool → LRes Parse.Tree}
    {options : ROptions} {sem : RaSem} {t : Parse.Tree} {b : Built} {rx : RRegex}
    (s : Source isAlnum parse options sem t b rx) (hk : b.kind = .wrap)
    (chars : List Char) (fuel : Nat) (text : Bytes) (htext : text.length = byteLen chars) :
    ∃ as : List (List (Option Nat)),
      (∀ a ∈ as, ∃ p fl, refCapsOracle b chars p fl = some a) ∧
      iterItems (genCaptureMatchesNext (genCapsOracle sem fuel rx chars) spanOfSlots text) text (text.length + 3)
            genCapturesIter = as.map .ok ∧
      as.map spanOfSlots = ApiSpec.iter (refSpanOracle b chars) text := by
  have hE := engineOK_wrap b chars hk
  have hns := build_noSelfNest _ _ b s.hb
  have hg := build_nGroups_pos _ _ b s.hb
  rw [C09_captures_iter_translated_eq, genCapsOracle_eq sem fuel rx b s.corr.1 chars]
  obtain ⟨as, h1, h2 | ⟨e, h2, _, _⟩⟩ := C09_captures_iter_is_reference b chars (optionsOf rx).backtrackLimit fuel hE hns hg
    text htext
  · exact ⟨as, h1, h2.1, h2.2⟩
  · exfalso
    have h3 := C09_iters_equal (modelOracleF b chars (offsets chars) (optionsOf rx).backtrackLimit fuel) spanOfSlots text
    rw [← spanOracle_eq_spans, C08_find_iter_is_reference_wrap _ _ b s.hb hk chars _ fuel text htext, h2] at h3
    have : (Except.error e : Except SearchErr (Nat × Nat)) ∈
        List.map (Except.ok) (ApiSpec.iter (refSpanOracle b chars) text) := by
      rw [h3]; simp [mapItem]
    simp at this

/-- **C16, from the source**: the translated `captures_len` of the built regex is `1 + ` the number of groups of the
    parsed pattern, and every `Captures` value the translated `captures` entry point returns (in a context of the
    oracle: a character index inside the text) has exactly that `len()` -/
theorem C16_source_captures_len {isAlnum : Char → Bool} {parse : List Char → Bool → LRes Parse.Tree} {options : ROptions}
    {sem : RaSem} {t : Parse.Tree} {b : Built} {rx : RRegex} (s : Source isAlnum parse options sem t b rx)
    (chars : List Char) (hE : EngineOK b chars) (fuel : Nat) :
    genCapturesLen sem rx = 1 + groupCount t.expr ∧
    ∀ cpos flag cp, cpos ≤ chars.length →
      genCapturesFromPosWithOptionFlags sem fuel rx (mkCtx chars 0 flag) cpos (flagsOf flag) = .ok (some cp) →
      genCapturesLenOf cp = genCapturesLen sem rx := by
  have hcorr := s.corr.1
  have hlenb := C16_len _ _ b s.hb
  have h1 : genCapturesLen sem rx = b.nGroups := C16_captures_len_translated_eq sem rx b hcorr
  refine ⟨by rw [h1, hlenb], fun cpos flag cp hc hcp => ?_⟩
  rw [h1, C16_captures_len_of_translated_eq]
  rw [C09_captures_translated_eq sem fuel rx b hcorr, ctxOf_mkCtx] at hcp
  have hv := hE cpos flag hc (optionsOf rx).backtrackLimit fuel
  cases hcap : (b.captures (mkCtx chars cpos flag) (optionsOf rx).backtrackLimit fuel).1 with
  | found slots =>
    rw [hcap] at hcp hv
    simp only [expectCaptures, LRes.ok.injEq, Option.some.injEq] at hcp
    subst hcp
    have hsl : slots.length = 2 * b.nGroups := by
      rcases hv with hv | hv | hv | hv
      · cases hv
      · cases hv
      · cases hv
      · cases href : refSearch (mkCtx chars cpos flag) b.raw b.nGroups with
        | none => rw [href] at hv; cases hv
        | some f =>
          rw [href] at hv
          simp only [SearchResult.found.injEq] at hv
          rw [hv]
          exact (refSearch_valid _ _ _ (build_noSelfNest _ _ b s.hb) f href).len
    unfold toCaps capsOf Caps.len
    cases b.kind <;> simp [viewSlots_length, hsl]
  | noMatch => rw [hcap] at hcp; simp [expectCaptures] at hcp
  | errLimit => rw [hcap] at hcp; simp [expectCaptures] at hcp
  | errStack => rw [hcap] at hcp; simp [expectCaptures] at hcp
  | panic site => rw [hcap] at hcp; simp [expectCaptures] at hcp
  | outOfFuel => rw [hcap] at hcp; simp [expectCaptures] at hcp

end Fancy
