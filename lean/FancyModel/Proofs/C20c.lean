import FancyModel.GeneratedState
import FancyModel.Proofs.C20b
/-!
# C20 (third part) — the model of the backtracking state is `impl State` of vm.rs

`GeneratedState.lean` is `impl State` (src/vm.rs: `new push pop save get stack_push stack_pop backtrack_count
backtrack_cut`) translated statement by statement by `tools/rs2lean_state.py` on every run of the check. The
generated functions work on the record in the RUST orientation (`stack`, `oldsave` oldest entry first: `Vec::push`
appends); `flip` converts (it is an involution, so the theorems below speak about every Rust-side state).
This file proves, for every method, that the translation is the hand-written operation of Model/State.lean:

* `C20_state_translated_new`, `_push`, `_get`, `_backtrack_count`: equal on every state (exact results);
* `C20_state_translated_pop`: on every state, the same result and a panic exactly where the model says `none`;
* `C20_state_translated_save` (exact, panic site included), `_stack_push`, `_stack_pop`: on every state with
  `nsave ≤ oldsave.length` — part of the invariant `Inv` of reachable states (Lemmas/StateRefine.lean,
  `Inv.nsave_le`). The hypothesis is needed: off it the Rust loop of `save` may find the slot before it would index
  out of range, while the model says `none` at once (`example` below);
* `C20_state_translated_backtrack_cut`: on every state and count, through the literal loop `cutLoop` of Proofs/C20b
  (`genBacktrackCut_lit`: the generated loops are `csub`-fold, `setInsert`-fold and `cutLoopBody`-fold) and
  `C20_backtrackCut_literal`;
* `C20_state_translated_all`: the bundle — with `C05_vm_translated_eq` (Proofs/C05f.lean), whose `genStep` calls exactly
  these model operations, the chain "text of `run` + text of `impl State` → `stepB`" has no hand-written middle
  except the documented adaptors.

A change of meaning in `impl State` changes the generated definitions and breaks these proofs
(notes/translator-state.md lists the mutations that were tried).
-/
set_option linter.unusedSimpArgs false
namespace Fancy
open State GenState

/-- the model's state in the Rust orientation: `stack` and `oldsave` oldest entry first -/
def flip (s : State) : RState := { s with stack := s.stack.reverse, oldsave := s.oldsave.reverse }

@[simp] theorem flip_flip (s : State) : flip (flip s) = s := by simp [flip]

theorem C20_state_translated_new (n m : Nat) : genNew n m = flip (State.new n m) := by
  simp [genNew, flip, State.new]

theorem C20_state_translated_push (s : State) (pc ix : Nat) :
    genPush (flip s) pc ix =
      match s.push pc ix with
      | .ok s' => .ok (flip s') .okUnit
      | .overflow => .ok (flip s) .errStackOverflow := by
  simp only [genPush, State.push, flip, List.length_reverse]
  by_cases h : s.stack.length < s.maxStack <;> simp [h]

theorem C20_state_translated_get (s : State) (slot : Nat) :
    genGet (flip s) slot =
      match s.get slot with
      | some v => .ok (flip s) v
      | none => .panic "get: index" := by
  simp only [genGet, State.get, flip]
  cases s.saves[slot]? <;> rfl

theorem C20_state_translated_backtrack_count (s : State) :
    genBacktrackCount (flip s) = .ok (flip s) s.backtrackCount := by
  simp [genBacktrackCount, State.backtrackCount, flip]

/-! ## `pop` -/

theorem vecPop_reverse {α : Type} (l : List α) :
    vecPop l.reverse = match l with | [] => none | x :: r => some (r.reverse, x) := by
  cases l <;> simp [vecPop]

theorem loopPop_eq (n i : Nat) (r : RState) (log : List (Nat × Nat)) (h : r.oldsave = log.reverse) :
    match restore n log r.saves with
    | none => ∃ m, loopPop n i r = .panic m
    | some (log', saves') => loopPop n i r = .next { r with oldsave := log'.reverse, saves := saves' } := by
  induction n generalizing i r log with
  | zero => simp [restore, loopPop, ← h]
  | succ n ih =>
    cases log with
    | nil => simp [restore, loopPop, h, vecPop]
    | cons e log =>
      obtain ⟨slot, value⟩ := e
      simp only [restore, loopPop, h, vecPop_reverse, vecSet]
      by_cases hs : slot < r.saves.length
      · simp only [hs, if_true]
        exact ih (i + 1) { r with oldsave := log.reverse, saves := r.saves.set slot value } log rfl
      · simp [hs]

theorem C20_state_translated_pop (s : State) :
    (genPop (flip s)).toOption = s.pop.map fun r => (flip r.1, (r.2.1, r.2.2)) := by
  have hl := loopPop_eq s.nsave 0 (flip s) s.oldsave rfl
  simp only [genPop, State.pop, Nat.sub_zero]
  cases hr : restore s.nsave s.oldsave s.saves with
  | none =>
    simp only [flip, hr] at hl
    obtain ⟨m, hm⟩ := hl
    simp [flip, hm, Res.toOption]
  | some p =>
    obtain ⟨log', saves'⟩ := p
    simp only [flip, hr] at hl
    simp only [flip, hl, vecPop_reverse]
    cases s.stack with
    | nil => simp [Res.toOption]
    | cons b rest => simp [Res.toOption, flip]

/-! ## `save` -/

theorem loopSave_eq (slot val n i : Nat) (r : RState) (log : List (Nat × Nat)) (h : r.oldsave = log.reverse)
    (hn : i + n ≤ log.length) :
    loopSave slot val n i r =
      if ((log.drop i).take n).any (fun e => e.1 == slot) then
        match vecSet r.saves slot val with
        | none => .panic "save: index"
        | some t => .ret { r with saves := t } ()
      else .next r := by
  induction n generalizing i with
  | zero => simp [loopSave]
  | succ n ih =>
    have hi : i < log.length := by omega
    have h1 : checkedSub r.oldsave.length i = some (log.length - i) := by
      simp [checkedSub, h]; omega
    have h2 : checkedSub (log.length - i) 1 = some (log.length - i - 1) := by
      simp [checkedSub]; omega
    have h3 : r.oldsave[log.length - i - 1]? = some log[i] := by
      rw [h, List.getElem?_reverse (by omega)]
      have : log.length - 1 - (log.length - i - 1) = i := by omega
      rw [this]; simp [hi]
    have hd : (log.drop i).take (n + 1) = log[i] :: (log.drop (i + 1)).take n := by
      rw [List.drop_eq_getElem_cons hi, List.take_succ_cons]
    simp only [loopSave, h1, h2, h3, hd, List.any_cons]
    by_cases he : log[i].1 = slot
    · simp [he] <;> rfl
    · have : (log[i].1 == slot) = false := by simpa using he
      simp only [this, Bool.false_eq_true, if_false, Bool.false_or]
      exact ih (i + 1) (by omega)

/-- `save`, exactly (the only panic sites left under the precondition are the two accesses `saves[slot]`) -/
theorem C20_state_translated_save (s : State) (slot val : Nat) (h : s.nsave ≤ s.oldsave.length) :
    genSave (flip s) slot val =
      match s.save slot val with
      | some s' => .ok (flip s') ()
      | none => .panic "save: index" := by
  have hl := loopSave_eq slot val (flip s).nsave 0 (flip s) s.oldsave rfl (by simp [flip]; omega)
  have hng : ¬ s.nsave > s.oldsave.length := by omega
  unfold genSave
  rw [Nat.sub_zero, hl]
  simp only [State.save, hng, if_false, List.drop_zero]
  by_cases hs : slot < s.saves.length
  · have hge : ¬ slot ≥ s.saves.length := by omega
    simp only [hge, if_false]
    by_cases ha : (s.oldsave.take s.nsave).any (fun e => e.1 == slot) = true
    · simp [ha, flip, vecSet, hs]
    · simp [ha, flip, vecSet, hs, List.getD_eq_getElem?_getD]
  · have hge : slot ≥ s.saves.length := by omega
    simp only [hge, if_true]
    by_cases ha : (s.oldsave.take s.nsave).any (fun e => e.1 == slot) = true
    · simp [ha, flip, vecSet, hs]
    · simp [ha, flip, vecSet, hs, List.getElem?_eq_none hge]

theorem save_nsave_le {s s' : State} {slot val : Nat} (h : s.save slot val = some s')
    (hle : s.nsave ≤ s.oldsave.length) : s'.nsave ≤ s'.oldsave.length := by
  unfold State.save at h
  split at h
  · cases h
  · split at h
    · cases h
    · split at h <;> (injection h with h; subst h; simp; try omega)

/-! ## the explicit stack -/

theorem genGet_eq (r : RState) (slot : Nat) :
    genGet r slot = match (flip r).get slot with | some v => .ok r v | none => .panic "get: index" := by
  have := C20_state_translated_get (flip r) slot
  rwa [flip_flip] at this

theorem genSave_eq (r : RState) (slot val : Nat) (h : r.nsave ≤ r.oldsave.length) :
    genSave r slot val =
      match (flip r).save slot val with | some s' => .ok (flip s') () | none => .panic "save: index" := by
  have := C20_state_translated_save (flip r) slot val (by simpa [flip] using h)
  rwa [flip_flip] at this

/-- the part of `stack_push` after the first `if`, on both sides -/
theorem stack_push_tail (s1 : State) (val : Nat) (h : s1.nsave ≤ s1.oldsave.length) (X : Res Unit)
    (hX : X = match genGet (flip s1) s1.explicitSp with
      | .panic m => .panic m
      | .ok _ sp =>
        if (flip s1).saves.length == sp then
          match genSave { flip s1 with saves := (flip s1).saves ++ [val] } s1.explicitSp (sp + 1) with
          | .panic m => .panic m
          | .ok self _ => .ok self ()
        else
          match genSave (flip s1) sp val with
          | .panic m => .panic m
          | .ok self _ =>
            match genSave self s1.explicitSp (sp + 1) with
            | .panic m => .panic m
            | .ok self _ => .ok self ()) :
    X.toOption = Option.map (fun s' => (flip s', ()))
      (match s1.get s1.explicitSp with
      | none => none
      | some sp =>
        match (if s1.saves.length == sp then some { s1 with saves := s1.saves ++ [val] } else s1.save sp val) with
        | none => none
        | some s' => s'.save s1.explicitSp (sp + 1)) := by
  subst hX
  rw [C20_state_translated_get]
  cases s1.get s1.explicitSp with
  | none => simp [Res.toOption]
  | some sp =>
    simp only
    have e1 : (flip s1).saves = s1.saves := rfl
    rw [e1]
    by_cases hc : s1.saves.length = sp
    · simp only [hc, beq_self_eq_true, if_true]
      rw [show ({ flip s1 with saves := s1.saves ++ [val] } : RState) = flip { s1 with saves := s1.saves ++ [val] } from rfl,
        C20_state_translated_save _ _ _ (by simpa using h)]
      cases State.save { s1 with saves := s1.saves ++ [val] } s1.explicitSp (sp + 1) <;> simp [Res.toOption]
    · have hb : (s1.saves.length == sp) = false := by simpa using hc
      simp only [hb, Bool.false_eq_true, if_false]
      rw [C20_state_translated_save _ _ _ h]
      cases hs : s1.save sp val with
      | none => simp [Res.toOption]
      | some s2 =>
        simp only
        rw [C20_state_translated_save _ _ _ (save_nsave_le hs h)]
        cases s2.save s1.explicitSp (sp + 1) <;> simp [Res.toOption]

theorem C20_state_translated_stack_push (s : State) (val : Nat) (h : s.nsave ≤ s.oldsave.length) :
    (genStackPush (flip s) val).toOption = (s.stackPush val).map fun s' => (flip s', ()) := by
  unfold State.stackPush
  by_cases hc : s.saves.length = s.explicitSp
  · have hb : (s.saves.length == s.explicitSp) = true := by simpa using hc
    simp only [hb, if_true]
    exact stack_push_tail { s with saves := s.saves ++ [s.explicitSp + 1] } val h _
      (by unfold genStackPush; simp only [show (flip s).saves = s.saves from rfl,
            show (flip s).explicitSp = s.explicitSp from rfl, hb, if_true]; rfl)
  · have hb : (s.saves.length == s.explicitSp) = false := by simpa using hc
    simp only [hb, Bool.false_eq_true, if_false]
    exact stack_push_tail s val h _
      (by unfold genStackPush; simp only [show (flip s).saves = s.saves from rfl,
            show (flip s).explicitSp = s.explicitSp from rfl, hb, Bool.false_eq_true, if_false]; rfl)

theorem C20_state_translated_stack_pop (s : State) (h : s.nsave ≤ s.oldsave.length) :
    (genStackPop (flip s)).toOption = s.stackPop.map fun r => (flip r.1, r.2) := by
  unfold genStackPop State.stackPop
  simp only [show (flip s).explicitSp = s.explicitSp from rfl, C20_state_translated_get]
  cases s.get s.explicitSp with
  | none => simp [Res.toOption]
  | some sp1 =>
    cases sp1 with
    | zero => simp [Res.toOption, checkedSub]
    | succ sp =>
      simp only [checkedSub, Nat.le_add_left, if_true, Nat.add_sub_cancel]
      cases s.get sp with
      | none => simp [Res.toOption]
      | some result =>
        simp only [C20_state_translated_save _ _ _ h]
        cases s.save s.explicitSp sp <;> simp [Res.toOption]

/-! ## `backtrack_cut` -/

theorem loopBacktrackCut_eq (l : List Branch) (e : Nat) :
    loopBacktrackCut l e =
      match l.foldlM (fun e b => csub e b.nsave) e with
      | some e' => .next e'
      | none => .panic "backtrack_cut: sub" := by
  induction l generalizing e with
  | nil => simp [loopBacktrackCut]
  | cons b l ih =>
    simp only [loopBacktrackCut, List.foldlM_cons, checkedSub, csub]
    by_cases h : b.nsave ≤ e
    · simp only [h, if_true, Option.bind_eq_bind, Option.bind_some]; exact ih _
    · simp [h]

theorem loopBacktrackCut2_eq (l : List (Nat × Nat)) (saved : List Nat) :
    loopBacktrackCut2 l saved = .next (l.foldl (fun sv e => (setInsert sv e.1).2) saved) := by
  induction l generalizing saved with
  | nil => simp [loopBacktrackCut2]
  | cons e l ih =>
    simp only [loopBacktrackCut2, List.foldl_cons]
    exact ih _

theorem loopBacktrackCut3_eq (n ix w : Nat) (r : RState) (saved : List Nat) :
    match (List.range' ix n).foldlM cutLoopBody (w, saved, r.oldsave) with
    | some st => loopBacktrackCut3 n ix (r, w, saved) = .next ({ r with oldsave := st.2.2 }, st.1, st.2.1)
    | none => ∃ m, loopBacktrackCut3 n ix (r, w, saved) = .panic m := by
  induction n generalizing ix w r saved with
  | zero => simp [loopBacktrackCut3]
  | succ n ih =>
    simp only [List.range'_succ, List.foldlM_cons, loopBacktrackCut3, cutLoopBody]
    cases hget : r.oldsave[ix]? with
    | none => simp
    | some e =>
      simp only [Option.bind_eq_bind]
      have hins : btreeInsert saved e.1 = setInsert saved e.1 := rfl
      rw [hins]
      cases hnew : (setInsert saved e.1).1 with
      | false =>
        simp only [Bool.false_eq_true, if_false, Option.bind_some]
        exact ih (ix + 1) w r _
      | true =>
        simp only [if_true]
        have hsw : vecSwap r.oldsave w ix = swapAt r.oldsave w ix := rfl
        rw [hsw]
        cases swapAt r.oldsave w ix with
        | none => simp
        | some v' =>
          simp only [Option.map_some, Option.bind_some]
          exact ih (ix + 1) (w + 1) { r with oldsave := v' } _

theorem genBacktrackCut_lit (s : State) (count : Nat) :
    (genBacktrackCut (flip s) count).toOption = (backtrackCutLit s count).map fun s' => (flip s', ()) := by
  unfold genBacktrackCut backtrackCutLit
  simp only [show (flip s).stack = s.stack.reverse from rfl, show (flip s).oldsave = s.oldsave.reverse from rfl,
    show (flip s).nsave = s.nsave from rfl, List.length_reverse]
  by_cases hc : s.stack.length = count
  · simp [hc, Res.toOption]
  · have hb : (s.stack.length == count) = false := by simpa using hc
    simp only [hb, Bool.false_eq_true, if_false]
    have hcs : ∀ a b, checkedSub a b = csub a b := fun _ _ => rfl
    simp only [hcs]
    cases he0 : csub s.oldsave.length s.nsave with
    | none => by_cases hlt : s.stack.length < count + 1 <;> simp [hlt, Res.toOption]
    | some e0 =>
      simp only [Option.bind_some]
      by_cases hlt : s.stack.length < count + 1
      · have hsf : sliceFrom s.stack.reverse (count + 1) = none := by simp [sliceFrom]; omega
        simp [hlt, hsf, Res.toOption]
      · have hsf : sliceFrom s.stack.reverse (count + 1) = some (s.stack.reverse.drop (count + 1)) := by
          simp [sliceFrom]; omega
        simp only [hlt, hsf, if_false, loopBacktrackCut_eq]
        cases hend : (s.stack.reverse.drop (count + 1)).foldlM (fun e b => csub e b.nsave) e0 with
        | none => simp [Res.toOption]
        | some end_ =>
          simp only [Option.bind_some]
          cases hbr : s.stack.reverse[count]? with
          | none => simp [Res.toOption]
          | some b =>
            simp only [Option.bind_some]
            cases hstart : csub end_ b.nsave with
            | none => simp [Res.toOption]
            | some start =>
              simp only [Option.bind_some]
              by_cases hcond : start ≤ end_ ∧ end_ ≤ s.oldsave.length
              · have hsr : sliceRange s.oldsave.reverse start end_ =
                    some ((s.oldsave.reverse.drop start).take (end_ - start)) := by simp [sliceRange, hcond]
                have hk := C20_cutLoop_eq_cutKeep s.oldsave.reverse start end_
                have hcl : cutLoop s.oldsave.reverse start end_ =
                    ((List.range' end_ (s.oldsave.length - end_)).foldlM cutLoopBody
                      (end_, ((s.oldsave.reverse.drop start).take (end_ - start)).foldl
                        (fun sv e => (setInsert sv e.1).2) [], s.oldsave.reverse)).map
                      fun st => (st.2.2.take st.1, st.1) := by
                  simp [cutLoop, hcond]
                have hcond' : start ≤ end_ ∧ end_ ≤ s.oldsave.reverse.length := by simpa using hcond
                rw [if_pos hcond'] at hk
                simp only [hsr, loopBacktrackCut2_eq, hcl]
                rw [hcl] at hk
                have h3 := loopBacktrackCut3_eq (s.oldsave.length - end_) end_ end_ (flip s)
                  (((s.oldsave.reverse.drop start).take (end_ - start)).foldl (fun sv e => (setInsert sv e.1).2) [])
                simp only [show (flip s).oldsave = s.oldsave.reverse from rfl] at h3
                cases hfold : (List.range' end_ (s.oldsave.length - end_)).foldlM cutLoopBody
                    (end_, ((s.oldsave.reverse.drop start).take (end_ - start)).foldl
                      (fun sv e => (setInsert sv e.1).2) [], s.oldsave.reverse) with
                | none =>
                  rw [hfold] at h3
                  obtain ⟨m, hm⟩ := h3
                  simp [hm, Res.toOption]
                | some st =>
                  rw [hfold] at h3 hk
                  simp only [Option.map_some, Option.some.injEq, Prod.mk.injEq] at hk
                  have hge : start ≤ st.1 := by omega
                  simp only [h3, csub, hge, ↓reduceIte, Option.map_some, Option.bind_some, Res.toOption]
                  simp [flip]
              · have hsr : sliceRange s.oldsave.reverse start end_ = none := by simp [sliceRange, hcond]
                have hcl : cutLoop s.oldsave.reverse start end_ = none := by simp [cutLoop, hcond]
                simp [hsr, hcl, Res.toOption]

/-- **`backtrack_cut` as translated is the model's `backtrackCut`**, on every state and count (through the literal
    loop `cutLoop` of Proofs/C20b and `C20_backtrackCut_literal`) -/
theorem C20_state_translated_backtrack_cut (s : State) (count : Nat) :
    (genBacktrackCut (flip s) count).toOption = (s.backtrackCut count).map fun s' => (flip s', ()) := by
  rw [genBacktrackCut_lit, C20_backtrackCut_literal]

/-! ## the bundle -/

theorem Inv.nsave_le {s : State} (h : Inv s) : s.nsave ≤ s.oldsave.length := by
  have := h.len; omega

/-- every operation of the VM's vocabulary, as translated from `impl State`, is the model's operation (on the states
    the interpreter reaches: `Inv`) -/
theorem C20_state_translated_all (s : State) (hi : Inv s) :
    (∀ pc ix, genPush (flip s) pc ix = match s.push pc ix with
        | .ok s' => .ok (flip s') .okUnit | .overflow => .ok (flip s) .errStackOverflow) ∧
    (genPop (flip s)).toOption = (s.pop.map fun r => (flip r.1, (r.2.1, r.2.2))) ∧
    (∀ slot val, (genSave (flip s) slot val).toOption = (s.save slot val).map fun s' => (flip s', ())) ∧
    (∀ slot, (genGet (flip s) slot).toOption = (s.get slot).map fun v => (flip s, v)) ∧
    (∀ val, (genStackPush (flip s) val).toOption = (s.stackPush val).map fun s' => (flip s', ())) ∧
    (genStackPop (flip s)).toOption = (s.stackPop.map fun r => (flip r.1, r.2)) ∧
    (genBacktrackCount (flip s)).toOption = some (flip s, s.backtrackCount) ∧
    (∀ count, (genBacktrackCut (flip s) count).toOption = (s.backtrackCut count).map fun s' => (flip s', ())) := by
  have hle := hi.nsave_le
  refine ⟨C20_state_translated_push s, C20_state_translated_pop s, ?_, ?_, fun v => C20_state_translated_stack_push s v hle,
    C20_state_translated_stack_pop s hle, ?_, C20_state_translated_backtrack_cut s⟩
  · intro slot val
    rw [C20_state_translated_save s slot val hle]
    cases s.save slot val <;> rfl
  · intro slot
    rw [C20_state_translated_get]
    cases s.get slot <;> rfl
  · rw [C20_state_translated_backtrack_count]; rfl

/-! ## non-vacuity, and why `save` needs its hypothesis -/

/-- the log of Proofs/C20b (`exCut`) through the TRANSLATED `backtrack_cut`: the swaps really happen -/
example : (genBacktrackCut (flip exCut) 1).toOption =
    some (flip ⟨[5, 6, 7], [⟨0, 0, 0⟩], [(2, 14), (1, 12), (0, 10)], 3, 3, 10⟩, ()) := by decide

example : (genSave (flip exCut) 1 9).toOption = (exCut.save 1 9).map fun s' => (flip s', ()) := by decide
example : (genPop (flip exCut)).toOption = exCut.pop.map fun r => (flip r.1, (r.2.1, r.2.2)) := by decide

/-- off the invariant (`nsave = 5` with one log entry): the Rust loop finds slot 0 at `i = 0` and returns; the model
    checks `nsave > oldsave.len()` first -/
example : (genSave (flip ⟨[7], [], [(0, 1)], 5, 1, 10⟩) 0 9).toOption = some (flip ⟨[9], [], [(0, 1)], 5, 1, 10⟩, ()) ∧
    State.save ⟨[7], [], [(0, 1)], 5, 1, 10⟩ 0 9 = none := by decide

end Fancy
