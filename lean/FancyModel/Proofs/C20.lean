import FancyModel.Lemmas.StateRefine
/-!
# C20 — backtracking restores, and atomic commit preserves, exactly the right state

The reference the property describes is `AState`: the current slot values and a stack of *whole
copies*, one per pending alternative. `abs` maps the VM's copy-on-write undo log (`State`, the
mirror of `vm::State`) to it. `C20_refines` says: for **every** sequence of operations on which the
whole-copy reference is defined (no abandon without an alternative, slots in range, commits to an
existing height, stack cap respected), the undo-log state is defined too and abstracts to the
reference state after every step. The corollaries restate the property's clauses.

Modelled, not proved here: the in-place `swap` compaction of `backtrack_cut` is modelled by the
order-preserving filter `cutKeep` (tied to the code by the `state` correspondence, which compares
the undo log itself after every step); the auxiliary stack lives in ordinary slots and is covered
through `save`.
-/
namespace Fancy
open State

inductive Op where
  | push (pc ix : Nat)          -- create an alternative
  | pop                         -- abandon the current alternative
  | save (slot val : Nat)       -- write a slot (capture position, counter, saved position)
  | cut (count : Nat)           -- commit: discard the alternatives above height `count`
deriving Repr, DecidableEq

/-- one operation on the undo-log state (`none`: the Rust code would panic / report overflow) -/
def applyOp (s : State) : Op → Option State
  | .push pc ix => match s.push pc ix with | .ok s' => some s' | .overflow => none
  | .pop => (s.pop).map (·.1)
  | .save slot val => s.save slot val
  | .cut count => s.backtrackCut count

def run (s : State) : List Op → Option State
  | [] => some s
  | op :: ops => (applyOp s op).bind fun s' => run s' ops

/-- one operation on the whole-copy reference; `none` when the operation makes no sense there -/
def aApplyOp (maxStack : Nat) (a : AState) : Op → Option AState
  | .push pc ix => if a.stack.length < maxStack then some (a.push pc ix) else none
  | .pop => (a.pop).map (·.1)
  | .save slot val => if slot < a.saves.length then some (a.save slot val) else none
  | .cut count => if count ≤ a.stack.length then some (a.cut count) else none

def arun (maxStack : Nat) (a : AState) : List Op → Option AState
  | [] => some a
  | op :: ops => (aApplyOp maxStack a op).bind fun a' => arun maxStack a' ops

theorem abs_stack_length (s : State) : (abs s).stack.length = s.stack.length := by
  simp [abs, absStack_length]

/-- one step of the refinement -/
theorem C20_step (s : State) (hi : Inv s) (op : Op) (a' : AState)
    (h : aApplyOp s.maxStack (abs s) op = some a') :
    ∃ s', applyOp s op = some s' ∧ abs s' = a' ∧ Inv s' ∧ s'.maxStack = s.maxStack := by
  cases op with
  | push pc ix =>
    simp only [aApplyOp, abs_stack_length] at h
    split at h
    · rename_i hlt
      cases h
      have hp : s.push pc ix = .ok { s with stack := ⟨pc, ix, s.nsave⟩ :: s.stack, nsave := 0 } := by
        simp [State.push, hlt]
      exact ⟨_, by simp [applyOp, hp], abs_push _ _ _ _ hp, inv_push _ _ _ _ hi hp, rfl⟩
    · cases h
  | pop =>
    simp only [aApplyOp] at h
    cases hst : s.stack with
    | nil => simp [abs, hst, absStack, AState.pop] at h
    | cons b rest =>
      obtain ⟨s', h1, h2, h3, h4⟩ := pop_spec s hi b rest hst
      rw [h2] at h
      simp only [Option.map_some, Option.some.injEq] at h
      exact ⟨s', by simp [applyOp, h1], h, h3, h4⟩
  | save slot val =>
    simp only [aApplyOp] at h
    split at h
    · rename_i hlt
      cases h
      obtain ⟨s', h1, h2, h3, h4⟩ := save_spec s hi slot val (by simpa [abs] using hlt)
      exact ⟨s', by simp [applyOp, h1], h2, h3, h4⟩
    · cases h
  | cut count =>
    simp only [aApplyOp, abs_stack_length] at h
    split at h
    · rename_i hle
      cases h
      obtain ⟨s', h1, h2, h3, h4⟩ := cut_spec s hi count hle
      exact ⟨s', by simp [applyOp, h1], h2, h3, h4⟩
    · cases h

/-- **C20, main theorem.** For every operation sequence on which the whole-copy reference is
    defined, the undo-log state is defined and abstracts to the reference state. -/
theorem C20_refines (ops : List Op) (s : State) (hi : Inv s) (a' : AState)
    (h : arun s.maxStack (abs s) ops = some a') :
    ∃ s', run s ops = some s' ∧ abs s' = a' ∧ Inv s' := by
  induction ops generalizing s with
  | nil =>
    simp only [arun, Option.some.injEq] at h
    exact ⟨s, rfl, h, hi⟩
  | cons op ops ih =>
    simp only [arun] at h
    cases h1 : aApplyOp s.maxStack (abs s) op with
    | none => simp [h1] at h
    | some a1 =>
      simp only [h1, Option.bind_some] at h
      obtain ⟨s1, hs1, habs, hinv, hmax⟩ := C20_step s hi op a1 h1
      rw [← habs, ← hmax] at h
      obtain ⟨s', hr, ha, hi'⟩ := ih s1 hinv h
      exact ⟨s', by simp [run, hs1, hr], ha, hi'⟩

/-- the initial state of a run satisfies the invariant and abstracts to "all slots unset, no
    alternatives" -/
theorem C20_init (n m : Nat) : Inv (State.new n m) ∧ abs (State.new n m) = ⟨List.replicate n UNSET, []⟩ := by
  refine ⟨⟨by simp [State.new, sumNsave], by simp [State.new]⟩, ?_⟩
  simp [abs, State.new, absStack]

/-- every state reachable from the initial one by a reference-valid sequence -/
theorem C20_reachable (n m : Nat) (ops : List Op) (a' : AState)
    (h : arun m ⟨List.replicate n UNSET, []⟩ ops = some a') :
    ∃ s', run (State.new n m) ops = some s' ∧ abs s' = a' := by
  obtain ⟨hi, ha⟩ := C20_init n m
  have h' : arun (State.new n m).maxStack (abs (State.new n m)) ops = some a' := by
    rw [ha]; exact h
  obtain ⟨s', h1, h2, _⟩ := C20_refines ops (State.new n m) hi a' h'
  exact ⟨s', h1, h2⟩

/-! ### The property's clauses, read off the reference -/

/-- abandoning an alternative restores *every* slot to the value it had when the alternative was
    created, whatever slot writes happened in between (the reference keeps a whole copy) -/
theorem C20_abandon_restores (s : State) (hi : Inv s) (pc ix : Nat) (writes : List (Nat × Nat))
    (hroom : s.stack.length < s.maxStack) (hin : ∀ w ∈ writes, w.1 < s.saves.length) :
    ∃ s', run s (.push pc ix :: (writes.map fun w => Op.save w.1 w.2) ++ [.pop]) = some s' ∧
      s'.saves = s.saves ∧ abs s' = abs s := by
  -- run the reference
  have href : ∀ (ws : List (Nat × Nat)) (a : AState), (∀ w ∈ ws, w.1 < a.saves.length) →
      ∃ sv, sv.length = a.saves.length ∧
        arun s.maxStack a (ws.map fun w => Op.save w.1 w.2) = some ⟨sv, a.stack⟩ := by
    intro ws
    induction ws with
    | nil => intro a _; exact ⟨a.saves, rfl, by simp [arun]⟩
    | cons w ws ih =>
      intro a hw
      have h1 : w.1 < a.saves.length := hw w (by simp)
      obtain ⟨sv, hl, hr⟩ := ih (a.save w.1 w.2) (by
        intro w' hw'; simpa [AState.save] using hw w' (by simp [hw']))
      refine ⟨sv, by simpa [AState.save] using hl, ?_⟩
      simp only [List.map_cons, arun, aApplyOp, h1, ↓reduceIte, Option.bind_some]
      simpa [AState.save] using hr
  obtain ⟨sv, _, hr⟩ := href writes ((abs s).push pc ix) (by simpa [AState.push, abs] using hin)
  have hall : arun s.maxStack (abs s) (.push pc ix :: (writes.map fun w => Op.save w.1 w.2) ++ [.pop])
      = some (abs s) := by
    have hroom' : (abs s).stack.length < s.maxStack := by rw [abs_stack_length]; exact hroom
    simp only [List.cons_append, arun, aApplyOp, hroom', ↓reduceIte, Option.bind_some]
    have happ : ∀ (l1 l2 : List Op) (a a1 : AState), arun s.maxStack a l1 = some a1 →
        arun s.maxStack a (l1 ++ l2) = arun s.maxStack a1 l2 := by
      intro l1
      induction l1 with
      | nil => intro l2 a a1 h; simp only [arun, Option.some.injEq] at h; subst h; rfl
      | cons o os ih =>
        intro l2 a a1 h
        simp only [arun] at h
        cases ho : aApplyOp s.maxStack a o with
        | none => simp [ho] at h
        | some a2 =>
          simp only [ho, Option.bind_some] at h
          simp only [List.cons_append, arun, ho, Option.bind_some]
          exact ih l2 a2 a1 h
    rw [happ _ _ _ _ hr]
    simp [arun, aApplyOp, AState.pop, AState.push]
  obtain ⟨s', h1, h2, _⟩ := C20_refines _ s hi (abs s) hall
  refine ⟨s', h1, ?_, h2⟩
  have := congrArg AState.saves h2
  simpa [abs] using this

/-- committing keeps the current values, discards exactly the alternatives created above the
    recorded height and none older (their saved copies are untouched, so a later abandon still
    restores the pre-group values) -/
theorem C20_commit_keeps (s : State) (hi : Inv s) (count : Nat) (hc : count ≤ s.stack.length) :
    ∃ s', s.backtrackCut count = some s' ∧ s'.saves = s.saves ∧
      (abs s').stack = (abs s).stack.drop (s.stack.length - count) ∧ s'.stack.length = count := by
  obtain ⟨s', h1, h2, _, _⟩ := cut_spec s hi count hc
  refine ⟨s', h1, ?_, ?_, ?_⟩
  · have := congrArg AState.saves h2; simpa [abs, AState.cut] using this
  · have := congrArg AState.stack h2
    simpa [AState.cut, abs_stack_length] using this
  · have := congrArg (fun a => a.stack.length) h2
    simp only [abs_stack_length, AState.cut, List.length_drop] at this
    omega

/-! ### Non-vacuity: the sequence of the crate's own `state_backtrack_cut_complex` unit test -/

example :
    (run (State.new 2 10) [.save 0 1, .save 1 2, .push 0 0, .save 0 3, .push 1 1, .save 0 4, .push 2 2,
        .save 1 5, .cut 1, .pop]).map (·.saves) = some [1, 2] := by
  decide

example : arun 10 ⟨List.replicate 2 UNSET, []⟩
    [.save 0 1, .save 1 2, .push 0 0, .save 0 3, .push 1 1, .save 0 4, .push 2 2, .save 1 5, .cut 1, .pop]
    = some ⟨[1, 2], []⟩ := by
  decide

end Fancy
